package main

// C06, CLI level: `desync make`, `chop`, `cache` and `tar -i` write to an HTTP chunk server run by the
// harness that answers chosen requests (the k-th HEAD / PUT) with 500.  Observables: exit status;
// after exit 0 the produced index and a full read-back of its chunks from the server's directory
// through a fresh verifying LocalStore.  Predicates: exit 0 => complete; failure delivered => exit != 0;
// no failure delivered => exit 0.

import (
	"bytes"
	"context"
	"fmt"
	"io"
	"net/http"
	"net/http/httptest"
	"os"
	"os/exec"
	"path/filepath"
	"strconv"
	"strings"
	"sync"
	"time"

	"github.com/folbricht/desync"

	"vh/internal/vh"
)

type c06Server struct {
	dir       string
	mu        sync.Mutex
	fail      map[string]map[int]bool // method -> request numbers answered with 500
	count     map[string]int
	delivered int
}

func (s *c06Server) ServeHTTP(w http.ResponseWriter, r *http.Request) {
	s.mu.Lock()
	s.count[r.Method]++
	bad := s.fail[r.Method][s.count[r.Method]]
	if bad {
		s.delivered++
	}
	s.mu.Unlock()
	if bad {
		io.Copy(io.Discard, r.Body)
		http.Error(w, "injected failure", http.StatusInternalServerError)
		return
	}
	p := filepath.Join(s.dir, filepath.FromSlash(filepath.Clean("/"+r.URL.Path)))
	switch r.Method {
	case "GET", "HEAD":
		b, err := os.ReadFile(p)
		if err != nil {
			http.NotFound(w, r)
			return
		}
		w.WriteHeader(200)
		if r.Method == "GET" {
			w.Write(b)
		}
	case "PUT":
		b, err := io.ReadAll(r.Body)
		if err != nil {
			http.Error(w, err.Error(), 400)
			return
		}
		os.MkdirAll(filepath.Dir(p), 0755)
		tmp := p + ".tmp" + strconv.Itoa(int(time.Now().UnixNano()%1e9))
		if err := os.WriteFile(tmp, b, 0644); err != nil {
			http.Error(w, err.Error(), 500)
			return
		}
		os.Rename(tmp, p)
		w.WriteHeader(200)
	default:
		http.Error(w, "method", 405)
	}
}

// c06CLICase: Op = make | chop | cache | tar ; Faults kinds are HTTP methods ("HEAD", "PUT").
func c06CLICase(a vh.Args, r *vh.Result, c *c06Case) error {
	bin := os.Getenv("VH_DESYNC")
	if bin == "" {
		return nil
	}
	desync.Digest = desync.SHA512256{}
	sha256 := c.Variant == "sha256" // the command runs with --digest sha256; everything is read back with the same option
	if sha256 {
		desync.Digest = desync.SHA256{}
		defer func() { desync.Digest = desync.SHA512256{} }()
	}
	in := c.input()
	work := filepath.Join(a.Work, "c06cli")
	os.RemoveAll(work)
	sdir := filepath.Join(work, "server")
	if err := os.MkdirAll(sdir, 0755); err != nil {
		return err
	}
	srv := &c06Server{dir: sdir, fail: map[string]map[int]bool{}, count: map[string]int{}}
	for _, f := range c.Faults {
		if srv.fail[f.Kind] == nil {
			srv.fail[f.Kind] = map[int]bool{}
		}
		srv.fail[f.Kind][f.K] = true
	}
	ts := httptest.NewServer(srv)
	defer ts.Close()
	file := filepath.Join(work, "file")
	if err := os.WriteFile(file, in.Blob, 0644); err != nil {
		return err
	}
	idxFile := filepath.Join(work, "out.caibx")
	common := []string{"-s", ts.URL + "/", "-n", strconv.Itoa(c.N), "-e", "1", "-b", "1ms"}
	sizes := fmt.Sprintf("%d:%d:%d", c.Min/1024, c.Avg/1024, c.Max/1024)
	var args []string
	var expect desync.Index // what must be readable afterwards
	var produced bool       // does the command write idxFile
	var archive []byte
	switch c.Op {
	case "make":
		args = append([]string{"make"}, common...)
		args = append(args, "-m", sizes, idxFile, file)
		produced = true
	case "chop", "cache":
		idx, err := c06SeqIndex(in.Blob, c.Min, c.Avg, c.Max)
		if err != nil {
			return err
		}
		idx.Index = desync.FormatIndex{FeatureFlags: desync.CaFormatExcludeNoDump | desync.CaFormatSHA512256, ChunkSizeMin: c.Min, ChunkSizeAvg: c.Avg, ChunkSizeMax: c.Max}
		expect = idx
		f, err := os.Create(idxFile)
		if err != nil {
			return err
		}
		if _, err := idx.WriteTo(f); err != nil {
			return err
		}
		f.Close()
		if c.Op == "chop" {
			args = append([]string{"chop"}, common...)
			args = append(args, idxFile, file)
		} else {
			src, srcDir, err := bkNewStore(work, "src")
			if err != nil {
				return err
			}
			for _, ch := range idx.Chunks {
				if err := src.StoreChunk(desync.NewChunk(in.Blob[ch.Start : ch.Start+ch.Size])); err != nil {
					return err
				}
			}
			args = []string{"cache", "-s", srcDir, "-c", ts.URL + "/", "-n", strconv.Itoa(c.N), "-e", "1", "-b", "1ms", idxFile}
		}
	case "tar":
		// the blob is a catar archive: unpack it to get the source tree
		tree := filepath.Join(work, "tree")
		if err := os.MkdirAll(tree, 0755); err != nil {
			return err
		}
		if err := desync.UnTar(context.Background(), bytes.NewReader(in.Blob), desync.NewLocalFS(tree, c07FSOpt)); err != nil {
			return err
		}
		var buf bytes.Buffer
		if err := desync.Tar(context.Background(), &buf, desync.NewLocalFS(tree, desync.LocalFSOptions{})); err != nil {
			return err
		}
		archive = buf.Bytes()
		idxFile = filepath.Join(work, "out.caidx")
		args = append([]string{"tar", "-i"}, common...)
		args = append(args, "-m", sizes, idxFile, tree)
		produced = true
	default:
		return fmt.Errorf("unknown cli op %q", c.Op)
	}
	if sha256 {
		args = append([]string{"--digest", "sha256"}, args...)
	}
	ctx, cancel := context.WithTimeout(context.Background(), 120*time.Second)
	defer cancel()
	cmd := exec.CommandContext(ctx, bin, args...)
	var stderr bytes.Buffer
	cmd.Stderr = &stderr
	cmd.Env = append(os.Environ(), "HOME="+work)
	err := cmd.Run()
	rc := 0
	if err != nil {
		rc = -1
		if ee, ok := err.(*exec.ExitError); ok {
			rc = ee.ExitCode()
		}
	}
	srv.mu.Lock()
	c.Delivered = srv.delivered
	c.Calls = map[string]int{"HEAD": srv.count["HEAD"], "PUT": srv.count["PUT"], "GET": srv.count["GET"]}
	srv.mu.Unlock()
	c.Got = "exit:" + strconv.Itoa(rc)
	c.Detail = strings.TrimSpace(stderr.String())
	if len(c.Detail) > 300 {
		c.Detail = c.Detail[:300]
	}
	key := fmt.Sprintf("cli|%s|%s|%d|%s", c.Op, c.Variant, c.N, c06FaultTag(c.Faults))
	r.Count(key, c.Delivered > 0 || sha256)
	r.Dist("cli:" + c.Op)
	if sha256 {
		r.Dist("cli:" + c.Op + " --digest sha256")
	}
	r.Dist("cli-result:" + c.Op + "/" + c.Got)
	if rc == 0 {
		blob := in.Blob
		if c.Op == "tar" {
			blob = archive
		}
		if produced {
			f, err := os.Open(idxFile)
			if err != nil {
				r.Fail("predicate", "cli-"+c.Op+"/exit0-but-no-index", fmt.Sprintf("desync %s exited 0 but wrote no index: %v", c.Op, err), c)
				return nil
			}
			expect, err = desync.IndexFromReader(f)
			f.Close()
			if err != nil {
				r.Fail("predicate", "cli-"+c.Op+"/exit0-but-index-unreadable", fmt.Sprintf("desync %s exited 0 but its index cannot be read: %v", c.Op, err), c)
				return nil
			}
			if d := bkIndexDescribes(expect, blob); d != "" {
				r.Fail("predicate", "cli-"+c.Op+"/exit0-but-index-wrong", fmt.Sprintf("desync %s exited 0 but the index does not describe its input: %s", c.Op, d), c)
			}
		}
		if rb := bkReadBack(sdir, expect, nil); rb != "" {
			c.ReadBack = rb
			r.Fail("predicate", "cli-"+c.Op+"/exit0-but-chunk-not-readable", fmt.Sprintf("desync %s (n=%d, failing requests %s) exited 0 but the store is incomplete: %s", c.Op, c.N, c06FaultTag(c.Faults), rb), c)
		}
		if sha256 && produced {
			// the command itself must be able to read its index back with the same options
			var rb []string
			if c.Op == "make" {
				rb = []string{"--digest", "sha256", "verify-index", idxFile, file}
			} else {
				dst := filepath.Join(work, "readback")
				os.MkdirAll(dst, 0755)
				rb = []string{"--digest", "sha256", "untar", "-i", "-s", sdir, "--no-same-owner", idxFile, dst}
			}
			rcmd := exec.Command(bin, rb...)
			var rerr bytes.Buffer
			rcmd.Stderr = &rerr
			rcmd.Env = append(os.Environ(), "HOME="+work)
			if err := rcmd.Run(); err != nil {
				msg := strings.TrimSpace(rerr.String())
				if len(msg) > 200 {
					msg = msg[:200]
				}
				r.Fail("predicate", "cli-"+c.Op+"/index-not-readable-with-same-options", fmt.Sprintf("desync --digest sha256 %s exited 0 but `desync %s` on its index fails: %s", c.Op, strings.Join(rb[:3], " "), msg), c)
			}
		}
		if c.Delivered > 0 {
			r.Fail("predicate", "cli-"+c.Op+"/store-failure-not-reported", fmt.Sprintf("desync %s (n=%d): %d requests were answered with 500 (%s) but the exit status is 0", c.Op, c.N, c.Delivered, c06FaultTag(c.Faults)), c)
		}
	} else if c.Delivered == 0 {
		r.Fail("predicate", "cli-"+c.Op+"/error-without-failure", fmt.Sprintf("desync %s exited %d although no request failed: %s", c.Op, rc, c.Detail), c)
	}
	return nil
}

func c06CLIReplay(a vh.Args, r *vh.Result, c *c06Case) error {
	for i := 0; i < 3; i++ {
		cc := *c
		if err := c06CLICase(a, r, &cc); err != nil {
			return err
		}
	}
	return nil
}

func c06CLI(a vh.Args, r *vh.Result, rng *vh.Rand) error {
	if os.Getenv("VH_DESYNC") == "" {
		r.Note("VH_DESYNC not set: CLI cases skipped")
		return nil
	}
	thorough := a.Tier == "thorough"
	// a file of repeated segments: about 20 chunks of 1-4 kB, most of them duplicates
	seg := rng.Bytes(5000 + rng.Intn(3000))
	var blob []byte
	for i := 0; i < 5; i++ {
		blob = append(blob, seg...)
	}
	blob = append(blob, rng.Bytes(1500)...)
	archive, err := c07MakeArchive(a.Work, rng)
	if err != nil {
		return err
	}
	for _, op := range []string{"make", "chop", "cache", "tar"} {
		ns := []int{1, 4}
		if thorough {
			ns = []int{1, 2, 4, 16}
		}
		for _, n := range ns {
			mk := func(fs []c06Fault) *c06Case {
				c := &c06Case{Op: op, Variant: "ok", N: n, BlobHex: vh.Hex(blob), Min: 1024, Avg: 2048, Max: 4096, Faults: fs, Level: "cli"}
				if op == "tar" {
					c.BlobHex = vh.Hex(archive)
				}
				return c
			}
			base := mk(nil)
			if err := c06CLICase(a, r, base); err != nil {
				return err
			}
			if op == "make" || op == "tar" {
				sc := mk(nil)
				sc.Variant = "sha256"
				if err := c06CLICase(a, r, sc); err != nil {
					return err
				}
			}
			for _, m := range []string{"HEAD", "PUT"} {
				total := base.Calls[m]
				lim := 2
				if thorough {
					lim = 12
				}
				for _, k := range pickKs1(rng, total, lim) {
					if err := c06CLICase(a, r, mk([]c06Fault{{m, k}})); err != nil {
						return err
					}
				}
			}
		}
	}
	return nil
}
