package main

import "vh/internal/vh"

func c06CLI(a vh.Args, r *vh.Result, rng *vh.Rand) error     { return nil }
func c06CLIReplay(a vh.Args, r *vh.Result, c *c06Case) error { return nil }
