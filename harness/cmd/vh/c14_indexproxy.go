package main

// C14 (j) index-proxy: an index server in front of a REMOTE index store (index-server -s http://...):
// RemoteHTTPIndex client -> HTTPIndexHandler -> RemoteHTTPIndex -> scripted upstream.  The upstream
// answers 200 (an index), 404, 5xx, resets the connection or breaks the body off; the client must
// see the index / NoSuchObject / an error respectively - in particular an upstream FAILURE must
// never reach the client as "missing".

import (
	"bytes"
	"fmt"
	"net/http/httptest"
	"net/url"
	"strings"
	"time"

	"github.com/folbricht/desync"

	"vh/internal/vh"
)

func c14IndexProxy(a vh.Args, o *vh.Oracle, r *vh.Result, rng *vh.Rand) error {
	up, err := c14NewScriptSrv()
	if err != nil {
		return err
	}
	defer up.ln.Close()
	idxBytes := c15Index(rng, 4)
	uu, _ := url.Parse("http://" + up.ln.Addr().String() + "/")
	upstream, err := desync.NewRemoteHTTPIndexStore(uu, desync.StoreOptions{ErrorRetry: 1, ErrorRetryBaseInterval: time.Millisecond, Timeout: 5 * time.Second})
	if err != nil {
		return err
	}
	srv := httptest.NewServer(desync.NewHTTPIndexHandler(upstream, false, ""))
	defer srv.Close()
	su, _ := url.Parse(srv.URL)
	cli, err := desync.NewRemoteHTTPIndexStore(su, desync.StoreOptions{ErrorRetry: 1, ErrorRetryBaseInterval: time.Millisecond, Timeout: 5 * time.Second})
	if err != nil {
		return err
	}
	for _, tok := range []string{"200", "404", "500", "503", "reset", "short", "403", "200bad"} {
		up.set([]string{tok, tok, tok, tok}, map[string][]byte{"200": idxBytes, "200bad": []byte("not an index"), "404": []byte("no such index")})
		idx, gerr := cli.GetIndex("a.caibx")
		got := "error"
		if gerr == nil {
			var w bytes.Buffer
			idx.WriteTo(&w)
			got = "data"
			if !bytes.Equal(w.Bytes(), idxBytes) {
				got = "wrong-data"
			}
		} else if _, ok := gerr.(desync.NoSuchObject); ok {
			got = "missing"
		}
		c := &c14Case{Part: "index-proxy", Op: "get", Script: []string{tok}, Got: got}
		r.Count("index-proxy|"+tok, true)
		r.Dist("part:index-proxy")
		r.Dist("index-proxy-result:" + tok + "->" + got)
		r.Sample(map[string]interface{}{"part": "index-proxy", "upstream": tok, "client": got})
		what := fmt.Sprintf("index server in front of a remote index store whose answer is %s: the client's GetIndex reports %s", tok, got)
		switch {
		case tok == "200" && got != "data":
			r.Fail("predicate", "index-proxy/present-not-delivered", what, c)
		case tok == "404" && got != "missing":
			r.Fail("predicate", "index-proxy/missing-reported-error", what+" (a missing index must be reported as NoSuchObject)", c)
		case tok != "200" && tok != "404" && got == "missing":
			r.Fail("predicate", "index-proxy/failure-reported-missing", what+" (an upstream failure must not be reported as missing)", c)
		case tok != "200" && (got == "data" || got == "wrong-data"):
			r.Fail("predicate", "index-proxy/failure-reported-success", what, c)
		}
		if o != nil {
			mt := map[string]string{"reset": "T", "short": "B"}[tok]
			if mt == "" {
				mt = "s" + strings.TrimSuffix(tok, "bad")
				if b := map[string][]byte{"200": idxBytes, "200bad": []byte("not an index")}[tok]; b != nil {
					mt += ":" + vh.Hex(b)
				}
			}
			tab := vh.Hex(idxBytes) + ":" + vh.Hex(idxBytes) + "," + vh.Hex([]byte("not an index")) + ":!"
			ans, err := o.Call("c14.indexproxy", "1", "1", mt+","+mt+","+mt, tab)
			if err != nil {
				return err
			}
			r.Corr()
			c.Model = c14Short(ans)
			if m := strings.SplitN(strings.Split(ans, " ")[0], ":", 2)[0]; m != got {
				r.Fail("corr", "corr:C14/index-proxy", fmt.Sprintf("index proxy, upstream %s: model %s, implementation %s", tok, m, got), c)
			}
		}
	}
	return nil
}
