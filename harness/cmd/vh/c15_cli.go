package main

// C15, CLI level (thorough tier): the same request corpus against `desync chunk-server`
// and `desync index-server` processes ($VH_DESYNC) listening on a free loopback port.
// The handler cannot be wrapped here, so what reaches it is computed with Go's own
// request parser (http.ReadRequest) and http.ServeMux's path cleaning (a request whose
// ESCAPED path is not clean is answered 301 by the mux and never reaches the handler).

import (
	"bufio"
	"bytes"
	"fmt"
	"net"
	"net/http"
	"os"
	"os/exec"
	"path"
	"path/filepath"
	"strings"
	"time"

	"vh/internal/vh"
)

func freePort() (int, error) {
	l, err := net.Listen("tcp", "127.0.0.1:0")
	if err != nil {
		return 0, err
	}
	defer l.Close()
	return l.Addr().(*net.TCPAddr).Port, nil
}

func c15StartCLI(root string, cfg c15Cfg, st *c15State) (*c15Env, error) {
	bin := os.Getenv("VH_DESYNC")
	if bin == "" {
		return nil, nil
	}
	if err := c15Build(root, cfg, st); err != nil {
		return nil, err
	}
	port, err := freePort()
	if err != nil {
		return nil, err
	}
	addr := fmt.Sprintf("127.0.0.1:%d", port)
	args := []string{"--digest", "sha256"}
	if cfg.Kind == "chunk" {
		args = append(args, "chunk-server", "-s", filepath.Join(root, "store"), "-l", addr)
		switch {
		case !cfg.Plumbing:
			args = append(args, fmt.Sprintf("--skip-verify-write=%v", cfg.SkipVerifyWrite), "--skip-verify-read=false")
		default:
			// plumbing cases: each flag is given only when it differs from its default (true)
			if !cfg.SkipVerifyWrite {
				args = append(args, "--skip-verify-write=false")
			}
			if cfg.SkipVerifyRead != "default" {
				args = append(args, "--skip-verify-read="+cfg.SkipVerifyRead)
			}
		}
		if !cfg.Compressed {
			args = append(args, "-u")
		}
	} else {
		args = append(args, "index-server", "-s", filepath.Join(root, "store"), "-l", addr)
	}
	if cfg.Writable {
		args = append(args, "-w")
	}
	// the value comes from --authorization (chunk server) or from DESYNC_HTTP_AUTH (index server)
	envAuth := ""
	switch {
	case cfg.Plumbing:
		if cfg.AuthFlag != "" {
			args = append(args, "--authorization", cfg.AuthFlag)
		}
		envAuth = cfg.AuthEnv
	case cfg.Auth != "" && cfg.Kind == "chunk":
		args = append(args, "--authorization", cfg.Auth)
	default:
		envAuth = cfg.Auth
	}
	cmd := exec.Command(bin, args...)
	cmd.Env = append(os.Environ(), "DESYNC_HTTP_AUTH="+envAuth)
	var stderr bytes.Buffer
	cmd.Stderr = &stderr
	if err := cmd.Start(); err != nil {
		return nil, err
	}
	done := make(chan struct{})
	go func() { cmd.Wait(); close(done) }()
	e := &c15Env{cfg: cfg, root: root, state: st, addr: addr}
	e.stop = func() {
		cmd.Process.Kill()
		select {
		case <-done:
		case <-time.After(5 * time.Second):
		}
	}
	for i := 0; i < 200; i++ {
		select {
		case <-done:
			return nil, fmt.Errorf("desync %v exited: %s", args, stderr.String())
		default:
		}
		if c, err := net.DialTimeout("tcp", addr, 200*time.Millisecond); err == nil {
			c.Close()
			return e, nil
		}
		time.Sleep(25 * time.Millisecond)
	}
	e.stop()
	return nil, fmt.Errorf("desync %v did not start listening: %s", args, stderr.String())
}

// http.ServeMux's cleanPath
func muxCleanPath(p string) string {
	if p == "" {
		return "/"
	}
	if p[0] != '/' {
		p = "/" + p
	}
	np := path.Clean(p)
	if p[len(p)-1] == '/' && np != "/" {
		if len(p) == len(np)+1 && p[:len(np)] == np {
			np = p
		} else {
			np += "/"
		}
	}
	return np
}

func c15DoCLI(a vh.Args, o *vh.Oracle, r *vh.Result, e *c15Env, c *c15Case) error {
	reqBody := vh.UnHex(c.BodyHex)
	raw := c15Raw(c.Method, c.Target, c.Headers, reqBody)
	pre := c15Snapshot(e.root)
	status, body := c15Send(e.addr, raw, c.Method)
	post := c15Snapshot(e.root)
	c.Status = status
	c.Changed = c15Diff(pre, post)
	key := fmt.Sprintf("%s|%v|%s|%s|%v|%d", c.Level, c.Cfg, c.Method, c.Target, c.Headers, len(reqBody))
	r.Count(key, true)
	r.Dist("kind:" + c.Cfg.Kind)
	r.Dist("level:" + c.Level)
	r.Dist("method:" + c.Method)
	r.Dist(fmt.Sprintf("status:%d", status))
	c15Predicate(r, c, pre, post, status, body, reqBody)
	var err error
	// what reaches the handler
	req, perr := http.ReadRequest(bufio.NewReader(bytes.NewReader(raw)))
	// the server's own readRequest is stricter than http.ReadRequest: header field names must be tokens
	badHeader := false
	if perr == nil {
		for k := range req.Header {
			if !c15IsToken(k) {
				badHeader = true
			}
		}
	}
	switch {
	case perr != nil || badHeader || (c.Target == "*" && c.Method == "OPTIONS"):
		r.Dist("nethttp:rejected-before-handler")
		if len(c.Changed) > 0 {
			r.Fail("predicate", c.Cfg.Kind+"/effect-without-handler", "directory changed by a request net/http rejects", c)
		}
	case req.Method != "CONNECT" && muxCleanPath(req.URL.EscapedPath()) != req.URL.EscapedPath():
		r.Dist("mux:redirect")
		r.Corr()
		if status != 301 && status != 307 && status != 308 && status != 400 {
			r.Fail("corr", "corr:C15/mux-redirect", fmt.Sprintf("expected a redirect from ServeMux for unclean path %q, got %d", req.URL.Path, status), c)
		}
		if len(c.Changed) > 0 {
			r.Fail("predicate", c.Cfg.Kind+"/effect-without-handler", "directory changed by a request the mux redirects", c)
		}
	default:
		if status == 400 && !bytes.Contains(body, []byte("expected format")) && !bytes.Contains(body, []byte("not enabled")) && bytes.Contains(body, []byte("400 Bad Request")) {
			// rejected by the server's own request parsing (stricter than ReadRequest for this input)
			r.Dist("nethttp:rejected-before-handler")
		} else if o != nil {
			c.Reached, c.HandlerPath, c.HandlerAuth = true, vh.Hex([]byte(req.URL.Path)), req.Header.Get("Authorization")
			err = c15Model(o, r, c, req.URL.Path, req.Header.Get("Authorization"), reqBody, pre, post, status, body)
		}
	}
	if len(c.Changed) > 0 {
		if berr := c15Build(e.root, e.cfg, e.state); berr != nil {
			return berr
		}
	}
	return err
}

func c15IsToken(s string) bool {
	if s == "" {
		return false
	}
	for i := 0; i < len(s); i++ {
		ch := s[i]
		switch {
		case ch >= 'a' && ch <= 'z', ch >= 'A' && ch <= 'Z', ch >= '0' && ch <= '9':
		case strings.IndexByte("!#$%&'*+-.^_`|~", ch) >= 0:
		default:
			return false
		}
	}
	return true
}

func c15CLI(a vh.Args, o *vh.Oracle, r *vh.Result, rng *vh.Rand) error {
	if os.Getenv("VH_DESYNC") == "" {
		r.Note("VH_DESYNC not set: CLI servers skipped")
		return nil
	}
	n := 0
	for _, cfg := range c15Configs(a.Tier) {
		// the CLI cannot configure an uncompressed local store or a read-only upstream from flags
		if cfg.StoreUncompressed || !cfg.StoreWritable {
			continue
		}
		st := c15MakeState(a.Seed)
		e, err := c15StartCLI(filepath.Join(a.Work, fmt.Sprintf("cli%d", n)), cfg, st)
		n++
		if err != nil {
			return err
		}
		if e == nil {
			return nil
		}
		err = c15RunConfig(a, o, r, rng, e, "cli", 1)
		e.stop()
		if err != nil {
			return err
		}
	}
	r.Note("CLI level: %d desync chunk-server/index-server processes driven over loopback", n)
	return nil
}

func c15ReplayCLI(a vh.Args, o *vh.Oracle, r *vh.Result, c *c15Case) error {
	e, err := c15StartCLI(filepath.Join(a.Work, "replay"), c.Cfg, c15MakeState(c.StateSeed))
	if err != nil || e == nil {
		return err
	}
	defer e.stop()
	if strings.HasPrefix(c.Desc, "history-") { // the answer depends on what the process served before: replay the history
		return c15HistoryRequests(a, o, r, e, vh.NewRand(a.Seed).Fork())
	}
	return c15DoCLI(a, o, r, e, c)
}

// ---------- flag / environment plumbing of the binaries (quick and thorough) ----------
//
// `desync chunk-server` / `index-server` child processes whose expected Authorization value
// comes from --authorization, only from DESYNC_HTTP_AUTH, or from both (the flag wins), and
// chunk servers with every combination of --skip-verify-write / --skip-verify-read (each flag
// given only when it differs from its default).  The configuration the predicate judges by is
// the documented meaning of the options, computed here and not by the binary.

func c15PlumbingConfigs() []c15Cfg {
	const s1, s2 = "Bearer s3cr3t-Token", "Basic dXNlcjpwYXNz"
	mk := func(kind, flag, env string, wr, svw bool, svr string, comp bool) c15Cfg {
		auth := flag
		if auth == "" {
			auth = env
		}
		return c15Cfg{Kind: kind, Auth: auth, Writable: wr, SkipVerifyWrite: svw, Compressed: comp, StoreWritable: true,
			Plumbing: true, AuthFlag: flag, AuthEnv: env, SkipVerifyRead: svr}
	}
	return []c15Cfg{
		// authorization only through the environment / flag and environment / flag only
		mk("chunk", "", s1, true, false, "default", true),
		mk("chunk", s1, s2, true, false, "default", true),
		mk("chunk", "", s2, false, true, "default", false),
		mk("index", "", s1, true, false, "default", false),
		mk("index", s2, s1, true, false, "default", false),
		mk("index", s1, "", false, false, "default", false),
		// which flag governs which direction: write verification x read verification
		mk("chunk", "", "", true, false, "default", true),
		mk("chunk", "", "", true, false, "false", true),
		mk("chunk", "", "", true, true, "default", true),
		mk("chunk", "", "", true, true, "false", true),
		mk("chunk", "", "", true, false, "default", false),
		mk("chunk", "", "", true, true, "false", false),
	}
}

func c15Plumbing(a vh.Args, o *vh.Oracle, r *vh.Result, rng *vh.Rand) error {
	if os.Getenv("VH_DESYNC") == "" {
		r.Note("VH_DESYNC not set: CLI plumbing cases skipped")
		return nil
	}
	for n, cfg := range c15PlumbingConfigs() {
		st := c15MakeState(a.Seed)
		e, err := c15StartCLI(filepath.Join(a.Work, fmt.Sprintf("plumb%d", n)), cfg, st)
		if err != nil {
			return err
		}
		if e == nil {
			return nil
		}
		err = c15PlumbingRequests(a, o, r, e)
		e.stop()
		if err != nil {
			return err
		}
	}
	return nil
}

func c15PlumbingRequests(a vh.Args, o *vh.Oracle, r *vh.Result, e *c15Env) error {
	cfg, st := e.cfg, e.state
	do := func(method, target, desc string, hdrs []string, body []byte) error {
		c := &c15Case{Cfg: cfg, Level: "cli", StateSeed: a.Seed, Method: method, Target: target, Headers: hdrs, BodyHex: vh.Hex(body), Desc: "plumbing-" + desc}
		r.Dist("plumbing:" + desc)
		return c15DoCLI(a, o, r, e, c)
	}
	// header variants: none, wrong, the documented value, and - when both are given - the loser
	type hv struct {
		d string
		h []string
	}
	hvs := []hv{{"no-header", nil}, {"wrong", []string{"Authorization: Bearer wrong"}}}
	if cfg.Auth != "" {
		hvs = append(hvs, hv{"right", []string{"Authorization: " + cfg.Auth}})
	}
	if cfg.AuthFlag != "" && cfg.AuthEnv != "" {
		hvs = append(hvs, hv{"env-value-while-flag-given", []string{"Authorization: " + cfg.AuthEnv}})
	}
	var right []string
	if cfg.Auth != "" {
		right = []string{"Authorization: " + cfg.Auth}
	}
	if cfg.Kind == "index" {
		newIdx := c15Index(vh.NewRand(a.Seed+78), 3)
		for _, h := range hvs {
			for _, q := range [][2]string{{"GET", "/a.caibx"}, {"HEAD", "/a.caibx"}, {"PUT", "/new.caibx"}, {"PUT", "/a.caibx"}} {
				if err := do(q[0], q[1], "auth-"+h.d, h.h, newIdx); err != nil {
					return err
				}
			}
		}
		return nil
	}
	ext := ""
	if cfg.Compressed {
		ext = ".cacnk"
	}
	p := func(id string) string { return "/" + id[:4] + "/" + id + ext }
	present := c15IDStr(st.chunks[2])
	other := c15IDStr(st.chunks[1])
	fresh := c15IDStr(st.newChunk)
	corrupt := c15IDStr([]byte("the name of the corrupt chunk"))
	bodies := c15Bodies(st, st.newChunk, cfg.Compressed) // match, mismatch (= chunks[1]), garbage, empty, wrong-encoding
	for _, h := range hvs {
		if err := do("GET", p(present), "auth-"+h.d, h.h, nil); err != nil {
			return err
		}
		if err := do("HEAD", p(present), "auth-"+h.d, h.h, nil); err != nil {
			return err
		}
		if err := do("PUT", p(fresh), "auth-"+h.d, h.h, bodies[0][1]); err != nil {
			return err
		}
	}
	// uploads that must be refused when write verification is on, under a new and under an existing id
	for _, b := range bodies {
		for _, id := range []string{fresh, present, other} {
			if err := do("PUT", p(id), "upload-"+string(b[0]), right, b[1]); err != nil {
				return err
			}
			// the good chunk is still what it was
			if err := do("GET", p(present), "read-after-upload", right, nil); err != nil {
				return err
			}
		}
	}
	// reads: a good chunk and the one whose content does not match its name
	for _, id := range []string{present, other, corrupt, fresh} {
		for _, m := range []string{"GET", "HEAD"} {
			if err := do(m, p(id), "read", right, nil); err != nil {
				return err
			}
		}
	}
	return nil
}

// ---------- request histories against the binaries (quick and thorough) ----------
//
// `desync chunk-server` / `index-server` started with DEFAULT options plus an authorization value
// (read-only; nothing else on the command line, so whatever a default turns on is exercised).
// One process answers a whole history in which authorized requests are interleaved with
// unauthorized ones FOR THE SAME OBJECTS, in both orders and repeatedly.  Every request is judged
// on its own by the C15 predicate and compared with the model, which is stateless
// (C15_history_auth_gate, C15_history_stateless): what an earlier request did must not matter.

func c15Histories(a vh.Args, o *vh.Oracle, r *vh.Result, rng *vh.Rand) error {
	if os.Getenv("VH_DESYNC") == "" {
		r.Note("VH_DESYNC not set: request histories against the binaries skipped")
		return nil
	}
	const s1 = "Bearer s3cr3t-Token"
	mk := func(kind, flag, env string) c15Cfg {
		auth := flag
		if auth == "" {
			auth = env
		}
		return c15Cfg{Kind: kind, Auth: auth, Writable: false, SkipVerifyWrite: true, Compressed: true, StoreWritable: true,
			Plumbing: true, AuthFlag: flag, AuthEnv: env, SkipVerifyRead: "default"}
	}
	cfgs := []c15Cfg{mk("chunk", s1, ""), mk("chunk", "", s1), mk("index", s1, "")}
	for n, cfg := range cfgs {
		if cfg.Kind == "index" {
			cfg.Compressed = false
		}
		st := c15MakeState(a.Seed)
		e, err := c15StartCLI(filepath.Join(a.Work, fmt.Sprintf("hist%d", n)), cfg, st)
		if err != nil {
			return err
		}
		if e == nil {
			return nil
		}
		err = c15HistoryRequests(a, o, r, e, rng)
		e.stop()
		if err != nil {
			return err
		}
	}
	return nil
}

func c15HistoryRequests(a vh.Args, o *vh.Oracle, r *vh.Result, e *c15Env, rng *vh.Rand) error {
	cfg, st := e.cfg, e.state
	hdr := map[string][]string{
		"A":       {"Authorization: " + cfg.Auth},
		"none":    nil,
		"wrong":   {"Authorization: Bearer wrong"},
		"case":    {"Authorization: " + strings.ToLower(cfg.Auth)},
		"suffix":  {"Authorization: " + cfg.Auth + "x"},
		"prefix":  {"Authorization: " + cfg.Auth[:len(cfg.Auth)-1]},
		"empty":   {"Authorization:"},
		"twice-w": {"Authorization: Bearer wrong", "Authorization: " + cfg.Auth},
	}
	step := 0
	var hist []string
	do := func(who, method, target string, body []byte) error {
		step++
		c := &c15Case{Cfg: cfg, Level: "cli", StateSeed: a.Seed, Method: method, Target: target, Headers: hdr[who], BodyHex: vh.Hex(body),
			Desc: fmt.Sprintf("history-step-%d-%s", step, who), History: append([]string{}, hist...)}
		hist = append(hist, fmt.Sprintf("%s %s %q", method, target, hdr[who]))
		r.Dist("history:" + who + "/" + method)
		return c15DoCLI(a, o, r, e, c)
	}
	var objs, absent []string
	var body []byte
	if cfg.Kind == "chunk" {
		p := func(d []byte) string { id := c15IDStr(d); return "/" + id[:4] + "/" + id + ".cacnk" }
		objs = []string{p(st.chunks[2]), p(st.chunks[1]), p(st.chunks[0])}
		absent = []string{p(st.newChunk)}
		body = c15Compress(st.newChunk)
	} else {
		objs = []string{"/a.caibx", "/b.caidx", "/sub/../a.caibx"}
		absent = []string{"/missing.caibx"}
		body = c15Index(vh.NewRand(a.Seed+79), 2)
	}
	unauth := []string{"none", "wrong", "case", "suffix", "prefix", "empty", "twice-w"}
	// object 0: unauthorized first, then authorized, then every unauthorized variant, GET and HEAD
	if err := do("none", "GET", objs[0], nil); err != nil {
		return err
	}
	if err := do("A", "GET", objs[0], nil); err != nil {
		return err
	}
	for _, u := range unauth {
		for _, m := range []string{"GET", "HEAD"} {
			if err := do(u, m, objs[0], nil); err != nil {
				return err
			}
		}
	}
	if err := do("A", "HEAD", objs[0], nil); err != nil {
		return err
	}
	if err := do("none", "GET", objs[0], nil); err != nil {
		return err
	}
	// object 1: authorized first (twice), then unauthorized
	for _, w := range []string{"A", "A", "none", "wrong", "A", "suffix", "none"} {
		if err := do(w, "GET", objs[1], nil); err != nil {
			return err
		}
	}
	// object 2: a random interleaving
	for k := 0; k < 10; k++ {
		w := "A"
		if rng.Bool() {
			w = unauth[rng.Intn(len(unauth))]
		}
		if err := do(w, []string{"GET", "GET", "HEAD"}[rng.Intn(3)], objs[2], nil); err != nil {
			return err
		}
	}
	// an absent object and uploads (the server is read-only)
	for _, w := range []string{"none", "A", "none", "wrong"} {
		if err := do(w, "GET", absent[0], nil); err != nil {
			return err
		}
		if err := do(w, "PUT", absent[0], body); err != nil {
			return err
		}
	}
	// and once more the first object, by everybody
	for _, w := range []string{"none", "A", "wrong", "case"} {
		if err := do(w, "GET", objs[0], nil); err != nil {
			return err
		}
	}
	return nil
}
