package main

// Correspondence set for the Coq models of Go standard-library functions in
// coq/Base/GoPath.v (path.Clean/Join/Base/Dir/Split, strings.HasSuffix/HasPrefix/
// TrimSuffix/TrimPrefix) and coq/Base/Hex.v (encoding/hex): random and adversarial
// byte strings, compared byte for byte with the Go implementation.  Reported under
// every property that uses these files (C14, C15).

import (
	"encoding/hex"
	"fmt"
	"path"
	"strings"

	"vh/internal/vh"
)

type gostdCase struct {
	Fn    string   `json:"fn"`
	Args  []string `json:"args_hex"`
	Go    string   `json:"go_hex"`
	Model string   `json:"model_hex"`
}

var gostdAlphabet = []string{"/", "/", "/", ".", ".", "..", "a", "b", "0", "f", "F", "9", "e", "%2e", "%2f", ";", "\x00", " ", "\xff", "-", "_", "~", ".cacnk", ".caibx", "//", "/./", "/../", "abcd"}

func gostdRandString(r *vh.Rand) string {
	switch r.Intn(10) {
	case 0: // pure random bytes, short
		return string(r.Bytes(r.Intn(12)))
	case 1: // only slashes and dots
		n := r.Intn(14)
		b := make([]byte, n)
		for i := range b {
			b[i] = "/.."[r.Intn(3)]
		}
		return string(b)
	case 2: // canonical chunk path with a few byte mutations
		id := hex.EncodeToString(r.Bytes(32))
		s := "/" + id[:4] + "/" + id + []string{".cacnk", "", ".cacnk/", "/.."}[r.Intn(4)]
		b := []byte(s)
		for k := r.Intn(4); k > 0 && len(b) > 0; k-- {
			p := r.Intn(len(b))
			switch r.Intn(3) {
			case 0:
				b[p] = "/.%aF"[r.Intn(5)]
			case 1:
				b = append(b[:p], b[p+1:]...)
			default:
				b = append(b[:p], append([]byte{"/."[r.Intn(2)]}, b[p:]...)...)
			}
		}
		return string(b)
	case 3: // long
		n := 200 + r.Intn(800)
		if r.Chance(1, 20) {
			n = 10000 + r.Intn(300)
		}
		var sb strings.Builder
		for sb.Len() < n {
			sb.WriteString(gostdAlphabet[r.Intn(len(gostdAlphabet))])
		}
		return sb.String()
	default:
		var sb strings.Builder
		for k := r.Intn(9); k > 0; k-- {
			sb.WriteString(gostdAlphabet[r.Intn(len(gostdAlphabet))])
		}
		return sb.String()
	}
}

var gostdFixed = []string{"", ".", "..", "/", "//", "///", "/.", "/..", "./", "../", "a", "a/", "/a", "a/b", "a//b", "a/./b", "a/../b", "a/b/..", "a/b/../..", "a/b/../../..", "/a/b/../../..", "../a", "../../a", "a/../../b", "...", ".../", "/...", "..a", "a..", ".a", "a.", "/../a/c", "/../a/b/../././/c", "abc/def/../../..", "//a", "a//", "/./.", "/a/./", ".cacnk", "x.cacnk", "/abcd/abcd.cacnk", "\x00", "/\x00/..", "a\x00/../b"}

func hexArg(s string) string { return vh.Hex([]byte(s)) }

// runGoStd compares n random strings (plus the fixed adversarial list) and reports counts.
func runGoStd(a vh.Args, o *vh.Oracle, r *vh.Result, rng *vh.Rand, n int) error {
	if o == nil {
		r.Note("no oracle: GoPath/Hex correspondence skipped")
		return nil
	}
	cmp := func(fn string, goRes string, args ...string) error {
		hargs := make([]string, len(args))
		for i, x := range args {
			hargs[i] = x
		}
		ans, err := o.Call(fn, hargs...)
		if err != nil {
			return err
		}
		r.Corr()
		r.Dist("gostd:" + fn)
		if ans != goRes {
			r.Fail("corr", "corr:gostd/"+fn, fmt.Sprintf("%s: Go %s, model %s", fn, goRes, ans), gostdCase{fn, args, goRes, ans})
		}
		return nil
	}
	one := func(s string) error {
		// Clean, Base, Dir, Split in one oracle round trip
		d, f := path.Split(s)
		return cmp("gopath.all", strings.Join([]string{hexArg(path.Clean(s)), hexArg(path.Base(s)), hexArg(path.Dir(s)), hexArg(d), hexArg(f)}, " "), hexArg(s))
	}
	total := 0
	for _, s := range gostdFixed {
		if err := one(s); err != nil {
			return err
		}
		total++
	}
	for i := 0; i < n; i++ {
		s := gostdRandString(rng)
		if err := one(s); err != nil {
			return err
		}
		total++
		switch i % 4 {
		case 0: // Join of 1..4 elements, some empty
			k := 1 + rng.Intn(4)
			elems := make([]string, k)
			enc := make([]string, k)
			for j := range elems {
				if rng.Chance(1, 4) {
					elems[j] = ""
				} else if rng.Chance(1, 5) {
					elems[j] = "/"
				} else {
					elems[j] = gostdRandString(rng)
					if len(elems[j]) > 300 {
						elems[j] = elems[j][:300]
					}
				}
				if elems[j] == "" {
					enc[j] = "_"
				} else {
					enc[j] = hex.EncodeToString([]byte(elems[j]))
				}
			}
			if err := cmp("gopath.join", hexArg(path.Join(elems...)), strings.Join(enc, ",")); err != nil {
				return err
			}
		case 1: // hex.DecodeString on hex-ish strings
			m := rng.Intn(70)
			b := make([]byte, m)
			for j := range b {
				b[j] = "0123456789abcdefABCDEF"[rng.Intn(22)]
			}
			if m > 0 && rng.Chance(1, 4) {
				b[rng.Intn(m)] = "gG/.x \x00:@`"[rng.Intn(10)]
			}
			want := "NONE"
			if dec, err := hex.DecodeString(string(b)); err == nil {
				want = vh.Hex(dec)
			}
			if err := cmp("gohex.decode", want, vh.Hex(b)); err != nil {
				return err
			}
		case 2: // hex.EncodeToString
			b := rng.Bytes(rng.Intn(40))
			if err := cmp("gohex.encode", hexArg(hex.EncodeToString(b)), vh.Hex(b)); err != nil {
				return err
			}
		case 3: // strings predicates
			t := gostdRandString(rng)
			if len(t) > 8 {
				t = t[:8]
			}
			if rng.Chance(1, 2) && len(s) > 0 { // a real suffix / prefix
				k := rng.Intn(len(s) + 1)
				if rng.Bool() {
					t = s[k:]
				} else {
					t = s[:k]
				}
			}
			b2 := func(b bool) string {
				if b {
					return "1"
				}
				return "0"
			}
			if err := cmp("gostrings.hassuffix", b2(strings.HasSuffix(s, t)), h2(s), h2(t)); err != nil {
				return err
			}
			if err := cmp("gostrings.hasprefix", b2(strings.HasPrefix(s, t)), h2(s), h2(t)); err != nil {
				return err
			}
			if err := cmp("gostrings.trimsuffix", hexArg(strings.TrimSuffix(s, t)), h2(s), h2(t)); err != nil {
				return err
			}
			if err := cmp("gostrings.trimprefix", hexArg(strings.TrimPrefix(s, t)), h2(s), h2(t)); err != nil {
				return err
			}
		}
	}
	if r.Extra == nil {
		r.Extra = map[string]interface{}{}
	}
	r.Extra["gostd_strings"] = total
	r.Note("GoPath.v/Hex.v correspondence: %d strings compared byte for byte with path.Clean/Base/Dir/Split (each), plus Join, hex and strings predicates on a quarter each", total)
	return nil
}

func h2(s string) string { return vh.Hex([]byte(s)) }
