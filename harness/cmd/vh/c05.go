package main

// C05: tar then untar reproduces the directory tree.
//
// One case = one random tree materialised on disk, sent through a set of routes
// (library, CLI catar, CLI caidx+store with either digest, tar-stream input,
// gnu-tar and mtree output).  For every route the property predicate compares the
// lstat/readlink/xattr/content snapshot of the result with the snapshot of the
// source; the archive bytes are compared with the extracted Coq model
// (encode (tar_model events)), and two runs must give identical bytes.

import (
	"bytes"
	"crypto/sha256"
	"context"
	"encoding/hex"
	"encoding/json"
	"fmt"
	"os"
	"os/exec"
	"path/filepath"
	"sort"
	"strconv"
	"strings"
	"syscall"
	"time"

	"github.com/folbricht/desync"

	"vh/internal/vh"
)

func init() { props["C05"] = runC05 }

type c05Diff struct {
	Path  string `json:"path_hex"`
	Kind  string `json:"kind"`
	Field string `json:"field"`
	Want  string `json:"want"`
	Got   string `json:"got"`
	Class string `json:"class"`
}

type c05Case struct {
	Tree        *c05Node  `json:"tree"`
	Route       string    `json:"route"`  // lib | lib-idx | cli | cli-idx | tar-in | gnu-tar | mtree | twice
	Digest      string    `json:"digest"` // sha512-256 | sha256
	NoSameOwner bool      `json:"no_same_owner,omitempty"`
	NoSamePerm  bool      `json:"no_same_permissions,omitempty"`
	Chunk       string    `json:"chunk,omitempty"`
	Entries     int       `json:"entries"`
	Diffs       []c05Diff `json:"diffs,omitempty"`
	Detail      string    `json:"detail,omitempty"`
}

type c05Env struct {
	a      vh.Args
	o      *vh.Oracle
	r      *vh.Result
	desync string
	xattrs bool
	root   bool
	seq    int
}

func (e *c05Env) scratch(tag string) string {
	e.seq++
	return filepath.Join(e.a.Work, fmt.Sprintf("%s%d", tag, e.seq))
}

// ---------- the property predicate: source snapshot vs. result snapshot ----------

type c05Opts struct {
	noSameOwner bool
	noSamePerm  bool
	t0, t1      time.Time // extraction window
	noMtime     bool      // the route cannot carry times at all
	scrambled   bool      // the target held an older extraction whose times were set to 1234567.000000089
}

func fmtTime(sec, nsec int64) string { return fmt.Sprintf("%d.%09d", sec, nsec) }

func xattrString(m map[string]string) string {
	ks := make([]string, 0, len(m))
	for k := range m {
		ks = append(ks, k)
	}
	sort.Strings(ks)
	var b strings.Builder
	for _, k := range ks {
		fmt.Fprintf(&b, "%s=%s,", hex.EncodeToString([]byte(k)), hex.EncodeToString([]byte(m[k])))
	}
	return b.String()
}

// nsFits says whether sec.nsec is expressible as int64 nanoseconds (what time.Time.UnixNano can return).
func nsFits(sec int64) bool { return sec >= -9223372036 && sec <= 9223372035 }

func c05Compare(src, dst []*c05Ent, o c05Opts) []c05Diff {
	var out []c05Diff
	sm := map[string]*c05Ent{}
	dm := map[string]*c05Ent{}
	for _, e := range src {
		sm[e.Rel] = e
	}
	for _, e := range dst {
		dm[e.Rel] = e
	}
	// supported children of every source directory (fifos and sockets are not archived)
	kids := map[string]int{}
	for _, e := range src {
		if e.Rel == "." {
			continue
		}
		if k := e.kind(); k == "fifo" || k == "sock" {
			continue
		}
		d := filepath.Dir(e.Rel)
		kids[d]++
	}
	add := func(e *c05Ent, field, want, got, class string) {
		out = append(out, c05Diff{Path: hex.EncodeToString([]byte(e.Rel)), Kind: e.kind(), Field: field, Want: want, Got: got, Class: class})
	}
	for _, s := range src {
		d, ok := dm[s.Rel]
		if k := s.kind(); k == "fifo" || k == "sock" {
			// not archived (tar warns and skips them): outside the property, but they must stay out cleanly
			if ok {
				add(s, "presence", "absent", "present", "untar/extra-entry")
			}
			continue
		}
		if !ok {
			// an entry below a skipped or missing entry is reported once, at the top
			if p := filepath.Dir(s.Rel); s.Rel != "." && p != "." {
				if _, pok := dm[p]; !pok {
					continue
				}
			}
			add(s, "presence", "present", "missing", "untar/missing-entry")
			continue
		}
		if s.Mode&syscall.S_IFMT != d.Mode&syscall.S_IFMT {
			add(s, "type", s.kind(), d.kind(), "untar/type")
			continue
		}
		if !o.noSamePerm && s.Mode&07777 != d.Mode&07777 {
			cl := "untar/mode"
			if (s.Mode^d.Mode)&0777 == 0 {
				cl = "untar/mode-special-bits"
			}
			add(s, "mode", fmt.Sprintf("%04o", s.Mode&07777), fmt.Sprintf("%04o", d.Mode&07777), cl)
		}
		wu, wg := s.UID, s.GID
		if o.noSameOwner {
			wu, wg = uint32(os.Geteuid()), uint32(os.Getegid())
		}
		if wu != d.UID || wg != d.GID {
			add(s, "owner", fmt.Sprintf("%d:%d", wu, wg), fmt.Sprintf("%d:%d", d.UID, d.GID), "untar/owner")
		}
		switch s.kind() {
		case "file":
			if s.Size != d.Size || s.Sum != d.Sum {
				add(s, "content", fmt.Sprintf("%d bytes %x", s.Size, s.Sum[:6]), fmt.Sprintf("%d bytes %x", d.Size, d.Sum[:6]), "untar/content")
			}
		case "link":
			if s.Target != d.Target {
				add(s, "target", hex.EncodeToString([]byte(s.Target)), hex.EncodeToString([]byte(d.Target)), "untar/symlink-target")
			}
		case "chr", "blk":
			if s.Rdev != d.Rdev {
				add(s, "rdev", fmt.Sprintf("%#x", s.Rdev), fmt.Sprintf("%#x", d.Rdev), "untar/device-number")
			}
		}
		// what --no-same-owner does to owner-related attributes is the option's business, not the property's
		if xs, xd := xattrString(s.Xattrs), xattrString(d.Xattrs); xs != xd && !o.noSameOwner {
			add(s, "xattrs", xs, xd, "untar/xattrs")
		}
		if !o.noMtime && (s.Sec != d.Sec || s.Nsec != d.Nsec) {
			dt := time.Unix(d.Sec, d.Nsec)
			inWindow := !dt.Before(o.t0.Add(-2*time.Second)) && !dt.After(o.t1.Add(2*time.Second))
			cl := "untar/mtime"
			switch {
			case inWindow && s.kind() == "dir" && kids[s.Rel] > 0:
				cl = "untar/dir-mtime"
			case s.Sec == 0 && s.Nsec == 0 && (inWindow || o.scrambled && d.Sec == 1234567 && d.Nsec == 89):
				cl = "untar/mtime-epoch" // not set at all: the time of creation, or what the object had before
			case inWindow && s.kind() == "link":
				cl = "untar/symlink-mtime"
			case !nsFits(s.Sec):
				cl = "tar/mtime-after-2262"
			}
			add(s, "mtime", fmtTime(s.Sec, s.Nsec), fmtTime(d.Sec, d.Nsec), cl)
		}
	}
	for _, d := range dst {
		if _, ok := sm[d.Rel]; !ok {
			add(d, "presence", "absent", "present", "untar/extra-entry")
		}
	}
	return out
}

// report turns the differences of one route into predicate failures, one per class.
func (e *c05Env) report(c *c05Case, diffs []c05Diff) {
	byClass := map[string][]c05Diff{}
	var order []string
	for _, d := range diffs {
		if _, ok := byClass[d.Class]; !ok {
			order = append(order, d.Class)
		}
		byClass[d.Class] = append(byClass[d.Class], d)
	}
	for _, cl := range order {
		ds := byClass[cl]
		cc := *c
		cc.Diffs = ds
		if len(cc.Diffs) > 5 {
			cc.Diffs = cc.Diffs[:5]
		}
		d := ds[0]
		p, _ := hex.DecodeString(d.Path)
		e.r.Dist("diff:" + cl)
		e.r.Fail("predicate", cl, fmt.Sprintf("route %s: %s of %s %q is %s after the round trip, source has %s (%d entries of this class in a tree of %d)",
			c.Route, d.Field, d.Kind, string(p), d.Got, d.Want, len(ds), c.Entries), &cc)
	}
}

// ---------- running desync ----------

func (e *c05Env) cli(timeout time.Duration, args ...string) (string, error) {
	ctx, cancel := context.WithTimeout(context.Background(), timeout)
	defer cancel()
	cmd := exec.CommandContext(ctx, e.desync, args...)
	var out bytes.Buffer
	cmd.Stdout = &out
	cmd.Stderr = &out
	cmd.Env = append(os.Environ(), "HOME="+e.a.Work)
	err := cmd.Run()
	if ctx.Err() != nil {
		return out.String(), fmt.Errorf("timeout after %v", timeout)
	}
	return out.String(), err
}

func short(s string) string {
	s = strings.TrimSpace(s)
	if len(s) > 300 {
		s = s[len(s)-300:]
	}
	return s
}

// ---------- correspondence with the model ----------

func eventLine(e *c05Ent, data []byte) string {
	name := filepath.Base(e.Rel)
	var comps []string
	if e.Rel != "." {
		for _, c := range strings.Split(e.Rel, "/") {
			comps = append(comps, hex.EncodeToString([]byte(c)))
		}
	}
	path := "-"
	if len(comps) > 0 {
		path = strings.Join(comps, "/")
	}
	major := (e.Rdev >> 8) & 0xfff
	minor := (e.Rdev & 0xff) | ((e.Rdev >> 12) & 0xfff00)
	var xa []string
	for _, k := range e.XOrder {
		xa = append(xa, hex.EncodeToString([]byte(k))+"="+hex.EncodeToString([]byte(e.Xattrs[k])))
	}
	x := "-"
	if len(xa) > 0 {
		x = strings.Join(xa, ",")
	}
	size := int64(0)
	if e.kind() == "file" {
		size = e.Size
	}
	mt := uint64(e.Sec*1000000000 + e.Nsec) // two's complement, as uint64(t.UnixNano())
	return strings.Join([]string{vh.Hex([]byte(name)), path, strconv.FormatUint(uint64(e.GoMode), 10), strconv.FormatInt(size, 10),
		vh.Hex([]byte(e.Target)), strconv.FormatUint(mt, 10), strconv.FormatUint(uint64(e.UID), 10), strconv.FormatUint(uint64(e.GID), 10),
		strconv.FormatUint(major, 10), strconv.FormatUint(minor, 10), x, vh.Hex(data)}, ":")
}

// modelTar asks the extracted model for the archive of the snapshot.
func (e *c05Env) modelTar(src []*c05Ent) ([]byte, bool, error) {
	var b strings.Builder
	for _, s := range src {
		b.WriteString(eventLine(s, s.Data))
		b.WriteByte('\n')
	}
	in := e.scratch("ev")
	out := e.scratch("model")
	defer os.Remove(in)
	defer os.Remove(out)
	if err := os.WriteFile(in, []byte(b.String()), 0600); err != nil {
		return nil, false, err
	}
	ans, err := e.o.Call("c05.tar", in, out)
	if err != nil {
		return nil, false, err
	}
	if ans == "NONE" {
		return nil, false, nil
	}
	m, err := os.ReadFile(out)
	return m, true, err
}

func c05FirstDiff(a, b []byte) int {
	n := len(a)
	if len(b) < n {
		n = len(b)
	}
	for i := 0; i < n; i++ {
		if a[i] != b[i] {
			return i
		}
	}
	if len(a) != len(b) {
		return n
	}
	return -1
}

// ---------- routes ----------

func (e *c05Env) snapshotOrFail(c *c05Case, dir string) []*c05Ent {
	s, err := c05Snapshot(dir, false)
	if err != nil {
		cc := *c
		cc.Detail = err.Error()
		e.r.Fail("predicate", "untar/unreadable-result", fmt.Sprintf("route %s: result tree cannot be read: %v", c.Route, err), &cc)
		return nil
	}
	return s
}

func setDigest(d string) {
	if d == "sha256" {
		desync.Digest = desync.SHA256{}
	} else {
		desync.Digest = desync.SHA512256{}
	}
}

// routeLib: desync.Tar / desync.UnTar with desync.NewLocalFS, in process.
func (e *c05Env) routeLib(tree *c05Node, srcDir string, src []*c05Ent, cliBytes []byte, nso, nsp, overwrite, withModel bool) {
	c := &c05Case{Tree: tree, Route: "lib", Digest: "sha512-256", NoSameOwner: nso, NoSamePerm: nsp, Entries: len(src)}
	var buf bytes.Buffer
	err := desync.Tar(context.Background(), &buf, desync.NewLocalFS(srcDir, desync.LocalFSOptions{}))
	e.r.Count("lib|"+treeKey(tree), len(src) > 1)
	if err != nil {
		c.Detail = err.Error()
		e.r.Fail("predicate", "tar/error", "desync.Tar fails on a readable tree: "+err.Error(), c)
		return
	}
	if cliBytes != nil {
		e.r.Corr()
		if i := c05FirstDiff(buf.Bytes(), cliBytes); i >= 0 {
			c.Detail = fmt.Sprintf("first difference at byte %d", i)
			e.r.Fail("predicate", "tar/not-deterministic", "desync.Tar and the desync tar command give different archives for the same tree", c)
		}
	}
	dst := e.scratch("dstlib")
	defer c05RemoveAll(dst)
	t0 := time.Now()
	err = desync.UnTar(context.Background(), bytes.NewReader(buf.Bytes()), desync.NewLocalFS(dst, desync.LocalFSOptions{NoSameOwner: nso, NoSamePermissions: nsp}))
	t1 := time.Now()
	if err != nil {
		c.Detail = err.Error()
		e.r.Fail("predicate", "untar/error", "desync.UnTar fails on an archive written by desync.Tar: "+err.Error(), c)
		return
	}
	if d := e.snapshotOrFail(c, dst); d != nil {
		e.report(c, c05Compare(src, d, c05Opts{noSameOwner: nso, noSamePerm: nsp, t0: t0, t1: t1}))
		if withModel {
			e.comparePrediction(c, src, d, nso, nsp, t0, t1)
		}
	}
	if nso || nsp || !overwrite {
		return
	}
	// unpack once more over the (scrambled) first extraction: same result expected
	co := *c
	co.Route = "lib-overwrite"
	e.r.Count("lib-overwrite|"+treeKey(tree), len(src) > 1)
	outside := e.scratch("outside")
	os.Mkdir(outside, 0700)
	defer c05RemoveAll(outside)
	links, err := c05Scramble(dst, outside, e.xattrs && e.root)
	if err != nil {
		e.r.Note("scramble: %v", err)
		return
	}
	t0 = time.Now()
	err = desync.UnTar(context.Background(), bytes.NewReader(buf.Bytes()), desync.NewLocalFS(dst, desync.LocalFSOptions{}))
	t1 = time.Now()
	if err != nil {
		co.Detail = err.Error()
		e.r.Fail("predicate", "untar/error", "desync.UnTar fails when unpacking over an earlier extraction of the same archive: "+err.Error(), &co)
		return
	}
	if d := e.snapshotOrFail(&co, dst); d != nil {
		e.report(&co, c05Compare(src, d, c05Opts{t0: t0, t1: t1, scrambled: true}))
	}
	// names outside the target that were hard links to files of the earlier generation keep the old content
	for name, sum := range links {
		b, err := os.ReadFile(filepath.Join(outside, name))
		if err != nil || sha256.Sum256(b) != sum {
			cc := co
			cc.Detail = fmt.Sprintf("outside name %s was a hard link to %q of the earlier extraction", name, links2rel[name])
			e.r.Fail("predicate", "untar/written-through-hard-link", "unpacking over an earlier extraction changed a file outside the target directory through a hard link: "+cc.Detail, &cc)
			break
		}
	}
}

// where each outside hard link of the last scramble pointed (for messages only)
var links2rel = map[string]string{}

// c05Scramble turns an extraction into "an earlier generation": other content, mode, owner, times and link
// targets, other values for the xattrs that are there and EXTRA xattrs on everything but directories
// (directories are kept as they are by an unpack; desync does not promise to clean them), and hard links from
// names outside the tree to regular files inside it.  No name is added or removed inside the tree.
// Returns the outside names with the hash of their (old) content.
func c05Scramble(root, outside string, xattrs bool) (map[string][32]byte, error) {
	ents, err := c05Snapshot(root, false)
	if err != nil {
		return nil, err
	}
	links := map[string][32]byte{}
	links2rel = map[string]string{}
	for i, e := range ents {
		p := filepath.Join(root, e.Rel)
		switch e.kind() {
		case "file":
			f, err := os.OpenFile(p, os.O_WRONLY|os.O_APPEND, 0)
			if err != nil {
				return nil, err
			}
			f.Write(bytes.Repeat([]byte("leftover"), 1+i%700))
			f.Close()
			if i%3 == 0 {
				os.WriteFile(p, []byte("replaced by something longer than before ................................"), 0600)
			}
			syscall.Chmod(p, 0)
			if i%2 == 0 && len(links) < 40 {
				name := fmt.Sprintf("l%d", i)
				if err := os.Link(p, filepath.Join(outside, name)); err == nil {
					b, _ := os.ReadFile(p)
					links[name] = sha256.Sum256(b)
					links2rel[name] = e.Rel
				}
			}
		case "link":
			os.Remove(p)
			os.Symlink("somewhere/else", p)
		case "dir":
			syscall.Chmod(p, 0700)
		}
		for k := range e.Xattrs {
			lsetxattr(p, k, []byte("stale"))
		}
		if xattrs && e.kind() != "dir" {
			lsetxattr(p, "trusted.c05-earlier-generation", []byte("left over"))
			if e.kind() == "file" {
				lsetxattr(p, "user.c05-checked-by", []byte("alice"))
			}
		}
		os.Lchown(p, 4242, 4243)
		lutimens(p, 1234567, 89)
	}
	return links, nil
}

// routeLibIdx: Tar -> Chunker -> ChunkStream into a local store -> index written and re-read -> UnTarIndex.
func (e *c05Env) routeLibIdx(tree *c05Node, srcDir string, src []*c05Ent, digest string, min, avg, max uint64, n int) {
	c := &c05Case{Tree: tree, Route: "lib-idx", Digest: digest, Chunk: fmt.Sprintf("%d:%d:%d", min, avg, max), Entries: len(src)}
	setDigest(digest)
	defer setDigest("sha512-256")
	e.r.Count(fmt.Sprintf("lib-idx|%s|%s|%d", digest, treeKey(tree), min), len(src) > 1)
	var buf bytes.Buffer
	if err := desync.Tar(context.Background(), &buf, desync.NewLocalFS(srcDir, desync.LocalFSOptions{})); err != nil {
		c.Detail = err.Error()
		e.r.Fail("predicate", "tar/error", "desync.Tar fails on a readable tree: "+err.Error(), c)
		return
	}
	storeDir := e.scratch("store")
	os.Mkdir(storeDir, 0700)
	defer c05RemoveAll(storeDir)
	st, err := desync.NewLocalStore(storeDir, desync.StoreOptions{})
	if err != nil {
		e.r.Note("local store: %v", err)
		return
	}
	ch, err := desync.NewChunker(bytes.NewReader(buf.Bytes()), min, avg, max)
	if err != nil {
		e.r.Note("chunker: %v", err)
		return
	}
	idx, err := desync.ChunkStream(context.Background(), ch, st, n)
	if err != nil {
		c.Detail = err.Error()
		e.r.Fail("predicate", "tar-index/error", "ChunkStream fails: "+err.Error(), c)
		return
	}
	idx.Index.FeatureFlags |= desync.TarFeatureFlags &^ desync.CaFormatSHA512256
	var ib bytes.Buffer
	if _, err := idx.WriteTo(&ib); err != nil {
		e.r.Note("index write: %v", err)
		return
	}
	idx2, err := desync.IndexFromReader(bytes.NewReader(ib.Bytes()))
	if err != nil {
		c.Detail = err.Error()
		e.r.Fail("predicate", "index/digest-flag", fmt.Sprintf("the index written under digest %s is refused when read back under the same digest: %v", digest, err), c)
		return
	}
	e.r.Dist("idx-chunks:" + bucket(len(idx2.Chunks)))
	dst := e.scratch("dstidx")
	defer c05RemoveAll(dst)
	t0 := time.Now()
	err = desync.UnTarIndex(context.Background(), desync.NewLocalFS(dst, desync.LocalFSOptions{}), idx2, st, n, desync.NullProgressBar{})
	t1 := time.Now()
	if err != nil {
		c.Detail = err.Error()
		e.r.Fail("predicate", "untar-index/error", "UnTarIndex fails on an index written by ChunkStream: "+err.Error(), c)
		return
	}
	if d := e.snapshotOrFail(c, dst); d != nil {
		e.report(c, c05Compare(src, d, c05Opts{t0: t0, t1: t1}))
	}
}

// routeCLI: desync tar (twice) -> model bytes -> desync untar with the given flags.
// Returns the archive bytes.
func (e *c05Env) routeCLI(tree *c05Node, srcDir string, src []*c05Ent, withModel bool, variants [][2]bool) []byte {
	c := &c05Case{Tree: tree, Route: "cli", Digest: "sha512-256", Entries: len(src)}
	cat := e.scratch("a") + ".catar"
	defer os.Remove(cat)
	e.r.Count("cli|"+treeKey(tree), len(src) > 1)
	if out, err := e.cli(120*time.Second, "tar", cat, srcDir); err != nil {
		c.Detail = short(out)
		e.r.Fail("predicate", "tar/error", fmt.Sprintf("desync tar fails on a readable tree: %v: %s", err, short(out)), c)
		return nil
	}
	b1, err := os.ReadFile(cat)
	if err != nil {
		return nil
	}
	// same tree, second run: identical bytes
	cat2 := e.scratch("b") + ".catar"
	defer os.Remove(cat2)
	if out, err := e.cli(120*time.Second, "tar", cat2, srcDir); err == nil {
		b2, _ := os.ReadFile(cat2)
		e.r.Count("twice|"+treeKey(tree), len(src) > 1)
		if i := c05FirstDiff(b1, b2); i >= 0 {
			cc := *c
			cc.Route = "twice"
			cc.Detail = fmt.Sprintf("first difference at byte %d of %d/%d", i, len(b1), len(b2))
			e.r.Fail("predicate", "tar/not-deterministic", "two runs of desync tar on the same tree give different archives: "+cc.Detail, &cc)
		}
	} else {
		c.Detail = short(out)
		e.r.Fail("predicate", "tar/error", "second desync tar run fails: "+short(out), c)
	}
	if withModel && e.o != nil {
		m, ok, err := e.modelTar(src)
		if err != nil {
			e.r.Note("oracle: %v", err)
		} else {
			e.r.Corr()
			if !ok {
				e.r.Fail("corr", "corr:C05/tar-bytes", "the model has no archive for this tree (out of fuel or a modelled panic), the implementation wrote one", c)
			} else if i := c05FirstDiff(b1, m); i >= 0 {
				cc := *c
				lo := i - 16
				if lo < 0 {
					lo = 0
				}
				hi := func(b []byte) int {
					if i+16 < len(b) {
						return i + 16
					}
					return len(b)
				}
				cc.Detail = fmt.Sprintf("first difference at byte %d (impl %d bytes, model %d bytes): impl ..%x.. model ..%x..", i, len(b1), len(m), b1[min(lo, len(b1)):hi(b1)], m[min(lo, len(m)):hi(m)])
				e.r.Fail("corr", "corr:C05/tar-bytes", "archive written by desync tar differs from encode (tar_model events): "+cc.Detail, &cc)
			}
		}
	}
	for _, v := range variants {
		cc := *c
		cc.NoSameOwner, cc.NoSamePerm = v[0], v[1]
		dst := e.scratch("dstcli")
		args := []string{"untar"}
		if v[0] {
			args = append(args, "--no-same-owner")
		}
		if v[1] {
			args = append(args, "--no-same-permissions")
		}
		args = append(args, cat, dst)
		e.r.Count(fmt.Sprintf("cli-untar|%v|%v|%s", v[0], v[1], treeKey(tree)), len(src) > 1)
		t0 := time.Now()
		out, err := e.cli(120*time.Second, args...)
		t1 := time.Now()
		if err != nil {
			cc.Detail = short(out)
			e.r.Fail("predicate", "untar/error", fmt.Sprintf("desync untar fails on an archive written by desync tar: %v: %s", err, short(out)), &cc)
		} else if d := e.snapshotOrFail(&cc, dst); d != nil {
			e.report(&cc, c05Compare(src, d, c05Opts{noSameOwner: v[0], noSamePerm: v[1], t0: t0, t1: t1}))
			if withModel {
				e.comparePrediction(&cc, src, d, v[0], v[1], t0, t1)
			}
		}
		c05RemoveAll(dst)
	}
	return b1
}

// routeCLIIdx: desync [--digest d] tar -i -s store -m chunk idx src ; untar -i -s store idx dst
func (e *c05Env) routeCLIIdx(tree *c05Node, srcDir string, src []*c05Ent, digest, chunk string) {
	c := &c05Case{Tree: tree, Route: "cli-idx", Digest: digest, Chunk: chunk, Entries: len(src)}
	store := e.scratch("clistore")
	os.Mkdir(store, 0700)
	defer c05RemoveAll(store)
	idx := e.scratch("i") + ".caidx"
	defer os.Remove(idx)
	e.r.Count(fmt.Sprintf("cli-idx|%s|%s|%s", digest, chunk, treeKey(tree)), len(src) > 1)
	pre := []string{}
	if digest != "sha512-256" {
		pre = []string{"--digest", digest}
	}
	if out, err := e.cli(180*time.Second, append(pre, "tar", "-i", "-s", store, "-m", chunk, idx, srcDir)...); err != nil {
		c.Detail = short(out)
		e.r.Fail("predicate", "tar-index/error", fmt.Sprintf("desync tar -i fails: %v: %s", err, short(out)), c)
		return
	}
	dst := e.scratch("dstcliidx")
	defer c05RemoveAll(dst)
	t0 := time.Now()
	out, err := e.cli(180*time.Second, append(pre, "untar", "-i", "-s", store, idx, dst)...)
	t1 := time.Now()
	if err != nil {
		c.Detail = short(out)
		cl := "untar-index/error"
		if strings.Contains(out, "SHA") {
			cl = "index/digest-flag"
		}
		e.r.Fail("predicate", cl, fmt.Sprintf("desync --digest %s untar -i refuses the index written by desync --digest %s tar -i: %s", digest, digest, short(out)), c)
		return
	}
	if d := e.snapshotOrFail(c, dst); d != nil {
		e.report(c, c05Compare(src, d, c05Opts{t0: t0, t1: t1}))
	}
}

func treeKey(t *c05Node) string {
	b, _ := json.Marshal(t)
	if len(b) > 4096 {
		b = b[:4096]
	}
	return fmt.Sprintf("%d:%x", t.count(), vhHash(b))
}

func vhHash(b []byte) uint64 {
	h := uint64(1469598103934665603)
	for _, c := range b {
		h ^= uint64(c)
		h *= 1099511628211
	}
	return h
}

// ---------- mode / device arithmetic against the model ----------

func (e *c05Env) modeCorr() error {
	if e.o == nil {
		return nil
	}
	// all 2^16 st_mode values through StatModeToFilemode, and back
	for lo := 0; lo < 65536; lo += 8192 {
		ans, err := e.o.Call("c05.s2frange", strconv.Itoa(lo), strconv.Itoa(lo+8192))
		if err != nil {
			return err
		}
		fms := strings.Split(ans, ",")
		for i, s := range fms {
			m := uint32(lo + i)
			want, _ := strconv.ParseUint(s, 10, 64)
			got := uint32(desync.StatModeToFilemode(m))
			e.r.Corr()
			if uint64(got) != want {
				e.r.Fail("corr", "corr:C05/stat-to-filemode", fmt.Sprintf("StatModeToFilemode(%#o) = %#x, model %#x", m, got, want), map[string]interface{}{"st_mode": m})
				return nil
			}
			// the property on the implementation: a mode a file system can report survives both conversions
			ty := m & syscall.S_IFMT
			valid := ty == syscall.S_IFREG || ty == syscall.S_IFDIR || ty == syscall.S_IFLNK || ty == syscall.S_IFCHR || ty == syscall.S_IFBLK || ty == syscall.S_IFIFO || ty == syscall.S_IFSOCK
			if valid {
				e.r.Count(fmt.Sprintf("mode|%d", m), m&07000 != 0)
				if back := desync.FilemodeToStatMode(desync.StatModeToFilemode(m)); back != m {
					e.r.Fail("predicate", "mode/roundtrip", fmt.Sprintf("st_mode %#o comes back as %#o from StatModeToFilemode/FilemodeToStatMode", m, back), map[string]interface{}{"st_mode": m})
				}
			}
		}
	}
	// FilemodeToStatMode on arbitrary 32-bit words
	rng := vh.NewRand(e.a.Seed ^ 0xC05)
	var fms []string
	var vals []uint32
	for i := 0; i < 4000; i++ {
		v := uint32(rng.U64())
		if i%3 == 0 {
			v &= 0x8f280000 | 0x1ff | 0x00f00000
		}
		vals = append(vals, v)
		fms = append(fms, strconv.FormatUint(uint64(v), 10))
	}
	ans, err := e.o.Call("c05.f2s", strings.Join(fms, ","))
	if err != nil {
		return err
	}
	for i, s := range strings.Split(ans, ",") {
		want, _ := strconv.ParseUint(s, 10, 64)
		got := desync.FilemodeToStatMode(os.FileMode(vals[i]))
		e.r.Corr()
		if uint64(got) != want {
			e.r.Fail("corr", "corr:C05/filemode-to-stat", fmt.Sprintf("FilemodeToStatMode(%#x) = %#o, model %#o", vals[i], got, want), map[string]interface{}{"filemode": vals[i]})
			break
		}
	}
	return nil
}

// ---------- the model's prediction of the unpacked tree ----------

type c05Pred struct {
	Rel    string
	Kind   string
	Perm   uint32
	UID    uint32
	GID    uint32
	Now    bool
	Sec    int64
	Nsec   int64
	Xattrs string
	Extra  string
}

// modelUntar asks the oracle for decode_archive + LocalFS writer run on the model's archive of src.
func (e *c05Env) modelUntar(src []*c05Ent, nso, nsp bool) ([]c05Pred, string, error) {
	var b strings.Builder
	for _, s := range src {
		b.WriteString(eventLine(s, s.Data))
		b.WriteByte('\n')
	}
	in := e.scratch("ev")
	out := e.scratch("pred")
	defer os.Remove(in)
	defer os.Remove(out)
	if err := os.WriteFile(in, []byte(b.String()), 0600); err != nil {
		return nil, "", err
	}
	f := func(x bool) string {
		if x {
			return "1"
		}
		return "0"
	}
	ans, err := e.o.Call("c05.untar", in, f(nso), f(nsp), strconv.Itoa(os.Geteuid()), strconv.Itoa(os.Getegid()), "18", out)
	if err != nil {
		return nil, "", err
	}
	if !strings.HasPrefix(ans, "OK") {
		return nil, ans, nil
	}
	raw, err := os.ReadFile(out)
	if err != nil {
		return nil, "", err
	}
	var ps []c05Pred
	for _, ln := range strings.Split(strings.TrimSpace(string(raw)), "\n") {
		f := strings.Split(ln, " ")
		if len(f) != 8 {
			return nil, "", fmt.Errorf("bad prediction line %q", ln)
		}
		p := c05Pred{Kind: f[1], Xattrs: f[6], Extra: f[7]}
		if f[0] == "-" {
			p.Rel = "."
		} else {
			var cs []string
			for _, c := range strings.Split(f[0], "/") {
				cs = append(cs, string(vh.UnHex(c)))
			}
			p.Rel = strings.Join(cs, "/")
		}
		u, _ := strconv.ParseUint(f[2], 10, 64)
		p.Perm = uint32(u)
		u, _ = strconv.ParseUint(f[3], 10, 64)
		p.UID = uint32(u)
		u, _ = strconv.ParseUint(f[4], 10, 64)
		p.GID = uint32(u)
		if f[5] == "NOW" {
			p.Now = true
		} else {
			u, _ = strconv.ParseUint(f[5], 10, 64)
			ns := int64(u)
			ts := nsToTimespec(ns)
			p.Sec, p.Nsec = ts.Sec, ts.Nsec
			if p.Sec < -2147483648 { // ext4 cannot go further back
				p.Sec, p.Nsec = -2147483648, 0
			}
		}
		ps = append(ps, p)
	}
	return ps, "OK", nil
}

// comparePrediction: the unpacked tree must be exactly what the model of the LocalFS writer leaves behind.
func (e *c05Env) comparePrediction(c *c05Case, src, dst []*c05Ent, nso, nsp bool, t0, t1 time.Time) {
	if e.o == nil {
		return
	}
	ps, status, err := e.modelUntar(src, nso, nsp)
	if err != nil {
		e.r.Note("oracle: %v", err)
		return
	}
	e.r.Corr()
	fail := func(what string) {
		cc := *c
		cc.Detail = what
		e.r.Fail("corr", "corr:C05/untar-result", fmt.Sprintf("route %s: unpacked tree differs from the model of the LocalFS writer: %s", c.Route, what), &cc)
	}
	if status != "OK" {
		fail("the model run ends with " + status + ", the implementation succeeded")
		return
	}
	if len(ps) != len(dst) {
		fail(fmt.Sprintf("model has %d objects, implementation %d", len(ps), len(dst)))
		return
	}
	for i, p := range ps {
		d := dst[i]
		q := fmt.Sprintf("%q", p.Rel)
		switch {
		case p.Rel != d.Rel:
			fail(fmt.Sprintf("object %d is %q in the model, %q on disk", i, p.Rel, d.Rel))
		case p.Kind != d.kind():
			fail(q + ": kind " + p.Kind + " vs " + d.kind())
		case p.Perm != d.Mode&07777:
			fail(fmt.Sprintf("%s: mode %04o in the model, %04o on disk", q, p.Perm, d.Mode&07777))
		case p.UID != d.UID || p.GID != d.GID:
			fail(fmt.Sprintf("%s: owner %d:%d in the model, %d:%d on disk", q, p.UID, p.GID, d.UID, d.GID))
		case p.Xattrs != strings.TrimSuffix(xattrPredString(d.Xattrs), ","):
			fail(fmt.Sprintf("%s: xattrs %s in the model, %s on disk", q, p.Xattrs, xattrPredString(d.Xattrs)))
		default:
			dt := time.Unix(d.Sec, d.Nsec)
			if p.Now {
				if dt.Before(t0.Add(-2*time.Second)) || dt.After(t1.Add(2*time.Second)) {
					fail(fmt.Sprintf("%s: the model leaves the time of extraction, on disk the mtime is %s", q, fmtTime(d.Sec, d.Nsec)))
					return
				}
			} else if p.Sec != d.Sec || p.Nsec != d.Nsec {
				fail(fmt.Sprintf("%s: mtime %s in the model, %s on disk", q, fmtTime(p.Sec, p.Nsec), fmtTime(d.Sec, d.Nsec)))
				return
			}
			switch p.Kind {
			case "dir":
				if p.Extra != strconv.Itoa(d.Kids) {
					fail(fmt.Sprintf("%s: %s entries in the model, %d on disk", q, p.Extra, d.Kids))
					return
				}
			case "file":
				if p.Extra != fmt.Sprintf("%d:%x", d.Size, d.Sum) {
					fail(fmt.Sprintf("%s: content %s in the model, %d:%x on disk", q, p.Extra, d.Size, d.Sum))
					return
				}
			case "link":
				if string(vh.UnHex(p.Extra)) != d.Target {
					fail(fmt.Sprintf("%s: link target differs", q))
					return
				}
			case "chr", "blk":
				if p.Extra != strconv.FormatUint(d.Rdev, 10) {
					fail(fmt.Sprintf("%s: device number %s in the model, %d on disk", q, p.Extra, d.Rdev))
					return
				}
			}
			continue
		}
		return
	}
}

func xattrPredString(m map[string]string) string {
	if len(m) == 0 {
		return "-"
	}
	return xattrString(m)
}
