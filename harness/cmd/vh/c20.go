package main

// C20 -- local chunk stores use casync's on-disk format; both formats coexist.
//
// Predicates evaluated on the implementation (independent of the Coq model):
//   layout    after StoreChunk the store holds exactly <4 hex>/<64 hex>[.cacnk]; the raw file equals the
//             chunk, the .cacnk file is exactly one standard zstd frame that decompresses to the chunk
//   coexist   every Get/Has/Store/Remove/Prune/Verify (incl. every message Verify prints) through a handle of one format gives the same result on the
//             store directory and on a twin directory from which all files of the OTHER format were
//             deleted, and leaves the other format's files byte-identical; Store then Get round-trips
//   fixture   every chunk file of the casync-made fixture stores is served and hashes to its name
// Correspondence with Model/LocalStore.v: file names, result classes, invalid-sum, plain data, the tree
// after StoreChunk/RemoveChunk, and ChunkIDFromString vs unhex_id on adversarial strings.

import (
	"bytes"
	"context"
	"crypto/sha256"
	"encoding/hex"
	"fmt"
	"os"
	"os/exec"
	"path/filepath"
	"regexp"
	"sort"
	"strings"

	"github.com/folbricht/desync"

	"vh/internal/vh"
)

func init() { props["C20"] = runC20 }

var (
	reCompName = regexp.MustCompile(`^([0-9a-f]{4})/([0-9a-f]{64})\.cacnk$`)
	reUncName  = regexp.MustCompile(`^([0-9a-f]{4})/([0-9a-f]{64})$`)
)

// isFormatFile: rel is a canonical chunk file name of the given format.
func isFormatFile(rel string, unc bool) bool {
	re := reCompName
	if unc {
		re = reUncName
	}
	m := re.FindStringSubmatch(rel)
	return m != nil && m[2][:4] == m[1]
}

type c20Op struct {
	Op     string `json:"op"` // get | has | store | remove | prune | verify
	Unc    bool   `json:"unc"`
	Skip   bool   `json:"skip"`
	K      int    `json:"k"`                // index into Chunks
	Keep   int    `json:"keep,omitempty"`   // prune: bit mask over Chunks of the ids to keep
	Repair bool   `json:"repair,omitempty"` // verify
}

type c20Case struct {
	Kind    string   `json:"kind"` // layout | coexist | unhex
	Unc     bool     `json:"unc,omitempty"`
	IDHex   string   `json:"id,omitempty"`
	DataHex string   `json:"data,omitempty"`
	Forced  bool     `json:"forced_id,omitempty"`
	Shape   string   `json:"shape,omitempty"`
	Chunks  []string `json:"chunks,omitempty"`
	Tree    []fsEnt  `json:"tree,omitempty"`
	Ops     []c20Op  `json:"ops,omitempty"`
	Str     string   `json:"str_hex,omitempty"`
	FailOp  int      `json:"failing_op,omitempty"`
	What    string   `json:"what,omitempty"`
}

func lsLocalStore(dir string, unc, skip bool) (desync.LocalStore, error) {
	return desync.NewLocalStore(dir, desync.StoreOptions{Uncompressed: unc, SkipVerify: skip})
}

func lsFreshDir(work, name string) (string, error) {
	d := filepath.Join(work, name)
	os.RemoveAll(d)
	return d, os.MkdirAll(d, 0755)
}

// ---------- layout ----------

func c20Layout(a vh.Args, o *vh.Oracle, r *vh.Result, c *c20Case) error {
	desync.Digest = desync.SHA256{}
	data := vh.UnHex(c.DataHex)
	dir, err := lsFreshDir(a.Work, "layout")
	if err != nil {
		return err
	}
	s, err := lsLocalStore(dir, c.Unc, false)
	if err != nil {
		return err
	}
	var chunk *desync.Chunk
	var id desync.ChunkID
	if c.Forced {
		id, err = desync.ChunkIDFromString(c.IDHex)
		if err != nil {
			return err
		}
		chunk, _ = desync.NewChunkWithID(id, data, true)
	} else {
		chunk = desync.NewChunk(data)
		id = chunk.ID()
		c.IDHex = id.String()
	}
	r.Count(fmt.Sprintf("layout|%v|%s|%s|%v", c.Unc, c.Shape, c.IDHex[:8], c.Forced), true)
	r.Dist("layout-shape:" + c.Shape)
	r.Dist(fmt.Sprintf("layout-unc:%v", c.Unc))
	if err := s.StoreChunk(chunk); err != nil {
		r.Fail("predicate", "layout/store-fails", fmt.Sprintf("StoreChunk failed: %v", err), c)
		return nil
	}
	ents, err := snapshotTree(dir)
	if err != nil {
		return err
	}
	// predicate: casync layout
	ext := ".cacnk"
	if c.Unc {
		ext = ""
	}
	want := c.IDHex[:4] + "/" + c.IDHex + ext
	var files []fsEnt
	for _, e := range ents {
		if e.Kind != "d" {
			files = append(files, e)
		}
	}
	bad := ""
	switch {
	case len(files) != 1:
		bad = fmt.Sprintf("%d files in the store after one StoreChunk", len(files))
	case files[0].Path != want:
		bad = fmt.Sprintf("chunk stored as %q, casync layout is %q", files[0].Path, want)
	case c.IDHex != strings.ToLower(c.IDHex) || !isFormatFile(files[0].Path, c.Unc):
		bad = "name is not <4 hex>/<64 lower-case hex><ext>"
	case c.Unc && !bytes.Equal(files[0].Data, data):
		bad = "uncompressed chunk file differs from the chunk data"
	}
	if bad == "" && !c.Unc {
		size, ferr := zstdSingleFrame(files[0].Data)
		if ferr != nil {
			bad = "compressed chunk file is not a single standard zstd frame: " + ferr.Error()
		} else if size >= 0 && size != int64(len(data)) {
			bad = fmt.Sprintf("zstd frame declares content size %d, chunk has %d bytes", size, len(data))
		} else if plain, derr := desync.Decompress(nil, files[0].Data); derr != nil || !bytes.Equal(plain, data) {
			bad = fmt.Sprintf("compressed chunk file does not decompress to the chunk (err=%v)", derr)
		}
	}
	if bad != "" {
		c.What = bad
		r.Fail("predicate", "layout/"+map[bool]string{true: "uncompressed", false: "compressed"}[c.Unc], bad, c)
	}
	// read back through the API
	if !c.Forced {
		got, gerr := s.GetChunk(id)
		if gerr != nil {
			r.Fail("predicate", "layout/roundtrip", fmt.Sprintf("GetChunk after StoreChunk: %v", gerr), c)
		} else if d, _ := got.Data(); !bytes.Equal(d, data) {
			r.Fail("predicate", "layout/roundtrip", "GetChunk after StoreChunk returns different data", c)
		}
	}
	if o == nil {
		return nil
	}
	// correspondence: name, and (small data) the whole tree after store_chunk
	nm, err := o.Call("c20.name", lsB01(c.Unc), c.IDHex)
	if err != nil {
		return err
	}
	r.Corr()
	if len(files) == 1 && nm != files[0].Path {
		r.Fail("corr", "corr:C20/name", fmt.Sprintf("model name %q, implementation %q", nm, files[0].Path), c)
	}
	if len(data) <= 4096 && len(files) == 1 {
		zt := "-"
		if !c.Unc {
			zt = lsHx(data) + "=" + lsHx(files[0].Data)
		}
		ans, err := o.Call("c20.store", lsB01(c.Unc), lsHx([]byte("s")), c.IDHex, lsHx(data), "2e31,2e32", encodeTree("s", nil), zt)
		if err != nil {
			return err
		}
		r.Corr()
		f := strings.SplitN(ans, " ", 2)
		mt, _ := decodeTree("s", f[len(f)-1])
		if f[0] != "ok" {
			r.Fail("corr", "corr:C20/store-result", "model store_chunk: "+f[0]+", implementation ok", c)
		} else if d := diffTrees(ents, mt); d != "" {
			r.Fail("corr", "corr:C20/store-tree", "tree after StoreChunk differs from the model: "+d, c)
		}
	}
	return nil
}

func lsB01(b bool) string {
	if b {
		return "1"
	}
	return "0"
}

// ---------- coexistence ----------

type opResult struct {
	Class string
	Data  []byte
	Sum   string
}

func c20KeepIDs(op c20Op, chunks []string) []string {
	var out []string
	for i, h := range chunks {
		if op.Keep&(1<<uint(i)) != 0 {
			out = append(out, lsSha256Hex(vh.UnHex(h)))
		}
	}
	return out
}

func c20Apply(dir string, op c20Op, data []byte, chunks []string) (opResult, error) {
	s, err := lsLocalStore(dir, op.Unc, op.Skip)
	if err != nil {
		return opResult{}, err
	}
	switch op.Op {
	case "prune":
		keep := map[desync.ChunkID]struct{}{}
		for _, h := range c20KeepIDs(op, chunks) {
			id, _ := desync.ChunkIDFromString(h)
			keep[id] = struct{}{}
		}
		cl := lsErrClass(s.Prune(context.Background(), keep))
		if cl == "ok" {
			cl = "nil"
		}
		return opResult{Class: cl}, nil
	case "verify":
		var w lsLockedBuf
		verr := s.Verify(context.Background(), 2, op.Repair, &w)
		cl := "nil"
		if verr != nil {
			cl = "other"
		}
		// everything Verify printed, order-independent (the directory name is not part of any message)
		lines := strings.Split(strings.TrimSpace(w.b.String()), "\n")
		sort.Strings(lines)
		return opResult{Class: cl, Data: []byte(strings.Join(lines, "\n"))}, nil
	}
	sum := sha256.Sum256(data)
	var id desync.ChunkID
	copy(id[:], sum[:])
	switch op.Op {
	case "get":
		ch, err := s.GetChunk(id)
		res := opResult{Class: lsErrClass(err)}
		if ci, ok := err.(desync.ChunkInvalid); ok {
			res.Sum = ci.Sum.String()
		}
		if err == nil {
			d, derr := ch.Data()
			if derr != nil {
				res.Class = "ok-nodata"
			}
			res.Data = d
		}
		return res, nil
	case "has":
		ok, err := s.HasChunk(id)
		if err != nil {
			return opResult{Class: "err"}, nil
		}
		return opResult{Class: map[bool]string{true: "yes", false: "no"}[ok]}, nil
	case "store":
		err := s.StoreChunk(desync.NewChunk(data))
		cl := "ok"
		if err != nil {
			cl = "err"
		}
		return opResult{Class: cl}, nil
	case "remove":
		err := s.RemoveChunk(id)
		cl := lsErrClass(err)
		if cl == "other" {
			cl = "err"
		}
		return opResult{Class: cl}, nil
	}
	return opResult{}, fmt.Errorf("unknown op %s", op.Op)
}

func withoutFormat(ents []fsEnt, unc bool) []fsEnt {
	var out []fsEnt
	for _, e := range ents {
		if e.Kind == "f" && isFormatFile(e.Path, unc) {
			continue
		}
		out = append(out, e)
	}
	return out
}

func onlyFormat(ents []fsEnt, unc bool) []fsEnt {
	var out []fsEnt
	for _, e := range ents {
		if e.Kind == "f" && isFormatFile(e.Path, unc) {
			out = append(out, e)
		}
	}
	return out
}

func decompTable(ents []fsEnt) string {
	seen := map[string]bool{}
	var parts []string
	for _, e := range ents {
		if e.Kind != "f" || len(e.Data) == 0 || seen[string(e.Data)] {
			continue
		}
		seen[string(e.Data)] = true
		p, err := desync.Decompress(nil, e.Data)
		if err != nil {
			parts = append(parts, lsHx(e.Data)+"=!")
		} else {
			parts = append(parts, lsHx(e.Data)+"="+lsHx(p))
		}
	}
	if len(parts) == 0 {
		return "-"
	}
	return strings.Join(parts, ";")
}

func c20Coexist(a vh.Args, o *vh.Oracle, r *vh.Result, c *c20Case) error {
	desync.Digest = desync.SHA256{}
	root, err := lsFreshDir(a.Work, "co")
	if err != nil {
		return err
	}
	if err := writeTree(root, c.Tree); err != nil {
		return err
	}
	fail := func(i int, kind, class, what string) {
		c.FailOp = i
		c.What = what
		r.Fail(kind, class, fmt.Sprintf("op %d (%+v): %s", i, c.Ops[i], what), c)
	}
	for i, op := range c.Ops {
		data := vh.UnHex(c.Chunks[op.K])
		sum := sha256.Sum256(data)
		idh := hex.EncodeToString(sum[:])
		pre, err := snapshotTree(root)
		if err != nil {
			return err
		}
		twin, err := lsFreshDir(a.Work, "twin")
		if err != nil {
			return err
		}
		if err := writeTree(twin, withoutFormat(pre, !op.Unc)); err != nil {
			return err
		}
		res, err := c20Apply(root, op, data, c.Chunks)
		if err != nil {
			return err
		}
		resT, err := c20Apply(twin, op, data, c.Chunks)
		if err != nil {
			return err
		}
		post, _ := snapshotTree(root)
		postT, _ := snapshotTree(twin)
		r.Count(fmt.Sprintf("coexist|%s|%v|%v|%s|%s", op.Op, op.Unc, op.Skip, res.Class, idh[:6]), len(onlyFormat(pre, !op.Unc)) > 0)
		r.Dist("op:" + op.Op + "/" + res.Class)
		// predicate 1: the other format's files do not influence the result ...
		if res.Class != resT.Class || !bytes.Equal(res.Data, resT.Data) || res.Sum != resT.Sum {
			fail(i, "predicate", "coexist/"+op.Op+"-sees-other-format", fmt.Sprintf("result %s with the other format's files present, %s without them", res.Class, resT.Class))
		}
		if d := diffTrees(withoutFormat(post, !op.Unc), postT); d != "" {
			fail(i, "predicate", "coexist/"+op.Op+"-sees-other-format", "own-format/other files after the operation differ with and without the other format's files: "+d)
		}
		// ... and are not touched by it
		if d := diffTrees(onlyFormat(pre, !op.Unc), onlyFormat(post, !op.Unc)); d != "" {
			fail(i, "predicate", "coexist/"+op.Op+"-touches-other-format", "files of the other format changed: "+d)
		}
		// predicate 2: round trip
		if op.Op == "store" && res.Class == "ok" {
			s, _ := lsLocalStore(root, op.Unc, false)
			var id desync.ChunkID
			copy(id[:], sum[:])
			ch, gerr := s.GetChunk(id)
			var d []byte
			if gerr == nil {
				d, _ = ch.Data()
			}
			if gerr != nil || !bytes.Equal(d, data) {
				fail(i, "predicate", "coexist/store-roundtrip", fmt.Sprintf("GetChunk after StoreChunk: err=%v, data equal=%v", gerr, bytes.Equal(d, data)))
			}
			if ok, _ := s.HasChunk(id); !ok {
				fail(i, "predicate", "coexist/store-roundtrip", "HasChunk false after StoreChunk")
			}
		}
		if op.Op == "get" && res.Class == "ok" && !op.Skip && !bytes.Equal(res.Data, data) {
			fail(i, "predicate", "coexist/get-wrong-data", "GetChunk (verifying) returned data that is not the chunk")
		}
		if o == nil {
			continue
		}
		// correspondence
		tree := encodeTree("s", pre)
		base := lsHx([]byte("s"))
		switch op.Op {
		case "get":
			ans, err := o.Call("c20.get", lsB01(op.Unc), lsB01(op.Skip), base, idh, tree, decompTable(pre))
			if err != nil {
				return err
			}
			r.Corr()
			f := strings.Split(ans, ":")
			mc := f[0]
			if mc == "ok" && f[2] == "none" {
				mc = "ok-nodata"
			}
			if mc != res.Class {
				fail(i, "corr", "corr:C20/get-class", fmt.Sprintf("model %s, implementation %s", ans, res.Class))
			} else if mc == "invalid" && f[1] != res.Sum {
				fail(i, "corr", "corr:C20/get-sum", fmt.Sprintf("model sum %s, implementation %s", f[1], res.Sum))
			} else if mc == "ok" && !bytes.Equal(lsUnhx(f[2]), res.Data) {
				fail(i, "corr", "corr:C20/get-data", "plain data differs")
			}
		case "has":
			ans, err := o.Call("c20.has", lsB01(op.Unc), base, idh, tree)
			if err != nil {
				return err
			}
			r.Corr()
			if ans != res.Class {
				fail(i, "corr", "corr:C20/has", fmt.Sprintf("model %s, implementation %s", ans, res.Class))
			}
		case "store":
			zt := "-"
			if !op.Unc {
				cb, _ := desync.Compress(data)
				zt = lsHx(data) + "=" + lsHx(cb)
			}
			ans, err := o.Call("c20.store", lsB01(op.Unc), base, idh, lsHx(data), "2e31,2e32,2e33,2e34", tree, zt)
			if err != nil {
				return err
			}
			r.Corr()
			f := strings.SplitN(ans, " ", 2)
			mc := "ok"
			if f[0] != "ok" {
				mc = "err"
			}
			mt, _ := decodeTree("s", f[len(f)-1])
			if mc != res.Class {
				fail(i, "corr", "corr:C20/store-result", fmt.Sprintf("model %s, implementation %s", f[0], res.Class))
			} else if d := diffTrees(post, mt); d != "" {
				fail(i, "corr", "corr:C20/store-tree", "tree after StoreChunk differs from the model: "+d)
			}
		case "prune":
			ans, err := o.Call("c16.prune", lsB01(op.Unc), lsHx([]byte(root)), strings.Join(c20KeepIDs(op, c.Chunks), ","), tree)
			if err != nil {
				return err
			}
			r.Corr()
			f := strings.SplitN(ans, " ", 2)
			mc := f[0]
			switch {
			case strings.HasPrefix(mc, "missing"):
				mc = "missing"
			case strings.HasPrefix(mc, "errno"):
				mc = "other"
			}
			mt, _ := decodeTree("s", f[1])
			if mc != res.Class {
				fail(i, "corr", "corr:C20/prune-result", fmt.Sprintf("model %s, implementation %s", f[0], res.Class))
			} else if d := diffTrees(post, mt); d != "" {
				fail(i, "corr", "corr:C20/prune-tree", "tree after Prune differs from the model: "+d)
			}
		case "verify":
			ans, err := o.Call("c16.verify", "lazy", lsB01(op.Unc), lsB01(op.Repair), lsHx([]byte(root)), tree, decompTable(pre), lsB01(op.Skip))
			if err != nil {
				return err
			}
			r.Corr()
			reported := map[string]string{}
			for _, line := range strings.Split(string(res.Data), "\n") {
				if m := reInvalid.FindStringSubmatch(line); m != nil {
					reported[m[1]] = m[2]
				}
			}
			if d := c16CompareVerify(ans, res.Class, reported, post); d != "" {
				f := strings.SplitN(d, "|", 2)
				fail(i, "corr", strings.Replace(f[0], "C16", "C20", 1), f[1])
			}
		case "remove":
			ans, err := o.Call("c20.remove", lsB01(op.Unc), base, idh, tree)
			if err != nil {
				return err
			}
			r.Corr()
			f := strings.SplitN(ans, " ", 2)
			mc := f[0]
			if strings.HasPrefix(mc, "err") {
				mc = "err"
			}
			if mc != res.Class {
				fail(i, "corr", "corr:C20/remove-result", fmt.Sprintf("model %s, implementation %s", f[0], res.Class))
			} else if mc == "ok" {
				mt, _ := decodeTree("s", f[1])
				if d := diffTrees(post, mt); d != "" {
					fail(i, "corr", "corr:C20/remove-tree", "tree after RemoveChunk differs from the model: "+d)
				}
			}
		}
	}
	return nil
}

func c20GenCoexist(rng *vh.Rand) *c20Case {
	c := &c20Case{Kind: "coexist"}
	k := 2 + rng.Intn(3)
	for i := 0; i < k; i++ {
		d, _ := vh.Blob(rng, 1+rng.Intn(60))
		d = append(d, byte(i)) // distinct chunks, hence distinct ids
		c.Chunks = append(c.Chunks, vh.Hex(d))
	}
	add := func(p, kind string, data []byte) { c.Tree = append(c.Tree, fsEnt{Path: p, Kind: kind, Data: data}) }
	prefixes := map[string]int{}
	for i := 0; i < k; i++ {
		prefixes[lsSha256Hex(vh.UnHex(c.Chunks[i]))[:4]]++
	}
	for i := 0; i < k; i++ {
		data := vh.UnHex(c.Chunks[i])
		sum := sha256.Sum256(data)
		idh := hex.EncodeToString(sum[:])
		if rng.Chance(1, 12) && prefixes[idh[:4]] == 1 { // a file where the directory should be
			add(idh[:4], "f", []byte("not a directory"))
			continue
		}
		for _, unc := range []bool{false, true} {
			name := idh[:4] + "/" + idh
			valid := data
			if !unc {
				name += ".cacnk"
				valid, _ = desync.Compress(data)
			}
			switch v := rng.Intn(20); {
			case v < 6: // absent
			case v < 13:
				add(name, "f", valid)
			case v < 15: // corrupt: one flipped byte
				b := append([]byte{}, valid...)
				b[rng.Intn(len(b))] ^= byte(1 << uint(rng.Intn(8)))
				add(name, "f", b)
			case v < 16: // another chunk's object
				other := vh.UnHex(c.Chunks[(i+1)%k])
				if !unc {
					other, _ = desync.Compress(other)
				}
				add(name, "f", other)
			case v < 17:
				add(name, "f", nil)
			case v < 18:
				add(name, "d", nil)
			case v < 19: // the other format's bytes under this format's name
				if unc {
					b, _ := desync.Compress(data)
					add(name, "f", b)
				} else {
					add(name, "f", data)
				}
			default:
				add(name, "f", rng.Bytes(1+rng.Intn(20)))
			}
		}
		if rng.Chance(1, 4) {
			add(idh[:4]+"/.tmp-cacnk.1", "f", []byte("partial"))
		}
	}
	if rng.Chance(1, 3) {
		add("README", "f", []byte("junk"))
	}
	n := 6 + rng.Intn(6)
	for i := 0; i < n; i++ {
		op := c20Op{Op: []string{"get", "get", "has", "store", "remove", "get", "prune", "verify"}[rng.Intn(8)], Unc: rng.Bool(), K: rng.Intn(k)}
		switch op.Op {
		case "get":
			op.Skip = rng.Chance(1, 4)
		case "prune":
			op.Keep = rng.Intn(1 << uint(k))
		case "verify":
			op.Repair = rng.Bool()
			op.Skip = rng.Chance(1, 3)
		}
		c.Ops = append(c.Ops, op)
	}
	return c
}

// ---------- ChunkIDFromString vs unhex_id ----------

func c20Unhex(o *vh.Oracle, r *vh.Result, c *c20Case) error {
	s := string(vh.UnHex(c.Str))
	id, err := desync.ChunkIDFromString(s)
	got := "none"
	if err == nil {
		got = id.String()
	}
	r.Count("unhex|"+c.Str, got != "none" || len(s) >= 60)
	r.Dist("unhex:" + map[bool]string{true: "accepted", false: "rejected"}[err == nil])
	if o == nil {
		return nil
	}
	ans, oerr := o.Call("c20.unhex", c.Str)
	if oerr != nil {
		return oerr
	}
	r.Corr()
	if ans != got {
		r.Fail("corr", "corr:C20/unhex", fmt.Sprintf("ChunkIDFromString(%q) = %s, model unhex_id = %s", s, got, ans), c)
	}
	return nil
}

func c20UnhexStrings(rng *vh.Rand, n int) []string {
	var out []string
	base := func() string { return hex.EncodeToString(rng.Bytes(32)) }
	out = append(out, "", strings.Repeat("0", 64), strings.Repeat("f", 64), strings.Repeat("F", 64), strings.Repeat("0", 63), strings.Repeat("0", 65), strings.Repeat("0", 66), strings.Repeat("0", 62))
	for i := 0; i < n; i++ {
		b := base()
		switch rng.Intn(10) {
		case 0:
			b = strings.ToUpper(b)
		case 1: // mixed case
			x := []byte(b)
			for j := range x {
				if rng.Bool() {
					x[j] = strings.ToUpper(string(x[j]))[0]
				}
			}
			b = string(x)
		case 2:
			x := []byte(b)
			x[rng.Intn(64)] = "g.GZ/ -_:@`"[rng.Intn(11)]
			b = string(x)
		case 3:
			b += ".cacnk"
		case 4:
			b = b[:rng.Intn(64)]
		case 5:
			b += base()[:1+rng.Intn(8)]
		case 6:
			x := []byte(b)
			x[rng.Intn(64)] = byte(rng.Intn(256))
			b = string(x)
		case 7:
			b = ".tmp-cacnk." + b[:20]
		}
		out = append(out, b)
	}
	return out
}

// ---------- fixture stores written by casync ----------

func c20Fixtures(a vh.Args, r *vh.Result) {
	repo := os.Getenv("VH_REPO")
	if repo == "" {
		repo = "/repo"
	}
	desync.Digest = desync.SHA512256{}
	defer func() { desync.Digest = desync.SHA256{} }()
	stores, _ := filepath.Glob(filepath.Join(repo, "testdata", "*.store"))
	more, _ := filepath.Glob(filepath.Join(repo, "cmd", "desync", "testdata", "*.store"))
	stores = append(stores, more...)
	total := 0
	for _, st := range stores {
		ents, err := snapshotTree(st)
		if err != nil {
			continue
		}
		s, err := lsLocalStore(st, false, false)
		if err != nil {
			continue
		}
		for _, e := range ents {
			if e.Kind != "f" || !isFormatFile(e.Path, false) {
				continue
			}
			total++
			idh := reCompName.FindStringSubmatch(e.Path)[2]
			id, _ := desync.ChunkIDFromString(idh)
			cs := map[string]string{"store": filepath.Base(st), "file": e.Path}
			r.Count("fixture|"+filepath.Base(st)+"|"+e.Path, true)
			if _, ferr := zstdSingleFrame(e.Data); ferr != nil {
				r.Fail("predicate", "fixture/frame", "casync-written chunk is not a single zstd frame by the harness parser: "+ferr.Error(), cs)
			}
			ch, err := s.GetChunk(id)
			if err != nil {
				r.Fail("predicate", "fixture/unreadable", fmt.Sprintf("GetChunk on casync-written chunk: %v", err), cs)
				continue
			}
			d, _ := ch.Data()
			if desync.Digest.Sum(d) != id {
				r.Fail("predicate", "fixture/unreadable", "casync-written chunk does not hash to its name", cs)
			}
			if ok, _ := s.HasChunk(id); !ok {
				r.Fail("predicate", "fixture/unreadable", "HasChunk false for a casync-written chunk", cs)
			}
		}
	}
	r.Dist(fmt.Sprintf("fixture-chunks:%d", total))
	if total == 0 {
		r.Note("no fixture stores found under %s", repo)
	}
}

// ---------- cross-implementation zstd (thorough tier): klauspost build <-> libzstd (cgo) build ----------

func c20Interop(a vh.Args, r *vh.Result) {
	verif := os.Getenv("VH_VERIF")
	repo := os.Getenv("VH_REPO")
	if verif == "" || repo == "" {
		r.Note("interop skipped: VH_VERIF/VH_REPO not set")
		return
	}
	hdir := filepath.Join(verif, "harness")
	kp := filepath.Join(hdir, "bin", "zinterop-kp")
	dd := filepath.Join(hdir, "bin", "zinterop-dd")
	build := func(out, tags string, cgo string) error {
		cmd := exec.Command("go", "build", "-tags", tags, "-o", out, "./cmd/zinterop")
		cmd.Dir = hdir
		cmd.Env = append(os.Environ(), "CGO_ENABLED="+cgo)
		b, err := cmd.CombinedOutput()
		if err != nil {
			return fmt.Errorf("%v: %s", err, string(b))
		}
		return nil
	}
	if err := build(kp, "verif", "0"); err != nil {
		r.Note("interop skipped: default build of the helper failed: %v", err)
		r.Fail("harness", "interop-build", err.Error(), nil)
		return
	}
	if err := build(dd, "verif datadog", "1"); err != nil {
		r.Note("interop: libzstd (datadog, cgo) build of the helper failed: %v", err)
		r.Fail("harness", "interop-build", err.Error(), nil)
		return
	}
	run := func(bin string, args ...string) (string, error) {
		b, err := exec.Command(bin, args...).CombinedOutput()
		return strings.TrimSpace(string(b)), err
	}
	seed := fmt.Sprint(a.Seed)
	for _, w := range []struct{ name, bin string }{{"klauspost", kp}, {"libzstd", dd}} {
		dir, _ := lsFreshDir(a.Work, "interop-"+w.name)
		wout, err := run(w.bin, "write", dir, seed, "40")
		if err != nil {
			r.Fail("predicate", "interop/write-"+w.name, "helper write failed: "+wout, nil)
			continue
		}
		for _, rd := range []struct{ name, bin string }{{"klauspost", kp}, {"libzstd", dd}} {
			rout, err := run(rd.bin, "read", dir)
			r.Count("interop|"+w.name+"->"+rd.name, w.name != rd.name)
			r.Dist("interop:" + w.name + "->" + rd.name)
			if err != nil || rout != wout {
				r.Fail("predicate", "interop/"+w.name+"-to-"+rd.name, fmt.Sprintf("store written by the %s build read by the %s build: wrote %q, read %q (err=%v)", w.name, rd.name, wout, rout, err), map[string]string{"writer": w.name, "reader": rd.name, "seed": seed})
			}
		}
	}
	// hand-assembled streaming-style frames (window 1 KiB .. 8 MiB) through both builds
	{
		dir, _ := lsFreshDir(a.Work, "interop-frames")
		want, err := c20FrameStore(dir, vh.NewRand(a.Seed))
		if err == nil {
			for _, rd := range []struct{ name, bin string }{{"klauspost", kp}, {"libzstd", dd}} {
				got, rerr := run(rd.bin, "read", dir)
				r.Count("interop|frames->"+rd.name, true)
				r.Dist("interop:frames->" + rd.name)
				if rerr != nil || got != want {
					r.Fail("predicate", "interop/frames-to-"+rd.name, fmt.Sprintf("store of hand-assembled zstd frames read by the %s build: want %q, got %q (err=%v)", rd.name, want, got, rerr), map[string]string{"reader": rd.name, "seed": seed})
				}
			}
		}
	}
	// casync-written fixtures through the libzstd build
	for _, st := range []string{filepath.Join(repo, "testdata", "blob1.store"), filepath.Join(repo, "cmd", "desync", "testdata", "blob2.store")} {
		o1, e1 := run(kp, "read512", st)
		o2, e2 := run(dd, "read512", st)
		r.Count("interop|fixture|"+filepath.Base(st), true)
		if e1 != nil || e2 != nil || o1 != o2 {
			r.Fail("predicate", "interop/fixture", fmt.Sprintf("fixture %s: klauspost build %q (%v), libzstd build %q (%v)", st, o1, e1, o2, e2), nil)
		}
	}
}

// ---------- driver ----------

func runC20(a vh.Args, o *vh.Oracle, r *vh.Result) error {
	r.Rule = "cases: layout = (chunk shape incl. 1 byte, all-zero, incompressible, 256 KiB; format; real or forced id) stored into an empty store and the directory inspected; coexist = random store directory over 2-4 chunk ids with every (id, format) slot absent/valid/corrupt/foreign/empty/directory/garbage plus temp and junk files, then 6-11 random get/has/store/remove/prune/verify operations through handles of either format, each compared with a twin directory lacking the other format's files; unhex = adversarial id strings; fixture = every chunk of the casync-made stores; frame = hand-assembled / streaming zstd frames; history = one chunk object (NewChunk / GetChunk / Cache / Copy) stored into stores of both formats in every order; content = chunk contents that look like storage objects (zstd frames and fragments, gzip/xz magics), also via chopping a .zst file. non-trivial = layout and fixture cases, coexist operations with at least one file of the other format present, id strings of length >= 60 or accepted"
	desync.Digest = desync.SHA256{}
	if a.Replay != "" {
		var c c20Case
		if err := readJSON(a.Replay, &c); err != nil {
			return err
		}
		switch c.Kind {
		case "layout":
			return c20Layout(a, o, r, &c)
		case "coexist":
			return c20Coexist(a, o, r, &c)
		case "unhex":
			return c20Unhex(o, r, &c)
		case "history", "content", "chop":
			var hc c20HistCase
			if err := readJSON(a.Replay, &hc); err != nil {
				return err
			}
			switch c.Kind {
			case "history":
				return c20History(a, r, &hc)
			case "content":
				return c20Content(a, r, &hc)
			}
			return c20Chop(a, r, &hc)
		case "leftover", "twoformat-concurrent":
			var tc c20TmpCase
			if err := readJSON(a.Replay, &tc); err != nil {
				return err
			}
			if c.Kind == "leftover" {
				return c20Leftover(a, r, &tc)
			}
			return c20TwoFormatConcurrent(a, r, &tc)
		case "store-fault":
			var fc c20FaultCase
			if err := readJSON(a.Replay, &fc); err != nil {
				return err
			}
			return c20StoreFault(a, r, &fc)
		case "serve":
			var sc c20ServeCase
			if err := readJSON(a.Replay, &sc); err != nil {
				return err
			}
			return c20Serve(a, o, r, &sc)
		case "frame":
			var fc c20FrameCase
			if err := readJSON(a.Replay, &fc); err != nil {
				return err
			}
			return c20Frame(a, r, &fc)
		}
		return fmt.Errorf("cannot replay case kind %q", c.Kind)
	}
	rng := vh.NewRand(a.Seed)
	thorough := a.Tier == "thorough"
	// layout
	type shape struct {
		name string
		gen  func() []byte
	}
	shapes := []shape{
		{"1-byte", func() []byte { return rng.Bytes(1) }},
		{"zero-4k", func() []byte { return make([]byte, 4096) }},
		{"zero-64k", func() []byte { return make([]byte, 65536) }},
		{"random-100", func() []byte { return rng.Bytes(100) }},
		{"random-64k", func() []byte { return rng.Bytes(65536) }},
		{"max-256k", func() []byte { return rng.Bytes(256 * 1024) }},
		{"text", func() []byte { return bytes.Repeat([]byte("the quick brown fox "), 50+rng.Intn(50)) }},
		{"low-entropy", func() []byte {
			b := make([]byte, 3000)
			for i := range b {
				b[i] = byte(rng.Intn(3))
			}
			return b
		}},
	}
	rounds := 1
	if thorough {
		rounds = 6
	}
	for k := 0; k < rounds; k++ {
		for _, sh := range shapes {
			for _, unc := range []bool{false, true} {
				c := &c20Case{Kind: "layout", Unc: unc, DataHex: vh.Hex(sh.gen()), Shape: sh.name}
				if err := c20Layout(a, o, r, c); err != nil {
					return err
				}
			}
		}
	}
	for _, idh := range []string{strings.Repeat("0", 64), strings.Repeat("f", 64), "0123456789abcdef0123456789abcdef0123456789abcdef0123456789abcdef", "abcd" + strings.Repeat("0", 60), hex.EncodeToString(rng.Bytes(32))} {
		for _, unc := range []bool{false, true} {
			c := &c20Case{Kind: "layout", Unc: unc, IDHex: idh, Forced: true, DataHex: vh.Hex(rng.Bytes(1 + rng.Intn(50))), Shape: "forced-id"}
			if err := c20Layout(a, o, r, c); err != nil {
				return err
			}
		}
	}
	// coexistence
	n := 60
	if thorough {
		n = 1500
	}
	for k := 0; k < n; k++ {
		if err := c20Coexist(a, o, r, c20GenCoexist(rng)); err != nil {
			return err
		}
	}
	// id strings
	ns := 300
	if thorough {
		ns = 10000
	}
	for _, s := range c20UnhexStrings(rng, ns) {
		if err := c20Unhex(o, r, &c20Case{Kind: "unhex", Str: vh.Hex([]byte(s))}); err != nil {
			return err
		}
	}
	r.Sample(map[string]interface{}{"kind": "coexist", "example": c20GenCoexist(vh.NewRand(a.Seed)).Ops})
	if err := c20FramesAll(a, r, rng); err != nil {
		return err
	}
	if err := c20ObjectsAll(a, r, rng); err != nil {
		return err
	}
	if err := c20ServeAll(a, o, r, rng); err != nil {
		return err
	}
	if err := c20TmpAll(a, r, rng); err != nil {
		return err
	}
	if err := c20StoreFaultAll(a, r, rng); err != nil {
		return err
	}
	c20Fixtures(a, r)
	if thorough {
		c20Interop(a, r)
	} else {
		r.Note("cross-implementation zstd interop (klauspost build <-> libzstd cgo build) runs in the thorough tier only")
	}
	return nil
}
