package main

// C19, protocol endpoints: the real ProtocolServer.Serve fed with an arbitrary client byte stream, and the
// real client (Protocol.Initialize + RequestChunk) fed with an arbitrary server byte stream, in the
// memory-limited child.  Predicate as for the other decoders (no panic / hang / out-of-memory,
// allocation bounded); result class and the replies sent (server) / reply kinds seen (client) are
// compared with Model/ProtocolServer.v.

import (
	"bytes"
	"context"
	"encoding/hex"
	"fmt"
	"io"
	"sync"

	"github.com/folbricht/desync"

	"vh/internal/vh"
)

type c19MemStore struct{ chunks map[desync.ChunkID]*desync.Chunk }

func (s c19MemStore) GetChunk(id desync.ChunkID) (*desync.Chunk, error) {
	if c, ok := s.chunks[id]; ok {
		return c, nil
	}
	return nil, desync.ChunkMissing{ID: id}
}
func (s c19MemStore) HasChunk(id desync.ChunkID) (bool, error) { _, ok := s.chunks[id]; return ok, nil }
func (s c19MemStore) Close() error                             { return nil }
func (s c19MemStore) String() string                           { return "c19-mem" }

// the store both endpoints' cases are built around: three small chunks
func c19ProtoStore() (c19MemStore, []desync.ChunkID) {
	desync.Digest = desync.SHA512256{}
	s := c19MemStore{chunks: map[desync.ChunkID]*desync.Chunk{}}
	var ids []desync.ChunkID
	for _, d := range []string{"first chunk", "second chunk, a little longer than the first one", "3"} {
		c := desync.NewChunk([]byte(d))
		s.chunks[c.ID()] = c
		ids = append(ids, c.ID())
	}
	return s, ids
}

func c19ProtoStoreIDs() string {
	_, ids := c19ProtoStore()
	out := ""
	for i, id := range ids {
		if i > 0 {
			out += ","
		}
		out += hex.EncodeToString(id[:])
	}
	return out
}

type c19LockedBuffer struct {
	mu sync.Mutex
	b  bytes.Buffer
}

func (w *c19LockedBuffer) Write(p []byte) (int, error) {
	w.mu.Lock()
	defer w.mu.Unlock()
	return w.b.Write(p)
}

func c19Msg(typ uint64, body []byte) []byte { return append(le64(uint64(16+len(body)), typ), body...) }

// c19SplitMessages: the well-formed messages at the start of a stream written by this side.
func c19SplitMessages(b []byte) (out []desync.Message) {
	r := bytes.NewReader(b)
	p := desync.NewProtocol(r, io.Discard)
	for r.Len() > 0 {
		m, err := p.ReadMessage()
		if err != nil {
			break
		}
		out = append(out, m)
	}
	return out
}

func c19RunProto(c *c19Case, in []byte, out *c19Out, m *c19Meter) {
	store, ids := c19ProtoStore()
	switch c.Decoder {
	case "server":
		var w c19LockedBuffer
		srv := desync.NewProtocolServer(bytes.NewReader(in), &w, store)
		var err error
		m.measure(func() { err = srv.Serve(context.Background()) })
		if err != nil {
			out.Status, out.Err = "err", err.Error()
		} else {
			out.Status = "end"
		}
		for _, msg := range c19SplitMessages(w.b.Bytes()) {
			switch {
			case msg.Type == desync.CaProtocolChunk && len(msg.Body) >= 40:
				out.Items = append(out.Items, "chunk:"+hex.EncodeToString(msg.Body[8:40]))
			case msg.Type == desync.CaProtocolMissing && len(msg.Body) >= 32:
				out.Items = append(out.Items, "missing:"+hex.EncodeToString(msg.Body[:32]))
			case msg.Type == desync.CaProtocolHello:
			default:
				out.Items = append(out.Items, fmt.Sprintf("other:%x:%d", msg.Type, len(msg.Body)))
			}
		}
	case "client":
		// What is judged is the handling of the MESSAGES: Initialize, ReadMessage and the body-size guards.
		// Decoding a CHUNK's payload (zstd, chunk verification) is chunk decoding, not message parsing:
		// pass A measures allocation over the message handling alone; pass B runs the real RequestChunk
		// (panics there still kill the child) unmeasured, except for CHUNK payloads whose zstd frame header
		// declares a large size, which are only observed (Decompress allocates what the header declares).
		{
			r := bytes.NewReader(in)
			p := desync.NewProtocol(r, io.Discard)
			var err error
			m.measure(func() { _, err = p.Initialize(desync.CaProtocolPullChunks) })
			for err == nil && r.Len() > 0 {
				var msg desync.Message
				m.measure(func() { msg, err = p.ReadMessage() })
				if err == nil && !(msg.Type == desync.CaProtocolMissing || msg.Type == desync.CaProtocolChunk && len(msg.Body) >= 40) {
					break
				}
			}
		}
		r := bytes.NewReader(in)
		p := desync.NewProtocol(r, io.Discard)
		if _, err := p.Initialize(desync.CaProtocolPullChunks); err != nil {
			out.Status, out.Err = "err", err.Error()
			return
		}
		out.Status = "end"
		for k := 0; r.Len() > 0; k++ {
			id := ids[k%len(ids)]
			var err error
			rest := in[len(in)-r.Len():]
			if c19ZstdDeclared(c19FirstMessage(rest)) > 64<<10 {
				out.Observed = "zstd-declared-size"
				// the same steps as RequestChunk up to the payload
				var msg desync.Message
				if err = p.SendProtocolRequest(id, desync.CaProtocolRequestHighPriority); err == nil {
					msg, err = p.ReadMessage()
				}
				if err == nil && (msg.Type != desync.CaProtocolChunk || len(msg.Body) < 40) {
					err = fmt.Errorf("not a chunk")
				}
			} else {
				_, err = p.RequestChunk(id)
			}
			switch err.(type) {
			case nil, desync.ChunkInvalid: // a CHUNK reply; whether its payload decodes to the id is not judged here
				out.Items = append(out.Items, "chunk")
				continue
			case desync.ChunkMissing:
				out.Items = append(out.Items, "missing")
				continue
			}
			out.Status, out.Err = "err", err.Error()
			break
		}
	}
}

// c19FirstMessage: the bytes of the first message of a stream, if it is complete.
func c19FirstMessage(b []byte) []byte {
	if len(b) < 16 {
		return nil
	}
	l := uint64(0)
	for i := 7; i >= 0; i-- {
		l = l<<8 | uint64(b[i])
	}
	if l < 16 || l > uint64(len(b)) {
		return nil
	}
	return b[:l]
}

// c19ProtoCases: client streams for the server, server streams for the client.
func c19ProtoCases(rng *vh.Rand, thorough bool, add func(decoder, gen string, in []byte)) {
	_, ids := c19ProtoStore()
	hello := func(flags uint64) []byte { return c19Msg(desync.CaProtocolHello, le64(flags)) }
	req := func(id []byte) []byte {
		return c19Msg(desync.CaProtocolRequest, append(le64(desync.CaProtocolRequestHighPriority), id...))
	}
	goodbye := c19Msg(desync.CaProtocolGoodbye, nil)
	okHello := hello(desync.CaProtocolPullChunks)

	// ---- server ----
	// handshake variants
	add("server", "hello@missing", nil)
	add("server", "hello@missing,request-first", append(req(ids[0][:]), goodbye...))
	add("server", "hello@flags=0", append(hello(0), goodbye...))
	add("server", "hello@flags=all", append(hello(^uint64(0)), goodbye...))
	add("server", "hello@flags=push-only", append(hello(desync.CaProtocolPushChunks), goodbye...))
	for _, n := range []int{0, 7, 9, 16, 40} {
		add("server", fmt.Sprintf("hello@body=%d", n), append(c19Msg(desync.CaProtocolHello, rng.Bytes(n)), goodbye...))
	}
	add("server", "hello@repeated", append(append(append([]byte{}, okHello...), okHello...), goodbye...))
	add("server", "hello@only", okHello)
	// after the handshake: a REQUEST for every body length, the length field honest or lying
	for n := 0; n <= 48; n++ {
		body := rng.Bytes(n)
		if n >= 40 && rng.Bool() {
			copy(body[8:], ids[n%len(ids)][:])
		}
		s := append(append([]byte{}, okHello...), req(ids[1][:])...)
		add("server", fmt.Sprintf("request-body@%d", n), append(append(append([]byte{}, s...), c19Msg(desync.CaProtocolRequest, body)...), goodbye...))
		add("server", fmt.Sprintf("request-body@%d,last", n), append(append([]byte{}, s...), c19Msg(desync.CaProtocolRequest, body)...))
		for _, d := range []int{-9, -1, 1, 8, 24} {
			if l := 16 + n + d; l >= 0 {
				lying := append(le64(uint64(l), desync.CaProtocolRequest), body...)
				add("server", fmt.Sprintf("request-length-lies@body=%d,len=%d", n, l), append(append(append([]byte{}, s...), lying...), goodbye...))
			}
		}
	}
	// message types
	types := []uint64{desync.CaProtocolHello, desync.CaProtocolIndex, desync.CaProtocolIndexEOF, desync.CaProtocolArchive, desync.CaProtocolArchiveEOF,
		desync.CaProtocolRequest, desync.CaProtocolChunk, desync.CaProtocolMissing, desync.CaProtocolGoodbye, desync.CaProtocolAbort, 0, 1, rng.U64()}
	for _, t := range types {
		for _, n := range []int{0, 8, 32, 40, 41} {
			add("server", fmt.Sprintf("type@%x,body=%d", t, n), append(append(append([]byte{}, okHello...), c19Msg(t, rng.Bytes(n))...), goodbye...))
		}
	}
	// a whole session: known, unknown, known ids; truncated everywhere; length fields overwritten; bits flipped
	session := append([]byte{}, okHello...)
	for k := 0; k < 5; k++ {
		id := ids[k%len(ids)][:]
		if k%2 == 1 {
			id = rng.Bytes(32)
		}
		session = append(session, req(id)...)
	}
	session = append(session, goodbye...)
	add("server", "session@whole", session)
	add("server", "session@trailing", append(append([]byte{}, session...), rng.Bytes(30)...))
	for n := 0; n < len(session); n++ {
		if thorough || n < 90 || n%5 == 0 {
			add("server", fmt.Sprintf("session-truncated@%d", n), session[:n])
		}
	}
	offs := []int{0}
	for p := 0; p+16 <= len(session); {
		l := int(uint64(session[p]) | uint64(session[p+1])<<8)
		p += l
		if p < len(session) {
			offs = append(offs, p)
		}
	}
	for _, off := range offs {
		for _, sz := range c19Sizes {
			if thorough || rng.Chance(1, 3) {
				add("server", fmt.Sprintf("session-length-field@%d=%d", off, sz), putWord(session, off, sz))
			}
		}
	}
	nflip := 40
	if thorough {
		nflip = 400
	}
	for t := 0; t < nflip; t++ {
		f := append([]byte{}, session...)
		p := rng.Intn(len(f))
		f[p] ^= byte(1 << uint(rng.Intn(8)))
		add("server", fmt.Sprintf("session-bitflip@%d", p), f)
		add("server", "random-after-hello", append(append([]byte{}, okHello...), rng.Bytes(rng.Intn(120))...))
	}

	// ---- client ----
	// what a real server answers to that session
	var w c19LockedBuffer
	store, _ := c19ProtoStore()
	desync.NewProtocolServer(bytes.NewReader(session), &w, store).Serve(context.Background())
	reply := append([]byte{}, w.b.Bytes()...)
	srvHello := hello(desync.CaProtocolReadableStore)
	add("client", "server-reply@whole", reply)
	for n := 0; n < len(reply); n++ {
		if thorough || n < 120 || n%7 == 0 {
			add("client", fmt.Sprintf("server-reply-truncated@%d", n), reply[:n])
		}
	}
	add("client", "hello@missing", nil)
	for _, n := range []int{0, 7, 9, 16} {
		add("client", fmt.Sprintf("hello@body=%d", n), c19Msg(desync.CaProtocolHello, rng.Bytes(n)))
	}
	add("client", "hello@wrong-type", c19Msg(desync.CaProtocolGoodbye, le64(1)))
	for n := 0; n <= 48; n++ {
		add("client", fmt.Sprintf("chunk-body@%d", n), append(append(append([]byte{}, srvHello...), c19Msg(desync.CaProtocolChunk, rng.Bytes(n))...), c19Msg(desync.CaProtocolMissing, ids[0][:])...))
		add("client", fmt.Sprintf("missing-body@%d", n), append(append(append([]byte{}, srvHello...), c19Msg(desync.CaProtocolMissing, rng.Bytes(n))...), c19Msg(desync.CaProtocolMissing, ids[0][:])...))
		for _, d := range []int{-9, -1, 1, 8} {
			if l := 16 + n + d; l >= 0 {
				add("client", fmt.Sprintf("chunk-length-lies@body=%d,len=%d", n, l), append(append([]byte{}, srvHello...), append(le64(uint64(l), desync.CaProtocolChunk), rng.Bytes(n)...)...))
			}
		}
	}
	for _, t := range types {
		for _, n := range []int{0, 8, 32, 40} {
			add("client", fmt.Sprintf("type@%x,body=%d", t, n), append(append([]byte{}, srvHello...), c19Msg(t, rng.Bytes(n))...))
		}
	}
	roffs := []int{0}
	for p := 0; p+16 <= len(reply); {
		l := int(uint64(reply[p]) | uint64(reply[p+1])<<8)
		p += l
		if p < len(reply) {
			roffs = append(roffs, p)
		}
	}
	for _, off := range roffs {
		for _, sz := range c19Sizes {
			if thorough || rng.Chance(1, 3) {
				add("client", fmt.Sprintf("server-reply-length-field@%d=%d", off, sz), putWord(reply, off, sz))
			}
		}
	}
	c19ZstdBombCases(add)
	for t := 0; t < nflip; t++ {
		f := append([]byte{}, reply...)
		p := rng.Intn(len(f))
		f[p] ^= byte(1 << uint(rng.Intn(8)))
		add("client", fmt.Sprintf("server-reply-bitflip@%d", p), f)
		add("client", "random-after-hello", append(append([]byte{}, srvHello...), rng.Bytes(rng.Intn(120))...))
	}
}

// c19ProtoWarmUp runs one complete server session and lets a client read its answer.
func c19ProtoWarmUp() {
	store, ids := c19ProtoStore()
	in := c19Msg(desync.CaProtocolHello, le64(desync.CaProtocolPullChunks))
	for _, id := range ids {
		in = append(in, c19Msg(desync.CaProtocolRequest, append(le64(1), id[:]...))...)
	}
	in = append(in, c19Msg(desync.CaProtocolGoodbye, nil)...)
	var w c19LockedBuffer
	desync.NewProtocolServer(bytes.NewReader(in), &w, store).Serve(context.Background())
	var out c19Out
	var m c19Meter
	c19RunProto(&c19Case{Decoder: "client"}, w.b.Bytes(), &out, &m)
}

// c19ZstdDeclared: the largest size a zstd frame header inside a CHUNK message of this server stream
// declares (frame content size or window size), 0 if there is none.  Decompress (compress.go) hands the
// payload to zstd's DecodeAll, which allocates the declared content size before decoding a block.
func c19ZstdDeclared(stream []byte) uint64 {
	var max uint64
	for _, m := range c19SplitMessages(stream) {
		if m.Type != desync.CaProtocolChunk || len(m.Body) < 40+6 {
			continue
		}
		p := m.Body[40:]
		if !(p[0] == 0x28 && p[1] == 0xb5 && p[2] == 0x2f && p[3] == 0xfd) {
			continue
		}
		fhd := p[4]
		fcsFlag, single, dictFlag := fhd>>6, fhd&0x20 != 0, fhd&3
		pos := 5
		if !single {
			wd := p[pos]
			pos++
			base := uint64(1) << (10 + uint(wd>>3))
			if w := base + base/8*uint64(wd&7); w > max {
				max = w
			}
		}
		pos += []int{0, 1, 2, 4}[dictFlag]
		n := []int{0, 2, 4, 8}[fcsFlag]
		if fcsFlag == 0 && single {
			n = 1
		}
		if pos+n > len(p) {
			continue
		}
		var fcs uint64
		for i := n - 1; i >= 0; i-- {
			fcs = fcs<<8 | uint64(p[pos+i])
		}
		if n == 2 {
			fcs += 256
		}
		if fcs > max {
			max = fcs
		}
	}
	return max
}

// c19ZstdBombCases: CHUNK replies whose payload is a tiny zstd frame declaring a large content size.
func c19ZstdBombCases(add func(decoder, gen string, in []byte)) {
	srvHello := c19Msg(desync.CaProtocolHello, le64(desync.CaProtocolReadableStore))
	for _, size := range []uint64{1 << 16, 1 << 20, 1 << 26, 1 << 30} {
		// single-segment frame, 4-byte frame content size, one raw last block of 1 byte
		frame := []byte{0x28, 0xb5, 0x2f, 0xfd, 0xa0, byte(size), byte(size >> 8), byte(size >> 16), byte(size >> 24), 0x09, 0x00, 0x00, 'x'}
		body := append(make([]byte, 40), frame...)
		add("client", fmt.Sprintf("chunk-payload-declares@%d", size), append(append([]byte{}, srvHello...), c19Msg(desync.CaProtocolChunk, body)...))
	}
}
