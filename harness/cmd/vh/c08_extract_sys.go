package main

// C08, extract in temp-file mode over an EXISTING destination, killed on entering every system call that
// changes the output directory or writes data (unlink*, rename*, creating open, truncate, pwrite/write to a
// file there), the kill points being enumerated from an strace of THIS build's own run.  Dying on entering
// call k is dying just after call k-1, so both sides of every call are covered (exit_group = after the last).
// Predicate: after each death the destination path holds the previous version or the complete new one.

import (
	"bytes"
	"fmt"
	"os"
	"os/exec"
	"path/filepath"
	"strconv"
	"strings"
	"syscall"
	"time"

	"github.com/folbricht/desync"

	"vh/internal/vh"
)

const c08ExtractTrace = "trace=unlink,unlinkat,rename,renameat,renameat2,openat,truncate,ftruncate,pwrite64,write,exit_group"

// extractPoints lists (syscall, per-thread ordinal) of the calls that touch outDir.
func extractPoints(evs []sysEv, outDir string) (points [][2]string, desc map[[2]string]string) {
	desc = map[[2]string]string{}
	fds := map[string]string{}
	inDir := func(p string) bool { return strings.HasPrefix(p, outDir+"/") }
	add := func(e sysEv, what string) {
		pt := [2]string{e.name, strconv.Itoa(e.ord)}
		if _, ok := desc[pt]; !ok {
			desc[pt] = what
			points = append(points, pt)
		}
	}
	for _, e := range evs {
		qs := reQuoted.FindAllStringSubmatch(e.args, -1)
		switch e.name {
		case "openat":
			if len(qs) >= 1 && inDir(qs[0][1]) {
				fd := strings.Fields(e.ret + " ")
				if len(fd) > 0 && !strings.HasPrefix(e.ret, "-1") {
					fds[fd[0]] = filepath.Base(qs[0][1])
				}
				if strings.Contains(e.args, "O_CREAT") || strings.Contains(e.args, "O_TRUNC") {
					add(e, "openat(creating "+filepath.Base(qs[0][1])+")")
				}
			}
		case "unlink", "unlinkat", "truncate":
			if len(qs) >= 1 && inDir(qs[0][1]) {
				add(e, e.name+"("+filepath.Base(qs[0][1])+")")
			}
		case "rename", "renameat", "renameat2":
			if len(qs) >= 2 && (inDir(qs[0][1]) || inDir(qs[1][1])) {
				add(e, e.name+"("+filepath.Base(qs[0][1])+" -> "+filepath.Base(qs[1][1])+")")
			}
		case "pwrite64", "write", "ftruncate":
			fd := strings.TrimSpace(strings.SplitN(e.args, ",", 2)[0])
			if nm, ok := fds[fd]; ok {
				add(e, e.name+"(fd of "+nm+")")
			}
		case "close":
		case "exit_group":
			add(e, "exit_group")
		}
	}
	return
}

func c08ExtractSys(a vh.Args, r *vh.Result, c *c08Case) error {
	bin := os.Getenv("VH_DESYNC")
	if bin == "" {
		return nil
	}
	desync.Digest = desync.SHA512256{}
	defer func() { desync.Digest = desync.SHA256{} }()
	rng := vh.NewRand(c.Seed)
	blob := rng.Bytes(c.BlobLen)
	sizes := randomSizes(rng, len(blob), 400)
	idx := buildIndex(blob, sizes)
	idx.Index.FeatureFlags = desync.CaFormatSHA512256
	root, err := lsFreshDir(a.Work, "extractsys")
	if err != nil {
		return err
	}
	store := filepath.Join(root, "store")
	os.MkdirAll(store, 0755)
	s, err := lsLocalStore(store, false, false)
	if err != nil {
		return err
	}
	for _, ch := range idx.Chunks {
		if err := s.StoreChunk(desync.NewChunk(blob[ch.Start : ch.Start+ch.Size])); err != nil {
			return err
		}
	}
	idxFile := filepath.Join(root, "blob.caibx")
	f, err := os.Create(idxFile)
	if err != nil {
		return err
	}
	idx.WriteTo(f)
	f.Close()
	outDir := filepath.Join(root, "out")
	out := filepath.Join(outDir, "image.bin")
	old := []byte("the previous version of the destination")
	log := filepath.Join(a.Work, "extract-strace.log")
	runOnce := func(inject string) (string, error) {
		os.RemoveAll(outDir)
		os.MkdirAll(outDir, 0755)
		os.WriteFile(out, old, 0644)
		args := []string{"-f", "-o", log, "-e", c08ExtractTrace}
		if inject != "" {
			args = append(args, "--inject="+inject)
		}
		args = append(args, bin, "extract", "-n", fmt.Sprint(c.N), "-s", store, idxFile, out)
		cmd := exec.Command("strace", args...)
		cmd.Env = append(os.Environ(), "HOME="+root)
		done := make(chan error, 1)
		if err := cmd.Start(); err != nil {
			return "", err
		}
		go func() { done <- cmd.Wait() }()
		select {
		case werr := <-done:
			if werr == nil {
				return "exit0", nil
			}
			if ee, ok := werr.(*exec.ExitError); ok {
				if ws, ok := ee.Sys().(syscall.WaitStatus); ok && ws.Signaled() {
					return "killed", nil
				}
				return fmt.Sprintf("exit%d", ee.ExitCode()), nil
			}
			return "", werr
		case <-time.After(60 * time.Second):
			cmd.Process.Kill()
			return "timeout", nil
		}
	}
	check := func(what, exit string) {
		cur, rerr := os.ReadFile(out)
		state := "previous version"
		switch {
		case rerr != nil:
			state = "GONE"
		case bytes.Equal(cur, blob):
			state = "complete new version"
		case !bytes.Equal(cur, old):
			state = fmt.Sprintf("%d bytes that are neither", len(cur))
		}
		r.Dist("extract-sys-death:" + state)
		if state == "GONE" {
			c.What = fmt.Sprintf("extract over an existing destination, child %s on entering %s: the destination path is GONE (the previous version is lost, the new data sits under a temp name)", exit, what)
			r.Fail("predicate", "extract/destination-lost", c.What, c)
		} else if strings.HasSuffix(state, "neither") {
			c.What = fmt.Sprintf("extract over an existing destination, child %s on entering %s: the destination holds %s the previous nor the complete new version", exit, what, state)
			r.Fail("predicate", "extract/destination-modified", c.What, c)
		}
	}
	if c.Syscall != "" { // replay of one kill point
		exit, err := runOnce(fmt.Sprintf("%s:signal=SIGKILL:when=%d", c.Syscall, c.K))
		if err != nil {
			return err
		}
		r.Count("extract-sys-replay", true)
		check(fmt.Sprintf("%s #%d", c.Syscall, c.K), exit)
		return nil
	}
	exit, err := runOnce("")
	if err != nil {
		return err
	}
	if exit != "exit0" {
		c.What = "uninjected extract under strace: " + exit
		r.Fail("predicate", "extract/unkilled-run-fails", c.What, c)
		return nil
	}
	if cur, _ := os.ReadFile(out); !bytes.Equal(cur, blob) {
		c.What = "complete extract produced a different file"
		r.Fail("predicate", "extract/wrong-output", c.What, c)
	}
	evs, err := parseStrace(log)
	if err != nil {
		return err
	}
	points, desc := extractPoints(evs, outDir)
	// every directory-changing call, and a spread of the data writes
	var chosen [][2]string
	nw := 0
	for _, pt := range points {
		if pt[0] == "pwrite64" || pt[0] == "write" {
			nw++
			if nw > 12 && nw%4 != 0 {
				continue
			}
		}
		chosen = append(chosen, pt)
	}
	if len(chosen) > 60 {
		chosen = append(chosen[:30], chosen[len(chosen)-30:]...)
	}
	for _, pt := range chosen {
		cc := *c
		cc.Syscall = pt[0]
		cc.K, _ = strconv.Atoi(pt[1])
		exit, err := runOnce(fmt.Sprintf("%s:signal=SIGKILL:when=%d", cc.Syscall, cc.K))
		if err != nil {
			return err
		}
		r.Count(fmt.Sprintf("extract-sys|%d|%d|%s|%d", c.BlobLen, c.N, cc.Syscall, cc.K), exit == "killed")
		r.Dist("extract-sys-kill-at:" + pt[0])
		cur, rerr := os.ReadFile(out)
		state := "previous version"
		switch {
		case rerr != nil:
			state = "GONE"
		case bytes.Equal(cur, blob):
			state = "complete new version"
		case !bytes.Equal(cur, old):
			state = "neither"
		}
		r.Dist("extract-sys-death:" + state)
		if state == "GONE" || state == "neither" {
			cls := map[string]string{"GONE": "extract/destination-lost", "neither": "extract/destination-modified"}[state]
			cc.What = fmt.Sprintf("extract (-n %d) over an existing destination, child %s on entering %s [%s #%d of its thread]: the destination path is %s", c.N, exit, desc[pt], pt[0], cc.K,
				map[string]string{"GONE": "GONE: the previous version is lost and the new data sits under a temp name", "neither": fmt.Sprintf("neither the previous nor the complete new version (%d bytes)", len(cur))}[state])
			r.Fail("predicate", cls, cc.What, &cc)
		}
	}
	return nil
}

func c08ExtractSysAll(a vh.Args, r *vh.Result, rng *vh.Rand) error {
	if os.Getenv("VH_DESYNC") == "" {
		return nil
	}
	cfgs := [][2]int{{3000, 2}}
	if a.Tier == "thorough" {
		cfgs = [][2]int{{3000, 1}, {3000, 2}, {20000, 4}, {1, 1}}
	}
	for _, g := range cfgs {
		c := &c08Case{Kind: "extract-syscall-kill", BlobLen: g[0], N: g[1], Seed: rng.U64() % 1000000}
		if err := c08ExtractSys(a, r, c); err != nil {
			return err
		}
	}
	return nil
}
