package main

// C07, archive operations: Tar, UnTar and UnTarIndex cancelled at the K-th scheduling point
// (filesystem calls, pipe/stream reads and writes, chunk requests, the feeder's yield hook).
// The case carries a catar archive (blob) and, for UnTarIndex, its cut into chunks (sizes).

import (
	"bytes"
	"context"
	"crypto/sha256"
	"fmt"
	"io"
	"os"
	"path/filepath"
	"sort"

	"github.com/folbricht/desync"

	"vh/internal/vh"
)

var c07FSOpt = desync.LocalFSOptions{NoTime: true, NoSameOwner: true}

type tickFSWriter struct {
	fs   desync.FilesystemWriter
	tick func(string)
}

func (t *tickFSWriter) CreateDir(n desync.NodeDirectory) error {
	t.tick("fs.create")
	return t.fs.CreateDir(n)
}
func (t *tickFSWriter) CreateFile(n desync.NodeFile) error {
	t.tick("fs.create")
	return t.fs.CreateFile(n)
}
func (t *tickFSWriter) CreateSymlink(n desync.NodeSymlink) error {
	t.tick("fs.create")
	return t.fs.CreateSymlink(n)
}
func (t *tickFSWriter) CreateDevice(n desync.NodeDevice) error {
	t.tick("fs.create")
	return t.fs.CreateDevice(n)
}

type tickFSReader struct {
	fs   desync.FilesystemReader
	tick func(string)
}

func (t *tickFSReader) Next() (*desync.File, error) {
	t.tick("fs.next")
	f, err := t.fs.Next()
	if err == nil && f != nil && f.Data != nil {
		f.Data = &tickData{rc: f.Data, tick: t.tick}
	}
	return f, err
}

// tickData hands out a file's content in small pieces; every Read is a scheduling point ("fd.read"), so a
// cancellation can arrive in the middle of a payload -- also of the last entry of the walk.
type tickData struct {
	rc   io.ReadCloser
	tick func(string)
}

func (d *tickData) Read(p []byte) (int, error) {
	d.tick("fd.read")
	if len(p) > 97 {
		p = p[:97]
	}
	return d.rc.Read(p)
}
func (d *tickData) Close() error { return d.rc.Close() }

type tickWriter struct {
	w    io.Writer
	tick func(string)
}

func (t *tickWriter) Write(p []byte) (int, error) { t.tick("wr.write"); return t.w.Write(p) }

// c07ListTree returns "relative path -> kind:size:sha256" for everything below root.
func c07ListTree(root string) (map[string]string, error) {
	out := map[string]string{}
	err := filepath.Walk(root, func(p string, info os.FileInfo, err error) error {
		if err != nil {
			return err
		}
		rel, _ := filepath.Rel(root, p)
		switch {
		case info.IsDir():
			out[rel] = "dir"
		case info.Mode()&os.ModeSymlink != 0:
			t, _ := os.Readlink(p)
			out[rel] = "symlink:" + t
		default:
			b, err := os.ReadFile(p)
			if err != nil {
				return err
			}
			out[rel] = fmt.Sprintf("file:%d:%x", len(b), sha256.Sum256(b))
		}
		return nil
	})
	return out, err
}

func c07DiffTree(got, want map[string]string) string {
	var keys []string
	for k := range want {
		keys = append(keys, k)
	}
	sort.Strings(keys)
	for _, k := range keys {
		if g, ok := got[k]; !ok {
			return "missing " + k
		} else if g != want[k] {
			return fmt.Sprintf("%s is %s, expected %s", k, g, want[k])
		}
	}
	for k := range got {
		if _, ok := want[k]; !ok {
			return "unexpected " + k
		}
	}
	return ""
}

func c07TreeOp(work string, c *c07Case, in bkInput) (func(ctx context.Context, cc *canceller) error, func() string, error) {
	archive := in.Blob
	ref := filepath.Join(work, "ref")
	if err := os.MkdirAll(ref, 0755); err != nil {
		return nil, nil, err
	}
	if err := desync.UnTar(context.Background(), bytes.NewReader(archive), desync.NewLocalFS(ref, c07FSOpt)); err != nil {
		return nil, nil, fmt.Errorf("reference untar: %v", err)
	}
	want, err := c07ListTree(ref)
	if err != nil {
		return nil, nil, err
	}
	dst := filepath.Join(work, "dst")
	if err := os.MkdirAll(dst, 0755); err != nil {
		return nil, nil, err
	}
	treeComplete := func() string {
		got, err := c07ListTree(dst)
		if err != nil {
			return err.Error()
		}
		return c07DiffTree(got, want)
	}
	switch c.Op {
	case "untar":
		run := func(ctx context.Context, cc *canceller) error {
			return desync.UnTar(ctx, &tickReader{bytes.NewReader(archive), cc.tick}, &tickFSWriter{desync.NewLocalFS(dst, c07FSOpt), cc.tick})
		}
		return run, treeComplete, nil
	case "untarindex":
		idx := in.index()
		ls, _, err := bkCachedStore(filepath.Dir(work), "untarindex|"+c.BlobHex+fmt.Sprint(c.Sizes), func(ls desync.LocalStore) error {
			for _, ch := range in.chunks() {
				if err := ls.StoreChunk(desync.NewChunk(ch)); err != nil {
					return err
				}
			}
			return nil
		})
		if err != nil {
			return nil, nil, err
		}
		run := func(ctx context.Context, cc *canceller) error {
			hs := &hookStore{ls, func(k string, id desync.ChunkID) error {
				cc.tick("st." + k)
				if c.CtxBound && ctx.Err() != nil {
					return errCtxBound
				}
				return nil
			}}
			return desync.UnTarIndex(ctx, &tickFSWriter{desync.NewLocalFS(dst, c07FSOpt), cc.tick}, idx, hs, c.N, desync.NullProgressBar{})
		}
		return run, treeComplete, nil
	case "tar":
		var refBuf bytes.Buffer
		if err := desync.Tar(context.Background(), &refBuf, desync.NewLocalFS(ref, c07FSOpt)); err != nil {
			return nil, nil, fmt.Errorf("reference tar: %v", err)
		}
		var buf bytes.Buffer
		run := func(ctx context.Context, cc *canceller) error {
			buf.Reset()
			return desync.Tar(ctx, &tickWriter{&buf, cc.tick}, &tickFSReader{desync.NewLocalFS(ref, c07FSOpt), cc.tick})
		}
		complete := func() string {
			if !bytes.Equal(buf.Bytes(), refBuf.Bytes()) {
				return fmt.Sprintf("archive has %d bytes, the complete archive %d", buf.Len(), refBuf.Len())
			}
			return ""
		}
		return run, complete, nil
	}
	return nil, nil, fmt.Errorf("unknown tree op %q", c.Op)
}

// c07MakeArchive builds a small random tree on disk and returns its catar archive.
func c07MakeArchive(work string, rng *vh.Rand) ([]byte, error) { return c07MakeArchiveN(work, rng, 300) }

// c07MakeArchiveN: files of up to maxFile bytes.
func c07MakeArchiveN(work string, rng *vh.Rand, maxFile int) ([]byte, error) {
	root := filepath.Join(work, "gen")
	os.RemoveAll(root)
	if err := os.MkdirAll(root, 0755); err != nil {
		return nil, err
	}
	dirs := []string{""}
	nd := 1 + rng.Intn(3)
	for i := 0; i < nd; i++ {
		d := filepath.Join(dirs[rng.Intn(len(dirs))], fmt.Sprintf("d%d", i))
		if err := os.MkdirAll(filepath.Join(root, d), 0755); err != nil {
			return nil, err
		}
		dirs = append(dirs, d)
	}
	nf := 3 + rng.Intn(6)
	for i := 0; i < nf; i++ {
		p := filepath.Join(root, dirs[rng.Intn(len(dirs))], fmt.Sprintf("f%d", i))
		if err := os.WriteFile(p, rng.Bytes(rng.Intn(maxFile)), 0644); err != nil {
			return nil, err
		}
	}
	if err := os.Symlink("f0", filepath.Join(root, "link")); err != nil {
		return nil, err
	}
	// a regular file that is the very last entry of the walk (names are visited in sorted order)
	if err := os.WriteFile(filepath.Join(root, "zlast"), rng.Bytes(150+rng.Intn(maxFile)), 0644); err != nil {
		return nil, err
	}
	var buf bytes.Buffer
	if err := desync.Tar(context.Background(), &buf, desync.NewLocalFS(root, c07FSOpt)); err != nil {
		return nil, err
	}
	os.RemoveAll(root)
	return buf.Bytes(), nil
}

type countReader struct {
	r *bytes.Reader
	n int
}

func (c *countReader) Read(p []byte) (int, error) { k, err := c.r.Read(p); c.n += k; return k, err }

// c07ElementCuts cuts the archive at the boundaries of its format elements.
func c07ElementCuts(archive []byte) ([]int, error) {
	cr := &countReader{r: bytes.NewReader(archive)}
	dec := desync.NewFormatDecoder(cr)
	var sizes []int
	last := 0
	for {
		e, err := dec.Next()
		if err != nil {
			return nil, err
		}
		if e == nil {
			break
		}
		if p, ok := e.(desync.FormatPayload); ok {
			if _, err := io.Copy(io.Discard, p.Data); err != nil {
				return nil, err
			}
		}
		if cr.n > last {
			sizes = append(sizes, cr.n-last)
			last = cr.n
		}
	}
	if last < len(archive) {
		sizes = append(sizes, len(archive)-last)
	}
	return sizes, nil
}

func c07Trees(a vh.Args, o *vh.Oracle, r *vh.Result, rng *vh.Rand) error {
	trees := 2
	maxK := 14
	if a.Tier == "thorough" {
		trees = 8
		maxK = 300
	}
	for ti := 0; ti < trees; ti++ {
		archive, err := c07MakeArchive(a.Work, rng)
		if err != nil {
			return err
		}
		for _, op := range []string{"untarindex", "untar", "tar"} {
			ns := []int{1}
			var sizes []int
			if op == "untarindex" {
				ns = []int{1, 2, 4}
				if ti%2 == 0 {
					// chunk boundaries exactly at format-element boundaries: an early EOF there is a "clean end"
					// for the decoder, which is what makes an unreported interruption look like success
					sizes, err = c07ElementCuts(archive)
					if err != nil {
						return err
					}
				} else {
					// chunks of random sizes (boundaries fall anywhere, also inside elements)
					n := len(archive)
					maxc := []int{40, 150, 600}[rng.Intn(3)]
					for n > 0 {
						s := 1 + rng.Intn(maxc)
						if s > n {
							s = n
						}
						sizes = append(sizes, s)
						n -= s
					}
				}
			} else {
				sizes = []int{len(archive)}
			}
			for _, n := range ns {
				base := c07Case{Op: op, Variant: "ok", N: n, K: -1, BlobHex: vh.Hex(archive), Sizes: sizes, Level: "library"}
				if err := c07Check(a, o, r, &base, -1); err != nil {
					return err
				}
				for _, k := range pickKs(rng, base.Hits+1, maxK) {
					c := c07Case{Op: op, Variant: "ok", N: n, K: k, BlobHex: vh.Hex(archive), Sizes: sizes, Level: "library"}
					if err := c07Check(a, o, r, &c, -1); err != nil {
						return err
					}
				}
				if op == "tar" {
					// inside the payloads: the reads of the last entries of the walk (incl. the very last file)
					fb := c07Case{Op: op, Variant: "ok", N: n, K: -1, Sites: []string{"fd.read"}, BlobHex: vh.Hex(archive), Sizes: sizes, Level: "library"}
					if err := c07Exec(a, &fb); err != nil {
						return err
					}
					for back := 0; back < 8 && back < fb.Hits; back++ {
						c := c07Case{Op: op, Variant: "ok", N: n, K: fb.Hits - back, Sites: []string{"fd.read"}, BlobHex: vh.Hex(archive), Sizes: sizes, Level: "library"}
						if err := c07Check(a, o, r, &c, -1); err != nil {
							return err
						}
					}
				}
				if op == "untarindex" {
					// the last requests, repeatedly: by then the feeder has handed everything out and only the
					// assembler and the decoder are left to notice the cancellation
					reps := 4
					if a.Tier == "thorough" {
						reps = 40
					}
					for rep := 0; rep < reps; rep++ {
						for back := 0; back <= n+1 && back < len(sizes); back++ {
							c := c07Case{Op: op, Variant: "ok", N: n, K: len(sizes) - back, Sites: []string{"st.get"}, DelayMs: 2 * (rep % 2), BlobHex: vh.Hex(archive), Sizes: sizes, Level: "library"}
							if err := c07Check(a, o, r, &c, -1); err != nil {
								return err
							}
						}
					}
					// the feeder's yield hook alone (cancel between two requests)
					for _, k := range pickKs(rng, len(sizes)+1, maxK) {
						c := c07Case{Op: op, Variant: "ok", N: n, K: k, Sites: []string{"untarindex.feed"}, BlobHex: vh.Hex(archive), Sizes: sizes, Level: "library"}
						if err := c07Check(a, o, r, &c, -1); err != nil {
							return err
						}
					}
				}
			}
		}
	}
	return nil
}
