package main

import (
	"context"
	"fmt"

	"vh/internal/vh"
)

func c07TreeOp(work string, c *c07Case, in bkInput) (func(ctx context.Context, cc *canceller) error, func() string, error) {
	return nil, nil, fmt.Errorf("tree ops not implemented yet")
}

func c07Trees(a vh.Args, o *vh.Oracle, r *vh.Result, rng *vh.Rand) error { return nil }
