package main

import (
	"bytes"
	"context"
	"encoding/binary"
	"fmt"
	"os"
	"path/filepath"
	"strconv"
	"strings"

	"github.com/folbricht/desync"

	"vh/internal/vh"
)

// "records the correct ... parameters": the feature flags, chunk size triple and ids of the index
// IndexFromFile returns, against Model/IndexFlags.v (oracle command c02.flags), for both digests
// and for inputs that start with a catar ENTRY element (whose feature flags make.go copies into
// the index).  The model's statement: the digest flag of the index says which digest made the ids,
// and the same configuration reads the index back (C02_made_index_is_readable).

type c02FlagsCase struct {
	Kind     string `json:"kind"` // flags
	D512     bool   `json:"digest_sha512_256"`
	Catar    bool   `json:"catar_header"`
	CatFlags uint64 `json:"catar_feature_flags"`
	Len      int    `json:"len"`
	N        int    `json:"n"`
	Min      uint64 `json:"min"`
	Avg      uint64 `json:"avg"`
	Max      uint64 `json:"max"`
	Seed     uint64 `json:"seed"`
	Impl     string `json:"impl,omitempty"`
	Model    string `json:"model,omitempty"`
}

func c02FlagsOne(a vh.Args, o *vh.Oracle, r *vh.Result, c *c02FlagsCase) error {
	r.Running(c)
	if o == nil {
		return nil
	}
	save := desync.Digest
	defer func() { desync.Digest = save }()
	if c.D512 {
		desync.Digest = desync.SHA512256{}
	} else {
		desync.Digest = desync.SHA256{}
	}
	rng := vh.NewRand(c.Seed)
	data := rng.Bytes(c.Len)
	if c.Catar {
		hdr := make([]byte, 64)
		binary.LittleEndian.PutUint64(hdr[0:], 64)
		binary.LittleEndian.PutUint64(hdr[8:], desync.CaFormatEntry)
		binary.LittleEndian.PutUint64(hdr[16:], c.CatFlags)
		binary.LittleEndian.PutUint64(hdr[24:], 0100644)
		data = append(hdr, data...)
	}
	dir, err := os.MkdirTemp(a.Work, "flags")
	if err != nil {
		return err
	}
	defer os.RemoveAll(dir)
	name := filepath.Join(dir, "in")
	if err := os.WriteFile(name, data, 0644); err != nil {
		return err
	}
	idx, _, err := desync.IndexFromFile(context.Background(), name, c.N, c.Min, c.Avg, c.Max, desync.NewProgressBar(""))
	if err != nil {
		c.Impl = "err:" + err.Error()
		r.Fail("predicate", "flags/make-fails", "IndexFromFile failed on a readable file with valid parameters: "+err.Error(), c)
		return nil
	}
	t := "-"
	if c.Catar {
		t = strconv.FormatUint(c.CatFlags, 10)
	}
	ans, err := o.Call("c02.flags", c01Bit(c.D512), t)
	if err != nil {
		return err
	}
	r.Corr()
	r.Count(fmt.Sprintf("flags|%v|%v|%x|%d|%d", c.D512, c.Catar, c.CatFlags, c.Len, c.N), c.Catar)
	r.Dist(fmt.Sprintf("flags:digest512=%v:catar=%v", c.D512, c.Catar))
	f := strings.Fields(ans)
	if len(f) != 3 {
		return fmt.Errorf("c02.flags: %s", ans)
	}
	// read the index back under the same digest and under the other one
	readBack := func() string {
		var buf bytes.Buffer
		if _, err := idx.WriteTo(&buf); err != nil {
			return "werr"
		}
		if _, err := desync.IndexFromReader(&buf); err != nil {
			return "0"
		}
		return "1"
	}
	same := readBack()
	if c.D512 {
		desync.Digest = desync.SHA256{}
	} else {
		desync.Digest = desync.SHA512256{}
	}
	other := readBack()
	if c.D512 {
		desync.Digest = desync.SHA512256{}
	} else {
		desync.Digest = desync.SHA256{}
	}
	c.Impl = fmt.Sprintf("%d %s %s", idx.Index.FeatureFlags, same, other)
	c.Model = ans
	// ids are sums under the configured digest; the triple is recorded
	okIDs := true
	for _, ch := range idx.Chunks {
		if ch.Start+ch.Size > uint64(len(data)) || desync.Digest.Sum(data[ch.Start:ch.Start+ch.Size]) != ch.ID {
			okIDs = false
		}
	}
	switch {
	case !okIDs:
		r.Fail("predicate", "flags/ids-not-of-configured-digest", "a chunk id of the index is not the configured digest of the chunk's bytes", c)
	case idx.Index.ChunkSizeMin != c.Min || idx.Index.ChunkSizeAvg != c.Avg || idx.Index.ChunkSizeMax != c.Max:
		r.Fail("predicate", "flags/triple-not-recorded", fmt.Sprintf("index records min/avg/max %d/%d/%d, chunked with %d/%d/%d",
			idx.Index.ChunkSizeMin, idx.Index.ChunkSizeAvg, idx.Index.ChunkSizeMax, c.Min, c.Avg, c.Max), c)
	case (idx.Index.FeatureFlags&desync.CaFormatSHA512256 != 0) != c.D512:
		r.Fail("predicate", "flags/digest-flag-wrong", fmt.Sprintf("index flags %#x: the digest flag does not say which digest made the ids (SHA512/256 in use: %v)", idx.Index.FeatureFlags, c.D512), c)
	case same != "1":
		r.Fail("predicate", "flags/not-readable", "the index IndexFromFile made cannot be read back by IndexFromReader under the same digest setting", c)
	case c.Impl != ans:
		r.Fail("corr", "corr:C02/flags", "feature flags / read-back verdicts differ from Model/IndexFlags.v: impl "+c.Impl+", model "+ans, c)
	}
	return nil
}

func c02Flags(a vh.Args, o *vh.Oracle, r *vh.Result, rng *vh.Rand, n int) error {
	interesting := []uint64{0, desync.TarFeatureFlags, desync.CaFormatSHA512256, desync.CaFormatExcludeNoDump,
		desync.TarFeatureFlags &^ desync.CaFormatSHA512256, ^uint64(0), desync.CaFormatWithPermissions | desync.CaFormatWithSymlinks}
	for i := 0; i < n; i++ {
		mn, av, mx := c02Triple(rng)
		c := &c02FlagsCase{Kind: "flags", D512: rng.Chance(1, 2), Catar: rng.Chance(2, 3), Len: rng.Intn(int(mx) * 6), N: 1 + rng.Intn(5),
			Min: mn, Avg: av, Max: mx, Seed: rng.U64()}
		if c.Catar {
			if rng.Chance(1, 2) {
				c.CatFlags = interesting[rng.Intn(len(interesting))]
			} else {
				c.CatFlags = rng.U64()
			}
		}
		if err := c02FlagsOne(a, o, r, c); err != nil {
			return err
		}
	}
	return nil
}
