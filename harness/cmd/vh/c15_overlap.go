package main

// C15, overlapping uploads: "uploaded chunks whose content does not match the ID are refused"
// must also hold when requests overlap.  A store wrapper delays StoreChunk of a VALID upload A
// until a second client has uploaded garbage under another id and got its refusal; then A's
// StoreChunk proceeds.  Afterwards every chunk file in the served directory must hash to its
// name and A's file must hold A's data (the put-verified predicate evaluated after the overlap).
// Compressed and uncompressed servers, write verification on; GOMAXPROCS(1) and the default.

import (
	"bytes"
	"fmt"
	"net/http"
	"net/http/httptest"
	"os"
	"path/filepath"
	"runtime"
	"strings"
	"sync"
	"time"

	"github.com/folbricht/desync"

	"vh/internal/vh"
)

type c15DelayStore struct {
	desync.LocalStore
	mu      sync.Mutex
	hold    desync.ChunkID
	arrived chan struct{}
	release chan struct{}
}

func (s *c15DelayStore) StoreChunk(ch *desync.Chunk) error {
	s.mu.Lock()
	hold, arrived, release := s.hold, s.arrived, s.release
	s.mu.Unlock()
	if arrived != nil && ch.ID() == hold {
		close(arrived)
		select {
		case <-release:
		case <-time.After(10 * time.Second):
		}
	}
	return s.LocalStore.StoreChunk(ch)
}

func c15OverlapPuts(a vh.Args, o *vh.Oracle, r *vh.Result, rng *vh.Rand) error {
	rounds := 6
	if a.Tier == "thorough" {
		rounds = 60
	}
	for _, procs := range []int{1, 0} {
		if procs > 0 {
			old := runtime.GOMAXPROCS(procs)
			defer runtime.GOMAXPROCS(old)
		} else {
			runtime.GOMAXPROCS(runtime.NumCPU())
		}
		for _, compressed := range []bool{false, true} {
			for _, storeUnc := range []bool{true, false} {
				for k := 0; k < rounds; k++ {
					if err := c15OverlapOne(a, o, r, rng, compressed, storeUnc, procs, k); err != nil {
						return err
					}
				}
			}
		}
	}
	return nil
}

func c15OverlapOne(a vh.Args, o *vh.Oracle, r *vh.Result, rng *vh.Rand, compressed, storeUnc bool, procs, k int) error {
	dir := filepath.Join(a.Work, "overlap-put")
	os.RemoveAll(dir)
	os.MkdirAll(dir, 0755)
	ls, err := desync.NewLocalStore(dir, desync.StoreOptions{Uncompressed: storeUnc})
	if err != nil {
		return err
	}
	size := []int{64, 300, 2000, 9000}[k%4]
	dataA := rng.Bytes(size)
	idA := c15ID(dataA)
	// the refused upload: as long as A's body (overwrites all of it), or shorter
	garbage := bytes.Repeat([]byte{0xEE}, size)
	if k%3 == 1 {
		garbage = garbage[:size/2]
	}
	idB := c15ID([]byte("nothing hashes to this id"))
	ds := &c15DelayStore{LocalStore: ls, hold: idA, arrived: make(chan struct{}), release: make(chan struct{})}
	var conv desync.Converters
	ext := ""
	bodyA := dataA
	if compressed {
		conv, ext = desync.Converters{desync.Compressor{}}, ".cacnk"
		bodyA = c15Compress(dataA)
		if len(garbage) > len(bodyA) {
			garbage = garbage[:len(bodyA)]
		}
	}
	srv := httptest.NewServer(desync.NewHTTPHandler(ds, true, false, conv, ""))
	defer srv.Close()
	put := func(id desync.ChunkID, body []byte) int {
		s := id.String()
		req, _ := http.NewRequest("PUT", srv.URL+"/"+s[:4]+"/"+s+ext, bytes.NewReader(body))
		resp, err := http.DefaultClient.Do(req)
		if err != nil {
			return 0
		}
		resp.Body.Close()
		return resp.StatusCode
	}
	ra := make(chan int, 1)
	go func() { ra <- put(idA, bodyA) }()
	select {
	case <-ds.arrived:
	case <-time.After(10 * time.Second):
		close(ds.release)
		return fmt.Errorf("overlapping uploads: the valid upload never reached StoreChunk")
	}
	codeB := put(idB, garbage) // refused while A's StoreChunk is pending
	close(ds.release)
	codeA := <-ra
	http.DefaultClient.CloseIdleConnections()
	// the property, on the directory
	c := &c15Case{Cfg: c15Cfg{Kind: "chunk", Writable: true, Compressed: compressed, StoreUncompressed: storeUnc, StoreWritable: true}, Level: "handler-overlap",
		Method: "PUT", Target: "A valid " + idA.String() + " overlapped by a refused upload under " + idB.String(), Status: codeA, Desc: fmt.Sprintf("overlap|GOMAXPROCS=%d|size=%d|garbage=%d", procs, size, len(garbage))}
	r.Count(fmt.Sprintf("overlap-put|%v|%v|%d|%d|%d", compressed, storeUnc, procs, size, len(garbage)), true)
	r.Dist("level:handler-overlap")
	r.Dist(fmt.Sprintf("overlap-put:compressed=%v,procs=%d", compressed, procs))
	snap := c15Snapshot(dir)
	what := func(m string) string {
		return fmt.Sprintf("chunk server (compressed=%v, store uncompressed=%v, verification on, GOMAXPROCS=%d): valid upload of %d bytes answered %d, overlapped by a %d-byte garbage upload under another id answered %d: %s", compressed, storeUnc, procs, size, codeA, len(garbage), codeB, m)
	}
	if codeB >= 200 && codeB < 300 {
		r.Fail("predicate", "chunk/overlap-garbage-accepted", what("the garbage upload was accepted"), c)
	}
	if codeA != 200 {
		r.Fail("predicate", "chunk/overlap-valid-refused", what("the valid upload was not accepted"), c)
	}
	for rel, content := range snap {
		if strings.HasSuffix(rel, "/") {
			continue
		}
		name := strings.TrimSuffix(filepath.Base(rel), ".cacnk")
		data, ok := c15Decode([]byte(content), !storeUnc)
		if sum := c15ID(data); !ok || sum.String() != name {
			c.Changed = []string{rel}
			r.Fail("predicate", "chunk/overlap-put-corrupt", what(fmt.Sprintf("the file %s does not hash to its name (it starts with %x; the refused body starts with %x)", rel, content[:min(8, len(content))], garbage[:min(8, len(garbage))])), c)
		}
	}
	sA := idA.String()
	relA := sA[:4] + "/" + sA
	if !storeUnc {
		relA += ".cacnk"
	}
	if codeA == 200 {
		if d, ok := c15Decode([]byte(snap[relA]), !storeUnc); !ok || !bytes.Equal(d, dataA) {
			r.Fail("predicate", "chunk/overlap-put-lost", what("200 for the valid upload but its file does not hold its data"), c)
		}
	}
	// model: the two requests one after the other
	if o != nil {
		zt, ct := c15ZTables(bodyA, dataA, garbage)
		call := func(id desync.ChunkID, body []byte, files string) (string, error) {
			s := id.String()
			return o.Call("c15.chunk", "-", "1", "0", b01(compressed), "1", b01(storeUnc), "0", "PUT", vh.Hex([]byte("/"+s[:4]+"/"+s+ext)), "-", vh.Hex(body), files, zt, ct)
		}
		ansA, err := call(idA, bodyA, "-")
		if err != nil {
			return err
		}
		fa := strings.Split(ansA, " ")
		ansB, err := call(idB, garbage, fa[3])
		if err != nil {
			return err
		}
		fb := strings.Split(ansB, " ")
		r.Corr()
		var got []string
		for rel, content := range snap {
			if !strings.HasSuffix(rel, "/") {
				got = append(got, strings.TrimSuffix(filepath.Base(rel), ".cacnk")+":"+vh.Hex([]byte(content)))
			}
		}
		if fa[1] != fmt.Sprint(codeA) || fb[1] != fmt.Sprint(codeB) || fb[3] != strings.Join(got, ",") {
			r.Fail("corr", "corr:C15/overlap-put", what(fmt.Sprintf("model: %s then %s, same store: %v", fa[1], fb[1], fb[3] == strings.Join(got, ","))), c)
		}
	}
	return nil
}
