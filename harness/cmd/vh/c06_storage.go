package main

// ChunkStorage (chunkstorage.go) driven directly: the processed-ID set must not mask a failure.

import (
	"fmt"
	"os"
	"path/filepath"
	"sync"

	"github.com/folbricht/desync"

	"vh/internal/vh"
)

// c06StorageCase: variants
//   retry-store / retry-has: StoreChunk(c) with the first StoreChunk / HasChunk call failing, then
//     StoreChunk(c) again without failure. Predicate: a nil result of a call that has no concurrent
//     call in flight means that the chunk is in the store.
//   concurrent: N goroutines store a duplicate-heavy chunk list with the listed failures; at
//     quiescence every id all of whose calls returned nil is in the store.
func c06StorageCase(a vh.Args, o *vh.Oracle, r *vh.Result, c *c06Case) error {
	desync.Digest = desync.SHA512256{}
	in := c.input()
	work := filepath.Join(a.Work, "c06s")
	os.RemoveAll(work)
	if err := os.MkdirAll(work, 0755); err != nil {
		return err
	}
	target, dir, err := bkNewStore(work, "target")
	if err != nil {
		return err
	}
	plan := newFaultPlan()
	for _, f := range c.Faults {
		plan.add(f.Kind, f.K)
	}
	cs := desync.NewChunkStorage(&hookStore{target, plan.hook})
	chs := in.chunks()
	fresh := func(id desync.ChunkID) bool {
		s, err := desync.NewLocalStore(dir, desync.StoreOptions{})
		if err != nil {
			return false
		}
		ch, err := s.GetChunk(id)
		if err != nil {
			return false
		}
		b, err := ch.Data()
		return err == nil && desync.Digest.Sum(b) == id
	}
	key := fmt.Sprintf("chunkstorage|%s|%d|%d|%s", c.Variant, c.N, len(chs), c06FaultTag(c.Faults))
	r.Dist("op:chunkstorage/" + c.Variant)
	switch c.Variant {
	case "retry-store", "retry-has":
		ch := desync.NewChunk(chs[0])
		e1 := cs.StoreChunk(ch)
		e2 := cs.StoreChunk(desync.NewChunk(chs[0]))
		c.Got = bkErrClass(e1) + "," + bkErrClass(e2)
		c.Delivered = plan.delivered
		r.Count(key, c.Delivered > 0)
		if e1 == nil && c.Delivered > 0 {
			r.Fail("predicate", "chunkstorage/store-failure-not-reported", "StoreChunk returned nil although its "+c.Faults[0].Kind+" call failed", c)
		}
		if o != nil {
			ans, err := o.Call("c06.retry", c.Faults[0].Kind)
			if err != nil {
				return err
			}
			c.Model = ans
			stored := "0"
			if fresh(ch.ID()) {
				stored = "1"
			}
			r.Corr()
			if got := c.Got + " " + stored; got != ans {
				r.Fail("corr", "corr:C06/chunkstorage-retry", fmt.Sprintf("ChunkStorage retry after a %s failure: implementation %q, model %q", c.Faults[0].Kind, got, ans), c)
			}
		}
		if e2 == nil && !fresh(ch.ID()) {
			cls := "chunkstorage/retry-after-storechunk-error-skips-store"
			if c.Variant == "retry-has" {
				cls = "chunkstorage/retry-after-haschunk-error-skips-store"
			}
			r.Fail("predicate", cls, fmt.Sprintf("ChunkStorage.StoreChunk: first call failed (%s failure, result %s), second call returned nil, but the chunk is not in the store", c.Faults[0].Kind, bkErrClass(e1)), c)
		}
	case "concurrent":
		type res struct{ nils, errs int }
		var mu sync.Mutex
		per := map[desync.ChunkID]*res{}
		jobs := make(chan []byte)
		var wg sync.WaitGroup
		for g := 0; g < c.N; g++ {
			wg.Add(1)
			go func() {
				defer wg.Done()
				for b := range jobs {
					ch := desync.NewChunk(b)
					err := cs.StoreChunk(ch)
					mu.Lock()
					p := per[ch.ID()]
					if p == nil {
						p = &res{}
						per[ch.ID()] = p
					}
					if err == nil {
						p.nils++
					} else {
						p.errs++
					}
					mu.Unlock()
				}
			}()
		}
		for _, b := range chs {
			jobs <- b
		}
		close(jobs)
		wg.Wait()
		c.Delivered = plan.delivered
		r.Count(key, c.Delivered > 0)
		nerr := 0
		for id, p := range per {
			nerr += p.errs
			if p.errs == 0 && !fresh(id) {
				r.Fail("predicate", "chunkstorage/all-calls-nil-but-not-stored", fmt.Sprintf("every StoreChunk call for %s returned nil (%d calls, n=%d, faults %s) but the chunk is not in the store", id.String(), p.nils, c.N, c06FaultTag(c.Faults)), c)
			}
		}
		if c.Delivered > 0 && nerr == 0 {
			r.Fail("predicate", "chunkstorage/store-failure-not-reported", fmt.Sprintf("%d failures delivered, no StoreChunk call returned an error", c.Delivered), c)
		}
		c.Got = fmt.Sprintf("errs=%d", nerr)
	default:
		return fmt.Errorf("unknown chunkstorage variant %q", c.Variant)
	}
	return nil
}

func c06Storage(a vh.Args, o *vh.Oracle, r *vh.Result, rng *vh.Rand) error {
	rounds := 6
	if a.Tier == "thorough" {
		rounds = 60
	}
	for i := 0; i < rounds; i++ {
		in := bkDupInput(rng, 6+rng.Intn(20), 2+rng.Intn(4), 30)
		for _, v := range []string{"retry-store", "retry-has"} {
			kind := map[string]string{"retry-store": "store", "retry-has": "has"}[v]
			c := &c06Case{Op: "chunkstorage", Variant: v, N: 1, BlobHex: vh.Hex(in.Blob), Sizes: in.Sizes, Faults: []c06Fault{{kind, 1}}, Level: "library"}
			if err := c06StorageCase(a, o, r, c); err != nil {
				return err
			}
		}
		for _, n := range []int{2, 4, 16} {
			c := &c06Case{Op: "chunkstorage", Variant: "concurrent", N: n, BlobHex: vh.Hex(in.Blob), Sizes: in.Sizes, Level: "library"}
			for q := 0; q < 1+rng.Intn(3); q++ {
				c.Faults = append(c.Faults, c06Fault{[]string{"has", "store"}[rng.Intn(2)], 1 + rng.Intn(4)})
			}
			if err := c06StorageCase(a, o, r, c); err != nil {
				return err
			}
		}
	}
	return nil
}
