package main

import (
	"encoding/binary"
	"fmt"
	"strings"

	"github.com/folbricht/desync"

	"vh/internal/vh"
)

// c01Plan compares SeedSequencer.Plan (through the verif accessor VerifPlanDetail) with the
// extracted Coq model Model/Sequencer.v (oracle command c01.plan) on generated indexes and seed
// sets, and checks on the implementation alone what Proofs/SequencerProofs.v proves of the
// model: the plan tiles the index, sources carry the IDs of the rows they replace, source-less
// entries are single rows.

type c01PlanSeed struct {
	Kind    string   `json:"kind"` // file | null
	Reflink bool     `json:"reflink"`
	Invalid bool     `json:"invalid"`
	IDs     []int    `json:"ids"`   // file: the seed index' chunk ids; null: one id
	Sizes   []uint64 `json:"sizes"` // file: chunk sizes (starts are cumulative)
}

type c01PlanCase struct {
	IDs   []int         `json:"ids"`
	Sizes []uint64      `json:"sizes"`
	Seeds []c01PlanSeed `json:"seeds"`
	Impl  string        `json:"impl,omitempty"`
	Model string        `json:"model,omitempty"`
}

func c01ID(i int) desync.ChunkID {
	var id desync.ChunkID
	binary.BigEndian.PutUint64(id[24:], uint64(i))
	return id
}

func c01Rows(ids []int, sizes []uint64) ([]desync.IndexChunk, string) {
	var (
		out   []desync.IndexChunk
		parts []string
		start uint64
	)
	for i := range ids {
		out = append(out, desync.IndexChunk{ID: c01ID(ids[i]), Start: start, Size: sizes[i]})
		parts = append(parts, fmt.Sprintf("%d:%d:%d", ids[i], start, sizes[i]))
		start += sizes[i]
	}
	if len(parts) == 0 {
		return out, "-"
	}
	return out, strings.Join(parts, ",")
}

func c01Bit(b bool) string {
	if b {
		return "1"
	}
	return "0"
}

func c01PlanGen(rng *vh.Rand) c01PlanCase {
	var c c01PlanCase
	alphabet := rng.Range(1, 6)
	if rng.Chance(1, 3) {
		alphabet = rng.Range(6, 40)
	}
	n := rng.Range(0, 40)
	switch rng.Intn(8) {
	case 0:
		n = rng.Range(90, 260) // beyond the 100-row limit of seeds without reflinks
	case 1:
		n = rng.Range(0, 3)
	}
	sizeOf := func() uint64 {
		if rng.Chance(1, 4) {
			return 16 // equal sizes: ties between seeds
		}
		return uint64(rng.Range(1, 64))
	}
	for i := 0; i < n; i++ {
		c.IDs = append(c.IDs, rng.Intn(alphabet))
		c.Sizes = append(c.Sizes, sizeOf())
	}
	if n > 0 && rng.Chance(1, 4) { // long runs of one id (null-chunk like)
		from := rng.Intn(n)
		for i := from; i < n && i < from+rng.Range(2, 150); i++ {
			c.IDs[i] = 0
		}
	}
	// AssembleFile always puts a null seed first; sometimes leave it out, sometimes its id does not occur
	if !rng.Chance(1, 5) {
		c.Seeds = append(c.Seeds, c01PlanSeed{Kind: "null", Reflink: rng.Bool(), IDs: []int{rng.Intn(alphabet + 1)}})
	}
	for k := rng.Intn(5); k > 0; k-- {
		s := c01PlanSeed{Kind: "file", Reflink: rng.Bool(), Invalid: rng.Chance(1, 5)}
		m := rng.Range(0, 50)
		if rng.Chance(1, 6) {
			m = rng.Range(100, 240)
		}
		for len(s.IDs) < m {
			if n > 0 && rng.Chance(2, 3) { // a stretch of the target (so that matches exist), possibly with changed sizes
				from := rng.Intn(n)
				l := rng.Range(1, 30)
				if rng.Chance(1, 8) {
					l = rng.Range(90, 130)
				}
				for i := from; i < n && i < from+l; i++ {
					s.IDs = append(s.IDs, c.IDs[i])
					if rng.Chance(1, 10) {
						s.Sizes = append(s.Sizes, sizeOf())
					} else {
						s.Sizes = append(s.Sizes, c.Sizes[i])
					}
				}
			} else {
				s.IDs = append(s.IDs, rng.Intn(alphabet+2))
				s.Sizes = append(s.Sizes, sizeOf())
			}
		}
		c.Seeds = append(c.Seeds, s)
	}
	if rng.Chance(1, 10) && len(c.Seeds) > 0 { // the same seed twice
		c.Seeds = append(c.Seeds, c.Seeds[len(c.Seeds)-1])
	}
	return c
}

func c01PlanOne(o *vh.Oracle, r *vh.Result, c *c01PlanCase) error {
	r.Running(c)
	rows, rowSpec := c01Rows(c.IDs, c.Sizes)
	idx := desync.Index{Chunks: rows}
	var (
		seeds    []desync.Seed
		specs    []string
		seedRows [][]desync.IndexChunk
	)
	defer func() { desync.VerifCanCloneHook = nil }()
	for _, s := range c.Seeds {
		if s.Kind == "null" {
			seeds = append(seeds, desync.VerifNullSeed(c01ID(s.IDs[0]), s.Reflink))
			specs = append(specs, fmt.Sprintf("N%s;%d", c01Bit(s.Reflink), s.IDs[0]))
			seedRows = append(seedRows, nil)
			continue
		}
		reflink := s.Reflink
		desync.VerifCanCloneHook = func(a, b string) bool { return reflink }
		srows, spec := c01Rows(s.IDs, s.Sizes)
		fs, err := desync.NewIndexSeed("/nonexistent/dst", "/nonexistent/src", desync.Index{Chunks: srows})
		if err != nil {
			return err
		}
		if s.Invalid {
			fs.SetInvalid(true)
		}
		seeds = append(seeds, fs)
		specs = append(specs, fmt.Sprintf("F%s%s;%s", c01Bit(s.Reflink), c01Bit(s.Invalid), spec))
		seedRows = append(seedRows, srows)
	}
	detail := desync.VerifPlanDetail(idx, seeds...)
	var parts []string
	for _, e := range detail {
		parts = append(parts, fmt.Sprintf("%d:%d:%d:%d:%d:%d:%d", e[0], e[1], e[2], e[3], e[4], e[5], e[6]))
	}
	c.Impl = strings.Join(parts, ",")
	if len(parts) == 0 {
		c.Impl = "-"
	}
	key := fmt.Sprintf("%v|%v", c.IDs, specs)
	r.Count(key, len(c.IDs) > 0 && len(c.Seeds) > 0)
	r.Dist(fmt.Sprintf("plan/rows~%d", c01Bucket(len(c.IDs))))
	r.Dist(fmt.Sprintf("plan/seeds=%d", len(c.Seeds)))
	withSrc := 0
	// ---- predicates on the implementation alone ----
	next := uint64(0)
	for _, e := range detail {
		if e[0] != next || e[1] < e[0] || e[1] >= uint64(len(rows)) {
			r.Fail("predicate", "plan/not-tiling", fmt.Sprintf("plan entry [%d,%d] does not continue at row %d of %d", e[0], e[1], next, len(rows)), c)
			return nil
		}
		next = e[1] + 1
		n := int(e[1] - e[0] + 1)
		switch e[2] {
		case 0:
			if n != 1 {
				r.Fail("predicate", "plan/sourceless-multi-row", fmt.Sprintf("entry [%d,%d] has no source but %d rows (the worker panics on it)", e[0], e[1], n), c)
				return nil
			}
		case 1:
			withSrc++
			k := int(e[3])
			if k >= len(c.Seeds) || c.Seeds[k].Kind != "file" || c.Seeds[k].Invalid {
				r.Fail("predicate", "plan/uses-invalid-seed", fmt.Sprintf("entry [%d,%d] takes its source from seed %d which is invalid or not a file seed", e[0], e[1], k), c)
				return nil
			}
			if int(e[5]) != n {
				r.Fail("predicate", "plan/source-length", fmt.Sprintf("entry [%d,%d] has %d rows but its source has %d chunks", e[0], e[1], n, e[5]), c)
				return nil
			}
			// locate the source rows in the seed by their start offset and compare the ids
			p := -1
			for i, sr := range seedRows[k] {
				if sr.Start == e[4] {
					p = i
					break
				}
			}
			ok := p >= 0 && p+n <= len(seedRows[k])
			for i := 0; ok && i < n; i++ {
				ok = seedRows[k][p+i].ID == rows[int(e[0])+i].ID
			}
			if !ok {
				r.Fail("predicate", "plan/source-ids-differ", fmt.Sprintf("entry [%d,%d]: the seed rows starting at offset %d do not carry the ids of the target rows", e[0], e[1], e[4]), c)
				return nil
			}
			if !c.Seeds[k].Reflink && n > 100 {
				r.Fail("predicate", "plan/limit-exceeded", fmt.Sprintf("entry [%d,%d] has %d rows from a seed without reflinks (limit 100)", e[0], e[1], n), c)
				return nil
			}
		case 2:
			withSrc++
			k := int(e[3])
			if k >= len(c.Seeds) || c.Seeds[k].Kind != "null" {
				r.Fail("predicate", "plan/null-from-wrong-seed", fmt.Sprintf("entry [%d,%d] is a null section of seed %d", e[0], e[1], k), c)
				return nil
			}
			for i := int(e[0]); i <= int(e[1]); i++ {
				if c.IDs[i] != c.Seeds[k].IDs[0] {
					r.Fail("predicate", "plan/null-over-data", fmt.Sprintf("entry [%d,%d] is a null section but row %d has another id", e[0], e[1], i), c)
					return nil
				}
			}
			if e[4] != rows[e[0]].Start || e[5] != rows[e[1]].Start+rows[e[1]].Size {
				r.Fail("predicate", "plan/null-range", fmt.Sprintf("entry [%d,%d]: null section [%d,%d) is not the rows' byte range", e[0], e[1], e[4], e[5]), c)
				return nil
			}
		}
	}
	if next != uint64(len(rows)) {
		r.Fail("predicate", "plan/not-tiling", fmt.Sprintf("plan ends at row %d of %d", next, len(rows)), c)
		return nil
	}
	r.Dist(fmt.Sprintf("plan/with-source~%d", c01Bucket(withSrc)))
	// ---- correspondence with the model ----
	if o != nil {
		ans, err := o.Call("c01.plan", append([]string{rowSpec}, specs...)...)
		if err != nil {
			return err
		}
		r.Corr()
		c.Model = ans
		if ans != c.Impl {
			r.Fail("corr", "corr:C01/plan", "SeedSequencer.Plan and Model/Sequencer.v plan differ", c)
		}
	}
	return nil
}

func c01Bucket(n int) int {
	switch {
	case n == 0:
		return 0
	case n < 4:
		return 1
	case n < 16:
		return 4
	case n < 64:
		return 16
	case n < 128:
		return 64
	}
	return 128
}

func c01Plan(o *vh.Oracle, r *vh.Result, rng *vh.Rand, n int) error {
	// corpus: empty index with seeds; one row; an invalid seed that would match everything
	corpus := []c01PlanCase{
		{Seeds: []c01PlanSeed{{Kind: "null", IDs: []int{0}}, {Kind: "file", IDs: []int{1, 2}, Sizes: []uint64{4, 4}}}},
		{IDs: []int{1}, Sizes: []uint64{5}},
		{IDs: []int{1, 2, 3}, Sizes: []uint64{5, 6, 7}, Seeds: []c01PlanSeed{{Kind: "file", Invalid: true, IDs: []int{1, 2, 3}, Sizes: []uint64{5, 6, 7}}}},
		{IDs: []int{1, 2, 3}, Sizes: []uint64{5, 6, 7}, Seeds: []c01PlanSeed{{Kind: "file", IDs: []int{9, 1, 2, 3}, Sizes: []uint64{1, 5, 6, 7}}, {Kind: "file", Reflink: true, IDs: []int{2, 3, 1, 2}, Sizes: []uint64{6, 7, 5, 6}}}},
	}
	for i := range corpus {
		if err := c01PlanOne(o, r, &corpus[i]); err != nil {
			return err
		}
	}
	for k := 0; k < n; k++ {
		c := c01PlanGen(rng)
		if err := c01PlanOne(o, r, &c); err != nil {
			return err
		}
		if k < 3 {
			r.Sample(c)
		}
	}
	return nil
}

// c01SelfSeed compares selfSeed.add / getChunk (through VerifSelfSeed) with Model/SelfSeed.v on
// generated indexes and add orders (segments of a tiling added in random order, with duplicates
// and overlapping/foreign segments thrown in), and checks on the implementation alone what
// selfseed_sound proves of the model: an offered row has the id, is the least such row, and lies
// in a segment that was added.
type c01SelfCase struct {
	IDs     []int    `json:"ids"`
	Adds    [][2]int `json:"adds"`
	Queries []int    `json:"queries"`
	Impl    string   `json:"impl,omitempty"`
	Model   string   `json:"model,omitempty"`
}

func c01SelfSeedOne(o *vh.Oracle, r *vh.Result, c *c01SelfCase) error {
	r.Running(c)
	sizes := make([]uint64, len(c.IDs))
	for i := range sizes {
		sizes[i] = 8
	}
	rows, _ := c01Rows(c.IDs, sizes)
	idx := desync.Index{Chunks: rows}
	var qs []desync.ChunkID
	for _, q := range c.Queries {
		qs = append(qs, c01ID(q))
	}
	written, got := desync.VerifSelfSeed(idx, c.Adds, qs)
	var parts []string
	for k := range c.Adds {
		var rs []string
		for qi, row := range got[k] {
			rs = append(rs, fmt.Sprint(row))
			if row >= 0 {
				covered := false
				for _, a := range c.Adds[:k+1] {
					if a[0] <= row && row <= a[1] {
						covered = true
					}
				}
				least := true
				for i := 0; i < row; i++ {
					if c.IDs[i] == c.Queries[qi] {
						least = false
					}
				}
				switch {
				case row >= len(c.IDs) || c.IDs[row] != c.Queries[qi]:
					r.Fail("predicate", "selfseed/wrong-id", fmt.Sprintf("after add %d the self seed offers row %d for id %d", k, row, c.Queries[qi]), c)
					return nil
				case !covered:
					r.Fail("predicate", "selfseed/row-not-written", fmt.Sprintf("after add %d the self seed offers row %d, which lies in no segment added so far", k, row), c)
					return nil
				case !least:
					r.Fail("predicate", "selfseed/not-first-row", fmt.Sprintf("after add %d the self seed offers row %d although an earlier row has the id", k, row), c)
					return nil
				}
			} else if row == -2 {
				r.Fail("predicate", "selfseed/segment-mismatch", "getChunk's segment is not the row recorded in pos", c)
				return nil
			}
		}
		parts = append(parts, fmt.Sprintf("%d;%s", written[k], strings.Join(rs, ",")))
	}
	c.Impl = strings.Join(parts, "|")
	if c.Impl == "" {
		c.Impl = "-"
	}
	r.Count(fmt.Sprintf("selfseed|%v|%v", c.IDs, c.Adds), len(c.Adds) > 1)
	r.Dist(fmt.Sprintf("selfseed/adds~%d", c01Bucket(len(c.Adds))))
	if o != nil {
		join := func(l []string) string {
			if len(l) == 0 {
				return "-"
			}
			return strings.Join(l, ",")
		}
		var ids, adds, qq []string
		for _, i := range c.IDs {
			ids = append(ids, fmt.Sprint(i))
		}
		for _, a := range c.Adds {
			adds = append(adds, fmt.Sprintf("%d:%d", a[0], a[1]))
		}
		for _, q := range c.Queries {
			qq = append(qq, fmt.Sprint(q))
		}
		ans, err := o.Call("c01.selfseed", join(ids), join(adds), join(qq))
		if err != nil {
			return err
		}
		r.Corr()
		c.Model = ans
		if ans != c.Impl {
			r.Fail("corr", "corr:C01/selfseed", "selfSeed.add/getChunk and Model/SelfSeed.v differ", c)
		}
	}
	return nil
}

func c01SelfSeed(o *vh.Oracle, r *vh.Result, rng *vh.Rand, n int) error {
	for k := 0; k < n; k++ {
		var c c01SelfCase
		m := 1 + rng.Intn(30)
		alphabet := 1 + rng.Intn(6)
		for i := 0; i < m; i++ {
			c.IDs = append(c.IDs, rng.Intn(alphabet))
		}
		// a tiling of the rows, shuffled; sometimes a segment twice, or left out
		var segs [][2]int
		for f := 0; f < m; {
			l := f + rng.Intn(4)
			if l >= m {
				l = m - 1
			}
			segs = append(segs, [2]int{f, l})
			f = l + 1
		}
		for i := len(segs) - 1; i > 0; i-- {
			j := rng.Intn(i + 1)
			segs[i], segs[j] = segs[j], segs[i]
		}
		for _, s := range segs {
			if rng.Chance(1, 12) {
				continue
			}
			c.Adds = append(c.Adds, s)
			if rng.Chance(1, 10) {
				c.Adds = append(c.Adds, s)
			}
		}
		for q := 0; q <= alphabet; q++ {
			c.Queries = append(c.Queries, q)
		}
		if err := c01SelfSeedOne(o, r, &c); err != nil {
			return err
		}
	}
	return nil
}
