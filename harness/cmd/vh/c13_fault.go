package main

// C13, fault family: whenever Tar() / `desync tar` reports SUCCESS, the bytes that reached the
// target are a well-formed catar of the whole tree.  The target runs full (short write + ENOSPC,
// sticky) or fails one write (short write + EIO, later writes succeed) at byte k of the archive:
// every k in a window at the end of the archive (the root goodbye table), every k for small
// archives from the tar-stream source, a stride over the rest.  An error is always fine; a nil
// error obliges the accepted bytes to validate (python validator + listing == source).

import (
	"bytes"
	"context"
	"encoding/hex"
	"fmt"
	"os"
	"os/exec"
	"path/filepath"
	"strconv"
	"strings"
	"syscall"
	"time"

	"github.com/folbricht/desync"

	"vh/internal/vh"
)

type c13FaultWriter struct {
	cap    int
	mode   string // enospc | transient
	buf    []byte
	failed bool
}

func (w *c13FaultWriter) Write(p []byte) (int, error) {
	switch w.mode {
	case "transient":
		if !w.failed && len(w.buf)+len(p) > w.cap {
			room := w.cap - len(w.buf)
			if room < 0 {
				room = 0
			}
			w.buf = append(w.buf, p[:room]...)
			w.failed = true
			return room, syscall.EIO
		}
		w.buf = append(w.buf, p...)
		return len(p), nil
	default: // the target is full from byte cap on
		room := w.cap - len(w.buf)
		if len(p) <= room {
			w.buf = append(w.buf, p...)
			return len(p), nil
		}
		if room < 0 {
			room = 0
		}
		w.buf = append(w.buf, p[:room]...)
		return room, syscall.ENOSPC
	}
}

// c13SmallTree: a handful of nodes, no xattrs (their finding is reported elsewhere), no FIFOs.
func c13SmallTree(rng *vh.Rand) []c13Node {
	g := &c13Gen{rng: rng, maxDepth: 3, budget: 6 + rng.Intn(14)}
	root := c13Node{Type: "dir"}
	g.meta(&root)
	g.nodes = append(g.nodes, root)
	g.dir(nil, 1, 2+rng.Intn(6))
	for i := range g.nodes {
		if g.nodes[i].Type == "file" && g.nodes[i].Size > 60 {
			g.nodes[i].Size = rng.Intn(60)
		}
	}
	return g.nodes
}

type c13FaultEnv struct {
	source string // disk | tar-sorted
	tree   string // directory (disk)
	tarb   []byte // tar stream (tar-sorted)
	want   map[string]*c13Want
	order  []string
	full   []byte // the archive written without a fault
	maxfan int
}

func (e *c13FaultEnv) run(capacity int, mode string) (accepted []byte, err error) {
	defer func() {
		if p := recover(); p != nil {
			err = fmt.Errorf("panic: %v", p)
		}
	}()
	w := &c13FaultWriter{cap: capacity, mode: mode}
	var fs desync.FilesystemReader
	if e.source == "disk" {
		fs = desync.NewLocalFS(e.tree, desync.LocalFSOptions{})
	} else {
		fs = desync.NewTarReader(bytes.NewReader(e.tarb), desync.TarReaderOptions{})
	}
	err = desync.Tar(context.Background(), w, fs)
	return w.buf, err
}

func c13FaultSetup(work string, c *c13Case) (*c13FaultEnv, error) {
	e := &c13FaultEnv{source: c.Source}
	if c.Source == "disk" {
		e.tree = filepath.Join(work, "tree")
		if err := c13Materialize(e.tree, c.Nodes); err != nil {
			return nil, err
		}
		var err error
		e.want, e.order, err = c13Snapshot(e.tree)
		if err != nil {
			return nil, err
		}
	} else {
		tb, _, err := c13BuildTar(c.Nodes, true)
		if err != nil {
			return nil, err
		}
		e.tarb = tb
		e.want, e.order = c13WantFromNodes(c.Nodes)
	}
	for _, w := range e.want {
		if w.Kids > e.maxfan {
			e.maxfan = w.Kids
		}
	}
	full, err := e.run(1<<40, "enospc")
	if err != nil {
		return nil, fmt.Errorf("Tar without a fault: %v", err)
	}
	e.full = full
	return e, nil
}

// c13FaultJudge: Tar() returned nil with these bytes accepted by the target.
func c13FaultJudge(r *vh.Result, c *c13Case, e *c13FaultEnv, work string, accepted []byte, what string) (bool, error) {
	cli := ""
	if c.Mode == "cli-fsize" {
		cli = "-cli"
	}
	f := filepath.Join(work, "accepted.catar")
	if err := os.WriteFile(f, accepted, 0644); err != nil {
		return false, err
	}
	var extra []string
	if e.source != "disk" {
		extra = append(extra, "--unsorted-ok")
	}
	out, _, err := c13Validate(f, extra...)
	if err != nil {
		return false, err
	}
	d := *c
	if !out.OK {
		d.Errors = out.Errors
		if len(d.Errors) > 4 {
			d.Errors = d.Errors[:4]
		}
		r.Fail("predicate", "fault/success-with-malformed-archive"+cli,
			fmt.Sprintf("%s: success is reported, but the %d bytes the target accepted (of %d) are not a well-formed catar: %s (offset %d)",
				what, len(accepted), len(e.full), out.Errors[0].Msg, out.Errors[0].Offset), &d)
		return false, nil
	}
	for _, m := range c13Compare(e.want, e.order, out.Nodes) {
		d.Detail = m[1]
		r.Fail("predicate", "fault/success-with-incomplete-archive"+cli, what+": success is reported, but the archive does not describe the tree: "+m[1], &d)
		return false, nil
	}
	return true, nil
}

func c13CheckFault(a vh.Args, o *vh.Oracle, r *vh.Result, c *c13Case, id int, ks []int, modes []string, allK bool) error {
	work := filepath.Join(a.Work, fmt.Sprintf("fault%d", id))
	if err := os.MkdirAll(work, 0755); err != nil {
		return err
	}
	defer os.RemoveAll(work)
	e, err := c13FaultSetup(work, c)
	if err != nil {
		return err
	}
	// the fault-free archive itself must be fine
	if _, err := c13FaultJudge(r, c, e, work, e.full, "no fault"); err != nil {
		return err
	}
	bad := 0
	L := len(e.full)
	if ks == nil {
		seen := map[int]bool{}
		add := func(k int) {
			if k >= 0 && k <= L && !seen[k] {
				seen[k] = true
				ks = append(ks, k)
			}
		}
		window := 24*(e.maxfan+2) + 64
		for k := L - window; k <= L; k++ {
			add(k)
		}
		if allK {
			for k := 0; k < L; k++ {
				add(k)
			}
		} else {
			// the items of every goodbye table, and a stride over the rest
			magic := []byte{0x03, 0xc4, 0x27, 0x83, 0x5e, 0x5c, 0xd3, 0xdf}
			for i := 0; i+8 <= L; i++ {
				if bytes.Equal(e.full[i:i+8], magic) {
					for k := i - 8; k < i+8+24*3 && k < L; k += 5 {
						add(k)
					}
				}
			}
			for k := 0; k < L; k += 37 {
				add(k)
			}
		}
	}
	r.Dist("fault-source:" + c.Source)
	r.Sample(map[string]interface{}{"fault_case": c.Source, "archive_bytes": L, "capacities": len(ks), "modes": modes})
	var modelKs []int
	for _, mode := range modes {
		for _, k := range ks {
			accepted, err := e.run(k, mode)
			r.Count(fmt.Sprintf("fault|%s|%s|%d|%d", c.Source, mode, k, L), k < L)
			r.Dist("fault-mode:" + mode)
			if mode == "enospc" && len(modelKs) < 60 && (k%7 == 0 || k >= L-30) {
				modelKs = append(modelKs, k)
				_ = accepted
			}
			if err != nil {
				continue // an error is always fine
			}
			if bytes.Equal(accepted, e.full) {
				if k < L && mode == "enospc" {
					d := *c
					d.Cap, d.Mode = k, mode
					r.Fail("predicate", "fault/impossible", fmt.Sprintf("the target accepted %d bytes with capacity %d", len(accepted), k), &d)
				}
				continue // the archive validated above
			}
			if bad >= 4 {
				continue // enough failing capacities of this tree are on record
			}
			d := *c
			d.Cap, d.Mode = k, mode
			if ok, err := c13FaultJudge(r, &d, e, work, accepted, fmt.Sprintf("%s source, target %s at byte %d of %d", c.Source, map[string]string{"enospc": "full", "transient": "fails one write"}[mode], k, L)); err != nil {
				return err
			} else if !ok {
				bad++
			}
		}
	}
	// the sink model (Model/TarSink.v): success flag and number of bytes accepted
	if o != nil && len(modelKs) > 0 {
		var spec []c13SpecNode
		if c.Source == "disk" {
			spec, err = c13SpecFromSnapshot(e.tree, e.want, e.order)
			if err != nil {
				return err
			}
		} else {
			_, emitted, _ := c13BuildTar(c.Nodes, true)
			spec = c13SpecFromNodes(c.Nodes, emitted)
		}
		sf := filepath.Join(work, "tree.spec")
		if err := c13WriteSpec(sf, spec); err != nil {
			return err
		}
		var kk []string
		for _, k := range modelKs {
			kk = append(kk, strconv.Itoa(k))
		}
		ans, err := o.Call("c13.sink", sf, strings.Join(kk, ","))
		if err != nil {
			return err
		}
		got := strings.Split(ans, ",")
		for i, k := range modelKs {
			accepted, err := e.run(k, "enospc")
			impl := fmt.Sprintf("%v:%d", err == nil, len(accepted))
			r.Corr()
			if i >= len(got) || got[i] != impl {
				d := *c
				d.Cap, d.Mode = k, "enospc"
				d.Detail = fmt.Sprintf("model %v, implementation %s (ok:bytes accepted)", got, impl)
				r.Fail("corr", "corr:C13/sink", fmt.Sprintf("tar into a target of %d bytes: the sink model and Tar() disagree", k), &d)
				break
			}
		}
	}
	return nil
}

// c13CheckFaultCLI: `desync tar` onto a file whose size is limited (RLIMIT_FSIZE, 512-byte blocks):
// the tree is padded so that the limit falls `back` bytes before the end of the archive.
func c13CheckFaultCLI(a vh.Args, r *vh.Result, rng *vh.Rand, id int) error {
	work := filepath.Join(a.Work, fmt.Sprintf("faultcli%d", id))
	if err := os.MkdirAll(work, 0755); err != nil {
		return err
	}
	defer os.RemoveAll(work)
	for _, back := range []int{30, 10, 52, 100} {
		nodes := c13SmallTree(rng.Fork())
		pad := c13Node{Path: []string{hex.EncodeToString([]byte("pad"))}, Type: "file", Mode: 0644, Size: 600, Seed: rng.U64(), Mtime: 1e18}
		exists := false
		for _, n := range nodes {
			if len(n.Path) == 1 && n.Path[0] == pad.Path[0] {
				exists = true
			}
		}
		if exists {
			continue
		}
		nodes = append(nodes, pad)
		build := func(tag string) (*c13FaultEnv, *c13Case, error) {
			c := &c13Case{Kind: "fault", Source: "disk", Nodes: nodes, Mode: "cli-fsize"}
			w := filepath.Join(work, tag)
			os.MkdirAll(w, 0755)
			e, err := c13FaultSetup(w, c)
			return e, c, err
		}
		e, _, err := build(fmt.Sprintf("a%d", back))
		if err != nil {
			return err
		}
		L0 := len(e.full)
		d := ((back-L0)%512 + 512) % 512
		nodes[len(nodes)-1].Size += d
		nodes[len(nodes)-1].content = nil
		e, c, err := build(fmt.Sprintf("b%d", back))
		if err != nil {
			return err
		}
		L := len(e.full)
		if (L-back)%512 != 0 || L-back <= 0 {
			r.Note("fault cli: could not align the archive (len %d, back %d)", L, back)
			continue
		}
		blocks := (L - back) / 512
		out := filepath.Join(work, "out.catar")
		os.Remove(out)
		ctx, cancel := context.WithTimeout(context.Background(), 60*time.Second)
		cmd := exec.CommandContext(ctx, "/bin/sh", "-c", fmt.Sprintf(`ulimit -f %d; exec "$0" tar "$1" "$2"`, blocks), os.Getenv("VH_DESYNC"), out, e.tree)
		err = cmd.Run()
		cancel()
		c.Cap = L - back
		r.Count(fmt.Sprintf("fault|cli|fsize|%d|%d", c.Cap, L), true)
		r.Dist("fault-mode:cli-fsize")
		if err != nil {
			continue // exit status != 0: fine
		}
		b, rerr := os.ReadFile(out)
		if rerr != nil {
			return rerr
		}
		if bytes.Equal(b, e.full) {
			r.Note("fault cli: the file size limit of %d blocks did not bite (archive %d bytes)", blocks, L)
			continue
		}
		if _, err := c13FaultJudge(r, c, e, work, b, fmt.Sprintf("`desync tar` onto a target limited to %d bytes (archive %d bytes), exit status 0", c.Cap, L)); err != nil {
			return err
		}
	}
	return nil
}

func c13RunFaults(a vh.Args, o *vh.Oracle, r *vh.Result, rng *vh.Rand, thorough bool) error {
	n := 2
	if thorough {
		n = 12
	}
	id := 0
	for i := 0; i < n; i++ {
		nodes := c13SmallTree(rng.Fork())
		id++
		// tar-stream source: no goroutine, cheap -> every capacity, both fault kinds
		if err := c13CheckFault(a, o, r, &c13Case{Kind: "fault", Source: "tar-sorted", Nodes: nodes}, id, nil, []string{"enospc", "transient"}, true); err != nil {
			return err
		}
		id++
		// disk source: the end window, the goodbye tables, a stride
		if err := c13CheckFault(a, o, r, &c13Case{Kind: "fault", Source: "disk", Nodes: nodes}, id, nil, []string{"enospc", "transient"}, thorough && i < 3); err != nil {
			return err
		}
	}
	if os.Getenv("VH_DESYNC") != "" {
		id++
		if err := c13CheckFaultCLI(a, r, rng, id); err != nil {
			return err
		}
	}
	return nil
}
