package main

import (
	"bufio"
	"bytes"
	"context"
	"encoding/json"
	"errors"
	"fmt"
	"os"
	"os/exec"
	"path/filepath"
	"strings"
	"sync"
	"sync/atomic"
	"syscall"
	"time"

	"github.com/folbricht/desync"

	"vh/internal/vh"
)

func init() { props["C01"] = runC01 }

type c01Seed struct {
	Kind     string `json:"kind"`           // exact | stale | empty | self
	Pieces   []int  `json:"pieces"`         // sizes of the rows of the seed's index
	IndexHex string `json:"index_data_hex"` // content the seed index describes
	FileHex  string `json:"file_hex"`       // content of the seed file on disk (differs for stale seeds)
}

type c01Case struct {
	BlobHex    string    `json:"blob_hex"`
	Min        uint64    `json:"min"`
	Avg        uint64    `json:"avg"`
	Max        uint64    `json:"max"`
	Seeds      []c01Seed `json:"seeds"`
	Prior      string    `json:"prior"` // absent|empty|garbage|longer|shorter|older|equal
	PriorHex   string    `json:"prior_hex"`
	Action     int       `json:"action"` // 0 bail-out, 1 skip, 2 regenerate
	N          int       `json:"n"`
	Clone      bool      `json:"clone"`
	Missing    []int     `json:"missing_chunks,omitempty"` // chunk numbers absent from the store
	Sched      uint64    `json:"sched_seed"`
	CancelAt   int       `json:"cancel_at,omitempty"`   // cancel the context at this scheduling-point hit (0 = never); < 0: counted from the last plan entry's hand-over (site assemble.feed): -1 = the last one
	CancelSite string    `json:"cancel_site,omitempty"` // count only hits of this site ("" = all)
	Shape      string    `json:"shape"`
	Trace      bool      `json:"trace,omitempty"` // record the workers' events (SHA256 ids) for trace validation
	// outcome
	Result     string   `json:"result,omitempty"` // nil | err:<msg> | hang | panic
	Equal      bool     `json:"output_equals_blob,omitempty"`
	TraceArgs  []string `json:"trace_args,omitempty"` // idx, plan, file0, events for the oracle command c01.atrace
	TraceAns   string   `json:"trace_model,omitempty"`
	PlanObs    string   `json:"plan_observed,omitempty"` // the validated plan (first:last:1+seed|0) and
	Attempts   int      `json:"attempts,omitempty"`      // the number of attempts, from the a.plan / a.planned events
	VloopModel string   `json:"vloop_model,omitempty"`
}

type memStore struct {
	mu   sync.Mutex
	m    map[desync.ChunkID][]byte
	gets int
}

func (s *memStore) GetChunk(id desync.ChunkID) (*desync.Chunk, error) {
	s.mu.Lock()
	s.gets++
	b, ok := s.m[id]
	s.mu.Unlock()
	if !ok {
		return nil, desync.ChunkMissing{ID: id}
	}
	return desync.NewChunkWithID(id, b, false)
}
func (s *memStore) HasChunk(id desync.ChunkID) (bool, error) {
	s.mu.Lock()
	defer s.mu.Unlock()
	_, ok := s.m[id]
	return ok, nil
}
func (s *memStore) Close() error   { return nil }
func (s *memStore) String() string { return "mem" }

func indexOfPieces(data []byte, pieces []int, min, avg, max uint64) desync.Index {
	idx := desync.Index{Index: desync.FormatIndex{FeatureFlags: desync.CaFormatSHA512256, ChunkSizeMin: min, ChunkSizeAvg: avg, ChunkSizeMax: max}}
	var off uint64
	for _, p := range pieces {
		idx.Chunks = append(idx.Chunks, desync.IndexChunk{Start: off, Size: uint64(p), ID: desync.Digest.Sum(data[off : off+uint64(p)])})
		off += uint64(p)
	}
	return idx
}

func chunkSizes(blob []byte, min, avg, max uint64) ([]int, error) {
	sp, _, err := seqChunks(bytes.NewReader(blob), min, avg, max)
	if err != nil {
		return nil, err
	}
	out := make([]int, len(sp))
	for i, s := range sp {
		out[i] = int(s.size)
	}
	return out, nil
}

// strict emulation of FICLONERANGE (ioctl_ficlonerange(2)): offsets block aligned, length block
// aligned unless the range ends at the end of the source file, length 0 = to end of source.
func cloneEmu(bs uint64) func(dst, src *os.File, srcOffset, srcLength, dstOffset uint64) error {
	return func(dst, src *os.File, srcOffset, srcLength, dstOffset uint64) error {
		st, err := src.Stat()
		if err != nil {
			return err
		}
		size := uint64(st.Size())
		if srcOffset%bs != 0 || dstOffset%bs != 0 {
			return syscall.EINVAL
		}
		if srcLength == 0 {
			if srcOffset > size {
				return syscall.EINVAL
			}
			srcLength = size - srcOffset
		}
		if srcLength > size || srcOffset+srcLength > size {
			return syscall.EINVAL
		}
		if srcLength%bs != 0 && srcOffset+srcLength != size {
			return syscall.EINVAL
		}
		buf := make([]byte, srcLength)
		if _, err := src.ReadAt(buf, int64(srcOffset)); err != nil && srcLength > 0 {
			return err
		}
		_, err = dst.WriteAt(buf, int64(dstOffset))
		return err
	}
}

// c01RunOne executes one case in this process (the child). Returns with c.Result set.
func c01RunOne(work string, c *c01Case) {
	desync.Digest = desync.SHA512256{}
	if c.Trace {
		desync.Digest = desync.SHA256{}
	}
	dir, err := os.MkdirTemp(work, "case")
	if err != nil {
		c.Result = "err:harness " + err.Error()
		return
	}
	defer os.RemoveAll(dir)
	blob := vh.UnHex(c.BlobHex)
	sizes, err := chunkSizes(blob, c.Min, c.Avg, c.Max)
	if err != nil {
		c.Result = "err:harness " + err.Error()
		return
	}
	idx := indexOfPieces(blob, sizes, c.Min, c.Avg, c.Max)
	store := &memStore{m: map[desync.ChunkID][]byte{}}
	missing := map[int]bool{}
	for _, m := range c.Missing {
		missing[m] = true
	}
	for i, ch := range idx.Chunks {
		if !missing[i] {
			store.m[ch.ID] = blob[ch.Start : ch.Start+ch.Size]
		}
	}
	// unrelated chunks for stale seeds' regenerated parts are not in the store on purpose
	target := filepath.Join(dir, "target")
	switch c.Prior {
	case "absent":
	default:
		if err := os.WriteFile(target, vh.UnHex(c.PriorHex), 0644); err != nil {
			c.Result = "err:harness " + err.Error()
			return
		}
	}
	if c.Clone {
		desync.VerifCanCloneHook = func(a, b string) bool { return true }
		desync.VerifCloneRangeHook = cloneEmu(4096)
	} else {
		desync.VerifCanCloneHook = func(a, b string) bool { return false }
		desync.VerifCloneRangeHook = nil
	}
	var seeds []desync.Seed
	for i, s := range c.Seeds {
		name := filepath.Join(dir, fmt.Sprintf("seed%d", i))
		if s.Kind == "self" {
			name = target
		} else if s.Kind == "gone" {
			// the seed's data file cannot be opened (deleted after the index was made)
		} else if err := os.WriteFile(name, vh.UnHex(s.FileHex), 0644); err != nil {
			c.Result = "err:harness " + err.Error()
			return
		}
		sidx := indexOfPieces(vh.UnHex(s.IndexHex), s.Pieces, c.Min, c.Avg, c.Max)
		seed, err := desync.NewIndexSeed(target, name, sidx)
		if err != nil {
			c.Result = "err:harness " + err.Error()
			return
		}
		seeds = append(seeds, seed)
	}
	// the premise of the safety theorem: the plan tiles the index rows (consecutive, non-empty, complete)
	segs := desync.VerifPlanSegments(idx, seeds...)
	next := 0
	for _, sg := range segs {
		if sg[0] != next || sg[1] < sg[0] {
			c.Result = fmt.Sprintf("plan-not-tiling:%v", segs)
			return
		}
		next = sg[1] + 1
	}
	if next != len(idx.Chunks) {
		c.Result = fmt.Sprintf("plan-not-tiling:%v", segs)
		return
	}
	ch := vh.NewChaos(c.Sched, 5, 30*time.Microsecond)
	ctx, cancel := context.WithCancel(context.Background())
	defer cancel()
	var hits int64
	cancelAt := int64(c.CancelAt)
	cancelSite := c.CancelSite
	if c.CancelAt < 0 {
		cancelSite = "assemble.feed"
		cancelAt = int64(len(segs) + 1 + c.CancelAt)
	}
	desync.VerifSetYieldHook(func(site string) {
		if cancelAt > 0 && (cancelSite == "" || cancelSite == site) && atomic.AddInt64(&hits, 1) == cancelAt {
			cancel()
		}
		ch.Hook(site)
	})
	defer desync.VerifSetYieldHook(nil)
	var rec *c01Recorder
	if c.Trace {
		rec = c01StartRecorder(target)
		defer rec.stop()
	}
	done := make(chan error, 1)
	go func() {
		_, err := desync.AssembleFile(ctx, target, idx, store, seeds,
			desync.AssembleOptions{N: c.N, InvalidSeedAction: desync.InvalidSeedAction(c.Action)})
		done <- err
	}()
	select {
	case err := <-done:
		if err != nil {
			c.Result = "err:" + err.Error()
			if rec != nil {
				rec.stop()
				c.PlanObs, c.Attempts = rec.planObs()
			}
			return
		}
		c.Result = "nil"
		out, rerr := os.ReadFile(target)
		c.Equal = rerr == nil && bytes.Equal(out, blob)
		if rec != nil {
			rec.stop()
			c.TraceArgs = rec.args(idx, vh.UnHex(c.PriorHex), c.Prior)
		}
	case <-time.After(12 * time.Second):
		c.Result = "hang"
	}
	if rec != nil && c.Result != "hang" {
		rec.stop()
		c.PlanObs, c.Attempts = rec.planObs()
	}
}

// child mode: run the cases of a batch file one by one, one JSON result line each
func c01Child(a vh.Args) error {
	var batch []c01Case
	b, err := os.ReadFile(a.Replay)
	if err != nil {
		return err
	}
	if err := json.Unmarshal(b, &batch); err != nil {
		return err
	}
	out, err := os.Create(os.Getenv("VH_C01_RES"))
	if err != nil {
		return err
	}
	defer out.Close()
	for i := range batch {
		c01RunOne(a.Work, &batch[i])
		line, _ := json.Marshal(map[string]interface{}{"i": i, "result": batch[i].Result, "equal": batch[i].Equal, "trace_args": batch[i].TraceArgs,
			"plan": batch[i].PlanObs, "attempts": batch[i].Attempts})
		out.Write(append(line, '\n'))
		out.Sync()
		if batch[i].Result == "hang" {
			os.Exit(3) // goroutines are stuck; the parent restarts after this case
		}
	}
	return nil
}

// runBatch runs cases in child processes; a crash or hang is attributed to the case that was running.
func c01RunBatch(a vh.Args, cases []c01Case) error {
	start := 0
	for start < len(cases) {
		bf := filepath.Join(a.Work, "batch.json")
		rf := filepath.Join(a.Work, "batch.res")
		b, _ := json.Marshal(cases[start:])
		if err := os.WriteFile(bf, b, 0644); err != nil {
			return err
		}
		os.Remove(rf)
		cmd := exec.Command(os.Args[0], "C01", "-replay", bf, "-oracle", "/nonexistent")
		cmd.Env = append(os.Environ(), "VH_C01_CHILD=1", "VH_C01_RES="+rf)
		var stderr bytes.Buffer
		cmd.Stderr = &stderr
		cmd.Stdout = nil
		if err := cmd.Start(); err != nil {
			return err
		}
		waitCh := make(chan error, 1)
		go func() { waitCh <- cmd.Wait() }()
		var werr error
		select {
		case werr = <-waitCh:
		case <-time.After(time.Duration(30+len(cases[start:])*25) * time.Second):
			cmd.Process.Kill()
			werr = errors.New("child timeout")
			<-waitCh
		}
		n := 0
		if f, err := os.Open(rf); err == nil {
			sc := bufio.NewScanner(f)
			sc.Buffer(make([]byte, 1<<20), 1<<26)
			for sc.Scan() {
				var r struct {
					I      int      `json:"i"`
					Result string   `json:"result"`
					Equal  bool     `json:"equal"`
					Trace  []string `json:"trace_args"`
					Plan   string   `json:"plan"`
					Att    int      `json:"attempts"`
				}
				if json.Unmarshal(sc.Bytes(), &r) == nil {
					cases[start+r.I].Result = r.Result
					cases[start+r.I].Equal = r.Equal
					cases[start+r.I].TraceArgs = r.Trace
					cases[start+r.I].PlanObs = r.Plan
					cases[start+r.I].Attempts = r.Att
					n = r.I + 1
				}
			}
			f.Close()
		}
		if werr == nil {
			return nil
		}
		hung := n > 0 && cases[start+n-1].Result == "hang"
		if !hung && start+n < len(cases) {
			// the child died while running case start+n
			msg := stderr.String()
			if i := strings.Index(msg, "panic:"); i >= 0 {
				msg = msg[i:]
			}
			if len(msg) > 400 {
				msg = msg[:400]
			}
			cases[start+n].Result = "panic:" + msg
			n++
		}
		start += n
		if n == 0 {
			return fmt.Errorf("child made no progress: %v %s", werr, stderr.String())
		}
	}
	return nil
}

func c01Judge(r *vh.Result, c *c01Case) {
	consistent := true // every seed's index matches its file
	static := true     // no seed aliases the target
	regenerable := true
	for _, s := range c.Seeds {
		if s.Kind == "stale" || s.Kind == "gone" {
			consistent = false
		}
		if s.Kind == "gone" {
			regenerable = false // a seed whose data file is gone can be skipped, not regenerated
		}
		if s.Kind == "self" {
			static = false
			consistent = false
		}
	}
	complete := len(c.Missing) == 0
	mustSucceed := c.CancelAt == 0 && complete && (consistent || (c.Action == 1 && static) || (c.Action == 2 && static && regenerable))
	key := fmt.Sprintf("%s|%d|%d|%v|%d|%s|%d", c.Prior, c.Action, c.N, c.Clone, len(c.Seeds), c.BlobHex[:min(20, len(c.BlobHex))], len(c.BlobHex))
	r.Count(key, len(c.Seeds) > 0 || c.Prior != "absent")
	r.Dist("prior:" + c.Prior)
	r.Dist(fmt.Sprintf("action:%d", c.Action))
	r.Dist("n:" + bucket(c.N))
	r.Dist(fmt.Sprintf("clone:%v", c.Clone))
	r.Dist("blob:" + c.Shape)
	for _, s := range c.Seeds {
		r.Dist("seed:" + s.Kind)
	}
	if len(c.Seeds) == 0 {
		r.Dist("seed:none")
	}
	res := c.Result
	if strings.HasPrefix(res, "err:") {
		r.Dist("result:err")
	} else {
		r.Dist("result:" + strings.SplitN(res, ":", 2)[0])
	}
	r.Sample(map[string]interface{}{"blob_len": len(c.BlobHex) / 2, "min": c.Min, "max": c.Max, "prior": c.Prior, "action": c.Action, "n": c.N, "clone": c.Clone, "seeds": len(c.Seeds), "result": strings.SplitN(res, ":", 2)[0]})
	switch {
	case res == "nil" && !c.Equal:
		cls := "success-with-wrong-output"
		if c.Clone {
			cls = "success-with-wrong-output/clone"
		}
		r.Fail("predicate", cls, "AssembleFile returned nil but the output differs from the indexed blob", c)
	case res == "hang":
		r.Fail("predicate", "hang", "AssembleFile did not return within 20s", c)
	case strings.HasPrefix(res, "panic"):
		cls := "panic"
		if len(c.BlobHex) <= 1 {
			cls = "panic/empty-index"
		}
		r.Fail("predicate", cls, "AssembleFile panicked: "+res, c)
	case strings.HasPrefix(res, "plan-not-tiling"):
		r.Fail("corr", "corr:C01/plan_ok", "the sequencer's plan does not tile the index rows (premise plan_ok of C01_assemble_safe): "+res, c)
	case strings.HasPrefix(res, "err:harness"):
		r.Fail("harness", "harness-error", res, c)
	case strings.HasPrefix(res, "err:") && mustSucceed:
		r.Fail("predicate", "fails-despite-complete-store", "store complete and seeds consistent (or skip/regenerate with static seeds), but AssembleFile failed: "+res, c)
	case res == "":
		r.Fail("harness", "harness-error", "case produced no result", c)
	}
}

func c01Gen(rng *vh.Rand) c01Case {
	var c c01Case
	big := rng.Chance(1, 8) // chunk sizes above the 4096 block size
	if big {
		c.Min, c.Avg, c.Max = uint64(4200+rng.Intn(2000)), uint64(8000+rng.Intn(2000)), uint64(10000+rng.Intn(6000))
	} else {
		c.Min, c.Avg, c.Max = c02Triple(rng)
	}
	var blob []byte
	switch rng.Intn(10) {
	case 0:
		blob, c.Shape = nil, "empty"
	case 1:
		blob, c.Shape = rng.Bytes(1+rng.Intn(int(c.Min))), "short"
	default:
		blob, c.Shape = c02Blob(rng, c.Min, c.Max, 1)
		if len(blob) > int(c.Max)*30 {
			blob = blob[:int(c.Max)*30]
		}
		if rng.Chance(1, 4) && len(blob) > 0 { // repeat a stretch so chunks recur (self-seed)
			k := rng.Intn(len(blob))
			blob = append(blob, blob[k:]...)
			blob = append(blob, blob[:k]...)
			c.Shape += "+dup"
		}
	}
	c.BlobHex = vh.Hex(blob)
	sizes, _ := chunkSizes(blob, c.Min, c.Avg, c.Max)
	pieces := func() ([]byte, []int) { // an older version built from the blob's chunks and some new ones
		var data []byte
		var ps []int
		off := 0
		var chunks [][]byte
		for _, s := range sizes {
			chunks = append(chunks, blob[off:off+s])
			off += s
		}
		for i := 0; i < len(chunks); {
			switch rng.Intn(6) {
			case 0: // foreign chunk
				f := rng.Bytes(1 + rng.Intn(int(c.Max)))
				data = append(data, f...)
				ps = append(ps, len(f))
			case 1: // skip one
				i++
			case 2: // jump
				i = rng.Intn(len(chunks))
				fallthrough
			default:
				run := 1 + rng.Intn(5)
				for k := 0; k < run && i < len(chunks); k++ {
					data = append(data, chunks[i]...)
					ps = append(ps, len(chunks[i]))
					i++
				}
			}
			if len(ps) > 3*len(chunks)+5 {
				break
			}
		}
		return data, ps
	}
	ns := []int{0, 1, 1, 2, 3}[rng.Intn(5)]
	var older []byte
	for k := 0; k < ns; k++ {
		var s c01Seed
		switch rng.Intn(9) {
		case 8:
			d, ps := pieces()
			s = c01Seed{Kind: "gone", Pieces: ps, IndexHex: vh.Hex(d)}
		case 0:
			s = c01Seed{Kind: "empty"}
		case 1, 2:
			d, ps := pieces()
			f := append([]byte{}, d...)
			switch rng.Intn(3) {
			case 0:
				for j := 0; j < 1+rng.Intn(4) && len(f) > 0; j++ {
					f[rng.Intn(len(f))] ^= 0x55
				}
			case 1:
				f = f[:rng.Intn(len(f)+1)]
			default:
				f = rng.Bytes(len(f))
			}
			s = c01Seed{Kind: "stale", Pieces: ps, IndexHex: vh.Hex(d), FileHex: vh.Hex(f)}
		case 3:
			d, ps := pieces()
			s = c01Seed{Kind: "self", Pieces: ps, IndexHex: vh.Hex(d)}
			older = d
		default:
			d, ps := pieces()
			s = c01Seed{Kind: "exact", Pieces: ps, IndexHex: vh.Hex(d), FileHex: vh.Hex(d)}
			if older == nil {
				older = d
			}
		}
		c.Seeds = append(c.Seeds, s)
		if rng.Chance(1, 6) { // duplicate seed
			c.Seeds = append(c.Seeds, s)
		}
	}
	hasSelf := false
	for _, s := range c.Seeds {
		if s.Kind == "self" {
			hasSelf = true
		}
	}
	pr := []string{"absent", "empty", "garbage", "longer", "shorter", "older", "equal"}[rng.Intn(7)]
	if hasSelf {
		pr = "older"
	}
	c.Prior = pr
	switch pr {
	case "garbage":
		c.PriorHex = vh.Hex(rng.Bytes(rng.Intn(2*len(blob) + 10)))
	case "longer":
		c.PriorHex = vh.Hex(append(append([]byte{}, blob...), rng.Bytes(1+rng.Intn(500))...))
	case "shorter":
		c.PriorHex = vh.Hex(blob[:rng.Intn(len(blob)+1)])
	case "older":
		if older == nil {
			older, _ = pieces()
		}
		c.PriorHex = vh.Hex(older)
	case "equal":
		c.PriorHex = vh.Hex(blob)
	}
	c.Action = rng.Intn(3)
	c.N = []int{1, 2, 3, 8}[rng.Intn(4)]
	c.Clone = rng.Chance(1, 3)
	if rng.Chance(1, 12) && len(sizes) > 0 {
		c.Missing = []int{rng.Intn(len(sizes))}
	}
	c.Sched = rng.U64() % 1000000
	c.Trace = len(blob) <= 6000
	return c
}

func runC01(a vh.Args, o *vh.Oracle, r *vh.Result) error {
	if os.Getenv("VH_C01_CHILD") == "1" {
		return c01Child(a)
	}
	r.Rule = "case = (blob, chunk triple, seed set {exact, stale, empty, self-aliasing, duplicated}, prior target content, invalid-seed action, N, clone emulation on/off, schedule seed); every case runs AssembleFile in a child process (panic/hang observable); non-trivial = has seeds or a pre-existing target; distinct by parameters + blob prefix"
	if a.Replay != "" {
		var pc c01PlanCase
		if err := readJSON(a.Replay, &pc); err == nil && (len(pc.IDs) > 0 || len(pc.Seeds) > 0) {
			return c01PlanOne(o, r, &pc)
		}
		var sdc c01SeedDirCase
		if err := readJSON(a.Replay, &sdc); err == nil && sdc.Kind == "seeddir" {
			return c01CLISeedDirOne(a, r, os.Getenv("VH_DESYNC"), &sdc)
		}
		var clc c01CLICase
		if err := readJSON(a.Replay, &clc); err == nil && len(clc.Args) > 0 {
			return c01CLIOne(a, r, os.Getenv("VH_DESYNC"), &clc)
		}
		var c c01Case
		if err := readJSON(a.Replay, &c); err != nil {
			return err
		}
		cases := []c01Case{c}
		for i := 0; i < 20; i++ { // schedule dependent failures: several schedule seeds
			cc := c
			cc.Sched = c.Sched + uint64(i)*7919
			cases = append(cases, cc)
		}
		if err := c01RunBatch(a, cases); err != nil {
			return err
		}
		for i := range cases {
			c01Judge(r, &cases[i])
			if err := c01JudgeTrace(o, r, &cases[i]); err != nil {
				return err
			}
			if err := c01JudgeVloop(o, r, &cases[i]); err != nil {
				return err
			}
		}
		return nil
	}
	rng := vh.NewRand(a.Seed)
	n := 1200
	if a.Tier == "thorough" {
		n = 30000
	}
	// corpus: empty index with seeds (panic / lock leak classes) always first
	var cases []c01Case
	cases = append(cases,
		c01Case{BlobHex: "-", Min: 64, Avg: 96, Max: 128, Prior: "absent", N: 2, Shape: "empty"},
		c01Case{BlobHex: "-", Min: 64, Avg: 96, Max: 128, Prior: "garbage", PriorHex: "0102030405", N: 1, Shape: "empty"},
	)
	for len(cases) < n {
		c := c01Gen(rng)
		if rng.Chance(1, 6) {
			c = c01VloopGen(rng) // overlapping seeds, some stale: the validate / skip / regenerate loop
		}
		switch rng.Intn(12) {
		case 0, 1:
			// cancellation at a scheduling point, mostly late in the run (after the last segment was handed out,
			// while the last jobs are being worked on): nil is only acceptable with the complete blob
			nch := len(vh.UnHex(c.BlobHex))/int(c.Avg) + 2
			top := 4*nch + 8
			c.CancelAt = 1 + rng.Intn(top)
			switch rng.Intn(4) {
			case 0:
				c.CancelAt = top/2 + rng.Intn(top/2+1)
			case 1, 2:
				// exactly when the feeder is about to hand out one of the last plan entries: its select may
				// still pick the send although the context is done, and nothing is left to feed afterwards
				c.CancelAt = -1 - rng.Intn(2)
			}
			if rng.Chance(2, 3) {
				c.N = 1
			}
			c.Shape += "+cancel"
		case 2:
			c = c01TinyPriorGen(rng)
		}
		if rng.Chance(1, 10) {
			// self-seed family: no seeds, fresh target, the blob twice (chunks recur once the chunker has
			// resynchronised), few workers: later rows are copied from earlier, finished ones
			b := vh.UnHex(c.BlobHex)
			if len(b) > 0 && len(b) <= 3000 {
				b = append(append([]byte{}, b...), b...)
				c.BlobHex, c.Seeds, c.Prior, c.PriorHex, c.Missing = vh.Hex(b), nil, "absent", "", nil
				c.N = 1 + rng.Intn(2)
				c.Shape += "+selfdup"
				c.Trace = true
			}
		}
		cases = append(cases, c)
	}
	const batch = 100
	for i := 0; i < len(cases); i += batch {
		j := i + batch
		if j > len(cases) {
			j = len(cases)
		}
		if err := c01RunBatch(a, cases[i:j]); err != nil {
			return err
		}
		// every hang costs a watchdog period: once a few are on record the verdict is settled, do not spend the
		// check's time budget on collecting more of them
		hangs := 0
		for k := 0; k < j; k++ {
			if cases[k].Result == "hang" {
				hangs++
			}
		}
		if hangs >= 3 {
			r.Note("stopped after %d hanging cases (%d of %d cases run)", hangs, j, len(cases))
			cases = cases[:j]
			break
		}
	}
	for i := range cases {
		c01Judge(r, &cases[i])
		if err := c01JudgeTrace(o, r, &cases[i]); err != nil {
			return err
		}
		if err := c01JudgeVloop(o, r, &cases[i]); err != nil {
			return err
		}
	}
	nclone := 400
	if a.Tier == "thorough" {
		nclone = 20000
	}
	if err := c01Clone(a, o, r, rng, nclone); err != nil {
		return err
	}
	nplan := 4000
	if a.Tier == "thorough" {
		nplan = 150000
	}
	if err := c01Plan(o, r, rng, nplan); err != nil {
		return err
	}
	if err := c01SelfSeed(o, r, rng, nplan/4); err != nil {
		return err
	}
	ncli := 120
	if a.Tier == "thorough" {
		ncli = 3000
	}
	return c01CLI(a, r, rng, ncli)
}
