package main

// C05: random directory trees, their materialisation on disk and the
// lstat/readlink/listxattr/content snapshot used by the property predicate.
// Everything here goes through raw system calls or the Go standard library,
// never through desync.

import (
	"crypto/sha256"
	"encoding/hex"
	"fmt"
	"os"
	"path/filepath"
	"sort"
	"strings"
	"syscall"
	"unsafe"

	"vh/internal/vh"
)

// ---------- raw system calls (l*xattr, utimensat without following links) ----------

func bytePtr(s string) (*byte, error) { return syscall.BytePtrFromString(s) }

func lsetxattr(path, name string, val []byte) error {
	p, err := bytePtr(path)
	if err != nil {
		return err
	}
	n, err := bytePtr(name)
	if err != nil {
		return err
	}
	var v unsafe.Pointer
	if len(val) > 0 {
		v = unsafe.Pointer(&val[0])
	} else {
		var z byte
		v = unsafe.Pointer(&z)
	}
	_, _, e := syscall.Syscall6(syscall.SYS_LSETXATTR, uintptr(unsafe.Pointer(p)), uintptr(unsafe.Pointer(n)), uintptr(v), uintptr(len(val)), 0, 0)
	if e != 0 {
		return e
	}
	return nil
}

func lgetxattr(path, name string) ([]byte, error) {
	p, err := bytePtr(path)
	if err != nil {
		return nil, err
	}
	n, err := bytePtr(name)
	if err != nil {
		return nil, err
	}
	buf := make([]byte, 1<<16)
	r, _, e := syscall.Syscall6(syscall.SYS_LGETXATTR, uintptr(unsafe.Pointer(p)), uintptr(unsafe.Pointer(n)), uintptr(unsafe.Pointer(&buf[0])), uintptr(len(buf)), 0, 0)
	if e != 0 {
		return nil, e
	}
	return append([]byte{}, buf[:r]...), nil
}

func llistxattr(path string) ([]string, error) {
	p, err := bytePtr(path)
	if err != nil {
		return nil, err
	}
	buf := make([]byte, 1<<16)
	r, _, e := syscall.Syscall(syscall.SYS_LLISTXATTR, uintptr(unsafe.Pointer(p)), uintptr(unsafe.Pointer(&buf[0])), uintptr(len(buf)))
	if e != 0 {
		return nil, e
	}
	var out []string
	for _, s := range strings.Split(string(buf[:r]), "\x00") {
		if s != "" {
			out = append(out, s)
		}
	}
	return out, nil
}

const atSymlinkNofollow = 0x100

func nsToTimespec(ns int64) syscall.Timespec {
	sec := ns / 1e9
	nsec := ns % 1e9
	if nsec < 0 {
		nsec += 1e9
		sec--
	}
	return syscall.Timespec{Sec: sec, Nsec: nsec}
}

// lutimens sets atime = mtime = sec.nsec on the object itself.
func lutimens(path string, sec, nsec int64) error {
	p, err := bytePtr(path)
	if err != nil {
		return err
	}
	ts := [2]syscall.Timespec{{Sec: sec, Nsec: nsec}, {Sec: sec, Nsec: nsec}}
	atFdCwd := -100
	_, _, e := syscall.Syscall6(syscall.SYS_UTIMENSAT, uintptr(atFdCwd), uintptr(unsafe.Pointer(p)), uintptr(unsafe.Pointer(&ts[0])), atSymlinkNofollow, 0, 0)
	if e != 0 {
		return e
	}
	return nil
}

// ---------- tree description (JSON-serialisable, replayable) ----------

type c05Node struct {
	Name     string      `json:"name_hex"`
	Kind     string      `json:"kind"` // dir file link chr blk fifo
	Perm     uint32      `json:"perm"` // 12 bits
	UID      uint32      `json:"uid"`
	GID      uint32      `json:"gid"`
	Sec      int64       `json:"mtime_sec"`
	Nsec     int64       `json:"mtime_nsec"`
	Xattrs   [][2]string `json:"xattrs,omitempty"` // hex key, hex value, in the order they are set
	Size     int         `json:"size,omitempty"`
	DataSeed uint64      `json:"data_seed,omitempty"`
	Pattern  string      `json:"pattern,omitempty"` // content as segments: d<len> = non-zero data, z<len> = zeros, e.g. "d4096z8192d1"
	Target   string      `json:"target_hex,omitempty"`
	Major    uint32      `json:"major,omitempty"`
	Minor    uint32      `json:"minor,omitempty"`
	Children []*c05Node  `json:"children,omitempty"`
}

func (n *c05Node) name() string { b, _ := hex.DecodeString(n.Name); return string(b) }

func (n *c05Node) count() int {
	c := 1
	for _, k := range n.Children {
		c += k.count()
	}
	return c
}

func (n *c05Node) depth() int {
	d := 0
	for _, k := range n.Children {
		if x := k.depth(); x > d {
			d = x
		}
	}
	return d + 1
}

func (n *c05Node) walk(f func(*c05Node)) {
	f(n)
	for _, k := range n.Children {
		k.walk(f)
	}
}

// c05PatternData builds content from a pattern of data (never a zero byte) and zero segments.
func c05PatternData(pat string, seed uint64) []byte {
	r := vh.NewRand(seed)
	var out []byte
	for i := 0; i < len(pat); {
		kind := pat[i]
		j := i + 1
		for j < len(pat) && pat[j] >= '0' && pat[j] <= '9' {
			j++
		}
		n := 0
		fmt.Sscanf(pat[i+1:j], "%d", &n)
		seg := make([]byte, n)
		if kind == 'd' {
			copy(seg, r.Bytes(n))
			for k := range seg {
				if seg[k] == 0 {
					seg[k] = 0xA5
				}
			}
		}
		out = append(out, seg...)
		i = j
	}
	return out
}

func c05PatternSize(pat string) int { return len(c05PatternData(pat, 1)) }

func c05Data(n *c05Node) []byte {
	if n.Pattern != "" {
		return c05PatternData(n.Pattern, n.DataSeed)
	}
	if n.Size == 0 {
		return nil
	}
	b, _ := vh.Blob(vh.NewRand(n.DataSeed), n.Size)
	return b
}

// ---------- generator ----------

type c05Gen struct {
	r         *vh.Rand
	maxDir    int  // largest directory
	budget    int  // entries still allowed in this tree
	maxFile   int  // largest ordinary file
	xattrs    bool // user.* / trusted.* work on the scratch file system
	devices   bool
	fifos     bool
	future    bool // allow mtimes after 2262 (known finding class)
	epochs    bool // allow mtime == 0 (known finding class)
	bigFile   int  // size of the one big file (0 = none)
	bigPlaced bool
}

var c05Specials = []string{" ", "-", "--", "-rf", ".hidden", "...", "..a", ".a.", "a b", "a.b", "a", "a\n", "tab\there", "back\\slash",
	"#hash", "quote'\"", "ü", "日本語", "\xf0\x9f\x98\x80", "\xff\xfe", "\x80", "\x01\x02", "a\x7f", "*", "?", "[x]", "~", "$HOME", "%s", "CON", "a=b,c",
	"user.x", "é", "e\xcc\x81", "A", "Z", "_", "a-", "a+", "a0", "a/"[:1] + "_"}

func (g *c05Gen) name(i int) string {
	r := g.r
	switch r.Intn(10) {
	case 0, 1, 2:
		return fmt.Sprintf("f%d", i)
	case 3, 4:
		return c05Specials[r.Intn(len(c05Specials))]
	case 5: // arbitrary bytes
		n := 1 + r.Intn(12)
		b := r.Bytes(n)
		for j := range b {
			if b[j] == 0 || b[j] == '/' {
				b[j] = 'x'
			}
		}
		return string(b)
	case 6: // longest possible name
		if r.Chance(1, 4) {
			b := make([]byte, 255)
			for j := range b {
				b[j] = byte('a' + (i+j)%26)
			}
			if r.Bool() { // multi-byte characters up to the limit
				s := strings.Repeat("é", 127) + "x"
				return s[:255]
			}
			return string(b)
		}
		return fmt.Sprintf("%s%d", strings.Repeat("n", r.Intn(40)), i)
	case 7: // shared prefixes and neighbours in sort order
		base := []string{"a", "a.", "a ", "a-", "a0", "aa", "a\xff", "a\x01", "b", "B"}[r.Intn(10)]
		return base + []string{"", "", "x", ".d", " "}[r.Intn(5)]
	default:
		return fmt.Sprintf("%c%d", "abcdefgh.-_ "[r.Intn(12)], i)
	}
}

func validName(s string) bool {
	return s != "" && s != "." && s != ".." && !strings.ContainsAny(s, "/\x00") && len(s) <= 255
}

func (g *c05Gen) perm(kind string) uint32 {
	r := g.r
	switch r.Intn(6) {
	case 0:
		return uint32(r.Intn(4096))
	case 1:
		return []uint32{04755, 02755, 06755, 01777, 07777, 04000, 02000, 01000, 0, 07000}[r.Intn(10)]
	case 2:
		return uint32(r.Intn(512)) | []uint32{04000, 02000, 01000}[r.Intn(3)]
	default:
		if kind == "dir" {
			return []uint32{0755, 0700, 0750, 0777, 0555}[r.Intn(5)]
		}
		return []uint32{0644, 0600, 0755, 0444, 0666, 0}[r.Intn(6)]
	}
}

func (g *c05Gen) id() uint32 {
	r := g.r
	switch r.Intn(8) {
	case 0:
		return uint32(r.U64() % 0xFFFFFFFF) // never 2^32-1 ("leave unchanged" for chown)
	case 1:
		return []uint32{1, 1000, 65534, 65535, 65536, 1 << 31, 0xFFFFFFFE, 0x7FFFFFFF}[r.Intn(8)]
	case 2:
		return uint32(1000 + r.Intn(50))
	default:
		return 0
	}
}

// mtime returns seconds and nanoseconds
func (g *c05Gen) mtime() (int64, int64) {
	r := g.r
	switch r.Intn(12) {
	case 0:
		if g.epochs {
			return 0, 0
		}
		return 0, 1
	case 1:
		return 0, int64(1 + r.Intn(999999999))
	case 2:
		return int64(r.Intn(100)), int64(r.Intn(1000)) * 1000000
	case 3: // before 1970
		return -int64(1 + r.Intn(2000000000)), int64(r.Intn(1000000000))
	case 4: // far future, still an int64 of nanoseconds (year 2262)
		return 9223372036 - int64(r.Intn(100000)), int64(r.Intn(1000000000))
	case 5:
		if g.future { // beyond what UnixNano can express; ext4 goes to 2446
			return 9223372037 + int64(r.Intn(5000000000)), int64(r.Intn(1000000000))
		}
		return 4102444800 + int64(r.Intn(1000000000)), 0 // year 2100+
	case 6:
		return int64(r.Intn(2000000000)), 0 // whole seconds
	case 7:
		return int64(r.Intn(2000000000)), 999999999
	case 8:
		return -1, 999999999 // one nanosecond before the epoch
	default:
		return int64(1000000000 + r.Intn(800000000)), int64(r.Intn(1000000000))
	}
}

func (g *c05Gen) xattrsFor(kind string) [][2]string {
	if !g.xattrs || !g.r.Chance(1, 4) {
		return nil
	}
	r := g.r
	n := 1 + r.Intn(4)
	seen := map[string]bool{}
	var out [][2]string
	for i := 0; i < n; i++ {
		ns := "trusted."
		if (kind == "dir" || kind == "file") && r.Bool() {
			ns = "user."
		}
		var k string
		switch r.Intn(5) {
		case 0:
			k = ns + []string{"b", "a", "B", "a.b", "a\xff", "ab", "z", "0"}[r.Intn(8)]
		case 1:
			b := r.Bytes(1 + r.Intn(10))
			for j := range b {
				if b[j] == 0 {
					b[j] = '0'
				}
			}
			k = ns + string(b)
		default:
			k = fmt.Sprintf("%skey%d", ns, r.Intn(20))
		}
		if seen[k] {
			continue
		}
		seen[k] = true
		var v []byte
		switch r.Intn(5) {
		case 0:
		case 1:
			v = r.Bytes(1 + r.Intn(8)) // NUL bytes included
		case 2:
			v = []byte("va\x00lue")
		case 3:
			v = r.Bytes(200 + r.Intn(600))
		default:
			v = []byte(fmt.Sprintf("value-%d", r.Intn(1000)))
		}
		out = append(out, [2]string{hex.EncodeToString([]byte(k)), hex.EncodeToString(v)})
	}
	return out
}

// link targets that path.Clean would change: a round trip has to keep them byte for byte
var c05UncleanTargets = []string{"./f", "sub/", "sub/../f", "sub//g", "sub/.", "a/./b", "../x/", "./", "//", "a/b/../../c", "./.", "../", "x/..", "/abs//path/", "a///"}

func (g *c05Gen) target() string {
	r := g.r
	if r.Chance(1, 4) {
		return c05UncleanTargets[r.Intn(len(c05UncleanTargets))]
	}
	switch r.Intn(8) {
	case 0:
		return "/etc/passwd"
	case 1:
		return "/nonexistent/" + g.name(r.Intn(9))
	case 2:
		return "../" + g.name(r.Intn(9))
	case 3:
		return "."
	case 4:
		b := r.Bytes(1 + r.Intn(40))
		for j := range b {
			if b[j] == 0 {
				b[j] = '/'
			}
		}
		return string(b)
	case 5:
		return strings.Repeat("long/", 1+r.Intn(150)) + "x"
	case 6:
		return "//a///b/"
	default:
		return g.name(r.Intn(9))
	}
}

func (g *c05Gen) attrs(n *c05Node) {
	n.Perm = g.perm(n.Kind)
	n.UID, n.GID = g.id(), g.id()
	n.Sec, n.Nsec = g.mtime()
	n.Xattrs = g.xattrsFor(n.Kind)
}

func (g *c05Gen) node(name string, depth int, forceDir bool) *c05Node {
	r := g.r
	n := &c05Node{Name: hex.EncodeToString([]byte(name))}
	k := r.Intn(100)
	switch {
	case forceDir || (k < 22 && depth < 6):
		n.Kind = "dir"
	case k < 70:
		n.Kind = "file"
	case k < 88:
		n.Kind = "link"
	case k < 96 && g.devices:
		n.Kind = []string{"chr", "blk"}[r.Intn(2)]
	case k < 98 && g.fifos:
		n.Kind = "fifo"
	default:
		n.Kind = "file"
	}
	g.attrs(n)
	switch n.Kind {
	case "file":
		switch r.Intn(10) {
		case 0, 1, 2:
			n.Size = 0
		case 3, 4, 5:
			n.Size = 1 + r.Intn(200)
		case 6, 7:
			n.Size = 1 + r.Intn(5000)
		case 8:
			n.Size = 1 + r.Intn(g.maxFile)
		default:
			n.Size = []int{1, 15, 16, 17, 4095, 4096, 4097}[r.Intn(7)]
		}
		if g.bigFile > 0 && !g.bigPlaced && r.Chance(1, 3) {
			n.Size = g.bigFile
			g.bigPlaced = true
		}
		n.DataSeed = r.U64()
		if r.Chance(1, 8) && g.bigFile == 0 { // zero blocks at every alignment: tails, holes, all zeros
			blk := []int{512, 4096, 4096, 4096, 65536}[r.Intn(5)]
			seg := func() int { return []int{0, 1, blk - 1, blk, blk + 1, 2 * blk, 3 * blk, r.Intn(3 * blk)}[r.Intn(8)] }
			switch r.Intn(5) {
			case 0:
				n.Pattern = fmt.Sprintf("z%d", seg())
			case 1:
				n.Pattern = fmt.Sprintf("d%dz%d", seg(), seg())
			case 2:
				n.Pattern = fmt.Sprintf("d%dz%dd%d", seg(), seg(), seg())
			case 3:
				n.Pattern = fmt.Sprintf("z%dd%d", seg(), seg())
			default:
				n.Pattern = fmt.Sprintf("d%dz%dd%dz%d", blk, seg(), seg(), blk*(1+r.Intn(3)))
			}
			n.Size = c05PatternSize(n.Pattern)
		}
	case "link":
		n.Target = hex.EncodeToString([]byte(g.target()))
	case "chr", "blk":
		switch r.Intn(4) {
		case 0:
			n.Major, n.Minor = 0, 0
		case 1:
			n.Major, n.Minor = 4095, 1048575
		case 2:
			n.Major, n.Minor = uint32(r.Intn(4096)), uint32(r.Intn(1<<20))
		default:
			n.Major, n.Minor = uint32(r.Intn(260)), uint32(r.Intn(300))
		}
	case "dir":
		var cnt int
		switch r.Intn(10) {
		case 0, 1:
			cnt = 0
		case 2, 3, 4, 5:
			cnt = 1 + r.Intn(4)
		case 6, 7:
			cnt = 1 + r.Intn(12)
		case 8:
			cnt = 1 + r.Intn(40)
		default:
			cnt = 1 + r.Intn(g.maxDir)
		}
		if depth == 0 && cnt == 0 && r.Chance(3, 4) {
			cnt = 1 + r.Intn(6)
		}
		seen := map[string]bool{}
		for i := 0; i < cnt && g.budget > 0; i++ {
			nm := g.name(i)
			if !validName(nm) || seen[nm] {
				nm = fmt.Sprintf("e%d", i)
				if seen[nm] {
					continue
				}
			}
			seen[nm] = true
			g.budget--
			n.Children = append(n.Children, g.node(nm, depth+1, false))
		}
		// the listing order of the model: sorted by name, byte-wise
		sort.Slice(n.Children, func(i, j int) bool { return n.Children[i].name() < n.Children[j].name() })
	}
	return n
}

// ---------- materialise ----------

func c05Materialise(path string, n *c05Node) error {
	switch n.Kind {
	case "dir":
		if err := os.Mkdir(path, 0700); err != nil {
			return err
		}
		for _, k := range n.Children {
			if err := c05Materialise(path+"/"+k.name(), k); err != nil {
				return err
			}
		}
	case "file":
		if err := os.WriteFile(path, c05Data(n), 0600); err != nil {
			return err
		}
	case "link":
		t, _ := hex.DecodeString(n.Target)
		if err := os.Symlink(string(t), path); err != nil {
			return err
		}
	case "chr", "blk":
		m := uint32(syscall.S_IFCHR)
		if n.Kind == "blk" {
			m = syscall.S_IFBLK
		}
		dev := (uint64(n.Major&0xfff) << 8) | uint64(n.Minor&0xff) | (uint64(n.Minor&0xfff00) << 12)
		if err := syscall.Mknod(path, m|0600, int(dev)); err != nil {
			return fmt.Errorf("mknod %q: %v", path, err)
		}
	case "fifo":
		if err := syscall.Mkfifo(path, 0600); err != nil {
			return err
		}
	default:
		return fmt.Errorf("unknown kind %q", n.Kind)
	}
	for _, kv := range n.Xattrs {
		k, _ := hex.DecodeString(kv[0])
		v, _ := hex.DecodeString(kv[1])
		if err := lsetxattr(path, string(k), v); err != nil {
			return fmt.Errorf("lsetxattr %q %q: %v", path, k, err)
		}
	}
	if err := os.Lchown(path, int(n.UID), int(n.GID)); err != nil {
		return err
	}
	if n.Kind != "link" {
		if err := syscall.Chmod(path, n.Perm); err != nil {
			return err
		}
	}
	return lutimens(path, n.Sec, n.Nsec)
}

// ---------- snapshot ----------

type c05Ent struct {
	Rel      string            // path below the root, "." for the root
	Mode     uint32            // st_mode
	GoMode   uint32            // os.FileMode as reported by os.Lstat
	UID, GID uint32
	Sec      int64
	Nsec     int64
	Rdev     uint64
	Size     int64
	Sum      [32]byte
	Data     []byte // kept only when keepData
	Target   string
	Xattrs   map[string]string
	XOrder   []string // keys as listed
	Kids     int
}

func (e *c05Ent) kind() string {
	switch e.Mode & syscall.S_IFMT {
	case syscall.S_IFDIR:
		return "dir"
	case syscall.S_IFREG:
		return "file"
	case syscall.S_IFLNK:
		return "link"
	case syscall.S_IFCHR:
		return "chr"
	case syscall.S_IFBLK:
		return "blk"
	case syscall.S_IFIFO:
		return "fifo"
	case syscall.S_IFSOCK:
		return "sock"
	}
	return "?"
}

// c05Snapshot lists root in walk order: a directory, then its entries sorted byte-wise, depth first.
func c05Snapshot(root string, keepData bool) ([]*c05Ent, error) {
	var out []*c05Ent
	var rec func(path, rel string) error
	rec = func(path, rel string) error {
		var st syscall.Stat_t
		if err := syscall.Lstat(path, &st); err != nil {
			return fmt.Errorf("lstat %q: %v", path, err)
		}
		fi, err := os.Lstat(path)
		if err != nil {
			return err
		}
		e := &c05Ent{Rel: rel, Mode: st.Mode, GoMode: uint32(fi.Mode()), UID: st.Uid, GID: st.Gid, Sec: st.Mtim.Sec, Nsec: st.Mtim.Nsec, Size: st.Size, Xattrs: map[string]string{}}
		keys, err := llistxattr(path)
		if err != nil {
			return fmt.Errorf("llistxattr %q: %v", path, err)
		}
		for _, k := range keys {
			v, err := lgetxattr(path, k)
			if err != nil {
				return fmt.Errorf("lgetxattr %q %q: %v", path, k, err)
			}
			e.Xattrs[k] = string(v)
			e.XOrder = append(e.XOrder, k)
		}
		out = append(out, e)
		switch st.Mode & syscall.S_IFMT {
		case syscall.S_IFREG:
			b, err := os.ReadFile(path)
			if err != nil {
				return err
			}
			e.Sum = sha256.Sum256(b)
			if keepData {
				e.Data = b
			}
		case syscall.S_IFLNK:
			t, err := os.Readlink(path)
			if err != nil {
				return err
			}
			e.Target = t
		case syscall.S_IFCHR, syscall.S_IFBLK:
			e.Rdev = st.Rdev
		case syscall.S_IFDIR:
			d, err := os.Open(path)
			if err != nil {
				return err
			}
			names, err := d.Readdirnames(-1)
			d.Close()
			if err != nil {
				return err
			}
			sort.Strings(names)
			e.Kids = len(names)
			for _, nm := range names {
				r := nm
				if rel != "." {
					r = rel + "/" + nm
				}
				if err := rec(path+"/"+nm, r); err != nil {
					return err
				}
			}
		}
		return nil
	}
	if err := rec(filepath.Clean(root), "."); err != nil {
		return nil, err
	}
	return out, nil
}

// c05RemoveAll removes a scratch tree whatever its permission bits are.
func c05RemoveAll(path string) { os.RemoveAll(path) }

// c05LinkZoo: a directory with one symlink per target that path.Clean would change.
func (g *c05Gen) linkZoo(name string) *c05Node {
	d := &c05Node{Name: hex.EncodeToString([]byte(name)), Kind: "dir"}
	g.attrs(d)
	d.Xattrs = nil
	for i, t := range c05UncleanTargets {
		l := &c05Node{Name: hex.EncodeToString([]byte(fmt.Sprintf("l%02d", i))), Kind: "link", Target: hex.EncodeToString([]byte(t))}
		g.attrs(l)
		l.Xattrs = nil
		d.Children = append(d.Children, l)
	}
	return d
}

// zeroZoo: regular files with zero blocks at every alignment (all zeros, zero tails aligned and not, holes).
func (g *c05Gen) zeroZoo(name string) *c05Node {
	d := &c05Node{Name: hex.EncodeToString([]byte(name)), Kind: "dir", Perm: 0755, Sec: 1500000000}
	pats := []string{"z0", "z1", "z4095", "z4096", "z4097", "z8192", "z12288", "z65536",
		"d4096z4096", "d100z8092", "d4096z100", "d1z4095", "d4095z1", "d4096z8192d4096", "z4096d1", "z8192d4096", "d1z8191",
		"d61440z8192", "d4096z4096d4096z4096", "d512z512", "z512"}
	for i, p := range pats {
		f := &c05Node{Name: hex.EncodeToString([]byte(fmt.Sprintf("%02d-%s", i, p))), Kind: "file", Perm: 0644, Sec: 1500000000 + int64(i), Nsec: 5,
			Pattern: p, DataSeed: uint64(i + 1)}
		f.Size = c05PatternSize(p)
		d.Children = append(d.Children, f)
	}
	return d
}

// ownerZoo: set-gid / set-uid / sticky directories whose group differs from their children's; children owned
// by the running user and by others.  (A new entry in a set-gid directory gets the directory's group from the
// kernel: only an explicit chown gives it its own.)
func (g *c05Gen) ownerZoo(name string, uid, gid uint32) *c05Node {
	d := &c05Node{Name: hex.EncodeToString([]byte(name)), Kind: "dir", Perm: 0755, Sec: 1500000000}
	for i, perm := range []uint32{02775, 02700, 06755, 03777, 04755, 01777, 02070} {
		sub := &c05Node{Name: hex.EncodeToString([]byte(fmt.Sprintf("dir-%04o", perm))), Kind: "dir", Perm: perm, UID: uid, GID: 4321 + uint32(i), Sec: 1500000100}
		mk := func(nm, kind string, u, gg uint32) *c05Node {
			n := &c05Node{Name: hex.EncodeToString([]byte(nm)), Kind: kind, Perm: 0644, UID: u, GID: gg, Sec: 1500000200, Nsec: 7}
			switch kind {
			case "file":
				n.Size, n.DataSeed = 10, 9
			case "link":
				n.Target = hex.EncodeToString([]byte("target"))
			case "chr":
				n.Major, n.Minor = 1, 3
			case "dir":
				n.Perm = 0755
			}
			return n
		}
		sub.Children = append(sub.Children, mk("dev-ours", "chr", uid, gid), mk("dir-ours", "dir", uid, gid), mk("file-others", "file", 1000, 1000),
			mk("file-ours", "file", uid, gid), mk("file-ours-setgid", "file", uid, gid), mk("link-ours", "link", uid, gid), mk("link-others", "link", 1000, 2000))
		sub.Children[4].Perm = 02755
		if !g.devices {
			sub.Children = sub.Children[1:]
		}
		sort.Slice(sub.Children, func(a, b int) bool { return sub.Children[a].name() < sub.Children[b].name() })
		d.Children = append(d.Children, sub)
	}
	sort.Slice(d.Children, func(a, b int) bool { return d.Children[a].name() < d.Children[b].name() })
	return d
}
