package main

import (
	"bytes"
	"fmt"
	"os"
	"path/filepath"
	"strconv"
	"strings"

	"github.com/folbricht/desync"

	"vh/internal/vh"
)

type c01CloneCase struct {
	Kind      string `json:"kind"` // fileseed | null
	SrcOffset uint64 `json:"src_offset"`
	Length    uint64 `json:"length"`
	DstOffset uint64 `json:"dst_offset"`
	BS        uint64 `json:"blocksize"`
	SrcSize   uint64 `json:"src_size"`
	DstSize   uint64 `json:"dst_size"`
	Got       string `json:"impl,omitempty"`
	Model     string `json:"model,omitempty"`
}

// c01Clone drives fileSeedSegment.clone / nullChunkSection.clone directly (through the verif
// accessors) on an emulated reflink filesystem and compares (a) the destination file with what
// the property demands: only [dst, dst+len) changes and it equals the source range (or zeros);
// (b) the FICLONERANGE calls and the copied/cloned totals with the Coq model of the arithmetic.
func c01Clone(a vh.Args, o *vh.Oracle, r *vh.Result, rng *vh.Rand, n int) error {
	for k := 0; k < n; k++ {
		bs := []uint64{512, 4096}[rng.Intn(2)]
		c := c01CloneCase{BS: bs}
		if rng.Chance(1, 3) {
			c.Kind = "null"
		} else {
			c.Kind = "fileseed"
		}
		// lengths both below and above the block size; offsets at every phase
		switch rng.Intn(4) {
		case 0:
			c.Length = uint64(1 + rng.Intn(int(bs)))
		case 1:
			c.Length = bs*uint64(1+rng.Intn(4)) + uint64(rng.Intn(3)) - 1
		default:
			c.Length = uint64(1 + rng.Intn(int(5*bs)))
		}
		phase := uint64(rng.Intn(int(bs)))
		if rng.Chance(1, 4) {
			phase = 0
		}
		c.SrcOffset = bs*uint64(rng.Intn(4)) + phase
		c.DstOffset = bs*uint64(rng.Intn(4)) + phase
		c.SrcSize = c.SrcOffset + c.Length + uint64(rng.Intn(int(2*bs)))
		if rng.Chance(1, 3) {
			c.SrcSize = c.SrcOffset + c.Length // segment ends at the end of the source
		}
		c.DstSize = c.DstOffset + c.Length + uint64(rng.Intn(int(2*bs)))
		if err := c01CloneOne(a, o, r, &c, rng); err != nil {
			return err
		}
	}
	return nil
}

func c01CloneOne(a vh.Args, o *vh.Oracle, r *vh.Result, c *c01CloneCase, rng *vh.Rand) error {
	srcData := rng.Bytes(int(c.SrcSize))
	dstData := rng.Bytes(int(c.DstSize))
	if c.Kind == "null" {
		srcData = make([]byte, c.BS) // the block file of the null seed
	}
	srcName := filepath.Join(a.Work, "clone.src")
	dstName := filepath.Join(a.Work, "clone.dst")
	if err := os.WriteFile(srcName, srcData, 0644); err != nil {
		return err
	}
	if err := os.WriteFile(dstName, dstData, 0644); err != nil {
		return err
	}
	src, err := os.Open(srcName)
	if err != nil {
		return err
	}
	defer src.Close()
	dst, err := os.OpenFile(dstName, os.O_RDWR, 0644)
	if err != nil {
		return err
	}
	defer dst.Close()
	var calls []string
	emu := cloneEmu(c.BS)
	desync.VerifCloneRangeHook = func(d, s *os.File, so, sl, do uint64) error {
		calls = append(calls, fmt.Sprintf("clone:%d:%d:%d", do, so, sl))
		return emu(d, s, so, sl, do)
	}
	defer func() { desync.VerifCloneRangeHook = nil }()
	var copied, cloned uint64
	var cerr error
	if c.Kind == "null" {
		copied, cloned, cerr = desync.VerifNullClone(dst, src, c.DstOffset, c.Length, c.BS)
	} else {
		copied, cloned, cerr = desync.VerifFileSeedClone(dst, src, c.SrcOffset, c.Length, c.DstOffset, c.BS)
	}
	out, _ := os.ReadFile(dstName)
	r.Count(fmt.Sprintf("clone|%s|%d|%d|%d|%d", c.Kind, c.SrcOffset, c.Length, c.DstOffset, c.BS), true)
	r.Dist("clone:" + c.Kind)
	if c.Length < c.BS {
		r.Dist("clone:len<block")
	} else {
		r.Dist("clone:len>=block")
	}
	// predicate: exactly the destination range changed, to the source bytes (zeros for the null section)
	want := append([]byte{}, dstData...)
	for uint64(len(want)) < c.DstOffset+c.Length {
		want = append(want, 0)
	}
	for i := uint64(0); i < c.Length; i++ {
		if c.Kind == "null" {
			want[c.DstOffset+i] = 0
		} else {
			want[c.DstOffset+i] = srcData[c.SrcOffset+i]
		}
	}
	c.Got = fmt.Sprintf("copied=%d cloned=%d calls=%s err=%v", copied, cloned, strings.Join(calls, ","), cerr)
	if cerr == nil && !bytes.Equal(out, want) {
		r.Fail("predicate", "clone/writes-outside-or-wrong", "seed clone reported success but the destination differs from 'only the segment range replaced by the source bytes'", c)
	}
	if cerr != nil {
		r.Fail("predicate", "clone/fails", "seed clone failed on an (emulated) reflink filesystem: "+cerr.Error(), c)
	}
	if o != nil {
		var ans string
		if c.Kind == "null" {
			ans, err = o.Call("c01.nsclone", u(c.DstOffset), u(c.Length), u(c.BS))
		} else {
			ans, err = o.Call("c01.fsclone", u(c.SrcOffset), u(c.Length), u(c.DstOffset), u(c.BS))
		}
		if err != nil {
			return err
		}
		r.Corr()
		c.Model = ans
		var mcopied, mcloned uint64
		var mcalls []string
		for _, op := range strings.Split(ans, ",") {
			f := strings.Split(op, ":")
			if len(f) != 4 {
				continue
			}
			l, _ := strconv.ParseUint(f[3], 10, 64)
			if f[0] == "copy" {
				mcopied += l
			} else {
				mcloned += l
				mcalls = append(mcalls, op)
			}
		}
		if mcopied != copied || mcloned != cloned || strings.Join(mcalls, ",") != strings.Join(calls, ",") {
			r.Fail("corr", "corr:C01/clone-arithmetic", "clone calls / copied+cloned totals differ between the Go code and the Coq model of the arithmetic", c)
		}
	}
	return nil
}
