package main

// C03: S3 and SFTP backends (minimal in-harness endpoints).

import (
	"errors"

	"github.com/folbricht/desync"
)

func (e *c03Env) s3Available() bool   { return false }
func (e *c03Env) sftpAvailable() bool { return false }

func (e *c03Env) buildS3(n *c03Node, dir string, cleanup *[]func()) (desync.Store, error) {
	return nil, errors.New("s3 endpoint not available")
}
func (e *c03Env) buildSFTP(n *c03Node, dir string, cleanup *[]func()) (desync.Store, error) {
	return nil, errors.New("sftp endpoint not available")
}
