package main

// C03: S3 and SFTP backends.
//   S3:   the real S3Store (minio client, path-style, anonymous) against a minimal in-harness
//         endpoint (GET/HEAD/PUT of objects) that serves the scratch directories.
//   SFTP: the real SFTPStore; CASYNC_SSH_PATH points at a script that, for `ssh <host> -s sftp`,
//         re-executes this binary as an SFTP server (github.com/pkg/sftp) on stdin/stdout.

import (
	"context"
	"fmt"
	"io"
	"net/http"
	"net/http/httptest"
	"net/url"
	"os"
	"path/filepath"
	"regexp"
	"strconv"
	"strings"

	"github.com/folbricht/desync"
	minio "github.com/minio/minio-go/v6"
	"github.com/minio/minio-go/v6/pkg/credentials"
	"github.com/pkg/sftp"
)

func init() {
	// sub-mode: `<vh> C03PULL pull - - - <dir>`: the real ProtocolServer over a content-trusting
	// store, on stdin/stdout (started by RemoteSSH through the fake ssh)
	if len(os.Args) > 6 && os.Args[1] == "C03PULL" {
		if os.Getenv("VH_C03_DIGEST") == "sha256" {
			desync.Digest = desync.SHA256{}
		}
		desync.NewProtocolServer(os.Stdin, os.Stdout, &c03ForeignStore{dir: os.Args[6]}).Serve(context.Background())
		os.Exit(0)
	}
	// sub-mode: `<vh> C03PEER pull - - - <dir>`: a scripted casync peer on stdin/stdout.  It answers
	// a request for <id> with the CHUNK message whose body is the file <dir>/<id>.ans (flags |
	// chunk id | data, whatever the script says), and with MISSING when there is no such file.
	if len(os.Args) > 6 && os.Args[1] == "C03PEER" {
		p := desync.NewProtocol(os.Stdin, os.Stdout)
		if _, err := p.Initialize(desync.CaProtocolReadableStore); err != nil {
			os.Exit(1)
		}
		for {
			m, err := p.ReadMessage()
			if err != nil || m.Type != desync.CaProtocolRequest || len(m.Body) < 40 {
				os.Exit(0)
			}
			var id desync.ChunkID
			copy(id[:], m.Body[8:40])
			body, err := os.ReadFile(filepath.Join(os.Args[6], id.String()+".ans"))
			if err != nil {
				if p.SendMissing(id) != nil {
					os.Exit(0)
				}
				continue
			}
			if p.WriteMessage(desync.Message{Type: desync.CaProtocolChunk, Body: body}) != nil {
				os.Exit(0)
			}
		}
	}
	// sub-mode: SFTP server over stdio (started through the fake ssh)
	if len(os.Args) > 1 && os.Args[1] == "C03SFTP" {
		srv, err := sftp.NewServer(struct {
			io.Reader
			io.WriteCloser
		}{os.Stdin, os.Stdout})
		if err != nil {
			os.Exit(1)
		}
		srv.Serve()
		os.Exit(0)
	}
}

var c03Bucket = regexp.MustCompile(`^/vhc(\d+)b(\d+)/(.*)$`)

func (e *c03Env) s3Available() bool   { return e.s3 != nil }
func (e *c03Env) sftpAvailable() bool { return e.fakeSSH != "" && e.self != "" }

func (e *c03Env) setupS3() {
	e.s3 = httptest.NewServer(http.HandlerFunc(e.serveS3))
}

func s3Error(w http.ResponseWriter, status int, code string) {
	w.Header().Set("Content-Type", "application/xml")
	w.WriteHeader(status)
	fmt.Fprintf(w, `<?xml version="1.0" encoding="UTF-8"?><Error><Code>%s</Code><Message>%s</Message></Error>`, code, code)
}

// minimal S3 endpoint: path-style object GET / HEAD / PUT
func (e *c03Env) serveS3(w http.ResponseWriter, r *http.Request) {
	m := c03Bucket.FindStringSubmatch(r.URL.Path)
	if m == nil {
		s3Error(w, 404, "NoSuchBucket")
		return
	}
	k, _ := strconv.Atoi(m[2])
	key := m[3]
	if key == "" { // bucket-level request (location, existence)
		if r.URL.Query().Has("location") {
			w.Header().Set("Content-Type", "application/xml")
			fmt.Fprint(w, `<?xml version="1.0" encoding="UTF-8"?><LocationConstraint xmlns="http://s3.amazonaws.com/doc/2006-03-01/"></LocationConstraint>`)
			return
		}
		w.WriteHeader(200)
		return
	}
	p := filepath.Join(e.a.Work, "c"+m[1], "b"+m[2], filepath.FromSlash(key))
	id := strings.TrimSuffix(filepath.Base(key), desync.CompressedChunkExt)
	switch r.Method {
	case "GET", "HEAD":
		if r.Method == "GET" {
			if fl := e.fault("G", k, id); fl != nil {
				switch fl.F {
				case "io", "rd":
					s3Error(w, 403, "AccessDenied") // not retried inside the minio client
					return
				case "rp":
					b := vhUnHex(fl.Arg)
					w.Header().Set("Content-Length", strconv.Itoa(len(b)))
					w.Header().Set("Last-Modified", "Mon, 02 Jan 2006 15:04:05 GMT")
					w.Header().Set("ETag", `"0"`)
					w.WriteHeader(200)
					w.Write(b)
					return
				}
			}
		}
		b, err := os.ReadFile(p)
		if err != nil {
			s3Error(w, 404, "NoSuchKey")
			return
		}
		w.Header().Set("Content-Length", strconv.Itoa(len(b)))
		w.Header().Set("Content-Type", "application/octet-stream")
		w.Header().Set("Last-Modified", "Mon, 02 Jan 2006 15:04:05 GMT")
		w.Header().Set("ETag", `"0"`)
		w.WriteHeader(200)
		if r.Method == "GET" {
			w.Write(b)
		}
	case "PUT":
		b, err := io.ReadAll(r.Body)
		if err != nil {
			s3Error(w, 400, "IncompleteBody")
			return
		}
		if strings.Contains(r.Header.Get("X-Amz-Content-Sha256"), "STREAMING") {
			s3Error(w, 501, "NotImplemented") // signed streaming uploads are not decoded here
			return
		}
		os.MkdirAll(filepath.Dir(p), 0755)
		if fi, err := os.Stat(p); err == nil && fi.IsDir() {
			s3Error(w, 403, "AccessDenied")
			return
		}
		tmp := p + ".s3tmp"
		if err := os.WriteFile(tmp, b, 0644); err != nil {
			s3Error(w, 403, "AccessDenied")
			return
		}
		os.Rename(tmp, p)
		w.Header().Set("ETag", `"0"`)
		w.WriteHeader(200)
	default:
		s3Error(w, 405, "MethodNotAllowed")
	}
}

func vhUnHex(s string) []byte {
	if s == "-" || s == "" {
		return nil
	}
	b := make([]byte, len(s)/2)
	for i := range b {
		v, _ := strconv.ParseUint(s[2*i:2*i+2], 16, 8)
		b[i] = byte(v)
	}
	return b
}

func (e *c03Env) buildS3(n *c03Node, dir string, cleanup *[]func()) (desync.Store, error) {
	if e.s3 == nil {
		return nil, fmt.Errorf("s3 endpoint not available")
	}
	host := strings.TrimPrefix(e.s3.URL, "http://")
	u, _ := url.Parse(fmt.Sprintf("s3+http://%s/vhc%db%d", host, e.caseNo, n.K))
	return desync.NewS3Store(u, credentials.NewStaticV4("", "", ""), "us-east-1", c03Opts(n), minio.BucketLookupPath)
}

func (e *c03Env) buildSFTP(n *c03Node, dir string, cleanup *[]func()) (desync.Store, error) {
	if !e.sftpAvailable() {
		return nil, fmt.Errorf("sftp endpoint not available")
	}
	u, _ := url.Parse("sftp://localhost" + dir + "/")
	return desync.NewSFTPStore(u, c03Opts(n))
}
