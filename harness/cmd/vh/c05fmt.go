package main

// C05: the format-conversion routes -- tar-stream input, gnu-tar output (read back with
// archive/tar, extracted with /bin/tar, re-imported with --input-format tar), mtree output --
// and archives whose root is not a directory.

import (
	gnutar "archive/tar"
	"bytes"
	"crypto/sha256"
	"crypto/sha512"
	"encoding/hex"
	"fmt"
	"io"
	"os"
	"os/exec"
	"path/filepath"
	"strconv"
	"strings"
	"syscall"
	"time"

	"vh/internal/vh"
)

// ---------- tar-stream input ----------

// buildTar writes the source snapshot as a PAX tar stream: "./", "./a", "./a/b" ... in walk order.
func buildTar(srcDir string, src []*c05Ent) ([]byte, error) {
	var buf bytes.Buffer
	w := gnutar.NewWriter(&buf)
	for _, e := range src {
		name := "./"
		if e.Rel != "." {
			name = "./" + e.Rel
		}
		h := &gnutar.Header{Name: name, Mode: int64(e.Mode & 07777), Uid: int(e.UID), Gid: int(e.GID),
			ModTime: time.Unix(e.Sec, e.Nsec), Format: gnutar.FormatPAX}
		var data []byte
		switch e.kind() {
		case "dir":
			h.Typeflag = gnutar.TypeDir
			if e.Rel != "." {
				h.Name += "/"
			}
		case "file":
			h.Typeflag = gnutar.TypeReg
			b, err := os.ReadFile(filepath.Join(srcDir, e.Rel))
			if err != nil {
				return nil, err
			}
			data = b
			h.Size = int64(len(b))
		case "link":
			h.Typeflag = gnutar.TypeSymlink
			h.Linkname = e.Target
		case "chr", "blk":
			h.Typeflag = gnutar.TypeChar
			if e.kind() == "blk" {
				h.Typeflag = gnutar.TypeBlock
			}
			h.Devmajor = int64((e.Rdev >> 8) & 0xfff)
			h.Devminor = int64((e.Rdev & 0xff) | ((e.Rdev >> 12) & 0xfff00))
		case "fifo":
			h.Typeflag = gnutar.TypeFifo
		default:
			continue
		}
		if len(e.Xattrs) > 0 {
			h.PAXRecords = map[string]string{}
			for k, v := range e.Xattrs {
				h.PAXRecords["SCHILY.xattr."+k] = v
			}
		}
		if err := w.WriteHeader(h); err != nil {
			return nil, fmt.Errorf("%q: %v", e.Rel, err)
		}
		if len(data) > 0 {
			if _, err := w.Write(data); err != nil {
				return nil, err
			}
		}
	}
	if err := w.Close(); err != nil {
		return nil, err
	}
	return buf.Bytes(), nil
}

// tarRepresentable: what archive/tar's PAX writer accepts (harness-side limits, not desync's).
func tarRepresentable(src []*c05Ent) bool {
	for _, e := range src {
		for k, v := range e.Xattrs {
			if strings.ContainsAny(k, "=\x00") || v == "" { // a PAX record with an empty value means "unset"
				return false
			}
		}
		if strings.Contains(e.Rel, "\x00") || strings.Contains(e.Target, "\x00") {
			return false
		}
		if e.kind() == "sock" {
			return false
		}
	}
	return true
}

// routeTarIn: the same tree as a tar stream must give the very same catar as the tree on disk.
func (e *c05Env) routeTarIn(tree *c05Node, srcDir string, src []*c05Ent, diskCatar []byte) {
	c := &c05Case{Tree: tree, Route: "tar-in", Digest: "sha512-256", Entries: len(src)}
	if diskCatar == nil || !tarRepresentable(src) {
		return
	}
	tb, err := buildTar(srcDir, src)
	if err != nil {
		e.r.Note("tar-in: archive/tar refuses the tree: %v", err)
		return
	}
	in := e.scratch("in") + ".tar"
	out := e.scratch("fromtar") + ".catar"
	defer os.Remove(in)
	defer os.Remove(out)
	if err := os.WriteFile(in, tb, 0600); err != nil {
		return
	}
	e.r.Count("tar-in|"+treeKey(tree), len(src) > 1)
	if o, err := e.cli(120*time.Second, "tar", "--input-format", "tar", out, in); err != nil {
		c.Detail = short(o)
		e.r.Fail("predicate", "tarin/error", fmt.Sprintf("desync tar --input-format tar fails on a PAX tar of the tree: %v: %s", err, short(o)), c)
		return
	}
	got, _ := os.ReadFile(out)
	if i := c05FirstDiff(got, diskCatar); i >= 0 {
		// unpack it to say what differs
		dst := e.scratch("dsttarin")
		defer c05RemoveAll(dst)
		t0 := time.Now()
		o, err := e.cli(120*time.Second, "untar", out, dst)
		t1 := time.Now()
		c.Detail = fmt.Sprintf("first difference at byte %d of %d/%d", i, len(got), len(diskCatar))
		if err != nil {
			c.Detail += "; untar of it fails: " + short(o)
		} else if d := e.snapshotOrFail(c, dst); d != nil {
			var real []c05Diff
			for _, df := range c05Compare(src, d, c05Opts{t0: t0, t1: t1}) {
				if !strings.HasPrefix(df.Class, "untar/dir-mtime") && df.Class != "untar/symlink-mtime" && df.Class != "untar/mtime-epoch" &&
					df.Class != "tar/mtime-after-2262" {
					real = append(real, df)
				}
			}
			c.Diffs = real
			if len(real) > 5 {
				c.Diffs = real[:5]
			}
		}
		e.r.Fail("predicate", "tarin/archive-differs", "the catar made from a tar stream of the tree differs from the catar made from the tree on disk: "+c.Detail, c)
	}
}

// ---------- gnu-tar output ----------

type tarEnt struct {
	h    *gnutar.Header
	data []byte
}

func readTar(path string) ([]tarEnt, error) {
	f, err := os.Open(path)
	if err != nil {
		return nil, err
	}
	defer f.Close()
	r := gnutar.NewReader(f)
	var out []tarEnt
	for {
		h, err := r.Next()
		if err == io.EOF {
			return out, nil
		}
		if err != nil {
			return out, err
		}
		var b []byte
		if h.Typeflag == gnutar.TypeReg {
			b, err = io.ReadAll(r)
			if err != nil {
				return out, err
			}
		}
		out = append(out, tarEnt{h, b})
	}
}

func tarKind(t byte) string {
	switch t {
	case gnutar.TypeDir:
		return "dir"
	case gnutar.TypeReg:
		return "file"
	case gnutar.TypeSymlink:
		return "link"
	case gnutar.TypeChar:
		return "chr"
	case gnutar.TypeBlock:
		return "blk"
	case gnutar.TypeFifo:
		return "fifo"
	}
	return fmt.Sprintf("type-%c", t)
}

// gnutarClass maps a difference found after a gnu-tar conversion to its class.
func gnutarClass(df c05Diff, s *c05Ent) string {
	switch df.Class {
	case "untar/mode-special-bits":
		return "gnutar/mode-bits"
	case "untar/type":
		if s.kind() == "chr" && df.Got == "blk" {
			return "gnutar/char-device-as-block"
		}
	case "untar/symlink-mtime":
		// the link's time became the epoch in the gnu-tar header, which untar then does not apply at all
		if s.Nsec != 0 && (s.Sec == 0 || s.Sec == -1) {
			return "gnutar/mtime-subsecond"
		}
	case "untar/mtime":
		if s.Nsec != 0 && (df.Got == fmtTime(s.Sec, 0) || df.Got == fmtTime(s.Sec+1, 0)) {
			return "gnutar/mtime-subsecond"
		}
		// rounded to the epoch by the gnu-tar writer, which untar then does not apply at all
		if s.Nsec != 0 && (s.Sec == 0 || s.Sec == -1) { // truncated (GNU headers) or rounded (the device headers, USTAR)
			return "gnutar/mtime-subsecond"
		}
	}
	if strings.HasPrefix(df.Class, "untar/") && !strings.Contains(df.Class, "-mtime") && df.Class != "untar/mtime-epoch" {
		return "gnutar/" + strings.TrimPrefix(df.Class, "untar/")
	}
	return df.Class
}

func (e *c05Env) routeGnuTar(tree *c05Node, srcDir string, src []*c05Ent, catar string, deep bool) {
	c := &c05Case{Tree: tree, Route: "gnu-tar", Digest: "sha512-256", Entries: len(src)}
	out := e.scratch("out") + ".tar"
	defer os.Remove(out)
	e.r.Count("gnu-tar|"+treeKey(tree), len(src) > 1)
	hasX := false
	for _, s := range src {
		if len(s.Xattrs) > 0 && s.kind() != "fifo" {
			hasX = true
		}
	}
	if o, err := e.cli(120*time.Second, "untar", "--output-format", "gnu-tar", catar, out); err != nil {
		c.Detail = short(o)
		cl := "gnutar/error"
		if hasX && (strings.Contains(o, "Xattrs") || strings.Contains(o, "PAX record")) {
			cl = "gnutar/xattrs-unsupported"
		}
		e.r.Fail("predicate", cl, fmt.Sprintf("desync untar --output-format gnu-tar fails: %s", short(o)), c)
		return
	}
	ents, err := readTar(out)
	if err != nil {
		c.Detail = err.Error()
		e.r.Fail("predicate", "gnutar/unreadable", "archive/tar cannot read the gnu-tar output: "+err.Error(), c)
		return
	}
	// header by header against the source
	sm := map[string]*c05Ent{}
	var want []*c05Ent
	for _, s := range src {
		sm[s.Rel] = s
		if k := s.kind(); k != "fifo" && k != "sock" {
			want = append(want, s)
		}
	}
	var diffs []c05Diff
	add := func(s *c05Ent, field, w, g, class string) {
		diffs = append(diffs, c05Diff{Path: hex.EncodeToString([]byte(s.Rel)), Kind: s.kind(), Field: field, Want: w, Got: g, Class: class})
	}
	if len(ents) != len(want) {
		c.Detail = fmt.Sprintf("%d headers for %d archived entries", len(ents), len(want))
		e.r.Fail("predicate", "gnutar/entries", "gnu-tar output has a different number of entries: "+c.Detail, c)
		return
	}
	for i, te := range ents {
		s := want[i]
		h := te.h
		if filepath.Clean(h.Name) != s.Rel {
			add(s, "name", s.Rel, h.Name, "gnutar/name")
			continue
		}
		if k := tarKind(h.Typeflag); k != s.kind() {
			cl := "gnutar/type"
			if s.kind() == "chr" && k == "blk" {
				cl = "gnutar/char-device-as-block"
			}
			add(s, "type", s.kind(), k, cl)
		}
		if uint32(h.Mode) != s.Mode&07777 || h.Mode>>32 != 0 {
			cl := "gnutar/mode"
			if uint32(h.Mode)&0777 == s.Mode&0777 {
				cl = "gnutar/mode-bits"
			}
			add(s, "mode", fmt.Sprintf("%04o", s.Mode&07777), fmt.Sprintf("%o", h.Mode), cl)
		}
		if uint32(h.Uid) != s.UID || uint32(h.Gid) != s.GID {
			add(s, "owner", fmt.Sprintf("%d:%d", s.UID, s.GID), fmt.Sprintf("%d:%d", h.Uid, h.Gid), "gnutar/owner")
		}
		if s.kind() == "file" {
			if sum := sha256.Sum256(te.data); sum != s.Sum || h.Size != s.Size {
				add(s, "content", fmt.Sprintf("%d bytes", s.Size), fmt.Sprintf("%d bytes", h.Size), "gnutar/content")
			}
		}
		if s.kind() == "link" && h.Linkname != s.Target {
			add(s, "target", hex.EncodeToString([]byte(s.Target)), hex.EncodeToString([]byte(h.Linkname)), "gnutar/symlink-target")
		}
		if k := s.kind(); k == "chr" || k == "blk" {
			maj, min := (s.Rdev>>8)&0xfff, (s.Rdev&0xff)|((s.Rdev>>12)&0xfff00)
			if uint64(h.Devmajor) != maj || uint64(h.Devminor) != min {
				add(s, "rdev", fmt.Sprintf("%d,%d", maj, min), fmt.Sprintf("%d,%d", h.Devmajor, h.Devminor), "gnutar/device-number")
			}
		}
		if nsFits(s.Sec) {
			hs, hn := h.ModTime.Unix(), int64(h.ModTime.Nanosecond())
			if hs != s.Sec || hn != s.Nsec {
				cl := "gnutar/mtime"
				if hn == 0 && s.Nsec != 0 && (hs == s.Sec || hs == s.Sec+1) { // archive/tar rounds to the nearest second
					cl = "gnutar/mtime-subsecond"
				}
				add(s, "mtime", fmtTime(s.Sec, s.Nsec), fmtTime(hs, hn), cl)
			}
		}
	}
	e.report(c, diffs)
	if !deep {
		return
	}
	// /bin/tar extracts it
	if bin, err := exec.LookPath("tar"); err == nil {
		cc := *c
		cc.Route = "gnu-tar-bin"
		dst := e.scratch("dstbintar")
		os.Mkdir(dst, 0700)
		cmd := exec.Command(bin, "-x", "-p", "--same-owner", "--numeric-owner", "--delay-directory-restore", "-f", out, "-C", dst)
		var eb bytes.Buffer
		cmd.Stderr = &eb
		e.r.Count("gnu-tar-bin|"+treeKey(tree), len(src) > 1)
		t0 := time.Now()
		err := cmd.Run()
		t1 := time.Now()
		if err != nil {
			cc.Detail = short(eb.String())
			e.r.Fail("predicate", "gnutar/bin-tar-error", "/bin/tar fails on the gnu-tar output: "+short(eb.String()), &cc)
		} else if d := e.snapshotOrFail(&cc, dst); d != nil {
			var ds []c05Diff
			for _, df := range c05Compare(src, d, c05Opts{t0: t0, t1: t1}) {
				p, _ := hex.DecodeString(df.Path)
				if string(p) == "." && df.Field != "mode" { // tar does not restore the owner/time of the directory it extracts into
					continue
				}
				if df.Class == "untar/symlink-mtime" || df.Class == "untar/dir-mtime" || df.Class == "untar/mtime-epoch" {
					// /bin/tar does restore these; a difference here is about seconds only
					s := sm[string(p)]
					if s != nil && s.Nsec != 0 && (df.Got == fmtTime(s.Sec, 0) || df.Got == fmtTime(s.Sec+1, 0)) {
						df.Class = "gnutar/mtime-subsecond"
					} else {
						df.Class = "gnutar/mtime"
					}
					ds = append(ds, df)
					continue
				}
				df.Class = gnutarClass(df, sm[string(p)])
				ds = append(ds, df)
			}
			e.report(&cc, ds)
		}
		c05RemoveAll(dst)
	}
	// and desync takes it back: catar -> gnu-tar -> catar -> disk
	{
		cc := *c
		cc.Route = "gnu-tar-reimport"
		back := e.scratch("back") + ".catar"
		defer os.Remove(back)
		e.r.Count("gnu-tar-reimport|"+treeKey(tree), len(src) > 1)
		if o, err := e.cli(120*time.Second, "tar", "--input-format", "tar", back, out); err != nil {
			cc.Detail = short(o)
			e.r.Fail("predicate", "gnutar/reimport-error", "desync tar --input-format tar fails on desync's own gnu-tar output: "+short(o), &cc)
			return
		}
		dst := e.scratch("dstback")
		defer c05RemoveAll(dst)
		t0 := time.Now()
		o, err := e.cli(120*time.Second, "untar", back, dst)
		t1 := time.Now()
		if err != nil {
			cc.Detail = short(o)
			e.r.Fail("predicate", "gnutar/reimport-error", "desync untar fails on the re-imported archive: "+short(o), &cc)
			return
		}
		if d := e.snapshotOrFail(&cc, dst); d != nil {
			var ds []c05Diff
			for _, df := range c05Compare(src, d, c05Opts{t0: t0, t1: t1}) {
				p, _ := hex.DecodeString(df.Path)
				df.Class = gnutarClass(df, sm[string(p)])
				ds = append(ds, df)
			}
			e.report(&cc, ds)
		}
	}
}

// ---------- mtree output ----------

func mtreeUnescape(s string) string {
	var b strings.Builder
	for i := 0; i < len(s); i++ {
		if s[i] == '\\' && i+4 <= len(s) {
			if v, err := strconv.ParseUint(s[i+1:i+4], 8, 8); err == nil {
				b.WriteByte(byte(v))
				i += 3
				continue
			}
		}
		b.WriteByte(s[i])
	}
	return b.String()
}

func (e *c05Env) routeMtree(tree *c05Node, srcDir string, src []*c05Ent, catar string, digest string) {
	c := &c05Case{Tree: tree, Route: "mtree", Digest: digest, Entries: len(src)}
	e.r.Count("mtree|"+digest+"|"+treeKey(tree), len(src) > 1)
	pre := []string{}
	if digest != "sha512-256" {
		pre = []string{"--digest", digest}
	}
	// stderr is kept apart: only stdout is the listing
	ctxArgs := append(pre, "mtree", catar)
	cmd := exec.Command(e.desync, ctxArgs...)
	var ob, eb bytes.Buffer
	cmd.Stdout, cmd.Stderr = &ob, &eb
	if err := cmd.Run(); err != nil {
		c.Detail = short(eb.String())
		e.r.Fail("predicate", "mtree/error", "desync mtree fails: "+short(eb.String()), c)
		return
	}
	lines := strings.Split(strings.TrimRight(ob.String(), "\n"), "\n")
	if len(lines) == 0 || lines[0] != "#mtree v1.0" {
		e.r.Fail("predicate", "mtree/header", "mtree output does not start with #mtree v1.0", c)
		return
	}
	lines = lines[1:]
	var want []*c05Ent
	for _, s := range src {
		if k := s.kind(); k != "fifo" && k != "sock" {
			want = append(want, s)
		}
	}
	if len(lines) != len(want) {
		c.Detail = fmt.Sprintf("%d lines for %d archived entries", len(lines), len(want))
		e.r.Fail("predicate", "mtree/entries", "mtree output has a different number of entries: "+c.Detail, c)
		return
	}
	var diffs []c05Diff
	add := func(s *c05Ent, field, w, g, class string) {
		diffs = append(diffs, c05Diff{Path: hex.EncodeToString([]byte(s.Rel)), Kind: s.kind(), Field: field, Want: w, Got: g, Class: class})
	}
	for i, ln := range lines {
		s := want[i]
		// the name ends at the first space (spaces inside names are escaped? no: only \, #, <32, >126) --
		// so split at the " type=" keyword instead
		k := strings.Index(ln, " type=")
		if k < 0 {
			add(s, "line", "a type= keyword", ln, "mtree/syntax")
			continue
		}
		name := mtreeUnescape(ln[:k])
		if name != s.Rel {
			add(s, "name", s.Rel, name, "mtree/name")
			continue
		}
		rest := ln[k+1:]
		kv := map[string]string{}
		// values may contain spaces (link targets, the %9d padding): cut at the known keywords
		keys := []string{"type=", "mode=", "target=", "uid=", "gid=", "size=", "time=", "sha512256digest=", "sha256digest="}
		pos := []int{}
		for _, key := range keys {
			for off := 0; ; {
				j := strings.Index(rest[off:], key)
				if j < 0 {
					break
				}
				j += off
				if j == 0 || rest[j-1] == ' ' {
					pos = append(pos, j)
				}
				off = j + 1
			}
		}
		sortInts(pos)
		for pi, p := range pos {
			end := len(rest)
			if pi+1 < len(pos) {
				end = pos[pi+1] - 1
			}
			seg := rest[p:end]
			eq := strings.IndexByte(seg, '=')
			if _, dup := kv[seg[:eq]]; !dup {
				kv[seg[:eq]] = seg[eq+1:]
			}
		}
		wantType := map[string]string{"dir": "dir", "file": "file", "link": "link", "chr": "char", "blk": "block"}[s.kind()]
		if kv["type"] != wantType {
			cl := "mtree/type"
			if s.kind() == "chr" && kv["type"] == "block" {
				cl = "mtree/char-device-as-block"
			}
			add(s, "type", wantType, kv["type"], cl)
		}
		if s.kind() != "link" {
			if wm := fmt.Sprintf("%04o", s.Mode&07777); kv["mode"] != wm {
				cl := "mtree/mode"
				if kv["mode"] == fmt.Sprintf("%04o", s.Mode&0777) {
					cl = "mtree/mode-bits"
				}
				add(s, "mode", wm, kv["mode"], cl)
			}
		}
		if kv["uid"] != strconv.FormatUint(uint64(s.UID), 10) || kv["gid"] != strconv.FormatUint(uint64(s.GID), 10) {
			add(s, "owner", fmt.Sprintf("%d:%d", s.UID, s.GID), kv["uid"]+":"+kv["gid"], "mtree/owner")
		}
		if nsFits(s.Sec) {
			wt := fmt.Sprintf("%d.%09d", s.Sec, s.Nsec)
			if kv["time"] != wt {
				cl := "mtree/time"
				if strings.ReplaceAll(kv["time"], " ", "0") == wt || kv["time"] == fmt.Sprintf("%d.%9d", s.Sec, s.Nsec) {
					cl = "mtree/time-padding"
				}
				add(s, "time", wt, kv["time"], cl)
			}
		}
		switch s.kind() {
		case "file":
			if kv["size"] != strconv.FormatInt(s.Size, 10) {
				add(s, "size", strconv.FormatInt(s.Size, 10), kv["size"], "mtree/size")
			}
			b, err := os.ReadFile(filepath.Join(srcDir, s.Rel))
			if err == nil {
				if digest == "sha256" {
					sum := sha256.Sum256(b)
					if kv["sha256digest"] != hex.EncodeToString(sum[:]) {
						add(s, "digest", hex.EncodeToString(sum[:8]), kv["sha256digest"], "mtree/digest")
					}
				} else {
					sum := sha512.Sum512_256(b)
					if kv["sha512256digest"] != hex.EncodeToString(sum[:]) {
						add(s, "digest", hex.EncodeToString(sum[:8]), kv["sha512256digest"], "mtree/digest")
					}
				}
			}
		case "link":
			if mtreeUnescape(kv["target"]) != s.Target {
				add(s, "target", hex.EncodeToString([]byte(s.Target)), hex.EncodeToString([]byte(mtreeUnescape(kv["target"]))), "mtree/link-target")
			}
		}
	}
	e.report(c, diffs)
}

func sortInts(a []int) {
	for i := 1; i < len(a); i++ {
		for j := i; j > 0 && a[j-1] > a[j]; j-- {
			a[j-1], a[j] = a[j], a[j-1]
		}
	}
}

// ---------- archives whose root is not a directory ----------

func (e *c05Env) routeRootKinds(rngSeed uint64) {
	// the property is about directory trees; a regular file as the root is the one other case tar accepts and
	// untar gives back (a symlink or device root decodes to nothing: a fact of the model, not judged here)
	for _, kind := range []string{"file"} {
		g := e.newGen(vh.NewRand(rngSeed), 1, 1, 1000)
		g.future, g.epochs, g.fifos = false, false, false
		n := &c05Node{Name: hex.EncodeToString([]byte("obj")), Kind: kind}
		g.attrs(n)
		switch kind {
		case "file":
			n.Size, n.DataSeed = 300, rngSeed
		case "link":
			n.Target = hex.EncodeToString([]byte("some/target"))
			n.Xattrs = nil
		case "chr":
			n.Major, n.Minor = 1, 3
		}
		if !e.root {
			n.UID, n.GID = uint32(os.Geteuid()), uint32(os.Getegid())
		}
		dir := e.scratch("rootkind")
		os.Mkdir(dir, 0700)
		obj := filepath.Join(dir, "obj")
		c := &c05Case{Tree: n, Route: "root-" + kind, Digest: "sha512-256", Entries: 1}
		if err := c05Materialise(obj, n); err != nil {
			e.r.Note("root-%s: %v", kind, err)
			c05RemoveAll(dir)
			continue
		}
		src, err := c05Snapshot(obj, false)
		if err != nil {
			c05RemoveAll(dir)
			continue
		}
		e.r.Count("root|"+kind, true)
		cat := filepath.Join(dir, "r.catar")
		out := filepath.Join(dir, "out")
		if o, err := e.cli(60*time.Second, "tar", cat, obj); err != nil {
			c.Detail = short(o)
			e.r.Fail("predicate", "tar/error", "desync tar fails on a "+kind+" given as the root: "+short(o), c)
			c05RemoveAll(dir)
			continue
		}
		t0 := time.Now()
		o, err := e.cli(60*time.Second, "untar", cat, out)
		t1 := time.Now()
		if err != nil {
			c.Detail = short(o)
			e.r.Fail("predicate", "untar/error", "desync untar fails on an archive whose root is a "+kind+": "+short(o), c)
		} else if _, serr := os.Lstat(out); serr != nil {
			e.r.Fail("predicate", "untar/root-not-restored", "desync untar reports success on an archive whose root is a "+kind+" but creates nothing", c)
		} else if d := e.snapshotOrFail(c, out); d != nil {
			e.report(c, c05Compare(src, d, c05Opts{t0: t0, t1: t1}))
		}
		c05RemoveAll(dir)
	}
}

var _ = syscall.S_IFMT

// routeXattrOrder: the same attributes set in two different orders give the same archive.
func (e *c05Env) routeXattrOrder(seed uint64) {
	if !e.xattrs {
		return
	}
	r := vh.NewRand(seed)
	keys := []string{"user.b", "user.a", "user.c", "user.B", "user.a.b", "user.aa", "user.\xffz"}
	n := 2 + r.Intn(len(keys)-1)
	keys = keys[:n]
	var cats [2][]byte
	for v := 0; v < 2; v++ {
		dir := e.scratch("xo")
		os.Mkdir(dir, 0700)
		root := filepath.Join(dir, "root")
		os.Mkdir(root, 0755)
		f := filepath.Join(root, "f")
		os.WriteFile(f, []byte("content"), 0644)
		order := make([]int, n)
		for i := range order {
			order[i] = i
			if v == 1 {
				order[i] = n - 1 - i
			}
		}
		for _, target := range []string{f, root} {
			for _, i := range order {
				if err := lsetxattr(target, keys[i], []byte(fmt.Sprintf("v%d", i))); err != nil {
					e.r.Note("xattr-order: %v", err)
				}
			}
		}
		lutimens(f, 1000, 5)
		lutimens(root, 2000, 6)
		cat := filepath.Join(dir, "x.catar")
		if o, err := e.cli(60*time.Second, "tar", cat, root); err != nil {
			e.r.Note("xattr-order: tar fails: %s", short(o))
		}
		cats[v], _ = os.ReadFile(cat)
		c05RemoveAll(dir)
	}
	e.r.Count(fmt.Sprintf("xattr-order|%d", n), true)
	if i := c05FirstDiff(cats[0], cats[1]); i >= 0 || len(cats[0]) == 0 {
		e.r.Fail("predicate", "tar/not-deterministic", fmt.Sprintf("the same %d xattrs set in opposite orders give different archives (first difference at byte %d)", n, i),
			map[string]interface{}{"route": "xattr-order", "keys": keys})
	}
}

// routeTarShuffle: tar streams that are not a walk -- root entry or directory entries missing,
// neighbours swapped.  There is no property to check on such input; what is checked is that the
// model of tar()'s stream logic (fsBufReader, path.Dir(f.Path) == dir) writes the same bytes.
func (e *c05Env) routeTarShuffle(tree *c05Node, srcDir string, src []*c05Ent, r *vh.Rand) {
	if e.o == nil || !tarRepresentable(src) || len(src) < 3 {
		return
	}
	for _, s := range src {
		if s.Data == nil && s.kind() == "file" && s.Size > 0 {
			return // large tree: contents were not kept
		}
	}
	ents := append([]*c05Ent{}, src...)
	kind := r.Intn(4)
	switch kind {
	case 0: // no root entry
		ents = ents[1:]
	case 1: // a directory entry is missing
		var dirs []int
		for i, s := range ents {
			if i > 0 && s.kind() == "dir" {
				dirs = append(dirs, i)
			}
		}
		if len(dirs) == 0 {
			return
		}
		i := dirs[r.Intn(len(dirs))]
		ents = append(ents[:i:i], ents[i+1:]...)
	case 2: // two neighbours swapped
		i := 1 + r.Intn(len(ents)-2)
		ents[i], ents[i+1] = ents[i+1], ents[i]
	default: // a rotation of everything below the root
		k := 1 + r.Intn(len(ents)-1)
		rest := append(append([]*c05Ent{}, ents[k:]...), ents[1:k]...)
		ents = append(ents[:1:1], rest...)
	}
	c := &c05Case{Tree: tree, Route: fmt.Sprintf("tar-shuffle-%d", kind), Digest: "sha512-256", Entries: len(ents)}
	tb, err := buildTar(srcDir, ents)
	if err != nil {
		return
	}
	in := e.scratch("shuf") + ".tar"
	out := e.scratch("shuf") + ".catar"
	defer os.Remove(in)
	defer os.Remove(out)
	os.WriteFile(in, tb, 0600)
	o, cerr := e.cli(120*time.Second, "tar", "--input-format", "tar", out, in)
	m, ok, err := e.modelTar(ents)
	if err != nil {
		e.r.Note("oracle: %v", err)
		return
	}
	e.r.Corr()
	e.r.Dist(fmt.Sprintf("tar-shuffle:%d", kind))
	switch {
	case cerr != nil && ok:
		c.Detail = short(o)
		e.r.Fail("corr", "corr:C05/tar-stream-order", "desync tar --input-format tar fails on a reordered stream the model encodes: "+short(o), c)
	case cerr == nil && !ok:
		e.r.Fail("corr", "corr:C05/tar-stream-order", "the model has no archive for a reordered stream the implementation encodes", c)
	case cerr == nil && ok:
		got, _ := os.ReadFile(out)
		if i := c05FirstDiff(got, m); i >= 0 {
			c.Detail = fmt.Sprintf("first difference at byte %d of %d/%d", i, len(got), len(m))
			e.r.Fail("corr", "corr:C05/tar-stream-order", "archive of a reordered tar stream differs from the model of tar(): "+c.Detail, c)
		}
	}
}

// routeFifoClean: fifos and sockets are outside the property; what is checked is that they are left out
// cleanly: the archive of the tree equals the archive of the same tree without them.
func (e *c05Env) routeFifoClean(tree *c05Node, srcDir string, src []*c05Ent, catar []byte) {
	var fifos []*c05Ent
	for _, s := range src {
		if k := s.kind(); k == "fifo" || k == "sock" {
			fifos = append(fifos, s)
		}
	}
	if len(fifos) == 0 || catar == nil {
		return
	}
	c := &c05Case{Tree: tree, Route: "fifo-clean", Digest: "sha512-256", Entries: len(src)}
	sm := map[string]*c05Ent{}
	for _, s := range src {
		sm[s.Rel] = s
	}
	for _, f := range fifos {
		if err := os.Remove(filepath.Join(srcDir, f.Rel)); err != nil {
			e.r.Note("fifo-clean: %v", err)
			return
		}
	}
	// removing an entry touched its directory: put the times back
	for _, f := range fifos {
		d := filepath.Dir(f.Rel)
		if p := sm[d]; p != nil {
			lutimens(filepath.Join(srcDir, d), p.Sec, p.Nsec)
		}
	}
	out := e.scratch("nofifo") + ".catar"
	defer os.Remove(out)
	e.r.Count("fifo-clean|"+treeKey(tree), true)
	if o, err := e.cli(120*time.Second, "tar", out, srcDir); err != nil {
		c.Detail = short(o)
		e.r.Fail("predicate", "tar/error", "desync tar fails on the tree without its fifos: "+short(o), c)
		return
	}
	got, _ := os.ReadFile(out)
	if i := c05FirstDiff(got, catar); i >= 0 {
		c.Detail = fmt.Sprintf("first difference at byte %d of %d/%d", i, len(catar), len(got))
		e.r.Fail("predicate", "tar/fifo-leaves-traces", "the archive of a tree with fifos differs from the archive of the same tree without them: "+c.Detail, c)
	}
}

// ---------- tar streams that are not grouped by directory ----------
//
// Judged on the implementation alone: every member of the input stream (read here with archive/tar,
// independently of desync) must be in what `desync tar --input-format tar` + `desync untar` produce.
// A refusal (non-zero exit of desync tar) of an ungrouped stream is tolerated: loud, nothing lost silently.

type tarMember struct {
	name string // as in the header
	dir  bool
	data string
	link string // symlink target, verbatim
}

func buildTarSpec(ms []tarMember) []byte {
	var buf bytes.Buffer
	w := gnutar.NewWriter(&buf)
	for _, m := range ms {
		h := &gnutar.Header{Name: m.name, Mode: 0644, ModTime: time.Unix(1000000000, 0), Format: gnutar.FormatPAX}
		switch {
		case m.dir:
			h.Typeflag, h.Mode = gnutar.TypeDir, 0755
		case m.link != "":
			h.Typeflag, h.Mode, h.Linkname = gnutar.TypeSymlink, 0777, m.link
		default:
			h.Typeflag, h.Size = gnutar.TypeReg, int64(len(m.data))
		}
		w.WriteHeader(h)
		if !m.dir && m.link == "" {
			w.Write([]byte(m.data))
		}
	}
	w.Close()
	return buf.Bytes()
}

// tarGrouped says whether a depth-first reader finds every member inside the directory it is in or one of
// its ancestors: the parent of each member is on the stack of open directories.
func tarGrouped(names []string, isDir []bool) bool {
	stack := []string{"."}
	for i, n := range names {
		rel := filepath.Clean(n)
		if rel == "." {
			if i != 0 {
				return false
			}
			continue
		}
		parent := filepath.Dir(rel)
		for len(stack) > 0 && stack[len(stack)-1] != parent {
			stack = stack[:len(stack)-1]
		}
		if len(stack) == 0 {
			return false
		}
		if isDir[i] {
			stack = append(stack, rel)
		}
	}
	return true
}

// tarMembersKept runs the stream through desync and reports the members that are not in the result.
func (e *c05Env) tarMembersKept(c *c05Case, tb []byte, extra ...string) {
	// the members, read independently
	type mem struct {
		rel  string
		kind byte
		sum  [32]byte
		link string
	}
	var ms []mem
	var names []string
	var dirs []bool
	r := gnutar.NewReader(bytes.NewReader(tb))
	for {
		h, err := r.Next()
		if err != nil {
			break
		}
		m := mem{rel: filepath.Clean(h.Name), kind: h.Typeflag, link: h.Linkname}
		if h.Typeflag == gnutar.TypeReg {
			b, _ := io.ReadAll(r)
			m.sum = sha256.Sum256(b)
		}
		names = append(names, h.Name)
		dirs = append(dirs, h.Typeflag == gnutar.TypeDir)
		if h.Typeflag != gnutar.TypeFifo {
			ms = append(ms, m)
		}
	}
	grouped := tarGrouped(names, dirs)
	in := e.scratch("ung") + ".tar"
	cat := e.scratch("ung") + ".catar"
	dst := e.scratch("dstung")
	defer os.Remove(in)
	defer os.Remove(cat)
	defer c05RemoveAll(dst)
	os.WriteFile(in, tb, 0600)
	e.r.Count(fmt.Sprintf("%s|%d|%x", c.Route, len(ms), vhHash(tb)), len(ms) > 1)
	e.r.Dist(fmt.Sprintf("tar-members:grouped=%v", grouped))
	args := append([]string{"tar", "--input-format", "tar"}, extra...)
	if o, err := e.cli(120*time.Second, append(args, cat, in)...); err != nil {
		if grouped {
			c.Detail = short(o)
			e.r.Fail("predicate", "tarin/error", "desync tar --input-format tar fails on a tar stream grouped by directory: "+short(o), c)
		} else {
			e.r.Dist("tar-members:ungrouped-refused")
		}
		return
	}
	if o, err := e.cli(120*time.Second, "untar", cat, dst); err != nil {
		c.Detail = short(o)
		e.r.Fail("predicate", "tarin/untar-error", "desync untar fails on the archive made from a tar stream: "+short(o), c)
		return
	}
	var missing []string
	for _, m := range ms {
		p := filepath.Join(dst, m.rel)
		if m.kind == gnutar.TypeSymlink {
			if t, err := os.Readlink(p); err == nil && t != m.link {
				c.Detail = fmt.Sprintf("member %q: target %q in the tar stream, %q after desync tar --input-format tar + untar", m.rel, m.link, t)
				e.r.Fail("predicate", "tarin/symlink-target", "a symlink of the tar stream comes out with another target: "+c.Detail, c)
				return
			}
		}
		fi, err := os.Lstat(p)
		ok := err == nil
		if ok {
			switch m.kind {
			case gnutar.TypeDir:
				ok = fi.IsDir()
			case gnutar.TypeReg:
				b, rerr := os.ReadFile(p)
				ok = rerr == nil && fi.Mode().IsRegular() && sha256.Sum256(b) == m.sum
			case gnutar.TypeSymlink:
				ok = fi.Mode()&os.ModeSymlink != 0
			}
		}
		if !ok {
			missing = append(missing, m.rel)
		}
	}
	if len(missing) > 0 {
		cl := "tarin/entries-dropped"
		if !grouped {
			cl = "tarin/ungrouped-entries-dropped"
		}
		show := missing
		if len(show) > 8 {
			show = show[:8]
		}
		c.Detail = fmt.Sprintf("members %q (%d of %d missing)", names, len(missing), len(ms))
		if len(c.Detail) > 1500 {
			c.Detail = c.Detail[:1500]
		}
		e.r.Fail("predicate", cl, fmt.Sprintf("desync tar --input-format tar exits 0 but %d of the %d members of the tar stream are not in the archive: %q", len(missing), len(ms), show), c)
	}
}

// routeTarUngroupedFamily: a small fixed family of valid tar streams.
func (e *c05Env) routeTarUngroupedFamily() {
	d := func(n string) tarMember { return tarMember{name: n, dir: true} }
	f := func(n string) tarMember { return tarMember{name: n, data: "content of " + n} }
	fam := map[string][]tarMember{
		// the minimal one: a member of d0 after a member of its parent
		"minimal": {d("./"), d("./d0/"), f("./f1"), f("./d0/f0")},
		// tar -r style appends to d0 between members of the root
		"appended": {d("./"), d("./d0/"), f("./d0/f0"), f("./f1"), f("./f2"), f("./d0/f3"), f("./f4"), f("./f5"), f("./d0/f6"), f("./f7")},
		// sorted by name: "d0.x" sorts between "d0" and "d0/f0"
		"name-sorted": {d("./"), d("./d0/"), f("./d0.x"), f("./d0/f0"), f("./d1")},
		// breadth first
		"breadth-first": {d("./"), d("./a/"), d("./b/"), f("./f"), f("./a/x"), f("./b/y"), d("./a/sub/"), f("./a/sub/z")},
		// controls, grouped: depth first in any sibling order
		"depth-first-reversed": {d("./"), d("./b/"), f("./b/y"), d("./a/"), d("./a/sub/"), f("./a/sub/z"), f("./a/x"), f("./f")},
		"depth-first": {d("./"), d("./a/"), d("./a/sub/"), f("./a/sub/z"), f("./a/x"), d("./b/"), f("./b/y"), f("./f")},
	}
	for _, name := range []string{"minimal", "appended", "name-sorted", "breadth-first", "depth-first-reversed", "depth-first"} {
		c := &c05Case{Route: "tar-members-" + name, Digest: "sha512-256", Entries: len(fam[name])}
		e.tarMembersKept(c, buildTarSpec(fam[name]))
	}
	// symlinks whose targets are not clean paths: kept byte for byte
	{
		ms := []tarMember{d("./"), d("./sub/")}
		for i, t := range c05UncleanTargets {
			ms = append(ms, tarMember{name: fmt.Sprintf("./sub/l%02d", i), link: t})
		}
		ms = append(ms, f("./z"))
		c := &c05Case{Route: "tar-members-symlink-targets", Digest: "sha512-256", Entries: len(ms)}
		e.tarMembersKept(c, buildTarSpec(ms))
	}
	// without a root member, with --tar-add-root
	c := &c05Case{Route: "tar-members-add-root", Digest: "sha512-256", Entries: 4}
	e.tarMembersKept(c, buildTarSpec([]tarMember{d("d0/"), f("f1"), f("d0/f0"), f("f2")}), "--tar-add-root")
}

// routeTarBreadthFirst: the generated tree as a tar stream in breadth-first order (all members of depth 1,
// then depth 2, ...): valid, but not grouped as soon as two directories have children.
func (e *c05Env) routeTarBreadthFirst(tree *c05Node, srcDir string, src []*c05Ent) {
	if !tarRepresentable(src) || len(src) < 4 {
		return
	}
	ents := append([]*c05Ent{}, src...)
	depth := func(s *c05Ent) int {
		if s.Rel == "." {
			return 0
		}
		return strings.Count(s.Rel, "/") + 1
	}
	for i := 1; i < len(ents); i++ { // stable insertion sort by depth
		for j := i; j > 0 && depth(ents[j-1]) > depth(ents[j]); j-- {
			ents[j-1], ents[j] = ents[j], ents[j-1]
		}
	}
	tb, err := buildTar(srcDir, ents)
	if err != nil {
		return
	}
	c := &c05Case{Tree: tree, Route: "tar-members-breadth-first-tree", Digest: "sha512-256", Entries: len(ents)}
	e.tarMembersKept(c, tb)
}
