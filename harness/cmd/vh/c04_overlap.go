package main

// C04, overlapping reads through the HTTP index server: GetIndex(name) returns the index stored under
// THAT name also while another GET is being answered.  The real HTTPIndexHandler on a local store
// serves a.caibx and b.caibx (different indexes of the same size); the ResponseWriter handed to the
// handler for a.caibx holds the body back -- the handler has produced it and called Write -- until
// GetIndex(b.caibx) has been answered several times; then a's body goes out.  Run with GOMAXPROCS(1)
// (one scheduler: buffers recycled by one request are what the next one gets) and with the default.

import (
	"fmt"
	"net/http"
	"net/http/httptest"
	"net/url"
	"os"
	"runtime"
	"sync"
	"time"

	"github.com/folbricht/desync"

	"vh/internal/vh"
)

type c04Overlap struct {
	Kind   string  `json:"kind"` // "overlap"
	Digest string  `json:"digest"`
	A      c04Step `json:"index_a"`
	B      c04Step `json:"index_b"`
	Procs  int     `json:"gomaxprocs"` // 0: leave as it is
	What   string  `json:"what,omitempty"`
}

type c04HoldWriter struct {
	http.ResponseWriter
	blocked chan struct{}
	release chan struct{}
	once    sync.Once
}

func (w *c04HoldWriter) Write(p []byte) (int, error) {
	w.once.Do(func() {
		close(w.blocked)
		select {
		case <-w.release:
		case <-time.After(20 * time.Second):
		}
	})
	return w.ResponseWriter.Write(p)
}

func c04RunOverlap(a vh.Args, r *vh.Result, c *c04Overlap) error {
	c04SetDigest(c.Digest)
	if c.Procs > 0 {
		defer runtime.GOMAXPROCS(runtime.GOMAXPROCS(c.Procs))
	}
	dir, err := os.MkdirTemp(a.Work, "overlap")
	if err != nil {
		return err
	}
	local, err := desync.NewLocalIndexStore(dir)
	if err != nil {
		return err
	}
	idxA, idxB := c04BuildIndex(c.A.asCase(c.Digest)), c04BuildIndex(c.B.asCase(c.Digest))
	if err := local.StoreIndex("a.caibx", idxA); err != nil {
		return err
	}
	if err := local.StoreIndex("b.caibx", idxB); err != nil {
		return err
	}
	real := desync.NewHTTPIndexHandler(local, false, "")
	blocked, release := make(chan struct{}), make(chan struct{})
	var first sync.Once
	srv := httptest.NewServer(http.HandlerFunc(func(w http.ResponseWriter, req *http.Request) {
		if req.Method == "GET" && req.URL.Path == "/a.caibx" {
			hold := false
			first.Do(func() { hold = true })
			if hold {
				w = &c04HoldWriter{ResponseWriter: w, blocked: blocked, release: release}
			}
		}
		real.ServeHTTP(w, req)
	}))
	defer srv.Close()
	u, _ := url.Parse(srv.URL + "/")
	remote, err := desync.NewRemoteHTTPIndexStore(u, desync.StoreOptions{})
	if err != nil {
		return err
	}
	r.Count(fmt.Sprintf("overlap|%s|%d|%d|%s", c.Digest, len(c.A.Rows), c.Procs, c.A.Rows[0].ID[:8]), true)
	r.Dist(fmt.Sprintf("overlap:gomaxprocs=%d", c.Procs))
	fail := func(class, what string) {
		cc := *c
		cc.What = what
		r.Fail("predicate", class, fmt.Sprintf("overlapping GETs on the HTTP index server (GOMAXPROCS %d, %d-chunk indexes): %s", c.Procs, len(c.A.Rows), what), &cc)
	}
	type res struct {
		idx desync.Index
		err error
	}
	done := make(chan res, 1)
	go func() {
		i, err := remote.GetIndex("a.caibx")
		done <- res{i, err}
	}()
	select {
	case <-blocked:
	case <-time.After(20 * time.Second):
		close(release)
		return fmt.Errorf("the handler never wrote the body of a.caibx")
	}
	for k := 0; k < 4; k++ {
		gotB, err := remote.GetIndex("b.caibx")
		if err != nil || c04IndexString(gotB) != c04IndexString(idxB) {
			fail("store/http-get-wrong-index", fmt.Sprintf("GetIndex(b.caibx) while a.caibx is being sent: err=%v, the index of b.caibx returned: %v", err, err == nil && c04IndexString(gotB) == c04IndexString(idxB)))
			break
		}
	}
	close(release)
	ra := <-done
	switch {
	case ra.err != nil:
		fail("store/http-get-overlap-error", fmt.Sprintf("GetIndex(a.caibx) failed: %v", ra.err))
	case c04IndexString(ra.idx) == c04IndexString(idxB):
		fail("store/http-get-wrong-index", "GetIndex(a.caibx) succeeded with the table of b.caibx")
	case c04IndexString(ra.idx) != c04IndexString(idxA):
		fail("store/http-get-wrong-index", "GetIndex(a.caibx) returned an index that is not the one stored under a.caibx")
	}
	return nil
}

func c04Overlaps(a vh.Args, r *vh.Result, rng *vh.Rand) error {
	n := 3
	if a.Tier == "thorough" {
		n = 20
	}
	for t := 0; t < n; t++ {
		nrows := []int{3, 40, 1, 150}[t%4]
		digest := []string{"sha256", "sha512-256"}[t%2]
		for _, procs := range []int{1, 0} {
			c := &c04Overlap{Kind: "overlap", Digest: digest, A: c04GenStep(rng, digest, nrows), B: c04GenStep(rng, digest, nrows), Procs: procs}
			if err := c04RunOverlap(a, r, c); err != nil {
				return err
			}
		}
	}
	return nil
}
