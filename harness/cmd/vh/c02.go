package main

import (
	"bytes"
	"context"
	"fmt"
	"io"
	"os"
	"path/filepath"
	"runtime"
	"strconv"
	"strings"
	"sync/atomic"
	"time"

	"github.com/folbricht/desync"

	"vh/internal/vh"
)

func init() { props["C02"] = runC02 }

type c02Case struct {
	ZeroEvery int    `json:"empty_read_every,omitempty"` // seq cases: every k-th Read returns (0, nil)
	Rows      int    `json:"rows,omitempty"`             // stream cases: about this many chunks, hashing of a few held back
	Kind      string `json:"kind"`                       // seq | par | stream | trace
	BlobHex   string `json:"blob_hex"`
	Min       uint64 `json:"min"`
	Avg       uint64 `json:"avg"`
	Max       uint64 `json:"max"`
	Frags     []int  `json:"frags,omitempty"`
	Eager     bool   `json:"eager_eof,omitempty"`
	N         int    `json:"n,omitempty"`
	Sched     uint64 `json:"sched_seed,omitempty"`
	Shape     string `json:"shape"`
	Got       string `json:"impl,omitempty"`
	Want      string `json:"expected,omitempty"`
}

// fragReader mirrors Model/Chunker.v read1: the k-th Read returns at most
// max(1,frags[k]) bytes (whole request when frags are exhausted); eager: the
// Read that returns the last bytes also returns io.EOF.
type fragReader struct {
	data  []byte
	frags []int
	eager bool
	// zeroEvery > 0: every zeroEvery-th call returns (0, nil) while data remains -- legal for an
	// io.Reader ("nothing happened"); such a read is a stutter step and not part of the model's reads
	zeroEvery int
	calls     int
}

func (r *fragReader) Read(p []byte) (int, error) {
	if len(r.data) == 0 {
		return 0, io.EOF
	}
	r.calls++
	if r.zeroEvery > 0 && r.calls%r.zeroEvery == 0 {
		return 0, nil
	}
	want := len(p)
	if len(r.frags) > 0 {
		f := r.frags[0]
		r.frags = r.frags[1:]
		if f < 1 {
			f = 1
		}
		if f < want {
			want = f
		}
	}
	if want > len(r.data) {
		want = len(r.data)
	}
	copy(p, r.data[:want])
	r.data = r.data[want:]
	if r.eager && len(r.data) == 0 {
		return want, io.EOF
	}
	return want, nil
}

type span struct{ start, size uint64 }

func seqChunks(rd io.Reader, min, avg, max uint64) ([]span, [][]byte, error) {
	c, err := desync.NewChunker(rd, min, avg, max)
	if err != nil {
		return nil, nil, err
	}
	var out []span
	var data [][]byte
	for {
		start, b, err := c.Next()
		if err != nil {
			return nil, nil, err
		}
		if len(b) == 0 {
			break
		}
		out = append(out, span{start, uint64(len(b))})
		data = append(data, append([]byte{}, b...))
	}
	return out, data, nil
}

func spansStr(s []span) string {
	if len(s) == 0 {
		return "-"
	}
	parts := make([]string, len(s))
	for i, x := range s {
		parts[i] = fmt.Sprintf("%d:%d", x.start, x.size)
	}
	return strings.Join(parts, ",")
}

func sizesStr(s []span) string {
	if len(s) == 0 {
		return "-"
	}
	parts := make([]string, len(s))
	for i, x := range s {
		parts[i] = strconv.FormatUint(x.size, 10)
	}
	return strings.Join(parts, ",")
}

// property predicate on a chunk sequence: tiles the blob, sizes within bounds
func c02Bounds(spans []span, blobLen int, min, max uint64) string {
	var off uint64
	for i, s := range spans {
		if s.start != off {
			return fmt.Sprintf("chunk %d starts at %d, expected %d (gap or overlap)", i, s.start, off)
		}
		if s.size > max {
			return fmt.Sprintf("chunk %d has %d bytes > max %d", i, s.size, max)
		}
		if s.size == 0 {
			return fmt.Sprintf("chunk %d is empty", i)
		}
		if i < len(spans)-1 && s.size < min {
			return fmt.Sprintf("chunk %d (not the last) has %d bytes < min %d", i, s.size, min)
		}
		off += s.size
	}
	if off != uint64(blobLen) {
		return fmt.Sprintf("chunks cover %d bytes of %d", off, blobLen)
	}
	return ""
}

func c02Blob(rng *vh.Rand, min, max uint64, n int) ([]byte, string) {
	// sizes around multiples of min / max / size/n, plus 0 and 1
	var size int
	switch rng.Intn(8) {
	case 0:
		size = rng.Intn(3)
	case 1:
		size = int(min) + rng.Intn(3) - 1
	case 2:
		size = int(max)*(1+rng.Intn(6)) + rng.Intn(3) - 1
	case 3:
		size = int(max)*n + rng.Intn(5) - 2
	default:
		size = rng.Intn(int(max) * 40)
	}
	if size < 0 {
		size = 0
	}
	shape := rng.Intn(10)
	switch {
	case shape == 0:
		return make([]byte, size), "zero"
	case shape <= 4:
		// zero runs of several max bytes at alignments relative to size/n
		b := rng.Bytes(size)
		runs := 1 + rng.Intn(4)
		for k := 0; k < runs && size > 0; k++ {
			var s int
			if rng.Bool() && n > 0 {
				s = (size/n)*rng.Intn(n+1) + rng.Intn(2*int(max)+1) - int(max)
			} else {
				s = rng.Intn(size)
			}
			if s < 0 {
				s = 0
			}
			if s > size {
				s = size
			}
			l := int(max) * (1 + rng.Intn(8))
			if rng.Bool() {
				l += rng.Intn(int(max))
			}
			for i := s; i < s+l && i < size; i++ {
				b[i] = 0
			}
		}
		if rng.Chance(1, 3) { // trailing zeros to the end
			s := rng.Intn(size + 1)
			for i := s; i < size; i++ {
				b[i] = 0
			}
		}
		return b, "zero-runs"
	default:
		b, s := vh.Blob(rng, size)
		return b, s
	}
}

func c02Triple(rng *vh.Rand) (uint64, uint64, uint64) {
	min := uint64(48 + rng.Intn(150))
	var avg, max uint64
	switch rng.Intn(7) {
	case 0: // min == avg == max
		return min, min, min
	case 6: // max far above avg (more than 10*avg: the read-ahead buffer must still be sized by max)
		avg = min + uint64(rng.Intn(20))
		max = avg * uint64(11+rng.Intn(30))
	case 1:
		avg = min
		max = min + uint64(rng.Intn(300))
	default:
		avg = min + uint64(rng.Intn(200))
		max = avg + uint64(rng.Intn(400))
	}
	return min, avg, max
}

func c02Seq(a vh.Args, o *vh.Oracle, r *vh.Result, c *c02Case) error {
	r.Running(c)
	blob := vh.UnHex(c.BlobHex)
	desync.Digest = desync.SHA512256{}
	d := c02D(o, c.Avg)
	full, _, err := seqChunks(bytes.NewReader(blob), c.Min, c.Avg, c.Max)
	if err != nil {
		return err
	}
	frag, _, err := seqChunks(&fragReader{data: blob, frags: append([]int{}, c.Frags...), eager: c.Eager, zeroEvery: c.ZeroEvery}, c.Min, c.Avg, c.Max)
	if err != nil {
		return err
	}
	c.Got = spansStr(frag)
	nontriv := len(full) > 2
	r.Count(fmt.Sprintf("seq|%d|%d|%d|%s|%d", c.Min, c.Avg, c.Max, c.BlobHex[:min(24, len(c.BlobHex))], len(blob)), nontriv)
	r.Dist("seq:blob:" + c.Shape)
	r.Dist("seq:chunks:" + bucket(len(full)))
	if c.Min == c.Max {
		r.Dist("seq:min==max")
	}
	r.Sample(map[string]interface{}{"kind": "seq", "min": c.Min, "avg": c.Avg, "max": c.Max, "len": len(blob), "chunks": len(full), "frags": len(c.Frags), "shape": c.Shape})
	if msg := c02Bounds(full, len(blob), c.Min, c.Max); msg != "" {
		cls := "seq/bounds"
		if c.Min == c.Max {
			cls = "seq/bounds-min-eq-max"
		}
		r.Fail("predicate", cls, msg, c)
	}
	if spansStr(full) != spansStr(frag) {
		c.Want = spansStr(full)
		r.Fail("predicate", "seq/read-fragmentation", "chunk sequence depends on how the reader fragments its reads", c)
	}
	if o != nil {
		fr := "-"
		if len(c.Frags) > 0 {
			s := make([]string, len(c.Frags))
			for i, f := range c.Frags {
				s[i] = strconv.Itoa(f)
			}
			fr = strings.Join(s, ",")
		}
		eager := "0"
		if c.Eager {
			eager = "1"
		}
		ans, err := o.Call("c02.impl", u(c.Min), u(c.Max), u(uint64(d)), fr, eager, vh.Hex(blob))
		if err != nil {
			return err
		}
		r.Corr()
		if ans != spansStr(frag) {
			c.Want = ans
			// the model of Chunker.Next is PROVED equal to the rule for every input (C02_next_refines_rule), so its output on this
			// blob is the rule's chunk sequence: a difference is a concrete input on which Chunker.Next departs from the rule
			r.Fail("predicate", "seq/differs-from-rule", "Chunker.Next's (start,len) sequence on this input differs from the rule's (computed by the extracted model, proved equal to the rule)", c)
		}
		if len(blob) <= 3000 { // the rule evaluates a full window hash per position: keep it to small blobs
			ans, err = o.Call("c02.spec", u(c.Min), u(c.Max), u(uint64(d)), vh.Hex(blob))
			if err != nil {
				return err
			}
			r.Corr()
			if ans != sizesStr(full) {
				c.Want = ans
				// the oracle evaluates the RULE itself (chunk_all: cut at the first position past min whose window hash meets the
				// discriminator): a difference is a violation of the property on this input, not merely a model mismatch
				r.Fail("predicate", "seq/differs-from-rule", "chunk sizes differ from the rolling-hash rule evaluated on this input (extracted chunk_all)", c)
			}
		}
	}
	return nil
}

func u(x uint64) string { return strconv.FormatUint(x, 10) }

// c02D: the discriminator for avg by casync's formula as modelled (Model/Discriminator.v); the
// implementation's own value is compared with it in c02DiscSweep and here.
func c02D(o *vh.Oracle, avg uint64) uint32 {
	impl := desync.VerifDiscriminator(avg)
	if o == nil || avg >= 9000000 {
		return impl
	}
	ans, err := o.Call("c02.disc", u(avg))
	if err != nil {
		return impl
	}
	v, err := strconv.ParseUint(ans, 10, 64)
	if err != nil {
		return impl
	}
	return uint32(v)
}

// c02Islands puts a few short non-zero stretches (1..max/2 bytes) into an all-zero blob.
func c02Islands(rng *vh.Rand, blob []byte, max int) {
	if len(blob) == 0 {
		return
	}
	for k := 1 + rng.Intn(4); k > 0; k-- {
		at := rng.Intn(len(blob))
		l := 1
		if rng.Bool() {
			l = 1 + rng.Intn(max/2+1)
		}
		for i := at; i < at+l && i < len(blob); i++ {
			blob[i] = byte(1 + rng.Intn(255))
		}
	}
}

func c02Par(a vh.Args, o *vh.Oracle, r *vh.Result, c *c02Case, attempts int) error {
	r.Running(c)
	blob := vh.UnHex(c.BlobHex)
	desync.Digest = desync.SHA512256{}
	name := filepath.Join(a.Work, "par.blob")
	if err := os.WriteFile(name, blob, 0644); err != nil {
		return err
	}
	seq, data, err := seqChunks(bytes.NewReader(blob), c.Min, c.Avg, c.Max)
	if err != nil {
		return err
	}
	for att := 0; att < attempts; att++ {
		sched := c.Sched + uint64(att)*7919
		ch := vh.NewChaos(sched, 6, 40*time.Microsecond)
		desync.VerifSetYieldHook(ch.Hook)
		ctx, cancel := context.WithTimeout(context.Background(), 20*time.Second)
		idx, _, err := desync.IndexFromFile(ctx, name, c.N, c.Min, c.Avg, c.Max, desync.NullProgressBar{})
		cancel()
		desync.VerifSetYieldHook(nil)
		r.Count(fmt.Sprintf("par|%d|%d|%d|%d|%s|%d|%d", c.Min, c.Avg, c.Max, c.N, c.BlobHex[:min(24, len(c.BlobHex))], len(blob), sched), len(seq) > 2 && c.N > 1)
		r.Dist("par:blob:" + c.Shape)
		r.Dist("par:n:" + bucket(c.N))
		r.Dist("par:chunks:" + bucket(len(seq)))
		if err != nil {
			c.Got = "error: " + err.Error()
			r.Fail("predicate", "par/error", "IndexFromFile failed on a readable file: "+err.Error(), c)
			return nil
		}
		got := make([]span, len(idx.Chunks))
		for i, ch := range idx.Chunks {
			got[i] = span{ch.Start, ch.Size}
		}
		if spansStr(got) != spansStr(seq) {
			c.Got, c.Want = spansStr(got), spansStr(seq)
			c.Sched = sched
			cls := "par/differs-from-sequential"
			if len(got) < len(seq) && spansStr(got) == spansStr(seq[:len(got)]) {
				cls = "par/missing-trailing-chunks"
			}
			r.Fail("predicate", cls, fmt.Sprintf("parallel index (n=%d) differs from the single-stream chunk sequence", c.N), c)
			return nil
		}
		for i, ch := range idx.Chunks {
			if ch.ID != desync.Digest.Sum(data[i]) {
				r.Fail("predicate", "par/wrong-id", fmt.Sprintf("chunk %d has an ID that is not the digest of its bytes", i), c)
				return nil
			}
		}
		if idx.Index.ChunkSizeMin != c.Min || idx.Index.ChunkSizeAvg != c.Avg || idx.Index.ChunkSizeMax != c.Max ||
			idx.Index.FeatureFlags&desync.CaFormatSHA512256 == 0 {
			r.Fail("predicate", "par/params", "index parameters do not record min/avg/max/digest", c)
			return nil
		}
	}
	r.Sample(map[string]interface{}{"kind": "par", "min": c.Min, "avg": c.Avg, "max": c.Max, "len": len(blob), "chunks": len(seq), "n": c.N, "shape": c.Shape})
	if o != nil && c.Sched%5 == 0 {
		d := c02D(o, c.Avg)
		ans, err := o.Call("c02.impl", u(c.Min), u(c.Max), u(uint64(d)), "-", "0", vh.Hex(blob))
		if err != nil {
			return err
		}
		r.Corr()
		if ans != spansStr(seq) {
			c.Want = ans
			// the model of Chunker.Next is PROVED equal to the rule for every input (C02_next_refines_rule), so its output on this
			// blob is the rule's chunk sequence: a difference is a concrete input on which Chunker.Next departs from the rule
			r.Fail("predicate", "seq/differs-from-rule", "Chunker.Next's (start,len) sequence on this input differs from the rule's (computed by the extracted model, proved equal to the rule)", c)
		}
	}
	return nil
}

func runC02(a vh.Args, o *vh.Oracle, r *vh.Result) error {
	c02BaseGoroutines = runtime.NumGoroutine()
	r.Rule = "seq case = (blob, min/avg/max, read fragmentation): Chunker.Next vs model and rule; par case = (blob, triple, n in 1..16, schedule seed): IndexFromFile under randomized-priority schedules vs single-stream; non-trivial = more than 2 chunks (and n>1 for par); distinct by parameters+blob prefix(+schedule)"
	if a.Replay != "" {
		var c c02Case
		if err := readJSON(a.Replay, &c); err != nil {
			return err
		}
		if c.Kind == "flags" {
			var fc c02FlagsCase
			if err := readJSON(a.Replay, &fc); err != nil {
				return err
			}
			return c02FlagsOne(a, o, r, &fc)
		}
		if c.Kind == "advance" {
			var ac c02AdvCase
			if err := readJSON(a.Replay, &ac); err != nil {
				return err
			}
			return c02AdvanceOne(r, &ac)
		}
		if c.Kind == "stream" {
			for i := 0; i < 5; i++ {
				if err := c02StreamCheck(r, vh.UnHex(c.BlobHex), c.Min, c.Avg, c.Max, c.N, c.Rows); err != nil {
					return err
				}
			}
			return nil
		}
		if c.Kind == "par" {
			return c02Par(a, o, r, &c, 300)
		}
		if c.Kind == "trace" {
			for i := 0; i < 50; i++ {
				cc := c
				cc.Sched = c.Sched + uint64(i)*7919
				if err := c02TraceOne(a, o, r, &cc); err != nil {
					return err
				}
			}
			return nil
		}
		return c02Seq(a, o, r, &c)
	}
	rng := vh.NewRand(a.Seed)
	if err := c02DiscSweep(o, r, rng, 3000); err != nil {
		return err
	}
	nfl := 400
	if a.Tier == "thorough" {
		nfl = 6000
	}
	if err := c02Flags(a, o, r, rng, nfl); err != nil {
		return err
	}
	nadv := 60
	if a.Tier == "thorough" {
		nadv = 1500
	}
	if err := c02Advance(r, rng, nadv); err != nil {
		return err
	}
	if err := c02Resonance(a, o, r, rng); err != nil {
		return err
	}
	nseq, npar := 150, 320
	if a.Tier == "thorough" {
		nseq, npar = 1500, 5000
	}
	for i := 0; i < nseq; i++ {
		mn, av, mx := c02Triple(rng)
		blob, shape := c02Blob(rng, mn, mx, 1)
		if len(blob) > 12000 {
			blob = blob[:12000]
		}
		c := &c02Case{Kind: "seq", BlobHex: vh.Hex(blob), Min: mn, Avg: av, Max: mx, Shape: shape}
		switch rng.Intn(4) {
		case 0:
		case 1:
			for k := 0; k < 50; k++ {
				c.Frags = append(c.Frags, 1)
			}
		case 2:
			// many small reads, far fewer bytes than max between two empty reads
			for k := 0; k < 2*len(blob)/int(mn)+20; k++ {
				c.Frags = append(c.Frags, 1+rng.Intn(int(mn)))
			}
			c.ZeroEvery = 2 + rng.Intn(4)
		default:
			for k := 0; k < 5+rng.Intn(60); k++ {
				c.Frags = append(c.Frags, 1+rng.Intn(int(3*mx)))
			}
			if rng.Chance(1, 3) {
				c.ZeroEvery = 2 + rng.Intn(5)
			}
		}
		c.Eager = rng.Chance(1, 4)
		if err := c02Seq(a, o, r, c); err != nil {
			return err
		}
	}
	for i := 0; i < npar; i++ {
		mn, av, mx := c02Triple(rng)
		n := 1 + rng.Intn(16)
		blob, shape := c02Blob(rng, mn, mx, n)
		attempts := 1
		if i%5 < 3 {
			// zero family: long zero stretches reaching the end of the file, many workers with a span of a few
			// max each, so that workers in zero areas finish early and null-chunk look-ahead/skip paths run
			n = 6 + rng.Intn(11)
			size := int(mx)*(n*(1+rng.Intn(4))/2+rng.Intn(3)) + rng.Intn(int(mx))
			if rng.Chance(2, 3) {
				// span = size/n at a chosen alignment relative to max: multiples of max/2, max/3, max
				den := 1 + rng.Intn(3)
				span := int(mx) * (den + 1 + rng.Intn(3*den)) / den
				size = n*span + rng.Intn(n)
			}
			blob = make([]byte, size)
			shape = "zero-family"
			switch rng.Intn(3) {
			case 0:
				head := rng.Intn(size/2 + 1)
				copy(blob, rng.Bytes(head))
				shape = "zero-family-head"
			case 1:
				// small data islands inside the zero run: a look-ahead over "null, X, null" must not skip X
				c02Islands(rng, blob, int(mx))
				shape = "zero-family-islands"
			}
			attempts = 4
		}
		c := &c02Case{Kind: "par", BlobHex: vh.Hex(blob), Min: mn, Avg: av, Max: mx, N: n, Shape: shape, Sched: rng.U64() % 1000000}
		if err := c02Par(a, o, r, c, attempts); err != nil {
			return err
		}
	}
	ncs := 40
	if a.Tier == "thorough" {
		ncs = 600
	}
	for i := 0; i < ncs; i++ {
		if err := c02Stream(a, r, rng); err != nil {
			return err
		}
	}
	manyRows := []int{1100, 2200, 4300}
	if a.Tier == "thorough" {
		manyRows = append(manyRows, 8500, 17000, 33500, 66500, 70000)
	}
	for _, rows := range manyRows {
		if err := c02StreamRows(a, r, rng, rows); err != nil {
			return err
		}
	}
	ntr := 70
	if a.Tier == "thorough" {
		ntr = 1500
	}
	if err := c02Trace(a, o, r, rng, ntr); err != nil {
		return err
	}
	return c02Fixture(a, o, r)
}

// slowDigest delays every hash a little, so that ChunkStream's workers lag behind the chunker:
// the index must still record the digest of the chunk's own bytes.
type slowDigest struct {
	desync.SHA512256
	n    *int64
	hold map[int64]bool // hash calls (by number) that take very long: the feeder runs thousands of rows ahead
}

func (h slowDigest) Sum(b []byte) [32]byte {
	k := atomic.AddInt64(h.n, 1)
	if h.hold != nil {
		if h.hold[k] {
			time.Sleep(25 * time.Millisecond)
		}
		return h.SHA512256.Sum(b)
	}
	if k%3 != 0 {
		time.Sleep(150 * time.Microsecond)
	}
	runtime.Gosched()
	return h.SHA512256.Sum(b)
}

type discardStore struct{}

func (discardStore) GetChunk(id desync.ChunkID) (*desync.Chunk, error) {
	return nil, desync.ChunkMissing{ID: id}
}
func (discardStore) HasChunk(id desync.ChunkID) (bool, error) { return false, nil }
func (discardStore) StoreChunk(c *desync.Chunk) error         { return nil }
func (discardStore) Close() error                             { return nil }
func (discardStore) String() string                           { return "discard" }

// c02Stream: ChunkStream (single chunker feeding n hashing workers) on inputs larger than the
// chunker's 10*max buffer: the index must carry, for every row, the digest of blob[start:start+size].
func c02Stream(a vh.Args, r *vh.Result, rng *vh.Rand) error { return c02StreamRows(a, r, rng, 0) }

// c02StreamRows with rows > 0: a stream of about that many chunks (small chunk sizes) where the
// hashing of a few early and middle chunks is held back while the feeder records thousands of
// further rows: whatever container the results are collected in grows many times meanwhile.
func c02StreamRows(a vh.Args, r *vh.Result, rng *vh.Rand, rows int) error {
	mn, av, mx := c02Triple(rng)
	size := int(mx)*(10+rng.Intn(25)) + rng.Intn(int(mx))
	if rows > 0 {
		mn = uint64(48 + rng.Intn(16))
		av = mn + uint64(8+rng.Intn(24))
		mx = av + uint64(16+rng.Intn(64))
		size = rows * int(mn+av) / 2 * 11 / 10
	}
	blob := rng.Bytes(size)
	if rng.Chance(1, 3) && rows == 0 {
		for i := rng.Intn(size); i < size; i++ {
			blob[i] = 0
		}
	}
	n := 1 + rng.Intn(4)
	if rows > 0 {
		n = 2 + rng.Intn(3)
	}
	return c02StreamCheck(r, blob, mn, av, mx, n, rows)
}

// c02StreamCheck runs ChunkStream over blob and judges the index (also the replay entry point).
func c02StreamCheck(r *vh.Result, blob []byte, mn, av, mx uint64, n, rows int) error {
	size := len(blob)
	var cnt int64
	desync.Digest = slowDigest{n: &cnt}
	if rows > 0 {
		hold := map[int64]bool{1: true, 2: true}
		for _, k := range []int{rows / 64, rows / 16, rows / 4, rows / 2, 1000, 1020, 2040, 4090, 65530} {
			if k > 2 && k < rows {
				hold[int64(k)] = true
			}
		}
		desync.Digest = slowDigest{n: &cnt, hold: hold}
		r.Dist("stream:many-rows:" + bucket(rows))
	}
	defer func() { desync.Digest = desync.SHA512256{} }()
	c, err := desync.NewChunker(&fragReader{data: append([]byte{}, blob...), frags: nil}, mn, av, mx)
	if err != nil {
		return err
	}
	idx, err := desync.ChunkStream(context.Background(), c, discardStore{}, n)
	cs := &c02Case{Kind: "stream", BlobHex: vh.Hex(blob), Min: mn, Avg: av, Max: mx, N: n, Shape: "stream", Rows: rows}
	r.Count(fmt.Sprintf("stream|%d|%d|%d|%d|%d", mn, av, mx, n, size), true)
	r.Dist("stream:n:" + bucket(n))
	if err != nil {
		r.Fail("predicate", "stream/error", "ChunkStream failed on a readable input: "+err.Error(), cs)
		return nil
	}
	var off uint64
	for i, ch := range idx.Chunks {
		if ch.Start != off || ch.Start+ch.Size > uint64(len(blob)) {
			r.Fail("predicate", "stream/not-tiling", fmt.Sprintf("row %d starts at %d, expected %d", i, ch.Start, off), cs)
			return nil
		}
		if ch.ID != (desync.SHA512256{}).Sum(blob[ch.Start:ch.Start+ch.Size]) {
			r.Fail("predicate", "stream/wrong-id", fmt.Sprintf("row %d of the ChunkStream index carries an ID that is not the digest of blob[%d:%d]", i, ch.Start, ch.Start+ch.Size), cs)
			return nil
		}
		off += ch.Size
	}
	if off != uint64(len(blob)) {
		r.Fail("predicate", "stream/not-covering", fmt.Sprintf("ChunkStream index covers %d of %d bytes", off, len(blob)), cs)
	}
	seq, _, err := seqChunks(bytes.NewReader(blob), mn, av, mx)
	if err == nil {
		got := make([]span, len(idx.Chunks))
		for i, ch := range idx.Chunks {
			got[i] = span{ch.Start, ch.Size}
		}
		if spansStr(got) != spansStr(seq) {
			r.Fail("predicate", "stream/differs-from-next", "ChunkStream rows differ from the Chunker.Next sequence", cs)
		}
	}
	return nil
}

// The casync-made reference: testdata/chunker.input chunked by casync into testdata/chunker.index
// pins the rule (window, table, discriminator, min+1 start) to casync.
func c02Fixture(a vh.Args, o *vh.Oracle, r *vh.Result) error {
	repo := os.Getenv("VH_REPO")
	if repo == "" {
		repo = "/repo"
	}
	desync.Digest = desync.SHA512256{}
	f, err := os.Open(filepath.Join(repo, "testdata", "chunker.index"))
	if err != nil {
		r.Note("fixture missing: %v", err)
		return nil
	}
	idx, err := desync.IndexFromReader(f)
	f.Close()
	if err != nil {
		return err
	}
	input := filepath.Join(repo, "testdata", "chunker.input")
	blob, err := os.ReadFile(input)
	if err != nil {
		return err
	}
	got, _, err := seqChunks(bytes.NewReader(blob), idx.Index.ChunkSizeMin, idx.Index.ChunkSizeAvg, idx.Index.ChunkSizeMax)
	if err != nil {
		return err
	}
	want := make([]span, len(idx.Chunks))
	for i, c := range idx.Chunks {
		want[i] = span{c.Start, c.Size}
	}
	r.Count("fixture/chunker.input", true)
	r.Dist("fixture:casync")
	if spansStr(got) != spansStr(want) {
		r.Fail("predicate", "fixture/casync-reference", "Chunker.Next on testdata/chunker.input differs from the casync-made testdata/chunker.index", map[string]interface{}{"got": spansStr(got), "want": spansStr(want)})
	}
	if o != nil {
		d := desync.VerifDiscriminator(idx.Index.ChunkSizeAvg)
		ans, err := o.Call("c02.implfile", u(idx.Index.ChunkSizeMin), u(idx.Index.ChunkSizeMax), u(uint64(d)), input)
		if err != nil {
			return err
		}
		r.Corr()
		if ans != sizesStr(want) {
			r.Fail("corr", "corr:C02/casync-reference", "the model's chunking of testdata/chunker.input differs from the casync-made index", map[string]interface{}{"model": ans, "want": sizesStr(want)})
		}
	}
	return nil
}
