package main

import (
	"fmt"
	"sort"
	"os"
	"path/filepath"
	"strconv"
	"strings"
	"syscall"

	"github.com/folbricht/desync"

	"vh/internal/vh"
)

// devCorr: mkdev and the major/minor split against the model, and the property on the
// implementation side: every 12+20 bit device number survives split-then-mkdev.
func (e *c05Env) devCorr() error {
	if e.o == nil {
		return nil
	}
	rng := vh.NewRand(e.a.Seed ^ 0xD05)
	n := 400
	if e.a.Tier == "thorough" {
		n = 5000
	}
	for i := 0; i < n; i++ {
		var major, minor uint64
		switch i % 5 {
		case 0:
			major, minor = uint64(rng.Intn(4096)), uint64(rng.Intn(1<<20))
		case 1:
			major, minor = rng.U64()&0xffffffff, rng.U64()&0xffffffff
		case 2:
			major, minor = []uint64{0, 1, 255, 256, 4095, 4096, 1 << 31}[rng.Intn(7)], []uint64{0, 255, 256, 1<<20 - 1, 1 << 20, 1<<32 - 1}[rng.Intn(6)]
		case 3:
			major, minor = rng.U64(), rng.U64()
		default:
			major, minor = uint64(rng.Intn(300)), uint64(rng.Intn(70000))
		}
		ans, err := e.o.Call("c05.mkdev", strconv.FormatUint(major, 10), strconv.FormatUint(minor, 10))
		if err != nil {
			return err
		}
		want, _ := strconv.ParseUint(ans, 10, 64)
		got := desync.VerifMkdev(major, minor)
		e.r.Corr()
		if got != want {
			e.r.Fail("corr", "corr:C05/mkdev", fmt.Sprintf("mkdev(%d,%d) = %#x, model %#x", major, minor, got, want), map[string]interface{}{"major": major, "minor": minor})
			return nil
		}
		// independent statement of the kernel's encoding (glibc gnu_dev_makedev)
		if major < 4096 && minor < 1<<20 {
			ref := (major&0xfff)<<8 | (minor & 0xff) | (minor&0xfff00)<<12
			e.r.Count(fmt.Sprintf("dev|%d|%d", major, minor), true)
			if got != ref {
				e.r.Fail("predicate", "dev/mkdev", fmt.Sprintf("mkdev(%d,%d) = %#x, the platform encodes it as %#x", major, minor, got, ref), map[string]interface{}{"major": major, "minor": minor})
			}
		}
	}
	return nil
}

// c05Probe finds out what the scratch file system and the process may do.
func (e *c05Env) probe() {
	e.root = os.Geteuid() == 0
	p := filepath.Join(e.a.Work, "probe")
	os.WriteFile(p, nil, 0600)
	e.xattrs = lsetxattr(p, "user.c05probe", []byte("x")) == nil
	if e.root && e.xattrs {
		if err := lsetxattr(p, "trusted.c05probe", []byte("x")); err != nil {
			e.xattrs = false
		}
	}
	os.Remove(p)
	if !e.xattrs {
		e.r.Note("extended attributes cannot be set below %s: xattrs are not exercised", e.a.Work)
	}
	if !e.root {
		e.r.Note("not running as root: owners, devices and trusted.* xattrs are not exercised")
	}
}

func (e *c05Env) newGen(rng *vh.Rand, maxDir, budget, maxFile int) *c05Gen {
	return &c05Gen{r: rng, maxDir: maxDir, budget: budget, maxFile: maxFile, xattrs: e.xattrs && e.root, devices: e.root, fifos: true,
		future: true, epochs: true}
}

// oneTree materialises the tree and sends it through the routes selected by level.
func (e *c05Env) oneTree(tree *c05Node, rng *vh.Rand, level int) error {
	srcParent := e.scratch("src")
	if err := os.Mkdir(srcParent, 0700); err != nil {
		return err
	}
	defer c05RemoveAll(srcParent)
	srcDir := filepath.Join(srcParent, "root")
	if !e.root {
		tree.walk(func(n *c05Node) { n.UID, n.GID = uint32(os.Geteuid()), uint32(os.Getegid()) })
	}
	if err := c05Materialise(srcDir, tree); err != nil {
		return fmt.Errorf("materialise: %v", err)
	}
	total := 0
	tree.walk(func(n *c05Node) { total += n.Size })
	withModel := total <= 600000
	src, err := c05Snapshot(srcDir, withModel)
	if err != nil {
		return err
	}
	e.r.Dist("entries:" + bucket(len(src)))
	e.r.Dist(fmt.Sprintf("depth:%d", tree.depth()))
	maxKids := 0
	for _, s := range src {
		e.r.Dist("kind:" + s.kind())
		if s.Kids > maxKids {
			maxKids = s.Kids
		}
		if len(s.Xattrs) > 0 {
			e.r.Dist("with-xattrs")
		}
		if s.Mode&07000 != 0 {
			e.r.Dist("with-setid-or-sticky")
		}
	}
	e.r.Dist("largest-dir:" + bucket(maxKids))
	e.r.Sample(map[string]interface{}{"entries": len(src), "depth": tree.depth(), "largest_dir": maxKids, "bytes": total})

	variants := [][2]bool{{false, false}}
	if level >= 1 {
		variants = append(variants, [2]bool{true, false})
	}
	if level >= 2 && rng.Chance(1, 2) {
		variants = append(variants, [2]bool{false, true})
	}
	var cliBytes []byte
	if level >= 1 {
		cliBytes = e.routeCLI(tree, srcDir, src, withModel, variants)
	}
	e.routeLib(tree, srcDir, src, cliBytes, false, false, true, withModel)
	if level == 0 && rng.Chance(1, 3) {
		e.routeLib(tree, srcDir, src, nil, true, false, false, withModel)
	}
	// chunked: library with tiny chunks, CLI with the smallest the command line accepts
	digest := []string{"sha512-256", "sha256"}[rng.Intn(2)]
	mins := []uint64{64, 100, 300, 1024}
	mn := mins[rng.Intn(len(mins))]
	e.routeLibIdx(tree, srcDir, src, digest, mn, mn*4, mn*16, 1+rng.Intn(4))
	if level >= 1 {
		e.routeCLIIdx(tree, srcDir, src, "sha256", []string{"1:2:4", "1:4:16", "16:64:256"}[rng.Intn(3)])
		if level >= 2 {
			e.routeCLIIdx(tree, srcDir, src, "sha512-256", "1:2:4")
		}
		if cliBytes != nil {
			e.routeTarIn(tree, srcDir, src, cliBytes)
			if withModel {
				e.routeTarShuffle(tree, srcDir, src, rng)
			}
			if level >= 2 {
				e.routeTarBreadthFirst(tree, srcDir, src)
			}
			cat := e.scratch("fmt") + ".catar"
			if err := os.WriteFile(cat, cliBytes, 0600); err == nil {
				e.routeGnuTar(tree, srcDir, src, cat, level >= 2)
				e.routeMtree(tree, srcDir, src, cat, []string{"sha512-256", "sha256"}[rng.Intn(2)])
				os.Remove(cat)
			}
		}
	}
	if level >= 1 {
		e.routeFifoClean(tree, srcDir, src, cliBytes) // last: it removes the fifos from the source tree
	}
	return nil
}

func runC05(a vh.Args, o *vh.Oracle, r *vh.Result) error {
	r.Rule = "case = (random tree: nesting <= 6, 0..200 (quick) / 0..3000 (thorough) entries per directory, names over all bytes except '/' and NUL, files 0 B..MBs, symlinks incl. dangling/absolute, all 12 permission bits, arbitrary uid/gid, mtimes incl. 0, <1970, ns, >2262, user./trusted. xattrs, char/block devices, fifos) x route (library Tar/UnTar, CLI tar/untar with --no-same-owner/--no-same-permissions, ChunkStream/UnTarIndex and tar -i/untar -i under both digests, tar-stream input, gnu-tar and mtree output, second tar run); predicate = lstat/readlink/xattr/content snapshot of the result equals the source snapshot, archives of two runs are identical; non-trivial = the tree has more than one entry; distinct by (route, options, tree)"
	e := &c05Env{a: a, o: o, r: r, desync: os.Getenv("VH_DESYNC")}
	if e.desync == "" {
		e.desync = "/verif/harness/bin/desync"
	}
	syscall.Umask(022)
	e.probe()
	if a.Replay != "" {
		var c c05Case
		if err := readJSON(a.Replay, &c); err != nil {
			return err
		}
		if c.Tree == nil && strings.HasPrefix(c.Route, "tar-members-") {
			e.routeTarUngroupedFamily() // the fixed family of tar streams
			return nil
		}
		if c.Tree == nil {
			return fmt.Errorf("replay file has no tree")
		}
		return e.oneTree(c.Tree, vh.NewRand(a.Seed), 2)
	}
	if err := e.modeCorr(); err != nil {
		return err
	}
	if err := e.devCorr(); err != nil {
		return err
	}
	rng := vh.NewRand(a.Seed)
	e.routeRootKinds(a.Seed ^ 0x7007)
	e.routeTarUngroupedFamily()
	for i := 0; i < 3; i++ {
		e.routeXattrOrder(a.Seed ^ uint64(0xA77+i))
	}
	trees, cliEvery, maxDir := 30, 4, 200
	if a.Tier == "thorough" {
		trees, cliEvery, maxDir = 500, 3, 3000
	}
	for i := 0; i < trees; i++ {
		g := e.newGen(rng.Fork(), 12, 60, 20000)
		switch {
		case i == 1: // one wide directory
			g.maxDir, g.budget = maxDir, maxDir+50
		case i == 2: // one big file crossing many chunks
			g.bigFile = 1<<20 + rng.Intn(3<<20)
			g.budget = 10
		case i%10 == 3:
			g.maxDir, g.budget = 60, 300
		case i%10 == 5: // plain trees without the known-finding classes: everything must match
			g.future, g.epochs, g.fifos = false, false, false
		case i%4 == 0: // no xattrs: the gnu-tar route refuses them altogether
			g.xattrs = false
		}
		if a.Tier == "thorough" && i%50 == 7 {
			g.maxDir, g.budget = maxDir, maxDir+100
		}
		tree := g.node("root", 0, true)
		if i == 0 { // goes through every route: symlinks whose targets are not clean paths
			zoo := g.linkZoo("zz-unclean-link-targets")
			tree.Children = append(tree.Children, zoo, g.zeroZoo("zz-zero-blocks"))
			if e.root {
				tree.Children = append(tree.Children, g.ownerZoo("zz-owners", uint32(os.Geteuid()), uint32(os.Getegid())))
			}
			sort.Slice(tree.Children, func(a, b int) bool { return tree.Children[a].name() < tree.Children[b].name() })
		}
		level := 0
		if i%cliEvery == 0 || i < 3 {
			level = 1
		}
		if i%(cliEvery*3) == 0 {
			level = 2
		}
		if err := e.oneTree(tree, rng, level); err != nil {
			return err
		}
		if r.NFailures() > 60 {
			break
		}
	}
	_ = strings.Join
	return nil
}
