package main

// C04, S3 part: S3IndexStore.StoreIndex / GetIndex against a minimal in-harness S3 endpoint
// (path-style; multipart upload as minio-go issues it for a stream of unknown length: POST ?uploads,
// PUT ?partNumber&uploadId, POST ?uploadId; GET/HEAD object with Range). Objects are kept in memory so
// that the bytes that reached the store can be compared with Index.WriteTo.

import (
	"bytes"
	"encoding/binary"
	"encoding/xml"
	"fmt"
	"io"
	"net"
	"net/http"
	"net/url"
	"sort"
	"strconv"
	"strings"
	"sync"
	"time"

	"github.com/folbricht/desync"
	minio "github.com/minio/minio-go/v6"
	"github.com/minio/minio-go/v6/pkg/credentials"

	"vh/internal/vh"
)

type c04FakeS3 struct {
	mu      sync.Mutex
	objects map[string][]byte
	uploads map[string]map[int][]byte
	nextID  int
	other   []string
}

func (s *c04FakeS3) ServeHTTP(w http.ResponseWriter, r *http.Request) {
	s.mu.Lock()
	defer s.mu.Unlock()
	p := strings.TrimPrefix(r.URL.Path, "/")
	parts := strings.SplitN(p, "/", 2)
	q := r.URL.Query()
	if len(parts) < 2 || parts[1] == "" {
		s.other = append(s.other, r.Method+" "+r.URL.String())
		http.Error(w, "not implemented", http.StatusNotImplemented)
		return
	}
	bucket, key := parts[0], parts[1]
	_, isUploads := q["uploads"]
	switch {
	case r.Method == "POST" && isUploads:
		s.nextID++
		id := "up" + strconv.Itoa(s.nextID)
		s.uploads[id] = map[int][]byte{}
		w.Header().Set("Content-Type", "application/xml")
		fmt.Fprintf(w, "%s<InitiateMultipartUploadResult><Bucket>%s</Bucket><Key>%s</Key><UploadId>%s</UploadId></InitiateMultipartUploadResult>", xml.Header, bucket, key, id)
	case r.Method == "PUT" && q.Get("uploadId") != "":
		up, ok := s.uploads[q.Get("uploadId")]
		n, _ := strconv.Atoi(q.Get("partNumber"))
		if !ok {
			http.Error(w, "no such upload", http.StatusNotFound)
			return
		}
		b, _ := io.ReadAll(r.Body)
		up[n] = b
		w.Header().Set("ETag", fmt.Sprintf("\"part%d\"", n))
	case r.Method == "PUT":
		b, _ := io.ReadAll(r.Body)
		s.objects[key] = b
		w.Header().Set("ETag", "\"obj\"")
	case r.Method == "POST" && q.Get("uploadId") != "":
		up, ok := s.uploads[q.Get("uploadId")]
		if !ok {
			http.Error(w, "no such upload", http.StatusNotFound)
			return
		}
		io.Copy(io.Discard, r.Body)
		var nums []int
		for n := range up {
			nums = append(nums, n)
		}
		sort.Ints(nums)
		var all []byte
		for _, n := range nums {
			all = append(all, up[n]...)
		}
		s.objects[key] = all
		delete(s.uploads, q.Get("uploadId"))
		w.Header().Set("Content-Type", "application/xml")
		fmt.Fprintf(w, "%s<CompleteMultipartUploadResult><Location>http://%s/%s/%s</Location><Bucket>%s</Bucket><Key>%s</Key><ETag>\"obj\"</ETag></CompleteMultipartUploadResult>", xml.Header, r.Host, bucket, key, bucket, key)
	case r.Method == "DELETE" && q.Get("uploadId") != "":
		delete(s.uploads, q.Get("uploadId"))
		w.WriteHeader(http.StatusNoContent)
	case r.Method == "GET" || r.Method == "HEAD":
		b, ok := s.objects[key]
		if !ok {
			w.Header().Set("Content-Type", "application/xml")
			w.WriteHeader(http.StatusNotFound)
			fmt.Fprintf(w, "%s<Error><Code>NoSuchKey</Code><Message>The specified key does not exist.</Message><Key>%s</Key><BucketName>%s</BucketName></Error>", xml.Header, key, bucket)
			return
		}
		w.Header().Set("ETag", "\"obj\"")
		w.Header().Set("Content-Type", "application/octet-stream")
		http.ServeContent(w, r, "", time.Date(2020, 1, 1, 0, 0, 0, 0, time.UTC), bytes.NewReader(b))
	default:
		s.other = append(s.other, r.Method+" "+r.URL.String())
		http.Error(w, "not implemented", http.StatusNotImplemented)
	}
}

// c04S3: a sample of indexes through S3IndexStore, plus truncated / digest-mismatched objects read back.
func c04S3(a vh.Args, r *vh.Result, rng *vh.Rand, n int) error {
	srv := &c04FakeS3{objects: map[string][]byte{}, uploads: map[string]map[int][]byte{}}
	ln, err := net.Listen("tcp", "127.0.0.1:0")
	if err != nil {
		return err
	}
	hs := &http.Server{Handler: srv}
	go hs.Serve(ln)
	defer hs.Close()
	u, _ := url.Parse("s3+http://" + ln.Addr().String() + "/bkt/idx")
	st, err := desync.NewS3IndexStore(u, credentials.NewStaticV4("key", "secret", ""), "us-east-1", desync.StoreOptions{}, minio.BucketLookupPath)
	if err != nil {
		return err
	}
	for t := 0; t < n; t++ {
		c := c04GenIndex(rng, []int{0, 1, 5, 120}[rng.Intn(4)])
		if c.Digest == "sha256" {
			c.Flags &^= c04SHA512Flag
		} else {
			c.Flags |= c04SHA512Flag
		}
		if !c04WF(c) {
			continue
		}
		c04SetDigest(c.Digest)
		idx := c04BuildIndex(c)
		var want bytes.Buffer
		idx.WriteTo(&want)
		name := fmt.Sprintf("s%d.caibx", t)
		r.Count(fmt.Sprintf("store-s3|%d|%s|%d", t, c.Digest, len(c.Rows)), true)
		r.Dist("store:s3")
		if err := st.StoreIndex(name, idx); err != nil {
			r.Fail("predicate", "store-s3-put", err.Error(), c)
			continue
		}
		srv.mu.Lock()
		stored := append([]byte{}, srv.objects["idx/"+name]...)
		srv.mu.Unlock()
		back, err := st.GetIndex(name)
		if !bytes.Equal(stored, want.Bytes()) || err != nil || c04IndexString(back) != c04IndexString(idx) {
			r.Fail("predicate", "store-s3-roundtrip", fmt.Sprintf("S3 index store round trip differs (stored %d bytes, expected %d, err=%v)", len(stored), want.Len(), err), c)
		}
		// objects that are truncated or carry the other digest's flag must not be returned as an index
		bad := [][]byte{want.Bytes()[:rng.Intn(want.Len())], putWord(want.Bytes(), 16, binary.LittleEndian.Uint64(want.Bytes()[16:])^c04SHA512Flag)}
		for bi, body := range bad {
			tag := []string{"trunc", "digest"}[bi]
			bn := fmt.Sprintf("bad-%s-%d.caibx", tag, t)
			srv.mu.Lock()
			srv.objects["idx/"+bn] = body
			srv.mu.Unlock()
			_, err := st.GetIndex(bn)
			r.Count(fmt.Sprintf("store-s3-bad|%s|%d", tag, t), true)
			if err == nil {
				r.Fail("predicate", "store-s3-accepts-"+tag, "S3IndexStore.GetIndex returned an index for a "+tag+" object",
					&c04Case{Kind: "decode", Digest: c.Digest, Mut: "s3-get-" + tag, FileHex: vh.Hex(body), Truncated: tag == "trunc"})
			}
		}
		if _, err := st.GetIndex("missing.caibx"); err == nil {
			r.Fail("predicate", "store-s3-missing", "GetIndex of a missing object returned an index", c)
		}
	}
	srv.mu.Lock()
	if len(srv.other) > 0 {
		r.Note("fake S3: unsupported requests: %v", srv.other)
	}
	srv.mu.Unlock()
	return nil
}
