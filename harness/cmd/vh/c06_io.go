package main

// C06, faults outside the chunk store:
//  source   ChunkStream reads its input through a reader that fails at a chosen offset -- in particular at
//           offsets where the chunker's 10*max read buffer has just been consumed exactly (offset 0, k*10*max
//           with min=avg=max or runs of zeroes), so that the read error arrives together with an empty chunk.
//           Predicate: nil => the index describes the whole stream (a delivered read error can never give that).
//  sink     Index.WriteTo / LocalIndexStore.StoreIndex write to a sink that fails (the k-th Write call, or every
//           one like /dev/full), for index sizes around bufio's 4096 bytes (<= 99 chunks fit into one flush).
//           Predicate: nil => the bytes that reached the sink decode to the same index; a failed sink write => error.
//  CLI      `desync make <index on /dev/full>` and `desync tar -i ... /dev/full`: exit 0 is a violation.

import (
	"bytes"
	"context"
	"errors"
	"fmt"
	"os"
	"os/exec"
	"path/filepath"
	"strconv"
	"strings"
	"time"

	"github.com/folbricht/desync"

	"vh/internal/vh"
)

type c06IOCase struct {
	Op      string `json:"op"` // source-fault | sink-fault | cli-sink
	N       int    `json:"n,omitempty"`
	BlobHex string `json:"blob_hex,omitempty"`
	Shape   string `json:"shape,omitempty"`
	Min     uint64 `json:"min,omitempty"`
	Avg     uint64 `json:"avg,omitempty"`
	Max     uint64 `json:"max,omitempty"`
	FailAt  int    `json:"fail_at"` // source: byte offset of the read error; sink: 1-based Write call that fails (0: every call)
	Chunks  int    `json:"index_chunks,omitempty"`
	Cmd     string `json:"cmd,omitempty"`
	Level   string `json:"level"` // library-io | cli-io

	Got       string `json:"impl_result,omitempty"`
	Detail    string `json:"detail,omitempty"`
	Delivered bool   `json:"fault_delivered"`
}

var errSourceRead = errors.New("injected read error")
var errSinkWrite = errors.New("injected write error")

type failReader struct {
	b         []byte
	off, at   int
	delivered bool
}

func (f *failReader) Read(p []byte) (int, error) {
	if f.off >= f.at {
		f.delivered = true
		return 0, errSourceRead
	}
	n := copy(p, f.b[f.off:f.at])
	f.off += n
	return n, nil
}

type failWriter struct {
	buf       bytes.Buffer
	calls, at int
	delivered bool
}

func (w *failWriter) Write(p []byte) (int, error) {
	w.calls++
	if w.at == 0 || w.calls == w.at {
		w.delivered = true
		return 0, errSinkWrite
	}
	return w.buf.Write(p)
}

func c06IOCheck(a vh.Args, r *vh.Result, c *c06IOCase) error {
	desync.Digest = desync.SHA512256{}
	work := filepath.Join(a.Work, "c06io")
	os.RemoveAll(work)
	if err := os.MkdirAll(work, 0755); err != nil {
		return err
	}
	switch c.Op {
	case "source-fault":
		blob := vh.UnHex(c.BlobHex)
		target, _, err := bkNewStore(work, "target")
		if err != nil {
			return err
		}
		fr := &failReader{b: blob, at: c.FailAt}
		ch, err := desync.NewChunker(fr, c.Min, c.Avg, c.Max)
		if err != nil {
			return err
		}
		idx, opErr := desync.ChunkStream(context.Background(), ch, target, c.N)
		c.Got, c.Delivered = bkErrClass(opErr), fr.delivered
		key := fmt.Sprintf("src|%s|%d|%d|%d|%d", c.Shape, c.Max, c.FailAt, len(blob), c.N)
		r.Count(key, c.Delivered)
		r.Dist("io:source-fault " + c.Shape)
		r.Dist("io-result:source-fault/" + c.Got)
		if c.Got == "nil" {
			if d := bkIndexDescribes(idx, blob); d != "" {
				c.Detail = d
				r.Fail("predicate", "chunkstream/nil-after-source-read-error", fmt.Sprintf("ChunkStream (n=%d, %s input of %d bytes, min/avg/max %d/%d/%d) returned nil although reading the source failed at offset %d; the index does not describe the stream: %s", c.N, c.Shape, len(blob), c.Min, c.Avg, c.Max, c.FailAt, d), c)
			}
		}
	case "sink-fault":
		in := bkDupInput(vh.NewRand(uint64(c.Chunks)+7), c.Chunks, c.Chunks, 30)
		if c.Chunks == 0 {
			in = bkInput{}
		}
		idx := in.index()
		fw := &failWriter{at: c.FailAt}
		_, werr := idx.WriteTo(fw)
		c.Got, c.Delivered = bkErrClass(werr), fw.delivered
		key := fmt.Sprintf("sink|%d|%d", c.Chunks, c.FailAt)
		r.Count(key, c.Delivered)
		r.Dist("io:sink-fault " + bucket(c.Chunks) + " chunks")
		r.Dist("io-result:sink-fault/" + c.Got)
		if werr == nil {
			got, derr := desync.IndexFromReader(bytes.NewReader(fw.buf.Bytes()))
			switch {
			case c.Delivered:
				r.Fail("predicate", "index-write/sink-error-not-reported", fmt.Sprintf("Index.WriteTo (%d chunks) returned nil although Write call %d of the sink failed (%d bytes reached the sink)", c.Chunks, c.FailAt, fw.buf.Len()), c)
			case derr != nil || len(got.Chunks) != len(idx.Chunks):
				r.Fail("predicate", "index-write/nil-but-index-not-written", fmt.Sprintf("Index.WriteTo (%d chunks) returned nil but the sink holds %d bytes that do not decode to the index (%v)", c.Chunks, fw.buf.Len(), derr), c)
			}
		}
	case "cli-sink":
		bin := os.Getenv("VH_DESYNC")
		if bin == "" {
			return nil
		}
		blob := vh.UnHex(c.BlobHex)
		file := filepath.Join(work, "file")
		if err := os.WriteFile(file, blob, 0644); err != nil {
			return err
		}
		var args []string
		switch c.Cmd {
		case "make":
			args = []string{"make", "-n", strconv.Itoa(c.N), "-m", "1:2:4", "/dev/full", file}
		case "make-s":
			_, sdir, err := bkNewStore(work, "store")
			if err != nil {
				return err
			}
			args = []string{"make", "-s", sdir, "-n", strconv.Itoa(c.N), "-m", "1:2:4", "/dev/full", file}
		case "tar":
			_, sdir, err := bkNewStore(work, "store")
			if err != nil {
				return err
			}
			tree := filepath.Join(work, "tree")
			os.MkdirAll(filepath.Join(tree, "d"), 0755)
			os.WriteFile(filepath.Join(tree, "d", "f"), blob, 0644)
			args = []string{"tar", "-i", "-s", sdir, "-n", strconv.Itoa(c.N), "-m", "1:2:4", "/dev/full", tree}
		default:
			return fmt.Errorf("unknown cli-sink command %q", c.Cmd)
		}
		ctx, cancel := context.WithTimeout(context.Background(), 60*time.Second)
		defer cancel()
		cmd := exec.CommandContext(ctx, bin, args...)
		var stderr bytes.Buffer
		cmd.Stderr = &stderr
		cmd.Env = append(os.Environ(), "HOME="+work)
		rerr := cmd.Run()
		rc := 0
		if rerr != nil {
			rc = -1
			if ee, ok := rerr.(*exec.ExitError); ok {
				rc = ee.ExitCode()
			}
		}
		c.Got, c.Delivered = "exit:"+strconv.Itoa(rc), true
		c.Detail = strings.TrimSpace(stderr.String())
		if len(c.Detail) > 200 {
			c.Detail = c.Detail[:200]
		}
		r.Count(fmt.Sprintf("clisink|%s|%d|%d", c.Cmd, len(blob), c.N), true)
		r.Dist("io:cli-sink " + c.Cmd)
		r.Dist("io-result:cli-sink/" + c.Got)
		if rc == 0 {
			r.Fail("predicate", "cli-"+strings.SplitN(c.Cmd, "-", 2)[0]+"/exit0-but-index-not-written", fmt.Sprintf("desync %s with the index on /dev/full (%d bytes of input) exited 0: nothing can have been written", c.Cmd, len(blob)), c)
		}
	default:
		return fmt.Errorf("unknown io op %q", c.Op)
	}
	return nil
}

func c06IOs(a vh.Args, r *vh.Result, rng *vh.Rand) error {
	thorough := a.Tier == "thorough"
	// ---- source faults ----
	type shape struct {
		name          string
		min, avg, max uint64
		blob          func(n int) []byte
	}
	shapes := []shape{
		{"zeroes", 48, 64, 128, func(n int) []byte { return make([]byte, n) }},
		{"min=avg=max", 64, 64, 64, func(n int) []byte { return rng.Bytes(n) }},
		{"min=avg=max-128", 128, 128, 128, func(n int) []byte { return rng.Bytes(n) }},
		{"random", 48, 96, 256, func(n int) []byte { return rng.Bytes(n) }},
	}
	for _, sh := range shapes {
		buf := int(10 * sh.max)
		size := buf*3 + int(sh.max)*3 + rng.Intn(50)
		blob := sh.blob(size)
		offs := []int{0, buf, 2 * buf, 3 * buf, buf - 1, buf + 1, buf + int(sh.max), 1, size - 1, rng.Intn(size), rng.Intn(size), size}
		if thorough {
			for i := 0; i < 40; i++ {
				offs = append(offs, rng.Intn(size+1), int(sh.max)*rng.Intn(size/int(sh.max)))
			}
		}
		for i, off := range offs {
			c := &c06IOCase{Op: "source-fault", N: []int{1, 4}[i%2], BlobHex: vh.Hex(blob), Shape: sh.name, Min: sh.min, Avg: sh.avg, Max: sh.max, FailAt: off, Level: "library-io"}
			if err := c06IOCheck(a, r, c); err != nil {
				return err
			}
		}
	}
	// ---- sink faults ----
	for _, nch := range []int{0, 1, 5, 50, 98, 99, 100, 101, 150, 400} {
		for _, at := range []int{0, 1, 2, 3, -1} {
			c := &c06IOCase{Op: "sink-fault", Chunks: nch, FailAt: at, Level: "library-io"}
			if at == -1 {
				c.FailAt = 1000 // never reached: the plain round trip
			}
			if err := c06IOCheck(a, r, c); err != nil {
				return err
			}
		}
	}
	// ---- CLI: the index target is /dev/full ----
	if _, err := os.Stat("/dev/full"); err == nil && os.Getenv("VH_DESYNC") != "" {
		for i, cmd := range []string{"make", "make-s", "tar", "make", "tar"} {
			size := 3000 + rng.Intn(4000) // a handful of chunks: the index fits into one buffer
			if i >= 3 {
				size = 400000 // > 99 chunks
			}
			c := &c06IOCase{Op: "cli-sink", Cmd: cmd, N: 2, BlobHex: vh.Hex(rng.Bytes(size)), Level: "cli-io"}
			if err := c06IOCheck(a, r, c); err != nil {
				return err
			}
		}
	}
	return nil
}
