package main

// C06 -- bulk writes (make, chop, cache, tar -i) are complete when they report success.
//
// Library level: ChopFile, Copy, ChunkStream and make (= IndexFromFile + ChopFile) run against a
// target store wrapped in a fault injector (the k-th HasChunk / StoreChunk / GetChunk call fails,
// every k for small inputs, random subsets otherwise), on inputs with at least 50% duplicate
// chunks, with N in {1,2,4,16}.  Predicates (independent of the model):
//   P1  nil  => every chunk of the index is read back, valid, through a FRESH verifying store,
//              and a produced index describes the input exactly;
//   P2  an injected failure that was delivered => the result is an error;
//   P3  no failure delivered and a valid input => nil.
// Correspondence (N = 1, where the run is deterministic): result class, ids present in the target
// afterwards and the number of calls of each kind equal the extracted model's.
// ChunkStorage is also driven directly (retry after a failed StoreChunk).
// Cancellation (c06_cancel.go): the same operations with the context cancelled at generated points; nil => complete.
// CLI level: `desync make/chop/cache/tar -i` against an HTTP chunk server that fails requests.

import (
	"bytes"
	"context"
	"fmt"
	"os"
	"path/filepath"
	"sort"
	"strconv"
	"strings"
	"time"

	"github.com/folbricht/desync"

	"vh/internal/vh"
)

func init() { props["C06"] = runC06 }

type c06Fault struct {
	Kind string `json:"kind"` // has | store | get
	K    int    `json:"k"`    // 1-based call number of that kind
}

type c06Case struct {
	Op      string     `json:"op"`      // chop | copy | chunkstream | make | chunkstorage
	Variant string     `json:"variant"` // ok | stale@<j> (file changed after the index was made) | missing@<j> (copy: source lacks the chunk)
	N       int        `json:"n"`
	BlobHex string     `json:"blob_hex"`
	Sizes   []int      `json:"sizes"`
	Min     uint64     `json:"min,omitempty"`
	Avg     uint64     `json:"avg,omitempty"`
	Max     uint64     `json:"max,omitempty"`
	Pre     []int      `json:"prestored"` // chunk numbers already in the target
	Faults  []c06Fault `json:"faults"`
	Level   string     `json:"level"`

	Got       string         `json:"impl_result,omitempty"`
	Detail    string         `json:"detail,omitempty"`
	Delivered int            `json:"faults_delivered"`
	Calls     map[string]int `json:"calls,omitempty"`
	ReadBack  string         `json:"read_back,omitempty"`
	Model     string         `json:"model,omitempty"`
}

func (c *c06Case) input() bkInput { return bkInput{Blob: vh.UnHex(c.BlobHex), Sizes: c.Sizes} }

// c06Exec runs the case on the implementation.
// It returns the chunk list that the operation was expected to store (for read-back and the model).
func c06Exec(a vh.Args, c *c06Case) (idx desync.Index, dir string, produced *desync.Index, err error) {
	desync.Digest = desync.SHA512256{}
	in := c.input()
	work := filepath.Join(a.Work, "c06")
	os.RemoveAll(work)
	if err = os.MkdirAll(work, 0755); err != nil {
		return
	}
	kind, j := c07Variant(c.Variant)
	plan := newFaultPlan()
	for _, f := range c.Faults {
		plan.add(f.Kind, f.K)
	}
	ctx := context.Background()
	pb := desync.NullProgressBar{}
	var target desync.LocalStore
	target, dir, err = bkNewStore(work, "target")
	if err != nil {
		return
	}
	ws := &hookStore{target, plan.hook}
	var opErr error

	switch c.Op {
	case "chop", "copy", "chunkstorage":
		idx = in.index()
		chs := in.chunks()
		for _, p := range c.Pre {
			if p < len(chs) {
				if err = target.StoreChunk(desync.NewChunk(chs[p])); err != nil {
					return
				}
			}
		}
	}

	switch c.Op {
	case "chop":
		file := append([]byte{}, in.Blob...)
		if kind == "stale" {
			file[chunkStartOf(in.Sizes, j)] ^= 0x21
		}
		name := filepath.Join(work, "file")
		if err = os.WriteFile(name, file, 0644); err != nil {
			return
		}
		opErr = desync.ChopFile(ctx, name, idx.Chunks, ws, c.N, pb)

	case "copy":
		var src desync.LocalStore
		src, _, err = bkNewStore(work, "src")
		if err != nil {
			return
		}
		ids := make([]desync.ChunkID, len(idx.Chunks))
		for i, ch := range in.chunks() {
			ids[i] = idx.Chunks[i].ID
			if kind == "missing" && ids[i] == idx.Chunks[j].ID {
				continue
			}
			if err = src.StoreChunk(desync.NewChunk(ch)); err != nil {
				return
			}
		}
		opErr = desync.Copy(ctx, ids, &hookStore{src, plan.hook}, ws, c.N, pb)

	case "chunkstream":
		var ch desync.Chunker
		ch, err = desync.NewChunker(bytes.NewReader(in.Blob), c.Min, c.Avg, c.Max)
		if err != nil {
			return
		}
		var got desync.Index
		got, opErr = desync.ChunkStream(ctx, ch, ws, c.N)
		produced = &got
		// the expected chunk list: the sequential chunker on the same input
		idx, err = c06SeqIndex(in.Blob, c.Min, c.Avg, c.Max)
		if err != nil {
			return
		}

	case "make":
		// cmd/desync/make.go: IndexFromFile, then ChopFile with the produced index
		name := filepath.Join(work, "file")
		if err = os.WriteFile(name, in.Blob, 0644); err != nil {
			return
		}
		var got desync.Index
		got, _, opErr = desync.IndexFromFile(ctx, name, c.N, c.Min, c.Avg, c.Max, pb)
		if opErr == nil {
			opErr = desync.ChopFile(ctx, name, got.Chunks, ws, c.N, pb)
		}
		produced = &got
		idx = got
		if opErr != nil {
			idx, err = c06SeqIndex(in.Blob, c.Min, c.Avg, c.Max)
			if err != nil {
				return
			}
		}

	default:
		err = fmt.Errorf("unknown op %q", c.Op)
		return
	}
	c.Got = bkErrClass(opErr)
	if opErr != nil {
		c.Detail = opErr.Error()
	}
	c.Delivered = plan.delivered
	c.Calls = map[string]int{"has": plan.calls["has"], "store": plan.calls["store"], "get": plan.calls["get"]}
	return
}

// c06SeqIndex chunks blob with the sequential chunker (the reference for ChunkStream and make).
func c06SeqIndex(blob []byte, min, avg, max uint64) (desync.Index, error) {
	ch, err := desync.NewChunker(bytes.NewReader(blob), min, avg, max)
	if err != nil {
		return desync.Index{}, err
	}
	var idx desync.Index
	for {
		start, b, err := ch.Next()
		if err != nil {
			return idx, err
		}
		if len(b) == 0 {
			return idx, nil
		}
		idx.Chunks = append(idx.Chunks, desync.IndexChunk{Start: start, Size: uint64(len(b)), ID: desync.Digest.Sum(b)})
	}
}

func c06FaultTag(fs []c06Fault) string {
	if len(fs) == 0 {
		return "none"
	}
	s := make([]string, len(fs))
	for i, f := range fs {
		s[i] = fmt.Sprintf("%s%d", f.Kind[:1], f.K)
	}
	return strings.Join(s, "+")
}

// c06Check: run, predicates, correspondence (n == 1).
func c06Check(a vh.Args, o *vh.Oracle, r *vh.Result, c *c06Case) error {
	idx, dir, produced, err := c06Exec(a, c)
	if err != nil {
		return err
	}
	in := c.input()
	dupf := 0.0
	{
		seen := map[desync.ChunkID]bool{}
		d := 0
		for _, ch := range idx.Chunks {
			if seen[ch.ID] {
				d++
			}
			seen[ch.ID] = true
		}
		if len(idx.Chunks) > 0 {
			dupf = float64(d) / float64(len(idx.Chunks))
		}
	}
	key := fmt.Sprintf("%s|%s|%d|%d|%v|%s", c.Op, c.Variant, c.N, len(idx.Chunks), c.Pre, c06FaultTag(c.Faults))
	r.Count(key, c.Delivered > 0 || c.Variant != "ok")
	r.Dist("op:" + c.Op)
	r.Dist("n:" + strconv.Itoa(c.N))
	r.Dist("result:" + c.Op + "/" + c.Got)
	r.Dist(fmt.Sprintf("dup>=50%%:%v", dupf >= 0.5))
	r.Dist("faults:" + strconv.Itoa(len(c.Faults)))
	if c.Delivered > 0 {
		r.Dist("fault:delivered")
	} else if len(c.Faults) > 0 {
		r.Dist("fault:not-reached")
	}
	r.Sample(map[string]interface{}{"op": c.Op, "variant": c.Variant, "n": c.N, "chunks": len(idx.Chunks), "dup_fraction": dupf, "faults": c06FaultTag(c.Faults), "impl": c.Got})

	// ---- predicates ----
	invalid := c.Variant != "ok"
	if vk, vj := c07Variant(c.Variant); vk == "missing" {
		// a chunk missing from the source does not matter when the target already holds it
		for _, p := range c.Pre {
			if p < len(idx.Chunks) && idx.Chunks[p].ID == idx.Chunks[vj].ID {
				invalid = false
			}
		}
	}
	expectBlob := in.Blob
	if c.Got == "nil" {
		rb := bkReadBack(dir, idx, expectBlob)
		c.ReadBack = rb
		if rb != "" {
			r.Fail("predicate", c.Op+"/nil-but-chunk-not-readable", fmt.Sprintf("%s (n=%d, variant %s, faults %s) returned nil but the target is incomplete: %s", c.Op, c.N, c.Variant, c06FaultTag(c.Faults), rb), c)
		}
		if produced != nil {
			if d := bkIndexDescribes(*produced, in.Blob); d != "" {
				r.Fail("predicate", c.Op+"/nil-but-index-wrong", fmt.Sprintf("%s (n=%d) returned nil but the produced index does not describe the input: %s", c.Op, c.N, d), c)
			}
		}
	}
	if c.Delivered > 0 && c.Got == "nil" {
		r.Fail("predicate", c.Op+"/store-failure-not-reported", fmt.Sprintf("%s (n=%d, variant %s): %d injected store failure(s) (%s) were delivered but the result is nil", c.Op, c.N, c.Variant, c.Delivered, c06FaultTag(c.Faults)), c)
	}
	if c.Delivered == 0 && !invalid && c.Got != "nil" {
		r.Fail("predicate", c.Op+"/error-without-failure", fmt.Sprintf("%s (n=%d) returned %s (%s) although no store operation failed", c.Op, c.N, c.Got, c.Detail), c)
	}
	if invalid && c.Got == "nil" {
		r.Fail("predicate", c.Op+"/invalid-input-accepted", fmt.Sprintf("%s (n=%d, variant %s) returned nil", c.Op, c.N, c.Variant), c)
	}

	// ---- correspondence with the model (deterministic for one worker) ----
	if o == nil || c.N != 1 || c.Op == "make" {
		return nil
	}
	// number the distinct contents (ids) of the case: content number = position of first occurrence + 1
	num := map[desync.ChunkID]int{}
	for _, ch := range idx.Chunks {
		if _, ok := num[ch.ID]; !ok {
			num[ch.ID] = len(num) + 1
		}
	}
	kind, j := c07Variant(c.Variant)
	jobs := make([]string, len(idx.Chunks))
	for i, ch := range idx.Chunks {
		id, content := num[ch.ID], num[ch.ID]
		if kind == "stale" && i == j {
			content = 100000 + i // the file no longer holds the indexed bytes at row j
		}
		jobs[i] = fmt.Sprintf("%d:%d", id, content)
	}
	var srcIDs, preIDs []string
	if c.Op == "copy" {
		for id, n := range num {
			if kind == "missing" && id == idx.Chunks[j].ID {
				continue
			}
			srcIDs = append(srcIDs, strconv.Itoa(n))
		}
		sort.Strings(srcIDs)
	}
	for _, p := range c.Pre {
		if p < len(idx.Chunks) {
			preIDs = append(preIDs, strconv.Itoa(num[idx.Chunks[p].ID]))
		}
	}
	var fl []string
	for _, f := range c.Faults {
		fl = append(fl, fmt.Sprintf("%s:%d", f.Kind[:1], f.K-1))
	}
	mode := map[string]string{"chop": "chop", "copy": "copy", "chunkstream": "stream"}[c.Op]
	ans, err := o.Call("c06.run", mode, "1", strings.Join(jobs, ","), strings.Join(srcIDs, ","), strings.Join(preIDs, ","), strings.Join(fl, ","))
	if err != nil {
		return err
	}
	c.Model = ans
	f := strings.Fields(ans)
	if len(f) != 5 {
		return fmt.Errorf("unexpected oracle answer %q", ans)
	}
	r.Corr()
	if f[0] != c.Got {
		r.Fail("corr", "corr:C06/result", fmt.Sprintf("%s n=1 variant %s faults %s: implementation %s, model %s", c.Op, c.Variant, c06FaultTag(c.Faults), c.Got, f[0]), c)
	}
	// ids present in the target afterwards
	fresh, err := desync.NewLocalStore(dir, desync.StoreOptions{})
	if err != nil {
		return err
	}
	var present []int
	for id, n := range num {
		if ok, _ := fresh.HasChunk(id); ok {
			present = append(present, n)
		}
	}
	sort.Ints(present)
	ps := make([]string, len(present))
	for i, p := range present {
		ps[i] = strconv.Itoa(p)
	}
	implIDs := strings.Join(ps, ",")
	if implIDs == "" {
		implIDs = "-"
	}
	r.Corr()
	if implIDs != f[1] {
		r.Fail("corr", "corr:C06/store-content", fmt.Sprintf("%s n=1 variant %s faults %s: target holds contents {%s}, model {%s}", c.Op, c.Variant, c06FaultTag(c.Faults), implIDs, f[1]), c)
	}
	calls := fmt.Sprintf("%d/%d/%d", c.Calls["has"], c.Calls["store"], c.Calls["get"])
	r.Corr()
	if calls != f[3] {
		r.Fail("corr", "corr:C06/store-calls", fmt.Sprintf("%s n=1 variant %s faults %s: HasChunk/StoreChunk/GetChunk calls %s, model %s", c.Op, c.Variant, c06FaultTag(c.Faults), calls, f[3]), c)
	}
	if c.Op == "chunkstream" && c.Got == "nil" && produced != nil {
		rows := make([]string, len(produced.Chunks))
		for i, ch := range produced.Chunks {
			rows[i] = strconv.Itoa(num[ch.ID])
		}
		rs := strings.Join(rows, ",")
		if rs == "" {
			rs = "-"
		}
		r.Corr()
		if rs != f[4] {
			r.Fail("corr", "corr:C06/index-rows", fmt.Sprintf("chunkstream n=1: index rows %s, model %s", rs, f[4]), c)
		}
	}
	return nil
}

func runC06(a vh.Args, o *vh.Oracle, r *vh.Result) error {
	r.Rule = "case = (operation, input with duplicate chunks, worker count n, chunks already in the target, set of failing store calls (kind, k-th call)); non-trivial = a failure was delivered or the input is invalid (stale file / chunk missing in the source); distinct by (op, variant, n, chunk count, prestored, fault set). Predicates: nil => full read-back through a fresh verifying store and exact index; delivered failure => error; no failure => nil."
	if a.Replay != "" {
		var c c06Case
		if err := readJSON(a.Replay, &c); err != nil {
			return err
		}
		if c.Level == "cli" {
			return c06CLIReplay(a, r, &c)
		}
		if c.Level == "library-io" || c.Level == "cli-io" {
			var ic c06IOCase
			if err := readJSON(a.Replay, &ic); err != nil {
				return err
			}
			return c06IOCheck(a, r, &ic)
		}
		if c.Level == "cli-multi" {
			var mc c06MultiCase
			if err := readJSON(a.Replay, &mc); err != nil {
				return err
			}
			return c06MultiCheck(a, r, &mc)
		}
		if c.Level == "cli-tarinput" {
			var tc c06TarInCase
			if err := readJSON(a.Replay, &tc); err != nil {
				return err
			}
			return c06TarInCheck(a, r, &tc)
		}
		if c.Level == "library-rows" {
			var rc c06RowsCase
			if err := readJSON(a.Replay, &rc); err != nil {
				return err
			}
			for i := 0; i < 3; i++ {
				x := rc
				if err := c06RowsCheck(a, r, &x); err != nil {
					return err
				}
			}
			return nil
		}
		if c.Level == "library-stall" {
			var sc c06StallCase
			if err := readJSON(a.Replay, &sc); err != nil {
				return err
			}
			for i := 0; i < 10; i++ {
				x := sc
				if err := c06StallCheck(a, r, &x); err != nil {
					return err
				}
			}
			return nil
		}
		if c.Level == "library-cancel" {
			var cc c06CancelCase
			if err := readJSON(a.Replay, &cc); err != nil {
				return err
			}
			base := cc
			base.Cancel = c06Cancel{Mode: "never"}
			if err := c06CancelCheck(a, r, &base, nil); err != nil {
				return err
			}
			for i := 0; i < 10; i++ {
				x := cc
				if err := c06CancelCheck(a, r, &x, base.Calls); err != nil {
					return err
				}
			}
			return nil
		}
		if c.Op == "chunkstorage" {
			return c06StorageCase(a, o, r, &c)
		}
		reps := 1
		if c.N > 1 {
			reps = 20
		}
		for i := 0; i < reps; i++ {
			cc := c
			if err := c06Check(a, o, r, &cc); err != nil {
				return err
			}
		}
		return nil
	}
	rng := vh.NewRand(a.Seed)
	thorough := a.Tier == "thorough"
	ns := []int{1, 2, 4, 16}
	inputs := 3
	exhaustiveLimit := 14
	randomSets := 6
	if thorough {
		inputs = 16
		exhaustiveLimit = 60
		randomSets = 25
	}
	ops := []string{"chop", "copy", "chunkstream", "make"}
	for _, op := range ops {
		for ii := 0; ii < inputs; ii++ {
			var c0 c06Case
			c0.Op, c0.Level = op, "library"
			var in bkInput
			if op == "chunkstream" || op == "make" {
				// repeated segments so that content-defined chunking yields many duplicate chunks
				seg := rng.Bytes(300 + rng.Intn(500))
				reps := 4 + rng.Intn(4)
				var blob []byte
				for i := 0; i < reps; i++ {
					blob = append(blob, seg...)
				}
				blob = append(blob, rng.Bytes(rng.Intn(200))...)
				sparseIsland := false
				if op == "make" && ii == inputs-2 {
					// a sparse image: zeroes except for one small island of data (shorter than min) that sits shortly after
					// the start of the second parallel chunker (n=2 starts it at 100.5*max), null-chunk grids unaligned
					const mx = 256
					blob = make([]byte, 201*mx)
					at := 102*mx + mx/4 + rng.Intn(mx/4)
					for i := 0; i < 24+rng.Intn(40); i++ {
						blob[at+i] = byte(rng.Intn(255)) | 1
					}
					sparseIsland = true
				}
				if op == "make" && ii == inputs-1 {
					// a sparse file: small islands of data between long runs of zeroes (null chunks of the maximum
					// size, whose grid is not aligned between the parallel chunkers)
					blob = nil
					for k := 0; k < 3; k++ {
						blob = append(blob, make([]byte, 300*(7+rng.Intn(8))+rng.Intn(299))...)
						blob = append(blob, rng.Bytes(60+rng.Intn(500))...)
					}
					blob = append(blob, make([]byte, 300*(9+rng.Intn(8))+rng.Intn(299))...)
				}
				in = bkInput{Blob: blob}
				c0.Min, c0.Avg, c0.Max = 48, 96, 300
				if sparseIsland {
					c0.Min, c0.Avg, c0.Max = 64, 128, 256
				}
			} else {
				nch := 4 + rng.Intn(5)
				if ii > 0 {
					nch = 8 + rng.Intn(20)
				}
				in = bkDupInput(rng, nch, 1+nch/3, 40)
			}
			c0.BlobHex, c0.Sizes = vh.Hex(in.Blob), in.Sizes
			variants := []string{"ok"}
			if op == "chop" {
				variants = append(variants, fmt.Sprintf("stale@%d", rng.Intn(len(in.Sizes))))
			}
			if op == "copy" {
				variants = append(variants, fmt.Sprintf("missing@%d", rng.Intn(len(in.Sizes))))
			}
			for _, v := range variants {
				for _, n := range ns {
					pres := [][]int{nil}
					if op == "chop" || op == "copy" {
						pres = append(pres, []int{rng.Intn(len(in.Sizes)), rng.Intn(len(in.Sizes))})
					}
					for _, pre := range pres {
						base := c0
						base.Variant, base.N, base.Pre = v, n, pre
						if err := c06Check(a, o, r, &base); err != nil {
							return err
						}
						// single failures: every k-th call of every kind (exhaustive when small)
						for _, kind := range []string{"has", "store", "get"} {
							total := base.Calls[kind]
							for _, k := range pickKs1(rng, total, exhaustiveLimit) {
								c := c0
								c.Variant, c.N, c.Pre = v, n, pre
								c.Faults = []c06Fault{{kind, k}}
								if err := c06Check(a, o, r, &c); err != nil {
									return err
								}
							}
						}
						// random subsets of failing calls
						for t := 0; t < randomSets; t++ {
							c := c0
							c.Variant, c.N, c.Pre = v, n, pre
							nf := 1 + rng.Intn(3)
							for q := 0; q < nf; q++ {
								kind := []string{"has", "store", "get"}[rng.Intn(3)]
								if base.Calls[kind] == 0 {
									continue
								}
								c.Faults = append(c.Faults, c06Fault{kind, 1 + rng.Intn(base.Calls[kind])})
							}
							if len(c.Faults) == 0 {
								continue
							}
							if err := c06Check(a, o, r, &c); err != nil {
								return err
							}
						}
					}
				}
			}
		}
	}
	if err := c06Storage(a, o, r, rng); err != nil {
		return err
	}
	if err := c06Cancels(a, r, rng); err != nil {
		return err
	}
	if err := c06Stalls(a, r, rng); err != nil {
		return err
	}
	tr := time.Now()
	if err := c06Rows(a, r, rng); err != nil {
		return err
	}
	r.Note("time many-rows family: %.1fs", time.Since(tr).Seconds())
	if err := c06TarInputs(a, r, rng); err != nil {
		return err
	}
	if err := c06Multis(a, r, rng); err != nil {
		return err
	}
	if err := c06IOs(a, r, rng); err != nil {
		return err
	}
	return c06CLI(a, r, rng)
}

// pickKs1 returns 1..total if total <= limit, else limit values (always 1 and total).
func pickKs1(rng *vh.Rand, total, limit int) []int {
	if total <= 0 {
		return nil
	}
	if total <= limit {
		out := make([]int, total)
		for i := range out {
			out[i] = i + 1
		}
		return out
	}
	set := map[int]bool{1: true, total: true}
	for len(set) < limit {
		set[1+rng.Intn(total)] = true
	}
	out := make([]int, 0, len(set))
	for k := range set {
		out = append(out, k)
	}
	sort.Ints(out)
	return out
}
