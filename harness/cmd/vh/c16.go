package main

// C16 -- prune and verify remove exactly what they should.
//
// Predicates evaluated on the implementation (independent of the Coq model):
//   prune/safe      every path that disappeared is a file named .tmp-cacnk* or the canonical own-format
//                   name of an id outside the keep-set; nothing else changed or appeared
//   prune/complete  result nil => no canonical own-format chunk file with id outside the keep-set and no
//                   .tmp-cacnk* file remains
//   verify/exact    the ids reported as not matching their hash = the canonical own-format chunk files
//                   whose object does not decode to data hashing to the name; with repair exactly those
//                   files are removed, without repair nothing is; Verify returns nil
// Correspondence with Model/Prune.v: result class, tree after the operation, reported (id, sum) set.

import (
	"bytes"
	"context"
	"crypto/sha256"
	"encoding/hex"
	"fmt"
	"os"
	"os/exec"
	"path/filepath"
	"regexp"
	"sort"
	"strings"
	"sync"

	"github.com/folbricht/desync"

	"vh/internal/vh"
)

func init() { props["C16"] = runC16 }

type c16Case struct {
	Kind    string   `json:"kind"` // prune | verify | s3prune
	Unc     bool     `json:"unc"`
	Tree    []fsEnt  `json:"tree,omitempty"`
	Keep    []string `json:"keep,omitempty"`
	KeepTag string   `json:"keep_mode,omitempty"`
	Repair  bool     `json:"repair,omitempty"`
	Skip    bool     `json:"skip_verify,omitempty"` // the store is opened with SkipVerify
	N       int      `json:"n,omitempty"`
	CLI     bool     `json:"cli,omitempty"`
	Prefix  string   `json:"prefix,omitempty"`
	Keys    []string `json:"keys,omitempty"`
	Backend string   `json:"backend,omitempty"`
	Feat    []string `json:"features,omitempty"`
	Outside  []fsEnt `json:"outside,omitempty"`   // files next to the store directory (targets of symlinked chunks)
	CancelAt int     `json:"cancel_at,omitempty"` // cancel the context at the k-th callback (local, SFTP) / request (S3)
	DelFail int      `json:"fail_delete_no,omitempty"` // S3: refuse the n-th DELETE request
	DelHow  string   `json:"fail_delete_how,omitempty"`
	What    string   `json:"what,omitempty"`
}

type lsLockedBuf struct {
	mu sync.Mutex
	b  bytes.Buffer
}

func (l *lsLockedBuf) Write(p []byte) (int, error) {
	l.mu.Lock()
	defer l.mu.Unlock()
	return l.b.Write(p)
}

func lsSha256Hex(b []byte) string {
	s := sha256.Sum256(b)
	return hex.EncodeToString(s[:])
}

// validObject: does the stored object decode to data whose SHA-256 is the id?  (independent of desync's
// Chunk type; uses only the codec)
func validObject(unc bool, content []byte, idh string) bool {
	if len(content) == 0 {
		return false
	}
	plain := content
	if !unc {
		p, err := desync.Decompress(nil, content)
		if err != nil {
			return false
		}
		plain = p
	}
	return lsSha256Hex(plain) == idh
}

func canonicalID(rel string, unc bool) (string, bool) {
	re := reCompName
	if unc {
		re = reUncName
	}
	m := re.FindStringSubmatch(rel)
	if m == nil || m[2][:4] != m[1] {
		return "", false
	}
	return m[2], true
}

func isTmpName(rel string) bool { return strings.HasPrefix(filepath.Base(rel), ".tmp-cacnk") }

// ---------- generator ----------

type c16Gen struct {
	outside []fsEnt
	ents []fsEnt
	ids  []string // universe
	feat map[string]bool
	seen map[string]bool
}

func (g *c16Gen) add(p, kind string, data []byte, feat string) {
	if g.seen[p] {
		return
	}
	for _, e := range g.ents {
		if e.Kind != "d" && strings.HasPrefix(p, e.Path+"/") {
			return // an ancestor is a file
		}
		if kind != "d" && strings.HasPrefix(e.Path, p+"/") {
			return // p has children already, so it must be a directory
		}
	}
	g.seen[p] = true
	g.ents = append(g.ents, fsEnt{Path: p, Kind: kind, Data: data})
	if feat != "" {
		g.feat[feat] = true
	}
}

func (g *c16Gen) isDir(p string) bool {
	for _, e := range g.ents {
		if e.Path == p {
			return e.Kind == "d"
		}
	}
	return false
}

func lsUpper(s string) string { return strings.ToUpper(s) }

func c16GenTree(rng *vh.Rand) *c16Gen {
	g := &c16Gen{feat: map[string]bool{}, seen: map[string]bool{}}
	k := 2 + rng.Intn(5)
	type ch struct {
		id   string
		data []byte
	}
	var cs []ch
	for i := 0; i < k; i++ {
		d, _ := vh.Blob(rng, 1+rng.Intn(48))
		d = append(d, byte(i)) // distinct
		cs = append(cs, ch{lsSha256Hex(d), d})
		g.ids = append(g.ids, lsSha256Hex(d))
	}
	obj := func(c ch, unc bool) []byte {
		if unc {
			return c.data
		}
		b, _ := desync.Compress(c.data)
		return b
	}
	ext := func(unc bool) string {
		if unc {
			return ""
		}
		return ".cacnk"
	}
	for i, c := range cs {
		for _, unc := range []bool{false, true} {
			name := c.id[:4] + "/" + c.id + ext(unc)
			switch v := rng.Intn(20); {
			case v < 6:
			case v < 14:
				g.add(name, "f", obj(c, unc), "valid")
			case v < 16:
				b := append([]byte{}, obj(c, unc)...)
				b[rng.Intn(len(b))] ^= byte(1 << uint(rng.Intn(8)))
				g.add(name, "f", b, "corrupt")
			case v < 17:
				g.add(name, "f", obj(cs[(i+1)%k], unc), "foreign-object")
			case v < 18:
				g.add(name, "f", nil, "empty-object")
			case v < 19:
				g.add(name, "f", obj(c, !unc), "other-format-bytes")
			default:
				g.add(name, "f", rng.Bytes(1+rng.Intn(30)), "garbage")
			}
		}
	}
	pick := func() ch { return cs[rng.Intn(k)] }
	strayObj := func(c ch, unc bool) []byte {
		switch rng.Intn(3) {
		case 0:
			g.feat["stray-garbage"] = true
			return rng.Bytes(1 + rng.Intn(40))
		case 1:
			g.feat["stray-foreign-object"] = true
			return obj(cs[(rng.Intn(k)+1)%k], unc)
		}
		return obj(c, unc)
	}
	nx := rng.Intn(7)
	for j := 0; j < nx; j++ {
		c := pick()
		unc := rng.Bool()
		switch rng.Intn(18) {
		case 17: // the chunk's canonical file is a symbolic link: to a file in the store, next to it, or nowhere
			name := c.id[:4] + "/" + c.id + ext(unc)
			content := obj(c, unc)
			if rng.Chance(1, 3) {
				content = rng.Bytes(1 + rng.Intn(30)) // the linked object is damaged
				g.feat["symlink-chunk-invalid"] = true
			}
			if g.seen[name] { // replace the plain file of that slot
				for k := range g.ents {
					if g.ents[k].Path == name {
						g.ents = append(g.ents[:k], g.ents[k+1:]...)
						break
					}
				}
				delete(g.seen, name)
			}
			switch rng.Intn(3) {
			case 0:
				g.add("objects/"+c.id[:8], "f", content, "")
				g.add(name, "l", []byte("../objects/"+c.id[:8]), "symlink-chunk-inside")
			case 1:
				// one outside file per (id, format) slot; a slot drawn again gets the new content
				on := c.id[:8] + map[bool]string{true: "-u", false: "-c"}[unc]
				kept := g.outside[:0:0]
				for _, e := range g.outside {
					if e.Path != on {
						kept = append(kept, e)
					}
				}
				g.outside = append(kept, fsEnt{Path: on, Kind: "f", Data: content})
				g.add(name, "l", []byte("../../o/"+on), "symlink-chunk-outside")
			default:
				g.add(name, "l", []byte("../../o/missing-"+c.id[:6]), "symlink-chunk-dangling")
			}
		case 16: // the all-zero id with an undecodable or empty object
			z := strings.Repeat("0", 64)
			if rng.Bool() {
				g.add("0000/"+z+ext(unc), "f", []byte("garbage"), "zero-id")
			} else {
				g.add("0000/"+z+ext(unc), "f", nil, "zero-id")
			}
		case 0:
			g.add("README", "f", []byte("junk"), "junk")
		case 1:
			g.add(c.id[:4]+"/notes.txt", "f", []byte("junk"), "junk")
		case 2:
			g.add("deep/a/b/c.txt", "f", []byte("junk"), "junk")
		case 3:
			g.add(fmt.Sprintf(".tmp-cacnk.%d", rng.Intn(1000)), "f", rng.Bytes(rng.Intn(10)), "tmp-root")
		case 4:
			g.add(fmt.Sprintf("%s/.tmp-cacnk.%d", c.id[:4], rng.Intn(1000)), "f", rng.Bytes(rng.Intn(10)), "tmp-in-dir")
		case 5:
			g.add(".tmp-cacnk.d", "d", nil, "tmp-named-dir")
			g.add(".tmp-cacnk.d/x", "f", []byte("x"), "tmp-named-dir")
		case 6: // chunk name in a wrong directory: the right object, garbage, or another chunk's valid object
			g.add([]string{"0000", "backup", c.id[:3] + "0"}[rng.Intn(3)]+"/"+c.id+ext(unc), "f", strayObj(c, unc), "stray-wrong-dir")
		case 7:
			g.add(c.id[:4]+"/sub/"+c.id+ext(unc), "f", strayObj(c, unc), "stray-nested")
		case 8:
			g.add(c.id+ext(unc), "f", strayObj(c, unc), "stray-root")
		case 9:
			g.add(lsUpper(c.id[:4])+"/"+lsUpper(c.id)+ext(unc), "f", obj(c, unc), "upper-case")
		case 10:
			g.add(c.id[:4]+"/"+lsUpper(c.id)+ext(unc), "f", obj(c, unc), "upper-case-file")
		case 11:
			g.add([]string{"emptydir", hex.EncodeToString(rng.Bytes(2))}[rng.Intn(2)], "d", nil, "empty-dir")
		case 12: // a chunk outside the universe, valid or garbage
			d := rng.Bytes(1 + rng.Intn(20))
			id := lsSha256Hex(d)
			if rng.Bool() {
				g.add(id[:4]+"/"+id+ext(unc), "f", obj(ch{id, d}, unc), "unknown-valid")
			} else {
				g.add(id[:4]+"/"+id+ext(unc), "f", rng.Bytes(5), "unknown-garbage")
			}
		case 13:
			g.add(c.id[:4]+"/"+c.id+ext(unc), "d", nil, "chunk-named-dir")
		case 14:
			g.add(c.id[:4]+"/"+c.id+[]string{".cacnk.bak", ".CACNK", ".cacnk2", "x"}[rng.Intn(4)], "f", obj(c, false), "near-miss-name")
		case 15:
			g.add(c.id[:4]+"/"+c.id[:62]+ext(unc), "f", obj(c, unc), "short-name")
		}
	}
	sort.Slice(g.ents, func(i, j int) bool { return g.ents[i].Path < g.ents[j].Path })
	return g
}

func c16Keep(rng *vh.Rand, ids []string) ([]string, string) {
	switch rng.Intn(5) {
	case 0:
		return nil, "empty"
	case 1:
		return append([]string{}, ids...), "all"
	case 2:
		var out []string
		for _, i := range ids {
			if rng.Bool() {
				out = append(out, i)
			}
		}
		return out, "subset"
	case 3:
		var out []string
		for _, i := range ids {
			if rng.Bool() {
				out = append(out, i)
			}
		}
		for j := 0; j < 1+rng.Intn(3); j++ {
			out = append(out, hex.EncodeToString(rng.Bytes(32)))
		}
		return out, "subset+absent"
	default:
		return []string{hex.EncodeToString(rng.Bytes(32))}, "absent-only"
	}
}

func lsFeats(m map[string]bool) []string {
	var out []string
	for k := range m {
		out = append(out, k)
	}
	sort.Strings(out)
	return out
}

// c16Outside (re)creates the directory next to the stores that holds the targets of symlinked chunks.
func c16Outside(a vh.Args, c *c16Case) (string, error) {
	od, err := lsFreshDir(a.Work, "o")
	if err != nil {
		return "", err
	}
	return od, writeTree(od, c.Outside)
}

// resolved content of a canonical entry: the file's bytes, or (symbolic link) the bytes Open would read
func c16Content(dir string, e fsEnt) ([]byte, bool) {
	switch e.Kind {
	case "f":
		return e.Data, true
	case "l":
		b, err := os.ReadFile(filepath.Join(dir, e.Path))
		return b, err == nil
	}
	return nil, false
}

// ---------- prune ----------

func c16RunPrune(a vh.Args, c *c16Case, dir string) (string, error) {
	keep := map[desync.ChunkID]struct{}{}
	for _, h := range c.Keep {
		id, err := desync.ChunkIDFromString(h)
		if err != nil {
			return "", err
		}
		keep[id] = struct{}{}
	}
	if c.CLI {
		bin := os.Getenv("VH_DESYNC")
		idx := desync.Index{Index: desync.FormatIndex{FeatureFlags: desync.CaFormatSHA512256, ChunkSizeMin: 1, ChunkSizeAvg: 2, ChunkSizeMax: 4}}
		var off uint64
		for id := range keep {
			idx.Chunks = append(idx.Chunks, desync.IndexChunk{ID: id, Start: off, Size: 1})
			off++
		}
		idxFile := filepath.Join(a.Work, "keep.caibx")
		f, err := os.Create(idxFile)
		if err != nil {
			return "", err
		}
		if _, err := idx.WriteTo(f); err != nil {
			return "", err
		}
		f.Close()
		cfg := filepath.Join(a.Work, "cfg.json")
		os.WriteFile(cfg, []byte(fmt.Sprintf(`{"store-options": {%q: {"uncompressed": %v}}}`, dir, c.Unc)), 0644)
		out, err := exec.Command(bin, "--config", cfg, "prune", "-s", dir, "--yes", idxFile).CombinedOutput()
		if err == nil {
			return "nil", nil
		}
		if strings.Contains(string(out), "missing from store") {
			return "missing", nil
		}
		return "other", nil
	}
	s, err := lsLocalStore(dir, c.Unc, false)
	if err != nil {
		return "", err
	}
	var ctx context.Context = context.Background()
	if c.CancelAt > 0 {
		ctx = &countCtx{Context: context.Background(), at: int32(c.CancelAt)}
	}
	perr := s.Prune(ctx, keep)
	cl := lsErrClass(perr)
	if cl == "ok" {
		cl = "nil"
	}
	return cl, nil
}

func lsInSet(l []string, x string) bool {
	for _, y := range l {
		if y == x {
			return true
		}
	}
	return false
}

func c16Prune(a vh.Args, o *vh.Oracle, r *vh.Result, c *c16Case) error {
	desync.Digest = desync.SHA256{}
	dir, err := lsFreshDir(a.Work, "prune")
	if err != nil {
		return err
	}
	if err := writeTree(dir, c.Tree); err != nil {
		return err
	}
	od, err := c16Outside(a, c)
	if err != nil {
		return err
	}
	before, _ := snapshotTree(dir)
	res, err := c16RunPrune(a, c, dir)
	if err != nil {
		return err
	}
	after, _ := snapshotTree(dir)
	if oa, _ := snapshotTree(od); diffTrees(c.Outside, oa) != "" {
		c.What = "prune changed files OUTSIDE the store directory: " + diffTrees(c.Outside, oa)
		r.Fail("predicate", "prune/touches-outside", c.What, c)
	}
	if c.CancelAt > 0 {
		r.Dist("prune-cancelled:result=" + res)
	}
	nontriv := false
	for _, e := range before {
		if id, ok := canonicalID(e.Path, c.Unc); ok && e.Kind != "d" && !lsInSet(c.Keep, id) {
			nontriv = true
		}
	}
	r.Count(fmt.Sprintf("prune|%v|%s|%s|%d|%s|%v", c.Unc, c.KeepTag, strings.Join(c.Feat, "+"), len(before), res, c.CLI), nontriv || len(c.Feat) > 2)
	r.Dist("prune-result:" + res)
	r.Dist("keep:" + c.KeepTag)
	r.Dist(fmt.Sprintf("prune-unc:%v", c.Unc))
	for _, f := range c.Feat {
		r.Dist("tree:" + f)
	}
	fail := func(class, what string) {
		c.What = what
		r.Fail("predicate", class, what, c)
	}
	// safe
	am := map[string]fsEnt{}
	for _, e := range after {
		am[e.Path] = e
	}
	bm := map[string]fsEnt{}
	for _, e := range before {
		bm[e.Path] = e
		o, ok := am[e.Path]
		if ok {
			if o.Kind != e.Kind || !bytes.Equal(o.Data, e.Data) {
				fail("prune/changes-file", "prune changed "+e.Path)
			}
			continue
		}
		if e.Kind != "d" && isTmpName(e.Path) {
			continue
		}
		if id, ok := canonicalID(e.Path, c.Unc); ok && !lsInSet(c.Keep, id) {
			continue
		}
		switch {
		case e.Kind == "d":
			fail("prune/removes-directory", "prune removed directory "+e.Path)
		case func() bool { _, ok := canonicalID(e.Path, !c.Unc); return ok }():
			fail("prune/removes-other-format", "prune removed a chunk of the other format: "+e.Path)
		case func() bool { id, ok := canonicalID(e.Path, c.Unc); return ok && lsInSet(c.Keep, id) }():
			fail("prune/removes-referenced", "prune removed a referenced chunk: "+e.Path)
		default:
			fail("prune/removes-non-chunk", "prune removed a file that is neither a temp file nor an unreferenced chunk: "+e.Path)
		}
	}
	for _, e := range after {
		if _, ok := bm[e.Path]; !ok {
			fail("prune/creates-file", "prune created "+e.Path)
		}
	}
	// complete
	if res == "nil" {
		for _, e := range after {
			if e.Kind == "d" {
				continue
			}
			if isTmpName(e.Path) {
				fail("prune/leaves-temp-file", "prune returned nil but left the temp file "+e.Path)
			}
			if id, ok := canonicalID(e.Path, c.Unc); ok && !lsInSet(c.Keep, id) {
				cls := "prune/leaves-unreferenced"
				if c.CancelAt > 0 {
					cls = "prune/cancelled-reports-success"
				}
				fail(cls, "prune returned nil but left the unreferenced chunk "+e.Path)
			}
		}
	}
	if o == nil {
		return nil
	}
	cmd := "c16.prune"
	if c.Backend == "sftp-model" {
		cmd = "c16.sftpprune"
	}
	if c.CancelAt > 0 {
		return nil // the model places a cancellation by path, the harness by callback count: predicate only
	}
	ans, err := o.Call(cmd, lsB01(c.Unc), lsHx([]byte(dir)), strings.Join(c.Keep, ","), encodeTreeOutside("s", before, c.Outside))
	if err != nil {
		return err
	}
	r.Corr()
	f := strings.SplitN(ans, " ", 2)
	mres := f[0]
	switch {
	case strings.HasPrefix(mres, "missing"):
		mres = "missing"
	case strings.HasPrefix(mres, "errno"):
		mres = "other"
	}
	mt, _ := decodeTree("s", f[1])
	if mres != res {
		c.What = fmt.Sprintf("model result %s, implementation %s", f[0], res)
		r.Fail("corr", "corr:C16/prune-result", c.What, c)
	} else if d := diffTrees(after, mt); d != "" {
		c.What = "tree after prune differs from the model: " + d
		r.Fail("corr", "corr:C16/prune-tree", c.What, c)
	}
	return nil
}

// ---------- verify ----------

var (
	reInvalid = regexp.MustCompile(`^chunk id ([0-9a-f]{64}) does not match its hash ([0-9a-f]{64})(.*)$`)
	reMissing = regexp.MustCompile(`^chunk ([0-9a-f]{64}) missing from store$`)
)

func c16Verify(a vh.Args, o *vh.Oracle, r *vh.Result, c *c16Case) error {
	desync.Digest = desync.SHA256{}
	dir, err := lsFreshDir(a.Work, "verify")
	if err != nil {
		return err
	}
	if err := writeTree(dir, c.Tree); err != nil {
		return err
	}
	od, err := c16Outside(a, c)
	if err != nil {
		return err
	}
	before, _ := snapshotTree(dir)
	resolved := map[string][]byte{} // canonical path -> what Open reads there
	for _, e := range before {
		if b, ok := c16Content(dir, e); ok {
			resolved[e.Path] = b
		}
	}
	var out string
	res := "nil"
	if c.CLI {
		bin := os.Getenv("VH_DESYNC")
		cfg := filepath.Join(a.Work, "cfg.json")
		os.WriteFile(cfg, []byte(fmt.Sprintf(`{"store-options": {%q: {"uncompressed": %v, "skip-verify": %v}}}`, dir, c.Unc, c.Skip)), 0644)
		args := []string{"--config", cfg, "--digest", "sha256", "verify", "-s", dir, "-n", fmt.Sprint(c.N)}
		if c.Repair {
			args = append(args, "-r")
		}
		b, err := exec.Command(bin, args...).CombinedOutput()
		out = string(b)
		if err != nil {
			res = "other"
		}
	} else {
		// the base directory as users spell it: clean, with a trailing slash, with a "./" detour
		spelled := dir + []string{"", "/", "/./"}[(c.N+len(c.Tree))%3]
		s, err := lsLocalStore(spelled, c.Unc, c.Skip)
		if err != nil {
			return err
		}
		var w lsLockedBuf
		if verr := s.Verify(context.Background(), c.N, c.Repair, &w); verr != nil {
			res = "other"
		}
		out = w.b.String()
	}
	after, _ := snapshotTree(dir)
	reported := map[string]string{} // id -> sum
	removedMsg := map[string]bool{}
	otherLines := 0
	for _, line := range strings.Split(strings.TrimSpace(out), "\n") {
		if m := reInvalid.FindStringSubmatch(line); m != nil {
			reported[m[1]] = m[2]
			if m[3] == ": removed" {
				removedMsg[m[1]] = true
			}
		} else if line != "" {
			otherLines++
		}
	}
	// expectation, computed independently
	expect := map[string]string{} // id -> path
	for _, e := range before {
		// whatever the store's SkipVerify option says: Verify is the check
		if id, ok := canonicalID(e.Path, c.Unc); ok {
			if b, readable := resolved[e.Path]; readable && !validObject(c.Unc, b, id) {
				expect[id] = e.Path
			}
		}
	}
	if oa, _ := snapshotTree(od); diffTrees(c.Outside, oa) != "" {
		c.What = "verify changed files OUTSIDE the store directory: " + diffTrees(c.Outside, oa)
		r.Fail("predicate", "verify/touches-outside", c.What, c)
	}
	r.Dist(fmt.Sprintf("verify-options:unc=%v/skip=%v/cli=%v", c.Unc, c.Skip, c.CLI))
	// canonical names occupied by a directory, and ids that also occur under a non-canonical accepted
	// name (upper-case hex, wrong directory): only through such an alias can a directory be "verified",
	// and only with an alias can a worker delete a file the walk has not reached yet
	dirCanon := map[string]string{}
	for _, e := range before {
		if id, ok := canonicalID(e.Path, c.Unc); ok && e.Kind == "d" {
			dirCanon[id] = e.Path
		}
	}
	racy := false
	for _, e := range before {
		if e.Kind != "f" {
			continue
		}
		if id, ok := acceptedID(e.Path, c.Unc); ok {
			if _, isC := canonicalID(e.Path, c.Unc); !isC {
				_, bad := expect[id]
				_, isDir := dirCanon[id]
				if c.Repair && (bad || isDir) {
					racy = true
				}
			}
		}
	}
	r.Count(fmt.Sprintf("verify|%v|%v|%d|%s|%d|%d|%v", c.Unc, c.Repair, c.N, strings.Join(c.Feat, "+"), len(before), len(expect), c.CLI), len(expect) > 0)
	if racy {
		r.Dist("verify-alias-of-invalid:yes")
	}
	r.Dist(fmt.Sprintf("verify-invalid:%s", bucket(len(expect))))
	r.Dist(fmt.Sprintf("verify-n:%d", c.N))
	r.Dist(fmt.Sprintf("verify-repair:%v", c.Repair))
	fail := func(class, what string) {
		c.What = what
		r.Fail("predicate", class, what, c)
	}
	if res != "nil" {
		cls := "verify/returns-error"
		if racy {
			cls = "verify/alias-race-error"
		}
		fail(cls, "Verify returned an error: "+strings.TrimSpace(out))
	}
	for id, p := range expect {
		if _, ok := reported[id]; !ok && res == "nil" {
			cls := "verify/misses-invalid"
			if id == strings.Repeat("0", 64) {
				cls = "verify/zero-id-accepted"
			}
			if c.Skip {
				cls = "verify/skip-verify-reports-nothing"
			}
			fail(cls, "invalid chunk not reported: "+p)
		}
	}
	for id := range reported {
		if _, ok := expect[id]; !ok {
			fail("verify/reports-valid", "reported as invalid but the canonical file is valid or absent: "+id)
		}
	}
	am := map[string]fsEnt{}
	for _, e := range after {
		am[e.Path] = e
	}
	for _, e := range before {
		o, ok := am[e.Path]
		if ok {
			if o.Kind != e.Kind || !bytes.Equal(o.Data, e.Data) {
				fail("verify/changes-file", "verify changed "+e.Path)
			}
			if id, isC := canonicalID(e.Path, c.Unc); isC && c.Repair && res == "nil" && e.Kind != "d" {
				if _, bad := expect[id]; bad && id != strings.Repeat("0", 64) {
					fail("verify/repair-leaves-invalid", "verify -r left the invalid chunk "+e.Path)
				}
			}
			continue
		}
		id, isC := canonicalID(e.Path, c.Unc)
		_, bad := expect[id]
		if !c.Repair {
			fail("verify/removes-without-repair", "verify without repair removed "+e.Path)
		} else if !isC || !bad {
			fail("verify/repair-removes-valid", "verify -r removed something that is not an invalid own-format chunk: "+e.Path)
		}
	}
	if o == nil || c.CLI {
		return nil
	}
	cmp := func(mode string) (string, error) {
		ans, err := o.Call("c16.verify", mode, lsB01(c.Unc), lsB01(c.Repair), lsHx([]byte(dir)), encodeTreeOutside("s", before, c.Outside), decompTable(append(append([]fsEnt{}, before...), c.Outside...)), lsB01(c.Skip))
		if err != nil {
			return "", err
		}
		return c16CompareVerify(ans, res, reported, after), nil
	}
	r.Corr()
	d, err := cmp("lazy")
	if err != nil {
		return err
	}
	if d != "" && racy {
		// a worker may run before the walk continues: compare with the other extreme schedule
		if d, err = cmp("eager"); err != nil {
			return err
		}
		if d != "" {
			r.Dist("verify-racy-mixed-schedule:not-compared")
			d = ""
		}
	}
	if d != "" {
		f := strings.SplitN(d, "|", 2)
		c.What = f[1]
		r.Fail("corr", f[0], f[1], c)
	}
	return nil
}

// c16CompareVerify returns "" or "class|what".
func c16CompareVerify(ans, res string, reported map[string]string, after []fsEnt) string {
	f := strings.SplitN(ans, " ", 3)
	mres := f[0]
	if mres != "nil" {
		mres = "other"
	}
	mrep := map[string]string{}
	if f[1] != "-" {
		for _, m := range strings.Split(f[1], ",") {
			p := strings.Split(m, ":")
			if p[0] == "inv" {
				mrep[p[1]] = p[2]
			}
		}
	}
	mt, _ := decodeTree("s", f[2])
	switch {
	case mres != res:
		return fmt.Sprintf("corr:C16/verify-result|model result %s, implementation %s", f[0], res)
	case res == "nil" && fmt.Sprint(mrep) != fmt.Sprint(reported):
		return fmt.Sprintf("corr:C16/verify-reported|model reports %v, implementation %v", mrep, reported)
	default:
		if d := diffTrees(after, mt); d != "" && res == "nil" {
			return "corr:C16/verify-tree|tree after verify differs from the model: " + d
		}
	}
	return ""
}

// acceptedID re-implements the name filter of Verify/Prune for classification purposes only.
func acceptedID(rel string, unc bool) (string, bool) {
	base := filepath.Base(rel)
	if !unc {
		if !strings.HasSuffix(rel, ".cacnk") {
			return "", false
		}
		base = strings.TrimSuffix(base, ".cacnk")
	}
	b, err := hex.DecodeString(base)
	if err != nil || len(b) != 32 {
		return "", false
	}
	return hex.EncodeToString(b), true
}

// ---------- driver ----------

func runC16(a vh.Args, o *vh.Oracle, r *vh.Result) error {
	r.Rule = "case = (random store directory: 2-6 chunk ids with every (id, format) slot absent/valid/corrupt/foreign/empty/other-format-bytes/garbage, plus up to 6 extras among junk files, temp files at the root and in chunk directories, a temp-named directory, chunk names in a wrong/nested/root directory, upper-case names, empty directories, chunks outside the universe, chunk-named directories, near-miss names; format; keep-set mode empty/all/subset/subset+absent/absent-only) for prune, (tree; format; repair; n workers) for verify, plus verify-stress = repeated Verify passes with 8-16 workers over 1200-6000 chunks of which half are damaged, messages compared exactly with the damaged set; non-trivial = prune with an unreferenced own-format chunk present or >2 extra features, verify with at least one invalid own-format chunk; distinct by all of these"
	desync.Digest = desync.SHA256{}
	if a.Replay != "" {
		var c c16Case
		if err := readJSON(a.Replay, &c); err != nil {
			return err
		}
		switch c.Kind {
		case "prune":
			return c16Prune(a, o, r, &c)
		case "verify":
			return c16Verify(a, o, r, &c)
		case "s3prune":
			return c16S3(a, o, r, &c)
		case "sftpprune":
			return c16SFTP(a, o, r, &c)
		case "prune-cli-indexes":
			return c16PruneIndexes(a, r, &c)
		case "verify-stress":
			return c16Stress(a, r, &c)
		case "sftp-temp":
			return c16SFTPTemp(a, r, c.Unc)
		}
		return fmt.Errorf("cannot replay kind %q", c.Kind)
	}
	rng := vh.NewRand(a.Seed)
	thorough := a.Tier == "thorough"
	n := 250
	if thorough {
		n = 4000
	}
	for k := 0; k < n; k++ {
		g := c16GenTree(rng)
		if k < 2 { // always present: the all-zero id with an object whose data cannot be produced
			z := strings.Repeat("0", 64)
			g.add("0000/"+z+".cacnk", "f", []byte("garbage"), "zero-id")
			g.add("0000/"+z, "f", nil, "zero-id")
			sort.Slice(g.ents, func(i, j int) bool { return g.ents[i].Path < g.ents[j].Path })
		}
		keep, tag := c16Keep(rng, g.ids)
		c := &c16Case{Kind: "prune", Unc: rng.Bool(), Tree: g.ents, Keep: keep, KeepTag: tag, Feat: lsFeats(g.feat), Outside: g.outside}
		if k%5 == 4 { // the context is cancelled at the j-th walk callback
			c.CancelAt = 1 + rng.Intn(len(g.ents)+2)
		}
		if os.Getenv("VH_DESYNC") != "" && (k >= 8 && k < 14 || thorough && k%20 == 0) {
			c.CLI = true
		}
		if k < 3 {
			r.Sample(map[string]interface{}{"kind": "prune", "unc": c.Unc, "keep_mode": tag, "features": c.Feat, "entries": len(c.Tree)})
		}
		if err := c16Prune(a, o, r, c); err != nil {
			return err
		}
		v := &c16Case{Kind: "verify", Unc: rng.Bool(), Tree: g.ents, Repair: rng.Bool(), N: []int{1, 2, 3, 4, 8}[rng.Intn(5)], Feat: lsFeats(g.feat), Skip: rng.Chance(1, 5), Outside: g.outside}
		// the CLI (config-file store options) in every tier: all four Uncompressed x SkipVerify combinations first
		if os.Getenv("VH_DESYNC") != "" && (k < 8 || thorough && k%20 == 1) {
			v.CLI = true
			if k < 8 {
				v.Unc, v.Skip, v.Repair = k%2 == 0, k/2%2 == 1, k/4%2 == 1
			}
		}
		if err := c16Verify(a, o, r, v); err != nil {
			return err
		}
	}
	if err := c16S3All(a, o, r, rng); err != nil {
		return err
	}
	if err := c16SFTPAll(a, o, r, rng); err != nil {
		return err
	}
	if err := c16PruneIndexesAll(a, r, rng); err != nil {
		return err
	}
	return c16StressAll(a, r, rng)
}
