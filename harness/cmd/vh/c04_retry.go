package main

// C04, retries of the HTTP index store: RemoteHTTPIndex.StoreIndex against a server whose first k PUT
// attempts fail (503, or the connection is reset) and which is healthy afterwards, for k below and
// at/above the retry budget (max(1, ErrorRetry) attempts), in front of (a) a plain HTTP object
// endpoint that stores whatever body a PUT carries and (b) desync's own index handler on a local
// store.  Predicate, on the implementation alone:
//   StoreIndex == nil  =>  the object the server holds is Index.WriteTo's bytes and GetIndex round-trips;
//   k < budget         =>  StoreIndex == nil (a retry within the budget met a healthy server).

import (
	"bytes"
	"fmt"
	"io"
	"net/http"
	"net/http/httptest"
	"net/url"
	"os"
	"path/filepath"
	"sync"
	"time"

	"github.com/folbricht/desync"

	"vh/internal/vh"
)

type c04Retry struct {
	Kind       string  `json:"kind"`    // "retry"
	Backend    string  `json:"backend"` // object | indexhandler
	Mode       string  `json:"mode"`    // 503 | reset
	K          int     `json:"failing_attempts"`
	ErrorRetry int     `json:"error_retry"`
	Digest     string  `json:"digest"`
	Step       c04Step `json:"index"`
	What       string  `json:"what,omitempty"`
}

// c04ObjectServer: PUT stores the body under the path, GET returns it.
type c04ObjectServer struct {
	mu      sync.Mutex
	objects map[string][]byte
}

func (s *c04ObjectServer) ServeHTTP(w http.ResponseWriter, r *http.Request) {
	s.mu.Lock()
	defer s.mu.Unlock()
	switch r.Method {
	case "PUT":
		b, _ := io.ReadAll(r.Body)
		s.objects[r.URL.Path] = b
		w.WriteHeader(http.StatusOK)
	case "GET":
		b, ok := s.objects[r.URL.Path]
		if !ok {
			http.NotFound(w, r)
			return
		}
		w.Write(b)
	default:
		w.WriteHeader(http.StatusMethodNotAllowed)
	}
}

// c04FailFirst fails the first k PUT attempts and counts them.
type c04FailFirst struct {
	mu    sync.Mutex
	k     int
	mode  string
	puts  int
	sizes []int // body length of every PUT attempt
	next  http.Handler
}

func (f *c04FailFirst) ServeHTTP(w http.ResponseWriter, r *http.Request) {
	if r.Method != "PUT" {
		f.next.ServeHTTP(w, r)
		return
	}
	body, _ := io.ReadAll(r.Body)
	f.mu.Lock()
	f.puts++
	n := f.puts
	f.sizes = append(f.sizes, len(body))
	f.mu.Unlock()
	if n <= f.k {
		if f.mode == "reset" {
			if hj, ok := w.(http.Hijacker); ok {
				if conn, _, err := hj.Hijack(); err == nil {
					conn.Close()
					return
				}
			}
		}
		http.Error(w, "try again", http.StatusServiceUnavailable)
		return
	}
	r.Body = io.NopCloser(bytes.NewReader(body))
	f.next.ServeHTTP(w, r)
}

func c04RunRetry(a vh.Args, r *vh.Result, c *c04Retry) error {
	c04SetDigest(c.Digest)
	idx := c04BuildIndex(c.Step.asCase(c.Digest))
	var want bytes.Buffer
	idx.WriteTo(&want)
	name := "retry.caibx"
	var stored func() ([]byte, bool)
	var backend http.Handler
	switch c.Backend {
	case "object":
		obj := &c04ObjectServer{objects: map[string][]byte{}}
		backend = obj
		stored = func() ([]byte, bool) {
			obj.mu.Lock()
			defer obj.mu.Unlock()
			b, ok := obj.objects["/"+name]
			return b, ok
		}
	default:
		dir, err := os.MkdirTemp(a.Work, "retry")
		if err != nil {
			return err
		}
		local, err := desync.NewLocalIndexStore(dir)
		if err != nil {
			return err
		}
		backend = desync.NewHTTPIndexHandler(local, true, "")
		stored = func() ([]byte, bool) {
			b, err := os.ReadFile(filepath.Join(dir, name))
			return b, err == nil
		}
	}
	mw := &c04FailFirst{k: c.K, mode: c.Mode, next: backend}
	srv := httptest.NewServer(mw)
	defer srv.Close()
	u, _ := url.Parse(srv.URL + "/")
	remote, err := desync.NewRemoteHTTPIndexStore(u, desync.StoreOptions{ErrorRetry: c.ErrorRetry, ErrorRetryBaseInterval: time.Millisecond})
	if err != nil {
		return err
	}
	budget := c.ErrorRetry
	if budget < 1 {
		budget = 1
	}
	r.Count(fmt.Sprintf("retry|%s|%s|%d|%d|%d", c.Backend, c.Mode, c.K, c.ErrorRetry, len(c.Step.Rows)), c.K > 0)
	r.Dist("retry:" + c.Backend + "/" + c.Mode)
	fail := func(class, what string) {
		cc := *c
		cc.What = what
		r.Fail("predicate", class, fmt.Sprintf("HTTP index store -> %s server, first %d PUT attempts fail (%s), ErrorRetry=%d, %d chunks: %s", c.Backend, c.K, c.Mode, c.ErrorRetry, len(c.Step.Rows), what), &cc)
	}
	serr := remote.StoreIndex(name, idx)
	mw.mu.Lock()
	sizes := append([]int{}, mw.sizes...)
	mw.mu.Unlock()
	obj, have := stored()
	if serr == nil {
		switch {
		case !have:
			fail("store/retry-success-nothing-stored", fmt.Sprintf("StoreIndex returned nil but the server holds no object (PUT body sizes %v)", sizes))
		case !bytes.Equal(obj, want.Bytes()):
			fail("store/retry-success-wrong-object", fmt.Sprintf("StoreIndex returned nil but the server holds %d bytes, Index.WriteTo produces %d (PUT body sizes %v)", len(obj), want.Len(), sizes))
		default:
			back, gerr := remote.GetIndex(name)
			if gerr != nil || c04IndexString(back) != c04IndexString(idx) {
				fail("store/retry-get-after-store", fmt.Sprintf("GetIndex after a successful StoreIndex: %v", gerr))
			}
		}
	} else if c.K < budget {
		fail("store/retry-fails-on-healthy-server", fmt.Sprintf("attempt %d of %d met a healthy server, yet StoreIndex failed: %v (PUT body sizes %v, expected %d bytes each)", c.K+1, budget, serr, sizes, want.Len()))
	}
	return nil
}

func c04Retries(a vh.Args, r *vh.Result, rng *vh.Rand) error {
	rowsList := []int{3, 0}
	if a.Tier == "thorough" {
		rowsList = []int{0, 1, 3, 120, 700}
	}
	for _, nrows := range rowsList {
		for _, backend := range []string{"object", "indexhandler"} {
			for _, mode := range []string{"503", "reset"} {
				for _, er := range []int{0, 1, 2, 3} {
					for k := 0; k <= er+1 && k <= 4; k++ {
						if a.Tier != "thorough" && nrows == 0 && (mode == "reset" || er == 2) {
							continue
						}
						digest := []string{"sha256", "sha512-256"}[(k+er)%2]
						c := &c04Retry{Kind: "retry", Backend: backend, Mode: mode, K: k, ErrorRetry: er, Digest: digest, Step: c04GenStep(rng, digest, nrows)}
						if err := c04RunRetry(a, r, c); err != nil {
							return err
						}
					}
				}
			}
		}
	}
	return nil
}
