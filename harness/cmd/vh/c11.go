package main

// C11 -- store chains follow their documented routing, caching and failover policy.
//
// Sequential cases: a random chain (tree of StoreRouter / Cache / RepairableCache / FailoverGroup /
// DedupQueue / WriteDedupQueue over instrumented in-memory member stores, optionally under a
// SwapStore / SwapWriteStore) runs a random operation sequence.
//   * predicate (independent of the Coq model): every node of the chain is wrapped in a tap that records
//     what its children were asked and what they answered; after every call the documented policy of that
//     node kind is checked on the recorded child answers (c11policy.go).
//   * correspondence: the extracted model (Model/Chains.v) predicts every result class and the global log
//     of calls that reached the members; both are compared verbatim.
// Concurrent cases are in c11conc.go.

import (
	"errors"
	"fmt"
	"os"
	"sort"
	"strconv"
	"strings"
	"sync"
	"time"

	"github.com/folbricht/desync"

	"vh/internal/vh"
)

func init() { props["C11"] = runC11 }

const c11Universe = 6

// ---------- chunks of the small universe ----------

func c11ID(i int) desync.ChunkID {
	var id desync.ChunkID
	id[0] = byte(i + 1)
	for k := 1; k < len(id); k++ {
		id[k] = 0xC1
	}
	return id
}

func c11Idx(id desync.ChunkID) int { return int(id[0]) - 1 }

func c11Chunk(i, tag int) *desync.Chunk {
	c, _ := desync.NewChunkWithID(c11ID(i), []byte{byte(i), byte(tag >> 8), byte(tag), 0xEE}, true)
	return c
}

func c11Tag(c *desync.Chunk) int {
	if c == nil {
		return -1
	}
	b, err := c.Data()
	if err != nil || len(b) != 4 {
		return -2
	}
	return int(b[1])<<8 | int(b[2])
}

// c11Class projects an error to the classes the chain code distinguishes.
func c11Class(err error) string {
	if err == nil {
		return "n"
	}
	if _, ok := err.(desync.ChunkMissing); ok {
		return "m"
	}
	if _, ok := err.(desync.ChunkInvalid); ok {
		return "i"
	}
	var cm desync.ChunkMissing
	if errors.As(err, &cm) {
		return "M"
	}
	var ci desync.ChunkInvalid
	if errors.As(err, &ci) {
		return "I"
	}
	return "o"
}

// ---------- instrumented member stores ----------

type c11Obj struct {
	Tag   int
	Valid bool
}

type c11World struct {
	mu          sync.Mutex
	members     []*c11Member
	log         []string
	closedCalls []string
	onCall      func(m *c11Member, op byte, id int) // concurrent runs: called outside the lock before the member answers
}

type c11Member struct {
	w       *c11World
	idx     int
	content map[int]c11Obj
	faults  string
	dflt    byte
	calls   int
	closed  bool
	failed  int // number of calls answered with an injected error
	closes  int // number of Close calls
}

type c11Fault struct{ m int }

func (e c11Fault) Error() string { return fmt.Sprintf("injected fault on member %d", e.m) }

// enter logs the call and returns the fault that applies to it.
func (m *c11Member) enter(op byte, id int, tag int) byte {
	if m.w.onCall != nil {
		m.w.onCall(m, op, id)
	}
	m.w.mu.Lock()
	defer m.w.mu.Unlock()
	s := fmt.Sprintf("%d%c%d", m.idx, op, id)
	if op == 's' {
		s += "." + strconv.Itoa(tag)
	}
	if m.closed {
		s += "!"
		m.w.closedCalls = append(m.w.closedCalls, s)
	}
	m.w.log = append(m.w.log, s)
	if op == 'x' {
		m.closed = true
		m.closes++
		return 'n'
	}
	f := m.dflt
	if m.calls < len(m.faults) {
		f = m.faults[m.calls]
	}
	m.calls++
	if f == 'e' {
		m.failed++
	}
	return f
}

func (m *c11Member) GetChunk(id desync.ChunkID) (*desync.Chunk, error) {
	i := c11Idx(id)
	switch m.enter('g', i, 0) {
	case 'e':
		return nil, c11Fault{m.idx}
	case 'm':
		return nil, desync.ChunkMissing{ID: id}
	case 'i':
		return nil, desync.ChunkInvalid{ID: id}
	}
	m.w.mu.Lock()
	o, ok := m.content[i]
	m.w.mu.Unlock()
	if !ok {
		return nil, desync.ChunkMissing{ID: id}
	}
	if !o.Valid {
		return nil, desync.ChunkInvalid{ID: id}
	}
	return c11Chunk(i, o.Tag), nil
}

func (m *c11Member) HasChunk(id desync.ChunkID) (bool, error) {
	i := c11Idx(id)
	switch m.enter('h', i, 0) {
	case 'e':
		return false, c11Fault{m.idx}
	case 'm':
		return false, nil
	}
	m.w.mu.Lock()
	_, ok := m.content[i]
	m.w.mu.Unlock()
	return ok, nil
}

func (m *c11Member) StoreChunk(c *desync.Chunk) error {
	i, tag := c11Idx(c.ID()), c11Tag(c)
	f := m.enter('s', i, tag)
	m.w.mu.Lock()
	defer m.w.mu.Unlock()
	switch f {
	case 'e':
		return c11Fault{m.idx}
	case 'm':
		return nil
	case 'i':
		m.content[i] = c11Obj{tag, false}
		return nil
	}
	m.content[i] = c11Obj{tag, true}
	return nil
}

func (m *c11Member) Close() error   { m.enter('x', 0, 0); return nil }
func (m *c11Member) String() string { return fmt.Sprintf("member%d", m.idx) }

// c11RO offers a member through the read-only Store interface only.
type c11RO struct{ m *c11Member }

func (r c11RO) GetChunk(id desync.ChunkID) (*desync.Chunk, error) { return r.m.GetChunk(id) }
func (r c11RO) HasChunk(id desync.ChunkID) (bool, error)          { return r.m.HasChunk(id) }
func (r c11RO) Close() error                                      { return r.m.Close() }
func (r c11RO) String() string                                    { return r.m.String() }

// ---------- chain shapes ----------

type c11Node struct {
	Kind byte // L O R C P F D Q
	K    int  // member index (L, O) or failover group number (F)
	Kids []*c11Node
}

func (n *c11Node) String() string {
	switch n.Kind {
	case 'L', 'O':
		return fmt.Sprintf("%c%d", n.Kind, n.K)
	}
	var ks []string
	for _, k := range n.Kids {
		ks = append(ks, k.String())
	}
	s := string(n.Kind)
	if n.Kind == 'F' {
		s += strconv.Itoa(n.K)
	}
	return s + "[" + strings.Join(ks, ",") + "]"
}

func (n *c11Node) writable() bool { return n.Kind == 'L' || n.Kind == 'P' || n.Kind == 'Q' }

func (n *c11Node) depth() int {
	d := 0
	for _, k := range n.Kids {
		if kd := k.depth(); kd > d {
			d = kd
		}
	}
	return d + 1
}

func (n *c11Node) leaves(out *[]int) {
	if n.Kind == 'L' || n.Kind == 'O' {
		*out = append(*out, n.K)
	}
	for _, k := range n.Kids {
		k.leaves(out)
	}
}

func (n *c11Node) walk(f func(*c11Node)) {
	f(n)
	for _, k := range n.Kids {
		k.walk(f)
	}
}

func c11ParseStack(s string) (*c11Node, error) {
	pos := 0
	var parse func() (*c11Node, error)
	num := func() (int, error) {
		st := pos
		for pos < len(s) && s[pos] >= '0' && s[pos] <= '9' {
			pos++
		}
		if st == pos {
			return 0, fmt.Errorf("number expected at %d in %q", pos, s)
		}
		return strconv.Atoi(s[st:pos])
	}
	parse = func() (*c11Node, error) {
		if pos >= len(s) {
			return nil, fmt.Errorf("unexpected end of %q", s)
		}
		n := &c11Node{Kind: s[pos]}
		pos++
		var err error
		switch n.Kind {
		case 'L', 'O':
			n.K, err = num()
			return n, err
		case 'F':
			if n.K, err = num(); err != nil {
				return nil, err
			}
		case 'R', 'C', 'P', 'D', 'Q':
		default:
			return nil, fmt.Errorf("bad node kind %q in %q", n.Kind, s)
		}
		if pos >= len(s) || s[pos] != '[' {
			return nil, fmt.Errorf("[ expected at %d in %q", pos, s)
		}
		pos++
		if pos < len(s) && s[pos] == ']' {
			pos++
			return n, nil
		}
		for {
			k, err := parse()
			if err != nil {
				return nil, err
			}
			n.Kids = append(n.Kids, k)
			if pos < len(s) && s[pos] == ',' {
				pos++
				continue
			}
			if pos < len(s) && s[pos] == ']' {
				pos++
				return n, nil
			}
			return nil, fmt.Errorf(", or ] expected at %d in %q", pos, s)
		}
	}
	n, err := parse()
	if err == nil && pos != len(s) {
		err = fmt.Errorf("trailing input in %q", s)
	}
	return n, err
}

// ---------- a running chain ----------

type c11Run struct {
	w        *c11World
	taps     bool
	fresh    bool
	cur      *c11Node                        // shape currently installed under the swap store
	wrapLeaf func(m *c11Member) desync.Store // concurrent runs: recorder around every member
	frames   []*c11Frame
	fails    []c11PolicyFail
	opNo     int
}

type c11PolicyFail struct {
	Class string
	What  string
}

func (r *c11Run) fail(class, f string, a ...interface{}) {
	r.fails = append(r.fails, c11PolicyFail{class, fmt.Sprintf("op %d: ", r.opNo) + fmt.Sprintf(f, a...)})
}

// build turns a shape into real desync stores over the members of the world.
func (r *c11Run) build(n *c11Node) desync.Store {
	var s desync.Store
	kids := make([]desync.Store, len(n.Kids))
	inst := &c11Inst{node: n, cached: map[int]int{}}
	for i, k := range n.Kids {
		kids[i] = r.build(k)
		if r.taps {
			kids[i] = r.tap(kids[i], inst, i)
		}
	}
	switch n.Kind {
	case 'L':
		s = r.w.members[n.K]
		if r.wrapLeaf != nil {
			s = r.wrapLeaf(r.w.members[n.K])
		}
	case 'O':
		s = c11RO{r.w.members[n.K]}
	case 'R':
		s = desync.NewStoreRouter(kids...)
	case 'C':
		s = desync.NewCache(kids[0], kids[1].(desync.WriteStore))
	case 'P':
		s = desync.NewRepairableCache(kids[0].(desync.WriteStore))
	case 'F':
		s = desync.NewFailoverGroup(kids...)
	case 'D':
		s = desync.NewDedupQueue(kids[0])
	case 'Q':
		s = desync.NewWriteDedupQueue(kids[0].(desync.WriteStore))
	}
	if r.taps {
		// the frame of a call into this node is opened by the tap its parent (or the top) holds; it needs the instance
		return &c11Self{Store: s, inst: inst}
	}
	return s
}

// c11Self carries the instance record of a built node up to the tap that will wrap it.
type c11Self struct {
	desync.Store
	inst *c11Inst
}

func (r *c11Run) tap(s desync.Store, parent *c11Inst, childIdx int) desync.Store {
	self := s.(*c11Self)
	t := &c11Tap{inner: self.Store, self: self.inst, parent: parent, child: childIdx, run: r}
	if _, ok := self.Store.(desync.WriteStore); ok {
		return &c11TapW{t}
	}
	return t
}

// buildTop builds the chain for a shape; with taps the root is tapped as child 0 of a nil parent.
func (r *c11Run) buildTop(n *c11Node) desync.Store {
	s := r.build(n)
	if r.taps {
		return r.tap(s, nil, 0)
	}
	return s
}

// ---------- taps: record what each node's children were asked and answered ----------

type c11Ans struct {
	Tag int // GetChunk: tag of the chunk, -1 for a nil chunk
	B   bool
	E   string
}

func (a c11Ans) String() string { return fmt.Sprintf("(tag %d, %v, %s)", a.Tag, a.B, a.E) }

type c11Event struct {
	Child int
	Op    byte
	ID    int
	Tag   int
	Ans   c11Ans
}

type c11Frame struct {
	inst   *c11Inst
	op     byte
	id     int
	tag    int
	events []c11Event
}

type c11Inst struct {
	node      *c11Node
	expActive int         // FailoverGroup: the member the next request must start with
	cached    map[int]int // Cache: id -> tag known to sit valid in the cache member
}

type c11Tap struct {
	inner  desync.Store
	self   *c11Inst
	parent *c11Inst
	child  int
	run    *c11Run
}

type c11TapW struct{ *c11Tap }

func (t *c11Tap) enter(op byte, id, tag int) *c11Frame {
	f := &c11Frame{inst: t.self, op: op, id: id, tag: tag}
	t.run.frames = append(t.run.frames, f)
	return f
}

func (t *c11Tap) leave(f *c11Frame, a c11Ans) {
	r := t.run
	r.frames = r.frames[:len(r.frames)-1]
	c11CheckPolicy(r, f, a)
	if len(r.frames) > 0 {
		p := r.frames[len(r.frames)-1]
		p.events = append(p.events, c11Event{t.child, f.op, f.id, f.tag, a})
	}
}

func (t *c11Tap) GetChunk(id desync.ChunkID) (*desync.Chunk, error) {
	f := t.enter('g', c11Idx(id), 0)
	c, err := t.inner.GetChunk(id)
	t.leave(f, c11Ans{Tag: c11Tag(c), E: c11Class(err)})
	return c, err
}

func (t *c11Tap) HasChunk(id desync.ChunkID) (bool, error) {
	f := t.enter('h', c11Idx(id), 0)
	b, err := t.inner.HasChunk(id)
	t.leave(f, c11Ans{Tag: -1, B: b, E: c11Class(err)})
	return b, err
}

func (t *c11Tap) Close() error {
	f := t.enter('x', 0, 0)
	err := t.inner.Close()
	t.leave(f, c11Ans{Tag: -1, E: c11Class(err)})
	return err
}

func (t *c11Tap) String() string { return t.inner.String() }

func (t *c11TapW) StoreChunk(c *desync.Chunk) error {
	f := t.enter('s', c11Idx(c.ID()), c11Tag(c))
	err := t.inner.(desync.WriteStore).StoreChunk(c)
	t.leave(f, c11Ans{Tag: -1, E: c11Class(err)})
	return err
}

// ---------- cases ----------

type c11Case struct {
	Members    []string `json:"members"` // content/faults/default, as sent to the oracle
	NGroups    int      `json:"ngroups"`
	Top        string   `json:"top"` // N=<stack> | S=<stack> | W=<stack>
	Ops        []string `json:"ops"`
	Impl       string   `json:"impl_results,omitempty"`
	ImplLog    string   `json:"impl_log,omitempty"`
	Model      string   `json:"model_results,omitempty"`
	ModelLog   string   `json:"model_log,omitempty"`
	ImplFinal  string   `json:"impl_final_contents,omitempty"`
	ModelFinal string   `json:"model_final_contents,omitempty"`
	Fresh      bool     `json:"swap_stacks_use_fresh_members"`
	predBad    bool     // the last c11Check found a predicate failure (not only a model disagreement)
}

func c11ParseMember(w *c11World, idx int, s string) (*c11Member, error) {
	p := strings.Split(s, "/")
	if len(p) != 3 || len(p[2]) != 1 {
		return nil, fmt.Errorf("bad member %q", s)
	}
	m := &c11Member{w: w, idx: idx, content: map[int]c11Obj{}, dflt: p[2][0]}
	if p[0] != "_" {
		// the model looks the first match up: later duplicates are shadowed
		es := strings.Split(p[0], ",")
		for k := len(es) - 1; k >= 0; k-- {
			f := strings.Split(es[k], ":")
			if len(f) != 3 {
				return nil, fmt.Errorf("bad content %q", es[k])
			}
			i, _ := strconv.Atoi(f[0])
			t, _ := strconv.Atoi(f[1])
			m.content[i] = c11Obj{t, f[2] == "1"}
		}
	}
	if p[1] != "_" {
		m.faults = p[1]
	}
	return m, nil
}

func c11NewWorld(members []string) (*c11World, error) {
	w := &c11World{}
	for i, s := range members {
		m, err := c11ParseMember(w, i, s)
		if err != nil {
			return nil, err
		}
		w.members = append(w.members, m)
	}
	return w, nil
}

// c11FinalContents lists what every member holds at the end, in the oracle's format.
func c11FinalContents(w *c11World) string {
	var ms []string
	for _, m := range w.members {
		var es []string
		for i := 0; i < 16; i++ {
			if o, ok := m.content[i]; ok {
				e := fmt.Sprintf("%d:%d", i, o.Tag)
				if !o.Valid {
					e += "!"
				}
				es = append(es, e)
			}
		}
		ms = append(ms, joinOr(es, ","))
	}
	return joinOr(ms, ";")
}

func joinOr(l []string, sep string) string {
	if len(l) == 0 {
		return "_"
	}
	return strings.Join(l, sep)
}

// c11RunImpl executes the case sequentially on the real stores.
func c11RunImpl(c *c11Case, taps bool) (results []string, run *c11Run, err error) {
	w, err := c11NewWorld(c.Members)
	if err != nil {
		return nil, nil, err
	}
	run = &c11Run{w: w, taps: taps, fresh: c.Fresh}
	if len(c.Top) < 3 || c.Top[1] != '=' {
		return nil, nil, fmt.Errorf("bad top %q", c.Top)
	}
	shape, err := c11ParseStack(c.Top[2:])
	if err != nil {
		return nil, nil, err
	}
	inner := run.buildTop(shape)
	run.cur = shape
	var top desync.Store
	var swap *desync.SwapStore
	switch c.Top[0] {
	case 'N':
		top = inner
	case 'S':
		swap = desync.NewSwapStore(inner)
		top = swap
	case 'W':
		ws := desync.NewSwapWriteStore(inner)
		swap = &ws.SwapStore
		top = ws
	default:
		return nil, nil, fmt.Errorf("bad top %q", c.Top)
	}
	for k, op := range c.Ops {
		run.opNo = k
		res, perr := c11ExecOp(run, top, swap, op)
		if perr != nil {
			return results, run, perr
		}
		results = append(results, res)
	}
	return results, run, nil
}

func c11ExecOp(run *c11Run, top desync.Store, swap *desync.SwapStore, op string) (res string, err error) {
	defer func() {
		if p := recover(); p != nil {
			res = fmt.Sprintf("PANIC(%v)", p)
		}
	}()
	switch op[0] {
	case 'g':
		i, _ := strconv.Atoi(op[1:])
		c, e := top.GetChunk(c11ID(i))
		t := "_"
		if c != nil {
			t = strconv.Itoa(c11Tag(c))
		}
		return "G" + t + ":" + c11Class(e), nil
	case 'h':
		i, _ := strconv.Atoi(op[1:])
		b, e := top.HasChunk(c11ID(i))
		if b {
			return "H1:" + c11Class(e), nil
		}
		return "H0:" + c11Class(e), nil
	case 's':
		f := strings.Split(op[1:], ":")
		i, _ := strconv.Atoi(f[0])
		t, _ := strconv.Atoi(f[1])
		ws, ok := top.(desync.WriteStore)
		if !ok {
			return "SX", nil
		}
		return "S:" + c11Class(ws.StoreChunk(c11Chunk(i, t))), nil
	case 'x':
		top.Close()
		return "X", nil
	case 'w':
		if swap == nil {
			return "W0", nil
		}
		shape, perr := c11ParseStack(op[2:])
		if perr != nil {
			return "", perr
		}
		oldW, newW := run.cur.writable(), shape.writable()
		var old []int
		run.cur.leaves(&old)
		closesBefore := 0
		for _, k := range old {
			closesBefore += run.w.members[k].closes
		}
		e := swap.Swap(run.buildTop(shape))
		if (e != nil) != (oldW && !newW) {
			run.fail("swap/writable-rule", "Swap of a %v-writable store for a %v-writable one returned %v", oldW, newW, e)
		}
		if e != nil {
			// a refused Swap leaves the wrapped store in place: it must not have been closed
			for _, k := range old {
				closesBefore -= run.w.members[k].closes
			}
			if closesBefore != 0 {
				run.fail("swap/closed-store-still-in-use", "Swap refused to replace the writable chain %s by the read-only %s (%v) but closed member stores of the chain that stays in use (%d Close calls)", run.cur, shape, e, -closesBefore)
			}
			return "W0", nil
		}
		for _, k := range old {
			if !run.w.members[k].closed {
				run.fail("swap/old-store-not-closed", "Swap succeeded but member %d of the replaced chain %s was not closed", k, run.cur)
			}
		}
		run.cur = shape
		return "W1", nil
	}
	return "", fmt.Errorf("bad op %q", op)
}

// c11Check runs one case: policy predicate on the implementation, then correspondence with the model.
func c11Check(o *vh.Oracle, r *vh.Result, c *c11Case, record bool) (bad bool, err error) {
	results, run, err := c11RunImpl(c, true)
	if err != nil {
		return false, err
	}
	c.Impl = joinOr(results, "+")
	c.ImplLog = joinOr(run.w.log, ",")
	for _, res := range results {
		if strings.HasPrefix(res, "PANIC") {
			bad = true
			if record {
				r.Fail("predicate", "chain/panic", "operation panicked: "+res, c)
			}
		}
	}
	c.predBad = len(run.fails) > 0 || (c.Fresh && len(run.w.closedCalls) > 0)
	for _, f := range run.fails {
		bad = true
		if record {
			r.Fail("predicate", f.Class, f.What+" (chain "+c.Top+")", c)
		}
	}
	if c.Fresh && len(run.w.closedCalls) > 0 {
		bad = true
		if record {
			r.Fail("predicate", "swap/call-on-closed-store", fmt.Sprintf("calls reached closed member stores: %v (chain %s)", run.w.closedCalls, c.Top), c)
		}
	}
	// the taps must be transparent: same results and member log without them.  The untapped chain is also the one
	// with the real dynamic types at the top (a StoreRouter / Cache value instead of a pointer to a tap), so a panic
	// that only the real types provoke shows here
	if plain, prun, perr := c11RunImpl(c, false); perr == nil {
		for k, res := range plain {
			if strings.HasPrefix(res, "PANIC") && !strings.Contains(c.Impl, "PANIC") {
				bad, c.predBad = true, true
				if record {
					class := "chain/panic"
					if k < len(c.Ops) && c.Ops[k][0] == 'w' {
						class = "swap/panic"
					}
					r.Fail("predicate", class, fmt.Sprintf("operation %d (%s) on the chain %s panicked: %s", k, c.Ops[k], c.Top, res), c)
				}
				return bad, nil
			}
		}
		if joinOr(plain, "+") != c.Impl || joinOr(prun.w.log, ",") != c.ImplLog {
			return bad, fmt.Errorf("taps are not transparent on case %s %v", c.Top, c.Ops)
		}
	}
	if o != nil {
		ans, oerr := o.Call("c11.run", joinOr(c.Members, ";"), strconv.Itoa(c.NGroups), c.Top, joinOr(c.Ops, "+"))
		if oerr != nil {
			return bad, oerr
		}
		p := strings.SplitN(ans, "|", 3)
		if len(p) != 3 {
			return bad, fmt.Errorf("bad oracle answer %q", ans)
		}
		c.Model, c.ModelLog, c.ModelFinal = p[0], p[1], p[2]
		c.ImplFinal = c11FinalContents(run.w)
		if r != nil {
			r.Corr()
		}
		if c.Model != c.Impl {
			bad = true
			if record {
				r.Fail("corr", "corr:C11/results", fmt.Sprintf("results differ: model %s, implementation %s (chain %s)", c.Model, c.Impl, c.Top), c)
			}
		} else if c.ModelLog != c.ImplLog {
			bad = true
			if record {
				r.Fail("corr", "corr:C11/member-calls", fmt.Sprintf("member call logs differ: model %s, implementation %s (chain %s)", c.ModelLog, c.ImplLog, c.Top), c)
			}
		} else if c.ModelFinal != c.ImplFinal {
			bad = true
			if record {
				r.Fail("corr", "corr:C11/final-contents", fmt.Sprintf("final member contents differ: model %s, implementation %s (chain %s)", c.ModelFinal, c.ImplFinal, c.Top), c)
			}
		}
	}
	return bad, nil
}

// c11Shrink drops operations while the case keeps failing.
func c11Shrink(o *vh.Oracle, c *c11Case) *c11Case {
	cur := *c
	for pass := 0; pass < 3; pass++ {
		changed := false
		for k := len(cur.Ops) - 1; k >= 0; k-- {
			t := cur
			t.Ops = append(append([]string{}, cur.Ops[:k]...), cur.Ops[k+1:]...)
			if bad, err := c11Check(o, nil, &t, false); err == nil && bad && (t.predBad || !cur.predBad) {
				cur = t
				changed = true
			}
		}
		if !changed {
			break
		}
	}
	return &cur
}

// ---------- generators ----------

type c11Gen struct {
	rng     *vh.Rand
	nextM   int // next unused member
	nextG   int // next failover group number
	maxM    int
	share   bool // may a member appear twice in one chain?
	usedNow []int
}

func (g *c11Gen) leaf(writableNeeded bool) *c11Node {
	k := g.nextM
	if g.share && len(g.usedNow) > 0 && g.rng.Chance(1, 5) {
		k = g.usedNow[g.rng.Intn(len(g.usedNow))]
	} else {
		if g.nextM >= g.maxM {
			if len(g.usedNow) > 0 {
				k = g.usedNow[g.rng.Intn(len(g.usedNow))]
			} else {
				k = g.maxM - 1
			}
		} else {
			g.nextM++
		}
		g.usedNow = append(g.usedNow, k)
	}
	if !writableNeeded && g.rng.Chance(1, 6) {
		return &c11Node{Kind: 'O', K: k}
	}
	return &c11Node{Kind: 'L', K: k}
}

// stack draws a well-formed shape of depth <= d.
func (g *c11Gen) stack(d int, writableNeeded bool) *c11Node {
	r := g.rng
	if d <= 1 {
		return g.leaf(writableNeeded)
	}
	if writableNeeded {
		switch r.Intn(4) {
		case 0:
			return &c11Node{Kind: 'P', Kids: []*c11Node{g.stack(d-1, true)}}
		case 1:
			return &c11Node{Kind: 'Q', Kids: []*c11Node{g.stack(d-1, true)}}
		default:
			return g.leaf(true)
		}
	}
	switch r.Intn(10) {
	case 0, 1, 2:
		n := &c11Node{Kind: 'R'}
		for k := r.Range(0, 3); k > 0; k-- {
			n.Kids = append(n.Kids, g.stack(d-1, false))
		}
		if len(n.Kids) == 0 && !r.Chance(1, 4) {
			n.Kids = append(n.Kids, g.stack(d-1, false))
		}
		return n
	case 3, 4, 5:
		n := &c11Node{Kind: 'F', K: g.nextG}
		g.nextG++
		for k := r.Range(1, 4); k > 0; k-- {
			n.Kids = append(n.Kids, g.stack(d-1, false))
		}
		return n
	case 6, 7:
		return &c11Node{Kind: 'C', Kids: []*c11Node{g.stack(d-1, false), g.stack(d-1, true)}}
	case 8:
		return &c11Node{Kind: 'D', Kids: []*c11Node{g.stack(d-1, false)}}
	default:
		return g.stack(d-1, r.Chance(1, 3))
	}
}

// cliShape draws the shape MultiStoreWithCache/storeGroup/chunkServerStore build:
// Dedup? (Cache? (Router [Leaf | Failover [Leaf...]] ...))
func (g *c11Gen) cliShape() *c11Node {
	r := g.rng
	n := &c11Node{Kind: 'R'}
	for k := r.Range(1, 3); k > 0; k-- {
		if r.Chance(1, 2) {
			f := &c11Node{Kind: 'F', K: g.nextG}
			g.nextG++
			for j := r.Range(2, 3); j > 0; j-- {
				f.Kids = append(f.Kids, g.leaf(true))
			}
			n.Kids = append(n.Kids, f)
		} else {
			n.Kids = append(n.Kids, g.leaf(true))
		}
	}
	if r.Chance(2, 3) {
		l := g.leaf(true)
		if r.Chance(2, 3) {
			l = &c11Node{Kind: 'P', Kids: []*c11Node{l}}
		}
		n = &c11Node{Kind: 'C', Kids: []*c11Node{n, l}}
	}
	if r.Chance(1, 2) {
		n = &c11Node{Kind: 'D', Kids: []*c11Node{n}}
	}
	return n
}

func c11GenMember(r *vh.Rand, idx int, emptyish bool) (string, string) {
	var content []string
	for i := 0; i < c11Universe; i++ {
		p := r.Intn(10)
		if emptyish {
			p = r.Intn(30)
		}
		switch {
		case p < 4:
			content = append(content, fmt.Sprintf("%d:%d:1", i, idx*10+i))
		case p < 6:
			content = append(content, fmt.Sprintf("%d:%d:0", i, idx*10+i))
		}
	}
	faults, dflt, kind := "_", "n", "healthy"
	switch r.Intn(12) {
	case 0:
		dflt, kind = "e", "failing"
	case 1, 2:
		k := r.Intn(8)
		faults, kind = strings.Repeat("n", k)+"e", "fail-at-k"
	case 3:
		dflt, kind = "m", "missing"
	case 4:
		dflt, kind = "i", "invalid"
	case 5:
		b := make([]byte, r.Range(2, 14))
		for k := range b {
			b[k] = "nnnnneemi"[r.Intn(9)]
		}
		faults, kind = string(b), "random-schedule"
	case 6:
		k := r.Intn(6)
		faults, dflt, kind = strings.Repeat("n", k), "e", "fails-from-k"
	}
	return joinOr(content, ",") + "/" + faults + "/" + dflt, kind
}

func c11GenCase(rng *vh.Rand, r *vh.Result, cli bool) *c11Case {
	const nMembers = 12
	g := &c11Gen{rng: rng, maxM: nMembers, share: rng.Chance(1, 4)}
	c := &c11Case{Fresh: !g.share}
	depth := rng.Range(1, 4)
	mode := byte('N')
	switch rng.Intn(5) {
	case 0:
		mode = 'S'
	case 1:
		mode = 'W'
	}
	var shape *c11Node
	if cli {
		shape = g.cliShape()
		if mode == 'W' {
			mode = 'S'
		}
	} else {
		shape = g.stack(depth, mode == 'W' || rng.Chance(1, 8))
	}
	c.Top = string(mode) + "=" + shape.String()
	topWritable := mode == 'W' || (mode == 'N' && shape.writable())
	nops := rng.Range(6, 24)
	storeTag := 900
	curWritable := shape.writable()
	for k := 0; k < nops; k++ {
		id := rng.Intn(c11Universe)
		if rng.Chance(2, 3) {
			id = rng.Intn(3) // concentrate on a few ids so that fills and repairs are revisited
		}
		p := rng.Intn(100)
		switch {
		case p < 50:
			c.Ops = append(c.Ops, fmt.Sprintf("g%d", id))
		case p < 72:
			c.Ops = append(c.Ops, fmt.Sprintf("h%d", id))
		case p < 86:
			if topWritable || rng.Chance(1, 6) {
				storeTag++
				c.Ops = append(c.Ops, fmt.Sprintf("s%d:%d", id, storeTag))
			} else {
				c.Ops = append(c.Ops, fmt.Sprintf("g%d", id))
			}
		case p < 96:
			if mode != 'N' && g.nextM < g.maxM-1 {
				g.usedNow = nil
				var ns *c11Node
				if cli {
					ns = g.cliShape()
				} else {
					ns = g.stack(rng.Range(1, 3), curWritable && rng.Chance(5, 6))
				}
				c.Ops = append(c.Ops, "w="+ns.String())
				if !(curWritable && !ns.writable()) {
					curWritable = ns.writable()
				}
			} else {
				c.Ops = append(c.Ops, fmt.Sprintf("h%d", id))
			}
		default:
			if k == nops-1 {
				c.Ops = append(c.Ops, "x")
			} else {
				c.Ops = append(c.Ops, fmt.Sprintf("g%d", id))
			}
		}
	}
	// the closed-store predicate needs every member to sit in exactly one place of exactly one chain
	used := map[int]int{}
	for _, s := range append([]string{"w=" + c.Top[2:]}, c.Ops...) {
		if !strings.HasPrefix(s, "w=") {
			continue
		}
		n, _ := c11ParseStack(s[2:])
		var ls []int
		n.leaves(&ls)
		for _, l := range ls {
			used[l]++
		}
	}
	c.Fresh = true
	for _, n := range used {
		if n > 1 {
			c.Fresh = false
		}
	}
	c.NGroups = g.nextG
	for i := 0; i < nMembers; i++ {
		m, kind := c11GenMember(rng, i, rng.Chance(1, 3))
		c.Members = append(c.Members, m)
		if r != nil && i < g.nextM {
			r.Dist("member:" + kind)
		}
	}
	return c
}

func c11Kinds(top string) string {
	ks := map[byte]bool{}
	for i := 2; i < len(top); i++ {
		switch top[i] {
		case 'R', 'C', 'P', 'F', 'D', 'Q':
			ks[top[i]] = true
		}
	}
	var l []string
	for k := range ks {
		l = append(l, string(k))
	}
	sort.Strings(l)
	return top[:1] + ":" + strings.Join(l, "")
}

func runC11(a vh.Args, o *vh.Oracle, r *vh.Result) error {
	r.Rule = "sequential case = (member contents + per-call fault schedules, chain shape of depth <= 4 incl. the CLI shapes, optional SwapStore/SwapWriteStore, 6-24 operations Get/Has/Store/Swap/Close over 6 ids); non-trivial = the calls of the case reached two or more distinct members; distinct by (chain, operations, members). concurrent case = (failover group or swap store, goroutines, yield-hook schedule seed)"
	if a.Replay != "" {
		var probe struct {
			Conc   string   `json:"conc"`
			Blob   string   `json:"blob_hex"`
			Hist   []string `json:"hist"`
			Reload string   `json:"reload"`
		}
		readJSON(a.Replay, &probe)
		if probe.Conc != "" {
			return c11ReplayConc(a, o, r)
		}
		if probe.Reload != "" {
			var rc c11ReloadCase
			if err := readJSON(a.Replay, &rc); err != nil {
				return err
			}
			bin := c11ReloadBinary(a, r)
			if bin == "" {
				return fmt.Errorf("reload driver binary not available")
			}
			err := c11CheckReload(a, o, r, bin, &rc, 0)
			fmt.Printf("configurations: %v\nobserved: %s\nmodel: %s\n", rc.Configs, string(rc.Steps), rc.Model)
			return err
		}
		if len(probe.Hist) > 0 {
			var hc c11HistCase
			if err := readJSON(a.Replay, &hc); err != nil {
				return err
			}
			_, err := c11CheckHist(o, r, &hc, true)
			for _, l := range hc.Observed {
				fmt.Println(" ", l)
			}
			return err
		}
		if probe.Blob != "" {
			var cc c11CLICase
			if err := readJSON(a.Replay, &cc); err != nil {
				return err
			}
			err := c11CheckCLI(a, o, r, os.Getenv("VH_DESYNC"), &cc, 0)
			fmt.Printf("%s\nexit failure=%d, model %s\n", cc.Cli, cc.Exit, cc.Model)
			return err
		}
		var c c11Case
		if err := readJSON(a.Replay, &c); err != nil {
			return err
		}
		_, err := c11Check(o, r, &c, true)
		fmt.Printf("implementation: %s\n  member calls: %s\nmodel:          %s\n  member calls: %s\n", c.Impl, c.ImplLog, c.Model, c.ModelLog)
		return err
	}
	rng := vh.NewRand(a.Seed)
	n := 4000
	if a.Tier == "thorough" {
		n = 40000
	}
	for k := 0; k < n; k++ {
		c := c11GenCase(rng, r, k%4 == 3)
		r.Running(c)
		bad, err := c11Check(o, r, c, false)
		if err != nil {
			return err
		}
		if bad {
			c = c11Shrink(o, c)
			if _, err := c11Check(o, r, c, true); err != nil {
				return err
			}
		}
		multi := false
		for _, seg := range c11OpSegments(c.ImplLog, len(c.Ops)) {
			if seg >= 2 {
				multi = true
			}
		}
		r.Count(c.Top+"|"+strings.Join(c.Ops, "+")+"|"+strings.Join(c.Members, ";"), multi)
		r.Dist("shape:" + c11Kinds(c.Top))
		for _, op := range c.Ops {
			r.Dist("op:" + op[:1])
		}
		for _, res := range strings.Split(c.Impl, "+") {
			if i := strings.LastIndex(res, ":"); i >= 0 {
				r.Dist("result:" + res[:1] + res[i:])
			} else {
				r.Dist("result:" + res)
			}
		}
		if k < 3 {
			r.Sample(map[string]interface{}{"chain": c.Top, "ops": strings.Join(c.Ops, "+"), "members": c.Members[:4], "results": c.Impl, "member_calls": c.ImplLog})
		}
	}
	if err := c11Concurrent(a, o, r, rng); err != nil {
		return err
	}
	if err := c11Hammer(r, rng); err != nil {
		return err
	}
	lateTrials := 3000
	if a.Tier == "thorough" {
		lateTrials = 40000
	}
	c11FailoverLateReports(r, rng, lateTrials, map[string]interface{}{"conc": "failover-late-reports", "trials": 60000, "late_seed": a.Seed})
	if err := c11History(a, o, r, rng); err != nil {
		return err
	}
	if err := c11CLI(a, o, r, rng); err != nil {
		return err
	}
	if err := c11Reload(a, o, r, rng); err != nil {
		return err
	}
	if a.Tier == "thorough" {
		if bin := chainsRaceBinary(a, r); bin != "" {
			chainsRaceRun(a, r, bin, "C11race", "C11", 10*time.Minute)
		}
	}
	return nil
}

// c11OpSegments is a cheap non-triviality measure: the number of distinct members in the log.
func c11OpSegments(log string, nops int) []int {
	if log == "_" {
		return nil
	}
	ms := map[string]bool{}
	for _, e := range strings.Split(log, ",") {
		k := 0
		for k < len(e) && e[k] >= '0' && e[k] <= '9' {
			k++
		}
		ms[e[:k]] = true
	}
	return []int{len(ms)}
}
