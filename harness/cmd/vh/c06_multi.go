package main

// C06, CLI level: `desync cache` with several index arguments (2..4, every order for small counts):
// small / big / overlapping / identical / empty indexes, optionally with --ignore.  Local source and
// target stores, no fault.  Predicate: exit 0 => every chunk of EVERY listed index (minus the chunks of
// the --ignore indexes) can be read back, valid, from the target through a fresh store.

import (
	"bytes"
	"context"
	"fmt"
	"os"
	"os/exec"
	"path/filepath"
	"strconv"
	"strings"
	"time"

	"github.com/folbricht/desync"

	"vh/internal/vh"
)

type c06MultiCase struct {
	Op      string   `json:"op"` // cache-multi
	N       int      `json:"n"`
	Chunks  []string `json:"chunks_hex"` // the pool of chunk contents
	Indexes [][]int  `json:"indexes"`    // each index argument as a list of pool positions, in command-line order
	Names   []string `json:"names"`
	Ignore  []int    `json:"ignore,omitempty"` // pool positions of the --ignore index (nil: none)
	Level   string   `json:"level"`            // cli-multi

	Got    string `json:"impl_result,omitempty"`
	Detail string `json:"detail,omitempty"`
}

func c06MultiCheck(a vh.Args, r *vh.Result, c *c06MultiCase) error {
	bin := os.Getenv("VH_DESYNC")
	if bin == "" {
		return nil
	}
	desync.Digest = desync.SHA512256{}
	work := filepath.Join(a.Work, "c06multi")
	os.RemoveAll(work)
	src, srcDir, err := bkNewStore(work, "src")
	if err != nil {
		return err
	}
	_, dstDir, err := bkNewStore(work, "dst")
	if err != nil {
		return err
	}
	pool := make([][]byte, len(c.Chunks))
	for i, h := range c.Chunks {
		pool[i] = vh.UnHex(h)
		if err := src.StoreChunk(desync.NewChunk(pool[i])); err != nil {
			return err
		}
	}
	mkIndex := func(pos []int) bkInput {
		var in bkInput
		for _, p := range pos {
			in.Blob = append(in.Blob, pool[p]...)
			in.Sizes = append(in.Sizes, len(pool[p]))
		}
		return in
	}
	args := []string{"cache", "-s", srcDir, "-c", dstDir, "-n", strconv.Itoa(c.N)}
	ignored := map[int]bool{}
	if c.Ignore != nil {
		ig := filepath.Join(work, "ignore.caibx")
		if err := c07WriteIndex(ig, mkIndex(c.Ignore).index()); err != nil {
			return err
		}
		args = append(args, "--ignore", ig)
		for _, p := range c.Ignore {
			ignored[p] = true
		}
	}
	var ins []bkInput
	for i, pos := range c.Indexes {
		in := mkIndex(pos)
		ins = append(ins, in)
		f := filepath.Join(work, fmt.Sprintf("%d-%s.caibx", i, c.Names[i]))
		if err := c07WriteIndex(f, in.index()); err != nil {
			return err
		}
		args = append(args, f)
	}
	ctx, cancel := context.WithTimeout(context.Background(), 60*time.Second)
	defer cancel()
	cmd := exec.CommandContext(ctx, bin, args...)
	var stderr bytes.Buffer
	cmd.Stderr = &stderr
	cmd.Env = append(os.Environ(), "HOME="+work)
	rerr := cmd.Run()
	rc := 0
	if rerr != nil {
		rc = -1
		if ee, ok := rerr.(*exec.ExitError); ok {
			rc = ee.ExitCode()
		}
	}
	c.Got = "exit:" + strconv.Itoa(rc)
	c.Detail = strings.TrimSpace(stderr.String())
	if len(c.Detail) > 300 {
		c.Detail = c.Detail[:300]
	}
	key := fmt.Sprintf("multi|%d|%s|%v", c.N, strings.Join(c.Names, ","), c.Ignore != nil)
	r.Count(key, len(c.Indexes) > 1)
	r.Dist(fmt.Sprintf("cli:cache %d indexes", len(c.Indexes)))
	r.Dist("cli-result:cache-multi/" + c.Got)
	if rc != 0 {
		r.Fail("predicate", "cli-cache/error-without-failure", fmt.Sprintf("desync cache %s exited %d although nothing failed: %s", strings.Join(c.Names, " "), rc, c.Detail), c)
		return nil
	}
	for i, in := range ins {
		// every chunk of this index that is not ignored
		idx := in.index()
		var keep desync.Index
		for j, ch := range idx.Chunks {
			if !ignored[c.Indexes[i][j]] {
				keep.Chunks = append(keep.Chunks, ch)
			}
		}
		if d := bkReadBack(dstDir, keep, in.Blob); d != "" {
			r.Fail("predicate", "cli-cache/exit0-but-chunk-of-listed-index-missing",
				fmt.Sprintf("desync cache (n=%d) with the indexes [%s] exited 0 but a chunk of argument %d (%s, %d chunks) is not in the target: %s",
					c.N, strings.Join(c.Names, " "), i+1, c.Names[i], len(idx.Chunks), d), c)
			return nil
		}
	}
	return nil
}

func c06Multis(a vh.Args, r *vh.Result, rng *vh.Rand) error {
	if os.Getenv("VH_DESYNC") == "" {
		return nil
	}
	// pool of 40 distinct chunks
	seen := map[string]bool{}
	var pool []string
	for len(pool) < 40 {
		b := rng.Bytes(20 + rng.Intn(60))
		if !seen[string(b)] {
			seen[string(b)] = true
			pool = append(pool, vh.Hex(b))
		}
	}
	rangeOf := func(lo, hi int) []int {
		var o []int
		for i := lo; i < hi; i++ {
			o = append(o, i)
		}
		return o
	}
	kinds := map[string][]int{
		"small":     rangeOf(0, 4),
		"big":       rangeOf(10, 36),
		"overlap":   append(rangeOf(2, 6), rangeOf(30, 40)...), // shares ids with small and big
		"identical": rangeOf(0, 4),                             // same as small
		"medium":    rangeOf(5, 14),
		"dups":      {7, 7, 8, 7, 8, 9},
		"empty":     {},
	}
	var combos [][]string
	perm2 := func(a, b string) { combos = append(combos, []string{a, b}, []string{b, a}) }
	perm2("small", "big")
	perm2("small", "overlap")
	perm2("small", "identical")
	perm2("empty", "big")
	perm2("dups", "medium")
	for _, p := range [][]string{{"small", "medium", "big"}, {"small", "big", "medium"}, {"medium", "small", "big"},
		{"medium", "big", "small"}, {"big", "small", "medium"}, {"big", "medium", "small"},
		{"empty", "small", "overlap"}, {"small", "overlap", "big", "medium"}, {"dups", "small", "medium", "big"}, {"big", "empty", "small", "identical"}} {
		combos = append(combos, p)
	}
	combos = append(combos, []string{"small"}, []string{"empty"})
	if a.Tier == "thorough" {
		names := []string{"small", "big", "overlap", "identical", "medium", "dups", "empty"}
		for t := 0; t < 60; t++ {
			k := 2 + rng.Intn(3)
			var p []string
			for i := 0; i < k; i++ {
				p = append(p, names[rng.Intn(len(names))])
			}
			combos = append(combos, p)
		}
	}
	for i, p := range combos {
		c := &c06MultiCase{Op: "cache-multi", N: []int{1, 4, 10}[i%3], Chunks: pool, Names: p, Level: "cli-multi"}
		for _, nm := range p {
			c.Indexes = append(c.Indexes, kinds[nm])
		}
		if i%4 == 3 {
			c.Ignore = []int{1, 12, 33}
		}
		if err := c06MultiCheck(a, r, c); err != nil {
			return err
		}
	}
	return nil
}
