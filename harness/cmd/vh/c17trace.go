package main

import (
	"context"
	"fmt"
	"os"
	"path/filepath"
	"strconv"
	"strings"
	"sync"
	"time"

	"github.com/folbricht/desync"

	"vh/internal/vh"
)

// Trace validation of VerifyIndex's feeder/worker skeleton against Model/Pool.v (oracle command
// c17.ptrace, Model/PoolTrace.v).  The verif build reports every receive of a batch, every
// validation result, every worker exit and the feeder's stop; the harness adds the moment it
// cancels the context.  The recorded sequence must be an execution of the model (records of
// receives may be late, see PoolTrace.v), end with all workers exited, and give the result the
// call returned.  The batches named by the receives must be the model's batches (start, length).

type c17TraceCase struct {
	Kind     string `json:"kind"` // pooltrace
	BlobHex  string `json:"blob_hex"`
	Sizes    []int  `json:"sizes"`
	N        int    `json:"n"`
	FlipAt   int    `json:"flip_at"`   // -1: file == blob
	CancelAt int    `json:"cancel_at"` // cancel the context at this yield-hook hit (0 = never)
	Sched    uint64 `json:"sched_seed"`
	Got      string `json:"impl_result,omitempty"`
	Events   string `json:"events,omitempty"`
	Model    string `json:"model,omitempty"`
}

type c17Ev struct {
	ev   string
	a, b uint64
	gid  int64
}

func c17TraceOne(a vh.Args, o *vh.Oracle, r *vh.Result, c *c17TraceCase) error {
	if o == nil {
		return nil
	}
	r.Running(c)
	desync.Digest = desync.SHA256{}
	blob := vh.UnHex(c.BlobHex)
	file := append([]byte{}, blob...)
	if c.FlipAt >= 0 && c.FlipAt < len(file) {
		file[c.FlipAt] ^= 0x20
	}
	idx := buildIndex(blob, c.Sizes)
	dir, err := os.MkdirTemp(a.Work, "ptrace")
	if err != nil {
		return err
	}
	defer os.RemoveAll(dir)
	name := filepath.Join(dir, "file")
	if err := os.WriteFile(name, file, 0644); err != nil {
		return err
	}
	var (
		mu  sync.Mutex
		evs []c17Ev
	)
	desync.VerifTraceBegin = nil
	desync.VerifTraceEnd = func(begun bool, ev string, x, y, z uint64) {
		if !strings.HasPrefix(ev, "v.") {
			return
		}
		mu.Lock()
		evs = append(evs, c17Ev{ev, x, y, vh.Goid()})
		mu.Unlock()
	}
	defer func() { desync.VerifTraceEnd = nil }()
	ctx, cancel := context.WithCancel(context.Background())
	defer cancel()
	ch := vh.NewChaos(c.Sched, 4, 40*time.Microsecond)
	hits := 0
	var hmu sync.Mutex
	desync.VerifSetYieldHook(func(site string) {
		hmu.Lock()
		hits++
		fire := c.CancelAt > 0 && hits == c.CancelAt
		hmu.Unlock()
		if fire {
			mu.Lock()
			evs = append(evs, c17Ev{ev: "v.cancel"})
			mu.Unlock()
			cancel()
		}
		ch.Hook(site)
	})
	defer desync.VerifSetYieldHook(nil)
	verr := desync.VerifyIndex(ctx, name, idx, c.N, desync.NullProgressBar{})
	switch verr.(type) {
	case nil:
		c.Got = "nil"
	case desync.Interrupted:
		c.Got = "int"
	default:
		c.Got = "err"
	}
	mu.Lock()
	recorded := append([]c17Ev{}, evs...)
	mu.Unlock()
	// the model's batches: batch number by the start offset of its first chunk
	bs, err := o.Call("c17.batches", strconv.Itoa(c.N), strconv.Itoa(len(c.Sizes)))
	if err != nil {
		return err
	}
	startOf := map[uint64]int{}
	var blen []int
	if bs != "-" && bs != "NONE" {
		ci := 0
		for k, t := range strings.Split(bs, ",") {
			n, _ := strconv.Atoi(t)
			startOf[idx.Chunks[ci].Start] = k
			blen = append(blen, n)
			ci += n
		}
	}
	worker := map[int64]int{}
	widx := func(g int64) int {
		if w, ok := worker[g]; ok {
			return w
		}
		worker[g] = len(worker)
		return worker[g]
	}
	var out []string
	for _, e := range recorded {
		switch e.ev {
		case "v.take", "v.ok", "v.fail":
			k, ok := startOf[e.a]
			if !ok || blen[k] != int(e.b) {
				c.Events = fmt.Sprintf("%s start=%d len=%d", e.ev, e.a, e.b)
				r.Fail("corr", "corr:C17/trace-batch", "a worker received a batch that is not one of the model's batches (start offset, length)", c)
				return nil
			}
			out = append(out, fmt.Sprintf("%s:%d:%d", map[string]string{"v.take": "T", "v.ok": "O", "v.fail": "F"}[e.ev], widx(e.gid), k))
		case "v.exit":
			out = append(out, fmt.Sprintf("X:%d", widx(e.gid)))
		case "v.close":
			out = append(out, fmt.Sprintf("C:%d", e.a))
		case "v.cancel":
			out = append(out, "K")
		}
	}
	c.Events = strings.Join(out, ",")
	if len(out) == 0 {
		c.Events = "-"
	}
	ans, err := o.Call("c17.ptrace", strconv.Itoa(c.N), strconv.Itoa(len(blen)), c.Events)
	if err != nil {
		return err
	}
	c.Model = ans
	r.Corr()
	r.Count(fmt.Sprintf("ptrace|%d|%d|%d|%d|%d", c.N, len(c.Sizes), c.FlipAt, c.CancelAt, c.Sched), c.N > 1)
	r.Dist("ptrace:result:" + c.Got)
	r.Dist("ptrace:n:" + bucket(c.N))
	r.Dist("ptrace:events:" + bucket(len(out)))
	if strings.Contains(ans, " ") && strings.HasPrefix(ans, "ok") {
		// did the replay need a catch-up (a late record)?  (informational: a take recorded out of batch order)
		last := -1
		for _, t := range out {
			if strings.HasPrefix(t, "T:") {
				p := strings.Split(t, ":")
				k, _ := strconv.Atoi(p[2])
				if k < last {
					r.Dist("ptrace:late-record")
					break
				}
				last = k
			}
		}
	}
	want := "ok 1 " + c.Got + " "
	switch {
	case strings.HasPrefix(ans, "FAIL"):
		r.Fail("corr", "corr:C17/trace", "an event VerifyIndex's goroutines performed is not enabled in Model/Pool.v at that point: "+ans, c)
	case !strings.HasPrefix(ans, want):
		r.Fail("corr", "corr:C17/trace-final", "the model followed the recorded events but does not end with all workers exited and the result the call returned ("+c.Got+"): "+ans, c)
	}
	return nil
}

func c17Trace(a vh.Args, o *vh.Oracle, r *vh.Result, rng *vh.Rand, n int) error {
	for i := 0; i < n; i++ {
		blob := rng.Bytes(50 + rng.Intn(900))
		sizes := randomSizes(rng, len(blob), 1+rng.Intn(40))
		c := &c17TraceCase{Kind: "pooltrace", BlobHex: vh.Hex(blob), Sizes: sizes, N: []int{1, 2, 2, 3, 4, 8, 1 + rng.Intn(64)}[rng.Intn(7)],
			FlipAt: -1, Sched: 1 + rng.U64()%1000000}
		if rng.Chance(1, 2) {
			c.FlipAt = rng.Intn(len(blob))
		}
		if rng.Chance(1, 3) {
			c.CancelAt = 1 + rng.Intn(2*len(sizes)/(c.N*10+1)+6)
		}
		if err := c17TraceOne(a, o, r, c); err != nil {
			return err
		}
	}
	return nil
}
