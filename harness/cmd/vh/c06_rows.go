package main

// C06, many index rows: ChunkStream on streams whose row count crosses the powers of two up to 2^17
// (min=avg=max=48, so every chunk has 48 bytes; an in-memory store keeps it cheap), while the store call of
// a chosen early or boundary row is held back until the feeder is thousands of rows ahead (past the next
// power of two).  No fault, no cancellation.  Predicate as everywhere in C06: nil => every row's ID is the
// digest of its range and that ID can be read back, valid, from the target.

import (
	"bytes"
	"context"
	"fmt"
	"sync"
	"sync/atomic"
	"time"

	"github.com/folbricht/desync"

	"vh/internal/vh"
)

type c06RowsCase struct {
	Op     string `json:"op"` // chunkstream-rows
	N      int    `json:"n"`
	Rows   int    `json:"rows"`
	Seed   uint64 `json:"stream_seed"`
	Kind   string `json:"stall_kind"`  // has | store
	K      int    `json:"stall_call"`  // the K-th call of that kind is held
	Until  int    `json:"stall_until"` // ... until that many calls of the kind were made (or nothing moves)
	Level  string `json:"level"`       // library-rows
	Got    string `json:"impl_result,omitempty"`
	Detail string `json:"detail,omitempty"`
	Passed int    `json:"calls_while_stalled"`
}

type bkMemStore struct {
	mu     sync.RWMutex
	m      map[desync.ChunkID][]byte
	kind   string
	k      int64
	until  int64
	n      map[string]*int64
	passed int64
}

func newBkMemStore(kind string, k, until int) *bkMemStore {
	var h, s int64
	return &bkMemStore{m: map[desync.ChunkID][]byte{}, kind: kind, k: int64(k), until: int64(until), n: map[string]*int64{"has": &h, "store": &s}}
}

func (s *bkMemStore) enter(kind string) {
	ctr := s.n[kind]
	num := atomic.AddInt64(ctr, 1)
	if kind != s.kind || num != s.k {
		return
	}
	last, lastChange := atomic.LoadInt64(ctr), time.Now()
	deadline := time.Now().Add(5 * time.Second)
	for time.Now().Before(deadline) {
		cur := atomic.LoadInt64(ctr)
		if cur >= s.until {
			break
		}
		if cur != last {
			last, lastChange = cur, time.Now()
		} else if time.Since(lastChange) > 40*time.Millisecond {
			break
		}
		time.Sleep(100 * time.Microsecond)
	}
	atomic.StoreInt64(&s.passed, atomic.LoadInt64(ctr)-num)
}
func (s *bkMemStore) GetChunk(id desync.ChunkID) (*desync.Chunk, error) {
	s.mu.RLock()
	b, ok := s.m[id]
	s.mu.RUnlock()
	if !ok {
		return nil, desync.ChunkMissing{ID: id}
	}
	return desync.NewChunkWithID(id, b, false)
}
func (s *bkMemStore) HasChunk(id desync.ChunkID) (bool, error) {
	s.enter("has")
	s.mu.RLock()
	_, ok := s.m[id]
	s.mu.RUnlock()
	return ok, nil
}
func (s *bkMemStore) StoreChunk(c *desync.Chunk) error {
	s.enter("store")
	b, err := c.Data()
	if err != nil {
		return err
	}
	cp := append([]byte{}, b...)
	s.mu.Lock()
	s.m[c.ID()] = cp
	s.mu.Unlock()
	return nil
}
func (s *bkMemStore) Close() error   { return nil }
func (s *bkMemStore) String() string { return "mem" }

func c06RowsCheck(a vh.Args, r *vh.Result, c *c06RowsCase) error {
	desync.Digest = desync.SHA512256{}
	blob := vh.NewRand(c.Seed).Bytes(c.Rows * 48)
	ms := newBkMemStore(c.Kind, c.K, c.Until)
	ch, err := desync.NewChunker(bytes.NewReader(blob), 48, 48, 48)
	if err != nil {
		return err
	}
	idx, opErr := desync.ChunkStream(context.Background(), ch, ms, c.N)
	c.Got = bkErrClass(opErr)
	c.Passed = int(atomic.LoadInt64(&ms.passed))
	key := fmt.Sprintf("rows|%d|%d|%s|%d|%d", c.N, c.Rows, c.Kind, c.K, c.Until)
	r.Count(key, c.Passed > 0)
	r.Dist("rows:" + bucketPow2(c.Rows))
	if c.Got != "nil" {
		c.Detail = opErr.Error()
		r.Fail("predicate", "chunkstream/error-without-failure", fmt.Sprintf("ChunkStream (n=%d, %d rows) returned %s (%s) although nothing failed", c.N, c.Rows, c.Got, c.Detail), c)
		return nil
	}
	if len(idx.Chunks) != c.Rows {
		r.Fail("predicate", "chunkstream/nil-but-index-wrong", fmt.Sprintf("ChunkStream (n=%d) returned nil with %d rows for a stream of %d chunks", c.N, len(idx.Chunks), c.Rows), c)
		return nil
	}
	for i, row := range idx.Chunks {
		want := desync.ChunkID(desync.Digest.Sum(blob[i*48 : (i+1)*48]))
		if row.Start != uint64(i*48) || row.Size != 48 || row.ID != want {
			c.Detail = fmt.Sprintf("row %d: start %d size %d id %s, expected id %s", i, row.Start, row.Size, row.ID.String(), want.String())
			r.Fail("predicate", "chunkstream/nil-but-index-wrong", fmt.Sprintf("ChunkStream (n=%d, %d rows, %s call %d held while %d further calls went by) returned nil but row %d of the index does not hash to its ID (%s)", c.N, c.Rows, c.Kind, c.K, c.Passed, i, row.ID.String()[:16]), c)
			return nil
		}
		ms.mu.RLock()
		b, ok := ms.m[row.ID]
		ms.mu.RUnlock()
		if !ok || desync.Digest.Sum(b) != row.ID {
			r.Fail("predicate", "chunkstream/nil-but-chunk-not-readable", fmt.Sprintf("ChunkStream (n=%d, %d rows) returned nil but the chunk of row %d is not (valid) in the target", c.N, c.Rows, i), c)
			return nil
		}
	}
	return nil
}

func bucketPow2(n int) string {
	p := 1
	for p*2 <= n {
		p *= 2
	}
	return fmt.Sprintf("rows>=2^%d", bitsOf(p))
}
func bitsOf(p int) int {
	b := 0
	for p > 1 {
		p /= 2
		b++
	}
	return b
}

func c06Rows(a vh.Args, r *vh.Result, rng *vh.Rand) error {
	type rc struct{ rows, k, until, n int }
	var cases []rc
	// small powers of two: the held row is before the boundary, the feeder runs past it
	for _, p := range []int{256, 1024, 4096, 16384} {
		cases = append(cases, rc{p + p/4 + rng.Intn(50), 1 + rng.Intn(5), p + p/8, 2})
		cases = append(cases, rc{p + p/4 + rng.Intn(50), p - 2 - rng.Intn(3), p + p/8, 4})
	}
	// 2^16 and 2^17
	cases = append(cases,
		rc{65536 + 3000 + rng.Intn(100), 2 + rng.Intn(5), 65536 + 2000, 2},
		rc{65536 + 3000 + rng.Intn(100), 65536 - 4, 65536 + 2000, 4},
		rc{131072 + 3000, 65536 + 7, 131072 + 2000, 2})
	if a.Tier == "thorough" {
		for i := 0; i < 12; i++ {
			p := 1 << (8 + rng.Intn(10))
			cases = append(cases, rc{p + p/4, 1 + rng.Intn(p), p + p/8, 2 + rng.Intn(7)})
		}
	}
	for i, x := range cases {
		c := &c06RowsCase{Op: "chunkstream-rows", N: x.n, Rows: x.rows, Seed: rng.U64(), Kind: []string{"has", "store"}[i%2], K: x.k, Until: x.until, Level: "library-rows"}
		if err := c06RowsCheck(a, r, c); err != nil {
			return err
		}
	}
	return nil
}
