package main

// C20: one directory, the SAME chunk id stored in both formats, with temp files in play.
//  leftover: `.tmp-cacnk*` files in the chunk's directory -- under every name a writer of either format could
//    have used -- holding the OTHER format's bytes of the same chunk (also longer / shorter variants), as an
//    interrupted writer leaves them; then StoreChunk through this format's client.
//  twoformat-concurrent: a compressed and an uncompressed client store the same large chunk into one
//    directory at the same time, several goroutines each, many rounds.
// Predicate: after StoreChunk returned nil each format's file satisfies the layout predicate exactly
// (un-suffixed = the raw bytes; .cacnk = ONE zstd frame of them, nothing after it) and is served back.

import (
	"bytes"
	"fmt"
	"os"
	"path/filepath"
	"sync"

	"github.com/folbricht/desync"

	"vh/internal/vh"
)

type c20TmpCase struct {
	Kind     string `json:"kind"` // leftover | twoformat-concurrent
	Unc      bool   `json:"unc"`  // leftover: the format of the client that stores
	TmpName  string `json:"tmp_name,omitempty"`
	Content  string `json:"leftover_content,omitempty"`
	Shape    string `json:"shape"`
	DataLen  int    `json:"data_len"`
	Writers  int    `json:"writers,omitempty"`
	Rounds   int    `json:"rounds,omitempty"`
	Seed     uint64 `json:"seed"`
	What     string `json:"what,omitempty"`
}

func c20TmpData(c *c20TmpCase) []byte {
	if c.Shape == "text" {
		return bytes.Repeat([]byte(fmt.Sprintf("line %d of a compressible chunk\n", c.Seed)), c.DataLen/32+1)[:c.DataLen]
	}
	return vh.NewRand(c.Seed).Bytes(c.DataLen)
}

func c20Leftover(a vh.Args, r *vh.Result, c *c20TmpCase) error {
	desync.Digest = desync.SHA256{}
	data := c20TmpData(c)
	idh := lsSha256Hex(data)
	id, _ := desync.ChunkIDFromString(idh)
	dir, err := lsFreshDir(a.Work, "leftover")
	if err != nil {
		return err
	}
	frame, _ := desync.Compress(data)
	other := frame // what the other format's writer would have had in its temp file
	if !c.Unc {
		other = data
	}
	var left []byte
	switch c.Content {
	case "other-format-object":
		left = other
	case "other-format-object+tail":
		left = append(append([]byte{}, other...), bytes.Repeat([]byte{0xEE}, len(data)+100)...)
	case "other-format-prefix":
		left = other[:len(other)/2]
	case "long-garbage":
		left = vh.NewRand(c.Seed + 1).Bytes(2*len(data) + 500)
	}
	os.MkdirAll(filepath.Join(dir, idh[:4]), 0755)
	tmpName := map[string]string{"id": ".tmp-cacnk." + idh, "id-noext-dot": ".tmp-cacnk" + idh, "id.cacnk": ".tmp-cacnk." + idh + ".cacnk",
		"digits": ".tmp-cacnk.1234567890", "bare": ".tmp-cacnk"}[c.TmpName]
	if err := os.WriteFile(filepath.Join(dir, idh[:4], tmpName), left, 0644); err != nil {
		return err
	}
	s, err := lsLocalStore(dir, c.Unc, false)
	if err != nil {
		return err
	}
	r.Count(fmt.Sprintf("leftover|%v|%s|%s|%s|%d", c.Unc, c.TmpName, c.Content, c.Shape, c.DataLen), true)
	r.Dist("leftover-name:" + c.TmpName)
	fail := func(class, what string) {
		c.What = what
		r.Fail("predicate", class, what, c)
	}
	if err := s.StoreChunk(desync.NewChunk(data)); err != nil {
		fail("twoformat/store-fails", fmt.Sprintf("StoreChunk (unc=%v) with a leftover temp file %s in the directory: %v", c.Unc, tmpName, err))
		return nil
	}
	if p := layoutProblem(dir, data, map[bool]bool{c.Unc: true}); p != "" {
		fail("twoformat/wrong-object-on-disk", fmt.Sprintf("StoreChunk (unc=%v) returned nil with a leftover temp file %s (%s, %d bytes) of the other format's writer in the directory: %s", c.Unc, tmpName, c.Content, len(left), p))
		return nil
	}
	got, gerr := s.GetChunk(id)
	var d []byte
	if gerr == nil {
		d, _ = got.Data()
	}
	if gerr != nil || !bytes.Equal(d, data) {
		fail("twoformat/not-served-back", fmt.Sprintf("GetChunk after StoreChunk with a leftover temp file %s: %v", tmpName, gerr))
	}
	return nil
}

func c20TwoFormatConcurrent(a vh.Args, r *vh.Result, c *c20TmpCase) error {
	desync.Digest = desync.SHA256{}
	data := c20TmpData(c)
	idh := lsSha256Hex(data)
	id, _ := desync.ChunkIDFromString(idh)
	dir, err := lsFreshDir(a.Work, "twoformat")
	if err != nil {
		return err
	}
	sc, err := lsLocalStore(dir, false, false)
	if err != nil {
		return err
	}
	su, err := lsLocalStore(dir, true, false)
	if err != nil {
		return err
	}
	r.Count(fmt.Sprintf("twoformat-concurrent|%s|%d|%d|%d", c.Shape, c.DataLen, c.Writers, c.Rounds), true)
	fail := func(class, what string) {
		c.What = what
		r.Fail("predicate", class, what, c)
	}
	for round := 0; round < c.Rounds; round++ {
		sc.RemoveChunk(id)
		su.RemoveChunk(id)
		var wg sync.WaitGroup
		start := make(chan struct{})
		errs := make(chan error, 2*c.Writers)
		for i := 0; i < 2*c.Writers; i++ {
			st := sc
			if i%2 == 1 {
				st = su
			}
			wg.Add(1)
			go func() {
				defer wg.Done()
				<-start
				if err := st.StoreChunk(desync.NewChunk(data)); err != nil {
					errs <- err
				}
			}()
		}
		close(start)
		wg.Wait()
		select {
		case e := <-errs:
			fail("twoformat/store-fails", fmt.Sprintf("round %d: StoreChunk of the same chunk through a compressed and an uncompressed client at once: %v", round, e))
			return nil
		default:
		}
		if p := layoutProblem(dir, data, map[bool]bool{false: true, true: true}); p != "" {
			fail("twoformat/wrong-object-on-disk", fmt.Sprintf("round %d, %d compressed + %d uncompressed concurrent writers of one %d-byte chunk all returned nil: %s", round, c.Writers, c.Writers, len(data), p))
			return nil
		}
		for _, st := range []desync.LocalStore{sc, su} {
			got, gerr := st.GetChunk(id)
			var d []byte
			if gerr == nil {
				d, _ = got.Data()
			}
			if gerr != nil || !bytes.Equal(d, data) {
				fail("twoformat/not-served-back", fmt.Sprintf("round %d: GetChunk (uncompressed=%v) after the concurrent stores: %v", round, st.Opt.Uncompressed, gerr))
				return nil
			}
		}
	}
	return nil
}

func c20TmpAll(a vh.Args, r *vh.Result, rng *vh.Rand) error {
	thorough := a.Tier == "thorough"
	for _, unc := range []bool{false, true} {
		for _, name := range []string{"id", "id-noext-dot", "id.cacnk", "digits", "bare"} {
			for _, content := range []string{"other-format-object", "other-format-object+tail", "other-format-prefix", "long-garbage"} {
				for _, shape := range []string{"random", "text"} {
					c := &c20TmpCase{Kind: "leftover", Unc: unc, TmpName: name, Content: content, Shape: shape, DataLen: 500 + rng.Intn(3000), Seed: rng.U64() % 1000000}
					if err := c20Leftover(a, r, c); err != nil {
						return err
					}
				}
			}
		}
	}
	rounds := 12
	if thorough {
		rounds = 80
	}
	for _, shape := range []string{"random", "text"} {
		c := &c20TmpCase{Kind: "twoformat-concurrent", Shape: shape, DataLen: 2 << 20, Writers: 3, Rounds: rounds, Seed: rng.U64() % 1000000}
		if err := c20TwoFormatConcurrent(a, r, c); err != nil {
			return err
		}
	}
	return nil
}
