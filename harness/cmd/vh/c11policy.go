package main

// The documented policy of every chain node, checked on the answers its children actually gave
// (recorded by the taps).  Written from the doc comments of storerouter.go, cache.go, failover.go,
// dedupqueue.go; independent of the Coq model.

import "fmt"

func c11WrapClass(e string) string {
	switch e {
	case "m":
		return "M"
	case "i":
		return "I"
	}
	return e
}

func c11EvString(ev []c11Event) string {
	s := ""
	for _, e := range ev {
		s += fmt.Sprintf(" child%d.%c(%d)=%s", e.Child, e.Op, e.ID, e.Ans)
	}
	return s
}

// reliableLeaf: the node is a member (possibly behind a RepairableCache) that never injects a fault and
// sits in exactly one place, so nobody else writes to it.
func c11ReliableLeaf(r *c11Run, n *c11Node) (*c11Member, bool) {
	if n.Kind == 'P' {
		n = n.Kids[0]
	}
	if n.Kind != 'L' && n.Kind != 'O' {
		return nil, false
	}
	m := r.w.members[n.K]
	return m, r.fresh && m.faults == "" && m.dflt == 'n'
}

func c11CheckPolicy(r *c11Run, f *c11Frame, a c11Ans) {
	n := f.inst.node
	ev := f.events
	nk := len(n.Kids)
	bad := func(class, format string, args ...interface{}) {
		r.fail(class, "%s node %s, %c(%d) answered %s after%s: %s", string(n.Kind), n.String(), f.op, f.id, a, c11EvString(ev), fmt.Sprintf(format, args...))
	}
	if n.Kind == 'L' || n.Kind == 'O' {
		return
	}
	// every child call of a request is about the same id and kind (store into the cache excepted)
	for _, e := range ev {
		if e.Op != 'x' && e.ID != f.id {
			bad("chain/wrong-id", "a child was asked for another chunk")
			return
		}
	}
	if f.op == 'x' {
		want := make([]int, 0, nk)
		for i := 0; i < nk; i++ {
			want = append(want, i)
		}
		if n.Kind == 'C' {
			want = []int{1, 0}
		}
		ok := len(ev) == len(want)
		for i := 0; ok && i < len(want); i++ {
			ok = ev[i].Op == 'x' && ev[i].Child == want[i]
		}
		if !ok {
			bad("chain/close", "Close must reach every child exactly once")
		}
		return
	}
	switch n.Kind {
	case 'R':
		for j, e := range ev {
			if e.Child != j || e.Op != f.op {
				bad("router/order", "members must be asked in order")
				return
			}
		}
		if f.op == 'g' {
			for j := 0; j+1 < len(ev); j++ {
				if ev[j].Ans.E != "m" {
					bad("router/get", "went on after a member that did not answer ChunkMissing")
					return
				}
			}
			if len(ev) == 0 {
				if nk != 0 || a.E != "m" || a.Tag != -1 {
					bad("router/get", "no member asked")
				}
				return
			}
			last := ev[len(ev)-1].Ans
			switch {
			case last.E == "m":
				if len(ev) != nk {
					bad("router/get", "stopped although the last member asked merely lacked the chunk")
				} else if a.E != "m" || a.Tag != -1 {
					bad("router/get", "all members lack the chunk: ChunkMissing expected")
				}
			case last.E == "n":
				if a.E != "n" || a.Tag != last.Tag {
					bad("router/get", "a member has the chunk and the earlier ones merely lack it: that chunk expected")
				}
			default:
				if a.Tag != -1 || a.E != c11WrapClass(last.E) {
					bad("router/get", "a member failed: its error expected")
				}
			}
		} else if f.op == 'h' {
			for j := 0; j+1 < len(ev); j++ {
				if ev[j].Ans.E != "n" || ev[j].Ans.B {
					bad("router/has", "went on after a member that had the chunk or failed")
					return
				}
			}
			if len(ev) == 0 {
				if nk != 0 || a.E != "n" || a.B {
					bad("router/has", "no member asked")
				}
				return
			}
			last := ev[len(ev)-1].Ans
			switch {
			case last.E != "n":
				if a.B || a.E != last.E {
					bad("router/has", "a member failed: (false, its error) expected")
				}
			case last.B:
				if !a.B || a.E != "n" {
					bad("router/has", "a member has the chunk: true expected")
				}
			default:
				if len(ev) != nk {
					bad("router/has", "stopped although the last member asked merely lacked the chunk")
				} else if a.B || a.E != "n" {
					bad("router/has", "no member has the chunk: false expected")
				}
			}
		}
	case 'C':
		const S, L = 0, 1
		lm, reliable := c11ReliableLeaf(r, n.Kids[L])
		_ = lm
		if len(ev) == 0 || ev[0].Child != L || ev[0].Op != f.op {
			bad("cache/order", "the cache must be asked first")
			return
		}
		if f.op == 'g' {
			if tag, ok := f.inst.cached[f.id]; ok && reliable {
				if len(ev) != 1 || ev[0].Ans.E != "n" || a.Tag != tag || a.E != "n" {
					bad("cache/cached-chunk-not-served", "chunk %d (copy %d) was put into the healthy cache earlier: it must be served from there without touching upstream", f.id, tag)
					return
				}
			}
			first := ev[0].Ans
			switch first.E {
			case "n":
				if len(ev) != 1 {
					bad("cache/hit-touches-upstream", "a cache hit must not touch upstream")
				} else if a != first {
					bad("cache/get", "cache hit: the cached chunk expected")
				} else {
					f.inst.cached[f.id] = a.Tag
				}
			case "m":
				if len(ev) < 2 || ev[1].Child != S || ev[1].Op != 'g' {
					bad("cache/get", "cache miss: upstream must be asked")
					return
				}
				up := ev[1].Ans
				if up.E != "n" {
					if len(ev) != 2 || a != up {
						bad("cache/get", "upstream failed: its answer expected, nothing stored")
					}
					return
				}
				if len(ev) != 3 || ev[2].Child != L || ev[2].Op != 's' || ev[2].Tag != up.Tag {
					bad("cache/fill", "cache miss and upstream delivered: exactly that chunk must be stored into the cache")
					return
				}
				if a.Tag != up.Tag || a.E != c11WrapClass(ev[2].Ans.E) {
					bad("cache/get", "the upstream chunk expected, with an error exactly when storing into the cache failed")
					return
				}
				if ev[2].Ans.E == "n" {
					f.inst.cached[f.id] = up.Tag
				}
			default:
				if len(ev) != 1 || a != first {
					bad("cache/get", "the cache store failed: its answer expected, upstream untouched")
				}
			}
		} else if f.op == 'h' {
			first := ev[0].Ans
			if first.E != "n" || first.B {
				if len(ev) != 1 || a != first {
					bad("cache/has", "the cache answered: its answer expected, upstream untouched")
				}
				return
			}
			if len(ev) != 2 || ev[1].Child != S || ev[1].Op != 'h' || a != ev[1].Ans {
				bad("cache/has", "not in the cache: upstream's answer expected")
			}
		}
	case 'P', 'D', 'Q':
		if len(ev) != 1 || ev[0].Child != 0 || ev[0].Op != f.op || (f.op == 's' && ev[0].Tag != f.tag) {
			bad("chain/pass-through", "exactly one call of the same kind expected below")
			return
		}
		want := ev[0].Ans
		if n.Kind == 'P' && f.op == 'g' && (want.E == "i" || want.E == "I") {
			want.E = "m"
		}
		if a != want {
			if n.Kind == 'P' {
				bad("repair/get", "answer of the wrapped store expected, ChunkInvalid turned into ChunkMissing")
			} else {
				bad("dedup/sequential", "answer of the wrapped store expected")
			}
		}
	case 'F':
		if nk == 0 {
			return
		}
		if len(ev) == 0 || len(ev) > nk {
			bad("failover/attempts", "between 1 and %d member calls expected", nk)
			return
		}
		if ev[0].Child != f.inst.expActive {
			bad("failover/active", "the request must start with the active member %d", f.inst.expActive)
		}
		for j, e := range ev {
			if e.Op != f.op {
				bad("failover/order", "wrong kind of member call")
				return
			}
			if j+1 < len(ev) {
				if ev[j+1].Child != (e.Child+1)%nk {
					bad("failover/order", "after a failure the next member must be tried")
				}
				if e.Ans.E == "n" || (f.op == 'g' && e.Ans.E == "m") {
					bad("failover/order", "went on after a member that answered")
					return
				}
			}
		}
		last := ev[len(ev)-1]
		answered := last.Ans.E == "n" || (f.op == 'g' && last.Ans.E == "m")
		if answered {
			f.inst.expActive = last.Child
			if a != last.Ans {
				if last.Ans.E == "m" {
					bad("failover/masks-missing", "the consulted member lacks the chunk: ChunkMissing expected")
				} else {
					bad("failover/result", "answer of the member that answered expected")
				}
			}
		} else {
			f.inst.expActive = (last.Child + 1) % nk
			if len(ev) != nk {
				bad("failover/gives-up-early", "a member failed and %d of %d members were tried", len(ev), nk)
			} else if a.E != last.Ans.E || a.Tag != -1 || a.B {
				bad("failover/result", "all members failed: the last error expected")
			}
		}
		// the property as stated: with one member that never fails the group keeps succeeding
		for _, k := range n.Kids {
			if m, ok := c11ReliableLeaf(r, k); ok && k.Kind != 'P' {
				o, has := m.content[f.id]
				if f.op == 'g' && has && !o.Valid {
					continue // that member answers ChunkInvalid for this id, which the group treats as a failure
				}
				if !(a.E == "n" || (f.op == 'g' && a.E == "m")) {
					bad("failover/fails-with-healthy-member", "member %d never fails, yet the group failed", m.idx)
				}
				break
			}
		}
	}
}
