package main

// C16: Verify with many workers over a store with thousands of chunks, a known subset damaged, repeated
// passes; the messages must name exactly the damaged chunks, each once, and with repair exactly those
// files disappear.  Runs in a child process (VH_C16_CHILD=verifystress): a worker goroutine that panics
// would otherwise take the harness down.

import (
	"bytes"
	"context"
	"encoding/json"
	"fmt"
	"os"
	"os/exec"
	"path/filepath"
	"sort"
	"strings"
	"time"

	"github.com/folbricht/desync"

	"vh/internal/vh"
)

type stressJob struct {
	Dir      string `json:"dir"`
	Unc      bool   `json:"unc"`
	N        int    `json:"n"`
	Chunks   int    `json:"chunks"` // this many valid and this many damaged ones
	BudgetMs int    `json:"budget_ms"`
	Seed     uint64 `json:"seed"`
}

type stressOut struct {
	Passes  int    `json:"passes"`
	Problem string `json:"problem"`
}

func init() {
	if os.Getenv("VH_C16_CHILD") == "verifystress" {
		c16StressChild()
	}
}

func c16StressChild() {
	var job stressJob
	b, _ := os.ReadFile(os.Getenv("VH_C16_JOB"))
	if json.Unmarshal(b, &job) != nil {
		os.Exit(4)
	}
	desync.Digest = desync.SHA256{}
	s, err := desync.NewLocalStore(job.Dir, desync.StoreOptions{Uncompressed: job.Unc})
	if err != nil {
		os.Exit(4)
	}
	ext := ".cacnk"
	if job.Unc {
		ext = ""
	}
	valid := map[string]bool{}
	invalid := map[string]bool{}
	put := func(idh string, data []byte) {
		obj := data
		if !job.Unc {
			obj, _ = desync.Compress(data)
		}
		p := filepath.Join(job.Dir, idh[:4], idh+ext)
		os.MkdirAll(filepath.Dir(p), 0755)
		os.WriteFile(p, obj, 0644)
	}
	for i := 0; i < job.Chunks; i++ {
		d := []byte(fmt.Sprintf("valid chunk %d of run %d", i, job.Seed))
		idh := lsSha256Hex(d)
		put(idh, d)
		valid[idh] = true
		d2 := []byte(fmt.Sprintf("damaged chunk %d of run %d", i, job.Seed))
		bad := []byte(lsSha256Hex(d2))
		bad[63] = "0123456789abcdef"[(strings.IndexByte("0123456789abcdef", bad[63])+1)%16]
		put(string(bad), d2)
		invalid[string(bad)] = true
	}
	out := stressOut{}
	finish := func() {
		b, _ := json.Marshal(out)
		fmt.Println("STRESS " + string(b))
		os.Exit(0)
	}
	pass := func(repair bool) {
		var w lsLockedBuf
		if err := s.Verify(context.Background(), job.N, repair, &w); err != nil {
			out.Problem = fmt.Sprintf("pass %d: Verify returned %v", out.Passes, err)
			finish()
		}
		reported := map[string]int{}
		var problems []string
		for _, line := range strings.Split(strings.TrimSpace(w.b.String()), "\n") {
			m := reInvalid.FindStringSubmatch(line)
			if m == nil {
				problems = append(problems, fmt.Sprintf("unexpected message %q", line))
				continue
			}
			reported[m[1]]++
			if (m[3] == ": removed") != repair {
				problems = append(problems, fmt.Sprintf("wrong removal note in %q", line))
			}
		}
		for id, k := range reported {
			if !invalid[id] {
				problems = append(problems, "valid or unknown chunk "+id+" reported as invalid")
			} else if k != 1 {
				problems = append(problems, fmt.Sprintf("chunk %s reported %d times", id, k))
			}
		}
		for id := range invalid {
			if reported[id] == 0 {
				problems = append(problems, "damaged chunk "+id+" was not reported")
			}
		}
		if repair || len(problems) > 0 {
			for id := range valid {
				if _, err := os.Stat(filepath.Join(job.Dir, id[:4], id+ext)); err != nil {
					problems = append(problems, "valid chunk "+id+" was removed")
				}
			}
			for id := range invalid {
				_, err := os.Stat(filepath.Join(job.Dir, id[:4], id+ext))
				if (err == nil) == repair {
					problems = append(problems, fmt.Sprintf("damaged chunk %s present after the pass: %v", id, err == nil))
				}
			}
		}
		out.Passes++
		if len(problems) > 0 {
			sort.Strings(problems)
			n := len(problems)
			if n > 4 {
				problems = append(problems[:4], fmt.Sprintf("... and %d more", n-4))
			}
			out.Problem = fmt.Sprintf("pass %d (repair=%v, %d workers, %d valid + %d damaged chunks): %s", out.Passes, repair, job.N, len(valid), len(invalid), strings.Join(problems, "; "))
			finish()
		}
	}
	deadline := time.Now().Add(time.Duration(job.BudgetMs) * time.Millisecond)
	for time.Now().Before(deadline) {
		pass(false)
	}
	pass(true)
	finish()
}

func c16Stress(a vh.Args, r *vh.Result, c *c16Case) error {
	dir, err := lsFreshDir(a.Work, "stress")
	if err != nil {
		return err
	}
	job := stressJob{Dir: dir, Unc: c.Unc, N: c.N, Chunks: len(c.Keys), BudgetMs: 1000, Seed: 1}
	fmt.Sscan(c.Prefix, &job.BudgetMs) // Prefix carries the time budget, Keys' length the chunk count (replayable)
	fmt.Sscan(c.KeepTag, &job.Seed)
	jf := filepath.Join(a.Work, "stress-job.json")
	b, _ := json.Marshal(job)
	os.WriteFile(jf, b, 0644)
	self, _ := os.Executable()
	cmd := exec.Command(self)
	cmd.Env = append(os.Environ(), "VH_C16_CHILD=verifystress", "VH_C16_JOB="+jf, "GOMAXPROCS=8")
	var stdout, stderr bytes.Buffer
	cmd.Stdout, cmd.Stderr = &stdout, &stderr
	done := make(chan error, 1)
	if err := cmd.Start(); err != nil {
		return err
	}
	go func() { done <- cmd.Wait() }()
	var werr error
	select {
	case werr = <-done:
	case <-time.After(time.Duration(job.BudgetMs)*time.Millisecond + 120*time.Second):
		cmd.Process.Kill()
		<-done
		c.What = "Verify stress child did not finish"
		r.Fail("predicate", "verify/hangs", c.What, c)
		return nil
	}
	var out stressOut
	found := false
	for _, l := range strings.Split(stdout.String(), "\n") {
		if strings.HasPrefix(l, "STRESS ") && json.Unmarshal([]byte(l[7:]), &out) == nil {
			found = true
		}
	}
	r.Count(fmt.Sprintf("verify-stress|%v|%d|%d|%d", c.Unc, c.N, job.Chunks, job.Seed), true)
	r.Dist(fmt.Sprintf("verify-stress-passes:%s", bucket(out.Passes)))
	switch {
	case !found && strings.Contains(stderr.String(), "panic"):
		lines := strings.Split(stderr.String(), "\n")
		c.What = fmt.Sprintf("Verify with %d workers panicked: %s", c.N, strings.Join(lines[:min(3, len(lines))], " | "))
		r.Fail("predicate", "verify/concurrent-workers-panic", c.What, c)
	case !found:
		return fmt.Errorf("verify stress child failed: %v %s", werr, stderr.String())
	case out.Problem != "":
		c.What = "Verify with concurrent workers: " + out.Problem
		r.Fail("predicate", "verify/concurrent-workers-misreport", c.What, c)
	}
	return nil
}

func c16StressAll(a vh.Args, r *vh.Result, rng *vh.Rand) error {
	type cfg struct {
		unc            bool
		n, chunks, ms int
	}
	cfgs := []cfg{{false, 16, 1500, 9000}, {true, 8, 600, 2500}}
	if a.Tier == "thorough" {
		cfgs = []cfg{{false, 16, 3000, 40000}, {true, 16, 3000, 30000}, {false, 2, 1500, 20000}, {true, 4, 1000, 15000}, {false, 8, 500, 15000}}
	}
	for _, g := range cfgs {
		c := &c16Case{Kind: "verify-stress", Unc: g.unc, N: g.n, Keys: make([]string, g.chunks), Prefix: fmt.Sprint(g.ms), KeepTag: fmt.Sprint(rng.U64() % 100000)}
		if err := c16Stress(a, r, c); err != nil {
			return err
		}
	}
	return nil
}
