package main

// C03 case generators: damage kinds, systematic sweeps over backends and wrappers, random nestings.

import (
	"encoding/hex"
	"fmt"
	"strings"
	"time"

	"github.com/folbricht/desync"

	"vh/internal/vh"
)

var c03Plants = []string{
	"good", "missing", "empty",
	"flip-first", "flip-last", "flip-mid", "flip-rand",
	"trunc-1", "trunc-len-1", "trunc-half", "trunc-rand",
	"other-chunk", "other-same-size", "other-zstd", "format-swap", "double-comp",
	"garbage", "append-byte", "append-frame", "dir",
}

func c03Enc(d []byte, unc bool) []byte {
	if unc {
		return append([]byte{}, d...)
	}
	c, _ := desync.Compress(d)
	return c
}

// c03Plant returns the object to store for chunk d under damage kind k (ok=false: nothing to store).
func c03Plant(rnd *vh.Rand, k string, d, d2 []byte, unc bool) ([]byte, bool) {
	good := c03Enc(d, unc)
	flip := func(pos int) []byte {
		o := append([]byte{}, good...)
		o[pos] ^= 1 << uint(rnd.Intn(8))
		return o
	}
	switch k {
	case "good":
		return good, true
	case "missing", "dir":
		return nil, false
	case "empty":
		return []byte{}, true
	case "flip-first":
		return flip(0), true
	case "flip-last":
		return flip(len(good) - 1), true
	case "flip-mid":
		return flip(len(good) / 2), true
	case "flip-rand":
		return flip(rnd.Intn(len(good))), true
	case "trunc-1":
		return good[:1], true
	case "trunc-len-1":
		return good[:len(good)-1], true
	case "trunc-half":
		return good[:len(good)/2], true
	case "trunc-rand":
		return good[:rnd.Intn(len(good))], true
	case "other-chunk":
		return c03Enc(d2, unc), true
	case "other-same-size":
		o := append([]byte{}, d...)
		o[rnd.Intn(len(o))] ^= 0x40
		return c03Enc(o, unc), true
	case "other-zstd": // a valid zstd frame of other data, whatever the slot's format
		return c03Enc(d2, false), true
	case "format-swap": // raw data in a compressed slot / compressed data in a raw slot
		return c03Enc(d, !unc), true
	case "double-comp":
		return c03Enc(c03Enc(d, false), unc), true
	case "garbage":
		return rnd.Bytes(1 + rnd.Intn(2*len(good)+8)), true
	case "append-byte":
		return append(good, byte(rnd.Intn(256))), true
	case "append-frame":
		return append(good, c03Enc(d2, unc)...), true
	}
	panic("plant kind " + k)
}

type c03Gen struct {
	e    *c03Env
	rnd  *vh.Rand
	n    int
	nk   int // next backend number
	nf   int // next failover group
	nh   int // next hop
	corr int // run the model on one case in `corr`
}

func (g *c03Gen) leaf(kind string, unc, skip bool) *c03Node {
	g.nk++
	return &c03Node{T: "leaf", K: g.nk - 1, Kind: kind, Unc: unc, Skip: skip, Retry: 1}
}
func (g *c03Gen) wrap(t string, kids ...*c03Node) *c03Node {
	n := &c03Node{T: t, Kids: kids}
	switch t {
	case "failover":
		n.F = g.nf
		g.nf++
	case "http", "proto":
		n.Hop = g.nh
		g.nh++
		n.Retry = 1
	}
	return n
}
func (g *c03Gen) reset() { g.nk, g.nf, g.nh = 0, 0, 0 }

func c03ID(d []byte) string {
	id := desync.Digest.Sum(d)
	return hex.EncodeToString(id[:])
}

func (g *c03Gen) setDigest() string {
	if g.rnd.Chance(1, 2) {
		desync.Digest = desync.SHA256{}
		return "sha256"
	}
	desync.Digest = desync.SHA512256{}
	return "sha512-256"
}

var c03Sizes = []int{1, 2, 3, 16, 100, 1000, 4096, 20000}

func (g *c03Gen) chunkPair() ([]byte, []byte) {
	n := c03Sizes[g.rnd.Intn(len(c03Sizes))]
	if g.rnd.Chance(1, 40) {
		n = 65536
	}
	if g.e.a.Tier == "thorough" && g.rnd.Chance(1, 60) {
		n = 262144
	}
	return g.chunkPairN(n)
}

func (g *c03Gen) chunkPairN(n int) ([]byte, []byte) {
	d, _ := vh.Blob(g.rnd, n)
	m := c03Sizes[g.rnd.Intn(5)]
	d2, _ := vh.Blob(g.rnd, m)
	if string(d2) == string(d) {
		d2 = append([]byte{}, d2...)
		d2[0] ^= 1
	}
	return d, d2
}

// mk builds a case: chunk d requested through stack; assign gives the damage kind per backend.
func (g *c03Gen) mk(name, digest string, stack *c03Node, d, d2 []byte, assign func(l c03Leaf) string, ops []string) *c03Case {
	c := &c03Case{Name: name, Digest: digest, Stack: stack}
	id := c03ID(d)
	id2 := c03ID(d2)
	for _, l := range c03Leaves(stack) {
		k := assign(l)
		if k == "dir" {
			if l.kind == "local" {
				c.Dirs = append(c.Dirs, c03Slot{K: l.k, ID: id})
				continue
			}
			k = "missing"
		}
		if obj, ok := c03Plant(g.rnd, k, d, d2, l.unc); ok {
			c.Slots = append(c.Slots, c03Slot{K: l.k, ID: id, Obj: vh.Hex(obj), Kind: k})
		}
		// the second chunk is stored intact wherever the first one is present
		if k != "missing" && g.rnd.Chance(1, 2) {
			c.Slots = append(c.Slots, c03Slot{K: l.k, ID: id2, Obj: vh.Hex(c03Enc(d2, l.unc)), Kind: "good"})
		}
	}
	if ops == nil {
		ops = []string{"g:" + id, "g:" + id}
		if g.rnd.Chance(1, 3) {
			ops = append(ops, "g:"+id2, "g:"+id)
		}
	}
	c.Ops = ops
	// consumers on top of the same stack
	if g.rnd.Chance(1, 3) {
		c.Ops = append(c.Ops, fmt.Sprintf("x:%s:%d", id, len(d)))
		if g.rnd.Chance(1, 3) {
			c.Ops = append(c.Ops, fmt.Sprintf("x:%s:%d", id, len(d)+1-2*g.rnd.Intn(2)))
		}
	}
	if g.rnd.Chance(1, 3) && c03Verifying(stack) {
		null := make([]byte, []int{1, len(d), 64}[g.rnd.Intn(3)])
		c.Ops = append(c.Ops, fmt.Sprintf("r:%s:%s:%s:%d", id, c03ID(null), vh.Hex(null), len(d)))
		if g.rnd.Chance(1, 4) { // the null chunk itself: served from memory whatever the store holds
			c.Ops = append(c.Ops, fmt.Sprintf("r:%s:%s:%s:%d", c03ID(null), c03ID(null), vh.Hex(null), len(null)))
		}
	}
	return c
}

func (g *c03Gen) run(c *c03Case) error {
	g.n++
	corr := g.corr <= 1 || g.n%g.corr == 0
	return g.e.runCase(c, corr)
}

func c03Generate(e *c03Env, rnd *vh.Rand) error {
	g := &c03Gen{e: e, rnd: rnd, corr: 1}
	thorough := e.a.Tier == "thorough"
	leafKinds := []string{"local", "http"}
	if e.s3Available() {
		leafKinds = append(leafKinds, "s3")
	}
	if e.sftpAvailable() {
		leafKinds = append(leafKinds, "sftp")
	}

	t0 := time.Now()
	lap := func(what string) {
		e.r.Note("section %s: %d cases so far, %.1fs", what, g.n, time.Since(t0).Seconds())
	}
	// A. every backend x format x damage kind x size class, bare
	for _, kind := range leafKinds {
		for _, unc := range []bool{false, true} {
			for _, plant := range c03Plants {
				sizes := []int{1, 100, 4096}
				if thorough {
					sizes = c03Sizes
				}
				for _, n := range sizes {
					g.reset()
					digest := g.setDigest()
					d, d2 := g.chunkPairN(n)
					st := g.leaf(kind, unc, false)
					c := g.mk("bare/"+kind+"/"+plant, digest, st, d, d2, func(c03Leaf) string { return plant }, nil)
					if err := g.run(c); err != nil {
						return err
					}
				}
			}
		}
	}
	lap("A bare backends")
	// A'. the network front ends over a damaged local store: desync's HTTP handler (server
	// side verifying or not, matching or different converters), the casync protocol in-process,
	// RemoteSSH + `desync pull`
	for _, plant := range c03Plants {
		for v := 0; v < 7; v++ {
			g.reset()
			digest := g.setDigest()
			d, d2 := g.chunkPair()
			var st *c03Node
			switch v {
			case 0: // chunk-server default: skip-verify on the served store, compressed both sides
				st = g.wrap("http", g.leaf("local", false, true))
				st.SComp = true
			case 1: // verifying server store
				st = g.wrap("http", g.leaf("local", false, false))
				st.SComp = true
			case 2: // uncompressed store served compressed (re-encoding on the server)
				st = g.wrap("http", g.leaf("local", true, true))
				st.SComp = true
			case 3: // compressed store served uncompressed
				st = g.wrap("http", g.leaf("local", false, true))
				st.Unc = true
			case 4: // client and server disagree about the format
				st = g.wrap("http", g.leaf("local", false, true))
				st.SComp = true
				st.Unc = true
			case 5:
				st = g.wrap("proto", g.leaf("local", g.rnd.Bool(), g.rnd.Bool()))
			case 6:
				if !e.sshOK || (!thorough && g.rnd.Chance(1, 2)) {
					continue
				}
				g.nk++
				st = &c03Node{T: "ssh", K: 0, Hop: 0}
			}
			c := g.mk(fmt.Sprintf("front/%d/%s", v, plant), digest, st, d, d2, func(c03Leaf) string { return plant }, nil)
			if err := g.run(c); err != nil {
				return err
			}
		}
	}
	lap("A' front ends")
	// B. wrappers: the damaged object in every position, the other positions good or missing
	type shape struct {
		name  string
		build func() *c03Node
	}
	var weighted []string // SFTP leaves cost a child process each: fewer of them in the mixed sections
	for _, k := range leafKinds {
		w := map[string]int{"local": 3, "http": 3, "s3": 2, "sftp": 1}[k]
		if thorough {
			w = 1
		}
		for i := 0; i < w; i++ {
			weighted = append(weighted, k)
		}
	}
	lk := func() string { return weighted[g.rnd.Intn(len(weighted))] }
	L := func() *c03Node { return g.leaf(lk(), g.rnd.Bool(), false) }
	WL := func() *c03Node { // a writable leaf: mostly a local directory, sometimes S3 or SFTP
		kind := "local"
		if g.rnd.Chance(1, 4) {
			if k := lk(); k != "http" {
				kind = k
			}
		}
		return g.leaf(kind, g.rnd.Bool(), false)
	}
	shapes := []shape{
		{"cache", func() *c03Node { return g.wrap("cache", L(), WL()) }},
		{"cache-repair", func() *c03Node { return g.wrap("cache", L(), g.wrap("repair", WL())) }},
		{"cache-wdedup", func() *c03Node { return g.wrap("cache", L(), g.wrap("wdedup", WL())) }},
		{"cache-wswap", func() *c03Node { return g.wrap("cache", L(), g.wrap("wswap", g.wrap("repair", WL()))) }},
		{"router2", func() *c03Node { return g.wrap("router", L(), L()) }},
		{"router3", func() *c03Node { return g.wrap("router", L(), L(), L()) }},
		{"failover2", func() *c03Node { return g.wrap("failover", L(), L()) }},
		{"failover3", func() *c03Node { return g.wrap("failover", L(), L(), L()) }},
		{"dedup", func() *c03Node { return g.wrap("dedup", L()) }},
		{"swap", func() *c03Node { return g.wrap("swap", L()) }},
		{"wdedup", func() *c03Node { return g.wrap("wdedup", WL()) }},
		{"wswap", func() *c03Node { return g.wrap("wswap", WL()) }},
		{"repair", func() *c03Node { return g.wrap("repair", WL()) }},
		{"cli-shape", func() *c03Node { // MultiStoreWithCache: cache(router(failover(a,b), c), repair(cache))
			return g.wrap("cache", g.wrap("router", g.wrap("failover", L(), L()), L()), g.wrap("repair", WL()))
		}},
	}
	for _, sh := range shapes {
		for _, plant := range c03Plants {
			if plant == "good" || plant == "missing" {
				continue
			}
			g.reset()
			probe := sh.build()
			nl := len(c03Leaves(probe))
			for pos := 0; pos < nl; pos++ {
				for _, others := range []string{"good", "missing"} {
					if nl == 1 && others == "missing" {
						continue
					}
					if !thorough && (nl > 2 && g.rnd.Chance(1, 2) || nl == 2 && g.rnd.Chance(1, 3)) {
						continue
					}
					g.reset()
					digest := g.setDigest()
					st := sh.build()
					d, d2 := g.chunkPair()
					leaves := c03Leaves(st)
					target := leaves[pos].k
					c := g.mk(fmt.Sprintf("wrap/%s/%s@%d/%s", sh.name, plant, pos, others), digest, st, d, d2, func(l c03Leaf) string {
						if l.k == target {
							return plant
						}
						return others
					}, nil)
					if err := g.run(c); err != nil {
						return err
					}
				}
			}
		}
	}
	lap("B wrappers")
	// C. random nestings of depth <= 3 (4 in the thorough tier), random damage everywhere,
	// verification disabled on some leaves
	nrand := 320
	if thorough {
		nrand = 6000
	}
	for i := 0; i < nrand; i++ {
		g.reset()
		digest := g.setDigest()
		depth := 1 + g.rnd.Intn(3)
		if thorough && g.rnd.Chance(1, 5) {
			depth = 4
		}
		st := g.randStack(depth, weighted)
		d, d2 := g.chunkPair()
		c := g.mk("random", digest, st, d, d2, func(l c03Leaf) string {
			switch x := g.rnd.Intn(10); {
			case x < 3:
				return "good"
			case x < 5:
				return "missing"
			}
			return c03Plants[2+g.rnd.Intn(len(c03Plants)-2)]
		}, nil)
		g.addFaults(c)
		if err := g.run(c); err != nil {
			return err
		}
	}
	lap("C random nestings")
	// D. transient and permanent transport faults on the HTTP paths, retries
	nfault := 150
	if thorough {
		nfault = 1500
	}
	for i := 0; i < nfault; i++ {
		g.reset()
		digest := g.setDigest()
		d, d2 := g.chunkPair()
		var st *c03Node
		pick := g.rnd.Intn(5)
		if e.s3Available() && g.rnd.Chance(1, 4) {
			pick = 5
		}
		switch pick {
		case 5: // a writable remote store as cache, failing: RepairableCache must pass the error on
			st = g.wrap("cache", g.leaf("local", g.rnd.Bool(), false), g.wrap("repair", g.leaf("s3", g.rnd.Bool(), false)))
		case 0:
			st = g.leaf("http", g.rnd.Bool(), false)
		case 1:
			st = g.wrap("failover", g.leaf("http", g.rnd.Bool(), false), g.leaf("http", g.rnd.Bool(), false), g.leaf("local", g.rnd.Bool(), false))
		case 2:
			st = g.wrap("http", g.leaf("local", false, g.rnd.Bool()))
			st.SComp = true
		case 3:
			st = g.wrap("cache", g.wrap("failover", g.leaf("http", false, false), g.leaf("http", false, false)), g.wrap("repair", g.leaf("local", g.rnd.Bool(), false)))
		case 4:
			st = g.wrap("proto", g.leaf("local", g.rnd.Bool(), g.rnd.Bool()))
		}
		st.walk(func(n *c03Node) {
			if n.T == "leaf" && (n.Kind == "http" || n.Kind == "s3") || n.T == "http" {
				n.Retry = g.rnd.Intn(4)
			}
		})
		c := g.mk("faults", digest, st, d, d2, func(l c03Leaf) string {
			if g.rnd.Chance(1, 4) {
				return c03Plants[1+g.rnd.Intn(len(c03Plants)-2)]
			}
			return "good"
		}, nil)
		g.addFaults(c)
		if len(c.Faults) == 0 {
			continue
		}
		if err := g.run(c); err != nil {
			return err
		}
	}
	lap("D faults")
	// E. the two ids with a special role in chunk.go: the all-zero id (what Chunk.ID returns
	// when no data can be produced) and the id of the empty byte string
	for _, special := range []string{"zero", "empty-data"} {
		for _, kind := range leafKinds {
			for _, unc := range []bool{false, true} {
				for _, obj := range []string{"-", "00", "28b52ffd", "ff00ff00", "28b52ffd2000010000", "missing"} {
					for v := 0; v < 4; v++ {
						if !thorough && v > 0 && kind != "local" && g.rnd.Chance(2, 3) {
							continue
						}
						g.reset()
						digest := g.setDigest()
						id := hex.EncodeToString(make([]byte, 32))
						if special == "empty-data" {
							id = c03ID(nil)
						}
						var st *c03Node
						switch v {
						case 0:
							st = g.leaf(kind, unc, false)
						case 1:
							st = g.wrap("cache", g.leaf(kind, unc, false), g.leaf("local", false, false))
						case 2:
							st = g.wrap("router", g.leaf(kind, unc, false), g.leaf("local", false, false))
						case 3:
							st = g.wrap("proto", g.leaf(kind, unc, true))
						}
						c := &c03Case{Name: special + "-id/" + obj, Digest: digest, Stack: st, Ops: []string{"g:" + id, "g:" + id}}
						if obj != "missing" {
							c.Slots = []c03Slot{{K: 0, ID: id, Obj: obj, Kind: special + "-id-object"}}
						}
						if err := g.run(c); err != nil {
							return err
						}
					}
				}
			}
		}
	}
	lap("E special ids")
	// F. substitution: the answer to a request is a VALID object of a different chunk.  On the
	// casync protocol the answer carries a chunk id: labelled with its own id / with the requested
	// id / with a third id / all-zero, from (a) the real ProtocolServer (in-process and as a
	// RemoteSSH child) over a store that derives ids from its content, also behind desync's HTTP
	// handler, and (b) a scripted peer; bare and behind cache / dedup / router / failover / swap.
	wraps := []func(n *c03Node) *c03Node{
		func(n *c03Node) *c03Node { return n },
		func(n *c03Node) *c03Node { return g.wrap("cache", n, g.leaf("local", g.rnd.Bool(), false)) },
		func(n *c03Node) *c03Node { return g.wrap("dedup", g.wrap("router", g.wrap("failover", n))) },
		func(n *c03Node) *c03Node {
			return g.wrap("cache", g.wrap("dedup", g.wrap("router", g.wrap("failover", n, g.leaf("local", false, false)))),
				g.wrap("repair", g.leaf("local", g.rnd.Bool(), false)))
		},
		func(n *c03Node) *c03Node { return g.wrap("swap", n) },
	}
	pickWraps := func() []int {
		if thorough {
			return []int{0, 1, 2, 3, 4}
		}
		return []int{0, 1 + g.rnd.Intn(4)}
	}
	foreign := func() *c03Node { g.nk++; return &c03Node{T: "foreign", K: g.nk - 1} }
	for front := 0; front < 4; front++ {
		for _, plant := range []string{"good", "other-chunk", "other-same-size", "other-zstd", "garbage", "empty", "missing"} {
			for _, wi := range pickWraps() {
				g.reset()
				digest := g.setDigest()
				var st *c03Node
				switch front {
				case 0:
					st = g.wrap("proto", foreign())
				case 1:
					if e.fakeSSH == "" || e.self == "" {
						continue
					}
					g.nk++
					st = &c03Node{T: "sshf", K: g.nk - 1, Hop: g.nh}
					g.nh++
				case 2:
					st = g.wrap("http", foreign())
					st.SComp = true
				case 3:
					st = g.wrap("http", foreign())
					st.Unc = true
				}
				target := st.K
				if len(st.Kids) > 0 {
					target = st.Kids[0].K
				}
				st = wraps[wi](st)
				d, d2 := g.chunkPair()
				c := g.mk(fmt.Sprintf("subst/foreign/%d/%s/w%d", front, plant, wi), digest, st, d, d2, func(l c03Leaf) string {
					if l.k == target {
						return plant
					}
					return "missing"
				}, nil)
				if err := g.run(c); err != nil {
					return err
				}
			}
		}
	}
	// the casync-protocol client as a leaf in front of a scripted peer: every body form (zstd frame
	// or plain bytes; of the requested chunk intact, of it damaged, of another chunk, same-size
	// other chunk, garbage) x "compressed" flag set / unset x label (own id / requested / third /
	// zero); the peer is reached through the in-process Protocol client or through the real
	// RemoteSSH store talking to a child process; the leaf behind it holds the chunk or not
	zeroID := hex.EncodeToString(make([]byte, 32))
	for _, payload := range []string{"zstd-requested", "zstd-damaged", "zstd-other", "zstd-other-same-size",
		"plain-requested", "plain-damaged", "plain-other", "plain-other-same-size", "garbage"} {
		for _, flagUnset := range []bool{false, true} {
			for _, peer := range []string{"proto", "sshp"} {
				if peer == "sshp" && (e.fakeSSH == "" || e.self == "") {
					continue
				}
				labels := []string{"own", "requested", "third", "zero"}
				if !thorough {
					labels = []string{labels[g.rnd.Intn(4)], labels[g.rnd.Intn(2)]}
				}
				for _, label := range labels {
					for _, wi := range pickWraps() {
						g.reset()
						digest := g.setDigest()
						d, d2 := g.chunkPair()
						d3 := append([]byte{0x33}, d2...)
						have := []string{"good", "missing"}[g.rnd.Intn(2)]
						var pr, inner *c03Node
						if peer == "proto" {
							inner = g.leaf("local", g.rnd.Bool(), g.rnd.Bool())
							pr = g.wrap("proto", inner)
							pr.Keep = g.rnd.Bool()
						} else {
							g.nk++
							pr = &c03Node{T: "sshp", K: g.nk - 1, Hop: g.nh, Keep: g.rnd.Bool()}
							g.nh++
						}
						st := wraps[wi](pr)
						same := append([]byte{}, d...)
						same[g.rnd.Intn(len(same))] ^= 0x10
						var data []byte
						switch payload[strings.Index(payload, "-")+1:] {
						case "requested":
							data = d
						case "damaged", "other-same-size":
							data = same
						case "other":
							data = d2
						default:
							data = g.rnd.Bytes(1 + g.rnd.Intn(40))
						}
						body := data
						if strings.HasPrefix(payload, "zstd-") {
							body = c03Enc(data, false)
							if payload == "zstd-damaged" { // the requested chunk's frame, damaged in transit
								body = c03Enc(d, false)
								body[g.rnd.Intn(len(body))] ^= 1 << uint(g.rnd.Intn(8))
							}
						}
						lbl := map[string]string{"own": c03ID(data), "requested": c03ID(d), "third": c03ID(d3), "zero": zeroID}[label]
						c := g.mk(fmt.Sprintf("peer/%s/%s/flag-unset=%v/label-%s/%s/w%d", peer, payload, flagUnset, label, have, wi), digest, st, d, d2, func(l c03Leaf) string {
							if inner != nil && l.k == inner.K {
								return have
							}
							return "missing"
						}, nil)
						to := c03Inf
						if peer == "proto" && g.rnd.Bool() {
							to = 1 + g.rnd.Intn(3)
						}
						c.Faults = append(c.Faults, c03Fault{T: "N", K: pr.Hop, ID: c03ID(d), From: 0, To: to, F: "rs", Arg: vh.Hex(body), Lbl: lbl, FlagUnset: flagUnset})
						if err := g.run(c); err != nil {
							return err
						}
					}
				}
			}
		}
	}
	lap("F substitution")
	// G. chunks are values: k chunks (2..6) are fetched from the same store / connection pool
	// (size 1 and 3) and ALL kept; every one of them must still yield the bytes it was returned
	// with after the later requests, after HasChunk / StoreChunk / another round of requests,
	// and consumers that hold several chunks at once (AssembleFile with N >= 2 behind a gate,
	// two index readers used alternately) must produce the blob.  Every backend, both formats,
	// the wrappers on top.
	type cfg struct {
		name  string
		build func() *c03Node
	}
	var cfgs []cfg
	for _, kind := range leafKinds {
		for _, unc := range []bool{false, true} {
			for _, np := range []int{1, 3} {
				kind, unc, np := kind, unc, np
				cfgs = append(cfgs, cfg{fmt.Sprintf("%s/unc=%v/pool=%d", kind, unc, np), func() *c03Node {
					n := g.leaf(kind, unc, false)
					n.N = np
					return n
				}})
			}
		}
	}
	anyLeaf := func() *c03Node {
		n := g.leaf(lk(), g.rnd.Bool(), false)
		n.N = 1 + 2*g.rnd.Intn(2)
		return n
	}
	uncLeaf := func() *c03Node { // the configuration in which a store's bytes reach the caller unconverted
		n := g.leaf(lk(), true, false)
		n.N = 1
		return n
	}
	cfgs = append(cfgs,
		cfg{"proto-session", func() *c03Node { n := g.wrap("proto", uncLeaf()); n.Keep = true; return n }},
		cfg{"proto-session-skipleaf", func() *c03Node {
			n := g.wrap("proto", g.leaf("local", g.rnd.Bool(), true))
			n.Keep = true
			return n
		}},
		cfg{"http-handler", func() *c03Node { n := g.wrap("http", g.leaf("local", false, true)); n.SComp = true; return n }},
		cfg{"http-handler-unc", func() *c03Node { n := g.wrap("http", g.leaf("local", true, true)); n.Unc = true; return n }},
		cfg{"http-handler-over-unc-remote", func() *c03Node { n := g.wrap("http", uncLeaf()); n.Unc = true; return n }},
		cfg{"cache", func() *c03Node { return g.wrap("cache", uncLeaf(), g.leaf("local", g.rnd.Bool(), false)) }},
		cfg{"cache-remote-cache", func() *c03Node { // the cache itself on a writable remote backend
			k := "local"
			for _, x := range leafKinds {
				if x == "sftp" || x == "s3" {
					if k == "local" || g.rnd.Bool() {
						k = x
					}
				}
			}
			return g.wrap("cache", anyLeaf(), g.wrap("repair", g.leaf(k, true, false)))
		}},
		cfg{"router", func() *c03Node { return g.wrap("router", uncLeaf(), anyLeaf()) }},
		cfg{"failover", func() *c03Node { return g.wrap("failover", uncLeaf(), anyLeaf()) }},
		cfg{"dedup", func() *c03Node { return g.wrap("dedup", uncLeaf()) }},
		cfg{"swap", func() *c03Node { return g.wrap("swap", uncLeaf()) }},
		cfg{"wdedup", func() *c03Node { return g.wrap("wdedup", g.leaf("local", true, false)) }},
		cfg{"cli-shape", func() *c03Node {
			return g.wrap("cache", g.wrap("router", g.wrap("failover", uncLeaf(), uncLeaf()), anyLeaf()), g.wrap("repair", g.leaf("local", g.rnd.Bool(), false)))
		}},
	)
	if e.sshOK {
		for _, np := range []int{1, 2} {
			np := np
			cfgs = append(cfgs, cfg{fmt.Sprintf("ssh/pool=%d", np), func() *c03Node {
				g.nk++
				n := &c03Node{T: "ssh", K: g.nk - 1, Hop: g.nh, Keep: true, N: np}
				g.nh++
				return n
			}})
		}
	}
	if e.fakeSSH != "" && e.self != "" {
		cfgs = append(cfgs, cfg{"ssh(foreign)", func() *c03Node {
			g.nk++
			n := &c03Node{T: "sshf", K: g.nk - 1, Hop: g.nh, Keep: true, N: 1}
			g.nh++
			return n
		}})
	}
	reps := 1
	if thorough {
		reps = 5
	}
	for rep := 0; rep < reps; rep++ {
		for _, cf := range cfgs {
			g.reset()
			digest := g.setDigest()
			st := cf.build()
			k := 2 + g.rnd.Intn(5)
			same := g.rnd.Bool() // all chunks of one length, or of different lengths
			base := []int{1, 7, 100, 700, 1500}[g.rnd.Intn(5)]
			var datas [][]byte
			seen := map[string]bool{}
			for len(datas) < k {
				n := base
				if !same {
					n = 1 + g.rnd.Intn(2*base+3)
				}
				d, _ := vh.Blob(g.rnd, n)
				if d[0] == 0 { // keep clear of all-zero chunks
					d[0] = byte(1 + len(datas))
				}
				if seen[string(d)] {
					continue
				}
				seen[string(d)] = true
				datas = append(datas, d)
			}
			c := &c03Case{Name: "held/" + cf.name, Digest: digest, Stack: st}
			bad := -1
			if g.rnd.Chance(1, 4) {
				bad = g.rnd.Intn(k)
			}
			m := c03Multi{N: 2 + g.rnd.Intn(2)}
			var blob []byte
			for i, d := range datas {
				id := c03ID(d)
				for _, l := range c03Leaves(st) {
					plant := "good"
					if i == bad {
						plant = []string{"flip-mid", "other-chunk", "missing", "empty"}[g.rnd.Intn(4)]
					}
					if obj, ok := c03Plant(g.rnd, plant, d, datas[(i+1)%k], l.unc); ok {
						c.Slots = append(c.Slots, c03Slot{K: l.k, ID: id, Obj: vh.Hex(obj), Kind: plant})
					}
				}
				c.Ops = append(c.Ops, "g:"+id)
				m.IDs = append(m.IDs, id)
				m.Sizes = append(m.Sizes, len(d))
				blob = append(blob, d...)
			}
			if g.rnd.Bool() { // a second pass in another order
				for _, i := range []int{k - 1, 0, k / 2} {
					c.Ops = append(c.Ops, "g:"+c03ID(datas[i]))
				}
			}
			m.Blob = vh.Hex(blob)
			m.Kind = "assemble"
			c.Multi = append(c.Multi, m)
			m.Kind = "readers"
			c.Multi = append(c.Multi, m)
			m.Kind = "handle"
			c.Multi = append(c.Multi, m)
			if err := g.run(c); err != nil {
				return err
			}
		}
	}
	lap("G held chunks")
	// H. a reader that is used again after a failed request (the handle of a mounted index):
	// 3..7 chunks, one or two of them damaged in every way, every backend kind on top
	for _, plant := range c03Plants {
		if plant == "good" {
			continue
		}
		nrep := 1
		if thorough {
			nrep = 4
		}
		for rep := 0; rep < nrep; rep++ {
			g.reset()
			digest := g.setDigest()
			var st *c03Node
			switch g.rnd.Intn(6) {
			case 0:
				st = g.wrap("cache", anyLeaf(), g.wrap("repair", g.leaf("local", g.rnd.Bool(), false)))
			case 1:
				st = g.wrap("router", anyLeaf(), anyLeaf())
			case 2:
				st = g.wrap("dedup", anyLeaf())
			default:
				st = anyLeaf()
			}
			k := 3 + g.rnd.Intn(5)
			var datas [][]byte
			for i := 0; i < k; i++ {
				d, _ := vh.Blob(g.rnd, 1+g.rnd.Intn(600))
				d[0] = byte(1 + i)
				datas = append(datas, d)
			}
			bad := map[int]bool{g.rnd.Intn(k): true}
			if g.rnd.Bool() {
				bad[g.rnd.Intn(k)] = true
			}
			c := &c03Case{Name: "reused-reader/" + plant, Digest: digest, Stack: st}
			m := c03Multi{Kind: "handle", N: 1 + g.rnd.Intn(1000)}
			var blob []byte
			for i, d := range datas {
				id := c03ID(d)
				for _, l := range c03Leaves(st) {
					p := "good"
					if bad[i] {
						p = plant
					}
					if p == "dir" {
						if l.kind == "local" {
							c.Dirs = append(c.Dirs, c03Slot{K: l.k, ID: id})
							continue
						}
						p = "missing"
					}
					if obj, ok := c03Plant(g.rnd, p, d, datas[(i+1)%k], l.unc); ok {
						c.Slots = append(c.Slots, c03Slot{K: l.k, ID: id, Obj: vh.Hex(obj), Kind: p})
					}
				}
				m.IDs = append(m.IDs, id)
				m.Sizes = append(m.Sizes, len(d))
				blob = append(blob, d...)
			}
			c.Ops = []string{"g:" + m.IDs[0]}
			m.Blob = vh.Hex(blob)
			c.Multi = append(c.Multi, m)
			if err := g.run(c); err != nil {
				return err
			}
		}
	}
	lap("H reused reader")
	// I. an object of the OTHER format under the same id: <id> next to a store configured
	// compressed, <id>.cacnk next to one configured uncompressed, while the own-format object is
	// absent (or, as a control, intact).  Wrong-hash raw bytes, another chunk's valid object, the
	// right bytes, garbage.  Every leaf backend, both configurations, bare and behind the wrappers.
	for _, kind := range leafKinds {
		for _, unc := range []bool{false, true} {
			for _, content := range []string{"wrong-raw", "other-valid", "right-bytes", "garbage", "other-zstd"} {
				for _, own := range []string{"missing", "good"} {
					if own == "good" && !thorough && g.rnd.Chance(2, 3) {
						continue
					}
					for _, wi := range pickWraps() {
						g.reset()
						digest := g.setDigest()
						lf := g.leaf(kind, unc, false)
						st := wraps[wi](lf)
						d, d2 := g.chunkPair()
						var obj []byte
						switch content {
						case "wrong-raw":
							obj = d2
						case "other-valid": // a valid object of another chunk in the OTHER format
							obj = c03Enc(d2, !unc)
						case "right-bytes": // this chunk, validly stored in the other format
							obj = c03Enc(d, !unc)
						case "garbage":
							obj = g.rnd.Bytes(1 + g.rnd.Intn(60))
						case "other-zstd":
							obj = c03Enc(d2, false)
						}
						c := g.mk(fmt.Sprintf("other-format/%s/unc=%v/%s/own-%s/w%d", kind, unc, content, own, wi), digest, st, d, d2, func(l c03Leaf) string {
							if l.k == lf.K {
								return own
							}
							return "missing"
						}, nil)
						c.Others = append(c.Others, c03Slot{K: lf.K, ID: c03ID(d), Obj: vh.Hex(obj), Kind: content})
						if err := g.run(c); err != nil {
							return err
						}
					}
				}
			}
		}
	}
	lap("I other-format objects")
	// J. histories on ONE store object: the chunk is read successfully, then its object on disk is
	// damaged -- keeping size and modification time (another chunk's valid object of the same
	// size, so that it still decodes), or changing one of them -- and read again through the same
	// store; later it is restored and read once more.  Every leaf that keeps objects on disk:
	// local compressed / uncompressed, bare, as cache under Cache (with and without repair), in a
	// router / failover / dedup, behind the network front ends; consumers after the damage.
	hist := []struct {
		name  string
		build func() (*c03Node, *c03Node) // stack, the disk leaf that gets damaged
	}{
		{"bare", func() (*c03Node, *c03Node) { l := g.leaf("local", g.rnd.Bool(), false); return l, l }},
		{"bare-unc", func() (*c03Node, *c03Node) { l := g.leaf("local", true, false); return l, l }},
		{"bare-comp", func() (*c03Node, *c03Node) { l := g.leaf("local", false, false); return l, l }},
		{"cache", func() (*c03Node, *c03Node) {
			l := g.leaf("local", g.rnd.Bool(), false)
			return g.wrap("cache", g.leaf(lk(), g.rnd.Bool(), false), l), l
		}},
		{"cache-repair", func() (*c03Node, *c03Node) {
			l := g.leaf("local", g.rnd.Bool(), false)
			return g.wrap("cache", g.leaf("local", g.rnd.Bool(), false), g.wrap("repair", l)), l
		}},
		{"cache-upstream", func() (*c03Node, *c03Node) { // the upstream store is the one that changes
			l := g.leaf("local", g.rnd.Bool(), false)
			return g.wrap("cache", l, g.leaf("local", g.rnd.Bool(), false)), l
		}},
		{"router", func() (*c03Node, *c03Node) {
			l := g.leaf("local", g.rnd.Bool(), false)
			return g.wrap("router", l, g.leaf(lk(), g.rnd.Bool(), false)), l
		}},
		{"cli-shape", func() (*c03Node, *c03Node) {
			l := g.leaf("local", g.rnd.Bool(), false)
			return g.wrap("cache", g.wrap("router", g.wrap("failover", g.leaf("local", g.rnd.Bool(), false), g.leaf("local", false, false))), g.wrap("repair", l)), l
		}},
		{"dedup-swap", func() (*c03Node, *c03Node) {
			l := g.leaf("local", g.rnd.Bool(), false)
			return g.wrap("dedup", g.wrap("swap", l)), l
		}},
		{"http-handler", func() (*c03Node, *c03Node) {
			l := g.leaf("local", false, false)
			n := g.wrap("http", l)
			n.SComp = true
			return n, l
		}},
		{"proto", func() (*c03Node, *c03Node) {
			l := g.leaf("local", g.rnd.Bool(), false)
			n := g.wrap("proto", l)
			n.Keep = true
			return n, l
		}},
	}
	for _, h := range hist {
		for _, dmg := range []string{"same-size-keep-mtime", "same-size-new-mtime", "other-size-keep-mtime", "flip-keep-mtime", "truncate-keep-mtime"} {
			nrep := 1
			if thorough {
				nrep = 4
			}
			for rep := 0; rep < nrep; rep++ {
				g.reset()
				digest := g.setDigest()
				st, lf := h.build()
				n := []int{1, 16, 100, 1000, 4096}[g.rnd.Intn(5)]
				d := g.rnd.Bytes(n) // incompressible: equal plain lengths give equal object lengths
				good := c03Enc(d, lf.Unc)
				var other, bad []byte
				for try := 0; try < 40; try++ {
					other = g.rnd.Bytes(n)
					if dmg == "other-size-keep-mtime" {
						other = g.rnd.Bytes(n + 1 + g.rnd.Intn(5))
					}
					bad = c03Enc(other, lf.Unc)
					if string(other) != string(d) && (dmg == "other-size-keep-mtime" || len(bad) == len(good)) {
						break
					}
				}
				mode := "keep"
				switch dmg {
				case "same-size-new-mtime":
					mode = "touch"
				case "flip-keep-mtime":
					bad = append([]byte{}, good...)
					bad[g.rnd.Intn(len(bad))] ^= 1 << uint(g.rnd.Intn(8))
				case "truncate-keep-mtime":
					bad = good[:len(good)-1]
				}
				id := c03ID(d)
				c := &c03Case{Name: "history/" + h.name + "/" + dmg, Digest: digest, Stack: st}
				for _, l := range c03Leaves(st) {
					if l.kind == "foreign" {
						continue
					}
					// the chunk is everywhere except in a cache that is about to be filled
					if st.T == "cache" && len(st.Kids) == 2 && l.k == lf.K && st.Kids[0] != lf && g.rnd.Bool() {
						continue
					}
					c.Slots = append(c.Slots, c03Slot{K: l.k, ID: id, Obj: vh.Hex(c03Enc(d, l.unc)), Kind: "good"})
				}
				damage := fmt.Sprintf("m:%d:%s:%s:%s", lf.K, id, vh.Hex(bad), mode)
				restore := fmt.Sprintf("m:%d:%s:%s:%s", lf.K, id, vh.Hex(good), mode)
				c.Ops = []string{"g:" + id, "g:" + id, damage, "g:" + id, "g:" + id, fmt.Sprintf("x:%s:%d", id, len(d))}
				if c03Verifying(st) {
					c.Ops = append(c.Ops, fmt.Sprintf("r:%s:%s:%s:%d", id, c03ID([]byte{0}), "00", len(d)))
				}
				c.Ops = append(c.Ops, restore, "g:"+id, damage, "g:"+id)
				if err := g.run(c); err != nil {
					return err
				}
			}
		}
	}
	lap("J histories")
	return nil
}

// randStack draws a random stack of at most the given depth.
func (g *c03Gen) randStack(depth int, leafKinds []string) *c03Node {
	skip := g.rnd.Chance(1, 8)
	if g.rnd.Chance(1, 14) { // a content-trusting store from outside desync
		g.nk++
		return &c03Node{T: "foreign", K: g.nk - 1}
	}
	if depth <= 1 {
		return g.leaf(leafKinds[g.rnd.Intn(len(leafKinds))], g.rnd.Bool(), skip)
	}
	sub := func() *c03Node { return g.randStack(depth-1, leafKinds) }
	wsub := func() *c03Node { // a writable store
		n := g.leaf("local", g.rnd.Bool(), g.rnd.Chance(1, 10))
		for d := depth - 1; d > 1 && g.rnd.Chance(1, 2); d-- {
			n = g.wrap([]string{"repair", "wdedup", "wswap"}[g.rnd.Intn(3)], n)
		}
		return n
	}
	switch g.rnd.Intn(10) {
	case 0:
		return g.wrap("cache", sub(), wsub())
	case 1:
		return g.wrap("cache", sub(), g.wrap("repair", wsub()))
	case 2:
		kids := []*c03Node{sub(), sub()}
		if g.rnd.Bool() {
			kids = append(kids, sub())
		}
		return g.wrap("router", kids...)
	case 3:
		kids := []*c03Node{sub(), sub()}
		if g.rnd.Bool() {
			kids = append(kids, sub())
		}
		return g.wrap("failover", kids...)
	case 4:
		return g.wrap("dedup", sub())
	case 5:
		return g.wrap("swap", sub())
	case 6:
		return wsub()
	case 7:
		n := g.wrap("http", sub())
		n.SComp = g.rnd.Bool()
		n.Unc = !n.SComp
		if g.rnd.Chance(1, 10) {
			n.Unc = n.SComp
		}
		n.Skip = g.rnd.Chance(1, 8)
		return n
	case 8:
		return g.wrap("proto", sub())
	}
	return g.leaf(leafKinds[g.rnd.Intn(len(leafKinds))], g.rnd.Bool(), skip)
}

// addFaults adds transport faults on the operations the harness can steer: reads of raw HTTP
// backends and responses on network hops.
func (g *c03Gen) addFaults(c *c03Case) {
	id := c.Ops[0][2:]
	c.Stack.walk(func(n *c03Node) {
		if !g.rnd.Chance(1, 2) {
			return
		}
		var t string
		var k int
		switch {
		case n.T == "leaf" && (n.Kind == "http" || n.Kind == "s3"):
			t, k = "G", n.K
		case n.T == "http" || n.T == "proto":
			t, k = "N", n.Hop
		default:
			return
		}
		from := g.rnd.Intn(2)
		to := from + 1 + g.rnd.Intn(3)
		if g.rnd.Chance(1, 4) {
			to = c03Inf
		}
		f := c03Fault{T: t, K: k, ID: id, From: from, To: to}
		switch x := g.rnd.Intn(6); {
		case x < 3:
			f.F = "io"
		case x < 4 && t == "G" && n.Kind == "http":
			f.F = "rd"
			f.Arg = fmt.Sprint(g.rnd.Intn(30))
		default:
			f.F = "rp"
			d := g.rnd.Bytes(1 + g.rnd.Intn(40))
			switch g.rnd.Intn(3) {
			case 0:
				f.Arg = vh.Hex(d)
			case 1:
				f.Arg = vh.Hex(c03Enc(d, false))
			case 2:
				f.Arg = "-"
			}
		}
		c.Faults = append(c.Faults, f)
	})
}
