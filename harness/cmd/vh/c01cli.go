package main

import (
	"bytes"
	"context"
	"fmt"
	"os"
	"os/exec"
	"path/filepath"
	"strconv"
	"strings"
	"time"

	"github.com/folbricht/desync"

	"vh/internal/vh"
)

// c01CLI: `desync extract` on generated cases (the same generator as the library cases):
// chunks in a local store (some possibly missing), seeds given as index + file, prior target
// content, -k / --print-stats / --skip-invalid-seeds / --regenerate-invalid-seeds / -n.
// Judged on the command alone: exit status 0 => the output file exists and equals the blob;
// with a complete store, no seeds and no prior garbage the command must succeed; a failing
// extract without -k must leave the previous target untouched; no hang.

type c01CLICase struct {
	Case       c01Case  `json:"case"`
	InPlace    bool     `json:"in_place"`
	PrintStats bool     `json:"print_stats"`
	Args       []string `json:"args,omitempty"`
	Exit       int      `json:"exit"`
	Note       string   `json:"note,omitempty"`
}

func c01CLIOne(a vh.Args, r *vh.Result, bin string, cc *c01CLICase) error {
	c := &cc.Case
	desync.Digest = desync.SHA512256{}
	dir, err := os.MkdirTemp(a.Work, "cli")
	if err != nil {
		return err
	}
	defer os.RemoveAll(dir)
	blob := vh.UnHex(c.BlobHex)
	sizes, err := chunkSizes(blob, c.Min, c.Avg, c.Max)
	if err != nil {
		return err
	}
	idx := indexOfPieces(blob, sizes, c.Min, c.Avg, c.Max)
	writeIdx := func(name string, ix desync.Index) error {
		f, err := os.Create(name)
		if err != nil {
			return err
		}
		defer f.Close()
		_, err = ix.WriteTo(f)
		return err
	}
	idxFile := filepath.Join(dir, "in.caibx")
	if err := writeIdx(idxFile, idx); err != nil {
		return err
	}
	storeDir := filepath.Join(dir, "store")
	os.Mkdir(storeDir, 0755)
	st, err := desync.NewLocalStore(storeDir, desync.StoreOptions{})
	if err != nil {
		return err
	}
	missing := map[int]bool{}
	for _, m := range c.Missing {
		missing[m] = true
	}
	for i, ch := range idx.Chunks {
		if missing[i] {
			continue
		}
		if err := st.StoreChunk(desync.NewChunk(blob[ch.Start : ch.Start+ch.Size])); err != nil {
			return err
		}
	}
	target := filepath.Join(dir, "target")
	var prior []byte
	if c.Prior != "absent" {
		prior = vh.UnHex(c.PriorHex)
		if err := os.WriteFile(target, prior, 0644); err != nil {
			return err
		}
	}
	args := []string{"extract", "-s", storeDir, "-n", strconv.Itoa(c.N)}
	for i, s := range c.Seeds {
		if s.Kind == "self" {
			continue // a seed that is the target itself cannot be given on the command line (names must differ)
		}
		name := filepath.Join(dir, fmt.Sprintf("seed%d", i))
		if s.Kind != "gone" {
			if err := os.WriteFile(name, vh.UnHex(s.FileHex), 0644); err != nil {
				return err
			}
		}
		sidx := indexOfPieces(vh.UnHex(s.IndexHex), s.Pieces, c.Min, c.Avg, c.Max)
		if err := writeIdx(name+".caibx", sidx); err != nil {
			return err
		}
		args = append(args, "--seed", name+".caibx")
	}
	switch c.Action {
	case 1:
		args = append(args, "--skip-invalid-seeds")
	case 2:
		args = append(args, "--regenerate-invalid-seeds")
	}
	if cc.InPlace {
		args = append(args, "-k")
	}
	if cc.PrintStats {
		args = append(args, "--print-stats")
	}
	args = append(args, idxFile, target)
	cc.Args = args
	ctx, cancel := context.WithTimeout(context.Background(), 20*time.Second)
	defer cancel()
	cmd := exec.CommandContext(ctx, bin, args...)
	var stderr bytes.Buffer
	cmd.Stderr = &stderr
	err = cmd.Run()
	cc.Exit = 0
	if err != nil {
		if ctx.Err() != nil {
			cc.Exit = -2
		} else if ee, ok := err.(*exec.ExitError); ok {
			cc.Exit = ee.ExitCode()
		} else {
			return err
		}
	}
	nseeds := 0
	for _, s := range c.Seeds {
		if s.Kind != "self" {
			nseeds++
		}
	}
	key := fmt.Sprintf("cli|%s|%d|%d|%v|%v|%d|%s|%d", c.Prior, c.Action, c.N, cc.InPlace, cc.PrintStats, nseeds, c.BlobHex[:min(20, len(c.BlobHex))], len(c.BlobHex))
	r.Count(key, nseeds > 0 || c.Prior != "absent")
	r.Dist(fmt.Sprintf("cli:inplace=%v", cc.InPlace))
	r.Dist(fmt.Sprintf("cli:stats=%v", cc.PrintStats))
	r.Dist(fmt.Sprintf("cli:exit=%d", cc.Exit))
	out, rerr := os.ReadFile(target)
	switch {
	case cc.Exit == -2:
		r.Fail("predicate", "cli/hang", "desync extract did not return within 20 s", cc)
	case cc.Exit == 0 && (rerr != nil || !bytes.Equal(out, blob)):
		cc.Note = strings.TrimSpace(stderr.String())
		if len(cc.Note) > 300 {
			cc.Note = cc.Note[:300]
		}
		cls := "cli/exit0-with-wrong-output"
		if rerr != nil {
			cls = "cli/exit0-without-output"
		}
		r.Fail("predicate", cls, "desync extract exited with status 0 but the output is not the indexed blob", cc)
	case cc.Exit != 0 && len(c.Missing) == 0 && nseeds == 0:
		cc.Note = strings.TrimSpace(stderr.String())
		r.Fail("predicate", "cli/fails-with-complete-store", "desync extract failed although the store holds every chunk and no seed was given: "+cc.Note, cc)
	case cc.Exit != 0 && !cc.InPlace:
		// writeWithTmpFile: the previous target must be untouched
		if c.Prior == "absent" {
			if rerr == nil {
				r.Fail("predicate", "cli/failed-extract-left-output", "a failed extract (without -k) created the target", cc)
			}
		} else if rerr != nil || !bytes.Equal(out, prior) {
			r.Fail("predicate", "cli/failed-extract-changed-target", "a failed extract (without -k) changed the existing target", cc)
		}
	}
	return nil
}

func c01CLI(a vh.Args, r *vh.Result, rng *vh.Rand, n int) error {
	bin := os.Getenv("VH_DESYNC")
	if bin == "" {
		r.Note("VH_DESYNC not set: CLI cases skipped")
		return nil
	}
	if err := c01CLISeedDir(a, r, rng, bin); err != nil {
		return err
	}
	hangs := 0
	for k := 0; k < n && hangs < 2; k++ {
		c := c01Gen(rng)
		if len(c.BlobHex) > 40000 {
			c.BlobHex = c.BlobHex[:40000]
		}
		// the failing scenarios matter most here: a third of the cases lack a chunk
		if rng.Chance(1, 3) {
			if sizes, _ := chunkSizes(vh.UnHex(c.BlobHex), c.Min, c.Avg, c.Max); len(sizes) > 0 {
				c.Missing = []int{rng.Intn(len(sizes))}
			}
		}
		c.Trace = false
		cc := &c01CLICase{Case: c, InPlace: rng.Chance(1, 3), PrintStats: rng.Chance(1, 2)}
		if err := c01CLIOne(a, r, bin, cc); err != nil {
			return err
		}
		if cc.Exit == -2 {
			hangs++
		}
	}
	return nil
}

// c01CLISeedDir: `desync extract --seed-dir DIR` where DIR also holds the index being extracted
// and, next to it, a file of the same base name that is NOT its blob (the target itself when an
// interrupted extract is resumed).  The command must leave that pair out of the seeds however
// the directory and the index are spelled (absolute / relative / ./ / doubled slash), and succeed.
type c01SeedDirCase struct {
	Kind     string   `json:"kind"` // seeddir
	BlobHex  string   `json:"blob_hex"`
	Min      uint64   `json:"min"`
	Avg      uint64   `json:"avg"`
	Max      uint64   `json:"max"`
	PriorHex string   `json:"prior_hex"`
	InPlace  bool     `json:"in_place"`
	DirSpell string   `json:"dir_spelling"`
	IdxSpell string   `json:"index_spelling"`
	Args     []string `json:"args,omitempty"`
	Exit     int      `json:"exit"`
	Note     string   `json:"note,omitempty"`
}

func c01CLISeedDirOne(a vh.Args, r *vh.Result, bin string, c *c01SeedDirCase) error {
	desync.Digest = desync.SHA512256{}
	dir, err := os.MkdirTemp(a.Work, "sd")
	if err != nil {
		return err
	}
	defer os.RemoveAll(dir)
	blob := vh.UnHex(c.BlobHex)
	sizes, err := chunkSizes(blob, c.Min, c.Avg, c.Max)
	if err != nil {
		return err
	}
	idx := indexOfPieces(blob, sizes, c.Min, c.Avg, c.Max)
	images := filepath.Join(dir, "images")
	os.Mkdir(images, 0755)
	f, err := os.Create(filepath.Join(images, "new.caibx"))
	if err != nil {
		return err
	}
	if _, err := idx.WriteTo(f); err != nil {
		return err
	}
	f.Close()
	if err := os.WriteFile(filepath.Join(images, "new"), vh.UnHex(c.PriorHex), 0644); err != nil {
		return err
	}
	storeDir := filepath.Join(dir, "store")
	os.Mkdir(storeDir, 0755)
	st, err := desync.NewLocalStore(storeDir, desync.StoreOptions{})
	if err != nil {
		return err
	}
	for _, ch := range idx.Chunks {
		if err := st.StoreChunk(desync.NewChunk(blob[ch.Start : ch.Start+ch.Size])); err != nil {
			return err
		}
	}
	spell := func(kind, rel string) string {
		switch kind {
		case "abs":
			return filepath.Join(dir, rel)
		case "dot":
			return "./" + rel
		case "slashes":
			return strings.Replace(rel, "/", "//", 1)
		case "dotdot":
			return "images/../" + rel
		}
		return rel
	}
	seedDir := spell(c.DirSpell, "images")
	if c.DirSpell == "slashes" {
		seedDir = "images/"
	}
	args := []string{"extract", "-s", storeDir, "--seed-dir", seedDir}
	if c.InPlace {
		args = append(args, "-k")
	}
	args = append(args, spell(c.IdxSpell, "images/new.caibx"), spell(c.IdxSpell, "images/new"))
	c.Args = args
	ctx, cancel := context.WithTimeout(context.Background(), 20*time.Second)
	defer cancel()
	cmd := exec.CommandContext(ctx, bin, args...)
	cmd.Dir = dir
	var stderr bytes.Buffer
	cmd.Stderr = &stderr
	err = cmd.Run()
	c.Exit = 0
	if err != nil {
		if ee, ok := err.(*exec.ExitError); ok {
			c.Exit = ee.ExitCode()
		} else if ctx.Err() != nil {
			c.Exit = -2
		} else {
			return err
		}
	}
	r.Count(fmt.Sprintf("seeddir|%s|%s|%v|%d", c.DirSpell, c.IdxSpell, c.InPlace, len(blob)), true)
	r.Dist("cli:seeddir:" + c.DirSpell + "/" + c.IdxSpell)
	out, rerr := os.ReadFile(filepath.Join(images, "new"))
	c.Note = strings.TrimSpace(stderr.String())
	if len(c.Note) > 300 {
		c.Note = c.Note[:300]
	}
	switch {
	case c.Exit == 0 && (rerr != nil || !bytes.Equal(out, blob)):
		r.Fail("predicate", "cli/exit0-with-wrong-output", "desync extract --seed-dir exited with status 0 but the output is not the indexed blob", c)
	case c.Exit != 0:
		r.Fail("predicate", "cli/seed-dir-holding-the-index-fails", "desync extract failed although the store holds every chunk; the only 'seed' in the seed directory is the index being extracted next to its unfinished target: "+c.Note, c)
	}
	return nil
}

func c01CLISeedDir(a vh.Args, r *vh.Result, rng *vh.Rand, bin string) error {
	spellings := []string{"rel", "abs", "dot", "slashes", "dotdot"}
	for _, ds := range spellings {
		for _, is := range spellings {
			c := c01Gen(rng)
			blob := vh.UnHex(c.BlobHex)
			if len(blob) == 0 {
				blob = rng.Bytes(500)
			}
			if len(blob) > 20000 {
				blob = blob[:20000]
			}
			prior := append([]byte{}, blob[:rng.Intn(len(blob))]...) // an unfinished earlier run
			if rng.Bool() {
				prior = rng.Bytes(1 + rng.Intn(len(blob)))
			}
			sc := &c01SeedDirCase{Kind: "seeddir", BlobHex: vh.Hex(blob), Min: c.Min, Avg: c.Avg, Max: c.Max, PriorHex: vh.Hex(prior),
				InPlace: rng.Bool(), DirSpell: ds, IdxSpell: is}
			if err := c01CLISeedDirOne(a, r, bin, sc); err != nil {
				return err
			}
		}
	}
	return nil
}
