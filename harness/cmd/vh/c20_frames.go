package main

// C20: zstd frames as OTHER writers produce them.  casync compresses chunks with libzstd's streaming API
// (no pledged size), so its .cacnk files are multi-field frames with a window descriptor (2 MiB .. 8 MiB
// for the default level) even for tiny chunks; one-shot encoders (klauspost EncodeAll, DataDog
// CompressLevel) never emit those.  Here frames are hand-assembled from the format specification (RFC 8878)
// over the whole legal range a chunk store can meet -- window 1 KiB .. 8 MiB, with/without content size,
// with/without checksum, single-segment, raw/RLE blocks, multi-block -- and produced by klauspost's
// streaming Encoder with explicit window sizes.
// Predicate: every well-formed frame of a chunk (decompressed size <= 256 KiB, window <= 8 MiB) stored under
// the chunk's name is served by GetChunk with the right data, and Verify(repair) does not touch it.

import (
	"bytes"
	"context"
	"crypto/sha256"
	"encoding/binary"
	"fmt"
	"math/bits"
	"os"
	"path/filepath"
	"sort"

	"github.com/folbricht/desync"
	"github.com/klauspost/compress/zstd"

	"vh/internal/vh"
)

// ---------- XXH64 (frame content checksum) ----------

const (
	xxP1 uint64 = 11400714785074694791
	xxP2 uint64 = 14029467366897019727
	xxP3 uint64 = 1609587929392839161
	xxP4 uint64 = 9650029242287828579
	xxP5 uint64 = 2870177450012600261
)

func xxRound(acc, in uint64) uint64 { return bits.RotateLeft64(acc+in*xxP2, 31) * xxP1 }
func xxMerge(acc, v uint64) uint64  { return (acc^xxRound(0, v))*xxP1 + xxP4 }

func xxh64(b []byte) uint64 {
	n := len(b)
	var h uint64
	p := 0
	if n >= 32 {
		p1, p2 := xxP1, xxP2
		v1, v2, v3, v4 := p1+p2, p2, uint64(0), -p1
		for ; p+32 <= n; p += 32 {
			v1 = xxRound(v1, binary.LittleEndian.Uint64(b[p:]))
			v2 = xxRound(v2, binary.LittleEndian.Uint64(b[p+8:]))
			v3 = xxRound(v3, binary.LittleEndian.Uint64(b[p+16:]))
			v4 = xxRound(v4, binary.LittleEndian.Uint64(b[p+24:]))
		}
		h = bits.RotateLeft64(v1, 1) + bits.RotateLeft64(v2, 7) + bits.RotateLeft64(v3, 12) + bits.RotateLeft64(v4, 18)
		h = xxMerge(h, v1)
		h = xxMerge(h, v2)
		h = xxMerge(h, v3)
		h = xxMerge(h, v4)
	} else {
		h = xxP5
	}
	h += uint64(n)
	for ; p+8 <= n; p += 8 {
		h ^= xxRound(0, binary.LittleEndian.Uint64(b[p:]))
		h = bits.RotateLeft64(h, 27)*xxP1 + xxP4
	}
	if p+4 <= n {
		h ^= uint64(binary.LittleEndian.Uint32(b[p:])) * xxP1
		h = bits.RotateLeft64(h, 23)*xxP2 + xxP3
		p += 4
	}
	for ; p < n; p++ {
		h ^= uint64(b[p]) * xxP5
		h = bits.RotateLeft64(h, 11) * xxP1
	}
	h ^= h >> 33
	h *= xxP2
	h ^= h >> 29
	h *= xxP3
	h ^= h >> 32
	return h
}

// ---------- frame builder ----------

type frameSpec struct {
	WDesc    int    `json:"window_descriptor"` // -1: single-segment frame (no window descriptor)
	FCS      int    `json:"content_size_bytes"` // 0 (absent; not allowed for single-segment), 1 (single-segment only), 2, 4, 8
	Checksum bool   `json:"checksum"`
	Blocks   string `json:"blocks"` // raw | mixed (RLE where a block is one repeated byte)
}

func windowSize(desc int) int {
	exp, mant := desc>>3, desc&7
	base := 1 << (10 + uint(exp))
	return base + base/8*mant
}

// buildFrame returns a well-formed zstd frame holding data, or nil if the spec cannot express it.
func buildFrame(data []byte, sp frameSpec) []byte {
	n := len(data)
	var fcsFlag byte
	switch {
	case sp.WDesc < 0 && sp.FCS == 1:
		if n > 255 {
			return nil
		}
		fcsFlag = 0
	case sp.WDesc >= 0 && sp.FCS == 0:
		fcsFlag = 0
	case sp.FCS == 2:
		if n < 256 || n > 65791 {
			return nil
		}
		fcsFlag = 1
	case sp.FCS == 4:
		fcsFlag = 2
	case sp.FCS == 8:
		fcsFlag = 3
	default:
		return nil
	}
	fhd := fcsFlag << 6
	win := n
	if sp.WDesc < 0 {
		fhd |= 0x20
	} else {
		win = windowSize(sp.WDesc)
	}
	if sp.Checksum {
		fhd |= 0x04
	}
	out := []byte{0x28, 0xb5, 0x2f, 0xfd, fhd}
	if sp.WDesc >= 0 {
		out = append(out, byte(sp.WDesc))
	}
	switch sp.FCS {
	case 1:
		out = append(out, byte(n))
	case 2:
		out = binary.LittleEndian.AppendUint16(out, uint16(n-256))
	case 4:
		out = binary.LittleEndian.AppendUint32(out, uint32(n))
	case 8:
		out = binary.LittleEndian.AppendUint64(out, uint64(n))
	}
	bmax := 128 << 10
	if win < bmax {
		bmax = win
	}
	if bmax < 1 {
		bmax = 1
	}
	for off := 0; ; {
		l := n - off
		if l > bmax {
			l = bmax
		}
		blk := data[off : off+l]
		last := uint32(0)
		if off+l == n {
			last = 1
		}
		rle := sp.Blocks == "mixed" && l > 1 && bytes.Count(blk, blk[:1]) == l
		typ := uint32(0)
		if rle {
			typ = 1
		}
		h := uint32(l)<<3 | typ<<1 | last
		out = append(out, byte(h), byte(h>>8), byte(h>>16))
		if rle {
			out = append(out, blk[0])
		} else {
			out = append(out, blk...)
		}
		off += l
		if off == n {
			break
		}
	}
	if sp.Checksum {
		out = binary.LittleEndian.AppendUint32(out, uint32(xxh64(data)))
	}
	return out
}

type c20FrameCase struct {
	Kind    string    `json:"kind"` // frame
	Source  string    `json:"source"` // hand | klauspost-stream
	Spec    frameSpec `json:"spec"`
	Window  int       `json:"window,omitempty"`
	DataLen int       `json:"data_len"`
	Shape   string    `json:"shape"`
	Seed    uint64    `json:"seed"`
	Header  string    `json:"frame_header_hex,omitempty"`
	What    string    `json:"what,omitempty"`
}

func c20FrameData(c *c20FrameCase) []byte {
	rng := vh.NewRand(c.Seed)
	switch c.Shape {
	case "zero":
		return make([]byte, c.DataLen)
	case "runs":
		b := make([]byte, c.DataLen)
		for i := range b {
			b[i] = byte(i / 3000)
		}
		return b
	case "text":
		return bytes.Repeat([]byte("the quick brown fox "), c.DataLen/20+1)[:c.DataLen]
	}
	return rng.Bytes(c.DataLen)
}

func c20MakeFrame(c *c20FrameCase, data []byte) ([]byte, error) {
	if c.Source == "hand" {
		return buildFrame(data, c.Spec), nil
	}
	var buf bytes.Buffer
	opts := []zstd.EOption{zstd.WithEncoderConcurrency(1)}
	if c.Window > 0 {
		opts = append(opts, zstd.WithWindowSize(c.Window))
	}
	if c.Spec.Checksum {
		opts = append(opts, zstd.WithEncoderCRC(true))
	} else {
		opts = append(opts, zstd.WithEncoderCRC(false))
	}
	w, err := zstd.NewWriter(&buf, opts...)
	if err != nil {
		return nil, err
	}
	// streaming: several writes, a flush in between so that the encoder cannot know the total size
	half := len(data) / 2
	w.Write(data[:half])
	w.Flush()
	w.Write(data[half:])
	if err := w.Close(); err != nil {
		return nil, err
	}
	return buf.Bytes(), nil
}

func c20Frame(a vh.Args, r *vh.Result, c *c20FrameCase) error {
	desync.Digest = desync.SHA256{}
	data := c20FrameData(c)
	frame, err := c20MakeFrame(c, data)
	if err != nil {
		return err
	}
	if frame == nil {
		return nil // spec not expressible for this size
	}
	if len(frame) >= 8 {
		c.Header = fmt.Sprintf("%x", frame[:8])
	}
	dir, err := lsFreshDir(a.Work, "frame")
	if err != nil {
		return err
	}
	idh := lsSha256Hex(data)
	name := filepath.Join(dir, idh[:4], idh+".cacnk")
	os.MkdirAll(filepath.Dir(name), 0755)
	if err := os.WriteFile(name, frame, 0644); err != nil {
		return err
	}
	s, err := lsLocalStore(dir, false, false)
	if err != nil {
		return err
	}
	id, _ := desync.ChunkIDFromString(idh)
	declared := "none"
	if len(frame) > 5 && frame[4]&0x20 == 0 {
		declared = fmt.Sprintf("%d KiB", windowSize(int(frame[5]))>>10)
		if c.Source != "hand" {
			r.Dist("stream-frame-window:" + declared)
		}
	}
	r.Count(fmt.Sprintf("frame|%s|%+v|%d|%d|%s", c.Source, c.Spec, c.Window, c.DataLen, c.Shape), true)
	r.Dist("frame-source:" + c.Source)
	fail := func(class, what string) {
		c.What = what
		r.Fail("predicate", class, what, c)
	}
	if _, ferr := zstdSingleFrame(frame); ferr != nil {
		fail("frame/harness-builder", "the harness's own frame does not pass its own structure check: "+ferr.Error())
		return nil
	}
	ch, gerr := s.GetChunk(id)
	if gerr != nil {
		fail("frame/unreadable", fmt.Sprintf("GetChunk rejects a well-formed zstd frame (%s, header %s, window %s, %d bytes of data): %v", c.Source, c.Header, declared, len(data), gerr))
		return nil
	}
	if d, derr := ch.Data(); derr != nil || !bytes.Equal(d, data) {
		fail("frame/unreadable", fmt.Sprintf("GetChunk returns different data for a well-formed frame (%s, header %s): err=%v", c.Source, c.Header, derr))
		return nil
	}
	var w lsLockedBuf
	if verr := s.Verify(context.Background(), 2, true, &w); verr != nil {
		fail("frame/verify-error", fmt.Sprintf("Verify: %v", verr))
	}
	if _, serr := os.Stat(name); serr != nil {
		fail("frame/verify-removes-valid", fmt.Sprintf("Verify(repair) removed a valid chunk written as a well-formed frame (%s, header %s): %s", c.Source, c.Header, w.b.String()))
	}
	return nil
}

func c20FramesAll(a vh.Args, r *vh.Result, rng *vh.Rand) error {
	thorough := a.Tier == "thorough"
	sizes := []int{1, 100, 5000, 70000, 256 << 10}
	shapes := []string{"random", "zero", "runs", "text"}
	// hand-assembled: every window exponent 1 KiB .. 8 MiB (0x58 = 2 MiB is what casync's files carry)
	var descs []int
	for exp := 0; exp <= 13; exp++ {
		descs = append(descs, exp<<3)
		if exp < 13 {
			descs = append(descs, exp<<3|1+rng.Intn(7))
		}
	}
	n := 0
	for _, d := range descs {
		combos := 2
		if thorough {
			combos = 12
		}
		for k := 0; k < combos; k++ {
			c := &c20FrameCase{Kind: "frame", Source: "hand", Seed: rng.U64() % 1000000,
				Spec:    frameSpec{WDesc: d, FCS: []int{0, 0, 2, 4, 8}[rng.Intn(5)], Checksum: rng.Bool(), Blocks: []string{"raw", "mixed"}[rng.Intn(2)]},
				DataLen: sizes[rng.Intn(len(sizes))], Shape: shapes[rng.Intn(len(shapes))]}
			if k == 0 { // the casync shape: no content size, tiny chunk
				c.Spec.FCS, c.DataLen = 0, []int{1, 100}[n%2]
			}
			n++
			if err := c20Frame(a, r, c); err != nil {
				return err
			}
		}
	}
	for k := 0; k < 6; k++ { // single-segment frames
		c := &c20FrameCase{Kind: "frame", Source: "hand", Seed: rng.U64() % 1000000,
			Spec:    frameSpec{WDesc: -1, FCS: []int{1, 2, 4, 8}[rng.Intn(4)], Checksum: rng.Bool(), Blocks: []string{"raw", "mixed"}[rng.Intn(2)]},
			DataLen: sizes[rng.Intn(len(sizes))], Shape: shapes[rng.Intn(len(shapes))]}
		if c.Spec.FCS == 1 {
			c.DataLen = 1 + rng.Intn(200)
		}
		if err := c20Frame(a, r, c); err != nil {
			return err
		}
	}
	// klauspost's streaming encoder with explicit windows (0 = its default)
	for _, win := range []int{0, 1 << 10, 64 << 10, 1 << 20, 2 << 20, 4 << 20, 8 << 20} {
		for _, sz := range []int{1, 5000, 256 << 10} {
			c := &c20FrameCase{Kind: "frame", Source: "klauspost-stream", Window: win, Seed: rng.U64() % 1000000,
				Spec: frameSpec{Checksum: rng.Bool()}, DataLen: sz, Shape: shapes[rng.Intn(len(shapes))]}
			if err := c20Frame(a, r, c); err != nil {
				return err
			}
		}
	}
	return nil
}

// c20FrameStore writes a store of hand-assembled frames for the zinterop helper builds and returns the
// line `zinterop read` must print for it.
func c20FrameStore(dir string, rng *vh.Rand) (string, error) {
	type ent struct {
		name string
		data []byte
	}
	var ents []ent
	for exp := 0; exp <= 13; exp++ {
		for _, sz := range []int{1, 5000, 200000} {
			c := &c20FrameCase{Source: "hand", Seed: rng.U64() % 1000000, DataLen: sz + exp, Shape: []string{"random", "runs"}[exp%2],
				Spec: frameSpec{WDesc: exp << 3, FCS: []int{0, 4, 8}[exp%3], Checksum: exp%2 == 0, Blocks: "mixed"}}
			data := c20FrameData(c)
			frame := buildFrame(data, c.Spec)
			if frame == nil {
				continue
			}
			idh := lsSha256Hex(data)
			p := filepath.Join(dir, idh[:4], idh+".cacnk")
			os.MkdirAll(filepath.Dir(p), 0755)
			if err := os.WriteFile(p, frame, 0644); err != nil {
				return "", err
			}
			ents = append(ents, ent{idh, data})
		}
	}
	sort.Slice(ents, func(i, j int) bool { return ents[i].name < ents[j].name })
	h := sha256.New()
	total := 0
	for _, e := range ents {
		h.Write([]byte(e.name))
		h.Write(e.data)
		total += len(e.data)
	}
	return fmt.Sprintf("chunks=%d bytes=%d digest=%x", len(ents), total, h.Sum(nil)), nil
}
