package main

// C13, shapes of the tar stream and TarReaderOptions.AddRoot (--tar-add-root):
//   addroot        members of a directory without the directory itself ("a", "d/", "d/x"; first
//                  member a file or a directory) + AddRoot: the archive is the synthetic root
//                  (mode 0755, ids 0, the zero time) holding every member
//   empty-addroot  an empty stream + AddRoot: the archive of the empty synthetic root
//   empty          an empty stream without AddRoot: an error (there is nothing to archive)
//   single-file    a stream of one regular file without AddRoot: the archive of that file
//   addroot-dot    a stream that has its own "./" member + AddRoot   (recorded finding)
//   rootless       members without a root and without AddRoot: an error, or every member archived
//   ungrouped      a member of a subdirectory written after the members that follow that
//                  directory (tar -r): an error, or every member archived
// library (desync.Tar over NewTarReader) and CLI must write the same bytes; the validator's
// listing must equal the members of the stream (+ the synthetic root).

import (
	"bytes"
	"context"
	"fmt"
	"os"
	"path/filepath"
	"strings"
	"time"

	"github.com/folbricht/desync"

	"vh/internal/vh"
)

// uint64(time.Time{}.UnixNano()): what tar() writes for the ModTime the synthetic root does not set
func c13ZeroTimeNs() uint64 { return uint64(time.Time{}.UnixNano()) }

func c13StreamLib(tb []byte, addRoot bool) (b []byte, err error) {
	defer func() {
		if p := recover(); p != nil {
			err = fmt.Errorf("panic: %v", p)
		}
	}()
	var buf bytes.Buffer
	err = desync.Tar(context.Background(), &buf, desync.NewTarReader(bytes.NewReader(tb), desync.TarReaderOptions{AddRoot: addRoot}))
	return buf.Bytes(), err
}

// c13FrontChild moves the first child of the root that is (not) a directory to the front.
func c13FrontChild(nodes []c13Node, wantDir bool) []c13Node {
	first := -1
	for i := 1; i < len(nodes); i++ {
		if len(nodes[i].Path) == 1 && (nodes[i].Type == "dir") == wantDir {
			first = i
			break
		}
	}
	if first <= 1 {
		return nodes
	}
	// the subtree of that child: it and the nodes below it (generation order keeps them together)
	end := first + 1
	for end < len(nodes) && len(nodes[end].Path) > 1 && nodes[end].Path[0] == nodes[first].Path[0] {
		end++
	}
	out := []c13Node{nodes[0]}
	out = append(out, nodes[first:end]...)
	out = append(out, nodes[1:first]...)
	out = append(out, nodes[end:]...)
	return out
}

func c13CheckStream(a vh.Args, o *vh.Oracle, r *vh.Result, c *c13Case, id int) error {
	work := filepath.Join(a.Work, fmt.Sprintf("stream%d", id))
	if err := os.MkdirAll(work, 0755); err != nil {
		return err
	}
	defer os.RemoveAll(work)
	var tb []byte
	var emitted []int
	var err error
	c.Source = strings.TrimPrefix(c.Source, "tar-") // as recorded by the listing judge
	nodes := c.Nodes
	switch c.Source {
	case "addroot", "rootless":
		tb, emitted, err = c13BuildTarOpt(nodes, false, true)
	case "addroot-roots":
		// members of a directory with additional root members ("./", ".", "./.") at the places c.Roots names
		at := map[int][]string{}
		for _, part := range strings.Split(c.Roots, ";") {
			kv := strings.SplitN(part, ":", 2)
			if len(kv) != 2 {
				continue
			}
			var k int
			fmt.Sscanf(kv[0], "%d", &k)
			at[k] = append(at[k], strings.Split(kv[1], ",")...)
		}
		c13TarExtraRoots = func(k int) []string { return at[k] }
		tb, emitted, err = c13BuildTarOpt(nodes, false, true)
		c13TarExtraRoots = nil
	case "addroot-dot", "longnames":
		tb, emitted, err = c13BuildTarOpt(nodes, false, false)
	case "ungrouped":
		// a member of a subdirectory comes after the members that follow that subdirectory
		di := -1
		for i := 1; i < len(nodes); i++ {
			if len(nodes[i].Path) >= 2 && nodes[i].Type != "dir" && i < len(nodes)-1 && len(nodes[i+1].Path) > 0 {
				// something must follow its directory: look for a later node outside that directory
				dirp := strings.Join(nodes[i].Path[:len(nodes[i].Path)-1], "/")
				for j := i + 1; j < len(nodes); j++ {
					if !strings.HasPrefix(strings.Join(nodes[j].Path, "/")+"/", dirp+"/") {
						di = i
						break
					}
				}
				if di >= 0 {
					break
				}
			}
		}
		if di < 0 {
			return nil // this tree has no such member
		}
		tb, emitted, err = c13BuildTarOpt(nodes, false, false, di)
	case "empty-addroot", "empty":
		nodes = []c13Node{{Type: "dir"}}
		tb, emitted, err = c13BuildTarOpt(nodes, false, true)
	case "single-file":
		// one regular file, named without a directory
		nodes = []c13Node{{Type: "dir"}, c.Nodes[0]}
		nodes[1].Path = []string{vh.Hex([]byte("only"))}
		tb, _, err = c13BuildTarOpt(nodes, false, true)
	default:
		return fmt.Errorf("unknown stream case %q", c.Source)
	}
	if err != nil {
		return err
	}
	// what the archive has to describe
	exp := append([]c13Node{}, nodes...)
	switch {
	case c.Source == "single-file":
		f := nodes[1]
		f.Path = nil
		exp = []c13Node{f}
		emitted = []int{0}
	case c.AddRoot:
		exp[0] = c13Node{Type: "dir", Mode: 0755, Mtime: int64(c13ZeroTimeNs())}
	}
	want, order := c13WantFromNodes(exp)
	if c.AddRoot && c.Source != "single-file" {
		want[""].Mtime = c13ZeroTimeNs()
	}
	first := "none"
	if len(nodes) > 1 {
		first = nodes[1].Type
	}
	r.Count(fmt.Sprintf("stream|%s|%v|%d|%s", c.Source, c.AddRoot, len(nodes), first), len(nodes) > 1)
	r.Dist("stream:" + c.Source)
	r.Dist("stream-first-member:" + first)

	lib, lerr := c13StreamLib(tb, c.AddRoot)
	tf := filepath.Join(work, "in.tar")
	if err := os.WriteFile(tf, tb, 0644); err != nil {
		return err
	}
	catar := filepath.Join(work, "out.catar")
	args := []string{"tar", "--input-format", "tar"}
	if c.AddRoot {
		args = append(args, "--tar-add-root")
	}
	rc, stderr := c13RunCLI(append(args, catar, tf)...)
	what := fmt.Sprintf("tar stream %q (%d members, first a %s), AddRoot=%v", c.Source, len(nodes)-1, first, c.AddRoot)
	if c.Roots != "" {
		what += fmt.Sprintf(", root members at %s", c.Roots)
		r.Dist("stream-root-members:" + c.Roots)
	}

	if c.Source == "empty" {
		// nothing to archive: success would have to come with a well-formed archive of ... nothing
		if lerr == nil || rc == 0 {
			b, _ := os.ReadFile(catar)
			if lerr == nil {
				b = lib
			}
			os.WriteFile(catar, b, 0644)
			out, _, err := c13Validate(catar, "--unsorted-ok")
			if err != nil {
				return err
			}
			if !out.OK {
				r.Fail("predicate", "stream/empty-success", what+": success is reported for an empty stream and the output is not an archive", c13Slim(c))
			}
		}
		return nil
	}
	if c.Source == "rootless" || c.Source == "ungrouped" {
		// not a tree grouped by directory: an error is fine; success obliges the archive to hold
		// every member of the stream
		if (lerr == nil) != (rc == 0) {
			r.Fail("corr", "corr:C13/cli-vs-library", fmt.Sprintf("%s: desync.Tar err=%v, `desync tar` exit %d", what, lerr, rc), c13Slim(c))
		}
		if lerr != nil {
			return nil
		}
		if err := os.WriteFile(catar, lib, 0644); err != nil {
			return err
		}
		out, _, err := c13Validate(catar, "--unsorted-ok")
		if err != nil {
			return err
		}
		bad := ""
		if !out.OK {
			bad = out.Errors[0].Msg
		} else if ms := c13Compare(want, order, out.Nodes); len(ms) > 0 {
			bad = fmt.Sprintf("%s (%d of %d nodes archived)", ms[0][1], len(out.Nodes), len(order))
		}
		if bad != "" {
			d := *c
			d.Detail = bad
			r.Fail("predicate", "tarstream/members-after-root-dropped", what+": success is reported, but the archive does not hold the members of the stream: "+bad, &d)
		}
		return nil
	}
	if lerr != nil {
		r.Fail("predicate", "stream/lib-error", fmt.Sprintf("%s: desync.Tar: %v", what, lerr), c13Slim(c))
		return nil
	}
	if rc != 0 {
		r.Fail("predicate", "stream/cli-error", fmt.Sprintf("%s: desync tar exits %d: %s", what, rc, c13Trunc(stderr)), c13Slim(c))
		return nil
	}
	cli, err := os.ReadFile(catar)
	if err != nil {
		return err
	}
	r.Corr()
	if !bytes.Equal(cli, lib) {
		r.Fail("corr", "corr:C13/cli-vs-library", fmt.Sprintf("%s: `desync tar` and desync.Tar(NewTarReader) wrote different archives (%d vs %d bytes)", what, len(cli), len(lib)), c13Slim(c))
	}
	vargs := []string{"--unsorted-ok"}
	if c.Source == "longnames" {
		vargs = append(vargs, "--long-names-ok") // the hash of the WHOLE name is still required
	}
	out, _, err := c13Validate(catar, vargs...)
	if err != nil {
		return err
	}
	// the two recorded stream shapes get their own class
	cls := map[string]string{"addroot-dot": "tarstream/addroot-dot-member"}[c.Source]
	if cls != "" {
		bad := ""
		if !out.OK {
			bad = out.Errors[0].Msg
		} else if ms := c13Compare(want, order, out.Nodes); len(ms) > 0 {
			bad = ms[0][1]
		}
		if bad != "" {
			d := *c
			d.Detail = bad
			r.Fail("predicate", cls, what+": "+bad, &d)
		}
		return nil
	}
	sc := *c
	sc.Source = "tar-" + c.Source
	c13Judge(r, &sc, out, want, order, what)
	if out.OK && len(emitted) > 0 {
		mc := *c
		mc.Source = "tar-unsorted"
		if c.Source == "longnames" {
			mc.Source = "tar-longnames"
		}
		if err := c13ModelArchive(o, r, &mc, work, catar, out, c13SpecFromNodes(exp, emitted)); err != nil {
			return err
		}
	}
	return nil
}

func c13RunStreams(a vh.Args, o *vh.Oracle, r *vh.Result, rng *vh.Rand, thorough bool) error {
	n := 2
	if thorough {
		n = 10
	}
	id := 0
	run := func(c *c13Case) error {
		id++
		c.Kind = "stream"
		return c13CheckStream(a, o, r, c, id)
	}
	for i := 0; i < n; i++ {
		for _, frontDir := range []bool{false, true} {
			var nodes []c13Node
			if i%2 == 0 {
				nodes = c13SmallTree(rng.Fork())
			} else {
				nodes = c13GenTree(rng.Fork(), 0, false, i%4 == 1)
			}
			nodes = c13FrontChild(nodes, frontDir)
			if err := run(&c13Case{Source: "addroot", AddRoot: true, Nodes: nodes}); err != nil {
				return err
			}
		}
	}
	// the stream's own root members, anywhere and any number of them: all dropped under AddRoot
	for _, roots := range []string{"0:./,./", "0:./,.,./.", "0:.,./", "2:./", "1:./,./", "-1:./", "-1:.,./", "0:./;2:.;-1:./."} {
		nodes := c13FrontChild(c13SmallTree(rng.Fork()), rng.Bool())
		if err := run(&c13Case{Source: "addroot-roots", AddRoot: true, Nodes: nodes, Roots: roots}); err != nil {
			return err
		}
	}
	// names of 255 / 256 / 257 / 300 / 1000 / 5000 bytes (PAX), two of them sharing their first 255
	// bytes, one of them a directory: FILENAME and the goodbye hash are of the whole name
	{
		nodes := []c13Node{{Type: "dir", Mode: 0755, Mtime: 1600000000 * 1e9}}
		mk := func(n int, tail string) string {
			b := make([]byte, n)
			for i := range b {
				b[i] = "abcdefghijklmnopqrstuvwxyz0123456789"[(i*7+n)%36]
			}
			copy(b[n-len(tail):], tail)
			return vh.Hex(b)
		}
		common := make([]byte, 255)
		for i := range common {
			common[i] = 'p'
		}
		names := []string{mk(255, "-a"), mk(256, "-b"), mk(257, "-c"), mk(300, "-d"), mk(1000, "-e"),
			vh.Hex(append(append([]byte{}, common...), []byte("-first")...)), vh.Hex(append(append([]byte{}, common...), []byte("-second")...))}
		if thorough || rng.Chance(1, 2) {
			names = append(names, mk(5000, "-f"))
		}
		for _, nm := range names {
			nodes = append(nodes, c13Node{Path: []string{nm}, Type: "file", Mode: 0644, Mtime: 1600000000 * 1e9, Size: rng.Intn(20), Seed: rng.U64()})
		}
		dn := mk(400, "-dir")
		nodes = append(nodes, c13Node{Path: []string{dn}, Type: "dir", Mode: 0755, Mtime: 1600000000 * 1e9},
			c13Node{Path: []string{dn, mk(260, "-in")}, Type: "file", Mode: 0600, Mtime: 1600000000 * 1e9, Size: 3, Seed: 1},
			c13Node{Path: []string{dn, vh.Hex([]byte("short"))}, Type: "symlink", Mode: 0777, Mtime: 1600000000 * 1e9, Target: vh.Hex([]byte("x"))})
		if err := run(&c13Case{Source: "longnames", Nodes: nodes}); err != nil {
			return err
		}
	}
	if err := run(&c13Case{Source: "empty-addroot", AddRoot: true}); err != nil {
		return err
	}
	if err := run(&c13Case{Source: "empty"}); err != nil {
		return err
	}
	f := c13Node{Type: "file", Mode: 0640, UID: 1000, GID: 1000, Mtime: 1600000000 * 1e9, Size: 1 + rng.Intn(5000), Seed: rng.U64()}
	if err := run(&c13Case{Source: "single-file", Nodes: []c13Node{f}}); err != nil {
		return err
	}
	// a recorded finding, and the shapes Tar() has to refuse or archive completely
	small := c13SmallTree(rng.Fork())
	if len(small) > 2 {
		if err := run(&c13Case{Source: "addroot-dot", AddRoot: true, Nodes: small}); err != nil {
			return err
		}
		if err := run(&c13Case{Source: "rootless", Nodes: c13FrontChild(small, false)}); err != nil {
			return err
		}
		if err := run(&c13Case{Source: "rootless", Nodes: c13FrontChild(small, true)}); err != nil {
			return err
		}
	}
	for i := 0; i < n+1; i++ {
		if err := run(&c13Case{Source: "ungrouped", Nodes: c13GenTree(rng.Fork(), 0, false, false)}); err != nil {
			return err
		}
	}
	return nil
}
