package main

import (
	"time"
	"bytes"
	"context"
	"crypto/sha256"
	"encoding/hex"
	"fmt"
	"os"
	"path/filepath"
	"strconv"
	"strings"
	"sync/atomic"

	"github.com/folbricht/desync"

	"vh/internal/vh"
)

func init() { props["C17"] = runC17 }

type c17Case struct {
	BlobHex string `json:"blob_hex"`
	Sizes   []int  `json:"sizes"`
	N       int    `json:"n"`
	Mut     string `json:"mutation"`
	FileHex string `json:"file_hex"`
	Digest  string `json:"digest"`
	Bogus   int    `json:"bogus_row,omitempty"`  // 1 + the row whose id in the index is not the digest of its range (0 = none)
	Sched   uint64 `json:"sched_seed,omitempty"` // != 0: randomized-priority schedule at the workers' yield points
	Got     string `json:"impl_result,omitempty"`
	Want    string `json:"expected,omitempty"`
	Model   string `json:"model_result,omitempty"`
}

// randomSizes cuts n bytes into chunks of random sizes (1..maxc), so chunk
// counts are large for small blobs; indexes need not come from the chunker.
func randomSizes(r *vh.Rand, n, maxc int) []int {
	var out []int
	for n > 0 {
		s := 1 + r.Intn(maxc)
		if s > n {
			s = n
		}
		out = append(out, s)
		n -= s
	}
	return out
}

func buildIndex(blob []byte, sizes []int) desync.Index {
	idx := desync.Index{Index: desync.FormatIndex{ChunkSizeMin: 1, ChunkSizeAvg: 64, ChunkSizeMax: 1 << 20}}
	var off uint64
	for _, s := range sizes {
		idx.Chunks = append(idx.Chunks, desync.IndexChunk{Start: off, Size: uint64(s), ID: desync.Digest.Sum(blob[off : off+uint64(s)])})
		off += uint64(s)
	}
	return idx
}

func c17RunImpl(work string, file []byte, idx desync.Index, n int, sched uint64) (string, int, error) {
	name := filepath.Join(work, "file")
	if err := os.WriteFile(name, file, 0644); err != nil {
		return "", 0, err
	}
	var feeds int64
	var ch *vh.Chaos
	if sched != 0 {
		ch = vh.NewChaos(sched, 4, 40*time.Microsecond)
	}
	desync.VerifSetYieldHook(func(site string) {
		if site == "verifyindex.feed" {
			atomic.AddInt64(&feeds, 1)
		}
		if ch != nil {
			ch.Hook(site)
		}
	})
	defer desync.VerifSetYieldHook(nil)
	err := desync.VerifyIndex(context.Background(), name, idx, n, desync.NullProgressBar{})
	if err == nil {
		return "nil", int(feeds), nil
	}
	return "err", int(feeds), nil
}

func c17Check(a vh.Args, o *vh.Oracle, r *vh.Result, c *c17Case, corr bool) error {
	r.Running(c)
	blob := vh.UnHex(c.BlobHex)
	file := vh.UnHex(c.FileHex)
	if c.Digest == "sha256" {
		desync.Digest = desync.SHA256{}
	} else {
		desync.Digest = desync.SHA512256{}
	}
	idx := buildIndex(blob, c.Sizes)
	if c.Bogus > 0 && c.Bogus <= len(idx.Chunks) {
		idx.Chunks[c.Bogus-1].ID[7] ^= 0x10
	}
	got, feeds, err := c17RunImpl(a.Work, file, idx, c.N, c.Sched)
	if err != nil {
		return err
	}
	c.Got = got
	// the property predicate, independent of the model
	c.Want = "err"
	if bytes.Equal(file, blob) && c.Bogus == 0 {
		c.Want = "nil"
	}
	key := fmt.Sprintf("%s|%d|%s|%d|%d", c.Mut, c.N, c.Digest, len(c.Sizes), c.Sched)
	r.Count(key+"|"+c.FileHex[:min(16, len(c.FileHex))], len(c.Sizes) > 1 && c.Mut != "none")
	r.Dist("mut:" + strings.SplitN(c.Mut, "@", 2)[0])
	r.Dist("digest:" + c.Digest)
	r.Dist(fmt.Sprintf("n:%s", bucket(c.N)))
	r.Dist(fmt.Sprintf("chunks:%s", bucket(len(c.Sizes))))
	r.Sample(map[string]interface{}{"chunks": len(c.Sizes), "n": c.N, "mutation": c.Mut, "blob_len": len(blob), "file_len": len(file), "impl": got})
	if got != c.Want {
		cls := "accepts-modified-file"
		if c.Want == "nil" {
			cls = "rejects-matching-file"
		}
		r.Fail("predicate", cls, fmt.Sprintf("VerifyIndex returned %s, file==blob is %v, index row with a wrong id: %v (mutation %s, n=%d, %d chunks)", got, bytes.Equal(file, blob), c.Bogus > 0, c.Mut, c.N, len(c.Sizes)), c)
	}
	if corr && o != nil && c.Digest == "sha256" {
		rows := make([]string, len(c.Sizes))
		off := 0
		for i, s := range c.Sizes {
			sum := sha256.Sum256(blob[off : off+s])
			if c.Bogus == i+1 {
				sum[7] ^= 0x10
			}
			rows[i] = hex.EncodeToString(sum[:]) + ":" + strconv.Itoa(s)
			off += s
		}
		ans, err := o.Call("c17.verify", strconv.Itoa(c.N), vh.Hex(file), strings.Join(rows, ","))
		if err != nil {
			return err
		}
		c.Model = ans
		r.Corr()
		want := map[string]string{"true": "nil", "false": "err"}[ans]
		if want != got {
			r.Fail("corr", "corr:C17/result", fmt.Sprintf("model verify_index=%s, implementation=%s", ans, got), c)
		}
		// number of batches handed to the workers (only comparable when all were fed: result nil)
		if got == "nil" {
			bs, err := o.Call("c17.batches", strconv.Itoa(c.N), strconv.Itoa(len(c.Sizes)))
			if err != nil {
				return err
			}
			nb := 0
			if bs != "-" {
				nb = len(strings.Split(bs, ","))
			}
			r.Corr()
			if nb != feeds {
				r.Fail("corr", "corr:C17/batches", fmt.Sprintf("model has %d batches, implementation fed %d", nb, feeds), c)
			}
		}
	}
	return nil
}

func bucket(n int) string {
	switch {
	case n == 0:
		return "0"
	case n == 1:
		return "1"
	case n <= 4:
		return "2-4"
	case n <= 16:
		return "5-16"
	case n <= 64:
		return "17-64"
	case n <= 256:
		return "65-256"
	default:
		return ">256"
	}
}

// batchBoundaryChunks returns the indices of the first and last chunk of every batch.
func batchBoundaryChunks(nchunks, n int) []int {
	if nchunks == 0 {
		return nil
	}
	batch := nchunks / (n * 10)
	var out []int
	for i := 0; i < nchunks; i += batch + 1 {
		last := i + batch
		if last >= nchunks {
			last = nchunks - 1
		}
		out = append(out, i, last)
	}
	return out
}

func chunkStart(sizes []int, k int) int {
	s := 0
	for i := 0; i < k; i++ {
		s += sizes[i]
	}
	return s
}

func runC17(a vh.Args, o *vh.Oracle, r *vh.Result) error {
	r.Rule = "case = (blob, index sizes, n, digest, one mutation of the file); non-trivial = index has >1 chunk and the file differs from the blob (one-byte flip at a chosen chunk incl. every batch-boundary chunk, truncation, extension, swap of equal-size chunks); distinct by (mutation, n, digest, chunk count, file prefix)"
	if a.Replay != "" {
		var cc c17CancelCase
		if err := readJSON(a.Replay, &cc); err == nil && cc.Kind != "" {
			for i := 0; i < 20; i++ {
				if err := c17CancelOne(a, r, &cc); err != nil {
					return err
				}
			}
			return nil
		}
		var lk struct {
			Kind string `json:"kind"`
			Seed uint64 `json:"seed"`
		}
		if err := readJSON(a.Replay, &lk); err == nil && lk.Kind == "large" {
			// the large-batch family is regenerated from the recorded seed (the files are too big to store)
			return c17LargeReplay(a, r, lk.Seed)
		}
		var tc c17TraceCase
		if err := readJSON(a.Replay, &tc); err == nil && tc.Kind == "pooltrace" {
			for i := 0; i < 30; i++ {
				cc := tc
				cc.Sched = tc.Sched + uint64(i)*7919
				if err := c17TraceOne(a, o, r, &cc); err != nil {
					return err
				}
			}
			return nil
		}
		var c c17Case
		if err := readJSON(a.Replay, &c); err != nil {
			return err
		}
		return c17Check(a, o, r, &c, true)
	}
	rng := vh.NewRand(a.Seed)
	blobs := 12
	if a.Tier == "thorough" {
		blobs = 150
	}
	race := a.Tier == "race" // the reduced family run under the race detector: several workers, few cases
	if race {
		blobs = 3
	}
	for bi := 0; bi < blobs; bi++ {
		size := []int{0, 1, 7, 100, 1000, 5000, 20000}[rng.Intn(7)] + rng.Intn(50)
		if bi == 0 {
			size = 0
		}
		blob, shape := vh.Blob(rng, size)
		maxc := []int{1, 3, 40, 400, 4000}[rng.Intn(5)]
		if size > 3000 && maxc < 40 {
			maxc = 40
		}
		sizes := randomSizes(rng, len(blob), maxc)
		r.Dist("blob:" + shape)
		digest := "sha256"
		if rng.Chance(1, 4) {
			digest = "sha512-256"
		}
		ns := []int{1, 2, 1 + rng.Intn(64)}
		if a.Tier == "thorough" {
			ns = append(ns, 3, 7, 64, 1+rng.Intn(64))
		}
		for _, n := range ns {
			mk := func(mut string, file []byte) *c17Case {
				return &c17Case{BlobHex: vh.Hex(blob), Sizes: sizes, N: n, Mut: mut, FileHex: vh.Hex(file), Digest: digest}
			}
			var cases []*c17Case
			cases = append(cases, mk("none", blob))
			flip := func(pos int, tag string) {
				f := append([]byte{}, blob...)
				f[pos] ^= byte(1 << uint(rng.Intn(8)))
				cases = append(cases, mk(fmt.Sprintf("flip-%s@%d", tag, pos), f))
			}
			if len(blob) > 0 {
				flip(0, "first")
				flip(len(blob)-1, "last")
				flip(rng.Intn(len(blob)), "random")
				bb := batchBoundaryChunks(len(sizes), n)
				lim := 6
				if a.Tier == "thorough" {
					lim = 40
				}
				for k := 0; k < len(bb) && k < lim; k++ {
					ci := bb[rng.Intn(len(bb))]
					if a.Tier == "thorough" && len(bb) <= lim {
						ci = bb[k]
					}
					st := chunkStart(sizes, ci)
					flip(st+rng.Intn(sizes[ci]), "batchedge")
				}
				// truncation / extension
				cases = append(cases, mk("truncate", blob[:len(blob)-1-rng.Intn(min(len(blob), 1+sizes[len(sizes)-1]))]))
			}
			cases = append(cases, mk("extend", append(append([]byte{}, blob...), rng.Bytes(1+rng.Intn(5))...)))
			cases = append(cases, mk("extend-zero", append(append([]byte{}, blob...), 0)))
			// swap two equal-size chunks with different content
			for t := 0; t < 20 && len(sizes) > 1; t++ {
				i, j := rng.Intn(len(sizes)), rng.Intn(len(sizes))
				if i == j || sizes[i] != sizes[j] {
					continue
				}
				si, sj := chunkStart(sizes, i), chunkStart(sizes, j)
				if bytes.Equal(blob[si:si+sizes[i]], blob[sj:sj+sizes[j]]) {
					continue
				}
				f := append([]byte{}, blob...)
				copy(f[si:], blob[sj:sj+sizes[j]])
				copy(f[sj:], blob[si:si+sizes[i]])
				cases = append(cases, mk("swap", f))
				break
			}
			for _, c := range cases {
				if err := c17Check(a, o, r, c, true); err != nil {
					return err
				}
			}
		}
	}
	// every-chunk sweep on a small index: a one-byte change in every chunk, for every n in 1..64
	{
		desync.Digest = desync.SHA256{}
		blob := rng.Bytes(97)
		sizes := randomSizes(rng, len(blob), 4)
		step := 7
		if a.Tier == "thorough" {
			step = 1
		}
		for n := 1; n <= 64; n += step {
			for ci := range sizes {
				f := append([]byte{}, blob...)
				f[chunkStart(sizes, ci)] ^= 0x80
				c := &c17Case{BlobHex: vh.Hex(blob), Sizes: sizes, N: n, Mut: fmt.Sprintf("sweep-chunk@%d", ci), FileHex: vh.Hex(f), Digest: "sha256"}
				if err := c17Check(a, o, r, c, n%7 == 1); err != nil {
					return err
				}
			}
		}
	}
	// zero-tail family: a file that is SHORTER than the index where every missing byte is zero in the
	// blob (sparse images) -- a reader that pads short reads with zeros would accept it
	for k := 0; k < 6; k++ {
		head := rng.Bytes(rng.Intn(300))
		if k == 0 {
			head = nil
		}
		blob := append(append([]byte{}, head...), make([]byte, 64+rng.Intn(600))...)
		sizes := randomSizes(rng, len(blob), 1+rng.Intn(80))
		for _, cut := range []int{1, 1 + rng.Intn(len(blob)-len(head)), len(blob) - len(head)} {
			for _, n := range []int{1, 1 + rng.Intn(64)} {
				c := &c17Case{BlobHex: vh.Hex(blob), Sizes: sizes, N: n, Mut: fmt.Sprintf("truncate-zero-tail@%d", cut), FileHex: vh.Hex(blob[:len(blob)-cut]), Digest: []string{"sha256", "sha512-256"}[k%2]}
				if err := c17Check(a, o, r, c, true); err != nil {
					return err
				}
			}
		}
	}
	// zero-size rows: an index may hold rows for an empty range (IndexFromReader accepts them anywhere but first);
	// such a row is right when its id is the digest of the empty string and wrong otherwise
	for k := 0; k < 8; k++ {
		blob := rng.Bytes(40 + rng.Intn(400))
		base := randomSizes(rng, len(blob), 1+rng.Intn(40))
		pos := []int{0, 1, len(base) / 2, len(base) - 1, len(base)}[k%5]
		if pos < 0 {
			pos = 0
		}
		sizes := append(append(append([]int{}, base[:pos]...), 0), base[pos:]...)
		if k >= 5 { // two in a row
			sizes = append(append(append([]int{}, sizes[:pos]...), 0), sizes[pos:]...)
		}
		for _, n := range []int{1, 2, 1 + rng.Intn(64)} {
			for _, bogus := range []int{0, pos + 1} {
				c := &c17Case{BlobHex: vh.Hex(blob), Sizes: sizes, N: n, Mut: fmt.Sprintf("zero-size-row@%d", pos), FileHex: vh.Hex(blob), Digest: []string{"sha256", "sha512-256"}[k%2], Bogus: bogus}
				if err := c17Check(a, o, r, c, true); err != nil {
					return err
				}
			}
		}
	}
	// a row with a wrong id in an otherwise matching index (any size)
	for k := 0; k < 6; k++ {
		blob := rng.Bytes(60 + rng.Intn(300))
		sizes := randomSizes(rng, len(blob), 1+rng.Intn(30))
		c := &c17Case{BlobHex: vh.Hex(blob), Sizes: sizes, N: 1 + rng.Intn(8), Mut: "wrong-id", FileHex: vh.Hex(blob), Digest: "sha256", Bogus: 1 + rng.Intn(len(sizes))}
		if err := c17Check(a, o, r, c, true); err != nil {
			return err
		}
	}
	// schedules: several workers under randomized-priority schedules at the workers' yield points (start of a
	// batch's validation, feeder): one altered byte must be found whichever worker gets which batch when
	nsched := 40
	if a.Tier == "thorough" {
		nsched = 600
	}
	{
		desync.Digest = desync.SHA256{}
		blob := rng.Bytes(600)
		sizes := randomSizes(rng, len(blob), 30)
		for i := 0; i < nsched; i++ {
			n := []int{2, 2, 3, 4, 8}[rng.Intn(5)]
			ci := rng.Intn(len(sizes))
			f := append([]byte{}, blob...)
			f[chunkStart(sizes, ci)+rng.Intn(sizes[ci])] ^= 0x04
			mut := fmt.Sprintf("sched-flip@%d", ci)
			if i%8 == 7 {
				f, mut = blob, "sched-none"
			}
			c := &c17Case{BlobHex: vh.Hex(blob), Sizes: sizes, N: n, Mut: mut, FileHex: vh.Hex(f), Digest: "sha256", Sched: 1 + rng.U64()%1000000}
			if err := c17Check(a, o, r, c, i%10 == 0); err != nil {
				return err
			}
		}
	}
	ntr := 150
	if a.Tier == "thorough" {
		ntr = 3000
	}
	if race {
		ntr = 40
	}
	if err := c17Trace(a, o, r, rng, ntr); err != nil {
		return err
	}
	if race {
		return nil
	}
	if err := c17Cancel(a, r, rng); err != nil {
		return err
	}
	if err := c17Resource(a, r, rng); err != nil {
		return err
	}
	if err := c17Large(a, r, rng); err != nil {
		return err
	}
	return c17CLI(a, r, rng)
}

// CLI level: `desync verify-index` exit status on a matching and a modified file.
func c17CLI(a vh.Args, r *vh.Result, rng *vh.Rand) error {
	bin := os.Getenv("VH_DESYNC")
	if bin == "" {
		r.Note("VH_DESYNC not set: CLI cases skipped")
		return nil
	}
	desync.Digest = desync.SHA512256{}
	blob := rng.Bytes(3000)
	sizes := randomSizes(rng, len(blob), 100)
	idx := buildIndex(blob, sizes)
	idx.Index.FeatureFlags = desync.CaFormatSHA512256
	idxFile := filepath.Join(a.Work, "cli.caibx")
	f, err := os.Create(idxFile)
	if err != nil {
		return err
	}
	if _, err := idx.WriteTo(f); err != nil {
		return err
	}
	f.Close()
	for _, mut := range []string{"none", "flip", "truncate"} {
		file := append([]byte{}, blob...)
		switch mut {
		case "flip":
			file[rng.Intn(len(file))] ^= 1
		case "truncate":
			file = file[:len(file)-1]
		}
		name := filepath.Join(a.Work, "cli.blob")
		os.WriteFile(name, file, 0644)
		rc := runCmd(bin, "verify-index", "-n", strconv.Itoa(1+rng.Intn(8)), idxFile, name)
		r.Count("cli|"+mut, mut != "none")
		r.Dist("cli:" + mut)
		if (rc == 0) != (mut == "none") {
			r.Fail("predicate", "cli-verify-index-"+mut, fmt.Sprintf("desync verify-index exit status %d for mutation %s", rc, mut), map[string]interface{}{"mutation": mut})
		}
	}
	return nil
}
