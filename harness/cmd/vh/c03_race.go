package main

// C03: concurrent callers through DedupQueue / WriteDedupQueue.
//
// The wrappers hand the result of one upstream request to every caller that asked for the
// same chunk while it was in flight.  Predicate, on the implementation alone: whoever gets
// err == nil from GetChunk(id) holds a non-nil chunk whose Data() hashes to id -- also the
// de-duplicated waiters, also when the owner of the upstream request immediately goes on to
// the next chunks.  The upstream store verifies (NewChunkFromStorage, verification on) and all
// its objects are intact, so every wrong answer is made by the wrapper.

import (
	"encoding/hex"
	"fmt"
	"os"
	"runtime"
	"sync"
	"time"

	"github.com/folbricht/desync"

	"vh/internal/vh"
)

type c03RaceCase struct {
	Race    string `json:"race"` // get | store
	Write   bool   `json:"write_dedup_queue"`
	Local   bool   `json:"local_store_upstream"`
	Procs   int    `json:"gomaxprocs"`
	Waiters int    `json:"waiters"`
	Next    int    `json:"owner_follow_ups"` // chunks the owner asks for right after the shared one
	Rounds  int    `json:"rounds"`
	Chaos   bool   `json:"chaos_hook"`
	Seed    uint64 `json:"seed"`
	Digest  string `json:"digest"`
	Bad     int    `json:"bad_rounds,omitempty"`
	Example string `json:"example,omitempty"`
}

// c03MemStore: in-memory store of compressed objects that verifies what it hands out; the next
// GetChunk / StoreChunk for a gated id stops inside the store until the gate is opened.
type c03MemStore struct {
	mu      sync.Mutex
	objects map[desync.ChunkID][]byte
	gates   map[desync.ChunkID]chan struct{}
	entered chan struct{}
	inner   desync.WriteStore // optional: a real LocalStore instead of the map
}

func (s *c03MemStore) gate(id desync.ChunkID) {
	s.mu.Lock()
	g := s.gates[id]
	delete(s.gates, id)
	s.mu.Unlock()
	if g != nil {
		s.entered <- struct{}{}
		<-g
	}
}

func (s *c03MemStore) GetChunk(id desync.ChunkID) (*desync.Chunk, error) {
	s.gate(id)
	if s.inner != nil {
		return s.inner.GetChunk(id)
	}
	s.mu.Lock()
	b, ok := s.objects[id]
	s.mu.Unlock()
	if !ok {
		return nil, desync.ChunkMissing{ID: id}
	}
	return desync.NewChunkFromStorage(id, b, desync.Converters{desync.Compressor{}}, false)
}
func (s *c03MemStore) HasChunk(id desync.ChunkID) (bool, error) {
	if s.inner != nil {
		return s.inner.HasChunk(id)
	}
	s.mu.Lock()
	defer s.mu.Unlock()
	_, ok := s.objects[id]
	return ok, nil
}
func (s *c03MemStore) StoreChunk(c *desync.Chunk) error {
	id := c.ID()
	s.gate(id)
	if s.inner != nil {
		return s.inner.StoreChunk(c)
	}
	d, err := c.Data()
	if err != nil {
		return err
	}
	b, _ := desync.Compress(d)
	s.mu.Lock()
	s.objects[id] = b
	s.mu.Unlock()
	return nil
}
func (s *c03MemStore) Close() error   { return nil }
func (s *c03MemStore) String() string { return "mem" }

type c03RaceResult struct {
	who   string
	asked desync.ChunkID
	chunk *desync.Chunk
	err   error
}

func (r c03RaceResult) check() string {
	if r.err != nil {
		return ""
	}
	if r.chunk == nil {
		return fmt.Sprintf("%s asked for %s: nil error and nil chunk", r.who, hex.EncodeToString(r.asked[:6]))
	}
	b, err := r.chunk.Data()
	if err != nil {
		return fmt.Sprintf("%s asked for %s: nil error, chunk without data: %v", r.who, hex.EncodeToString(r.asked[:6]), err)
	}
	if sum := desync.Digest.Sum(b); sum != r.asked {
		return fmt.Sprintf("%s asked for %s: nil error and a chunk whose data hashes to %s", r.who, hex.EncodeToString(r.asked[:6]), hex.EncodeToString(sum[:6]))
	}
	return ""
}

// c03RaceRun plays the rounds of one configuration and returns the number of rounds with a wrong
// answer and one description.
func c03RaceRun(e *c03Env, c *c03RaceCase) error {
	if c.Digest == "sha256" {
		desync.Digest = desync.SHA256{}
	} else {
		desync.Digest = desync.SHA512256{}
	}
	rnd := vh.NewRand(c.Seed)
	defer runtime.GOMAXPROCS(runtime.GOMAXPROCS(c.Procs))
	if c.Chaos {
		ch := vh.NewChaos(c.Seed, 4, 20*time.Microsecond)
		desync.VerifSetYieldHook(ch.Hook)
	} else {
		desync.VerifSetYieldHook(nil)
	}
	defer desync.VerifSetYieldHook(nil)

	up := &c03MemStore{objects: map[desync.ChunkID][]byte{}, gates: map[desync.ChunkID]chan struct{}{}, entered: make(chan struct{})}
	if c.Local {
		dir := fmt.Sprintf("%s/race%d", e.a.Work, c.Seed)
		ls, err := desync.NewLocalStore(c03MkDir(dir), desync.StoreOptions{})
		if err != nil {
			return err
		}
		up.inner = ls
	}
	var getter desync.Store
	var writer desync.WriteStore
	if c.Write {
		q := desync.NewWriteDedupQueue(up)
		getter, writer = q, q
	} else {
		getter = desync.NewDedupQueue(up)
	}
	per := 1 + c.Next
	mkChunk := func(i int) (*desync.Chunk, desync.ChunkID) {
		d := rnd.Bytes(64 + rnd.Intn(512))
		d[0] = byte(i)
		ch := desync.NewChunk(d)
		return ch, ch.ID()
	}
	c.Bad = 0
	for r := 0; r < c.Rounds; r++ {
		chunks := make([]*desync.Chunk, per)
		ids := make([]desync.ChunkID, per)
		for i := range ids {
			chunks[i], ids[i] = mkChunk(r*per + i)
			if c.Race == "get" || i > 0 {
				if err := up.StoreChunk(chunks[i]); err != nil { // no gate is set at this point
					return err
				}
			}
		}
		gate := make(chan struct{})
		up.mu.Lock()
		up.gates[ids[0]] = gate
		up.mu.Unlock()
		results := make(chan c03RaceResult, per+c.Waiters)
		go func() { // the owner: the shared chunk, then straight on to the next ones
			if c.Race == "store" {
				err := writer.StoreChunk(chunks[0])
				results <- c03RaceResult{"owner (StoreChunk)", ids[0], chunks[0], err}
			} else {
				ch, err := getter.GetChunk(ids[0])
				results <- c03RaceResult{"owner", ids[0], ch, err}
			}
			for i := 1; i < per; i++ {
				ch, err := getter.GetChunk(ids[i])
				results <- c03RaceResult{"owner (follow-up request)", ids[i], ch, err}
			}
		}()
		select {
		case <-up.entered: // the shared request is with the store now
		case <-time.After(5 * time.Second):
			return fmt.Errorf("race round %d: owner never reached the store", r)
		}
		for w := 0; w < c.Waiters; w++ {
			go func() {
				ch, err := getter.GetChunk(ids[0])
				results <- c03RaceResult{"de-duplicated waiter", ids[0], ch, err}
			}()
		}
		for i := 0; i < 20+5*c.Waiters; i++ { // let them queue up behind the owner
			runtime.Gosched()
		}
		if c.Procs > 1 {
			time.Sleep(50 * time.Microsecond)
		}
		close(gate)
		bad := ""
		for i := 0; i < per+c.Waiters; i++ {
			select {
			case res := <-results:
				if c.Race == "store" && res.who == "owner (StoreChunk)" {
					continue
				}
				if msg := res.check(); msg != "" && bad == "" {
					bad = fmt.Sprintf("round %d: %s", r, msg)
				}
			case <-time.After(10 * time.Second):
				return fmt.Errorf("race round %d: a caller never returned", r)
			}
		}
		if bad != "" {
			c.Bad++
			if c.Example == "" {
				c.Example = bad
			}
		}
	}
	return nil
}

func c03MkDir(d string) string {
	_ = os.MkdirAll(d, 0755)
	return d
}

func c03Race(e *c03Env, rnd *vh.Rand) error {
	rounds := 80
	if e.a.Tier == "thorough" {
		rounds = 1500
	}
	n := 0
	for _, race := range []string{"get", "store"} {
		for _, write := range []bool{false, true} {
			if race == "store" && !write {
				continue
			}
			for _, procs := range []int{1, 4} {
				for _, chaos := range []bool{false, true} {
					for _, local := range []bool{false, true} {
						if local && (chaos || e.a.Tier != "thorough" && procs == 4) {
							continue
						}
						c := &c03RaceCase{Race: race, Write: write, Local: local, Procs: procs, Waiters: 1 + rnd.Intn(4), Next: 1 + rnd.Intn(3),
							Rounds: rounds, Chaos: chaos, Seed: rnd.U64() % 1000000, Digest: []string{"sha256", "sha512-256"}[rnd.Intn(2)]}
						if local {
							c.Rounds = rounds / 3
						}
						if err := c03RaceRun(e, c); err != nil {
							return err
						}
						n++
						e.r.Count(fmt.Sprintf("race|%s|%v|%v|%d|%v", race, write, local, procs, chaos), true)
						e.r.Dist("race:" + race)
						e.r.Dist(fmt.Sprintf("race-procs:%d", procs))
						if c.Bad > 0 {
							wrapper := "dedupqueue"
							if write {
								wrapper = "writededupqueue"
							}
							e.r.Fail("predicate", "concurrent/"+wrapper+"-"+race+"-waiter-gets-wrong-chunk",
								fmt.Sprintf("%d of %d rounds (GOMAXPROCS %d, %d waiters, owner goes on to %d more chunks): %s", c.Bad, c.Rounds, procs, c.Waiters, c.Next, c.Example), c)
						}
					}
				}
			}
		}
	}
	e.r.Note("concurrent de-duplication: %d configurations x %d rounds (DedupQueue/WriteDedupQueue, GetChunk and StoreChunk as the shared request, GOMAXPROCS 1 and 4, with and without the chaos yield hook)", n, rounds)
	return nil
}
