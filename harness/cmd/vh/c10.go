package main

// C10 -- copy-on-read sparse files return the blob's bytes or an error, never stale zeros.
//
// Implementation under test: desync.NewSparseFile / SparseFile.Open / SparseFileHandle.ReadAt / WriteState,
// restarts on the same cache + state files, preload from a state file, concurrent readers parked at the
// "sparse.written" yield point. A case is a script of tokens (same language as the oracle command c10.run):
//   Q<k>:R:<off>:<len> | Q<k>:S      queue a ReadAt / WriteState for goroutine k
//   D<k>                             run goroutine k's queue to completion (releases it if parked)
//   U<k>                             start goroutine k and let it run to the yield point before done.Set (or to completion)
//   B<k>                             start goroutine k in the background (it may block on a chunk mutex)
//   G<k>                             start goroutine k and hold it inside its next GetChunk (gated store); D<k> lets the call return
//   DA                               wait until the preload workers are finished
//   K                                the cache file is unlinked under the running loader
//   Y:<K|A|R<n>>:<m|l>               a start-up that fails: its init state file is missing (m) or of the wrong length (l)
//   X:<state 0|1|2>:<K|A|R<n>>:<preload 0|1|I<bits>>   restart (I<bits>: pre-load from a separate init state file with these bits): state file readable (1), hidden (0) or replaced by a foreign one of
//                                              the wrong length (2); cache kept/absent/resized; preload
// Predicate (independent of the model): a ReadAt that reports success returns exactly blob[off:off+n] with
// n = min(len, L-off); an error is allowed only if the store failed during that call (or off < 0); no panic.

import (
	"bytes"
	"errors"
	"fmt"
	"io"
	"os"
	"path/filepath"
	"regexp"
	"sort"
	"strconv"
	"strings"
	"sync"
	"time"

	"github.com/folbricht/desync"
	"github.com/hanwen/go-fuse/v2/fs"
	"github.com/hanwen/go-fuse/v2/fuse"

	"vh/internal/vh"
)

func init() { props["C10"] = runC10 }

type c10Case struct {
	Kind    string     `json:"kind"` // seq | conc | stale
	Digest  string     `json:"digest"`
	Max     int        `json:"chunk_size_max"`
	BlobHex string     `json:"blob_hex"`
	Sizes   []int      `json:"sizes"`
	Shape   string     `json:"shape"`
	Missing []int      `json:"missing_chunks,omitempty"`
	Faults  []c09Fault `json:"faults,omitempty"`
	Script  []string   `json:"script"`
	Got     string     `json:"impl,omitempty"`
	Model   string     `json:"model,omitempty"`
	FailTok int        `json:"fail_token,omitempty"`
}

type c10Req struct {
	kind string // R | S
	off  int64
	ln   int
}

type c10Run struct {
	c       *c10Case
	idx     desync.Index
	st      *c09Store
	blob    []byte
	dir     string
	cache   string
	state   string
	sf      *desync.SparseFile
	mfs     *desync.SparseMountFS // kind "mount": the same loader behind the FUSE node of mount-sparse.go
	raw     fuse.RawFileSystem
	node    uint64
	fhs     map[int]uint64
	handles map[int]*desync.SparseFileHandle
	queue   map[int][]c10Req
	running map[int]chan struct{} // goroutine k running in the background: closed when its queue is done
	parked  chan struct{}         // non-nil: a goroutine sits at the yield point; close to release it
	log     []string
	mu      sync.Mutex
	crashed bool
	// ghost bookkeeping for classifying failures
	staleState  bool // the state file was saved for a cache file that has since been lost
	loadedStale bool // the current incarnation loaded such a state file
	failTok     int
	cls, what   string
	hung        bool
	bootHold    func(bool)
	gated       int // 1+goroutine held inside GetChunk by the store's gate
	unlinked    bool   // the cache file has been unlinked under the running loader
	down        bool   // the last start-up returned an error: nothing is served until the next start
	staleClass  string // how the state file became stale (names the failure class)
	preloadWant int // store calls expected once the preload workers are finished
	abandoned   map[int]bool
}

var errC10EIO = errors.New("EIO")

// start creates the loader: directly, or (kind "mount") behind the FUSE file node driven through the raw bridge
func (x *c10Run) start(opt desync.SparseFileOptions) error {
	if !strings.HasPrefix(x.c.Kind, "mount") {
		sf, err := desync.NewSparseFile(x.cache, x.idx, x.st, opt)
		x.sf = sf
		return err
	}
	mfs, err := desync.NewSparseMountFS(x.idx, "blob", x.st, x.cache, opt)
	if err != nil {
		return err
	}
	x.mfs, x.raw, x.fhs = mfs, fs.NewNodeFS(mfs, &fs.Options{}), map[int]uint64{}
	var eo fuse.EntryOut
	if s := x.raw.Lookup(make(chan struct{}), &fuse.InHeader{NodeId: 1}, "blob", &eo); s != fuse.OK {
		return fmt.Errorf("Lookup(blob) = %v", s)
	}
	x.node = eo.NodeId
	return nil
}

func (x *c10Run) writeState() error {
	if strings.HasPrefix(x.c.Kind, "mount") {
		return x.mfs.WriteState()
	}
	return x.sf.WriteState()
}

// readAt is ReadAt on goroutine k's handle; through the mount it is the node's Read (EOF is folded into a short answer there)
func (x *c10Run) readAt(k int, buf []byte, off int64) (int, error) {
	if err := x.open(k); err != nil {
		return 0, err
	}
	if !strings.HasPrefix(x.c.Kind, "mount") {
		x.mu.Lock()
		h := x.handles[k]
		x.mu.Unlock()
		return h.ReadAt(buf, off)
	}
	x.mu.Lock()
	fh := x.fhs[k]
	x.mu.Unlock()
	rr, s := x.raw.Read(make(chan struct{}), &fuse.ReadIn{InHeader: fuse.InHeader{NodeId: x.node}, Fh: fh, Offset: uint64(off), Size: uint32(len(buf))}, buf)
	if s != fuse.OK {
		return 0, errC10EIO
	}
	data, _ := rr.Bytes(buf)
	n := copy(buf, data)
	if n < len(buf) {
		return n, io.EOF
	}
	return n, nil
}

// open gives goroutine k its handle (SparseFile.Open, or the mount node's Open) if it has none yet
func (x *c10Run) open(k int) error {
	x.mu.Lock()
	defer x.mu.Unlock()
	if !strings.HasPrefix(x.c.Kind, "mount") {
		if x.handles[k] == nil {
			h, err := x.sf.Open()
			if err != nil {
				return err
			}
			x.handles[k] = h
		}
		return nil
	}
	if _, ok := x.fhs[k]; !ok {
		var oo fuse.OpenOut
		if s := x.raw.Open(make(chan struct{}), &fuse.OpenIn{InHeader: fuse.InHeader{NodeId: x.node}}, &oo); s != fuse.OK {
			return fmt.Errorf("Open = %v", s)
		}
		x.fhs[k] = oo.Fh
	}
	return nil
}

func (x *c10Run) fail(tok int, cls, what string) {
	x.mu.Lock()
	defer x.mu.Unlock()
	if x.failTok < 0 {
		x.failTok, x.cls, x.what = tok, cls, what
	}
}

func (x *c10Run) addLog(s string) {
	x.mu.Lock()
	x.log = append(x.log, s)
	x.mu.Unlock()
}

// one request on goroutine k; returns false if the process "crashed" (panic)
func (x *c10Run) exec(tok, k int, q c10Req) (ok bool) {
	L := int64(len(x.blob))
	defer func() {
		if p := recover(); p != nil {
			ok = false
			x.mu.Lock()
			x.crashed = true
			x.mu.Unlock()
			cls := "panic"
			switch {
			case len(x.idx.Chunks) == 0:
				cls = "sparse/empty-index-read-panics"
			case q.kind == "R" && q.ln == 0 && q.off >= L:
				cls = "sparse/zero-length-read-at-eof-panics"
			}
			x.fail(tok, cls, fmt.Sprintf("ReadAt(len=%d, off=%d) on an index of %d chunks (L=%d) panicked: %v", q.ln, q.off, len(x.idx.Chunks), L, p))
		}
	}()
	if q.kind == "S" {
		if err := x.writeState(); err != nil {
			x.fail(tok, "sparse/writestate-error", err.Error())
		}
		x.mu.Lock()
		if !x.loadedStale { // an incarnation that runs on a stale state writes its wrong bits back
			x.staleState = false
		}
		x.mu.Unlock()
		x.addLog("S=D")
		return true
	}
	buf := make([]byte, q.ln)
	for j := range buf {
		buf[j] = 0xAA
	}
	_, f0, e0 := x.st.counters3()
	n, err := x.readAt(k, buf, q.off)
	_, f1 := x.st.counters()
	ec := c09ErrClass(err)
	if err == errC10EIO {
		ec = "eio"
	}
	var ent string
	if err == nil || err == io.EOF {
		ent = fmt.Sprintf("R:%d:%d=%s:%s", q.off, q.ln, vh.Hex(buf[:n]), ec)
	} else {
		ent = fmt.Sprintf("R:%d:%d=E:%s", q.off, q.ln, ec)
	}
	x.addLog(ent)
	// ---- the property ----
	want := int64(0)
	if q.off >= 0 && q.off <= L {
		want = min64(int64(q.ln), L-q.off)
	}
	_, _, e1 := x.st.counters3()
	switch {
	case err == io.EOF && e1 > e0 && (q.off < 0 || int64(n) != want || n >= q.ln):
		x.fail(tok, "sparse/store-eof-taken-for-end-of-file", fmt.Sprintf("ReadAt(len=%d, off=%d) returned (%d, io.EOF) because the store failed with io.EOF: the caller sees the end of the file, the blob has %d more bytes there", q.ln, q.off, n, want))
	case err != nil && err != io.EOF:
		if q.off >= 0 && f1 == f0 && !x.unlinked {
			x.fail(tok, "sparse/error-with-healthy-store", fmt.Sprintf("ReadAt(len=%d, off=%d) returned %v although the store did not fail", q.ln, q.off, err))
		}
		if n != 0 && (q.off < 0 || q.off+int64(n) > L || !bytes.Equal(buf[:n], x.blob[q.off:q.off+int64(n)])) {
			x.fail(tok, "sparse/altered-data", fmt.Sprintf("ReadAt(len=%d, off=%d) returned an error and %d bytes that are not the blob's", q.ln, q.off, n))
		}
	case q.off < 0:
		x.fail(tok, "sparse/negative-offset-accepted", fmt.Sprintf("ReadAt(off=%d) succeeded", q.off))
	case int64(n) != want || (q.off <= L && !bytes.Equal(buf[:n], x.blob[q.off:q.off+int64(n)])):
		cls := "sparse/stale-zeros"
		x.mu.Lock()
		if x.loadedStale {
			cls = x.staleClass
		}
		x.mu.Unlock()
		if int64(n) > want {
			cls = "sparse/read-past-end"
		} else if int64(n) != want {
			cls = "sparse/short-read"
		}
		x.fail(tok, cls, fmt.Sprintf("ReadAt(len=%d, off=%d) reported success (%v) with %d bytes that are not blob[%d:%d]", q.ln, q.off, err, n, q.off, q.off+want))
	case (err == io.EOF) != (n < q.ln):
		x.fail(tok, "sparse/eof-flag", fmt.Sprintf("ReadAt(len=%d, off=%d) returned n=%d err=%v", q.ln, q.off, n, err))
	}
	return true
}

func (x *c10Run) runQueue(tok, k int) {
	for {
		x.mu.Lock()
		q := x.queue[k]
		if len(q) == 0 || x.crashed {
			x.queue[k] = nil
			x.mu.Unlock()
			return
		}
		x.queue[k] = q[1:]
		x.mu.Unlock()
		if !x.exec(tok, k, q[0]) {
			return
		}
	}
}

func (x *c10Run) closeHandles() {
	for k, h := range x.handles {
		h.Close()
		delete(x.handles, k)
	}
}

func c10Bits(b []byte, n int) string {
	if n == 0 {
		return "-"
	}
	var s strings.Builder
	for i := 0; i < n; i++ {
		if i/8 < len(b) && b[i/8]&(1<<uint(i%8)) != 0 {
			s.WriteByte('1')
		} else {
			s.WriteByte('0')
		}
	}
	return s.String()
}

func (x *c10Run) restart(tok int, t string) error {
	parts := strings.Split(t, ":")
	failKind := "" // Y:<cache>:<m|l>: a start-up with a separate init file that is missing (m) or has the wrong length (l)
	if parts[0] == "Y" && len(parts) == 3 {
		failKind = parts[2]
		parts = []string{"X", "1", parts[1], "0"}
	}
	if len(parts) != 4 {
		return fmt.Errorf("bad restart token %q", t)
	}
	x.down, x.unlinked = false, false
	x.mu.Lock()
	for k, h := range x.handles { // handles of goroutines that were killed while blocked are abandoned, not closed
		if !x.abandoned[k] {
			h.Close()
		}
	}
	x.abandoned = map[int]bool{}
	x.handles = map[int]*desync.SparseFileHandle{}
	x.queue = map[int][]c10Req{}
	x.crashed = false
	x.mu.Unlock()
	_, stErr := os.Stat(x.state)
	haveState := stErr == nil
	if (parts[1] == "0" || parts[1] == "2") && haveState {
		// the state file is not readable at this start (removed); start-up writes a fresh one
		os.Remove(x.state)
	}
	if parts[1] == "2" {
		// a state file that is not for this index (one byte too long, every bit set): must be rejected by its length
		os.WriteFile(x.state, bytes.Repeat([]byte{0xff}, (len(x.idx.Chunks)+7)/8+1), 0644)
	}
	lost := false
	switch {
	case parts[2] == "A":
		os.Remove(x.cache)
		lost = true
	case strings.HasPrefix(parts[2], "R"):
		k, _ := strconv.Atoi(parts[2][1:])
		if err := os.Truncate(x.cache, int64(k)); err != nil {
			// no cache file yet: create it at that size
			f, e2 := os.Create(x.cache)
			if e2 != nil {
				return e2
			}
			f.Truncate(int64(k))
			f.Close()
		}
		lost = true
	}
	if haveState && lost {
		x.staleState = true
		x.staleClass = "sparse/stale-state-after-cache-loss"
		if failKind != "" {
			x.staleClass = "sparse/stale-state-after-failed-startup"
		}
	}
	opt := desync.SparseFileOptions{StateSaveFile: x.state}
	switch failKind {
	case "m":
		opt.StateInitFile = filepath.Join(x.dir, "no-such-init-state")
	case "l":
		opt.StateInitFile = filepath.Join(x.dir, "init-state-of-another-index")
		os.WriteFile(opt.StateInitFile, bytes.Repeat([]byte{0xff}, (len(x.idx.Chunks)+7)/8+1), 0644)
	}
	initBits := ""
	if strings.HasPrefix(parts[3], "I") { // a separate init state file holding these bits (any bits: it only triggers loads)
		initBits = parts[3][1:]
		raw := make([]byte, (len(initBits)+7)/8)
		for i, b := range initBits {
			if b == '1' {
				raw[i/8] |= 1 << uint(i%8)
			}
		}
		opt.StateInitFile = filepath.Join(x.dir, "init-state")
		os.WriteFile(opt.StateInitFile, raw, 0644)
		opt.StateInitConcurrency = 2
		if len(x.c.Faults) > 0 {
			opt.StateInitConcurrency = 1
		}
	}
	if parts[3] == "1" && haveState && parts[1] == "1" {
		opt.StateInitFile = x.state
		opt.StateInitConcurrency = 2
		if len(x.c.Faults) > 0 {
			// a fault is tied to a call number: keep the order of the preload fetches deterministic (index order, as in
			// the oracle's round-robin drain); two workers are used when only missing chunks can fail
			opt.StateInitConcurrency = 1
		}
	}
	// how many preload fetches will happen: only if the state is not loaded directly
	x.preloadWant = -1
	fi, _ := os.Stat(x.cache)
	sizeOK := fi != nil && fi.Size() == int64(len(x.blob))
	stateUsed := sizeOK && haveState && parts[1] == "1"
	x.loadedStale = stateUsed && x.staleState
	if opt.StateInitFile != "" && !stateUsed && failKind == "" {
		b, _ := os.ReadFile(opt.StateInitFile)
		calls, _ := x.st.counters()
		x.preloadWant = calls + strings.Count(c10Bits(b, len(x.idx.Chunks)), "1")
	}
	// the preload workers are held at the yield point until NewSparseFile has returned, so that the state it
	// writes at the end is the blank one in every run (otherwise it may already contain the first preloaded chunks)
	x.bootHold(true)
	err := x.start(opt)
	x.bootHold(false)
	if failKind != "" && !stateUsed {
		if err == nil {
			x.fail(tok, "sparse/startup-accepts-bad-init-state", "NewSparseFile succeeded although the init state file is "+map[string]string{"m": "missing", "l": "of the wrong length"}[failKind])
		}
		x.down = true // there is no loader until the next start
		return nil
	}
	if err != nil {
		return fmt.Errorf("NewSparseFile: %v", err)
	}
	return nil
}

// wait for the preload workers: every set bit costs exactly one GetChunk; then the written ranges settle
func (x *c10Run) waitPreload() {
	if x.preloadWant < 0 {
		return
	}
	deadline := time.Now().Add(1500 * time.Millisecond)
	for time.Now().Before(deadline) {
		if calls, _ := x.st.counters(); calls >= x.preloadWant {
			break
		}
		time.Sleep(200 * time.Microsecond)
	}
	// the workers still have to WriteAt and Set: a WriteState round-trip would change the state file, so wait for
	// the file content to stop changing instead
	var last []byte
	stable := 0
	for i := 0; i < 400 && stable < 3; i++ {
		b, _ := os.ReadFile(x.cache)
		if bytes.Equal(b, last) {
			stable++
		} else {
			stable = 0
			last = b
		}
		time.Sleep(500 * time.Microsecond)
	}
	x.preloadWant = -1
}

func c10Run1(a vh.Args, c *c10Case) (obs string, x *c10Run, err error) {
	c09SetDigest(c.Digest)
	cc := &c09Case{Digest: c.Digest, Max: c.Max, BlobHex: c.BlobHex, Sizes: c.Sizes, Missing: c.Missing, Faults: c.Faults}
	idx, st, blob, _, _ := c09Build(cc)
	dir, err := os.MkdirTemp(a.Work, "c10")
	if err != nil {
		return "", nil, err
	}
	defer os.RemoveAll(dir)
	x = &c10Run{c: c, idx: idx, st: st, blob: blob, dir: dir, cache: filepath.Join(dir, "cache"), state: filepath.Join(dir, "state"),
		handles: map[int]*desync.SparseFileHandle{}, queue: map[int][]c10Req{}, running: map[int]chan struct{}{}, abandoned: map[int]bool{}, failTok: -1, preloadWant: -1}
	defer desync.VerifSetYieldHook(nil)
	defer x.closeHandles()
	var armed bool
	var hookMu sync.Mutex
	var boot chan struct{}
	x.bootHold = func(on bool) {
		hookMu.Lock()
		defer hookMu.Unlock()
		if on {
			boot = make(chan struct{})
		} else if boot != nil {
			close(boot)
			boot = nil
		}
	}
	desync.VerifSetYieldHook(func(site string) {
		if site != "sparse.written" {
			return
		}
		hookMu.Lock()
		if boot != nil {
			ch := boot
			hookMu.Unlock()
			<-ch
			return
		}
		if !armed {
			hookMu.Unlock()
			return
		}
		armed = false
		ch := make(chan struct{})
		x.parked = ch
		hookMu.Unlock()
		<-ch
	})
	var runErr error
	p, hung := c09Guarded(func() {
		if runErr = x.start(desync.SparseFileOptions{StateSaveFile: x.state}); runErr != nil {
			return
		}
		for ti, t := range c.Script {
			switch {
			case t[0] == 'X' || t[0] == 'Y':
				// a restart is a kill: a goroutine parked at the yield point never continues, one blocked behind it neither
				hookMu.Lock()
				armed = false
				x.parked = nil
				hookMu.Unlock()
				for k, ch := range x.running {
					select {
					case <-ch:
					case <-time.After(50 * time.Millisecond):
						x.abandoned[k] = true
					}
					delete(x.running, k)
				}
				if runErr = x.restart(ti, t); runErr != nil {
					return
				}
				continue
			case t == "DA":
				x.waitPreload()
				continue
			case t == "K": // somebody unlinks the cache file under the running loader; every goroutine already has its handle
				if !x.crashed && !x.down {
					for k := 0; k < 4; k++ {
						x.open(k)
					}
					os.Remove(x.cache)
					x.unlinked = true
				}
				continue
			}
			x.mu.Lock()
			crashed := x.crashed || x.down
			x.mu.Unlock()
			if crashed {
				continue
			}
			k, _ := strconv.Atoi(strings.SplitN(t[1:], ":", 2)[0])
			switch t[0] {
			case 'Q':
				f := strings.Split(t, ":")
				x.mu.Lock()
				if f[1] == "S" {
					x.queue[k] = append(x.queue[k], c10Req{kind: "S"})
				} else {
					off, _ := strconv.ParseInt(f[2], 10, 64)
					ln, _ := strconv.Atoi(f[3])
					x.queue[k] = append(x.queue[k], c10Req{kind: "R", off: off, ln: ln})
				}
				x.mu.Unlock()
			case 'U': // run to the yield point (or to completion)
				hookMu.Lock()
				armed = true
				hookMu.Unlock()
				ch := make(chan struct{})
				x.running[k] = ch
				go func(ti, k int) { defer close(ch); x.runQueue(ti, k) }(ti, k)
				for waited := 0; ; waited++ {
					hookMu.Lock()
					pk := x.parked != nil
					hookMu.Unlock()
					done := false
					select {
					case <-ch:
						done = true
					default:
					}
					if pk || done || waited > 50000 {
						break
					}
					time.Sleep(100 * time.Microsecond)
				}
				hookMu.Lock()
				armed = false
				hookMu.Unlock()
			case 'G': // run until it is inside its next GetChunk and hold it there (gated store)
				x.st.mu.Lock()
				x.st.gateArmed, x.st.gateHit, x.st.gateCh = true, make(chan struct{}), make(chan struct{})
				hit := x.st.gateHit
				x.st.mu.Unlock()
				ch := make(chan struct{})
				x.running[k] = ch
				go func(ti, k int) { defer close(ch); x.runQueue(ti, k) }(ti, k)
				select {
				case <-hit:
					x.gated = k + 1
				case <-ch: // finished without asking the store
					x.st.mu.Lock()
					x.st.gateArmed = false
					x.st.mu.Unlock()
				}
			case 'B': // background; give it time to reach a chunk mutex
				ch := make(chan struct{})
				x.running[k] = ch
				go func(ti, k int) { defer close(ch); x.runQueue(ti, k) }(ti, k)
				time.Sleep(3 * time.Millisecond)
			case 'D':
				if ch, ok := x.running[k]; ok {
					if x.gated == k+1 {
						close(x.st.gateCh)
						x.gated = 0
					}
					hookMu.Lock()
					if x.parked != nil {
						close(x.parked)
						x.parked = nil
					}
					hookMu.Unlock()
					<-ch
					delete(x.running, k)
				}
				x.runQueue(ti, k)
			}
		}
		if x.gated != 0 {
			close(x.st.gateCh)
			x.gated = 0
		}
		hookMu.Lock()
		if x.parked != nil {
			close(x.parked)
			x.parked = nil
		}
		hookMu.Unlock()
		for k, ch := range x.running {
			<-ch
			delete(x.running, k)
		}
	})
	if hung {
		x.hung = true
		x.fail(len(c.Script)-1, "hang", "the script did not finish within 10s (deadlock or spin)")
		return "", x, nil
	}
	if p != nil {
		x.fail(0, "panic", fmt.Sprintf("panic outside ReadAt: %v", p))
	}
	if runErr != nil {
		return "", x, runErr
	}
	sort.Strings(x.log)
	lg := "-"
	if len(x.log) > 0 {
		lg = strings.Join(x.log, ",")
	}
	calls, _ := st.counters()
	saved := "none"
	if b, err := os.ReadFile(x.state); err == nil {
		saved = c10Bits(b, len(idx.Chunks))
	}
	file, _ := os.ReadFile(x.cache)
	if x.unlinked {
		file = []byte("unlinked")
	}
	cr := 0
	if x.crashed {
		cr = 1
	}
	return fmt.Sprintf("%s;calls=%d;saved=%s;file=%s;crashed=%d", lg, calls, saved, vh.Hex(file), cr), x, nil
}

// project the oracle's answer on the observables the implementation exposes
func c10Project(ans string) string {
	var keep []string
	for _, f := range strings.Split(ans, ";") {
		if strings.HasPrefix(f, "done=") || strings.HasPrefix(f, "stale=") || strings.HasPrefix(f, "ids=") {
			continue
		}
		keep = append(keep, f)
	}
	return strings.Join(keep, ";")
}

func c10Check(a vh.Args, o *vh.Oracle, r *vh.Result, c *c10Case) error {
	obs, x, err := c10Run1(a, c)
	if err != nil {
		if x != nil && strings.HasPrefix(err.Error(), "NewSparseFile:") {
			// start-up refused the files the earlier incarnations (and the scripted environment) left behind: the
			// model always starts; keep going with the other cases
			r.Count("startup-error|"+strings.Join(c.Script, ","), true)
			r.Fail("corr", "corr:C10/startup-error", err.Error(), c)
			return nil
		}
		return err
	}
	c.Got = obs
	r.Count(fmt.Sprintf("%s|%s|%v|%v|%s", c.Kind, c.BlobHex, c.Faults, c.Missing, strings.Join(c.Script, ",")), len(c.Script) > 2)
	r.Dist("kind:" + c.Kind)
	r.Dist("shape:" + c.Shape)
	r.Dist("chunks:" + bucket(len(c.Sizes)))
	r.Dist("tokens:" + bucket(len(c.Script)))
	for _, t := range c.Script {
		switch {
		case t == "K" || t == "DA":
		case t[0] == 'X':
			r.Dist("restart:" + t[2:])
		case t[0] == 'Y':
			r.Dist("failed-startup:" + t[2:])
		case t == "K":
			r.Dist("op:cache-unlinked")
		case strings.HasSuffix(t, ":S"):
			r.Dist("op:writestate")
		case t[0] == 'Q':
			r.Dist("op:readat")
		case t[0] == 'U':
			r.Dist("op:park-at-yield")
		case t[0] == 'B':
			r.Dist("op:background-reader")
		case t[0] == 'G':
			r.Dist("op:held-in-getchunk")
		}
	}
	r.Sample(map[string]interface{}{"kind": c.Kind, "shape": c.Shape, "chunks": len(c.Sizes), "script": c09Tail(strings.Join(c.Script, ","), 120), "impl_tail": c09Tail(obs, 80)})
	if x.failTok >= 0 {
		c.FailTok = x.failTok
		sc := c10Shrink(a, c, x.cls)
		r.Fail("predicate", x.cls, x.what, sc)
		if x.hung {
			return errC09Hang
		}
		return nil
	}
	if o != nil && c.Digest == "sha256" {
		cc := &c09Case{Digest: c.Digest, Max: c.Max, BlobHex: c.BlobHex, Sizes: c.Sizes, Missing: c.Missing, Faults: c.Faults}
		_, _, _, rows, tab := c09Build(cc)
		ans, err := o.Call("c10.run", strconv.Itoa(c.Max), rows, tab, c09FaultArg(cc), strings.ReplaceAll(c10OracleScript(c.Script), "B", "D"))
		if err != nil {
			return err
		}
		c.Model = ans
		r.Corr()
		pa := c10Project(ans)
		if strings.Contains(obs, ";file="+vh.Hex([]byte("unlinked"))+";") { // the path is gone: the content cannot be read back
			pa = regexp.MustCompile(`;file=[0-9a-f-]+;`).ReplaceAllString(pa, ";file="+vh.Hex([]byte("unlinked"))+";")
		}
		if strings.HasPrefix(c.Kind, "mount") {
			pa = c10EIO.ReplaceAllString(pa, "=E:eio")
		}
		if pa != obs {
			r.Fail("corr", "corr:C10/script", fmt.Sprintf("model and implementation differ: %s", c10Diff(pa, obs)), c)
		}
	}
	return nil
}

var c10EIO = regexp.MustCompile(`=E:[a-z0-9-]+`)

// c10OracleScript translates the script for the model: a start-up that fails late (Y:<cache>:l) is the label
// LFailedStart; one that fails early (Y:<cache>:m) has changed nothing but what the environment did to the cache file,
// which the next start meets instead: it is folded into that start's cache mode.  Nothing runs between a failed
// start-up and the next start.
func c10OracleScript(script []string) string {
	var out []string
	down, pending := false, ""
	for _, t := range script {
		switch {
		case t[0] == 'Y':
			p := strings.Split(t, ":")
			down = true
			if p[2] == "l" {
				out = append(out, "Y:"+p[1])
				pending = ""
			} else if p[1] != "K" {
				pending = p[1]
			}
		case t[0] == 'X':
			p := strings.Split(t, ":")
			if pending != "" && p[2] == "K" {
				p[2] = pending
			}
			pending, down = "", false
			out = append(out, strings.Join(p, ":"))
		case down:
		default:
			out = append(out, t)
		}
	}
	return strings.Join(out, ",")
}

func c10Diff(m, g string) string {
	ms, gs := strings.Split(m, ";"), strings.Split(g, ";")
	for i := 0; i < len(ms) && i < len(gs); i++ {
		if ms[i] != gs[i] {
			if i == 0 {
				return "log: " + c09FirstDiff(ms[i], gs[i])
			}
			return fmt.Sprintf("model %s, implementation %s", c09Tail(ms[i], 100), c09Tail(gs[i], 100))
		}
	}
	return "different number of fields"
}

// shrink: cut the script after the failing token, then drop earlier tokens while the same class still fails
func c10Shrink(a vh.Args, c *c10Case, cls string) *c10Case {
	best := *c
	if cls == "hang" {
		return &best
	}
	if c.FailTok+1 < len(best.Script) {
		best.Script = append([]string{}, best.Script[:c.FailTok+1]...)
	}
	try := func(s []string) bool {
		cc := best
		cc.Script = s
		_, x, err := c10Run1(a, &cc)
		return err == nil && x != nil && !x.hung && x.failTok >= 0 && x.cls == cls
	}
	for i := 0; i < len(best.Script)-1 && len(best.Script) > 1 && len(best.Script) < 80; {
		s := append(append([]string{}, best.Script[:i]...), best.Script[i+1:]...)
		if try(s) {
			best.Script = s
		} else {
			i++
		}
	}
	if obs, x, err := c10Run1(a, &best); err == nil && x != nil {
		best.Got, best.FailTok = obs, x.failTok
	}
	return &best
}

// ---------- generators ----------

func c10ReadTok(rng *vh.Rand, k int, sizes []int, max int) string {
	bs := c09Boundaries(sizes)
	L := bs[len(bs)-1]
	off := c09Target(rng, bs, L)
	if off < 0 && !rng.Chance(1, 6) {
		off = 0
	}
	ln := c09ReadLen(rng, sizes, max, L)
	if ln == 0 && !rng.Chance(1, 4) { // zero-length reads are rare
		ln = 1 + rng.Intn(max)
	}
	if ln < 0 {
		ln = 1
	}
	return fmt.Sprintf("Q%d:R:%d:%d", k, off, ln)
}

func c10RestartTok(rng *vh.Rand, L int) string {
	st := 1
	if rng.Chance(1, 4) {
		st = 0
		if rng.Chance(1, 3) {
			st = 2 // foreign state file of the wrong length
		}
	}
	cache := "K"
	switch rng.Intn(6) {
	case 0:
		cache = "A"
	case 1:
		cache = fmt.Sprintf("R%d", rng.Intn(L+3))
	}
	pre := 0
	if st == 1 && rng.Chance(1, 2) {
		pre = 1
	}
	return fmt.Sprintf("X:%d:%s:%d", st, cache, pre)
}

func c10GenSeq(rng *vh.Rand, c *c10Case, n int) {
	L := 0
	for _, s := range c.Sizes {
		L += s
	}
	for i := 0; i < n; i++ {
		k := rng.Intn(4)
		switch x := rng.Intn(20); {
		case x < 14:
			c.Script = append(c.Script, c10ReadTok(rng, k, c.Sizes, c.Max), fmt.Sprintf("D%d", k))
		case x < 16:
			c.Script = append(c.Script, fmt.Sprintf("Q%d:S", k), fmt.Sprintf("D%d", k))
		default:
			// a clean exit writes the state (mount-sparse Close); a kill does not
			if !rng.Chance(1, 5) {
				c.Script = append(c.Script, "Q0:S", "D0")
			}
			c.Script = append(c.Script, c10RestartTok(rng, L), "DA")
		}
	}
}

func c10GenConc(rng *vh.Rand, c *c10Case) {
	L := 0
	for _, s := range c.Sizes {
		L += s
	}
	for i := 0; i < rng.Intn(4); i++ {
		c.Script = append(c.Script, c10ReadTok(rng, 2, c.Sizes, c.Max), "D2")
	}
	c.Script = append(c.Script, c10ReadTok(rng, 0, c.Sizes, c.Max), "U0")
	switch rng.Intn(3) {
	case 0:
		c.Script = append(c.Script, "Q1:S", "D1")
	case 1:
		c.Script = append(c.Script, c10ReadTok(rng, 1, c.Sizes, c.Max), "B1")
	default:
		c.Script = append(c.Script, "Q3:S", "D3", c10ReadTok(rng, 1, c.Sizes, c.Max), "B1")
	}
	if rng.Chance(1, 3) { // killed while a reader sits between WriteAt and done.Set
		c.Script = append(c.Script, "X:1:K:0", "DA")
	} else {
		c.Script = append(c.Script, "D0", "D1")
		if rng.Bool() {
			c.Script = append(c.Script, "X:1:K:0", "DA")
		}
	}
	for i := 0; i < 1+rng.Intn(4); i++ {
		c.Script = append(c.Script, c10ReadTok(rng, 2, c.Sizes, c.Max), "D2")
	}
}

// the state file outlives a lost cache file: populate + save, lose the cache, start (state ignored: size mismatch),
// get killed before the state is rewritten, start again on the now full-size blank cache with the old state
func c10GenStale(rng *vh.Rand, c *c10Case) {
	L := 0
	for _, s := range c.Sizes {
		L += s
	}
	for i := 0; i < 1+rng.Intn(5); i++ {
		c.Script = append(c.Script, c10ReadTok(rng, 0, c.Sizes, c.Max), "D0")
	}
	c.Script = append(c.Script, fmt.Sprintf("Q0:R:0:%d", L), "D0", "Q0:S", "D0")
	lose := "A"
	if rng.Bool() {
		lose = fmt.Sprintf("R%d", rng.Intn(L+1))
	}
	if rng.Bool() {
		// the run after the loss pre-loads from the state file (which is also the save file) but the store is down:
		// every pre-load fetch fails (errors are dropped) and the run dies without saving
		nonNull, off := 0, 0
		blob := vh.UnHex(c.BlobHex)
		for _, sz := range c.Sizes {
			if !(sz == c.Max && bytes.Equal(blob[off:off+sz], make([]byte, sz))) {
				nonNull++
			}
			off += sz
		}
		for k := 0; k < nonNull; k++ { // calls 0..nonNull-1 populated the cache; the next nonNull calls are the pre-load
			c.Faults = append(c.Faults, c09Fault{K: nonNull + k, Code: 2})
		}
		c.Script = append(c.Script, "X:1:"+lose+":1", "DA", "X:1:K:0", "DA", fmt.Sprintf("Q2:R:0:%d", L), "D2")
		return
	}
	c.Script = append(c.Script, "X:1:"+lose+":0", "DA")
	for i := 0; i < rng.Intn(3); i++ {
		c.Script = append(c.Script, c10ReadTok(rng, 1, c.Sizes, c.Max), "D1")
	}
	c.Script = append(c.Script, "X:1:K:0", "DA", fmt.Sprintf("Q2:R:0:%d", L), "D2")
}

// a load fails AFTER the fetch (the object cannot be decoded), then the same range is read again: by the same
// goroutine, by another one, after a WriteState + restart on the same files
func c10GenReread(rng *vh.Rand, c *c10Case) {
	tok := c10ReadTok(rng, 0, c.Sizes, c.Max)
	for k := 0; k < 1+rng.Intn(3); k++ {
		c.Faults = append(c.Faults, c09Fault{K: rng.Intn(4), Code: []int{3, 3, 2}[rng.Intn(3)]})
	}
	c.Script = append(c.Script, tok, "D0", tok, "D0", strings.Replace(tok, "Q0", "Q1", 1), "D1")
	if rng.Bool() {
		c.Script = append(c.Script, "Q0:S", "D0", "X:1:K:0", "DA", strings.Replace(tok, "Q0", "Q2", 1), "D2")
	}
	c.Script = append(c.Script, tok, "D0")
}

// a start-up that fails in between: populate + save; the cache file is lost or resized; the next start-up returns an
// error (its init state file is missing, or is not for this index); the start after that finds state + cache
func c10GenFailedStart(rng *vh.Rand, c *c10Case) {
	L := 0
	for _, s := range c.Sizes {
		L += s
	}
	for i := 0; i < rng.Intn(4); i++ {
		c.Script = append(c.Script, c10ReadTok(rng, 0, c.Sizes, c.Max), "D0")
	}
	c.Script = append(c.Script, fmt.Sprintf("Q0:R:0:%d", L), "D0", "Q0:S", "D0")
	lose := "A"
	if rng.Bool() {
		k := rng.Intn(L + 3)
		if k == L {
			k = L + 1
		}
		lose = fmt.Sprintf("R%d", k)
	}
	c.Script = append(c.Script, "Y:"+lose+":"+[]string{"m", "l"}[rng.Intn(2)])
	if rng.Bool() { // nothing is served by a loader that failed to start
		c.Script = append(c.Script, c10ReadTok(rng, 1, c.Sizes, c.Max), "D1")
	}
	c.Script = append(c.Script, []string{"X:1:K:0", "X:1:K:1", "X:1:A:0"}[rng.Intn(3)], "DA", fmt.Sprintf("Q2:R:0:%d", L), "D2")
}

// pre-load from an init state file whose bits cover null chunks (all ones, or a random set with at least one null chunk),
// with as many real chunks left unloaded (not listed, or their pre-load fails transiently) as null chunks are pre-loaded;
// then everything is read
func c10Perm(rng *vh.Rand, n int) []int {
	p := make([]int, n)
	for i := range p {
		p[i] = i
	}
	for i := n - 1; i > 0; i-- {
		j := rng.Intn(i + 1)
		p[i], p[j] = p[j], p[i]
	}
	return p
}

func c10GenPreloadNull(rng *vh.Rand, c *c10Case) bool {
	blob := vh.UnHex(c.BlobHex)
	var nulls, reals []int
	off := 0
	for i, sz := range c.Sizes {
		if sz == c.Max && bytes.Equal(blob[off:off+sz], make([]byte, sz)) {
			nulls = append(nulls, i)
		} else {
			reals = append(reals, i)
		}
		off += sz
	}
	if len(nulls) == 0 || len(reals) == 0 {
		return false
	}
	bits := make([]byte, len(c.Sizes))
	for i := range bits {
		bits[i] = '1'
	}
	k := 1 + rng.Intn(len(nulls)) // null chunks that are pre-loaded
	if k > len(reals) {
		k = len(reals)
	}
	for _, j := range c10Perm(rng, len(nulls))[k:] {
		bits[nulls[j]] = '0'
	}
	var failing []int
	for _, j := range c10Perm(rng, len(reals))[:k] { // real chunks that stay unloaded
		if rng.Bool() {
			bits[reals[j]] = '0'
		} else {
			failing = append(failing, reals[j])
		}
	}
	for _, i := range failing { // the pre-loader asks in index order: the call number is the rank among the set bits
		c.Faults = append(c.Faults, c09Fault{K: strings.Count(string(bits[:i]), "1"), Code: []int{2, 5, 3}[rng.Intn(3)]})
	}
	c.Script = append(c.Script, "X:1:A:I"+string(bits), "DA")
	if rng.Bool() {
		c.Script = append(c.Script, fmt.Sprintf("Q0:R:0:%d", off), "D0")
	} else {
		for _, i := range c10Perm(rng, len(c.Sizes)) {
			st := 0
			for _, sz := range c.Sizes[:i] {
				st += sz
			}
			c.Script = append(c.Script, fmt.Sprintf("Q%d:R:%d:%d", i%4, st, c.Sizes[i]), fmt.Sprintf("D%d", i%4))
		}
	}
	if rng.Bool() {
		c.Script = append(c.Script, "Q0:S", "D0", "X:1:K:0", "DA", fmt.Sprintf("Q2:R:0:%d", off), "D2")
	}
	return true
}

// the cache file is unlinked under the running loader: ranges already populated are still served from the open
// handles, a load cannot write (its read fails), nothing may be served from a file re-created at the path
func c10GenUnlink(rng *vh.Rand, c *c10Case) {
	L := 0
	for _, s := range c.Sizes {
		L += s
	}
	for i := 0; i < rng.Intn(4); i++ {
		c.Script = append(c.Script, c10ReadTok(rng, rng.Intn(4), c.Sizes, c.Max))
		c.Script = append(c.Script, "D"+c.Script[len(c.Script)-1][1:2])
	}
	c.Script = append(c.Script, "K")
	for i := 0; i < 2+rng.Intn(5); i++ {
		c.Script = append(c.Script, c10ReadTok(rng, rng.Intn(4), c.Sizes, c.Max))
		c.Script = append(c.Script, "D"+c.Script[len(c.Script)-1][1:2])
		if rng.Chance(1, 3) { // the same range again
			c.Script = append(c.Script, c.Script[len(c.Script)-2], c.Script[len(c.Script)-1])
		}
	}
	if rng.Bool() {
		c.Script = append(c.Script, "Q0:S", "D0")
	}
	if rng.Bool() {
		c.Script = append(c.Script, []string{"X:1:K:0", "X:1:A:1", "X:0:K:0"}[rng.Intn(3)], "DA", fmt.Sprintf("Q2:R:0:%d", L), "D2")
	}
}

// two readers of the same unloaded chunk: the first is held inside GetChunk (gated store) while the second arrives and
// waits for the chunk's mutex; then the first one's fetch fails.  The waiter must load the chunk itself (or fail).
func c10GenGate(rng *vh.Rand, c *c10Case) {
	tok := c10ReadTok(rng, 0, c.Sizes, c.Max)
	c.Faults = []c09Fault{{K: 0, Code: []int{2, 2, 5, 1, 3}[rng.Intn(5)]}}
	tokB := strings.Replace(tok, "Q0", "Q1", 1)
	if rng.Chance(1, 3) {
		tokB = c10ReadTok(rng, 1, c.Sizes, c.Max)
	}
	c.Script = append(c.Script, tok, "G0", tokB, "B1", "D0", "D1")
	if rng.Bool() {
		c.Script = append(c.Script, "Q2:S", "D2", "X:1:K:0", "DA")
	}
	c.Script = append(c.Script, strings.Replace(tok, "Q0", "Q3", 1), "D3")
}

func runC10(a vh.Args, o *vh.Oracle, r *vh.Result) error {
	desync.Log.SetOutput(io.Discard) // the mount node logs every failed read
	r.Rule = "case = (blob built from explicit chunks incl. runs of null chunks, short zero chunks, repeated chunks, single chunk, empty blob; in-memory store failing at chosen call numbers or lacking a chunk; a script of ReadAt on goroutines 0-3 (offsets at chunk boundaries +-1, past the end, zero-length), WriteState, restarts with {state readable or not} x {cache kept, absent, resized} x {preload}, readers parked at the sparse.written yield point with a concurrent WriteState / reader / kill); non-trivial = more than two tokens; distinct by (blob, faults, script)"
	if a.Replay != "" {
		var c c10Case
		if err := readJSON(a.Replay, &c); err != nil {
			return err
		}
		return c10Check(a, o, r, &c)
	}
	rng := vh.NewRand(a.Seed)
	nSeq, nConc := 220, 80
	if a.Tier == "thorough" {
		nSeq, nConc = 3000, 1000
	}
	mk := func(kind string) *c10Case {
		blob, sizes, max, shape := c09Blob(rng)
		d := "sha256"
		if rng.Chance(1, 6) {
			d = "sha512-256"
		}
		return &c10Case{Kind: kind, Digest: d, Max: max, BlobHex: vh.Hex(blob), Sizes: sizes, Shape: shape}
	}
	faults := func(c *c10Case, expect int) {
		cc := &c09Case{Sizes: c.Sizes}
		c09GenFaults(rng, cc, expect)
		c.Faults, c.Missing = cc.Faults, cc.Missing
		for i := range c.Faults {
			if c.Faults[i].Code == 4 && !rng.Chance(1, 4) { // the store's error is mostly a wrapped io.EOF, rarely io.EOF itself
				c.Faults[i].Code = 5
			}
			if c.Faults[i].Code != 4 && rng.Chance(1, 3) { // some failures happen after the fetch: the object cannot be decoded
				c.Faults[i].Code = 3
			}
		}
	}
	for i := 0; i < nSeq; i++ {
		c := mk("seq")
		if i%4 == 3 {
			c.Kind = "mount"
		}
		c10GenSeq(rng, c, 1+rng.Intn([]int{4, 12, 40}[rng.Intn(3)]))
		faults(c, len(c.Script)/3)
		if err := c10Check(a, o, r, c); err != nil {
			if err == errC09Hang {
				r.Note("run aborted after a hang")
				return nil
			}
			return err
		}
	}
	for i := 0; i < nConc/2; i++ {
		c := mk("gate")
		if len(c.Sizes) == 0 {
			continue
		}
		c10GenGate(rng, c)
		if err := c10Check(a, o, r, c); err != nil {
			if err == errC09Hang {
				r.Note("run aborted after a hang")
				return nil
			}
			return err
		}
	}
	for i, made := 0, 0; made < nConc/3 && i < 40*nConc; i++ {
		c := mk("preload-null")
		if !c10GenPreloadNull(rng, c) {
			continue
		}
		made++
		if err := c10Check(a, o, r, c); err != nil {
			return err
		}
	}
	for i := 0; i < nConc/3; i++ {
		c := mk("unlink")
		if len(c.Sizes) == 0 {
			continue
		}
		if i%3 == 0 {
			c.Kind = "mount-unlink"
		}
		c10GenUnlink(rng, c)
		if err := c10Check(a, o, r, c); err != nil {
			return err
		}
	}
	for i := 0; i < nConc/5; i++ {
		c := mk("failed-start")
		if len(c.Sizes) == 0 {
			continue
		}
		c10GenFailedStart(rng, c)
		if err := c10Check(a, o, r, c); err != nil {
			return err
		}
	}
	for i := 0; i < nConc/4; i++ {
		c := mk("reread")
		if len(c.Sizes) == 0 {
			continue
		}
		c10GenReread(rng, c)
		if err := c10Check(a, o, r, c); err != nil {
			return err
		}
	}
	for i := 0; i < nConc/5; i++ {
		c := mk("stale")
		if len(c.Sizes) == 0 {
			continue
		}
		c10GenStale(rng, c)
		if err := c10Check(a, o, r, c); err != nil {
			return err
		}
	}
	for i := 0; i < nConc; i++ {
		c := mk("conc")
		if len(c.Sizes) == 0 {
			continue
		}
		c10GenConc(rng, c)
		if rng.Chance(1, 3) && len(c.Sizes) > 0 { // a missing chunk fails the same way under every interleaving
			c.Missing = []int{rng.Intn(len(c.Sizes))}
		}
		if err := c10Check(a, o, r, c); err != nil {
			if err == errC09Hang {
				r.Note("run aborted after a hang")
				return nil
			}
			return err
		}
	}
	return nil
}

var _ = errors.New
