package main

// C15 — HTTP servers enforce authorization, read-only mode and path confinement.
//
// Requests are written as raw bytes on loopback sockets (no client-side path
// normalisation) to httptest servers around desync.NewHTTPHandler /
// desync.NewHTTPIndexHandler (and, in the thorough tier, to `desync chunk-server` /
// `index-server`).  For every request the harness takes a snapshot of the served
// directory and of sentinel files beside it before and after, evaluates the property
// predicate (Go code below, independent of the Coq model) and compares status, body
// and directory effects with the extracted model (chunk_handle / index_handle).

import (
	"bufio"
	"bytes"
	"crypto/sha256"
	"encoding/hex"
	"fmt"
	"net"
	"net/http"
	"net/http/httptest"
	"net/url"
	"os"
	"path/filepath"
	"regexp"
	"sort"
	"strconv"
	"strings"
	"sync"
	"time"

	"github.com/folbricht/desync"

	"vh/internal/vh"
)

func init() { props["C15"] = runC15 }

type c15Cfg struct {
	Kind              string `json:"kind"` // chunk | index
	Auth              string `json:"auth"`
	Writable          bool   `json:"writable"`
	SkipVerifyWrite   bool   `json:"skip_verify_write"`
	Compressed        bool   `json:"compressed"`         // handler converters
	StoreUncompressed bool   `json:"store_uncompressed"` // upstream LocalStore option
	StoreWritable     bool   `json:"store_writable"`     // upstream implements WriteStore / IndexWriteStore
	// how a `desync chunk-server` / `index-server` process is given its options (plumbing cases):
	// Auth above is then the value the documentation promises (flag if given, else environment)
	Plumbing       bool   `json:"cli_plumbing,omitempty"`
	AuthFlag       string `json:"authorization_flag,omitempty"`
	AuthEnv        string `json:"desync_http_auth_env,omitempty"`
	SkipVerifyRead string `json:"skip_verify_read,omitempty"` // "default" (flag not given: true) | "true" | "false"
}

type c15Case struct {
	Cfg       c15Cfg `json:"cfg"`
	Level     string `json:"level"` // handler | cli
	StateSeed uint64 `json:"state_seed"`
	Method    string `json:"method"`
	Target    string `json:"target"` // raw request-target
	Headers   []string `json:"headers"`
	BodyHex   string `json:"body_hex"`
	Desc      string `json:"desc"`
	History   []string `json:"history_before,omitempty"` // earlier requests answered by the same server process
	// observations
	Reached     bool   `json:"handler_reached"`
	HandlerPath string `json:"handler_path_hex,omitempty"`
	HandlerAuth string `json:"handler_auth,omitempty"`
	Status      int    `json:"status"`
	RespBodyHex string `json:"resp_body_hex,omitempty"`
	Changed     []string `json:"changed,omitempty"`
	Model       string `json:"model,omitempty"`
}

// ---------- served state ----------

type c15State struct {
	chunks   [][]byte // plain data of the chunks in the store
	outside  []byte   // plain data of a chunk that exists only outside the store
	newChunk []byte   // plain data of a chunk that is nowhere yet
	indexes  map[string][]byte
	secret   []byte // an index file outside the store
}

func c15Index(r *vh.Rand, n int) []byte {
	idx := desync.Index{Index: desync.FormatIndex{FeatureFlags: desync.CaFormatExcludeNoDump, ChunkSizeMin: 16, ChunkSizeAvg: 64, ChunkSizeMax: 256}}
	if _, ok := desync.Digest.(desync.SHA512256); ok {
		idx.Index.FeatureFlags |= desync.CaFormatSHA512256
	}
	var off uint64
	for i := 0; i < n; i++ {
		var id desync.ChunkID
		copy(id[:], r.Bytes(32))
		sz := uint64(16 + r.Intn(200))
		idx.Chunks = append(idx.Chunks, desync.IndexChunk{Start: off, Size: sz, ID: id})
		off += sz
	}
	var b bytes.Buffer
	idx.WriteTo(&b)
	return b.Bytes()
}

func c15MakeState(seed uint64) *c15State {
	r := vh.NewRand(seed ^ 0xC15)
	st := &c15State{indexes: map[string][]byte{}}
	st.chunks = [][]byte{r.Bytes(1), bytes.Repeat([]byte("desync "), 9), r.Bytes(700)}
	st.outside = append([]byte("outside-"), r.Bytes(40)...)
	st.newChunk = append([]byte("new-"), r.Bytes(90)...)
	st.indexes["a.caibx"] = c15Index(r, 3)
	st.indexes["b.caidx"] = c15Index(r, 0)
	st.indexes["garbage.caibx"] = []byte("this is not an index")
	st.secret = c15Index(r, 2)
	return st
}

func c15ID(data []byte) desync.ChunkID { return desync.Digest.Sum(data) }

func c15IDStr(data []byte) string { id := c15ID(data); return id.String() }

func c15Compress(b []byte) []byte {
	out, _ := desync.Compress(b)
	return out
}

func c15ChunkFile(dir string, data []byte, uncompressed bool) (string, []byte) {
	s := c15IDStr(data)
	if uncompressed {
		return filepath.Join(dir, s[:4], s), data
	}
	return filepath.Join(dir, s[:4], s+".cacnk"), c15Compress(data)
}

// build (or rebuild) root/: store/ with the base state, and sentinels beside it.
func c15Build(root string, cfg c15Cfg, st *c15State) error {
	os.RemoveAll(root)
	store := filepath.Join(root, "store")
	if err := os.MkdirAll(store, 0755); err != nil {
		return err
	}
	w := func(p string, b []byte) error {
		if err := os.MkdirAll(filepath.Dir(p), 0755); err != nil {
			return err
		}
		return os.WriteFile(p, b, 0644)
	}
	if err := w(filepath.Join(root, "sentinel.txt"), []byte("sentinel")); err != nil {
		return err
	}
	if cfg.Kind == "chunk" {
		for _, c := range st.chunks {
			p, b := c15ChunkFile(store, c, cfg.StoreUncompressed)
			if err := w(p, b); err != nil {
				return err
			}
		}
		// a chunk file whose content does not hash to its name
		bad := c15IDStr([]byte("the name of the corrupt chunk"))
		ext, content := ".cacnk", c15Compress([]byte("corrupt"))
		if cfg.StoreUncompressed {
			ext, content = "", []byte("corrupt")
		}
		if err := w(filepath.Join(store, bad[:4], bad+ext), content); err != nil {
			return err
		}
		// the same layout outside the store, in both formats
		for _, unc := range []bool{false, true} {
			p, b := c15ChunkFile(filepath.Join(root, "outside"), st.outside, unc)
			if err := w(p, b); err != nil {
				return err
			}
		}
		return nil
	}
	for n, b := range st.indexes {
		if err := w(filepath.Join(store, n), b); err != nil {
			return err
		}
	}
	if err := w(filepath.Join(store, "sub", "inner.caibx"), st.indexes["a.caibx"]); err != nil {
		return err
	}
	return w(filepath.Join(root, "secret.caibx"), st.secret)
}

// snapshot of every file and directory below root: rel path -> content ("\x00dir" for directories)
func c15Snapshot(root string) map[string]string {
	m := map[string]string{}
	filepath.Walk(root, func(p string, info os.FileInfo, err error) error {
		if err != nil || p == root {
			return nil
		}
		rel, _ := filepath.Rel(root, p)
		if info.IsDir() {
			m[rel+"/"] = "\x00dir"
			return nil
		}
		b, _ := os.ReadFile(p)
		m[rel] = string(b)
		return nil
	})
	return m
}

func c15Diff(a, b map[string]string) []string {
	var out []string
	for k, v := range a {
		if w, ok := b[k]; !ok || w != v {
			out = append(out, k)
		}
	}
	for k := range b {
		if _, ok := a[k]; !ok {
			out = append(out, k)
		}
	}
	sort.Strings(out)
	return out
}

// ---------- servers ----------

type roStore struct{ desync.Store }
type roIndexStore struct{ desync.IndexStore }

type c15Env struct {
	cfg   c15Cfg
	root  string
	state *c15State
	addr  string
	stop  func()

	mu      sync.Mutex
	reached bool
	path    string
	auth    string
}

func c15Handler(cfg c15Cfg, store string) (http.Handler, error) {
	if cfg.Kind == "chunk" {
		ls, err := desync.NewLocalStore(store, desync.StoreOptions{Uncompressed: cfg.StoreUncompressed})
		if err != nil {
			return nil, err
		}
		var s desync.Store = ls
		if !cfg.StoreWritable {
			s = roStore{ls}
		}
		var conv desync.Converters
		if cfg.Compressed {
			conv = desync.Converters{desync.Compressor{}}
		}
		return desync.NewHTTPHandler(s, cfg.Writable, cfg.SkipVerifyWrite, conv, cfg.Auth), nil
	}
	is, err := desync.NewLocalIndexStore(store)
	if err != nil {
		return nil, err
	}
	var s desync.IndexStore = is
	if !cfg.StoreWritable {
		s = roIndexStore{is}
	}
	return desync.NewHTTPIndexHandler(s, cfg.Writable, cfg.Auth), nil
}

func c15StartHandler(root string, cfg c15Cfg, st *c15State) (*c15Env, error) {
	e := &c15Env{cfg: cfg, root: root, state: st}
	if err := c15Build(root, cfg, st); err != nil {
		return nil, err
	}
	h, err := c15Handler(cfg, filepath.Join(root, "store"))
	if err != nil {
		return nil, err
	}
	srv := httptest.NewServer(http.HandlerFunc(func(w http.ResponseWriter, r *http.Request) {
		e.mu.Lock()
		e.reached, e.path, e.auth = true, r.URL.Path, r.Header.Get("Authorization")
		e.mu.Unlock()
		h.ServeHTTP(w, r)
	}))
	e.addr = strings.TrimPrefix(srv.URL, "http://")
	e.stop = srv.Close
	return e, nil
}

func c15Raw(method, target string, headers []string, body []byte) []byte {
	var b bytes.Buffer
	fmt.Fprintf(&b, "%s %s HTTP/1.1\r\nHost: vh\r\n", method, target)
	for _, h := range headers {
		b.WriteString(h + "\r\n")
	}
	if len(body) > 0 || method == "PUT" || method == "POST" {
		fmt.Fprintf(&b, "Content-Length: %d\r\n", len(body))
	}
	b.WriteString("Connection: close\r\n\r\n")
	b.Write(body)
	return b.Bytes()
}

// send raw bytes, read one response. status 0 = no parsable response.
func c15Send(addr string, raw []byte, method string) (int, []byte) {
	conn, err := net.DialTimeout("tcp", addr, 5*time.Second)
	if err != nil {
		return 0, nil
	}
	defer conn.Close()
	conn.SetDeadline(time.Now().Add(10 * time.Second))
	if _, err := conn.Write(raw); err != nil {
		return 0, nil
	}
	m := method
	if m != "HEAD" {
		m = "GET"
	}
	resp, err := http.ReadResponse(bufio.NewReader(conn), &http.Request{Method: m})
	if err != nil {
		return 0, nil
	}
	defer resp.Body.Close()
	var body bytes.Buffer
	body.ReadFrom(resp.Body)
	return resp.StatusCode, body.Bytes()
}

// ---------- what the request carries, read independently of the handler ----------

func c15CarriedAuth(headers []string) string {
	for _, h := range headers {
		i := strings.IndexByte(h, ':')
		if i < 0 {
			continue
		}
		if strings.EqualFold(strings.TrimSpace(h[:i]), "authorization") {
			return strings.Trim(h[i+1:], " \t")
		}
	}
	return ""
}

func c15DecodedPath(target string) (string, bool) {
	u, err := url.ParseRequestURI(target)
	if err != nil {
		return "", false
	}
	return u.Path, true
}

var c15Canon = map[bool]*regexp.Regexp{
	true:  regexp.MustCompile(`^/([0-9a-fA-F]{4})/([0-9a-fA-F]{64})\.cacnk$`),
	false: regexp.MustCompile(`^/([0-9a-fA-F]{4})/([0-9a-fA-F]{64})$`),
}

func c15Decode(b []byte, compressed bool) ([]byte, bool) {
	if !compressed {
		return b, true
	}
	out, err := desync.Decompress(nil, b)
	return out, err == nil
}

func c15Recode(b []byte) ([]byte, bool) {
	idx, err := desync.IndexFromReader(bytes.NewReader(b))
	if err != nil {
		return nil, false
	}
	var w bytes.Buffer
	if _, err := idx.WriteTo(&w); err != nil {
		return nil, false
	}
	return w.Bytes(), true
}

// ---------- the property predicate ----------

func c15Predicate(r *vh.Result, c *c15Case, pre, post map[string]string, status int, body []byte, reqBody []byte) {
	cfg := c.Cfg
	fail := func(class, what string) {
		r.Fail("predicate", class, fmt.Sprintf("%s server (%s level): %s; request %s %q headers %q -> %d", cfg.Kind, c.Level, what, c.Method, c.Target, c.Headers, status), c)
	}
	changed := c15Diff(pre, post)
	var inStore, outside []string
	for _, k := range changed {
		if strings.HasPrefix(k, "store/") {
			inStore = append(inStore, k)
		} else {
			outside = append(outside, k)
		}
	}
	if len(outside) > 0 {
		fail(cfg.Kind+"/outside-modified", fmt.Sprintf("files outside the served directory changed: %v", outside))
	}
	if (c.Level == "handler" && !c.Reached) || (c.Level == "cli" && c.Target == "*" && c.Method == "OPTIONS") {
		// answered by net/http itself (malformed request line, OPTIONS *): the handler was not involved
		if len(changed) > 0 {
			fail(cfg.Kind+"/effect-without-handler", fmt.Sprintf("directory changed %v although the handler was not called", changed))
		}
		return
	}
	carried := c15CarriedAuth(c.Headers)
	authBad := cfg.Auth != "" && carried != cfg.Auth
	if authBad {
		redirected := c.Level == "cli" && (status == 301 || status == 307 || status == 308) // ServeMux, before the handler
		if status != 401 && status != 0 && status != 400 && status != 431 && !redirected {
			fail(cfg.Kind+"/auth-bypass", fmt.Sprintf("request carrying Authorization %q (configured %q) was not refused", carried, cfg.Auth))
		}
		if len(changed) > 0 {
			fail(cfg.Kind+"/auth-bypass-write", fmt.Sprintf("unauthorized request changed %v", changed))
		}
		if status == 200 && len(body) > 0 {
			fail(cfg.Kind+"/auth-bypass-read", "unauthorized request got data")
		}
		return
	}
	if !cfg.Writable && len(inStore) > 0 {
		fail(cfg.Kind+"/readonly-write", fmt.Sprintf("read-only server changed %v", inStore))
	}
	if status >= 200 && status < 300 && c.Method != "GET" && c.Method != "HEAD" && c.Method != "PUT" {
		fail(cfg.Kind+"/method", "a method other than GET/HEAD/PUT succeeded")
	}
	if status >= 200 && status < 300 && c.Method == "PUT" && !cfg.Writable {
		fail(cfg.Kind+"/readonly-put-ok", "PUT answered 2xx on a read-only server")
	}
	p, ok := c15DecodedPath(c.Target)
	if cfg.Kind == "chunk" {
		var idLower, rel string
		canonical := false
		if ok {
			if m := c15Canon[cfg.Compressed].FindStringSubmatch(p); m != nil && strings.EqualFold(m[1], m[2][:4]) {
				canonical = true
				idLower = strings.ToLower(m[2])
				rel = "store/" + idLower[:4] + "/" + idLower
				if !cfg.StoreUncompressed {
					rel += ".cacnk"
				}
			}
		}
		if len(inStore) > 0 {
			if c.Method != "PUT" || !canonical {
				fail("chunk/write-noncanonical", fmt.Sprintf("store changed %v by a request that is not a PUT to a canonical chunk path", inStore))
			} else {
				for _, k := range inStore {
					if k != rel && k != "store/"+idLower[:4]+"/" {
						fail("chunk/write-wrong-name", fmt.Sprintf("PUT for %s changed %s", idLower, k))
					}
				}
				if !cfg.SkipVerifyWrite {
					data, ok := c15Decode([]byte(post[rel]), !cfg.StoreUncompressed)
					sum := c15ID(data)
					if !ok || hex.EncodeToString(sum[:]) != idLower {
						fail("chunk/put-unverified", "a chunk whose content does not hash to its ID was stored although verification was on")
					}
				}
			}
		}
		if status == 200 && (c.Method == "GET" || c.Method == "HEAD") {
			if !canonical {
				fail("chunk/read-noncanonical", "200 for a path that is not /<id[0:4]>/<id><ext>")
			} else if file, exists := pre[rel]; !exists {
				fail("chunk/read-absent", "200 for a chunk that is not in the store")
			} else if c.Method == "GET" {
				want, ok1 := c15Decode([]byte(file), !cfg.StoreUncompressed)
				got, ok2 := c15Decode(body, cfg.Compressed)
				if !ok1 || !ok2 || !bytes.Equal(want, got) {
					fail("chunk/read-wrong-data", "200 body is not the data of the requested chunk")
				}
			}
		}
		return
	}
	// index server: the only name that may be touched is the last path element
	name := ""
	if ok {
		parts := strings.Split(p, "/")
		for i := len(parts) - 1; i >= 0 && name == ""; i-- {
			name = parts[i]
		}
	}
	rel := "store/" + name
	if len(inStore) > 0 {
		want, okb := c15Recode(reqBody)
		if c.Method != "PUT" || name == "" || name == "." || name == ".." || len(inStore) != 1 || inStore[0] != rel {
			fail("index/write-wrong-name", fmt.Sprintf("store changed %v, expected only %s", inStore, rel))
		} else if !okb || post[rel] != string(want) {
			fail("index/write-wrong-data", "stored index is not the uploaded one")
		}
	}
	if status == 200 && (c.Method == "GET" || c.Method == "HEAD") {
		file, exists := pre[rel]
		_, isDir := pre[rel+"/"]
		special := name == "" || name == "." || name == ".."
		switch {
		case c.Method == "HEAD" && (isDir || special):
			// a directory name: nothing is read; truthfulness of HEAD is C14's subject
		case !exists || special:
			fail("index/read-outside", fmt.Sprintf("200 for %q which is not a file in the served directory", name))
		case c.Method == "GET":
			want, okw := c15Recode([]byte(file))
			if !okw || !bytes.Equal(want, body) {
				fail("index/read-wrong-data", "200 body is not the requested index")
			}
		}
	}
}

// ---------- model comparison ----------

func b01(b bool) string {
	if b {
		return "1"
	}
	return "0"
}

func c15ZTables(blobs ...[]byte) (string, string) {
	// close the set under compress / decompress (two rounds: what a server may re-encode and a
	// client decode again), then tabulate both functions on it
	set := map[string]bool{}
	var order []string
	add := func(x []byte) {
		if !set[string(x)] {
			set[string(x)] = true
			order = append(order, string(x))
		}
	}
	for _, x := range blobs {
		add(x)
	}
	for round := 0; round < 2; round++ {
		for _, x := range append([]string{}, order...) {
			add(c15Compress([]byte(x)))
			if d, err := desync.Decompress(nil, []byte(x)); err == nil && len(x) > 0 {
				add(d)
			}
		}
	}
	var zt, ct []string
	for _, x := range order {
		ct = append(ct, vh.Hex([]byte(x))+":"+vh.Hex(c15Compress([]byte(x))))
		if d, err := desync.Decompress(nil, []byte(x)); err == nil && len(x) > 0 {
			zt = append(zt, vh.Hex([]byte(x))+":"+vh.Hex(d))
		} else {
			zt = append(zt, vh.Hex([]byte(x))+":!")
		}
	}
	return strings.Join(zt, ","), strings.Join(ct, ",")
}

var c15ChunkRel = regexp.MustCompile(`^store/([0-9a-f]{4})/([0-9a-f]{64})(\.cacnk)?$`)

// chunk files of the store as the model's lstore (only names LocalStore can address)
func c15ModelFiles(snap map[string]string, storeUncompressed bool) (string, []string) {
	var out []string
	for k, v := range snap {
		m := c15ChunkRel.FindStringSubmatch(k)
		if m == nil || m[1] != m[2][:4] || (m[3] == "") != storeUncompressed {
			continue
		}
		out = append(out, m[2]+":"+vh.Hex([]byte(v)))
	}
	sort.Strings(out)
	if len(out) == 0 {
		return "-", out
	}
	return strings.Join(out, ","), out
}

func c15ModelDir(snap map[string]string) string {
	var out []string
	for k, v := range snap {
		if !strings.HasPrefix(k, "store/") {
			continue
		}
		n := strings.TrimPrefix(k, "store/")
		if strings.HasSuffix(n, "/") && strings.Count(n, "/") == 1 {
			out = append(out, vh.Hex([]byte(strings.TrimSuffix(n, "/")))+":D")
		} else if !strings.Contains(n, "/") {
			out = append(out, vh.Hex([]byte(n))+":F:"+vh.Hex([]byte(v)))
		}
	}
	sort.Strings(out)
	if len(out) == 0 {
		return "-"
	}
	return strings.Join(out, ",")
}

func c15Model(o *vh.Oracle, r *vh.Result, c *c15Case, hpath, hauth string, reqBody []byte, pre, post map[string]string, status int, body []byte) error {
	cfg := c.Cfg
	var ans string
	var err error
	var wantAfter string
	if cfg.Kind == "chunk" {
		files, list := c15ModelFiles(pre, cfg.StoreUncompressed)
		blobs := [][]byte{reqBody}
		for _, kv := range list {
			blobs = append(blobs, vh.UnHex(kv[65:]))
		}
		zt, ct := c15ZTables(blobs...)
		if cfg.Plumbing {
			// from the options as given on the command line / in the environment (Model/ServerCLI.v)
			ans, err = o.Call("c15.clichunk", vh.Hex([]byte(cfg.AuthFlag)), vh.Hex([]byte(cfg.AuthEnv)), b01(cfg.Writable), b01(cfg.SkipVerifyWrite),
				b01(cfg.SkipVerifyRead != "false"), b01(!cfg.Compressed), c.Method, vh.Hex([]byte(hpath)), vh.Hex([]byte(hauth)), vh.Hex(reqBody), files, zt, ct)
		} else {
			ans, err = o.Call("c15.chunk", vh.Hex([]byte(cfg.Auth)), b01(cfg.Writable), b01(cfg.SkipVerifyWrite), b01(cfg.Compressed),
				b01(cfg.StoreWritable), b01(cfg.StoreUncompressed), "0", c.Method, vh.Hex([]byte(hpath)), vh.Hex([]byte(hauth)), vh.Hex(reqBody), files, zt, ct)
		}
		wantAfter, _ = c15ModelFiles(post, cfg.StoreUncompressed)
	} else {
		var tab []string
		seen := map[string]bool{}
		add := func(b []byte) {
			if seen[string(b)] {
				return
			}
			seen[string(b)] = true
			if rc, ok := c15Recode(b); ok {
				tab = append(tab, vh.Hex(b)+":"+vh.Hex(rc))
			} else {
				tab = append(tab, vh.Hex(b)+":!")
			}
		}
		add(reqBody)
		for k, v := range pre {
			if strings.HasPrefix(k, "store/") && !strings.HasSuffix(k, "/") {
				add([]byte(v))
			}
		}
		sort.Strings(tab)
		if cfg.Plumbing {
			ans, err = o.Call("c15.cliindex", vh.Hex([]byte(cfg.AuthFlag)), vh.Hex([]byte(cfg.AuthEnv)), b01(cfg.Writable), c.Method,
				vh.Hex([]byte(hpath)), vh.Hex([]byte(hauth)), vh.Hex(reqBody), c15ModelDir(pre), strings.Join(tab, ","))
		} else {
			ans, err = o.Call("c15.index", vh.Hex([]byte(cfg.Auth)), b01(cfg.Writable), b01(cfg.StoreWritable), c.Method,
				vh.Hex([]byte(hpath)), vh.Hex([]byte(hauth)), vh.Hex(reqBody), c15ModelDir(pre), strings.Join(tab, ","))
		}
		wantAfter = c15ModelDir(post)
	}
	if err != nil {
		return err
	}
	c.Model = ans
	if len(c.Model) > 300 {
		c.Model = c.Model[:300] + "..."
	}
	f := strings.Split(ans, " ")
	if len(f) != 4 {
		return fmt.Errorf("oracle answer %q", ans)
	}
	r.Corr()
	r.Dist("action:" + strings.SplitN(f[0], ":", 2)[0])
	if f[1] != strconv.Itoa(status) {
		r.Fail("corr", "corr:C15/status", fmt.Sprintf("%s %s: model %s (%s), implementation %d", c.Method, c.Target, f[1], f[0], status), c)
	}
	if status == 200 && c.Method == "GET" && f[2] != vh.Hex(body) {
		r.Fail("corr", "corr:C15/body", fmt.Sprintf("%s %s: body differs from the model's", c.Method, c.Target), c)
	}
	if f[3] != wantAfter {
		r.Fail("corr", "corr:C15/effects", fmt.Sprintf("%s %s: served directory after the request differs from the model's store", c.Method, c.Target), c)
	}
	return nil
}

// ---------- one request ----------

func c15Do(a vh.Args, o *vh.Oracle, r *vh.Result, e *c15Env, c *c15Case) error {
	reqBody := vh.UnHex(c.BodyHex)
	pre := c15Snapshot(e.root)
	e.mu.Lock()
	e.reached, e.path, e.auth = false, "", ""
	e.mu.Unlock()
	status, body := c15Send(e.addr, c15Raw(c.Method, c.Target, c.Headers, reqBody), c.Method)
	post := c15Snapshot(e.root)
	e.mu.Lock()
	reached, hpath, hauth := e.reached, e.path, e.auth
	e.mu.Unlock()
	c.Status, c.Reached, c.HandlerPath, c.HandlerAuth = status, reached, vh.Hex([]byte(hpath)), hauth
	c.Changed = c15Diff(pre, post)
	if len(body) <= 64 {
		c.RespBodyHex = vh.Hex(body)
	}
	key := fmt.Sprintf("%s|%v|%s|%s|%s|%d", c.Level, c.Cfg, c.Method, c.Target, strings.Join(c.Headers, "\n"), len(reqBody))
	r.Count(key, true)
	r.Dist("kind:" + c.Cfg.Kind)
	r.Dist("level:" + c.Level)
	r.Dist("method:" + c.Method)
	r.Dist("status:" + strconv.Itoa(status))
	r.Dist("mut:" + strings.SplitN(c.Desc, "|", 2)[0])
	if len(c.Changed) > 0 {
		r.Dist("effect:store-changed")
	}
	r.Sample(map[string]interface{}{"cfg": c.Cfg, "method": c.Method, "target": trunc(c.Target, 120), "headers": c.Headers, "status": status, "changed": c.Changed})
	c15Predicate(r, c, pre, post, status, body, reqBody)
	var err error
	if c.Level == "handler" {
		if reached && o != nil {
			err = c15Model(o, r, c, hpath, hauth, reqBody, pre, post, status, body)
		} else if !reached {
			r.Dist("nethttp:rejected-before-handler")
		}
	}
	if len(c.Changed) > 0 {
		if berr := c15Build(e.root, e.cfg, e.state); berr != nil {
			return berr
		}
	}
	return err
}

func trunc(s string, n int) string {
	if len(s) > n {
		return s[:n] + fmt.Sprintf("...(%d bytes)", len(s))
	}
	return s
}

// ---------- request corpus ----------

type c15Req struct {
	method, target, desc string
	body                 []byte
}

func c15Upper(s string) string { return strings.ToUpper(s) }

func c15PctAll(s string) string {
	var b strings.Builder
	for i := 0; i < len(s); i++ {
		fmt.Fprintf(&b, "%%%02x", s[i])
	}
	return b.String()
}

// targets derived from the canonical path of id (hex) by mutation
func c15ChunkTargets(rng *vh.Rand, id string, ext string) [][2]string {
	p4 := id[:4]
	canon := "/" + p4 + "/" + id + ext
	other := hex.EncodeToString(rng.Bytes(2))
	out := [][2]string{
		{"canonical", canon},
		{"case-upper-all", "/" + c15Upper(p4) + "/" + c15Upper(id) + ext},
		{"case-upper-prefix", "/" + c15Upper(p4) + "/" + id + ext},
		{"case-upper-id", "/" + p4 + "/" + c15Upper(id) + ext},
		{"case-upper-ext", "/" + p4 + "/" + id + c15Upper(ext)},
		{"wrong-prefix", "/" + other + "/" + id + ext},
		{"short-prefix", "/" + p4[:3] + "/" + id + ext},
		{"long-prefix", "/" + id[:5] + "/" + id + ext},
		{"no-prefix", "/" + id + ext},
		{"missing-suffix", "/" + p4 + "/" + id},
		{"other-suffix", "/" + p4 + "/" + id + ".cacnk"},
		{"wrong-suffix", "/" + p4 + "/" + id + ".cacnkx"},
		{"double-suffix", "/" + p4 + "/" + id + ext + ext + ".cacnk"},
		{"extra-leading-segment", "/x/" + p4 + "/" + id + ext},
		{"extra-leading-store", "/store/" + p4 + "/" + id + ext},
		{"trailing-slash", canon + "/"},
		{"trailing-dot", canon + "/."},
		{"trailing-dotdot", canon + "/.."},
		{"double-slash-front", "/" + canon},
		{"double-slash-mid", "/" + p4 + "//" + id + ext},
		{"dot-segment", "/" + p4 + "/./" + id + ext},
		{"dotdot-segment", "/" + p4 + "/../" + p4 + "/" + id + ext},
		{"dotdot-front", "/../" + p4 + "/" + id + ext},
		{"dotdot-outside", "/../outside/" + p4 + "/" + id + ext},
		{"dotdot-outside2", "/" + p4 + "/../../outside/" + p4 + "/" + id + ext},
		{"pct-dotdot-outside", "/%2e%2e/outside/" + p4 + "/" + id + ext},
		{"pct-slash", "/" + p4 + "%2f" + id + ext},
		{"pct-slash-upper", "/" + p4 + "%2F" + id + ext},
		{"pct-dotdot-mid", "/" + p4 + "/%2e%2e/" + p4 + "/" + id + ext},
		{"pct-all", "/" + c15PctAll(p4) + "/" + c15PctAll(id+ext)},
		{"pct-all-with-slashes", c15PctAll(canon)},
		{"semicolon-param", canon + ";x=1"},
		{"semicolon-mid", "/" + p4 + ";v=1/" + id + ext},
		{"query", canon + "?x=/../sentinel.txt"},
		{"fragment", canon + "#frag"},
		{"nul", "/" + p4 + "/" + id + "%00" + ext},
		{"nul-mid", "/" + p4 + "%00/" + id + ext},
		{"raw-space", "/" + p4 + "/ " + id + ext},
		{"raw-ctl", "/" + p4 + "/\x01" + id + ext},
		{"backslash", "\\" + p4 + "\\" + id + ext},
		{"absolute-uri", "http://vh/" + p4 + "/" + id + ext},
		{"absolute-uri-dotdot", "http://vh/../outside/" + p4 + "/" + id + ext},
		{"no-leading-slash", p4 + "/" + id + ext},
		{"star", "*"},
		{"root", "/"},
		{"dotdot-only", "/.."},
		{"sentinel", "/../sentinel.txt"},
		{"sentinel-ext", "/sent/../../sentinel.txt" + ext},
		{"id-short", "/" + p4 + "/" + id[:62] + ext},
		{"id-long", "/" + p4 + "/" + id + "ab" + ext},
		{"id-nonhex", "/" + p4 + "/" + id[:63] + "g" + ext},
		{"id-odd", "/" + p4 + "/" + id[:63] + ext},
		{"prefix-only", "/" + p4 + "/"},
		{"prefix-ext", "/" + p4 + "/" + ext},
		{"overlong-10k", "/" + strings.Repeat("a", 10000)},
		{"overlong-id-10k", "/" + p4 + "/" + id + strings.Repeat("0", 10000) + ext},
		{"overlong-segments", strings.Repeat("/..", 3000) + canon},
	}
	// random byte-level mutations of the canonical path
	alpha := []string{"/", ".", "..", "%2e", "%2f", "%00", ";", "F", "0", "a", "A", "//", "/./", "/../", ".cacnk", "?"}
	for k := 0; k < 6; k++ {
		b := canon
		for m := 1 + rng.Intn(2); m > 0; m-- {
			pos := rng.Intn(len(b) + 1)
			ins := alpha[rng.Intn(len(alpha))]
			if rng.Bool() && pos < len(b) {
				b = b[:pos] + ins + b[pos+1:]
			} else {
				b = b[:pos] + ins + b[pos:]
			}
		}
		out = append(out, [2]string{"random-mutation", b})
	}
	return out
}

func c15IndexTargets(rng *vh.Rand, name string) [][2]string {
	out := [][2]string{
		{"canonical", "/" + name},
		{"case-upper-all", "/" + c15Upper(name)},
		{"extra-leading-segment", "/x/y/" + name},
		{"sub-dir-file", "/sub/inner.caibx"},
		{"sub-dir", "/sub"},
		{"sub-dir-slash", "/sub/"},
		{"trailing-slash", "/" + name + "/"},
		{"trailing-dot", "/" + name + "/."},
		{"trailing-dotdot", "/" + name + "/.."},
		{"double-slash-front", "//" + name},
		{"dotdot-front", "/../" + name},
		{"secret", "/../secret.caibx"},
		{"secret-pct", "/%2e%2e%2fsecret.caibx"},
		{"secret-pct2", "/..%2fsecret.caibx"},
		{"secret-pct-upper", "/%2E%2E%2Fsecret.caibx"},
		{"secret-double-pct", "/%252e%252e%252fsecret.caibx"},
		{"sentinel", "/../sentinel.txt"},
		{"pct-all", "/" + c15PctAll(name)},
		{"semicolon-param", "/" + name + ";x=1"},
		{"query", "/" + name + "?x=/../secret.caibx"},
		{"nul", "/" + name + "%00"},
		{"nul-mid", "/a%00/../" + name},
		{"raw-space", "/ " + name},
		{"backslash", "/..\\secret.caibx"},
		{"absolute-uri", "http://vh/" + name},
		{"no-leading-slash", name},
		{"star", "*"},
		{"root", "/"},
		{"dot", "/."},
		{"dotdot-only", "/.."},
		{"dotdot-slash", "/../"},
		{"pct-dotdot-only", "/%2e%2e"},
		{"double-root", "//"},
		{"overlong-300", "/" + strings.Repeat("n", 300)},
		{"overlong-10k", "/" + strings.Repeat("a", 10000)},
		{"overlong-segments", strings.Repeat("/..", 3000) + "/" + name},
		{"hidden", "/.hidden.caibx"},
	}
	alpha := []string{"/", ".", "..", "%2e", "%2f", "%00", ";", "//", "/./", "/../", "?"}
	for k := 0; k < 4; k++ {
		b := "/" + name
		pos := rng.Intn(len(b) + 1)
		b = b[:pos] + alpha[rng.Intn(len(alpha))] + b[pos:]
		out = append(out, [2]string{"random-mutation", b})
	}
	return out
}

// header variants: description, header lines
func c15HeaderVariants(auth string) [][2][]string {
	right := auth
	if right == "" {
		right = "Bearer whatever"
	}
	v := func(d string, lines ...string) [2][]string { return [2][]string{{d}, lines} }
	return [][2][]string{
		v("absent"),
		v("right", "Authorization: "+right),
		v("wrong", "Authorization: Bearer wrong"),
		v("empty", "Authorization:"),
		v("right-lowercase-value", "Authorization: "+strings.ToLower(right)),
		v("right-uppercase-value", "Authorization: "+strings.ToUpper(right)),
		v("right-prefix", "Authorization: "+right[:len(right)-1]),
		v("right-suffixed", "Authorization: "+right+"x"),
		v("right-ows", "Authorization: \t "+right+"  \t"),
		v("right-inner-space", "Authorization: "+strings.Replace(right, " ", "  ", 1)),
		v("right-header-lowercase", "authorization: "+right),
		v("right-header-uppercase", "AUTHORIZATION: "+right),
		v("right-quoted", "Authorization: \""+right+"\""),
		v("dup-wrong-right", "Authorization: Bearer wrong", "Authorization: "+right),
		v("dup-right-wrong", "Authorization: "+right, "Authorization: Bearer wrong"),
		v("dup-comma", "Authorization: Bearer wrong, "+right),
		v("other-header", "X-Authorization: "+right, "Proxy-Authorization: "+right),
		v("header-space-before-colon", "Authorization : "+right),
		v("cookie", "Cookie: Authorization="+right),
	}
}

var c15Methods = []string{"GET", "HEAD", "PUT", "GET", "HEAD", "PUT", "POST", "DELETE", "get", "OPTIONS", "PATCH"}

func c15Configs(tier string) []c15Cfg {
	var out []c15Cfg
	for _, auth := range []string{"", "Bearer s3cr3t-Token"} {
		for _, wr := range []bool{false, true} {
			out = append(out, c15Cfg{Kind: "index", Auth: auth, Writable: wr, StoreWritable: true})
			for _, skip := range []bool{false, true} {
				for _, comp := range []bool{true, false} {
					for _, sunc := range []bool{false, true} {
						out = append(out, c15Cfg{Kind: "chunk", Auth: auth, Writable: wr, SkipVerifyWrite: skip, Compressed: comp, StoreUncompressed: sunc, StoreWritable: true})
					}
				}
			}
		}
	}
	// upstream store that cannot be written
	out = append(out, c15Cfg{Kind: "chunk", Auth: "", Writable: true, SkipVerifyWrite: false, Compressed: true, StoreWritable: false})
	out = append(out, c15Cfg{Kind: "index", Auth: "", Writable: true, StoreWritable: false})
	return out
}

// bodies for a PUT of `data` under id(data): description, body
func c15Bodies(st *c15State, data []byte, compressed bool) [][2][]byte {
	enc := func(b []byte) []byte {
		if compressed {
			return c15Compress(b)
		}
		return b
	}
	return [][2][]byte{
		{[]byte("match"), enc(data)},
		{[]byte("mismatch"), enc(st.chunks[1])},
		{[]byte("garbage"), []byte("\x28\xb5\x2f\xfd garbage that is not zstd")},
		{[]byte("empty"), nil},
		{[]byte("wrong-encoding"), func() []byte {
			if compressed {
				return data
			}
			return c15Compress(data)
		}()},
	}
}

func runC15(a vh.Args, o *vh.Oracle, r *vh.Result) error {
	r.Rule = "case = one raw HTTP request (method, request-target, header lines, body) against one server configuration (chunk|index, authorization, writable, verify-write, handler compression, store compression) over a loopback socket; every case is non-trivial; distinct by (level, configuration, method, target, headers, body length)"
	desync.Digest = desync.SHA256{}
	rng := vh.NewRand(a.Seed)
	if a.Replay != "" {
		var c c15Case
		if err := readJSON(a.Replay, &c); err != nil {
			return err
		}
		if c.Level == "cli" {
			return c15ReplayCLI(a, o, r, &c)
		}
		if c.Level == "handler-overlap" {
			return c15OverlapPuts(a, o, r, rng)
		}
		e, err := c15StartHandler(filepath.Join(a.Work, "replay"), c.Cfg, c15MakeState(c.StateSeed))
		if err != nil {
			return err
		}
		defer e.stop()
		return c15Do(a, o, r, e, &c)
	}
	nstd := 10000
	if a.Tier == "thorough" {
		nstd = 60000
	}
	if v, err := strconv.Atoi(os.Getenv("VH_NSTD")); err == nil {
		nstd = v
	}
	if err := runGoStd(a, o, r, rng.Fork(), nstd); err != nil {
		return err
	}
	perTarget := 1
	if a.Tier == "thorough" {
		perTarget = 6
	}
	// HTTPHandlerBase.get prints every 500 to os.Stderr
	if devnull, err := os.OpenFile(os.DevNull, os.O_WRONLY, 0); err == nil {
		saved := os.Stderr
		os.Stderr = devnull
		defer func() { os.Stderr = saved; devnull.Close() }()
	}
	for ci, cfg := range c15Configs(a.Tier) {
		st := c15MakeState(a.Seed)
		e, err := c15StartHandler(filepath.Join(a.Work, fmt.Sprintf("cfg%d", ci)), cfg, st)
		if err != nil {
			return err
		}
		err = c15RunConfig(a, o, r, rng, e, "handler", perTarget)
		e.stop()
		if err != nil {
			return err
		}
	}
	// uploads that overlap in time
	if err := c15OverlapPuts(a, o, r, rng.Fork()); err != nil {
		return err
	}
	// the flag / environment plumbing of the binaries (both tiers)
	if err := c15Plumbing(a, o, r, rng); err != nil {
		return err
	}
	// histories of authorized and unauthorized requests for the same objects, binaries with default options
	if err := c15Histories(a, o, r, rng.Fork()); err != nil {
		return err
	}
	if a.Tier == "thorough" {
		return c15CLI(a, o, r, rng)
	}
	return nil
}

// all requests for one running server
func c15RunConfig(a vh.Args, o *vh.Oracle, r *vh.Result, rng *vh.Rand, e *c15Env, level string, perTarget int) error {
	cfg, st := e.cfg, e.state
	hv := c15HeaderVariants(cfg.Auth)
	pick := func() (string, []string) {
		// bias towards the interesting ones: right / absent / wrong
		k := rng.Intn(len(hv) + 6)
		if k >= len(hv) {
			k = (k - len(hv)) % 3
		}
		return hv[k][0][0], hv[k][1]
	}
	do := func(method, target, desc string, hdrDesc string, hdrs []string, body []byte) error {
		c := &c15Case{Cfg: cfg, Level: level, StateSeed: a.Seed, Method: method, Target: target, Headers: hdrs, BodyHex: vh.Hex(body), Desc: desc + "|" + hdrDesc}
		if level == "cli" {
			return c15DoCLI(a, o, r, e, c)
		}
		return c15Do(a, o, r, e, c)
	}
	rightHdr := hv[1][1]
	if cfg.Kind == "chunk" {
		ext := ""
		if cfg.Compressed {
			ext = ".cacnk"
		}
		present := c15IDStr(st.chunks[2])
		absent := c15IDStr(st.newChunk)
		outside := c15IDStr(st.outside)
		corrupt := c15IDStr([]byte("the name of the corrupt chunk"))
		zero := strings.Repeat("0", 64)
		// 1. every header variant x GET/HEAD/PUT on the canonical path of a present and of a new chunk
		for _, h := range hv {
			for _, m := range []string{"GET", "HEAD", "PUT"} {
				if err := do(m, "/"+present[:4]+"/"+present+ext, "canonical-present", h[0][0], h[1], c15Bodies(st, st.chunks[2], cfg.Compressed)[0][1]); err != nil {
					return err
				}
			}
			if err := do("PUT", "/"+absent[:4]+"/"+absent+ext, "canonical-new", h[0][0], h[1], c15Bodies(st, st.newChunk, cfg.Compressed)[0][1]); err != nil {
				return err
			}
		}
		// 2. every body variant on the new chunk and on the zero id, authorized
		for _, b := range c15Bodies(st, st.newChunk, cfg.Compressed) {
			for _, id := range []string{absent, zero, strings.ToUpper(absent)} {
				if err := do("PUT", "/"+id[:4]+"/"+id+ext, "put-body-"+string(b[0]), "right", rightHdr, b[1]); err != nil {
					return err
				}
			}
		}
		// 3. the corrupt chunk, the outside chunk, all chunks
		for _, id := range []string{corrupt, outside, c15IDStr(st.chunks[0]), c15IDStr(st.chunks[1])} {
			for _, m := range []string{"GET", "HEAD"} {
				if err := do(m, "/"+id[:4]+"/"+id+ext, "canonical-other", "right", rightHdr, nil); err != nil {
					return err
				}
			}
		}
		// 4. the mutation corpus
		for _, id := range []string{present, absent, outside} {
			for _, t := range c15ChunkTargets(rng, id, ext) {
				for k := 0; k < perTarget; k++ {
					m := c15Methods[rng.Intn(len(c15Methods))]
					hd, hl := pick()
					var body []byte
					if m == "PUT" || m == "POST" {
						data := st.newChunk
						if id == present {
							data = st.chunks[2]
						} else if id == outside {
							data = st.outside
						}
						body = c15Bodies(st, data, cfg.Compressed)[[]int{0, 0, 0, 1, 2}[rng.Intn(5)]][1]
					}
					if err := do(m, t[1], t[0], hd, hl, body); err != nil {
						return err
					}
				}
			}
		}
		return nil
	}
	// index server
	newIdx := c15Index(vh.NewRand(a.Seed+77), 4)
	bodies := [][2][]byte{{[]byte("valid"), newIdx}, {[]byte("garbage"), []byte("not an index")}, {[]byte("empty"), nil}, {[]byte("truncated"), newIdx[:len(newIdx)-7]}}
	for _, h := range hv {
		for _, m := range []string{"GET", "HEAD", "PUT"} {
			if err := do(m, "/a.caibx", "canonical-present", h[0][0], h[1], newIdx); err != nil {
				return err
			}
		}
		if err := do("PUT", "/new.caibx", "canonical-new", h[0][0], h[1], newIdx); err != nil {
			return err
		}
	}
	for _, b := range bodies {
		for _, n := range []string{"/new.caibx", "/a.caibx", "/sub", "/..", "/."} {
			if err := do("PUT", n, "put-body-"+string(b[0]), "right", rightHdr, b[1]); err != nil {
				return err
			}
		}
	}
	for _, n := range []string{"/b.caidx", "/garbage.caibx", "/missing.caibx", "/inner.caibx"} {
		for _, m := range []string{"GET", "HEAD"} {
			if err := do(m, n, "canonical-other", "right", rightHdr, nil); err != nil {
				return err
			}
		}
	}
	for _, name := range []string{"a.caibx", "new.caibx", "secret.caibx"} {
		for _, t := range c15IndexTargets(rng, name) {
			for k := 0; k < perTarget+1; k++ {
				m := c15Methods[rng.Intn(len(c15Methods))]
				hd, hl := pick()
				var body []byte
				if m == "PUT" || m == "POST" {
					body = bodies[[]int{0, 0, 0, 1}[rng.Intn(4)]][1]
				}
				if err := do(m, t[1], t[0], hd, hl, body); err != nil {
					return err
				}
			}
		}
	}
	return nil
}

var _ = sha256.Sum256
