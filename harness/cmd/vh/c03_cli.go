package main

// C03 pipelines: extract, cat, untar -i (and verify-index on what extract produced) run as CLI
// children against a poisoned store.  Predicate: exit status non-zero OR output identical to
// the indexed blob / tree.

import (
	"bytes"
	"encoding/hex"
	"encoding/json"
	"fmt"
	"os"
	"os/exec"
	"path/filepath"
	"sort"
	"strings"
	"time"

	"github.com/folbricht/desync"

	"vh/internal/vh"
)

type c03CLICase struct {
	Cmd        string `json:"cmd"` // cat | cat-range | extract | extract-k | untar | cache
	Digest     string `json:"digest"`
	Unc        bool   `json:"uncompressed"`
	Plant      string `json:"plant"`
	Damaged    string `json:"damaged"`                     // store | cache : where the damaged object lies
	Cache      string `json:"cache_option"`                // "" | repair (-c, the default --cache-repair) | norepair (-c --cache-repair=false)
	PrintStats bool   `json:"print_stats,omitempty"`       // extract --print-stats
	N          int    `json:"n,omitempty"`                 // -n
	Stores     string `json:"stores"`                      // one | empty-first | empty-last | ssh
	CacheSkip  bool   `json:"cache_skip_verify,omitempty"` // skip-verify in the config file for the cache only
	Skip       bool   `json:"skip_verify,omitempty"`       // skip-verify for everything (control)
	Stale      bool   `json:"stale_target,omitempty"`      // extract: the target exists with old content
	BlobHex    string `json:"blob_hex,omitempty"`
	Sizes      []int  `json:"sizes,omitempty"`
	Target     int    `json:"target_chunk"`
	ObjHex     string `json:"planted_object_hex"`
	Args       string `json:"command_line,omitempty"`
	Exit       int    `json:"exit"`
	Stderr     string `json:"stderr,omitempty"`
	Same       bool   `json:"output_identical"`
}

func (c *c03CLICase) options() string {
	o := c.Cmd + "|stores=" + c.Stores
	if c.Cache != "" {
		o += "|cache=" + c.Cache
	}
	if c.PrintStats {
		o += "|print-stats"
	}
	if c.N > 0 {
		o += fmt.Sprintf("|n=%d", c.N)
	}
	if c.CacheSkip {
		o += "|cache-skip-verify"
	}
	if c.Stale {
		o += "|stale-target"
	}
	return o + "|damaged=" + c.Damaged
}

var c03LastStderr string

func c03Run(timeout time.Duration, stdout *bytes.Buffer, bin string, args ...string) int {
	c := exec.Command(bin, args...)
	if stdout != nil {
		c.Stdout = stdout
	}
	var stderr bytes.Buffer
	c.Stderr = &stderr
	defer func() {
		c03LastStderr = stderr.String()
		if len(c03LastStderr) > 300 {
			c03LastStderr = c03LastStderr[len(c03LastStderr)-300:]
		}
	}()
	if err := c.Start(); err != nil {
		return -1
	}
	done := make(chan error, 1)
	go func() { done <- c.Wait() }()
	select {
	case err := <-done:
		if err == nil {
			return 0
		}
		if ee, ok := err.(*exec.ExitError); ok {
			return ee.ExitCode()
		}
		return -1
	case <-time.After(timeout):
		c.Process.Kill()
		<-done
		return -2
	}
}

func c03Sizes2(r *vh.Rand, n, maxc int) []int {
	var out []int
	for n > 0 {
		s := 1 + r.Intn(maxc)
		if s > n {
			s = n
		}
		out = append(out, s)
		n -= s
	}
	return out
}

func c03WriteObj(dir, id string, unc bool, obj []byte) error {
	p := filepath.Join(dir, id[:4], id+c03Ext(unc))
	if err := os.MkdirAll(filepath.Dir(p), 0755); err != nil {
		return err
	}
	return os.WriteFile(p, obj, 0644)
}

// tree listing for untar comparison: path -> "d" | "l:<target>" | "f:<hex sha>"
func c03Tree(root string) map[string]string {
	out := map[string]string{}
	filepath.Walk(root, func(p string, info os.FileInfo, err error) error {
		if err != nil {
			return nil
		}
		rel, _ := filepath.Rel(root, p)
		switch {
		case info.IsDir():
			out[rel] = "d"
		case info.Mode()&os.ModeSymlink != 0:
			t, _ := os.Readlink(p)
			out[rel] = "l:" + t
		default:
			b, _ := os.ReadFile(p)
			out[rel] = "f:" + hex.EncodeToString(b)
		}
		return nil
	})
	return out
}

func c03SameTree(a, b map[string]string) bool {
	if len(a) != len(b) {
		return false
	}
	for k, v := range a {
		if b[k] != v {
			return false
		}
	}
	return true
}

// damage kinds after which the object still decodes (in an uncompressed store every damage does)
var c03Decodable = []string{"other-same-size", "other-chunk", "other-zstd", "double-comp", "append-frame"}
var c03DecodableUnc = []string{"other-same-size", "other-chunk", "flip-mid", "flip-rand", "trunc-half", "garbage", "format-swap", "append-byte"}
var c03Undecodable = []string{"flip-first", "empty", "trunc-1", "garbage", "missing"}

func c03CLI(e *c03Env, rnd *vh.Rand) error {
	bin := os.Getenv("VH_DESYNC")
	if bin == "" {
		e.r.Note("VH_DESYNC not set: CLI pipeline cases skipped")
		return nil
	}
	os.Setenv("CASYNC_REMOTE_PATH", bin) // the ssh cases here talk to `desync pull`
	thorough := e.a.Tier == "thorough"
	// option combinations that could change the path a chunk takes to the consumer
	type combo struct {
		cmds []string
		c    c03CLICase
	}
	all := []string{"cat", "cat-range", "extract", "extract-k", "untar", "cache"}
	readers := []string{"cat", "cat-range", "extract", "extract-k", "untar"}
	ex := []string{"extract", "extract-k"}
	combos := []combo{
		{all, c03CLICase{Damaged: "store", Stores: "one"}},
		{readers, c03CLICase{Damaged: "store", Stores: "one", Cache: "repair"}},
		{readers, c03CLICase{Damaged: "store", Stores: "one", Cache: "norepair"}},
		{readers, c03CLICase{Damaged: "cache", Stores: "one", Cache: "repair"}},
		{readers, c03CLICase{Damaged: "cache", Stores: "one", Cache: "norepair"}},
		{readers, c03CLICase{Damaged: "store", Stores: "one", Cache: "repair", CacheSkip: true}},
		{ex, c03CLICase{Damaged: "store", Stores: "one", PrintStats: true}},
		{ex, c03CLICase{Damaged: "store", Stores: "one", PrintStats: true, Cache: "repair"}},
		{ex, c03CLICase{Damaged: "cache", Stores: "one", PrintStats: true, Cache: "norepair"}},
		{ex, c03CLICase{Damaged: "store", Stores: "one", PrintStats: true, Stale: true}},
		{ex, c03CLICase{Damaged: "store", Stores: "one", Stale: true}},
		{all, c03CLICase{Damaged: "store", Stores: "one", N: 1}},
		{readers, c03CLICase{Damaged: "store", Stores: "one", N: 3, Cache: "repair"}},
		{all, c03CLICase{Damaged: "store", Stores: "empty-first"}},
		{readers, c03CLICase{Damaged: "store", Stores: "empty-last", Cache: "repair"}},
		{[]string{"cat", "extract"}, c03CLICase{Damaged: "store", Stores: "ssh"}},
		{[]string{"cat", "extract"}, c03CLICase{Damaged: "store", Stores: "ssh", Cache: "repair"}},
	}
	n, ncombo := 0, 0
	kinds := map[string]bool{}
	optsSeen := map[string]bool{}
	for _, cb := range combos {
		if cb.c.Stores == "ssh" && !e.sshOK {
			continue
		}
		cmds := cb.cmds
		if !thorough { // quick: two of the commands per combination (untar is the expensive one)
			i := rnd.Intn(len(cmds))
			cmds = []string{cmds[i], cmds[(i+1+rnd.Intn(len(cmds)-1))%len(cmds)]}
			if len(cb.cmds) == 1 {
				cmds = cb.cmds
			}
		}
		for _, cmd := range cmds {
			ncombo++
			unc := rnd.Bool()
			if cb.c.Stores == "ssh" {
				unc = false // `desync pull` serves the store with its default options
			}
			var plants []string
			dec := c03Decodable
			if unc {
				dec = c03DecodableUnc
			}
			plants = append(plants, "other-same-size", dec[rnd.Intn(len(dec))])
			if thorough {
				plants = append(append(append([]string{}, dec...), c03Undecodable...), "good")
			} else if rnd.Chance(1, 3) {
				plants = append(plants, c03Undecodable[rnd.Intn(len(c03Undecodable))])
			} else if rnd.Chance(1, 4) {
				plants = append(plants, "good")
			}
			for _, plant := range plants {
				c := cb.c
				c.Cmd, c.Unc, c.Plant = cmd, unc, plant
				c.Digest = []string{"sha512-256", "sha256"}[rnd.Intn(2)]
				if plant == "missing" && c.Damaged == "cache" {
					continue
				}
				if e.hangs[cmd] >= 2 {
					continue // this command already hung twice; each hang costs the full timeout
				}
				n++
				kinds[plant] = true
				optsSeen[c.options()] = true
				if err := c03CLIOne(e, rnd, bin, &c, n); err != nil {
					return err
				}
			}
		}
	}
	// control: with verification disabled in the store's config a same-size foreign chunk gets
	// through -- the predicate can see a violation when there is one
	seen := 0
	nctl := 3
	for i := 0; i < nctl; i++ {
		c := &c03CLICase{Cmd: []string{"extract", "cat", "extract-k"}[i%3], Unc: i%2 == 0, Plant: "other-same-size", Damaged: "store", Stores: "one", Digest: "sha512-256", Skip: true}
		n++
		if err := c03CLIOne(e, rnd, bin, c, n); err != nil {
			return err
		}
		if c.Exit == 0 && !c.Same {
			seen++
		}
	}
	e.r.Note("CLI stage: %d runs of the desync binary = %d (command x option combination) pairs [%d distinct option sets over cat, cat -o/-l, extract, extract -k, untar -i, cache: -c with and without --cache-repair, damaged object in the store or in the cache, skip-verify for the cache only, --print-stats, stale target, -n 1/3, several -s, ssh://] x %d damage kinds (2-3 per pair, mostly kinds after which the object still decodes); judged by: exit 0 => output equals the indexed blob/tree", n-nctl, ncombo, len(optsSeen), len(kinds))
	e.r.Note("control (skip-verify set in the store options, same-size foreign chunk planted): %d of %d pipeline runs exited 0 with output differing from the blob, i.e. the predicate detects wrong bytes when verification is off", seen, nctl)
	return nil
}

func c03CLIOne(e *c03Env, rnd *vh.Rand, bin string, c *c03CLICase, n int) error {
	work := filepath.Join(e.a.Work, fmt.Sprintf("cli%d", n))
	defer os.RemoveAll(work)
	store := filepath.Join(work, "store")
	store2 := filepath.Join(work, "store2") // an empty second store
	cache := filepath.Join(work, "cache")
	for _, d := range []string{store, store2, cache} {
		os.MkdirAll(d, 0755)
	}
	if c.Digest == "sha256" {
		desync.Digest = desync.SHA256{}
	} else {
		desync.Digest = desync.SHA512256{}
	}
	cfg := map[string]interface{}{"store-options": map[string]interface{}{
		store:  map[string]interface{}{"uncompressed": c.Unc, "skip-verify": c.Skip},
		store2: map[string]interface{}{"uncompressed": c.Unc, "skip-verify": c.Skip},
		cache:  map[string]interface{}{"uncompressed": c.Unc, "skip-verify": c.Skip || c.CacheSkip},
	}}
	cfgFile := filepath.Join(work, "config.json")
	cb, _ := json.Marshal(cfg)
	os.WriteFile(cfgFile, cb, 0644)
	base := []string{"--config", cfgFile, "--digest", c.Digest}

	var idxFile string
	var blob []byte
	var srcTree map[string]string
	var ids []string   // chunk ids in index order
	var datas [][]byte // their plain data
	if c.Cmd == "untar" {
		// a small tree, archived and chunked by desync itself
		src := filepath.Join(work, "src")
		os.MkdirAll(filepath.Join(src, "sub", "deep"), 0755)
		for i := 0; i < 5; i++ {
			b, _ := vh.Blob(rnd, 500+rnd.Intn(6000))
			os.WriteFile(filepath.Join(src, []string{".", "sub", "sub/deep"}[i%3], fmt.Sprintf("f%d", i)), b, 0644)
		}
		os.Symlink("f0", filepath.Join(src, "link"))
		srcTree = c03Tree(src)
		idxFile = filepath.Join(work, "tree.caidx")
		if rc := c03Run(60*time.Second, nil, bin, append(base, "tar", "-i", "-s", store, "-m", "1:2:4", idxFile, src)...); rc != 0 {
			return fmt.Errorf("desync tar -i failed: %d", rc)
		}
		f, err := os.Open(idxFile)
		if err != nil {
			return err
		}
		idx, err := desync.IndexFromReader(f)
		f.Close()
		if err != nil {
			return err
		}
		ls, err := desync.NewLocalStore(store, desync.StoreOptions{Uncompressed: c.Unc})
		if err != nil {
			return err
		}
		for _, ch := range idx.Chunks {
			ck, err := ls.GetChunk(ch.ID)
			if err != nil {
				return fmt.Errorf("tar -i store incomplete: %v", err)
			}
			d, _ := ck.Data()
			ids = append(ids, hex.EncodeToString(ch.ID[:]))
			datas = append(datas, d)
		}
	} else {
		size := []int{1, 50, 700, 5000, 30000}[rnd.Intn(5)] + rnd.Intn(40)
		blob, _ = vh.Blob(rnd, size)
		c.Sizes = c03Sizes2(rnd, len(blob), []int{3, 40, 400, 4000}[rnd.Intn(4)])
		c.BlobHex = vh.Hex(blob)
		idx := desync.Index{Index: desync.FormatIndex{FeatureFlags: desync.CaFormatExcludeNoDump, ChunkSizeMin: 1, ChunkSizeAvg: 64, ChunkSizeMax: 1 << 16}}
		if c.Digest != "sha256" {
			idx.Index.FeatureFlags |= desync.CaFormatSHA512256
		}
		off := 0
		for _, s := range c.Sizes {
			d := blob[off : off+s]
			id := desync.Digest.Sum(d)
			idx.Chunks = append(idx.Chunks, desync.IndexChunk{Start: uint64(off), Size: uint64(s), ID: id})
			ids = append(ids, hex.EncodeToString(id[:]))
			datas = append(datas, d)
			if err := c03WriteObj(store, hex.EncodeToString(id[:]), c.Unc, c03Enc(d, c.Unc)); err != nil {
				return err
			}
			off += s
		}
		idxFile = filepath.Join(work, "blob.caibx")
		f, err := os.Create(idxFile)
		if err != nil {
			return err
		}
		if _, err := idx.WriteTo(f); err != nil {
			return err
		}
		f.Close()
	}
	// damage one chunk
	c.Target = rnd.Intn(len(ids))
	d := datas[c.Target]
	d2 := datas[(c.Target+1+rnd.Intn(len(ids)))%len(ids)]
	if bytes.Equal(d, d2) {
		d2 = append(append([]byte{}, d...), 1)
	}
	dir := store
	if c.Damaged == "cache" {
		dir = cache
	}
	if obj, ok := c03Plant(rnd, c.Plant, d, d2, c.Unc); ok {
		if sz, big := zstdDeclaredSize(obj); big && sz > 64<<20 {
			e.skippedBig++
			return nil
		}
		c.ObjHex = vh.Hex(obj)
		if len(c.ObjHex) > 400 {
			c.ObjHex = c.ObjHex[:400] + "..."
		}
		if err := c03WriteObj(dir, ids[c.Target], c.Unc, obj); err != nil {
			return err
		}
	} else if c.Plant == "missing" {
		os.Remove(filepath.Join(store, ids[c.Target][:4], ids[c.Target]+c03Ext(c.Unc)))
	}
	var storeArgs []string
	switch c.Stores {
	case "empty-first":
		storeArgs = []string{"-s", store2, "-s", store}
	case "empty-last":
		storeArgs = []string{"-s", store, "-s", store2}
	case "ssh":
		storeArgs = []string{"-s", "ssh://localhost" + store}
	default:
		storeArgs = []string{"-s", store}
	}
	if c.Cmd != "cache" {
		switch c.Cache {
		case "repair":
			storeArgs = append(storeArgs, "-c", cache)
		case "norepair":
			storeArgs = append(storeArgs, "-c", cache, "--cache-repair=false")
		}
	}
	if c.N > 0 {
		storeArgs = append(storeArgs, "-n", fmt.Sprint(c.N))
	}
	run := func(stdout *bytes.Buffer, args ...string) int {
		full := append(append([]string{}, base...), args...)
		c.Args = "desync " + strings.Join(full, " ")
		return c03Run(20*time.Second, stdout, bin, full...)
	}
	out := filepath.Join(work, "out")
	switch c.Cmd {
	case "extract", "extract-k":
		if c.Stale { // an older version of the file is in place
			old := append([]byte{}, blob...)
			for i := 0; i < 1+len(old)/50; i++ {
				old[rnd.Intn(len(old))] ^= 0x5a
			}
			os.WriteFile(out, old, 0644)
		}
		args := []string{"extract"}
		if c.Cmd == "extract-k" {
			args = append(args, "-k")
		}
		if c.PrintStats {
			args = append(args, "--print-stats")
		}
		var buf bytes.Buffer
		c.Exit = run(&buf, append(append(args, storeArgs...), idxFile, out)...)
		got, _ := os.ReadFile(out)
		c.Same = bytes.Equal(got, blob)
		if c.Exit == 0 && c.Same && !c.Skip {
			if rc := c03Run(60*time.Second, nil, bin, append(base, "verify-index", idxFile, out)...); rc != 0 {
				e.r.Fail("predicate", "cli/verify-index-rejects-extract-output", fmt.Sprintf("verify-index exit %d on the output of a successful extract", rc), c)
			}
		}
	case "cat":
		var buf bytes.Buffer
		c.Exit = run(&buf, append(append([]string{"cat"}, storeArgs...), idxFile)...)
		c.Same = bytes.Equal(buf.Bytes(), blob)
	case "cat-range":
		// the range covers the damaged chunk
		start := 0
		for i := 0; i < c.Target; i++ {
			start += c.Sizes[i]
		}
		off := rnd.Intn(start + 1)
		length := start - off + 1 + rnd.Intn(len(blob)-start)
		var buf bytes.Buffer
		c.Exit = run(&buf, append(append([]string{"cat", "-o", fmt.Sprint(off), "-l", fmt.Sprint(length)}, storeArgs...), idxFile)...)
		c.Same = bytes.Equal(buf.Bytes(), blob[off:off+length])
	case "untar":
		os.MkdirAll(out, 0755)
		c.Exit = run(nil, append(append([]string{"untar", "-i", "--no-same-owner"}, storeArgs...), idxFile, out)...)
		c.Same = c03SameTree(c03Tree(out), srcTree)
	case "cache":
		// copy the chunks of the index into another store: exit 0 => every chunk is there and verifies
		c.Exit = run(nil, append(append([]string{"cache"}, storeArgs...), "-c", cache, idxFile)...)
		c.Same = true
		if cs, err := desync.NewLocalStore(cache, desync.StoreOptions{Uncompressed: c.Unc}); err == nil {
			for _, sid := range ids {
				var id desync.ChunkID
				copy(id[:], vh.UnHex(sid))
				if _, err := cs.GetChunk(id); err != nil {
					c.Same = false
				}
			}
		}
	}
	if c.Exit != 0 {
		c.Stderr = c03LastStderr
	}
	bad := c.Plant != "good"
	e.r.Count("cli|"+c.options()+fmt.Sprintf("|%v|%s", c.Unc, c.Plant), bad)
	e.r.Dist("cli:" + c.Cmd)
	e.r.Dist("cli-plant:" + c.Plant)
	e.r.Dist("cli-damaged:" + c.Damaged + "/cache-option:" + c.Cache)
	if c.Exit == 0 {
		e.r.Dist("cli-exit:0")
	} else {
		e.r.Dist("cli-exit:nonzero")
	}
	if c.Exit == -2 {
		e.hangs[c.Cmd]++
		e.r.Fail("predicate", "cli/"+c.Cmd+"-hangs", fmt.Sprintf("%s did not finish within the timeout (planted %s in the %s)", c.Args, c.Plant, c.Damaged), c)
		return nil
	}
	if c.Skip || c.CacheSkip && c.Damaged == "cache" {
		return nil // verification explicitly disabled for the store that holds the damage
	}
	if c.Exit == 0 && !c.Same {
		what := "its output differs from the indexed data"
		if c.Cmd == "cache" {
			what = "the target store lacks a chunk of the index or holds one that does not verify"
		}
		e.r.Fail("predicate", "cli/"+c.Cmd+"-emits-wrong-bytes",
			fmt.Sprintf("`desync %s` exited 0 but %s (%s planted in the %s, uncompressed=%v)", c.options(), what, c.Plant, c.Damaged, c.Unc), c)
	}
	if c.Plant == "good" && c.Exit != 0 {
		e.r.Fail("corr", "corr:C03/cli-good-store-fails", fmt.Sprintf("`desync %s` fails on an intact store (exit %d): %s", c.options(), c.Exit, c.Stderr), c)
	}
	return nil
}

func c03ReplayCLI(e *c03Env, path string) error {
	var c c03CLICase
	if err := readJSON(path, &c); err != nil {
		return err
	}
	rnd := vh.NewRand(e.a.Seed)
	if err := c03CLIOne(e, rnd, os.Getenv("VH_DESYNC"), &c, 1); err != nil {
		return err
	}
	b, _ := json.Marshal(c)
	if len(b) > 600 {
		b = b[:600]
	}
	fmt.Printf("replay cli case (regenerated with this seed; the stored object kind is kept): exit=%d identical=%v\n%s\n", c.Exit, c.Same, b)
	return nil
}

var _ = sort.Strings
var _ = strings.Join
