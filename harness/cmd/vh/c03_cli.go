package main

// C03 pipelines: extract, cat, untar -i (and verify-index on what extract produced) run as CLI
// children against a poisoned store.  Predicate: exit status non-zero OR output identical to
// the indexed blob / tree.

import (
	"bytes"
	"encoding/hex"
	"encoding/json"
	"fmt"
	"os"
	"os/exec"
	"path/filepath"
	"sort"
	"strings"
	"time"

	"github.com/folbricht/desync"

	"vh/internal/vh"
)

type c03CLICase struct {
	Cmd     string `json:"cmd"` // extract | cat | untar
	Digest  string `json:"digest"`
	Unc     bool   `json:"uncompressed"`
	Plant   string `json:"plant"`
	Where   string `json:"where"` // store | cache | cache-norepair
	Skip    bool   `json:"skip_verify"`
	BlobHex string `json:"blob_hex,omitempty"`
	Sizes   []int  `json:"sizes,omitempty"`
	Target  int    `json:"target_chunk"`
	ObjHex  string `json:"planted_object_hex"`
	Exit    int    `json:"exit"`
	Stderr  string `json:"stderr,omitempty"`
	Same    bool   `json:"output_identical"`
}

var c03LastStderr string

func c03Run(timeout time.Duration, stdout *bytes.Buffer, bin string, args ...string) int {
	c := exec.Command(bin, args...)
	if stdout != nil {
		c.Stdout = stdout
	}
	var stderr bytes.Buffer
	c.Stderr = &stderr
	defer func() {
		c03LastStderr = stderr.String()
		if len(c03LastStderr) > 300 {
			c03LastStderr = c03LastStderr[len(c03LastStderr)-300:]
		}
	}()
	if err := c.Start(); err != nil {
		return -1
	}
	done := make(chan error, 1)
	go func() { done <- c.Wait() }()
	select {
	case err := <-done:
		if err == nil {
			return 0
		}
		if ee, ok := err.(*exec.ExitError); ok {
			return ee.ExitCode()
		}
		return -1
	case <-time.After(timeout):
		c.Process.Kill()
		<-done
		return -2
	}
}

func c03Sizes2(r *vh.Rand, n, maxc int) []int {
	var out []int
	for n > 0 {
		s := 1 + r.Intn(maxc)
		if s > n {
			s = n
		}
		out = append(out, s)
		n -= s
	}
	return out
}

func c03WriteObj(dir, id string, unc bool, obj []byte) error {
	p := filepath.Join(dir, id[:4], id+c03Ext(unc))
	if err := os.MkdirAll(filepath.Dir(p), 0755); err != nil {
		return err
	}
	return os.WriteFile(p, obj, 0644)
}

// tree listing for untar comparison: path -> "d" | "l:<target>" | "f:<hex sha>"
func c03Tree(root string) map[string]string {
	out := map[string]string{}
	filepath.Walk(root, func(p string, info os.FileInfo, err error) error {
		if err != nil {
			return nil
		}
		rel, _ := filepath.Rel(root, p)
		switch {
		case info.IsDir():
			out[rel] = "d"
		case info.Mode()&os.ModeSymlink != 0:
			t, _ := os.Readlink(p)
			out[rel] = "l:" + t
		default:
			b, _ := os.ReadFile(p)
			out[rel] = "f:" + hex.EncodeToString(b)
		}
		return nil
	})
	return out
}

func c03SameTree(a, b map[string]string) bool {
	if len(a) != len(b) {
		return false
	}
	for k, v := range a {
		if b[k] != v {
			return false
		}
	}
	return true
}

func c03CLI(e *c03Env, rnd *vh.Rand) error {
	bin := os.Getenv("VH_DESYNC")
	if bin == "" {
		e.r.Note("VH_DESYNC not set: CLI pipeline cases skipped")
		return nil
	}
	os.Setenv("CASYNC_REMOTE_PATH", bin) // the ssh cases here talk to `desync pull`
	plants := []string{"flip-first", "flip-last", "flip-mid", "flip-rand", "empty", "trunc-1", "trunc-len-1", "trunc-half",
		"other-chunk", "other-same-size", "other-zstd", "format-swap", "double-comp", "garbage", "append-byte", "append-frame", "missing", "good"}
	reps := 1
	if e.a.Tier == "thorough" {
		reps = 6
	}
	n := 0
	for rep := 0; rep < reps; rep++ {
		for _, cmd := range []string{"extract", "cat", "untar"} {
			for _, unc := range []bool{false, true} {
				use := plants
				if e.a.Tier != "thorough" { // quick: the same-size foreign chunk, the intact store, two more kinds
					use = []string{"other-same-size", "good"}
					for len(use) < 4 {
						use = append(use, plants[rnd.Intn(len(plants)-1)])
					}
				}
				for _, plant := range use {
					where := "store"
					switch rnd.Intn(6) {
					case 0:
						where = "cache"
					case 1:
						where = "cache-norepair"
					}
					if plant == "missing" {
						where = "store"
					}
					if !unc && e.sshOK && rnd.Chance(1, 3) {
						where = "ssh" // the store is reached through RemoteSSH and a `desync pull` child
					}
					c := &c03CLICase{Cmd: cmd, Unc: unc, Plant: plant, Where: where, Digest: "sha512-256"}
					if rnd.Chance(1, 3) {
						c.Digest = "sha256"
					}
					n++
					if e.hangs[cmd] >= 2 {
						continue // this command already hung twice; each hang costs the full timeout
					}
					if err := c03CLIOne(e, rnd, bin, c, n); err != nil {
						return err
					}
				}
			}
		}
	}
	// control: with verification disabled in the store's config a same-size foreign chunk gets
	// through -- the predicate can see a violation when there is one
	seen := 0
	for i := 0; i < 6; i++ {
		c := &c03CLICase{Cmd: []string{"extract", "cat"}[i%2], Unc: i%4 < 2, Plant: "other-same-size", Where: "store", Digest: "sha512-256", Skip: true}
		n++
		if err := c03CLIOne(e, rnd, bin, c, n); err != nil {
			return err
		}
		if c.Exit == 0 && !c.Same {
			seen++
		}
	}
	e.r.Note("control (skip-verify set in the store options, same-size foreign chunk planted): %d of 6 pipeline runs exited 0 with output differing from the blob, i.e. the predicate detects wrong bytes when verification is off", seen)
	return nil
}

func c03CLIOne(e *c03Env, rnd *vh.Rand, bin string, c *c03CLICase, n int) error {
	work := filepath.Join(e.a.Work, fmt.Sprintf("cli%d", n))
	defer os.RemoveAll(work)
	store := filepath.Join(work, "store")
	cache := filepath.Join(work, "cache")
	os.MkdirAll(store, 0755)
	os.MkdirAll(cache, 0755)
	if c.Digest == "sha256" {
		desync.Digest = desync.SHA256{}
	} else {
		desync.Digest = desync.SHA512256{}
	}
	cfg := map[string]interface{}{"store-options": map[string]interface{}{
		store: map[string]interface{}{"uncompressed": c.Unc, "skip-verify": c.Skip},
		cache: map[string]interface{}{"uncompressed": c.Unc, "skip-verify": c.Skip},
	}}
	cfgFile := filepath.Join(work, "config.json")
	cb, _ := json.Marshal(cfg)
	os.WriteFile(cfgFile, cb, 0644)
	base := []string{"--config", cfgFile, "--digest", c.Digest}

	var idxFile string
	var blob []byte
	var srcTree map[string]string
	var ids []string   // chunk ids in index order
	var datas [][]byte // their plain data
	if c.Cmd == "untar" {
		// a small tree, archived and chunked by desync itself
		src := filepath.Join(work, "src")
		os.MkdirAll(filepath.Join(src, "sub", "deep"), 0755)
		for i := 0; i < 5; i++ {
			b, _ := vh.Blob(rnd, 500+rnd.Intn(6000))
			os.WriteFile(filepath.Join(src, []string{".", "sub", "sub/deep"}[i%3], fmt.Sprintf("f%d", i)), b, 0644)
		}
		os.Symlink("f0", filepath.Join(src, "link"))
		srcTree = c03Tree(src)
		idxFile = filepath.Join(work, "tree.caidx")
		if rc := c03Run(60*time.Second, nil, bin, append(base, "tar", "-i", "-s", store, "-m", "1:2:4", idxFile, src)...); rc != 0 {
			return fmt.Errorf("desync tar -i failed: %d", rc)
		}
		f, err := os.Open(idxFile)
		if err != nil {
			return err
		}
		idx, err := desync.IndexFromReader(f)
		f.Close()
		if err != nil {
			return err
		}
		ls, err := desync.NewLocalStore(store, desync.StoreOptions{Uncompressed: c.Unc})
		if err != nil {
			return err
		}
		for _, ch := range idx.Chunks {
			ck, err := ls.GetChunk(ch.ID)
			if err != nil {
				return fmt.Errorf("tar -i store incomplete: %v", err)
			}
			d, _ := ck.Data()
			ids = append(ids, hex.EncodeToString(ch.ID[:]))
			datas = append(datas, d)
		}
	} else {
		size := []int{1, 50, 700, 5000, 30000}[rnd.Intn(5)] + rnd.Intn(40)
		blob, _ = vh.Blob(rnd, size)
		c.Sizes = c03Sizes2(rnd, len(blob), []int{3, 40, 400, 4000}[rnd.Intn(4)])
		c.BlobHex = vh.Hex(blob)
		idx := desync.Index{Index: desync.FormatIndex{FeatureFlags: desync.CaFormatExcludeNoDump, ChunkSizeMin: 1, ChunkSizeAvg: 64, ChunkSizeMax: 1 << 16}}
		if c.Digest != "sha256" {
			idx.Index.FeatureFlags |= desync.CaFormatSHA512256
		}
		off := 0
		for _, s := range c.Sizes {
			d := blob[off : off+s]
			id := desync.Digest.Sum(d)
			idx.Chunks = append(idx.Chunks, desync.IndexChunk{Start: uint64(off), Size: uint64(s), ID: id})
			ids = append(ids, hex.EncodeToString(id[:]))
			datas = append(datas, d)
			if err := c03WriteObj(store, hex.EncodeToString(id[:]), c.Unc, c03Enc(d, c.Unc)); err != nil {
				return err
			}
			off += s
		}
		idxFile = filepath.Join(work, "blob.caibx")
		f, err := os.Create(idxFile)
		if err != nil {
			return err
		}
		if _, err := idx.WriteTo(f); err != nil {
			return err
		}
		f.Close()
	}
	// poison one chunk
	c.Target = rnd.Intn(len(ids))
	d := datas[c.Target]
	d2 := datas[(c.Target+1+rnd.Intn(len(ids)))%len(ids)]
	if bytes.Equal(d, d2) {
		d2 = append(append([]byte{}, d...), 1)
	}
	dir := store
	if c.Where == "cache" || c.Where == "cache-norepair" {
		dir = cache
	}
	if obj, ok := c03Plant(rnd, c.Plant, d, d2, c.Unc); ok {
		if sz, big := zstdDeclaredSize(obj); big && sz > 64<<20 {
			e.skippedBig++
			return nil
		}
		c.ObjHex = vh.Hex(obj)
		if err := c03WriteObj(dir, ids[c.Target], c.Unc, obj); err != nil {
			return err
		}
	} else if c.Plant == "missing" {
		os.Remove(filepath.Join(store, ids[c.Target][:4], ids[c.Target]+c03Ext(c.Unc)))
	}
	storeArgs := []string{"-s", store}
	switch c.Where {
	case "ssh":
		storeArgs = []string{"-s", "ssh://localhost" + store}
	case "cache":
		storeArgs = append(storeArgs, "-c", cache)
	case "cache-norepair":
		storeArgs = append(storeArgs, "-c", cache, "--cache-repair=false")
	}
	switch c.Cmd {
	case "extract":
		out := filepath.Join(work, "out")
		c.Exit = c03Run(20*time.Second, nil, bin, append(append(append(base, "extract"), storeArgs...), idxFile, out)...)
		got, _ := os.ReadFile(out)
		c.Same = bytes.Equal(got, blob)
		if c.Exit == 0 && c.Same && !c.Skip {
			if rc := c03Run(60*time.Second, nil, bin, append(base, "verify-index", idxFile, out)...); rc != 0 {
				e.r.Fail("predicate", "cli/verify-index-rejects-extract-output", fmt.Sprintf("verify-index exit %d on the output of a successful extract", rc), c)
			}
		}
	case "cat":
		var buf bytes.Buffer
		c.Exit = c03Run(20*time.Second, &buf, bin, append(append(append(base, "cat"), storeArgs...), idxFile)...)
		c.Same = bytes.Equal(buf.Bytes(), blob)
	case "untar":
		out := filepath.Join(work, "out")
		os.MkdirAll(out, 0755)
		c.Exit = c03Run(20*time.Second, nil, bin, append(append(append(base, "untar", "-i", "--no-same-owner"), storeArgs...), idxFile, out)...)
		c.Same = c03SameTree(c03Tree(out), srcTree)
	}
	if c.Exit != 0 {
		c.Stderr = c03LastStderr
	}
	bad := c.Plant != "good"
	e.r.Count(fmt.Sprintf("cli|%s|%v|%s|%s|%v", c.Cmd, c.Unc, c.Plant, c.Where, c.Skip), bad)
	e.r.Dist("cli:" + c.Cmd)
	e.r.Dist("cli-plant:" + c.Plant)
	e.r.Dist("cli-where:" + c.Where)
	if c.Exit == 0 {
		e.r.Dist("cli-exit:0")
	} else {
		e.r.Dist("cli-exit:nonzero")
	}
	if c.Exit == -2 {
		e.hangs[c.Cmd]++
		e.r.Fail("predicate", "cli/"+c.Cmd+"-hangs", fmt.Sprintf("desync %s did not finish within the timeout (planted %s in %s)", c.Cmd, c.Plant, c.Where), c)
		return nil
	}
	if c.Skip {
		return nil
	}
	if c.Exit == 0 && !c.Same {
		e.r.Fail("predicate", "cli/"+c.Cmd+"-emits-wrong-bytes",
			fmt.Sprintf("desync %s exited 0 but its output differs from the indexed data (planted %s in %s, uncompressed=%v)", c.Cmd, c.Plant, c.Where, c.Unc), c)
	}
	if c.Plant == "good" && c.Exit != 0 {
		e.r.Fail("corr", "corr:C03/cli-good-store-fails", fmt.Sprintf("desync %s fails on an intact store (exit %d)", c.Cmd, c.Exit), c)
	}
	return nil
}

func c03ReplayCLI(e *c03Env, path string) error {
	var c c03CLICase
	if err := readJSON(path, &c); err != nil {
		return err
	}
	rnd := vh.NewRand(e.a.Seed)
	if err := c03CLIOne(e, rnd, os.Getenv("VH_DESYNC"), &c, 1); err != nil {
		return err
	}
	b, _ := json.Marshal(c)
	if len(b) > 600 {
		b = b[:600]
	}
	fmt.Printf("replay cli case (regenerated with this seed; the stored object kind is kept): exit=%d identical=%v\n%s\n", c.Exit, c.Same, b)
	return nil
}

var _ = sort.Strings
var _ = strings.Join
