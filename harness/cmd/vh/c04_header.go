package main

// C04, the fields nobody checks: "every file desync writes has the canonical 48-byte index element and
// tail record".  The decoder does not look at the index element's size field, nor at the tail record's
// index-offset / table-size words (deliberately part of the model: FormatDecoder.Next has no size check
// for CaFormatIndex), so an Index value can come (a) from a file in which those words are damaged, or
// (b) from memory with an arbitrary FormatHeader inside Index.Index.  Whatever desync then WRITES for
// it -- Index.WriteTo, every index store's StoreIndex, the index server's re-encoding GET -- has to be
// the canonical encoding, judged by the fixed-offset reader and byte for byte against a freshly built
// index with the same parameters and table.

import (
	"bytes"
	"fmt"
	"io"
	"net/http"
	"net/http/httptest"
	"os"
	"path/filepath"

	"github.com/folbricht/desync"

	"vh/internal/vh"
)

type c04Header struct {
	Kind    string  `json:"kind"` // "header"
	Digest  string  `json:"digest"`
	Step    c04Step `json:"index"`
	Source  string  `json:"source"`           // memory | file
	HdrSize uint64  `json:"header_size"`      // memory: Index.Index.FormatHeader.Size; file: the word at offset 0
	HdrType uint64  `json:"header_type"`      // memory: Index.Index.FormatHeader.Type
	Field   string  `json:"field,omitempty"`  // file: which unchecked word is damaged (hdr-size | tail-index-offset | tail-table-size)
	Target  string  `json:"target"`           // writeto | local | http | s3 | http-get
	What    string  `json:"what,omitempty"`
}

func c04RunHeader(a vh.Args, r *vh.Result, c *c04Header, n int) error {
	c04SetDigest(c.Digest)
	fresh := c04BuildIndex(c.Step.asCase(c.Digest))
	var want bytes.Buffer
	fresh.WriteTo(&want)
	r.Count(fmt.Sprintf("header|%s|%s|%s|%d|%x|%d", c.Source, c.Field, c.Target, c.HdrSize, c.HdrType, len(c.Step.Rows)), true)
	r.Dist("header:" + c.Source + "->" + c.Target)
	fail := func(class, what string) {
		cc := *c
		cc.What = what
		r.Fail("predicate", class, fmt.Sprintf("index (%d chunks) from %s [%s size=%d type=%#x] written through %s: %s", len(c.Step.Rows), c.Source, c.Field, c.HdrSize, c.HdrType, c.Target, what), &cc)
	}
	// the Index value that is to be written, and (file source) the damaged file it came from
	var idx desync.Index
	damaged := want.Bytes()
	switch c.Source {
	case "memory":
		idx = fresh
		idx.Index.FormatHeader = desync.FormatHeader{Size: c.HdrSize, Type: c.HdrType}
	default:
		off := 0
		switch c.Field {
		case "tail-index-offset":
			off = want.Len() - 24
		case "tail-table-size":
			off = want.Len() - 16
		}
		damaged = putWord(want.Bytes(), off, c.HdrSize)
		var err error
		idx, err = desync.IndexFromReader(bytes.NewReader(damaged))
		if err != nil {
			// a reader that refuses the damaged word is fine: then nothing is written for it
			r.Dist("header:file-refused")
			return nil
		}
	}
	check := func(got []byte, what string) {
		ref, complete := c04RefParse(got)
		switch {
		case bytes.Equal(got, want.Bytes()):
		case complete && (ref.HdrSize != 48 || ref.HdrType != c04IndexType):
			fail("layout-headers", fmt.Sprintf("%s: the index element claims size %d, type %#x; every file desync writes starts with (48, CaFormatIndex)", what, ref.HdrSize, ref.HdrType))
		case complete && (ref.IndexOffset != 48 || ref.TableSize != uint64(len(got)-48)):
			fail("layout-tail-sizes", fmt.Sprintf("%s: tail carries index offset %d, table size %d; expected 48, %d", what, ref.IndexOffset, ref.TableSize, len(got)-48))
		default:
			fail("reencode-not-canonical", fmt.Sprintf("%s: %d bytes that differ from the canonical encoding (%d bytes) at byte %d", what, len(got), want.Len(), firstDiff(got, want.Bytes())))
		}
	}
	switch c.Target {
	case "writeto":
		var buf bytes.Buffer
		if _, err := idx.WriteTo(&buf); err != nil {
			fail("writeto-error", err.Error())
			return nil
		}
		check(buf.Bytes(), "Index.WriteTo")
	case "local", "http", "s3":
		be, err := c04OpenBackend(a, c.Target, 100000+n)
		if err != nil {
			return err
		}
		defer be.close()
		if err := be.store(idx); err != nil {
			fail("store/"+c.Target+"-store-error", err.Error())
			return nil
		}
		got, err := be.raw()
		if err != nil {
			fail("store/"+c.Target+"-object-missing", err.Error())
			return nil
		}
		check(got, "the object stored by StoreIndex")
		back, err := be.get()
		if err != nil || c04IndexString(back) != c04IndexString(fresh) {
			fail("store/get-after-overwrite", fmt.Sprintf("GetIndex after StoreIndex: err=%v", err))
		}
	case "http-get":
		// the damaged file lies in the server's store; GET re-encodes it
		dir, err := os.MkdirTemp(a.Work, "hdrget")
		if err != nil {
			return err
		}
		os.WriteFile(filepath.Join(dir, "x.caibx"), damaged, 0644)
		local, err := desync.NewLocalIndexStore(dir)
		if err != nil {
			return err
		}
		rec := httptest.NewRecorder()
		desync.NewHTTPIndexHandler(local, false, "").ServeHTTP(rec, httptest.NewRequest("GET", "/x.caibx", nil))
		body, _ := io.ReadAll(rec.Result().Body)
		if rec.Code != http.StatusOK {
			fail("store/http-get-error", fmt.Sprintf("GET answered %d", rec.Code))
			return nil
		}
		check(body, "the body of the index server's GET")
	}
	return nil
}

func c04Headers(a vh.Args, r *vh.Result, rng *vh.Rand) error {
	n := 0
	sizes := []uint64{56, 0, 40, 47, 49, c04MaxUint64, 48}
	types := []uint64{c04IndexType, 0, c04TableType}
	rowsList := []int{0, 3}
	if a.Tier == "thorough" {
		rowsList = []int{0, 1, 3, 17, 130}
	}
	for _, nrows := range rowsList {
		digest := []string{"sha256", "sha512-256"}[nrows%2]
		step := c04GenStep(rng, digest, nrows)
		// (b) in-memory Index values with a partly filled header
		for _, sz := range sizes {
			for _, ty := range types {
				if sz == 48 && ty == c04IndexType {
					continue
				}
				for _, target := range []string{"writeto", "local", "http", "s3"} {
					if target == "s3" && (a.Tier != "thorough" && !(sz == 56 && ty == c04IndexType)) {
						continue
					}
					if (target == "local" || target == "http") && a.Tier != "thorough" && ty != c04IndexType && sz != 0 {
						continue
					}
					n++
					if err := c04RunHeader(a, r, &c04Header{Kind: "header", Digest: digest, Step: step, Source: "memory", Field: "Index.Index.FormatHeader", HdrSize: sz, HdrType: ty, Target: target}, n); err != nil {
						return err
					}
				}
			}
		}
		// (a) Index values read from files whose unchecked words are damaged
		for _, field := range []string{"hdr-size", "tail-index-offset", "tail-table-size"} {
			for _, v := range []uint64{56, 0, 40, c04MaxUint64, rng.U64()} {
				for _, target := range []string{"writeto", "local", "http", "http-get", "s3"} {
					if target == "s3" && (a.Tier != "thorough" && v != 56) {
						continue
					}
					n++
					if err := c04RunHeader(a, r, &c04Header{Kind: "header", Digest: digest, Step: step, Source: "file", Field: field, HdrSize: v, Target: target}, n); err != nil {
						return err
					}
				}
			}
		}
	}
	return nil
}
