package main

// C04, store histories: the same index name is stored several times (longer -> shorter, shorter ->
// longer, N -> 0 chunks, ...) in every index store kind. The predicate is judged on the implementation
// alone: after StoreIndex returned nil, the stored object's bytes are Index.WriteTo's bytes of the
// index just stored (no leftover of an earlier, longer object), and GetIndex returns that index.
// Backends: local (LocalIndexStore), http (RemoteHTTPIndex -> HTTPIndexHandler -> LocalIndexStore),
// s3 (S3IndexStore on the in-harness endpoint), cli (`desync make` twice onto the same index file).

import (
	"bytes"
	"fmt"
	"net"
	"net/http"
	"net/http/httptest"
	"net/url"
	"os"
	"os/exec"
	"path/filepath"
	"strings"

	"github.com/folbricht/desync"
	minio "github.com/minio/minio-go/v6"
	"github.com/minio/minio-go/v6/pkg/credentials"

	"vh/internal/vh"
)

type c04Step struct {
	Flags   uint64   `json:"flags"`
	Min     uint64   `json:"min"`
	Avg     uint64   `json:"avg"`
	Max     uint64   `json:"max"`
	Rows    []c04Row `json:"rows"`
	BlobLen int      `json:"blob_len,omitempty"` // cli: size of the blob `desync make` indexes
	CLIParams string `json:"cli_chunk_sizes,omitempty"` // cli: -m min:avg:max (default 64:256:1024)
	SameBlob  bool   `json:"same_blob,omitempty"`       // cli: index the blob of the previous step again
}

type c04History struct {
	Kind    string    `json:"kind"` // "history"
	Backend string    `json:"backend"`
	Digest  string    `json:"digest"`
	Steps   []c04Step `json:"steps"`
	Seed    uint64    `json:"seed,omitempty"` // cli: blob contents
	What    string    `json:"what,omitempty"`
}

func (s *c04Step) asCase(digest string) *c04Case {
	return &c04Case{Kind: "encode", Digest: digest, Flags: s.Flags, Min: s.Min, Avg: s.Avg, Max: s.Max, Rows: s.Rows}
}

// c04HistoryBackend: store(step) stores the step's index under one fixed name; raw() returns the bytes the
// store now holds under that name; get() reads the name back through the store.
type c04HistoryBackend struct {
	store func(idx desync.Index) error
	raw   func() ([]byte, error)
	get   func() (desync.Index, error)
	close func()
}

func c04OpenBackend(a vh.Args, kind string, n int) (*c04HistoryBackend, error) {
	name := "hist.caibx"
	switch kind {
	case "local", "http":
		dir := filepath.Join(a.Work, fmt.Sprintf("hist-%s-%d", kind, n))
		if err := os.MkdirAll(dir, 0755); err != nil {
			return nil, err
		}
		local, err := desync.NewLocalIndexStore(dir)
		if err != nil {
			return nil, err
		}
		raw := func() ([]byte, error) { return os.ReadFile(filepath.Join(dir, name)) }
		if kind == "local" {
			return &c04HistoryBackend{
				store: func(idx desync.Index) error { return local.StoreIndex(name, idx) },
				raw:   raw,
				get:   func() (desync.Index, error) { return local.GetIndex(name) },
				close: func() {},
			}, nil
		}
		srv := httptest.NewServer(desync.NewHTTPIndexHandler(local, true, ""))
		u, _ := url.Parse(srv.URL + "/")
		remote, err := desync.NewRemoteHTTPIndexStore(u, desync.StoreOptions{})
		if err != nil {
			srv.Close()
			return nil, err
		}
		return &c04HistoryBackend{
			store: func(idx desync.Index) error { return remote.StoreIndex(name, idx) },
			raw:   raw,
			get:   func() (desync.Index, error) { return remote.GetIndex(name) },
			close: srv.Close,
		}, nil
	case "s3":
		srv := &c04FakeS3{objects: map[string][]byte{}, uploads: map[string]map[int][]byte{}}
		ln, err := net.Listen("tcp", "127.0.0.1:0")
		if err != nil {
			return nil, err
		}
		hs := &http.Server{Handler: srv}
		go hs.Serve(ln)
		u, _ := url.Parse("s3+http://" + ln.Addr().String() + "/bkt/idx")
		st, err := desync.NewS3IndexStore(u, credentials.NewStaticV4("key", "secret", ""), "us-east-1", desync.StoreOptions{}, minio.BucketLookupPath)
		if err != nil {
			hs.Close()
			return nil, err
		}
		return &c04HistoryBackend{
			store: func(idx desync.Index) error { return st.StoreIndex(name, idx) },
			raw: func() ([]byte, error) {
				srv.mu.Lock()
				defer srv.mu.Unlock()
				b, ok := srv.objects["idx/"+name]
				if !ok {
					return nil, os.ErrNotExist
				}
				return append([]byte{}, b...), nil
			},
			get:   func() (desync.Index, error) { return st.GetIndex(name) },
			close: func() { hs.Close() },
		}, nil
	}
	return nil, fmt.Errorf("unknown backend %s", kind)
}

// c04RunHistory runs one history and evaluates the predicate after every step.
func c04RunHistory(a vh.Args, o *vh.Oracle, r *vh.Result, h *c04History, n int) error {
	c04SetDigest(h.Digest)
	counts := make([]string, len(h.Steps))
	for i, s := range h.Steps {
		counts[i] = fmt.Sprint(len(s.Rows))
		if h.Backend == "cli" {
			counts[i] = fmt.Sprint(s.BlobLen)
		}
	}
	shape := strings.Join(counts, ">")
	r.Count(fmt.Sprintf("history|%s|%s|%s|%d", h.Backend, h.Digest, shape, n), len(h.Steps) > 1)
	r.Dist("history:" + h.Backend)
	fail := func(class, what string) {
		c := *h
		c.What = what
		r.Fail("predicate", class, fmt.Sprintf("%s index store, history %s chunks: %s", h.Backend, shape, what), &c)
	}
	if h.Backend == "cli" {
		return c04RunCLIHistory(a, r, h, n, shape, fail)
	}
	be, err := c04OpenBackend(a, h.Backend, n)
	if err != nil {
		return err
	}
	defer be.close()
	var prev []byte
	for k, s := range h.Steps {
		idx := c04BuildIndex(s.asCase(h.Digest))
		var want bytes.Buffer
		idx.WriteTo(&want)
		if err := be.store(idx); err != nil {
			fail("store/"+h.Backend+"-store-error", fmt.Sprintf("step %d: StoreIndex: %v", k, err))
			return nil
		}
		got, err := be.raw()
		switch {
		case err != nil:
			fail("store/"+h.Backend+"-object-missing", fmt.Sprintf("step %d: stored object cannot be read: %v", k, err))
		case len(got) > want.Len() && bytes.Equal(got[:want.Len()], want.Bytes()):
			fail("store/stale-trailing-bytes", fmt.Sprintf("step %d: the stored object has %d bytes, Index.WriteTo produces %d: %d bytes of an earlier object are left behind the new index", k, len(got), want.Len(), len(got)-want.Len()))
		case !bytes.Equal(got, want.Bytes()) && prev != nil && bytes.Equal(got, prev):
			fail("store/store-skipped", fmt.Sprintf("step %d: StoreIndex returned nil but the stored object still is the index of step %d, not Index.WriteTo of the index just stored (first difference at byte %d)", k, k-1, firstDiff(got, want.Bytes())))
		case !bytes.Equal(got, want.Bytes()):
			fail("store/stored-bytes-differ", fmt.Sprintf("step %d: the stored object (%d bytes) differs from Index.WriteTo (%d bytes) at byte %d", k, len(got), want.Len(), firstDiff(got, want.Bytes())))
		}
		prev = got
		back, err := be.get()
		if err != nil || c04IndexString(back) != c04IndexString(idx) {
			fail("store/get-after-overwrite", fmt.Sprintf("step %d: GetIndex does not return the index just stored (err=%v)", k, err))
		}
		// model: the file after StoreIndex i is encode_index i whatever was there before (C04_store_overwrites)
		if o != nil && got != nil {
			c := s.asCase(h.Digest)
			ans, err := o.Call("c04.encode", u64s(c.Flags), u64s(c.Min), u64s(c.Avg), u64s(c.Max), c04RowsArg(c))
			if err != nil {
				return err
			}
			r.Corr()
			if ans != vh.Hex(got) {
				c := *h
				r.Fail("corr", "corr:C04/stored-bytes", fmt.Sprintf("%s store, step %d: stored object differs from local_store_index = encode_index", h.Backend, k), &c)
			}
		}
	}
	return nil
}

// `desync make` twice onto the same index file: long blob, then short blob (and the other way round).
func c04RunCLIHistory(a vh.Args, r *vh.Result, h *c04History, n int, shape string, fail func(class, what string)) error {
	bin := os.Getenv("VH_DESYNC")
	if bin == "" {
		r.Note("VH_DESYNC not set: CLI histories skipped")
		return nil
	}
	dir := filepath.Join(a.Work, fmt.Sprintf("hist-cli-%d", n))
	if err := os.MkdirAll(dir, 0755); err != nil {
		return err
	}
	idxFile := filepath.Join(dir, "hist.caibx")
	rng := vh.NewRand(h.Seed)
	var data []byte
	for k, s := range h.Steps {
		blob := filepath.Join(dir, fmt.Sprintf("blob%d", k))
		if !(s.SameBlob && k > 0) {
			data = rng.Bytes(s.BlobLen)
		}
		os.WriteFile(blob, data, 0644)
		params := s.CLIParams
		if params == "" {
			params = "64:256:1024"
		}
		out, err := exec.Command(bin, "make", "--digest", h.Digest, "-m", params, idxFile, blob).CombinedOutput()
		if err != nil {
			fail("store/cli-store-error", fmt.Sprintf("step %d: desync make: %v %s", k, err, tail(string(out), 200)))
			return nil
		}
		got, err := os.ReadFile(idxFile)
		if err != nil {
			fail("store/cli-object-missing", err.Error())
			return nil
		}
		idx, err := desync.IndexFromReader(bytes.NewReader(got))
		if err != nil {
			fail("store/get-after-overwrite", fmt.Sprintf("step %d: the index file written by desync make is rejected: %v", k, err))
			continue
		}
		var want bytes.Buffer
		idx.WriteTo(&want)
		ref, complete := c04RefParse(got)
		var pmin, pavg, pmax uint64
		fmt.Sscanf(params, "%d:%d:%d", &pmin, &pavg, &pmax)
		pmin, pavg, pmax = pmin<<10, pavg<<10, pmax<<10 // -m is given in KiB
		switch {
		case ref.Min != pmin || ref.Avg != pavg || ref.Max != pmax:
			fail("store/stale-parameters", fmt.Sprintf("step %d: `desync make -m %s` exited 0 but the index file carries min:avg:max %d:%d:%d", k, params, ref.Min, ref.Avg, ref.Max))
		case idx.Length() != int64(len(data)):
			fail("store/get-after-overwrite", fmt.Sprintf("step %d: the index file describes %d bytes, the blob just indexed has %d", k, idx.Length(), len(data)))
		case len(got) > want.Len() && bytes.Equal(got[:want.Len()], want.Bytes()):
			fail("store/stale-trailing-bytes", fmt.Sprintf("step %d: the index file has %d bytes, Index.WriteTo of its index produces %d: %d bytes of the earlier file are left behind", k, len(got), want.Len(), len(got)-want.Len()))
		case !bytes.Equal(got, want.Bytes()) || !complete || ref.End != len(got) || ref.TableSize != uint64(len(got)-48):
			fail("store/stored-bytes-differ", fmt.Sprintf("step %d: the index file is not the canonical encoding of its index", k))
		}
	}
	return nil
}

func c04GenStep(rng *vh.Rand, digest string, nrows int) c04Step {
	c := c04GenIndex(rng, nrows)
	for !c04WF(c) {
		c = c04GenIndex(rng, nrows)
	}
	if digest == "sha256" {
		c.Flags &^= c04SHA512Flag
	} else {
		c.Flags |= c04SHA512Flag
	}
	return c04Step{Flags: c.Flags, Min: c.Min, Avg: c.Avg, Max: c.Max, Rows: c.Rows}
}

func c04Histories(a vh.Args, o *vh.Oracle, r *vh.Result, rng *vh.Rand) error {
	shapes := [][]int{{5, 2}, {2, 5}, {4, 0}, {0, 3}, {3, 3}, {40, 1, 17}}
	if a.Tier == "thorough" {
		for i := 0; i < 12; i++ {
			shapes = append(shapes, []int{rng.Intn(60), rng.Intn(60), rng.Intn(60)})
		}
		shapes = append(shapes, []int{700, 3}, []int{1, 0, 1, 0})
	}
	n := 0
	for _, backend := range []string{"local", "http", "s3"} {
		for _, shape := range shapes {
			if backend == "s3" && a.Tier != "thorough" && len(shape) > 2 {
				continue
			}
			n++
			h := &c04History{Kind: "history", Backend: backend, Digest: []string{"sha256", "sha512-256"}[n%2]}
			for _, k := range shape {
				h.Steps = append(h.Steps, c04GenStep(rng, h.Digest, k))
			}
			if err := c04RunHistory(a, o, r, h, n); err != nil {
				return err
			}
		}
	}
	// consecutive indexes that differ ONLY in the header fields (same chunk table), or only in the table
	for _, backend := range []string{"local", "http", "s3"} {
		for _, nrows := range []int{0, 1, 5} {
			if backend == "s3" && a.Tier != "thorough" && nrows == 1 {
				continue
			}
			n++
			digest := []string{"sha256", "sha512-256"}[n%2]
			base := c04GenStep(rng, digest, nrows)
			flagsOnly, sizesOnly, maxOnly, tableOnly := base, base, base, c04GenStep(rng, digest, nrows)
			flagsOnly.Flags ^= 1 << uint(rng.Intn(60)) // not the digest bit (61)
			sizesOnly.Flags = flagsOnly.Flags
			sizesOnly.Min, sizesOnly.Avg = base.Min+1, base.Avg+7
			maxOnly = sizesOnly
			if maxOnly.Max < c04MaxUint64 {
				maxOnly.Max++
			} else {
				maxOnly.Min += 3
			}
			tableOnly.Flags, tableOnly.Min, tableOnly.Avg, tableOnly.Max = maxOnly.Flags, maxOnly.Min, maxOnly.Avg, c04MaxUint64
			last := maxOnly
			last.Max = c04MaxUint64
			h := &c04History{Kind: "history", Backend: backend, Digest: digest, Steps: []c04Step{base, flagsOnly, sizesOnly, maxOnly, last, tableOnly, base}}
			if err := c04RunHistory(a, o, r, h, n); err != nil {
				return err
			}
		}
	}
	// the CLI: the same small blob (one chunk: smaller than min) and the empty blob, indexed with other chunk sizes
	for _, l := range []int{40, 0} {
		n++
		h := &c04History{Kind: "history", Backend: "cli", Digest: []string{"sha256", "sha512-256"}[n%2], Seed: rng.U64(),
			Steps: []c04Step{{BlobLen: l, CLIParams: "64:256:1024"}, {BlobLen: l, CLIParams: "128:512:2048", SameBlob: true}, {BlobLen: l, CLIParams: "64:256:1024", SameBlob: true}}}
		if err := c04RunHistory(a, o, r, h, n); err != nil {
			return err
		}
	}
	for _, lens := range [][]int{{60000, 3000}, {3000, 60000}, {20000, 0}} {
		n++
		h := &c04History{Kind: "history", Backend: "cli", Digest: []string{"sha256", "sha512-256"}[n%2], Seed: rng.U64()}
		for _, l := range lens {
			h.Steps = append(h.Steps, c04Step{BlobLen: l})
		}
		if err := c04RunHistory(a, o, r, h, n); err != nil {
			return err
		}
	}
	return nil
}
