package main

// C08, concurrent writers of the SAME chunk id.
//  store-concurrent: W goroutines store one large chunk into one store, R rounds, while an observer polls
//    only the chunk's final name; predicate: at every observation the name is absent or holds the complete
//    valid object (class store/partial-chunk-visible).
//  store-concurrent-kill: a child process runs rounds of W concurrent StoreChunk calls of one large chunk
//    (removing the final file between rounds) and is killed with SIGKILL after a random delay; predicate on
//    the directory afterwards as for every other kill case.

import (
	"bytes"
	"fmt"
	"os"
	"os/exec"
	"path/filepath"
	"strconv"
	"sync"
	"sync/atomic"
	"syscall"
	"time"

	"github.com/folbricht/desync"

	"vh/internal/vh"
)

func c08ConcData(seed uint64, size int) []byte { return vh.NewRand(seed).Bytes(size) }

// c08ChildLoop: child mode "storeloop" (see c08Child): rounds of concurrent writers until killed.
func c08ChildLoop(dir string, unc bool, data []byte, writers int) {
	s, err := desync.NewLocalStore(dir, desync.StoreOptions{Uncompressed: unc})
	if err != nil {
		os.Exit(4)
	}
	id := desync.NewChunk(data).ID()
	for round := 0; round < 100000; round++ {
		var wg sync.WaitGroup
		for i := 0; i < writers; i++ {
			wg.Add(1)
			go func() {
				defer wg.Done()
				s.StoreChunk(desync.NewChunk(data))
			}()
		}
		wg.Wait()
		s.RemoveChunk(id)
	}
	os.Exit(0)
}

func c08Concurrent(a vh.Args, r *vh.Result, c *c08Case) error {
	desync.Digest = desync.SHA256{}
	data := c08ConcData(c.Seed, c.BlobLen)
	dir, err := lsFreshDir(a.Work, "c08conc")
	if err != nil {
		return err
	}
	s, err := desync.NewLocalStore(dir, desync.StoreOptions{Uncompressed: c.Unc})
	if err != nil {
		return err
	}
	obj := data
	ext := ""
	if !c.Unc {
		obj, _ = desync.Compress(data)
		ext = ".cacnk"
	}
	chunk := desync.NewChunk(data)
	id := chunk.ID()
	idh := id.String()
	final := filepath.Join(dir, idh[:4], idh+ext)
	var bad atomic.Value
	var observations, present int64
	for round := 0; round < c.K && bad.Load() == nil; round++ {
		os.Remove(final)
		stop := make(chan struct{})
		var ow sync.WaitGroup
		ow.Add(1)
		go func(round int) { // the observer looks at nothing but the final name
			defer ow.Done()
			for {
				b, err := os.ReadFile(final)
				atomic.AddInt64(&observations, 1)
				if err == nil {
					atomic.AddInt64(&present, 1)
					if !bytes.Equal(b, obj) {
						bad.Store(fmt.Sprintf("round %d: %s visible with %d of %d bytes (valid object: %v)", round, filepath.Join(idh[:4], idh+ext), len(b), len(obj), validObject(c.Unc, b, idh)))
						return
					}
				}
				select {
				case <-stop:
					return
				default:
				}
			}
		}(round)
		var wg sync.WaitGroup
		start := make(chan struct{})
		var failed atomic.Value
		for i := 0; i < c.Writers; i++ {
			wg.Add(1)
			go func() {
				defer wg.Done()
				<-start
				if err := s.StoreChunk(desync.NewChunk(data)); err != nil {
					failed.Store(err.Error())
				}
			}()
		}
		close(start)
		wg.Wait()
		close(stop)
		ow.Wait()
		if f := failed.Load(); f != nil {
			c.What = "StoreChunk failed with concurrent writers of the same chunk: " + f.(string)
			r.Fail("predicate", "store/concurrent-writer-fails", c.What, c)
			break
		}
		if b, err := os.ReadFile(final); err != nil || !bytes.Equal(b, obj) {
			c.What = fmt.Sprintf("after all writers returned nil the chunk is not complete (err=%v)", err)
			r.Fail("predicate", "store/partial-chunk-visible", c.What, c)
			break
		}
	}
	r.Count(fmt.Sprintf("store-concurrent|%v|%d|%d|%d", c.Unc, c.Writers, c.BlobLen, c.K), present > 0)
	r.Dist(fmt.Sprintf("store-concurrent-observations:%s", bucket(int(observations))))
	if b := bad.Load(); b != nil {
		c.What = "a partial chunk was visible under its final name while " + strconv.Itoa(c.Writers) + " writers stored the same chunk: " + b.(string)
		r.Fail("predicate", "store/partial-chunk-visible", c.What, c)
	}
	return nil
}

func c08ConcurrentKill(a vh.Args, r *vh.Result, c *c08Case) error {
	desync.Digest = desync.SHA256{}
	data := c08ConcData(c.Seed, c.BlobLen)
	dir, err := lsFreshDir(a.Work, "c08conck")
	if err != nil {
		return err
	}
	dataFile := filepath.Join(a.Work, "c08-conc-data.bin")
	if err := os.WriteFile(dataFile, data, 0644); err != nil {
		return err
	}
	self, _ := os.Executable()
	cmd := exec.Command(self)
	cmd.Env = append(os.Environ(), "VH_C08_CHILD=storeloop", "VH_C08_DIR="+dir, "VH_C08_UNC="+lsB01(c.Unc),
		"VH_C08_DATAFILE="+dataFile, "VH_C08_WRITERS="+strconv.Itoa(c.Writers))
	if err := cmd.Start(); err != nil {
		return err
	}
	time.Sleep(time.Duration(c.Fsize) * time.Microsecond) // Fsize doubles as the kill delay in microseconds
	cmd.Process.Signal(syscall.SIGKILL)
	cmd.Wait()
	c.DataHex = vh.Hex(data)
	err = c08CheckStore(a, nil, r, c, dir, nil, "signal:killed")
	c.DataHex = "" // regenerated from Seed/BlobLen on replay
	r.Count(fmt.Sprintf("store-concurrent-kill|%v|%d|%d|%d", c.Unc, c.Writers, c.BlobLen, c.Fsize), true)
	return err
}

func c08ConcurrentAll(a vh.Args, r *vh.Result, rng *vh.Rand) error {
	thorough := a.Tier == "thorough"
	rounds, kills := 25, 16
	if thorough {
		rounds, kills = 150, 150
	}
	for _, unc := range []bool{false, true} {
		c := &c08Case{Kind: "store-concurrent", Unc: unc, Writers: 6, BlobLen: 4 << 20, K: rounds, Seed: rng.U64() % 100000}
		if err := c08Concurrent(a, r, c); err != nil {
			return err
		}
		for i := 0; i < kills; i++ {
			k := &c08Case{Kind: "store-concurrent-kill", Unc: unc, Writers: 4, BlobLen: 2 << 20, Seed: rng.U64() % 100000,
				Fsize: 8000 + rng.Intn(60000)}
			if err := c08ConcurrentKill(a, r, k); err != nil {
				return err
			}
		}
	}
	return nil
}
