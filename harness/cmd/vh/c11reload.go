package main

// C11, reconfiguration through the CLI's own constructors: what `desync mount-index --store-file f` and
// `desync chunk-server --store-file f` do on start-up and on SIGHUP (mountIndexStore / chunkServerStore,
// NewSwapStore, Swap), from every chain shape the CLI builds to every other one, under read load.
//
// mount-index needs FUSE and both commands live in package main, so the harness builds the desync binary with one
// extra file (harness/overlay/c11_reload.go.txt, added to package main with `go build -overlay`; the tree is not
// modified).  With VH_C11_RELOAD set, that binary runs the start-up + reload steps with exactly those functions and
// reports what the swap store answers after every (re)configuration.
//
// predicate (no model): a reload is never refused; after it the chain answers as the NEW configuration documents
//   (router over the configured locations, a '|' group asks its active member, a cache in front is filled);
//   the readers running across the reloads never fail;
// correspondence: the model (S=<shape> with w=<shape> swaps of the CLI shapes of C11_cli_shapes) predicts every answer.

import (
	"bytes"
	"encoding/hex"
	"encoding/json"
	"fmt"
	"os"
	"os/exec"
	"path/filepath"
	"strconv"
	"strings"
	"syscall"
	"time"

	"github.com/folbricht/desync"

	"vh/internal/vh"
)

type c11ReloadCfg struct {
	Stores []string `json:"stores"` // locations: a store name, or "a|b" for a failover group
	Cache  string   `json:"cache"`  // cache store name or ""
}

type c11ReloadCase struct {
	Reload  string           `json:"reload"` // "mount" | "server"
	Holds   map[string][]int `json:"holds"`  // store name -> chunk numbers it holds at the start (caches too)
	Configs []c11ReloadCfg   `json:"configs"`
	NChunks int              `json:"nchunks"`
	Seed    uint64           `json:"data_seed"`
	Steps   json.RawMessage  `json:"observed,omitempty"`
	Model   string           `json:"model,omitempty"`
}

type c11ReloadStep struct {
	Config  int      `json:"config"`
	Build   string   `json:"build"`
	Swap    string   `json:"swap"`
	Panic   string   `json:"panic"`
	Chain   string   `json:"chain"`
	Get     []string `json:"get"`
	Has     []string `json:"has"`
	LoadErr int64    `json:"load_errors"`
}

var c11ReloadBin string
var c11ReloadHangs int

// c11ReloadBinary builds (once per run) the desync binary with the reload driver overlaid onto cmd/desync.
func c11ReloadBinary(a vh.Args, r *vh.Result) string {
	if c11ReloadBin != "" {
		return c11ReloadBin
	}
	repo, root := os.Getenv("VH_REPO"), os.Getenv("VH_VERIF")
	if repo == "" || root == "" {
		r.Note("VH_REPO / VH_VERIF not set: CLI reload cases skipped")
		return ""
	}
	ov := filepath.Join(a.Work, "c11-overlay.json")
	j, _ := json.Marshal(map[string]map[string]string{"Replace": {
		filepath.Join(repo, "cmd", "desync", "verif_c11_reload_overlay.go"): filepath.Join(root, "harness", "overlay", "c11_reload.go.txt")}})
	os.WriteFile(ov, j, 0644)
	out := filepath.Join(a.Work, "desync-c11reload")
	cmd := exec.Command("go", "build", "-overlay", ov, "-o", out, "./cmd/desync")
	cmd.Dir = repo
	if b, err := cmd.CombinedOutput(); err != nil {
		msg := string(b)
		if len(msg) > 600 {
			msg = msg[len(msg)-600:]
		}
		// the driver uses mountIndexStore, chunkServerStore, storeFile, addStoreOptions: a rename there breaks the tie
		r.Fail("corr", "corr:C11/reload-driver-build", "the reload driver no longer builds against cmd/desync: "+strings.TrimSpace(msg), map[string]interface{}{"reload": "build"})
		return ""
	}
	c11ReloadBin = out
	return out
}

// shapes the CLI can build from a store file
var c11ReloadShapes = []string{"one", "two", "group", "one+cache", "group,one+cache", "two+cache"}

func c11ReloadConfig(shape string, rng *vh.Rand, nextCache *int) c11ReloadCfg {
	pick := func(n int) []string {
		p := []int{0, 1, 2, 3}
		for i := range p {
			j := i + rng.Intn(len(p)-i)
			p[i], p[j] = p[j], p[i]
		}
		var out []string
		for _, k := range p[:n] {
			out = append(out, fmt.Sprintf("st%d", k))
		}
		return out
	}
	var c c11ReloadCfg
	base := strings.SplitN(shape, "+", 2)[0]
	switch base {
	case "one":
		c.Stores = pick(1)
	case "two":
		c.Stores = pick(2)
	case "group":
		s := pick(2)
		c.Stores = []string{s[0] + "|" + s[1]}
	case "group,one":
		s := pick(3)
		c.Stores = []string{s[0] + "|" + s[1], s[2]}
	}
	if strings.HasSuffix(shape, "+cache") {
		c.Cache = fmt.Sprintf("cache%d", *nextCache)
		*nextCache++
	}
	return c
}

// c11ReloadPolicy answers a query as the configuration documents, on the current contents (and fills the cache).
func c11ReloadPolicy(cfg c11ReloadCfg, has map[string]map[int]bool, id int) (get string, hasIt bool) {
	inCache := cfg.Cache != "" && has[cfg.Cache][id]
	up := false
	for _, loc := range cfg.Stores {
		first := strings.Split(loc, "|")[0] // healthy local members: the group stays on its first member
		if has[first][id] {
			up = true
			break
		}
	}
	hasIt = inCache || up
	if inCache || up {
		if cfg.Cache != "" {
			has[cfg.Cache][id] = true
		}
		return "n", hasIt
	}
	return "m", hasIt
}

func c11ReloadShape(cfg c11ReloadCfg, member map[string]int, nextGroup *int, server bool) string {
	if nextGroup == nil { // chunk-server -w: the single WritableStore as it is
		return fmt.Sprintf("L%d", member[cfg.Stores[0]])
	}
	var locs []string
	for _, loc := range cfg.Stores {
		ms := strings.Split(loc, "|")
		if len(ms) == 1 {
			locs = append(locs, fmt.Sprintf("L%d", member[ms[0]]))
			continue
		}
		var ls []string
		for _, m := range ms {
			ls = append(ls, fmt.Sprintf("L%d", member[m]))
		}
		locs = append(locs, fmt.Sprintf("F%d[%s]", *nextGroup, strings.Join(ls, ",")))
		*nextGroup++
	}
	s := "R[" + strings.Join(locs, ",") + "]"
	if cfg.Cache != "" {
		s = fmt.Sprintf("C[%s,P[L%d]]", s, member[cfg.Cache])
	}
	if server {
		s = "D[" + s + "]"
	}
	return s
}

func c11CheckReload(a vh.Args, o *vh.Oracle, r *vh.Result, bin string, c *c11ReloadCase, serial int) error {
	desync.Digest = desync.SHA512256{}
	work := filepath.Join(a.Work, fmt.Sprintf("reload%d", serial))
	os.MkdirAll(work, 0755)
	defer os.RemoveAll(work)
	drng := vh.NewRand(c.Seed)
	chunks := make([][]byte, c.NChunks)
	ids := make([]string, c.NChunks)
	for i := range chunks {
		chunks[i] = drng.Bytes(100 + 10*i)
		id := desync.Digest.Sum(chunks[i])
		ids[i] = hex.EncodeToString(id[:])
	}
	// stores on disk
	has := map[string]map[int]bool{}
	var names []string
	for name := range c.Holds {
		names = append(names, name)
	}
	sortStrings(names)
	member := map[string]int{}
	var memberSpecs []string
	for _, name := range names {
		dir := filepath.Join(work, name)
		os.MkdirAll(dir, 0755)
		st, err := desync.NewLocalStore(dir, desync.StoreOptions{})
		if err != nil {
			return err
		}
		has[name] = map[int]bool{}
		var es []string
		for _, i := range c.Holds[name] {
			if i >= c.NChunks {
				continue
			}
			ch, _ := desync.NewChunkWithID(desync.Digest.Sum(chunks[i]), chunks[i], true)
			if err := st.StoreChunk(ch); err != nil {
				return err
			}
			has[name][i] = true
			es = append(es, fmt.Sprintf("%d:%d:1", i, i))
		}
		member[name] = len(memberSpecs)
		memberSpecs = append(memberSpecs, joinOr(es, ",")+"/_/n")
	}
	abs := func(cfg c11ReloadCfg) c11ReloadCfg {
		var out c11ReloadCfg
		for _, loc := range cfg.Stores {
			var ms []string
			for _, m := range strings.Split(loc, "|") {
				ms = append(ms, filepath.Join(work, m))
			}
			out.Stores = append(out.Stores, strings.Join(ms, "|"))
		}
		if cfg.Cache != "" {
			out.Cache = filepath.Join(work, cfg.Cache)
		}
		return out
	}
	// chunks every configuration delivers (for the readers that run across the reloads)
	var stable []string
	for i := 0; i < c.NChunks; i++ {
		all := true
		for _, cfg := range c.Configs {
			ok := false
			for _, loc := range cfg.Stores {
				if has[strings.Split(loc, "|")[0]][i] {
					ok = true
				}
			}
			if cfg.Cache != "" && has[cfg.Cache][i] {
				ok = true
			}
			all = all && ok
		}
		if all {
			stable = append(stable, ids[i])
		}
	}
	nobody := desync.Digest.Sum([]byte("a chunk no store has"))
	script := map[string]interface{}{"kind": c.Reload, "store_file": filepath.Join(work, "stores.json"), "queries": ids, "stable": stable, "missing": hex.EncodeToString(nobody[:])}
	var cfgs []c11ReloadCfg
	for _, cfg := range c.Configs {
		cfgs = append(cfgs, abs(cfg))
	}
	script["configs"] = cfgs
	sf := filepath.Join(work, "script.json")
	j, _ := json.Marshal(script)
	os.WriteFile(sf, j, 0644)
	cmd := exec.Command(bin)
	cmd.Env = append(os.Environ(), "VH_C11_RELOAD="+sf, "HOME="+work)
	var stdout, stderr bytes.Buffer
	cmd.Stdout, cmd.Stderr = &stdout, &stderr
	done := make(chan error, 1)
	go func() { done <- cmd.Run() }()
	select {
	case err := <-done:
		if err != nil {
			r.Fail("predicate", "cli/reload-driver-fails", fmt.Sprintf("reload driver: %v: %s", err, strings.TrimSpace(stderr.String())), c)
			return nil
		}
	case <-time.After(20 * time.Second):
		cmd.Process.Signal(syscall.SIGQUIT) // makes the Go runtime dump the goroutines
		select {
		case <-done:
		case <-time.After(3 * time.Second):
			cmd.Process.Kill()
			<-done
		}
		var stuck []string
		for _, g := range strings.Split(stderr.String(), "\n\n") {
			if strings.Contains(g, "desync.(*Swap") && len(stuck) < 4 {
				ls := strings.Split(g, "\n")
				if len(ls) > 9 {
					ls = ls[:9]
				}
				stuck = append(stuck, strings.Join(ls, "\n"))
			}
		}
		c11ReloadHangs++
		r.Fail("predicate", "swap/request-and-swap-stuck", fmt.Sprintf("%s --store-file: start-up + reload (configurations %v) with readers in flight - one of them asking for a chunk no store has - made no progress for 20 s:\n%s", c.Reload, c.Configs, strings.Join(stuck, "\n\n")), c)
		return nil
	}
	var steps []c11ReloadStep
	if stdout.Len() == 0 {
		r.Fail("predicate", "cli/reload-driver-fails", "reload driver produced no report: "+strings.TrimSpace(stderr.String()), c)
		return nil
	}
	if err := json.Unmarshal(stdout.Bytes(), &steps); err != nil {
		return fmt.Errorf("reload driver output: %v: %q", err, stdout.String())
	}
	c.Steps = json.RawMessage(bytes.TrimSpace(stdout.Bytes()))
	shapeOf := func(cfg c11ReloadCfg) string {
		s := fmt.Sprintf("%d location(s)", len(cfg.Stores))
		if cfg.Cache != "" {
			s += "+cache"
		}
		return s + " " + strings.Join(cfg.Stores, ",")
	}
	key := fmt.Sprintf("reload|%s|%v|%v", c.Reload, c.Configs, c.Holds)
	r.Count(key, len(c.Configs) >= 2)
	r.Dist("reload:" + c.Reload)
	// ---- predicate ----
	for k, st := range steps {
		if st.Panic != "" {
			r.Fail("predicate", "swap/panic", fmt.Sprintf("%s --store-file: reloading from configuration %d (%s) to %d (%s) panicked: %s", c.Reload, max(k-1, 0), shapeOf(c.Configs[max(k-1, 0)]), k, shapeOf(c.Configs[k]), st.Panic), c)
			return nil
		}
	}
	if len(steps) != len(c.Configs) {
		r.Fail("predicate", "cli/reload-driver-fails", fmt.Sprintf("%d configurations, %d reports", len(c.Configs), len(steps)), c)
		return nil
	}
	var implSeq []string
	for k, st := range steps {
		cfg := c.Configs[k]
		if st.Build != "" {
			r.Fail("predicate", "cli/reload-build-fails", fmt.Sprintf("configuration %d (%s) could not be built: %s", k, shapeOf(cfg), st.Build), c)
			return nil
		}
		if k > 0 && st.Swap != "" {
			r.Fail("predicate", "cli/reload-refused", fmt.Sprintf("%s --store-file: the reload from configuration %d (%s) to %d (%s) was refused (%s): the process silently stays on the old chain", c.Reload, k-1, shapeOf(c.Configs[k-1]), k, shapeOf(cfg), st.Swap), c)
		}
		if k > 0 {
			implSeq = append(implSeq, "W"+map[bool]string{true: "1", false: "0"}[st.Swap == ""])
		}
		for q := 0; q < c.NChunks; q++ {
			wantGet, wantHas := c11ReloadPolicy(cfg, has, q)
			gotGet := st.Get[q]
			if len(gotGet) > 1 {
				gotGet = "o"
			}
			implSeq = append(implSeq, "G:"+gotGet, "H:"+st.Has[q])
			if st.Get[q] != wantGet || st.Has[q] != fmt.Sprint(wantHas) {
				r.Fail("predicate", "cli/reload-chain-differs-from-configuration", fmt.Sprintf("after (re)configuration %d = %s the chain answered GetChunk/HasChunk of chunk %d with %s/%s; that configuration documents %s/%v (chain in use: %s)", k, shapeOf(cfg), q, st.Get[q], st.Has[q], wantGet, wantHas, st.Chain), c)
				break
			}
		}
	}
	last := steps[len(steps)-1]
	if last.LoadErr != 0 {
		r.Fail("predicate", "cli/reload-fails-requests-in-flight", fmt.Sprintf("%d requests of the readers running across the reloads failed although every configuration delivers their chunks", last.LoadErr), c)
	}
	if cfg := c.Configs[len(c.Configs)-1]; cfg.Cache != "" && last.Swap == "" {
		st, _ := desync.NewLocalStore(filepath.Join(work, cfg.Cache), desync.StoreOptions{})
		for q := 0; q < c.NChunks; q++ {
			if last.Get[q] == "n" {
				if _, err := st.GetChunk(desync.ChunkID(desync.Digest.Sum(chunks[q]))); err != nil {
					r.Fail("predicate", "cli/reload-cache-not-filled", fmt.Sprintf("the last configuration has cache %s, chunk %d was delivered but is not in the cache: %v", cfg.Cache, q, err), c)
					break
				}
			}
		}
	}
	// ---- correspondence ----
	if o == nil {
		return nil
	}
	ng := 0
	ngp := &ng
	mode := "S="
	if c.Reload == "server-w" {
		ngp, mode = nil, "W="
	}
	top := mode + c11ReloadShape(c.Configs[0], member, ngp, c.Reload == "server")
	var ops []string
	for k := range c.Configs {
		if k > 0 {
			ops = append(ops, "w="+c11ReloadShape(c.Configs[k], member, ngp, c.Reload == "server"))
		}
		for q := 0; q < c.NChunks; q++ {
			ops = append(ops, "g"+strconv.Itoa(q), "h"+strconv.Itoa(q))
		}
	}
	ans, err := o.Call("c11.run", joinOr(memberSpecs, ";"), strconv.Itoa(ng+1), top, joinOr(ops, "+"))
	if err != nil {
		return err
	}
	p := strings.SplitN(ans, "|", 3)
	if len(p) != 3 {
		return fmt.Errorf("bad oracle answer %q", ans)
	}
	r.Corr()
	var modelSeq []string
	for _, res := range strings.Split(p[0], "+") {
		switch {
		case strings.HasPrefix(res, "W"):
			modelSeq = append(modelSeq, res)
		case strings.HasPrefix(res, "G"):
			cl := res[strings.LastIndex(res, ":")+1:]
			if cl != "n" && cl != "m" {
				cl = "o"
			}
			modelSeq = append(modelSeq, "G:"+cl)
		case strings.HasPrefix(res, "H"):
			if strings.HasSuffix(res, ":n") {
				modelSeq = append(modelSeq, "H:"+map[bool]string{true: "true", false: "false"}[res[1] == '1'])
			} else {
				modelSeq = append(modelSeq, "H:o")
			}
		}
	}
	c.Model = strings.Join(modelSeq, " ")
	if c.Model != strings.Join(implSeq, " ") {
		r.Fail("corr", "corr:C11/cli-reload", fmt.Sprintf("model %s, implementation %s (%s, configurations %v)", c.Model, strings.Join(implSeq, " "), top, c.Configs), c)
	}
	return nil
}

func sortStrings(l []string) {
	for i := 1; i < len(l); i++ {
		for j := i; j > 0 && l[j] < l[j-1]; j-- {
			l[j], l[j-1] = l[j-1], l[j]
		}
	}
}

func c11GenReload(rng *vh.Rand, kind string, shapes []string) *c11ReloadCase {
	c := &c11ReloadCase{Reload: kind, NChunks: 6, Seed: rng.U64(), Holds: map[string][]int{}}
	// four stores with different, overlapping contents: every chunk is somewhere, no store has everything
	for s := 0; s < 4; s++ {
		var h []int
		for i := 0; i < c.NChunks; i++ {
			if i%4 == s || rng.Chance(1, 4) {
				h = append(h, i)
			}
		}
		c.Holds[fmt.Sprintf("st%d", s)] = h
	}
	nc := 0
	for _, sh := range shapes {
		c.Configs = append(c.Configs, c11ReloadConfig(sh, rng, &nc))
	}
	for k := 0; k < nc; k++ {
		var h []int
		for i := 0; i < c.NChunks; i++ {
			if rng.Chance(1, 5) {
				h = append(h, i)
			}
		}
		c.Holds[fmt.Sprintf("cache%d", k)] = h
	}
	return c
}

func c11Reload(a vh.Args, o *vh.Oracle, r *vh.Result, rng *vh.Rand) error {
	bin := c11ReloadBinary(a, r)
	if bin == "" {
		return nil
	}
	serial := 0
	run := func(c *c11ReloadCase) error {
		if c11ReloadHangs >= 1 {
			return nil // a hang costs 20 s of watchdog time: one is enough
		}
		serial++
		r.Running(c)
		return c11CheckReload(a, o, r, bin, c, serial)
	}
	// chunk-server -w: LocalStore -> LocalStore (the writable server wraps the bare store in a SwapWriteStore)
	for k := 0; k < 3; k++ {
		if err := run(c11GenReload(rng, "server-w", []string{"one", "one", "one"})); err != nil {
			return err
		}
	}
	// every chain shape to every chain shape, as mount-index does it; a sample of them as chunk-server does it
	for _, from := range c11ReloadShapes {
		for _, to := range c11ReloadShapes {
			if err := run(c11GenReload(rng, "mount", []string{from, to})); err != nil {
				return err
			}
			r.Dist("reload-pair:" + from + "->" + to)
		}
	}
	n := 8
	if a.Tier == "thorough" {
		n = 150
	}
	for k := 0; k < n; k++ {
		var shapes []string
		for j := rng.Range(2, 4); j > 0; j-- {
			shapes = append(shapes, c11ReloadShapes[rng.Intn(len(c11ReloadShapes))])
		}
		kind := "mount"
		if k%2 == 1 {
			kind = "server"
		}
		if err := run(c11GenReload(rng, kind, shapes)); err != nil {
			return err
		}
	}
	return nil
}

// C11reload runs only the CLI reload family (debugging aid: vh C11reload -oracle ... -out ...).
func init() {
	props["C11reload"] = func(a vh.Args, o *vh.Oracle, r *vh.Result) error {
		r.Rule = "CLI reload family of C11 only"
		return c11Reload(a, o, r, vh.NewRand(a.Seed))
	}
}
