package main

// C19 -- decoders survive arbitrary input.
//
// Every case is a byte string fed to one decoder (FormatDecoder.Next loop, ArchiveDecoder.Next loop,
// IndexFromReader, Protocol.ReadMessage loop, HTTP PUT to the index handler).  The decoders run in a
// CHILD process (this binary re-executed as "vh C19-child") under an address-space limit, so that a
// panic, a fatal out-of-memory or a hang is observed as a failing case instead of killing the harness.
// The child measures runtime.MemStats.TotalAlloc around every decoder call.
//
// predicate (independent of the model): the child survives the case, and the bytes allocated by the
// decoder calls stay below c19AllocFactor*len(input) + c19AllocConst.
// correspondence: ok/err class, every decoded element / node / message, against the extracted model.

import (
	"bufio"
	"bytes"
	"encoding/binary"
	"encoding/hex"
	"encoding/json"
	"fmt"
	"io"
	"net/http"
	"net/http/httptest"
	"os"
	"os/exec"
	"path/filepath"
	"runtime"
	"sort"
	"strconv"
	"strings"
	"syscall"
	"time"

	"github.com/folbricht/desync"

	"vh/internal/vh"
)

func init() {
	props["C19"] = runC19
	props["C19-child"] = runC19Child
}

const (
	// Go-level cost of decoding: every 8-byte word is read into its own 8-byte buffer, elements are
	// boxed, strings copied, slices grown by doubling, ioutil.ReadAll regrows its buffer: a small
	// multiple of the input; plus one 64 KiB ReadN buffer, the 4 KiB bufio buffer and runtime noise.
	c19AllocFactor = 24
	c19AllocConst  = 384 << 10
	c19ChildMemory = 3 << 30 // RLIMIT_AS of the child
	c19AllocPerReply = 512 << 10
)

type c19Case struct {
	Decoder  string `json:"decoder"` // format | archive | index | message | httpput | server | client
	Digest   string `json:"digest,omitempty"`
	InputHex string `json:"input_hex"`
	Gen      string `json:"generator"`
	Declared string `json:"declared_content_length,omitempty"` // rawput: the Content-Length the request announces, or "chunked"
	// filled in by the run
	Impl  *c19Out `json:"impl,omitempty"`
	Model string  `json:"model,omitempty"`
}

type c19Out struct {
	Status string   `json:"status"` // end | err | crash:<how>
	Err    string   `json:"err,omitempty"`
	Items  []string `json:"items"`
	Alloc  uint64   `json:"alloc"`
	Calls  int      `json:"calls"`
	// seen but not judged (outside the property): e.g. a CHUNK payload whose zstd frame declares a large size
	Observed string `json:"observed,omitempty"`
}

// ---------- child ----------

type c19Meter struct {
	total uint64
	calls int
	ms    runtime.MemStats
}

func (m *c19Meter) measure(f func()) {
	runtime.ReadMemStats(&m.ms)
	before := m.ms.TotalAlloc
	f()
	runtime.ReadMemStats(&m.ms)
	m.total += m.ms.TotalAlloc - before
	m.calls++
}

func c19ModeString(m os.FileMode) string { return u64s(uint64(uint32(m))) }

func c19ElemString(e interface{}, payload []byte) string {
	j := func(parts ...string) string { return strings.Join(parts, ":") }
	switch t := e.(type) {
	case desync.FormatEntry:
		return j("entry", u64s(t.Size), u64s(t.FeatureFlags), c19ModeString(t.Mode), u64s(t.Flags), u64s(uint64(t.UID)), u64s(uint64(t.GID)), u64s(uint64(t.MTime.UnixNano())))
	case desync.FormatUser:
		return j("user", u64s(t.Size), vh.Hex([]byte(t.Name)))
	case desync.FormatGroup:
		return j("group", u64s(t.Size), vh.Hex([]byte(t.Name)))
	case desync.FormatXAttr:
		return j("xattr", u64s(t.Size), vh.Hex([]byte(t.NameAndValue)))
	case desync.FormatSELinux:
		return j("selinux", u64s(t.Size), vh.Hex([]byte(t.Label)))
	case desync.FormatFilename:
		return j("filename", u64s(t.Size), vh.Hex([]byte(t.Name)))
	case desync.FormatSymlink:
		return j("symlink", u64s(t.Size), vh.Hex([]byte(t.Target)))
	case desync.FormatDevice:
		return j("device", u64s(t.Size), u64s(t.Major), u64s(t.Minor))
	case desync.FormatPayload:
		return j("payload", u64s(t.Size), vh.Hex(payload))
	case desync.FormatFCaps:
		return j("fcaps", u64s(t.Size), vh.Hex(t.Data))
	case desync.FormatACLUser:
		return j("acluser", u64s(t.Size), u64s(t.UID), u64s(t.Permissions), vh.Hex([]byte(t.Name)))
	case desync.FormatACLGroup:
		return j("aclgroup", u64s(t.Size), u64s(t.GID), u64s(t.Permissions), vh.Hex([]byte(t.Name)))
	case desync.FormatACLGroupObj:
		return j("aclgroupobj", u64s(t.Size), u64s(t.Permissions))
	case desync.FormatACLDefault:
		return j("acldefault", u64s(t.Size), u64s(t.UserObjPermissions), u64s(t.GroupObjPermissions), u64s(t.OtherPermissions), u64s(t.MaskPermissions))
	case desync.FormatGoodbye:
		items := make([]string, len(t.Items))
		for i, it := range t.Items {
			items[i] = u64s(it.Offset) + "/" + u64s(it.Size) + "/" + u64s(it.Hash)
		}
		s := strings.Join(items, ";")
		if s == "" {
			s = "-"
		}
		return j("goodbye", u64s(t.Size), s)
	case desync.FormatIndex:
		return j("index", u64s(t.Size), u64s(t.FeatureFlags), u64s(t.ChunkSizeMin), u64s(t.ChunkSizeAvg), u64s(t.ChunkSizeMax))
	case desync.FormatTable:
		items := make([]string, len(t.Items))
		for i, it := range t.Items {
			items[i] = u64s(it.Offset) + "/" + hex.EncodeToString(it.Chunk[:])
		}
		s := strings.Join(items, ";")
		if s == "" {
			s = "-"
		}
		return j("table", u64s(t.Size), s)
	}
	return fmt.Sprintf("unknown:%T", e)
}

func c19Xattrs(x desync.Xattrs) string {
	if len(x) == 0 {
		return "-"
	}
	keys := make([]string, 0, len(x))
	for k := range x {
		keys = append(keys, k)
	}
	sort.Strings(keys)
	out := make([]string, len(keys))
	for i, k := range keys {
		out[i] = vh.Hex([]byte(k)) + "=" + vh.Hex([]byte(x[k]))
	}
	return strings.Join(out, ",")
}

func c19NameString(name string) string {
	if name == "." {
		return "."
	}
	parts := strings.Split(name, "/")
	for i, p := range parts {
		parts[i] = vh.Hex([]byte(p))
	}
	return strings.Join(parts, "/")
}

func c19Meta(uid, gid int, mode os.FileMode, mtime time.Time) string {
	return strings.Join([]string{u64s(uint64(uid)), u64s(uint64(gid)), c19ModeString(mode), u64s(uint64(mtime.UnixNano()))}, ":")
}

func c19RunOne(c *c19Case) *c19Out {
	in := vh.UnHex(c.InputHex)
	out := &c19Out{Items: []string{}}
	var m c19Meter
	switch c.Decoder {
	case "format":
		d := desync.NewFormatDecoder(bytes.NewReader(in))
		for {
			var e interface{}
			var err error
			m.measure(func() { e, err = d.Next() })
			if err != nil {
				out.Status, out.Err = "err", err.Error()
				break
			}
			if e == nil {
				out.Status = "end"
				break
			}
			var payload []byte
			if p, ok := e.(desync.FormatPayload); ok {
				payload, _ = io.ReadAll(p.Data)
			}
			out.Items = append(out.Items, c19ElemString(e, payload))
		}
	case "archive":
		d := desync.NewArchiveDecoder(bytes.NewReader(in))
		for {
			var n interface{}
			var err error
			m.measure(func() { n, err = d.Next() })
			if err != nil {
				out.Status, out.Err = "err", err.Error()
				break
			}
			if n == nil {
				out.Status = "end"
				break
			}
			var s string
			switch t := n.(type) {
			case desync.NodeDirectory:
				s = strings.Join([]string{"dir", c19NameString(t.Name), c19Meta(t.UID, t.GID, t.Mode, t.MTime), c19Xattrs(t.Xattrs)}, ":")
			case desync.NodeFile:
				data, _ := io.ReadAll(t.Data)
				s = strings.Join([]string{"file", c19NameString(t.Name), c19Meta(t.UID, t.GID, t.Mode, t.MTime), c19Xattrs(t.Xattrs), u64s(t.Size), vh.Hex(data)}, ":")
			case desync.NodeSymlink:
				s = strings.Join([]string{"symlink", c19NameString(t.Name), c19Meta(t.UID, t.GID, t.Mode, t.MTime), c19Xattrs(t.Xattrs), vh.Hex([]byte(t.Target))}, ":")
			case desync.NodeDevice:
				s = strings.Join([]string{"device", c19NameString(t.Name), c19Meta(t.UID, t.GID, t.Mode, t.MTime), c19Xattrs(t.Xattrs), u64s(t.Major), u64s(t.Minor)}, ":")
			default:
				s = fmt.Sprintf("unknown:%T", n)
			}
			out.Items = append(out.Items, s)
		}
	case "index":
		c04SetDigest(c.Digest)
		var idx desync.Index
		var err error
		m.measure(func() { idx, err = desync.IndexFromReader(bytes.NewReader(in)) })
		if err != nil {
			out.Status, out.Err = "err", err.Error()
		} else {
			out.Status = "end"
			out.Items = append(out.Items, c04IndexString(idx))
		}
	case "message":
		r := bytes.NewReader(in)
		p := desync.NewProtocol(r, io.Discard)
		for {
			if r.Len() == 0 {
				out.Status = "end"
				break
			}
			var msg desync.Message
			var err error
			m.measure(func() { msg, err = p.ReadMessage() })
			if err != nil {
				out.Status, out.Err = "err", err.Error()
				break
			}
			out.Items = append(out.Items, "msg:"+u64s(msg.Type)+":"+vh.Hex(msg.Body))
		}
	case "httpput":
		c04SetDigest(c.Digest)
		dir, err := os.MkdirTemp("", "c19put")
		if err != nil {
			out.Status, out.Err = "err", err.Error()
			break
		}
		defer os.RemoveAll(dir)
		store, _ := desync.NewLocalIndexStore(dir)
		h := desync.NewHTTPIndexHandler(store, true, "")
		req := httptest.NewRequest("PUT", "/x.caibx", bytes.NewReader(in))
		rec := httptest.NewRecorder()
		m.measure(func() { h.ServeHTTP(rec, req) }) // a panic here is the child's panic: no net/http recover in between
		if rec.Code == http.StatusOK {
			out.Status = "end"
			if b, err := os.ReadFile(filepath.Join(dir, "x.caibx")); err == nil {
				if idx, err := desync.IndexFromReader(bytes.NewReader(b)); err == nil {
					out.Items = append(out.Items, c04IndexString(idx))
				}
			}
		} else {
			out.Status, out.Err = "err", strconv.Itoa(rec.Code)
		}
	case "server", "client":
		c19RunProto(c, in, out, &m)
	case "rawput":
		c19RunRawPut(c, in, out, &m)
	default:
		out.Status, out.Err = "err", "unknown decoder"
	}
	out.Alloc, out.Calls = m.total, m.calls
	return out
}

// runC19Child: -replay <file with a JSON list of cases>; results are appended line by line to <file>.out
// ("start i" before, the JSON result after each case) so that the parent can tell which case killed it.
func runC19Child(a vh.Args, o *vh.Oracle, r *vh.Result) error {
	lim := syscall.Rlimit{Cur: c19ChildMemory, Max: c19ChildMemory}
	syscall.Setrlimit(syscall.RLIMIT_AS, &lim)
	b, err := os.ReadFile(a.Replay)
	if err != nil {
		return err
	}
	var cases []*c19Case
	if err := json.Unmarshal(b, &cases); err != nil {
		return err
	}
	f, err := os.OpenFile(a.Replay+".out", os.O_CREATE|os.O_WRONLY|os.O_APPEND, 0644)
	if err != nil {
		return err
	}
	defer f.Close()
	// warm up lazily initialised runtime/library state so that it is not charged to the first case
	c19RunOne(&c19Case{Decoder: "format", InputHex: "00"})
	c19RunOne(&c19Case{Decoder: "httpput", Digest: "sha256", InputHex: "00"})
	c19ProtoWarmUp() // the zstd encoder/decoder set themselves up on first use
	for i, c := range cases {
		fmt.Fprintf(f, "start %d\n", i)
		out := c19RunOne(c)
		j, _ := json.Marshal(out)
		fmt.Fprintf(f, "done %d %s\n", i, j)
	}
	return nil
}

// ---------- parent ----------

// c19RunBatch runs the cases in child processes and fills c.Impl. A case that kills the child gets
// Status "crash:<how>"; the rest of the batch continues in a fresh child.
func c19RunBatch(a vh.Args, cases []*c19Case, seq *int) error {
	todo := cases
	for len(todo) > 0 {
		*seq++
		file := filepath.Join(a.Work, fmt.Sprintf("batch%d.json", *seq))
		j, err := json.Marshal(todo)
		if err != nil {
			return err
		}
		if err := os.WriteFile(file, j, 0644); err != nil {
			return err
		}
		cmd := exec.Command(os.Args[0], "C19-child", "-oracle", "none", "-replay", file)
		cmd.Env = append(os.Environ(), "GOMEMLIMIT=1GiB", "GOTRACEBACK=single", "TMPDIR="+a.Work) // scratch of a crashed child goes away with a.Work
		var stderr bytes.Buffer
		cmd.Stderr = &stderr
		cmd.Stdout = io.Discard
		done := make(chan error, 1)
		if err := cmd.Start(); err != nil {
			return err
		}
		go func() { done <- cmd.Wait() }()
		timeout := time.Duration(30+len(todo)/20) * time.Second
		how := ""
		select {
		case <-done:
		case <-time.After(timeout):
			cmd.Process.Kill()
			<-done
			how = "hang"
		}
		// read what the child managed to write
		finished := -1
		started := -1
		if f, err := os.Open(file + ".out"); err == nil {
			sc := bufio.NewScanner(f)
			sc.Buffer(make([]byte, 1<<20), 1<<28)
			for sc.Scan() {
				line := sc.Text()
				if strings.HasPrefix(line, "start ") {
					started, _ = strconv.Atoi(line[6:])
				} else if strings.HasPrefix(line, "done ") {
					parts := strings.SplitN(line, " ", 3)
					i, _ := strconv.Atoi(parts[1])
					var out c19Out
					if json.Unmarshal([]byte(parts[2]), &out) == nil && i < len(todo) {
						todo[i].Impl = &out
						finished = i
					}
				}
			}
			f.Close()
		}
		os.Remove(file)
		os.Remove(file + ".out")
		if finished == len(todo)-1 {
			return nil
		}
		// the child died on case 'started'
		if started <= finished || started >= len(todo) {
			return fmt.Errorf("child ended without running case %d: %s", finished+1, tail(stderr.String(), 300))
		}
		if how == "" {
			es := stderr.String()
			switch {
			case strings.Contains(es, "panic:"):
				how = "panic"
				if i := strings.Index(es, "panic:"); i >= 0 {
					how += ": " + strings.SplitN(es[i+6:], "\n", 2)[0]
				}
			case strings.Contains(es, "out of memory") || strings.Contains(es, "cannot allocate memory"):
				how = "out-of-memory"
			case strings.Contains(es, "fatal error:"):
				i := strings.Index(es, "fatal error:")
				how = "fatal: " + strings.SplitN(es[i+12:], "\n", 2)[0]
			default:
				how = "died: " + tail(es, 120)
			}
		}
		todo[started].Impl = &c19Out{Status: "crash:" + strings.TrimSpace(how), Items: []string{}}
		todo = todo[started+1:]
	}
	return nil
}

func tail(s string, n int) string {
	if len(s) > n {
		return s[len(s)-n:]
	}
	return s
}

// c19ModelItems maps the model's raw 64-bit mode words through desync.StatModeToFilemode the way the
// Go decoder does (the model keeps the word of the stream; that conversion is C05's subject).
func c19ModelItems(decoder, items string) []string {
	if items == "-" || items == "" {
		return []string{}
	}
	out := strings.Split(items, "|")
	conv := func(s string) string {
		v, err := strconv.ParseUint(s, 10, 64)
		if err != nil {
			return s
		}
		return c19ModeString(desync.StatModeToFilemode(uint32(v)))
	}
	for i, it := range out {
		f := strings.Split(it, ":")
		switch {
		case decoder == "format" && f[0] == "entry" && len(f) == 8:
			f[3] = conv(f[3])
		case decoder == "archive" && len(f) >= 7:
			f[4] = conv(f[4])
			// xattrs: the model lists them in stream order, Go keeps a map (later key wins)
			if f[6] != "-" {
				m := map[string]string{}
				for _, kv := range strings.Split(f[6], ",") {
					p := strings.SplitN(kv, "=", 2)
					m[p[0]] = p[1]
				}
				keys := make([]string, 0, len(m))
				for k := range m {
					keys = append(keys, k)
				}
				sort.Slice(keys, func(a, b int) bool { return string(vh.UnHex(keys[a])) < string(vh.UnHex(keys[b])) })
				kv := make([]string, len(keys))
				for j, k := range keys {
					kv[j] = k + "=" + m[k]
				}
				f[6] = strings.Join(kv, ",")
			}
		}
		out[i] = strings.Join(f, ":")
	}
	return out
}

// c19BigOracle: a second oracle process with a large stack, for inputs on which the extracted
// (non tail-recursive) list functions would overflow the default 8 MiB stack.
var c19BigOracle *vh.Oracle

func c19StartBigOracle(a vh.Args) {
	if _, err := os.Stat(a.Oracle); err != nil {
		return
	}
	script := filepath.Join(a.Work, "oracle-bigstack.sh")
	os.WriteFile(script, []byte("#!/bin/sh\nexport OCAMLRUNPARAM=s=8M\nulimit -s unlimited 2>/dev/null || ulimit -s 4000000 2>/dev/null\nexec "+a.Oracle+"\n"), 0755)
	if o, err := vh.StartOracle(script); err == nil {
		c19BigOracle = o
	}
}

func c19Evaluate(o *vh.Oracle, r *vh.Result, c *c19Case) error {
	in := vh.UnHex(c.InputHex)
	if len(in) > 40000 && c19BigOracle != nil && o != nil {
		o = c19BigOracle
	}
	gen := strings.SplitN(c.Gen, "@", 2)[0]
	r.Count(fmt.Sprintf("%s|%s|%d|%x|%s", c.Decoder, c.Digest, len(in), fnv(in), c.Declared), len(in) > 0 || c.Declared != "")
	r.Dist("decoder:" + c.Decoder)
	r.Dist("gen:" + gen)
	if c.Impl == nil {
		return fmt.Errorf("case was not run: %s %s", c.Decoder, c.Gen)
	}
	st := strings.SplitN(c.Impl.Status, ":", 2)[0]
	r.Dist("result:" + st)
	if c.Impl.Observed != "" {
		r.Dist("observed:" + c.Impl.Observed)
	}
	if len(r.Samples) < 5 && len(in) > 0 {
		r.Sample(map[string]interface{}{"decoder": c.Decoder, "generator": c.Gen, "input_len": len(in), "status": c.Impl.Status, "items": len(c.Impl.Items), "alloc": c.Impl.Alloc})
	}
	// ---- predicate ----
	if st == "crash" {
		how := strings.SplitN(c.Impl.Status[6:], ":", 2)[0]
		r.Fail("predicate", c.Decoder+"/"+how, fmt.Sprintf("%s decoder: %s on %d bytes of input (%s)", c.Decoder, c.Impl.Status[6:], len(in), c.Gen), c)
		return nil
	}
	// "malformed input yields an error": an index whose table has an end offset below the preceding one
	// (read off the bytes at the fixed caibx offsets) describes no blob and must be refused, whatever
	// maximum chunk size the file declares for itself
	if (c.Decoder == "index" || c.Decoder == "httpput" || c.Decoder == "rawput") && st == "end" {
		if _, complete := c04RefParse(in); !complete {
			r.Fail("predicate", c.Decoder+"/accepts-incomplete-index", fmt.Sprintf("%s decoder accepted %d bytes that end before the tail record of an index (%s)", c.Decoder, len(in), c.Gen), c)
		}
		if ref, complete := c04RefParse(in); complete && ref.HdrType == c04IndexType && ref.TblType == c04TableType {
			var last uint64
			for i, off := range ref.Offsets {
				if off < last {
					r.Fail("predicate", c.Decoder+"/accepts-decreasing-offsets", fmt.Sprintf("%s decoder accepted an index whose row %d ends at %d, before the preceding row's end %d (declared max %d; %s)", c.Decoder, i, off, last, ref.Max, c.Gen), c)
					break
				}
				last = off
			}
		}
	}
	bound := uint64(c19AllocFactor*len(in) + c19AllocConst)
	if c.Decoder == "server" {
		// serving a chunk compresses it (zstd EncodeAll): work per reply sent, not per input byte
		bound += uint64(len(c.Impl.Items)) * c19AllocPerReply
	}
	if c.Impl.Alloc > bound {
		r.Fail("predicate", c.Decoder+"/allocation", fmt.Sprintf("%s decoder allocated %d bytes for %d bytes of input (bound %d; %s)", c.Decoder, c.Impl.Alloc, len(in), bound, c.Gen), c)
	}
	if o == nil {
		return nil
	}
	// ---- correspondence ----
	var ans string
	var err error
	switch c.Decoder {
	case "format":
		ans, err = o.Call("c19.elems", vh.Hex(in))
	case "archive":
		ans, err = o.Call("c19.archive", vh.Hex(in))
	case "message":
		ans, err = o.Call("c19.msgs", vh.Hex(in))
	case "server":
		ans, err = o.Call("c19.serve", c19ProtoStoreIDs(), vh.Hex(in))
	case "client":
		ans, err = o.Call("c19.client", vh.Hex(in))
	case "index", "httpput", "rawput":
		ans, err = o.Call("c04.decode", c.Digest, vh.Hex(in))
		if err == nil {
			f := strings.SplitN(ans, " ", 4)
			switch f[0] {
			case "ok":
				ans = f[1] + " end " + strings.ReplaceAll(f[3], " ", "_")
			default: // err kind alloc | panic kind alloc
				ans = f[2] + " " + f[0] + ":" + f[1] + " -"
			}
		}
	}
	if err != nil {
		return err
	}
	r.Corr()
	f := strings.SplitN(ans, " ", 3)
	c.Model = f[1]
	malloc, _ := strconv.ParseUint(f[0], 10, 64)
	mst := strings.SplitN(f[1], ":", 2)[0]
	if mst == "panic" || f[1] == "err:outoffuel" {
		r.Fail("corr", "corr:C19/model-"+mst, "the model ends in "+f[1]+" on this input", c)
		return nil
	}
	if mst != st {
		r.Fail("corr", "corr:C19/"+c.Decoder+"-class", fmt.Sprintf("implementation: %s (%s), model: %s (%s)", c.Impl.Status, c.Impl.Err, f[1], c.Gen), c)
		return nil
	}
	var want []string
	if c.Decoder == "index" || c.Decoder == "httpput" || c.Decoder == "rawput" {
		if f[2] != "-" {
			want = []string{strings.ReplaceAll(f[2], "_", " ")}
		} else {
			want = []string{}
		}
	} else {
		want = c19ModelItems(c.Decoder, f[2])
	}
	if len(want) != len(c.Impl.Items) {
		r.Fail("corr", "corr:C19/"+c.Decoder+"-items", fmt.Sprintf("implementation decoded %d items, model %d (%s)", len(c.Impl.Items), len(want), c.Gen), c)
		return nil
	}
	for i := range want {
		if want[i] != c.Impl.Items[i] {
			r.Fail("corr", "corr:C19/"+c.Decoder+"-items", fmt.Sprintf("item %d: implementation %.80s, model %.80s (%s)", i, c.Impl.Items[i], want[i], c.Gen), c)
			return nil
		}
	}
	// the model's ghost counter against the measurement: the Go cost of what the model counts is a small multiple
	if c.Impl.Alloc > 8*malloc+bound {
		r.Fail("corr", "corr:C19/"+c.Decoder+"-alloc", fmt.Sprintf("measured %d bytes, model counts %d", c.Impl.Alloc, malloc), c)
	}
	return nil
}

// ---------- generators ----------

var c19Types = []struct {
	name string
	typ  uint64
}{
	{"entry", desync.CaFormatEntry}, {"user", desync.CaFormatUser}, {"group", desync.CaFormatGroup},
	{"xattr", desync.CaFormatXAttr}, {"selinux", desync.CaFormatSELinux}, {"filename", desync.CaFormatFilename},
	{"symlink", desync.CaFormatSymlink}, {"device", desync.CaFormatDevice}, {"payload", desync.CaFormatPayload},
	{"fcaps", desync.CaFormatFCaps}, {"acluser", desync.CaFormatACLUser}, {"aclgroup", desync.CaFormatACLGroup},
	{"aclgroupobj", desync.CaFormatACLGroupObj}, {"acldefault", desync.CaFormatACLDefault},
	{"goodbye", desync.CaFormatGoodbye}, {"index", desync.CaFormatIndex}, {"table", desync.CaFormatTable},
	{"acldefaultuser", desync.CaFormatACLDefaultUser}, {"unknown", 0x1234567812345678},
}

var c19Sizes = []uint64{0, 8, 15, 16, 17, 24, 31, 32, 33, 39, 40, 41, 47, 48, 63, 64, 65, 88, 136,
	65536 + 15, 65536 + 16, 65536 + 17, 1 << 20, 1 << 31, 1<<31 + 16, 1 << 40, 1 << 63, 1<<63 + 15, 1<<63 + 16, 1<<63 + 17, 1<<64 - 1}

func le64(v ...uint64) []byte {
	b := make([]byte, 8*len(v))
	for i, x := range v {
		binary.LittleEndian.PutUint64(b[8*i:], x)
	}
	return b
}

func c19ValidEntry(rng *vh.Rand) []byte {
	mode := []uint64{0040755, 0100644, 0120777, 0060660, 0020660}[rng.Intn(5)]
	return le64(64, desync.CaFormatEntry, rng.U64(), mode, 0, uint64(rng.Intn(70000)), uint64(rng.Intn(70000)), rng.U64()>>1)
}

func c19Str(typ uint64, s string) []byte {
	return append(le64(uint64(16+len(s)+1), typ), append([]byte(s), 0)...)
}

func c19Goodbye(n int, rng *vh.Rand) []byte {
	b := le64(uint64(16+24*(n+1)), desync.CaFormatGoodbye)
	for i := 0; i < n; i++ {
		b = append(b, le64(rng.U64(), rng.U64(), rng.U64())...)
	}
	return append(b, le64(uint64(rng.Intn(1000)), uint64(rng.Intn(1000)), desync.CaFormatGoodbyeTailMarker)...)
}

// c19ValidArchive: a random well-formed catar stream (directories, files, symlinks, devices, xattrs).
func c19ValidArchive(rng *vh.Rand, entries int) []byte {
	var b []byte
	b = append(b, c19ValidEntry(rng)...) // root directory
	depth := 0
	for i := 0; i < entries; i++ {
		name := []string{"a", "file.txt", "x y", "\xff\xfe", "sub", "..x", "n\x00m"}[rng.Intn(7)] + strconv.Itoa(i)
		if rng.Chance(1, 12) {
			name = []string{"..", ".", "", "a/b", "/"}[rng.Intn(5)] // rejected by the archive decoder
		}
		if !rng.Chance(1, 15) { // now and then an entry without a name: only the root may be nameless
			b = append(b, c19Str(desync.CaFormatFilename, name)...)
		}
		b = append(b, c19ValidEntry(rng)...)
		if rng.Chance(1, 3) {
			b = append(b, c19Str(desync.CaFormatUser, "user")...)
			b = append(b, c19Str(desync.CaFormatGroup, "group")...)
		}
		for rng.Chance(1, 3) {
			kv := []string{"user.k\x00v", "user.k\x00other", "security.x\x00", "novalue", "\x00"}[rng.Intn(5)]
			b = append(b, c19Str(desync.CaFormatXAttr, kv)...)
		}
		if rng.Chance(1, 6) {
			b = append(b, c19Str(desync.CaFormatSELinux, "label")...)
		}
		if rng.Chance(1, 8) {
			b = append(b, append(le64(16+5, desync.CaFormatFCaps), 1, 2, 3, 4, 5)...)
		}
		if rng.Chance(1, 8) {
			b = append(b, le64(24, desync.CaFormatACLGroupObj, 7)...)
			b = append(b, le64(48, desync.CaFormatACLDefault, 7, 5, 5, 7)...)
			b = append(b, append(le64(32+3, desync.CaFormatACLUser, 1000, 7), 'a', 'b', 0)...)
			b = append(b, append(le64(32+2, desync.CaFormatACLGroup, 1000, 5), 'g', 0)...)
		}
		switch rng.Intn(5) {
		case 0: // directory
			if rng.Bool() {
				depth++
				continue
			}
			b = append(b, c19Goodbye(rng.Intn(3), rng)...)
		case 1:
			b = append(b, c19Str(desync.CaFormatSymlink, "target/"+name)...)
		case 2:
			b = append(b, le64(32, desync.CaFormatDevice, uint64(rng.Intn(300)), uint64(rng.Intn(300)))...)
		default:
			data := rng.Bytes(rng.Intn(40))
			if rng.Chance(1, 10) {
				data = rng.Bytes(70000)
			}
			b = append(b, append(le64(uint64(16+len(data)), desync.CaFormatPayload), data...)...)
		}
		for depth > 0 && rng.Chance(1, 3) {
			b = append(b, c19Goodbye(rng.Intn(3), rng)...)
			depth--
		}
	}
	for ; depth >= 0; depth-- {
		b = append(b, c19Goodbye(rng.Intn(3), rng)...)
	}
	return b
}

func c19ValidIndex(rng *vh.Rand, digest string) []byte {
	c := c04GenIndex(rng, []int{0, 1, 2, 5, 30}[rng.Intn(5)])
	c.Digest = digest
	if digest == "sha256" {
		c.Flags &^= c04SHA512Flag
	} else {
		c.Flags |= c04SHA512Flag
	}
	idx := c04BuildIndex(c)
	var buf bytes.Buffer
	idx.WriteTo(&buf)
	return buf.Bytes()
}

func c19Messages(rng *vh.Rand) []byte {
	var b []byte
	for i := 0; i < 1+rng.Intn(4); i++ {
		body := rng.Bytes([]int{0, 8, 32, 40, 100, 70000}[rng.Intn(6)])
		typ := []uint64{desync.CaProtocolHello, desync.CaProtocolRequest, desync.CaProtocolChunk, desync.CaProtocolMissing, desync.CaProtocolGoodbye, rng.U64()}[rng.Intn(6)]
		b = append(b, le64(uint64(16+len(body)), typ)...)
		b = append(b, body...)
	}
	return b
}

// headerOffsets: positions in a valid element stream where an element header starts.
func c19HeaderOffsets(b []byte) []int {
	var out []int
	p := 0
	for p+16 <= len(b) {
		out = append(out, p)
		sz := binary.LittleEndian.Uint64(b[p:])
		if sz == c04MaxUint64 { // table: runs to the end
			break
		}
		if sz < 16 || sz > uint64(len(b)-p) {
			break
		}
		p += int(sz)
	}
	return out
}

func c19Generate(a vh.Args, rng *vh.Rand) []*c19Case {
	thorough := a.Tier == "thorough"
	var cases []*c19Case
	add := func(decoder, gen string, in []byte) {
		digest := ""
		if decoder == "index" || decoder == "httpput" {
			digest = []string{"sha256", "sha512-256"}[rng.Intn(2)]
		}
		cases = append(cases, &c19Case{Decoder: decoder, Digest: digest, InputHex: vh.Hex(in), Gen: gen})
	}
	everyDecoder := func(gen string, in []byte) {
		add("format", gen, in)
		add("archive", gen, in)
		add("index", gen, in)
		add("message", gen, in)
	}
	// 1. every element type x size field x body
	bodies := func() [][]byte {
		return [][]byte{nil, {0}, {'a', 0}, make([]byte, 8), rng.Bytes(8), rng.Bytes(24), append(rng.Bytes(23), 0), rng.Bytes(40), rng.Bytes(48),
			append(make([]byte, 16), le64(desync.CaFormatGoodbyeTailMarker)...), rng.Bytes(120)}
	}
	for _, t := range c19Types {
		for _, sz := range c19Sizes {
			for bi, body := range bodies() {
				if !thorough && bi > 2 && rng.Chance(2, 3) {
					continue
				}
				in := append(le64(sz, t.typ), body...)
				gen := fmt.Sprintf("type-size-body@%s,size=%d,body=%d", t.name, sz, len(body))
				add("format", gen, in)
				if rng.Chance(1, 2) || thorough {
					// behind a valid entry, so that the archive decoder gets to the element
					add("archive", gen+",after-entry", append(c19ValidEntry(rng), in...))
				}
				if rng.Chance(1, 6) {
					add("archive", gen, in)
				}
				if t.name == "index" || t.name == "table" {
					add("index", gen, in)
					if t.name == "table" {
						add("index", gen+",after-index", append(le64(48, desync.CaFormatIndex, c04SHA512Flag, 1, 2, 3), in...))
					}
				}
			}
			// exact-length body for moderate sizes
			// (item loops recurse once per item in the extracted model: keep those bodies below 64 KiB + 17)
			if sz >= 16 && (sz <= 1<<17 || sz <= 1<<20 && t.name != "goodbye" && t.name != "table" && (thorough || t.name == "filename" || t.name == "payload")) {
				body := rng.Bytes(int(sz - 16))
				add("format", fmt.Sprintf("type-size-exact@%s,size=%d", t.name, sz), append(le64(sz, t.typ), body...))
				add("archive", fmt.Sprintf("type-size-exact@%s,size=%d,after-entry", t.name, sz), append(c19ValidEntry(rng), append(le64(sz, t.typ), body...)...))
			}
		}
	}
	// protocol: length field x body
	for _, sz := range c19Sizes {
		for _, body := range [][]byte{nil, rng.Bytes(7), rng.Bytes(8), rng.Bytes(9), rng.Bytes(48)} {
			add("message", fmt.Sprintf("msg-length@len=%d,body=%d", sz, len(body)), append(le64(sz), body...))
		}
		if sz >= 8 && sz <= 1<<20 {
			add("message", fmt.Sprintf("msg-length-exact@len=%d", sz), append(le64(sz), rng.Bytes(int(sz-8))...))
		}
	}
	// 2. valid streams: whole, truncated, size fields overwritten, bytes flipped
	type stream struct {
		decoder, name string
		b             []byte
	}
	var streams []stream
	nvalid := 4
	if thorough {
		nvalid = 40
	}
	for i := 0; i < nvalid; i++ {
		ar := c19ValidArchive(rng, 1+rng.Intn(8))
		streams = append(streams, stream{"archive", "gen-archive", ar}, stream{"format", "gen-archive", ar})
		streams = append(streams, stream{"index", "gen-index", c19ValidIndex(rng, []string{"sha256", "sha512-256"}[i%2])})
		streams = append(streams, stream{"message", "gen-messages", c19Messages(rng)})
	}
	repo := os.Getenv("VH_REPO")
	if repo == "" {
		repo = "/repo"
	}
	fixtures, _ := filepath.Glob(filepath.Join(repo, "testdata/*.catar"))
	idxFixtures, _ := filepath.Glob(filepath.Join(repo, "testdata/*.caibx"))
	for _, f := range append(fixtures, idxFixtures...) {
		b, err := os.ReadFile(f)
		if err != nil || len(b) > 300000 {
			continue
		}
		name := "fixture-" + filepath.Base(f)
		if strings.HasSuffix(f, ".catar") {
			streams = append(streams, stream{"archive", name, b}, stream{"format", name, b})
		} else {
			streams = append(streams, stream{"index", name, b}, stream{"format", name, b})
		}
	}
	for _, s := range streams {
		add(s.decoder, s.name+"@whole", s.b)
		if s.decoder == "index" {
			add("httpput", s.name+"@whole", s.b)
		}
		big := len(s.b) > 3000
		// truncations
		ncut := 60
		if thorough {
			ncut = 400
		}
		if len(s.b) <= ncut {
			for n := 0; n < len(s.b); n++ {
				add(s.decoder, fmt.Sprintf("%s-truncated@%d", s.name, n), s.b[:n])
			}
		} else {
			offs := c19HeaderOffsets(s.b)
			for t := 0; t < ncut && !(big && t > 25); t++ {
				n := rng.Intn(len(s.b))
				if len(offs) > 0 && rng.Bool() {
					n = offs[rng.Intn(len(offs))] + []int{0, 1, 7, 8, 9, 15, 16, 17}[rng.Intn(8)]
				}
				if n < len(s.b) {
					add(s.decoder, fmt.Sprintf("%s-truncated@%d", s.name, n), s.b[:n])
					if s.decoder == "index" && rng.Chance(1, 4) {
						add("httpput", fmt.Sprintf("%s-truncated@%d", s.name, n), s.b[:n])
					}
				}
			}
		}
		// size fields of the elements overwritten
		offs := c19HeaderOffsets(s.b)
		if s.decoder == "message" {
			offs = []int{0}
		}
		nsz := 25
		if thorough {
			nsz = 150
		}
		for t := 0; t < nsz && len(offs) > 0 && !(big && t > 8); t++ {
			off := offs[rng.Intn(len(offs))]
			sz := c19Sizes[rng.Intn(len(c19Sizes))]
			if rng.Chance(1, 4) {
				sz = binary.LittleEndian.Uint64(s.b[off:]) + uint64(rng.Intn(5)) - 2
			}
			add(s.decoder, fmt.Sprintf("%s-size-field@%d=%d", s.name, off, sz), putWord(s.b, off, sz))
			if rng.Chance(1, 5) { // type field
				add(s.decoder, fmt.Sprintf("%s-type-field@%d", s.name, off), putWord(s.b, off+8, c19Types[rng.Intn(len(c19Types))].typ))
			}
		}
		for t := 0; t < 10 && !big; t++ {
			f := append([]byte{}, s.b...)
			p := rng.Intn(len(f))
			f[p] ^= byte(1 << uint(rng.Intn(8)))
			add(s.decoder, fmt.Sprintf("%s-bitflip@%d", s.name, p), f)
		}
	}
	// entries without a Filename element: fine for the root, refused anywhere else
	for k := 0; k < 5; k++ {
		tailOf := func(kind int) []byte {
			switch kind {
			case 0:
				return append(le64(16+3, desync.CaFormatPayload), 1, 2, 3)
			case 1:
				return c19Str(desync.CaFormatSymlink, "t")
			case 2:
				return le64(32, desync.CaFormatDevice, 1, 2)
			case 3:
				return c19Goodbye(0, rng)
			default:
				return nil
			}
		}
		root := c19ValidEntry(rng)
		named := append(c19Str(desync.CaFormatFilename, "a"), append(c19ValidEntry(rng), tailOf(0)...)...)
		nameless := append(c19ValidEntry(rng), tailOf(k)...)
		add("archive", fmt.Sprintf("nameless-entry@root-only,kind=%d", k), append(append([]byte{}, root[:0]...), nameless...))
		add("archive", fmt.Sprintf("nameless-entry@after-root,kind=%d", k), append(append([]byte{}, root...), append(c19Goodbye(0, rng), nameless...)...))
		add("archive", fmt.Sprintf("nameless-entry@after-file,kind=%d", k), append(append(append([]byte{}, root...), named...), append(nameless, c19Goodbye(0, rng)...)...))
	}
	// index tables with ONE decreasing end offset, at every row position, under declared maxima around the
	// value the wrapped unsigned difference takes
	for _, nrows := range []int{1, 2, 5} {
		for j := 0; j < nrows; j++ {
			offs := make([]uint64, nrows)
			for i := range offs {
				offs[i] = uint64(1000 * (i + 2))
			}
			prev := uint64(0)
			if j > 0 {
				prev = offs[j-1]
			}
			var cur uint64
			if j == 0 {
				continue // the first row has nothing before it to fall below (offset 0 is the terminator)
			}
			cur = prev - uint64(1+rng.Intn(900))
			offs[j] = cur
			if j+1 < nrows {
				offs[j+1] = cur + 500 // the rows behind it increase again
				for i := j + 2; i < nrows; i++ {
					offs[i] = offs[i-1] + 500
				}
			}
			wrapped := cur - prev // 2^64 - (prev - cur)
			for _, mx := range []uint64{1000, 1 << 32, 1 << 63, 1<<64 - 1, wrapped, wrapped - 1} {
				for _, digest := range []string{"sha256", "sha512-256"} {
					flags := uint64(0)
					if digest != "sha256" {
						flags = c04SHA512Flag
					}
					f := le64(48, desync.CaFormatIndex, flags, 1, 500, mx, 1<<64-1, desync.CaFormatTable)
					for _, o := range offs {
						f = append(f, le64(o)...)
						f = append(f, rng.Bytes(32)...)
					}
					f = append(f, le64(0, 0, 48, uint64(16+40*nrows+40), c04TailMarker)...)
					gen := fmt.Sprintf("decreasing-offset@rows=%d,row=%d,max=%d", nrows, j, mx)
					cases = append(cases, &c19Case{Decoder: "index", Digest: digest, InputHex: vh.Hex(f), Gen: gen},
						&c19Case{Decoder: "httpput", Digest: digest, InputHex: vh.Hex(f), Gen: gen})
				}
			}
		}
	}
	// a root entry that is a file, symlink or device is the only entry of its archive: followed by a named
	// entry / a nameless entry / a goodbye / the end; and the same behind a root directory for contrast
	for k := 0; k < 4; k++ {
		leafTail := func(kind int) []byte {
			switch kind {
			case 0:
				return append(le64(16+3, desync.CaFormatPayload), 1, 2, 3)
			case 1:
				return c19Str(desync.CaFormatSymlink, "t")
			case 2:
				return le64(32, desync.CaFormatDevice, 1, 2)
			default:
				return nil // a directory
			}
		}
		kind := []string{"file", "symlink", "device", "directory"}[k]
		root := append(c19ValidEntry(rng), leafTail(k)...)
		named := append(c19Str(desync.CaFormatFilename, "a"), append(c19ValidEntry(rng), leafTail(rng.Intn(3))...)...)
		namedDir := append(c19Str(desync.CaFormatFilename, "d"), c19ValidEntry(rng)...)
		nameless := append(c19ValidEntry(rng), leafTail(rng.Intn(3))...)
		gb := c19Goodbye(0, rng)
		cat := func(parts ...[]byte) []byte {
			var out []byte
			for _, p := range parts {
				out = append(out, p...)
			}
			return out
		}
		add("archive", "leaf-root@"+kind+",alone", cat(root))
		add("archive", "leaf-root@"+kind+",goodbye", cat(root, gb))
		add("archive", "leaf-root@"+kind+",named-entry", cat(root, named, gb))
		add("archive", "leaf-root@"+kind+",named-directory", cat(root, namedDir, gb, gb))
		add("archive", "leaf-root@"+kind+",nameless-entry", cat(root, nameless))
		add("archive", "leaf-root@"+kind+",goodbye-then-named-entry", cat(root, gb, named, gb))
		add("archive", "leaf-root@"+kind+",two-named-entries", cat(root, named, named, gb))
		add("archive", "named-first-entry@"+kind, cat(c19Str(desync.CaFormatFilename, "x"), root, named, gb))
	}
	// 3. random bytes, random bytes behind a valid type word
	nrand := 60
	if thorough {
		nrand = 1500
	}
	for i := 0; i < nrand; i++ {
		b := rng.Bytes(rng.Intn(200))
		everyDecoder("random-bytes", b)
		t := c19Types[rng.Intn(len(c19Types))]
		b = append(le64(uint64(rng.Intn(200)), t.typ), rng.Bytes(rng.Intn(200))...)
		add("format", "random-body@"+t.name, b)
		add("archive", "random-body@"+t.name, append(c19ValidEntry(rng), b...))
		add("httpput", "random-bytes", rng.Bytes(rng.Intn(200)))
	}
	everyDecoder("empty", nil)
	add("httpput", "empty", nil)
	// 4. the protocol endpoints
	c19ProtoCases(rng, thorough, add)
	// 5. PUTs whose announced Content-Length is not what they send
	c19RawPutCases(rng, &cases)
	return cases
}

func runC19(a vh.Args, o *vh.Oracle, r *vh.Result) error {
	r.Rule = "case = (decoder, byte string); non-trivial = non-empty input; generators: every element type x size field in {0,8,15,16,17,...,2^31,2^40,2^63,2^64-1} x bodies, valid streams (generated and testdata fixtures) whole / truncated / size or type field overwritten / bit flipped, random bytes; distinct by (decoder, digest, length, content hash)"
	seq := 0
	c19StartBigOracle(a)
	if c19BigOracle != nil {
		defer c19BigOracle.Close()
	}
	if a.Replay != "" {
		var c c19Case
		if err := readJSON(a.Replay, &c); err != nil {
			return err
		}
		c.Impl = nil
		if err := c19RunBatch(a, []*c19Case{&c}, &seq); err != nil {
			return err
		}
		err := c19Evaluate(o, r, &c)
		j, _ := json.MarshalIndent(c, "", " ")
		fmt.Println(tail(string(j), 3000))
		return err
	}
	rng := vh.NewRand(a.Seed)
	cases := c19Generate(a, rng)
	const batch = 1500
	t0 := time.Now()
	defer func() { r.Note("timing: total %.1fs", time.Since(t0).Seconds()) }()
	for i := 0; i < len(cases); i += batch {
		end := min(i+batch, len(cases))
		if err := c19RunBatch(a, cases[i:end], &seq); err != nil {
			return err
		}
	}
	r.Note("timing: children %.1fs for %d cases", time.Since(t0).Seconds(), len(cases))
	var maxRatio float64
	var maxAbs uint64
	for _, c := range cases {
		if err := c19Evaluate(o, r, c); err != nil {
			return err
		}
		if c.Impl != nil {
			if n := len(c.InputHex) / 2; n >= 4096 {
				if ratio := float64(c.Impl.Alloc) / float64(n); ratio > maxRatio {
					maxRatio = ratio
				}
			} else if c.Impl.Alloc > maxAbs {
				maxAbs = c.Impl.Alloc
			}
		}
	}
	r.Extra = map[string]interface{}{"child_processes": seq, "max_alloc_per_input_byte_for_inputs_over_4KiB": maxRatio, "max_alloc_for_inputs_under_4KiB": maxAbs,
		"alloc_bound": fmt.Sprintf("%d*len+%d", c19AllocFactor, c19AllocConst)}
	return nil
}
