package main

// C07, CLI level: `desync extract` reads its chunks over HTTP from a server run by the harness.
// The server holds the K-th chunk request; while it is held the harness sends SIGINT or SIGTERM to
// the child, waits for the signal handler to cancel the root context, then releases the request.
// Observables: exit status; the destination path (inode, size, content) when --in-place is not
// given; left-over temp files.  Predicates: exit 0 => destination == blob; exit != 0 without
// --in-place => destination untouched and no temp file left.

import (
	"bytes"
	"context"
	"fmt"
	"net/http"
	"net/http/httptest"
	"os"
	"os/exec"
	"path/filepath"
	"strconv"
	"strings"
	"sync"
	"sync/atomic"
	"syscall"
	"time"

	"github.com/folbricht/desync"

	"vh/internal/vh"
)

type c07Hold struct {
	k        int64
	n        int64
	held     chan struct{}
	release  chan struct{}
	once     sync.Once
	inner    http.Handler
	requests int64
}

func (h *c07Hold) ServeHTTP(w http.ResponseWriter, r *http.Request) {
	if r.Method == "GET" && strings.HasSuffix(r.URL.Path, ".cacnk") {
		n := atomic.AddInt64(&h.n, 1)
		if n == h.k {
			h.once.Do(func() { close(h.held) })
			<-h.release
		}
	}
	h.inner.ServeHTTP(w, r)
}

type c07Stat struct {
	Ino  uint64
	Size int64
	Data []byte
}

func c07StatFile(p string) (*c07Stat, error) {
	fi, err := os.Lstat(p)
	if err != nil {
		return nil, err
	}
	b, err := os.ReadFile(p)
	if err != nil {
		return nil, err
	}
	st := fi.Sys().(*syscall.Stat_t)
	return &c07Stat{Ino: st.Ino, Size: fi.Size(), Data: b}, nil
}

// c07CLICase: Variant = "sigint" | "sigterm", with suffix "/inplace" for -k, "/fresh" when the destination
// does not exist beforehand.
func c07CLICase(a vh.Args, r *vh.Result, c *c07Case) error {
	bin := os.Getenv("VH_DESYNC")
	if bin == "" {
		return nil
	}
	desync.Digest = desync.SHA512256{}
	in := c.input()
	idx := in.index()
	work := filepath.Join(a.Work, "c07cli")
	os.RemoveAll(work)
	if err := os.MkdirAll(filepath.Join(work, "out"), 0755); err != nil {
		return err
	}
	ls, sdir, err := bkNewStore(work, "store")
	if err != nil {
		return err
	}
	for _, ch := range in.chunks() {
		if err := ls.StoreChunk(desync.NewChunk(ch)); err != nil {
			return err
		}
	}
	idxFile := filepath.Join(work, "in.caibx")
	f, err := os.Create(idxFile)
	if err != nil {
		return err
	}
	if _, err := idx.WriteTo(f); err != nil {
		return err
	}
	f.Close()
	inplace := strings.Contains(c.Variant, "/inplace")
	fresh := strings.Contains(c.Variant, "/fresh")
	sig := syscall.SIGINT
	if strings.HasPrefix(c.Variant, "sigterm") {
		sig = syscall.SIGTERM
	}
	dest := filepath.Join(work, "out", "blob")
	prior := []byte("previous content of the destination, " + strconv.Itoa(len(in.Blob)) + " bytes expected after extract\n")
	var before *c07Stat
	if !fresh {
		if err := os.WriteFile(dest, prior, 0644); err != nil {
			return err
		}
		if before, err = c07StatFile(dest); err != nil {
			return err
		}
	}
	h := &c07Hold{k: int64(c.K), held: make(chan struct{}), release: make(chan struct{}), inner: http.FileServer(http.Dir(sdir))}
	srv := httptest.NewServer(h)
	defer srv.Close()

	args := []string{"extract", "-s", srv.URL + "/", "-n", strconv.Itoa(c.N), "-e", "1", "-b", "1ms"}
	if inplace {
		args = append(args, "-k")
	}
	args = append(args, idxFile, dest)
	ctx, cancel := context.WithTimeout(context.Background(), 60*time.Second)
	defer cancel()
	cmd := exec.CommandContext(ctx, bin, args...)
	var stderr bytes.Buffer
	cmd.Stderr = &stderr
	cmd.Env = append(os.Environ(), "HOME="+work)
	if err := cmd.Start(); err != nil {
		return err
	}
	done := make(chan error, 1)
	go func() { done <- cmd.Wait() }()
	signalled := false
	var werr error
	select {
	case <-h.held:
		cmd.Process.Signal(sig)
		signalled = true
		time.Sleep(40 * time.Millisecond) // let the handler goroutine cancel the root context
		close(h.release)
		werr = <-done
	case werr = <-done:
		close(h.release)
	}
	rc := 0
	if werr != nil {
		rc = -1
		if ee, ok := werr.(*exec.ExitError); ok {
			rc = ee.ExitCode()
		}
	}
	c.Fired = signalled
	c.Hits = int(atomic.LoadInt64(&h.n))
	c.Got = "exit:" + strconv.Itoa(rc)
	c.Detail = strings.TrimSpace(stderr.String())
	if len(c.Detail) > 300 {
		c.Detail = c.Detail[:300]
	}
	after, aerr := c07StatFile(dest)
	c.Complete = aerr == nil && bytes.Equal(after.Data, in.Blob)

	key := fmt.Sprintf("cli|%s|%d|%d|%d", c.Variant, c.N, c.K, len(c.Sizes))
	r.Count(key, signalled)
	r.Dist("cli:" + c.Variant)
	r.Dist("cli-result:" + c.Got)
	if ctx.Err() != nil {
		r.Fail("predicate", "cli-extract/hang-after-signal", fmt.Sprintf("desync extract did not exit within 60s after %v at request %d", sig, c.K), c)
		return nil
	}
	if rc == 0 && !c.Complete {
		r.Fail("predicate", "cli-extract/exit0-but-incomplete", fmt.Sprintf("desync extract (n=%d, %s at chunk request %d) exited 0 but the destination is not the blob", c.N, c.Variant, c.K), c)
	}
	if rc != 0 && !signalled {
		r.Fail("predicate", "cli-extract/error-without-signal", fmt.Sprintf("desync extract exited %d without having been signalled: %s", rc, c.Detail), c)
	}
	if rc != 0 && !inplace {
		// the destination path must be untouched
		switch {
		case fresh && aerr == nil:
			r.Fail("predicate", "cli-extract/destination-created-on-failure", fmt.Sprintf("desync extract exited %d but created the destination (%d bytes)", rc, after.Size), c)
		case !fresh && aerr != nil:
			r.Fail("predicate", "cli-extract/destination-touched-on-failure", fmt.Sprintf("desync extract exited %d and the destination is gone: %v", rc, aerr), c)
		case !fresh && (after.Ino != before.Ino || after.Size != before.Size || !bytes.Equal(after.Data, before.Data)):
			r.Fail("predicate", "cli-extract/destination-touched-on-failure", fmt.Sprintf("desync extract exited %d but the destination changed (inode %d->%d, size %d->%d)", rc, before.Ino, after.Ino, before.Size, after.Size), c)
		}
		ents, _ := os.ReadDir(filepath.Join(work, "out"))
		for _, e := range ents {
			if e.Name() != "blob" {
				r.Fail("predicate", "cli-extract/temp-file-left", fmt.Sprintf("desync extract exited %d and left %s behind", rc, e.Name()), c)
			}
		}
	}
	return nil
}

func c07CLIReplay(a vh.Args, r *vh.Result, c *c07Case) error {
	for i := 0; i < 5; i++ {
		cc := *c
		if err := c07CLICase(a, r, &cc); err != nil {
			return err
		}
	}
	return nil
}

func c07CLI(a vh.Args, r *vh.Result, rng *vh.Rand) error {
	if os.Getenv("VH_DESYNC") == "" {
		r.Note("VH_DESYNC not set: CLI cases skipped")
		return nil
	}
	nch := 24
	in := bkDupInput(rng, nch, nch, 60)
	variants := []string{"sigint", "sigterm", "sigint/inplace", "sigterm/fresh"}
	ks := []int{1, 2, 3, 5, 9, 17, nch, nch + 5}
	ns := []int{1, 4}
	if a.Tier == "thorough" {
		ks = nil
		for k := 1; k <= nch+2; k++ {
			ks = append(ks, k)
		}
		ns = []int{1, 2, 4, 10}
	}
	for _, v := range variants {
		for _, n := range ns {
			for _, k := range ks {
				if a.Tier != "thorough" && (v != "sigint" && k%2 == 0) {
					continue
				}
				c := &c07Case{Op: "extract", Variant: v, N: n, K: k, BlobHex: vh.Hex(in.Blob), Sizes: in.Sizes, Level: "cli"}
				if err := c07CLICase(a, r, c); err != nil {
					return err
				}
			}
		}
	}
	return nil
}
