package main

import "vh/internal/vh"

func c07CLI(a vh.Args, r *vh.Result, rng *vh.Rand) error            { return nil }
func c07CLIReplay(a vh.Args, r *vh.Result, c *c07Case) error        { return nil }
