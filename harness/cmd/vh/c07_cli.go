package main

// C07, CLI level: the long-running commands talk to an HTTP chunk server run by the harness.  The server
// holds the K-th chunk request (GET, HEAD or PUT); while it is held the harness sends SIGINT or SIGTERM to
// the child, waits for the signal handler to cancel the root context, then releases the request
// (variant "http500": no signal, the K-th request fails instead).  Commands and option matrix:
//   extract   plain | -k (in place) | fresh destination | --print-stats | --seed (half of the chunks come from a seed)
//   make -s   plain | --print-stats
//   chop, cache, tar -i, untar -i
// Predicates: a command that exits 0 must have produced the complete result (destination == blob /
// every chunk of the index readable from the target / index describes the input / tree complete);
// extract without -k that exits != 0 leaves the destination path untouched (inode, size, content)
// and no temp file behind.

import (
	"bytes"
	"context"
	"fmt"
	"net/http"
	"net/http/httptest"
	"os"
	"os/exec"
	"path/filepath"
	"strconv"
	"strings"
	"sync"
	"sync/atomic"
	"syscall"
	"time"

	"github.com/folbricht/desync"

	"vh/internal/vh"
)

type c07Hold struct {
	fail    bool // answer the K-th request with 500 instead of holding it
	k       int64
	n       int64
	held    chan struct{}
	release chan struct{}
	once    sync.Once
	inner   http.Handler
}

func (h *c07Hold) ServeHTTP(w http.ResponseWriter, r *http.Request) {
	if strings.HasSuffix(r.URL.Path, ".cacnk") {
		n := atomic.AddInt64(&h.n, 1)
		if n == h.k {
			if h.fail {
				http.Error(w, "injected failure", http.StatusInternalServerError)
				return
			}
			h.once.Do(func() { close(h.held) })
			<-h.release
		}
	}
	h.inner.ServeHTTP(w, r)
}

type c07Stat struct {
	Ino  uint64
	Size int64
	Data []byte
}

func c07StatFile(p string) (*c07Stat, error) {
	fi, err := os.Lstat(p)
	if err != nil {
		return nil, err
	}
	b, err := os.ReadFile(p)
	if err != nil {
		return nil, err
	}
	st := fi.Sys().(*syscall.Stat_t)
	return &c07Stat{Ino: st.Ino, Size: fi.Size(), Data: b}, nil
}

func c07WriteIndex(path string, idx desync.Index) error {
	f, err := os.Create(path)
	if err != nil {
		return err
	}
	defer f.Close()
	_, err = idx.WriteTo(f)
	return err
}

// c07CLICase: Op = extract | make | chop | cache | tar | untar.
// Variant = "<sigint|sigterm|http500>[/inplace][/fresh][/print-stats][/seed]".
func c07CLICase(a vh.Args, r *vh.Result, c *c07Case) error {
	bin := os.Getenv("VH_DESYNC")
	if bin == "" {
		return nil
	}
	if c.Op == "" {
		c.Op = "extract"
	}
	desync.Digest = desync.SHA512256{}
	in := c.input()
	work := filepath.Join(a.Work, "c07cli")
	os.RemoveAll(work)
	if err := os.MkdirAll(filepath.Join(work, "out"), 0755); err != nil {
		return err
	}
	has := func(opt string) bool { return strings.Contains(c.Variant, "/"+opt) }
	inplace, fresh, stats, seeded := has("inplace"), has("fresh"), has("print-stats"), has("seed")
	symlink := has("symlink") // the destination path is a symlink to a regular file in another directory
	realFile := filepath.Join(work, "real", "target")
	var realBefore *c07Stat
	failing := strings.HasPrefix(c.Variant, "http500")
	sig := syscall.SIGINT
	if strings.HasPrefix(c.Variant, "sigterm") {
		sig = syscall.SIGTERM
	}
	sdir := filepath.Join(work, "server")
	if err := os.MkdirAll(sdir, 0755); err != nil {
		return err
	}
	populate := func(dir string, idx desync.Index, blob []byte) error {
		ls, err := desync.NewLocalStore(dir, desync.StoreOptions{})
		if err != nil {
			return err
		}
		for _, ch := range idx.Chunks {
			if err := ls.StoreChunk(desync.NewChunk(blob[ch.Start : ch.Start+ch.Size])); err != nil {
				return err
			}
		}
		return nil
	}
	h := &c07Hold{fail: failing, k: int64(c.K), held: make(chan struct{}), release: make(chan struct{}),
		inner: &c06Server{dir: sdir, fail: map[string]map[int]bool{}, count: map[string]int{}}}
	srv := httptest.NewServer(h)
	defer srv.Close()
	common := []string{"-n", strconv.Itoa(c.N), "-e", "1", "-b", "1ms"}
	sizes := fmt.Sprintf("%d:%d:%d", c.Min/1024, c.Avg/1024, c.Max/1024)
	idxFile := filepath.Join(work, "in.caibx")
	dest := filepath.Join(work, "out", "blob")
	file := filepath.Join(work, "file")
	var args []string
	var complete func() string // "" when the result is complete
	var before *c07Stat

	switch c.Op {
	case "extract":
		idx := in.index()
		if err := populate(sdir, idx, in.Blob); err != nil {
			return err
		}
		if err := c07WriteIndex(idxFile, idx); err != nil {
			return err
		}
		args = append([]string{"extract", "-s", srv.URL + "/"}, common...)
		if inplace {
			args = append(args, "-k")
		}
		if stats {
			args = append(args, "--print-stats")
		}
		if seeded {
			// a seed holding the first half of the chunks, in reverse order
			chs := in.chunks()
			sin := bkInput{}
			for i := len(chs)/2 - 1; i >= 0; i-- {
				sin.Blob = append(sin.Blob, chs[i]...)
				sin.Sizes = append(sin.Sizes, len(chs[i]))
			}
			if err := os.WriteFile(filepath.Join(work, "seed"), sin.Blob, 0644); err != nil {
				return err
			}
			if err := c07WriteIndex(filepath.Join(work, "seed.caibx"), sin.index()); err != nil {
				return err
			}
			args = append(args, "--seed", filepath.Join(work, "seed.caibx"))
		}
		args = append(args, idxFile, dest)
		if !fresh {
			prior := []byte("previous content of the destination, " + strconv.Itoa(len(in.Blob)) + " bytes expected after extract\n")
			if symlink {
				if err := os.MkdirAll(filepath.Dir(realFile), 0755); err != nil {
					return err
				}
				if err := os.WriteFile(realFile, prior, 0644); err != nil {
					return err
				}
				if err := os.Symlink(realFile, dest); err != nil {
					return err
				}
				var err error
				if realBefore, err = c07StatFile(realFile); err != nil {
					return err
				}
			} else if err := os.WriteFile(dest, prior, 0644); err != nil {
				return err
			}
			var err error
			if before, err = c07StatFile(dest); err != nil {
				return err
			}
		}
		complete = func() string {
			st, err := c07StatFile(dest)
			if err != nil {
				return "destination: " + err.Error()
			}
			if !bytes.Equal(st.Data, in.Blob) {
				return fmt.Sprintf("the destination (%d bytes) is not the blob (%d bytes)", st.Size, len(in.Blob))
			}
			return ""
		}

	case "make", "chop", "cache":
		if err := os.WriteFile(file, in.Blob, 0644); err != nil {
			return err
		}
		idx, err := c06SeqIndex(in.Blob, c.Min, c.Avg, c.Max)
		if err != nil {
			return err
		}
		idx.Index = desync.FormatIndex{FeatureFlags: desync.CaFormatExcludeNoDump | desync.CaFormatSHA512256, ChunkSizeMin: c.Min, ChunkSizeAvg: c.Avg, ChunkSizeMax: c.Max}
		target := sdir
		switch c.Op {
		case "make":
			out := filepath.Join(work, "out.caibx")
			args = append([]string{"make", "-s", srv.URL + "/"}, common...)
			if stats {
				args = append(args, "--print-stats")
			}
			args = append(args, "-m", sizes, out, file)
			complete = func() string {
				if !stats { // with --print-stats make does not write the index
					f, err := os.Open(out)
					if err != nil {
						return "no index written: " + err.Error()
					}
					got, err := desync.IndexFromReader(f)
					f.Close()
					if err != nil {
						return "index unreadable: " + err.Error()
					}
					if d := bkIndexDescribes(got, in.Blob); d != "" {
						return "index: " + d
					}
				}
				return bkReadBack(target, idx, in.Blob)
			}
		case "chop":
			if err := c07WriteIndex(idxFile, idx); err != nil {
				return err
			}
			args = append([]string{"chop", "-s", srv.URL + "/"}, common...)
			args = append(args, idxFile, file)
			complete = func() string { return bkReadBack(target, idx, in.Blob) }
		case "cache":
			if err := populate(sdir, idx, in.Blob); err != nil {
				return err
			}
			if err := c07WriteIndex(idxFile, idx); err != nil {
				return err
			}
			target = filepath.Join(work, "cache")
			if err := os.MkdirAll(target, 0755); err != nil {
				return err
			}
			args = append([]string{"cache", "-s", srv.URL + "/", "-c", target}, common...)
			args = append(args, idxFile)
			complete = func() string { return bkReadBack(target, idx, in.Blob) }
		}

	case "tar", "untar":
		// the blob is a catar archive
		tree := filepath.Join(work, "tree")
		if err := os.MkdirAll(tree, 0755); err != nil {
			return err
		}
		if err := desync.UnTar(context.Background(), bytes.NewReader(in.Blob), desync.NewLocalFS(tree, c07FSOpt)); err != nil {
			return err
		}
		if c.Op == "tar" {
			var buf bytes.Buffer
			if err := desync.Tar(context.Background(), &buf, desync.NewLocalFS(tree, desync.LocalFSOptions{})); err != nil {
				return err
			}
			archive := buf.Bytes()
			out := filepath.Join(work, "out.caidx")
			args = append([]string{"tar", "-i", "-s", srv.URL + "/"}, common...)
			args = append(args, "-m", sizes, out, tree)
			complete = func() string {
				f, err := os.Open(out)
				if err != nil {
					return "no index written: " + err.Error()
				}
				got, err := desync.IndexFromReader(f)
				f.Close()
				if err != nil {
					return "index unreadable: " + err.Error()
				}
				if d := bkIndexDescribes(got, archive); d != "" {
					return "index: " + d
				}
				return bkReadBack(sdir, got, archive)
			}
		} else {
			want, err := c07ListTree(tree)
			if err != nil {
				return err
			}
			idx, err := c06SeqIndex(in.Blob, c.Min, c.Avg, c.Max)
			if err != nil {
				return err
			}
			idx.Index = desync.FormatIndex{FeatureFlags: desync.TarFeatureFlags, ChunkSizeMin: c.Min, ChunkSizeAvg: c.Avg, ChunkSizeMax: c.Max}
			if err := populate(sdir, idx, in.Blob); err != nil {
				return err
			}
			idxFile = filepath.Join(work, "in.caidx")
			if err := c07WriteIndex(idxFile, idx); err != nil {
				return err
			}
			dst := filepath.Join(work, "untarred")
			if err := os.MkdirAll(dst, 0755); err != nil {
				return err
			}
			args = append([]string{"untar", "-i", "-s", srv.URL + "/", "--no-same-owner"}, common...)
			args = append(args, idxFile, dst)
			complete = func() string {
				got, err := c07ListTree(dst)
				if err != nil {
					return err.Error()
				}
				return c07DiffTree(got, want)
			}
		}
	default:
		return fmt.Errorf("unknown cli op %q", c.Op)
	}

	ctx, cancel := context.WithTimeout(context.Background(), 60*time.Second)
	defer cancel()
	cmd := exec.CommandContext(ctx, bin, args...)
	var stderr bytes.Buffer
	cmd.Stderr = &stderr
	cmd.Env = append(os.Environ(), "HOME="+work)
	if err := cmd.Start(); err != nil {
		return err
	}
	done := make(chan error, 1)
	go func() { done <- cmd.Wait() }()
	signalled := false
	var werr error
	select {
	case <-h.held:
		cmd.Process.Signal(sig)
		signalled = true
		time.Sleep(40 * time.Millisecond) // let the handler goroutine cancel the root context
		close(h.release)
		werr = <-done
	case werr = <-done:
		close(h.release)
	}
	rc := 0
	if werr != nil {
		rc = -1
		if ee, ok := werr.(*exec.ExitError); ok {
			rc = ee.ExitCode()
		}
	}
	c.Fired = signalled
	c.Hits = int(atomic.LoadInt64(&h.n))
	c.Got = "exit:" + strconv.Itoa(rc)
	c.Detail = strings.TrimSpace(stderr.String())
	if len(c.Detail) > 300 {
		c.Detail = c.Detail[:300]
	}
	d := complete()
	c.Complete = d == ""
	failed := failing && c.K <= c.Hits

	key := fmt.Sprintf("cli|%s|%s|%d|%d|%d", c.Op, c.Variant, c.N, c.K, len(c.Sizes))
	r.Count(key, signalled || failed)
	r.Dist("cli:" + c.Op + " " + c.Variant)
	r.Dist("cli-result:" + c.Got)
	cls := "cli-" + c.Op
	if ctx.Err() != nil {
		r.Fail("predicate", cls+"/hang-after-signal", fmt.Sprintf("desync %s did not exit within 60s after %v at request %d", c.Op, sig, c.K), c)
		return nil
	}
	if rc == 0 && !c.Complete {
		r.Fail("predicate", cls+"/exit0-but-incomplete", fmt.Sprintf("desync %s (n=%d, %s at chunk request %d) exited 0 but the result is incomplete: %s", c.Op, c.N, c.Variant, c.K, d), c)
	}
	if failed && rc == 0 {
		r.Fail("predicate", cls+"/exit0-after-failed-request", fmt.Sprintf("desync %s exited 0 although chunk request %d was answered with 500", c.Op, c.K), c)
	}
	if rc != 0 && !signalled && !failed {
		r.Fail("predicate", cls+"/error-without-signal", fmt.Sprintf("desync %s exited %d without having been signalled: %s", c.Op, rc, c.Detail), c)
	}
	if c.Op == "extract" && rc != 0 && !inplace {
		// the destination path must be untouched
		after, aerr := c07StatFile(dest)
		switch {
		case fresh && aerr == nil:
			r.Fail("predicate", "cli-extract/destination-created-on-failure", fmt.Sprintf("desync extract exited %d but created the destination (%d bytes)", rc, after.Size), c)
		case !fresh && aerr != nil:
			r.Fail("predicate", "cli-extract/destination-touched-on-failure", fmt.Sprintf("desync extract exited %d and the destination is gone: %v", rc, aerr), c)
		case !fresh && (after.Ino != before.Ino || after.Size != before.Size || !bytes.Equal(after.Data, before.Data)):
			r.Fail("predicate", "cli-extract/destination-touched-on-failure", fmt.Sprintf("desync extract exited %d but the destination changed (inode %d->%d, size %d->%d)", rc, before.Ino, after.Ino, before.Size, after.Size), c)
		}
		if symlink && realBefore != nil {
			// neither the link nor the file behind it may change
			if li, err := os.Lstat(dest); err != nil || li.Mode()&os.ModeSymlink == 0 {
				r.Fail("predicate", "cli-extract/destination-touched-on-failure", fmt.Sprintf("desync extract exited %d and the destination is no longer the symlink it was", rc), c)
			}
			ra, rerr := c07StatFile(realFile)
			if rerr != nil || ra.Ino != realBefore.Ino || ra.Size != realBefore.Size || !bytes.Equal(ra.Data, realBefore.Data) {
				sz := int64(-1)
				if ra != nil {
					sz = ra.Size
				}
				r.Fail("predicate", "cli-extract/file-behind-symlink-touched-on-failure", fmt.Sprintf("desync extract (n=%d, %s at chunk request %d) exited %d but the file the destination symlink points to changed (size %d->%d)", c.N, c.Variant, c.K, rc, realBefore.Size, sz), c)
			}
		}
		ents, _ := os.ReadDir(filepath.Join(work, "out"))
		for _, e := range ents {
			if e.Name() != "blob" {
				r.Fail("predicate", "cli-extract/temp-file-left", fmt.Sprintf("desync extract exited %d and left %s behind", rc, e.Name()), c)
			}
		}
	}
	return nil
}

func c07CLIReplay(a vh.Args, r *vh.Result, c *c07Case) error {
	if c.Op == "tar-fifo" {
		for i := 0; i < 12; i++ {
			cc := *c
			if err := c07TarFifoCase(a, r, &cc); err != nil {
				return err
			}
		}
		return nil
	}
	for i := 0; i < 5; i++ {
		cc := *c
		if err := c07CLICase(a, r, &cc); err != nil {
			return err
		}
	}
	return nil
}

func c07CLI(a vh.Args, r *vh.Result, rng *vh.Rand) error {
	if os.Getenv("VH_DESYNC") == "" {
		r.Note("VH_DESYNC not set: CLI cases skipped")
		return nil
	}
	thorough := a.Tier == "thorough"
	nch := 24
	in := bkDupInput(rng, nch, nch, 60)
	type spec struct {
		op       string
		variants []string
	}
	// extract: small explicit chunks
	exVariants := []string{"sigint", "sigterm", "sigint/inplace", "sigterm/fresh", "http500", "http500/fresh",
		"sigint/print-stats", "sigterm/print-stats/fresh", "sigint/print-stats/inplace", "http500/print-stats", "sigterm/seed", "sigint/seed/print-stats",
		"sigint/symlink", "sigterm/symlink", "http500/symlink"}
	ks := []int{1, 2, 3, 5, 9, 17, nch, nch + 5}
	ns := []int{1, 4}
	if thorough {
		ks = nil
		for k := 1; k <= nch+2; k++ {
			ks = append(ks, k)
		}
		ns = []int{1, 2, 4, 10}
	}
	for vi, v := range exVariants {
		for _, n := range ns {
			for ki, k := range ks {
				_ = ki
				if !thorough && vi > 0 && vi < 6 && k%2 == 0 {
					continue
				}
				if !thorough && vi >= 6 && k != 2 && k != 5 && k != 17 {
					continue
				}
				c := &c07Case{Op: "extract", Variant: v, N: n, K: k, BlobHex: vh.Hex(in.Blob), Sizes: in.Sizes, Level: "cli"}
				if err := c07CLICase(a, r, c); err != nil {
					return err
				}
			}
		}
	}
	// the writers and untar: content-defined chunks of 1-4 kB
	seg := rng.Bytes(5000 + rng.Intn(3000))
	var blob []byte
	for i := 0; i < 4; i++ {
		blob = append(blob, seg...)
		blob = append(blob, rng.Bytes(1200)...)
	}
	archive, err := c07MakeArchiveN(a.Work, rng, 8000)
	if err != nil {
		return err
	}
	specs := []spec{
		{"make", []string{"sigint", "sigterm/print-stats", "http500/print-stats"}},
		{"chop", []string{"sigint", "sigterm"}},
		{"cache", []string{"sigint", "sigterm"}},
		{"tar", []string{"sigint"}},
		{"untar", []string{"sigint", "sigterm"}},
	}
	wks := []int{1, 4, 11}
	if thorough {
		wks = []int{1, 2, 3, 4, 6, 9, 13, 18, 25, 40}
	}
	for _, sp := range specs {
		for _, v := range sp.variants {
			for _, n := range ns {
				for _, k := range wks {
					c := &c07Case{Op: sp.op, Variant: v, N: n, K: k, BlobHex: vh.Hex(blob), Min: 1024, Avg: 2048, Max: 4096, Level: "cli"}
					if sp.op == "tar" || sp.op == "untar" {
						c.BlobHex = vh.Hex(archive)
					}
					if err := c07CLICase(a, r, c); err != nil {
						return err
					}
				}
			}
		}
	}
	return c07TarFifos(a, r, rng)
}

// c07TarFifoCase: `desync tar -i --input-format tar` reads its input from a FIFO fed by the harness. The harness
// writes the stream up to offset K (inside the data of a file that is not the last entry), sends the signal while
// the Tar goroutine is blocked reading, then writes the rest.  Tar notices the cancellation at the next entry and
// stops; the chunker sees a clean end of its pipe.  Predicate: exit 0 => the index describes the COMPLETE archive
// of the stream and every chunk is readable from the store.
func c07TarFifoCase(a vh.Args, r *vh.Result, c *c07Case) error {
	bin := os.Getenv("VH_DESYNC")
	if bin == "" {
		return nil
	}
	desync.Digest = desync.SHA512256{}
	stream := vh.UnHex(c.BlobHex)
	work := filepath.Join(a.Work, "c07fifo")
	os.RemoveAll(work)
	sdir := filepath.Join(work, "store")
	if err := os.MkdirAll(sdir, 0755); err != nil {
		return err
	}
	var ref bytes.Buffer
	if err := desync.Tar(context.Background(), &ref, desync.NewTarReader(bytes.NewReader(stream), desync.TarReaderOptions{AddRoot: true})); err != nil {
		return fmt.Errorf("reference tar: %v", err)
	}
	fifo := filepath.Join(work, "input.fifo")
	if err := syscall.Mkfifo(fifo, 0644); err != nil {
		return err
	}
	sig := syscall.SIGINT
	if strings.HasPrefix(c.Variant, "sigterm") {
		sig = syscall.SIGTERM
	}
	out := filepath.Join(work, "out.caidx")
	ctx, cancel := context.WithTimeout(context.Background(), 60*time.Second)
	defer cancel()
	cmd := exec.CommandContext(ctx, bin, "tar", "-i", "-s", sdir, "-n", strconv.Itoa(c.N), "--input-format", "tar", "--tar-add-root",
		"-m", "16:64:256", out, fifo)
	var stderr bytes.Buffer
	cmd.Stderr = &stderr
	cmd.Env = append(os.Environ(), "HOME="+work)
	w, err := os.OpenFile(fifo, os.O_RDWR, 0)
	if err != nil {
		return err
	}
	if err := cmd.Start(); err != nil {
		w.Close()
		return err
	}
	done := make(chan error, 1)
	go func() { done <- cmd.Wait() }()
	k := c.K
	if k > len(stream) {
		k = len(stream)
	}
	w.Write(stream[:k])
	time.Sleep(60 * time.Millisecond) // the child has consumed the prefix and waits for more
	signalled := false
	if c.Variant != "nosignal" {
		cmd.Process.Signal(sig)
		signalled = true
		time.Sleep(40 * time.Millisecond)
	}
	w.Write(stream[k:])
	w.Close()
	werr := <-done
	rc := 0
	if werr != nil {
		rc = -1
		if ee, ok := werr.(*exec.ExitError); ok {
			rc = ee.ExitCode()
		}
	}
	c.Fired, c.Got = signalled, "exit:"+strconv.Itoa(rc)
	c.Detail = strings.TrimSpace(stderr.String())
	if len(c.Detail) > 300 {
		c.Detail = c.Detail[:300]
	}
	r.Count(fmt.Sprintf("cli|tar-fifo|%s|%d|%d", c.Variant, c.N, c.K), signalled)
	r.Dist("cli:tar-fifo " + c.Variant)
	r.Dist("cli-result:" + c.Got)
	if ctx.Err() != nil {
		r.Fail("predicate", "cli-tar/hang-after-signal", fmt.Sprintf("desync tar -i reading a FIFO did not exit within 60s after %v", sig), c)
		return nil
	}
	if rc != 0 && !signalled {
		r.Fail("predicate", "cli-tar/error-without-signal", fmt.Sprintf("desync tar -i exited %d without having been signalled: %s", rc, c.Detail), c)
	}
	if rc == 0 {
		d := ""
		f, err := os.Open(out)
		if err != nil {
			d = "no index written: " + err.Error()
		} else {
			idx, err := desync.IndexFromReader(f)
			f.Close()
			if err != nil {
				d = "index unreadable: " + err.Error()
			} else if d = bkIndexDescribes(idx, ref.Bytes()); d != "" {
				d = "index: " + d
			} else {
				d = bkReadBack(sdir, idx, ref.Bytes())
			}
		}
		c.Complete = d == ""
		if d != "" {
			r.Fail("predicate", "cli-tar/exit0-but-incomplete", fmt.Sprintf("desync tar -i (n=%d, %s while the input stream was at offset %d of %d) exited 0 but the result is incomplete: %s", c.N, c.Variant, k, len(stream), d), c)
		}
	}
	return nil
}

func c07TarFifos(a vh.Args, r *vh.Result, rng *vh.Rand) error {
	if os.Getenv("VH_DESYNC") == "" {
		return nil
	}
	stream, bounds := c06MakeTar(rng, true)
	reps := 5
	if a.Tier == "thorough" {
		reps = 30
	}
	base := &c07Case{Op: "tar-fifo", Variant: "nosignal", N: 2, K: bounds[2] + 700, BlobHex: vh.Hex(stream), Level: "cli"}
	if err := c07TarFifoCase(a, r, base); err != nil {
		return err
	}
	for rep := 0; rep < reps; rep++ {
		for _, v := range []string{"sigint", "sigterm"} {
			// pause inside the data of an entry that is followed by at least two more
			e := 1 + rng.Intn(len(bounds)-4)
			c := &c07Case{Op: "tar-fifo", Variant: v, N: []int{1, 4}[rep%2], K: bounds[e] + 512 + 1 + rng.Intn(400), BlobHex: vh.Hex(stream), Level: "cli"}
			if err := c07TarFifoCase(a, r, c); err != nil {
				return err
			}
		}
	}
	return nil
}
