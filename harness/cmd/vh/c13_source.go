package main

// C13, faults of the source and the archive on standard output.
//
//  deep    a disk tree nested deeper than PATH_MAX (24 levels of 200-byte names, built with
//          mkdirat/openat): the walk cannot lstat the entries below the limit.  An error is fine;
//          Tar() == nil / exit status 0 obliges the archive to list every entry of the tree.
//  stdout  `desync tar - <dir>` and `desync tar --input-format tar - -` (tar on stdin) for sources
//          holding FIFOs / sockets: the bytes on standard output are judged by the validator
//          (warnings belong on standard error) and must equal the archive written to a file.

import (
	"bytes"
	"context"
	"encoding/hex"
	"fmt"
	"os"
	"os/exec"
	"path/filepath"
	"sort"
	"strings"
	"syscall"
	"time"

	"vh/internal/vh"
)

// c13BuildDeep creates root/{aaa, deep/<200 bytes>/<200 bytes>/... (levels), zzz} with a file in
// every level, using *at() calls; returns the hex paths of all nodes.
func c13BuildDeep(root string, levels int, rng *vh.Rand) ([]string, error) {
	if err := os.Mkdir(root, 0755); err != nil {
		return nil, err
	}
	paths := []string{""}
	add := func(comps []string) {
		var hx []string
		for _, c := range comps {
			hx = append(hx, hex.EncodeToString([]byte(c)))
		}
		paths = append(paths, strings.Join(hx, "/"))
	}
	for _, f := range []string{"aaa", "zzz"} {
		if err := os.WriteFile(filepath.Join(root, f), []byte(f), 0644); err != nil {
			return nil, err
		}
		add([]string{f})
	}
	fd, err := syscall.Open(root, syscall.O_RDONLY|syscall.O_DIRECTORY, 0)
	if err != nil {
		return nil, err
	}
	comps := []string{}
	step := func(name string) error {
		if err := syscall.Mkdirat(fd, name, 0755); err != nil {
			return err
		}
		nfd, err := syscall.Openat(fd, name, syscall.O_RDONLY|syscall.O_DIRECTORY, 0)
		if err != nil {
			return err
		}
		syscall.Close(fd)
		fd = nfd
		comps = append(comps, name)
		add(comps)
		ffd, err := syscall.Openat(fd, "f", syscall.O_CREAT|syscall.O_WRONLY, 0644)
		if err != nil {
			return err
		}
		syscall.Close(ffd)
		add(append(append([]string{}, comps...), "f"))
		return nil
	}
	defer func() { syscall.Close(fd) }()
	if err := step("deep"); err != nil {
		return nil, err
	}
	for l := 0; l < levels; l++ {
		name := fmt.Sprintf("%02d-", l) + strings.Repeat(string("dxyz"[rng.Intn(4)]), 197)
		if err := step(name); err != nil {
			return nil, err
		}
	}
	sort.Strings(paths)
	return paths, nil
}

func c13CheckDeep(a vh.Args, r *vh.Result, c *c13Case, id int) error {
	work := filepath.Join(a.Work, fmt.Sprintf("deep%d", id))
	if err := os.MkdirAll(work, 0755); err != nil {
		return err
	}
	defer os.RemoveAll(work)
	levels := c.Cap
	if levels == 0 {
		levels = 24
	}
	tree := filepath.Join(work, "tree")
	paths, err := c13BuildDeep(tree, levels, vh.NewRand(uint64(levels)))
	if err != nil {
		return fmt.Errorf("building the deep tree: %v", err)
	}
	r.Count(fmt.Sprintf("deep|%d", levels), true)
	r.Dist(fmt.Sprintf("source-fault:path-beyond-PATH_MAX(levels=%d)", levels))
	judge := func(how string, b []byte) error {
		f := filepath.Join(work, "deep.catar")
		if err := os.WriteFile(f, b, 0644); err != nil {
			return err
		}
		out, _, err := c13Validate(f, "--no-content-hash")
		if err != nil {
			return err
		}
		d := *c
		if !out.OK {
			d.Errors = out.Errors
			r.Fail("predicate", "sourcefault/success-with-malformed-archive", fmt.Sprintf("%s on a tree nested %d levels deep (beyond PATH_MAX): success, but the archive is rejected: %s", how, levels, out.Errors[0].Msg), &d)
			return nil
		}
		var got []string
		for _, n := range out.Nodes {
			got = append(got, n.PathHex)
		}
		sort.Strings(got)
		if strings.Join(got, "\n") != strings.Join(paths, "\n") {
			have := map[string]bool{}
			for _, g := range got {
				have[g] = true
			}
			missing := ""
			for _, p := range paths {
				if !have[p] {
					missing = c13unhexPath(p)
					if len(missing) > 60 {
						missing = "..." + missing[len(missing)-57:]
					}
					break
				}
			}
			d.Detail = fmt.Sprintf("%d of %d entries archived; first missing: %s; 'zzz' archived: %v", len(got), len(paths), missing, have[hex.EncodeToString([]byte("zzz"))])
			r.Fail("predicate", "sourcefault/success-with-incomplete-archive", fmt.Sprintf("%s on a tree nested %d levels deep (beyond PATH_MAX): success is reported, but the archive holds %d of the %d entries of the source (first missing: %s)", how, levels, len(got), len(paths), missing), &d)
		}
		return nil
	}
	lib, lerr := c13LibTar(tree)
	if lerr == nil {
		if err := judge("desync.Tar(NewLocalFS)", lib); err != nil {
			return err
		}
	}
	catar := filepath.Join(work, "cli.catar")
	if rc, _ := c13RunCLI("tar", catar, tree); rc == 0 {
		b, err := os.ReadFile(catar)
		if err != nil {
			return err
		}
		if err := judge("`desync tar`", b); err != nil {
			return err
		}
	}
	return nil
}

// c13RunStdout runs the CLI with the archive on standard output; stdin optional.
func c13RunStdout(stdin []byte, args ...string) (stdout []byte, rc int, stderr string) {
	ctx, cancel := context.WithTimeout(context.Background(), 120*time.Second)
	defer cancel()
	cmd := exec.CommandContext(ctx, os.Getenv("VH_DESYNC"), args...)
	var so, se bytes.Buffer
	cmd.Stdout, cmd.Stderr = &so, &se
	if stdin != nil {
		cmd.Stdin = bytes.NewReader(stdin)
	}
	err := cmd.Run()
	rc = 0
	if err != nil {
		rc = -1
		if ee, ok := err.(*exec.ExitError); ok {
			rc = ee.ExitCode()
		}
	}
	return so.Bytes(), rc, se.String()
}

func c13CheckStdout(a vh.Args, r *vh.Result, c *c13Case, id int) error {
	work := filepath.Join(a.Work, fmt.Sprintf("stdout%d", id))
	if err := os.MkdirAll(work, 0755); err != nil {
		return err
	}
	defer os.RemoveAll(work)
	nspecial := 0
	for _, n := range c.Nodes {
		if n.Type == "fifo" || n.Type == "socket" {
			nspecial++
		}
	}
	r.Count(fmt.Sprintf("stdout|%s|%d|%d", c.Source, len(c.Nodes), nspecial), nspecial > 0)
	r.Dist("stdout-source:" + c.Source)
	var want map[string]*c13Want
	var order []string
	var stdout, ref []byte
	var rc int
	var stderr, what string
	var vargs []string
	refFile := filepath.Join(work, "ref.catar")
	switch c.Source {
	case "disk":
		tree := filepath.Join(work, "tree")
		if err := c13Materialize(tree, c.Nodes); err != nil {
			return err
		}
		var err error
		want, order, err = c13Snapshot(tree)
		if err != nil {
			return err
		}
		stdout, rc, stderr = c13RunStdout(nil, "tar", "-", tree)
		what = fmt.Sprintf("`desync tar - <dir>` (%d nodes, %d FIFOs/sockets)", len(c.Nodes), nspecial)
		if rrc, _ := c13RunCLI("tar", refFile, tree); rrc == 0 {
			ref, _ = os.ReadFile(refFile)
		}
	case "tar-stdin":
		tb, _, err := c13BuildTar(c.Nodes, false)
		if err != nil {
			return err
		}
		want, order = c13WantFromNodes(c.Nodes)
		stdout, rc, stderr = c13RunStdout(tb, "tar", "--input-format", "tar", "-", "-")
		what = fmt.Sprintf("`desync tar --input-format tar - -` (%d members, %d FIFOs)", len(c.Nodes)-1, nspecial)
		vargs = []string{"--unsorted-ok"}
		tf := filepath.Join(work, "in.tar")
		os.WriteFile(tf, tb, 0644)
		if rrc, _ := c13RunCLI("tar", "--input-format", "tar", refFile, tf); rrc == 0 {
			ref, _ = os.ReadFile(refFile)
		}
	default:
		return fmt.Errorf("unknown stdout source %q", c.Source)
	}
	if rc != 0 {
		r.Fail("predicate", "stdout/cli-error", fmt.Sprintf("%s exits %d: %s", what, rc, c13Trunc(stderr)), c13Slim(c))
		return nil
	}
	f := filepath.Join(work, "stdout.catar")
	if err := os.WriteFile(f, stdout, 0644); err != nil {
		return err
	}
	out, _, err := c13Validate(f, vargs...)
	if err != nil {
		return err
	}
	if !out.OK {
		d := *c
		d.Errors = out.Errors
		if len(d.Errors) > 4 {
			d.Errors = d.Errors[:4]
		}
		d.Detail = fmt.Sprintf("%d bytes on stdout, %d in the archive written to a file; stderr: %s", len(stdout), len(ref), c13Trunc(stderr))
		r.Fail("predicate", "stdout/malformed-archive", fmt.Sprintf("%s: exit status 0, but the bytes on standard output (%d; the same archive written to a file has %d) are rejected: %s (offset %d)", what, len(stdout), len(ref), out.Errors[0].Msg, out.Errors[0].Offset), &d)
		return nil
	}
	sc := *c
	c13Judge(r, &sc, out, want, order, what)
	r.Corr()
	if ref != nil && !bytes.Equal(ref, stdout) {
		r.Fail("corr", "corr:C13/stdout-vs-file", what+": the archive on standard output differs from the one written to a file", c13Slim(c))
	}
	return nil
}

func c13RunSourceCases(a vh.Args, r *vh.Result, rng *vh.Rand, thorough bool) error {
	if os.Getenv("VH_DESYNC") == "" {
		return nil
	}
	// the deep tree; a control nested within PATH_MAX must simply be archived completely
	for i, levels := range []int{24, 10} {
		if err := c13CheckDeep(a, r, &c13Case{Kind: "deep", Cap: levels}, i+1); err != nil {
			return err
		}
	}
	n := 2
	if thorough {
		n = 8
	}
	for i := 0; i < n; i++ {
		// a small tree that certainly holds a FIFO and a socket, somewhere below the root
		nodes := c13SmallTree(rng.Fork())
		var dirs [][]string
		for _, nd := range nodes {
			if nd.Type == "dir" {
				dirs = append(dirs, nd.Path)
			}
		}
		for k, typ := range []string{"fifo", "socket"} {
			p := append(append([]string{}, dirs[rng.Intn(len(dirs))]...), hex.EncodeToString([]byte(fmt.Sprintf("%s%d", typ, k))))
			nodes = append(nodes, c13Node{Path: p, Type: typ, Mode: 0644, Mtime: 1600000000 * 1e9})
		}
		if err := c13CheckStdout(a, r, &c13Case{Kind: "stdout", Source: "disk", Nodes: nodes}, 2*i+1); err != nil {
			return err
		}
		// the tar stream carries FIFOs only (no socket type in tar)
		var tn []c13Node
		for _, nd := range nodes {
			if nd.Type != "socket" {
				tn = append(tn, nd)
			}
		}
		if err := c13CheckStdout(a, r, &c13Case{Kind: "stdout", Source: "tar-stdin", Nodes: tn}, 2*i+2); err != nil {
			return err
		}
	}
	return nil
}
