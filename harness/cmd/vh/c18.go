package main

// C18: unpacking an archive never writes outside the destination directory.
//
// A case is an ELEMENT SEQUENCE (the attacker controls every element), encoded with
// desync's own FormatEncoder, unpacked by the real code (UnTar / UnTarIndex / the CLI)
// with the LocalFS writer into <moat>/m1/../m8/sb/dest.  The sandbox "sb" also holds
// sentinel siblings and the directory the hostile links point to; the eight "moat"
// levels above it keep lexical ".." climbs inside the case's scratch area.
//
// Predicate (independent of the model): recursive snapshot of <moat> before and after;
// anything that is not "dest" or below it and changed is a failure.
// Correspondence: the extracted Coq model (Model/Untar.v) runs on the same element
// sequence over the same initial tree; result class, final tree and touched places are
// compared.

import (
	"bufio"
	"bytes"
	"context"
	"crypto/sha256"
	"encoding/hex"
	"encoding/json"
	"errors"
	"fmt"
	"os"
	"os/exec"
	"path"
	"path/filepath"
	"sort"
	"strconv"
	"strings"
	"syscall"
	"time"

	"github.com/folbricht/desync"

	"vh/internal/vh"
)

func init() { props["C18"] = runC18 }

// ---------- cases ----------

type c18El struct {
	K     string `json:"k"`           // E F P S D X G O U B
	S     string `json:"s,omitempty"` // hex: name / data / target / name\0value
	Mode  uint64 `json:"mode,omitempty"`
	UID   uint64 `json:"uid,omitempty"`
	GID   uint64 `json:"gid,omitempty"`
	MTime uint64 `json:"mtime,omitempty"` // seconds
	Major uint64 `json:"major,omitempty"`
	Minor uint64 `json:"minor,omitempty"`
}

type c18Pre struct { // content of dest before the run ("an earlier extraction")
	Path string `json:"path"` // relative to dest
	Kind string `json:"kind"` // d f l
	S    string `json:"s,omitempty"`
}

type c18Case struct {
	Shape       string   `json:"shape"`
	Elems       []c18El  `json:"elems"`
	Pre         []c18Pre `json:"pre,omitempty"`
	NoSameOwner bool     `json:"no_same_owner"`
	NoSamePerms bool     `json:"no_same_perms"`
	Via         string   `json:"via"`                // untar | index | cli | cli-index
	Discover    bool     `json:"discover,omitempty"` // unpack with the CLI under strace and report every path a mutating call names
	Planted     string   `json:"planted,omitempty"`  // the intermediate path (relative to dest) at which a link was planted
	Touched     []string `json:"touched,omitempty"`  // Discover: paths relative to dest ("" = dest itself)
	Dest        string   `json:"dest,omitempty"`     // what is at the destination path before the run: "" = a directory | absent | file
	Nameless    bool     `json:"nameless"`
	// filled by the run
	Class   string    `json:"class,omitempty"` // ok | error | panic
	Err     string    `json:"err,omitempty"`
	Outside []string  `json:"changed_outside,omitempty"`
	Changed []string  `json:"changed,omitempty"`
	DirTime []string  `json:"dir_mtime_changed,omitempty"` // directories of which only the mtime changed
	After   []c18Node `json:"-"`
	Moat    string    `json:"-"`
	Broken  bool      `json:"-"` // the correspondence with the model failed on this case
	MNodes  string    `json:"-"` // the model's node list, when it differs from the decoder's
	Nodes   string    `json:"-"` // what ArchiveDecoder.Next yields: "<end|error> k:hexname,..."
}

type c18Node struct {
	P     string `json:"p"` // absolute path
	K     string `json:"k"` // d f l v
	S     string `json:"s"` // hex content / target
	Perm  uint32 `json:"perm"`
	UID   uint32 `json:"uid"`
	GID   uint32 `json:"gid"`
	MTime int64  `json:"mtime"`
}

const (
	sIFMT  = 0170000
	sIFDIR = 0040000
	sIFREG = 0100000
	sIFLNK = 0120000
	sIFIFO = 0010000
	sIFCHR = 0020000
)

func hx(s string) string { return hex.EncodeToString([]byte(s)) }
func unhx(s string) string {
	b, _ := hex.DecodeString(s)
	return string(b)
}

// what Next's mode field becomes: FilemodeToStatMode(StatModeToFilemode(uint32(mode)))
func c18NormMode(m uint64) uint64 {
	return uint64(desync.FilemodeToStatMode(desync.StatModeToFilemode(uint32(m))))
}

// c18Encode renders the element sequence with desync's encoder.
func c18Encode(els []c18El) []byte {
	var buf bytes.Buffer
	enc := desync.NewFormatEncoder(&buf)
	hdr := func(size int, typ uint64) desync.FormatHeader {
		return desync.FormatHeader{Size: uint64(size), Type: typ}
	}
	for _, e := range els {
		s := unhx(e.S)
		switch e.K {
		case "E":
			enc.Encode(desync.FormatEntry{FormatHeader: hdr(64, desync.CaFormatEntry), FeatureFlags: desync.TarFeatureFlags,
				Mode: desync.StatModeToFilemode(uint32(e.Mode)), UID: int(e.UID), GID: int(e.GID), MTime: time.Unix(int64(e.MTime), 0)})
		case "F":
			enc.Encode(desync.FormatFilename{FormatHeader: hdr(16+len(s)+1, desync.CaFormatFilename), Name: s})
		case "P":
			enc.Encode(desync.FormatPayload{FormatHeader: hdr(16+len(s), desync.CaFormatPayload), Data: strings.NewReader(s)})
		case "S":
			enc.Encode(desync.FormatSymlink{FormatHeader: hdr(16+len(s)+1, desync.CaFormatSymlink), Target: s})
		case "D":
			enc.Encode(desync.FormatDevice{FormatHeader: hdr(32, desync.CaFormatDevice), Major: e.Major, Minor: e.Minor})
		case "X":
			enc.Encode(desync.FormatXAttr{FormatHeader: hdr(16+len(s)+1, desync.CaFormatXAttr), NameAndValue: s})
		case "G":
			enc.Encode(desync.FormatGoodbye{FormatHeader: hdr(16+24, desync.CaFormatGoodbye),
				Items: []desync.FormatGoodbyeItem{{Offset: 0, Size: 40, Hash: desync.CaFormatGoodbyeTailMarker}}})
		case "O":
			enc.Encode(desync.FormatUser{FormatHeader: hdr(16+4+1, desync.CaFormatUser), Name: "root"})
		case "U":
			enc.Encode(desync.FormatIndex{FormatHeader: hdr(48, desync.CaFormatIndex), FeatureFlags: 0, ChunkSizeMin: 1, ChunkSizeAvg: 2, ChunkSizeMax: 3})
		case "B": // an element the decoder rejects
			buf.Write([]byte{16, 0, 0, 0, 0, 0, 0, 0, 1, 2, 3, 4, 5, 6, 7, 8})
		}
	}
	return buf.Bytes()
}

func c18Tokens(els []c18El) string {
	t := make([]string, 0, len(els))
	z := func(s string) string {
		if s == "" {
			return "-"
		}
		return s
	}
	for _, e := range els {
		switch e.K {
		case "E":
			t = append(t, fmt.Sprintf("E:%d:%d:%d:%d", c18NormMode(e.Mode), e.UID, e.GID, e.MTime*1000000000))
		case "F", "P", "S", "X":
			t = append(t, e.K+":"+z(e.S))
		case "D":
			t = append(t, fmt.Sprintf("D:%d:%d", e.Major, e.Minor))
		default:
			t = append(t, e.K)
		}
	}
	if len(t) == 0 {
		return "-"
	}
	return strings.Join(t, ",")
}

// "@SB@" in names and targets stands for the absolute path of the sandbox
func c18Subst(els []c18El, sb string) []c18El {
	out := make([]c18El, len(els))
	for i, e := range els {
		if (e.K == "F" || e.K == "S") && strings.Contains(unhx(e.S), "@SB@") {
			e.S = hx(strings.ReplaceAll(unhx(e.S), "@SB@", sb))
		}
		out[i] = e
	}
	return out
}

// an Entry (other than the first) that no Filename element precedes
func c18HasNameless(els []c18El) bool {
	named, first := false, true
	for _, e := range els {
		switch e.K {
		case "F":
			named = true
		case "E":
			if !named && !first {
				return true
			}
			first, named = false, false
		}
	}
	return false
}

// the first entry has no name and is not a directory, and something follows it
func c18LeafRoot(els []c18El) bool {
	leaf, seen := false, false
	for _, e := range els {
		switch e.K {
		case "F":
			if !seen {
				return false
			}
			return leaf
		case "E":
			if seen {
				return leaf
			}
			seen = true
		case "P", "S", "D":
			if seen {
				leaf = true
			}
		}
	}
	return false
}

func c18BadNames(els []c18El) bool {
	for _, e := range els {
		if e.K == "F" {
			s := unhx(e.S)
			if s == "" || s == "." || s == ".." || strings.Contains(s, "/") {
				return true
			}
		}
	}
	return false
}

// ---------- sandbox ----------

const c18MoatDepth = 8

// layout below <moat>: m1/.../m8/sb/{dest, outside/{x, sub/y}, sentinel, sib/{f}, lnk -> outside}
func c18Sandbox(moat string, c *c18Case) (sb, dest string, err error) {
	p := moat
	for i := 1; i <= c18MoatDepth; i++ {
		p = filepath.Join(p, "m"+strconv.Itoa(i))
	}
	sb = filepath.Join(p, "sb")
	dest = filepath.Join(sb, "dest")
	for _, d := range []string{dest, filepath.Join(sb, "outside", "sub"), filepath.Join(sb, "sib")} {
		if d == dest && c.Dest != "" {
			continue
		}
		if err = os.MkdirAll(d, 0755); err != nil {
			return
		}
	}
	if c.Dest == "file" {
		if err = os.WriteFile(dest, []byte("DEST-IS-A-FILE"), 0644); err != nil {
			return
		}
	}
	files := map[string]string{
		filepath.Join(sb, "outside", "x"):        "SENTINEL-x",
		filepath.Join(sb, "outside", "sub", "y"): "SENTINEL-y",
		filepath.Join(sb, "sentinel"):            "SENTINEL",
		filepath.Join(sb, "sib", "f"):            "SENTINEL-f",
		filepath.Join(moat, "top"):               "SENTINEL-top",
		filepath.Join(moat, "m1", "x"):           "SENTINEL-m1x",
	}
	for f, s := range files {
		if err = os.WriteFile(f, []byte(s), 0644); err != nil {
			return
		}
	}
	if err = os.Symlink("outside", filepath.Join(sb, "lnk")); err != nil {
		return
	}
	for _, pr := range c.Pre {
		if c.Dest != "" {
			break
		}
		q := filepath.Join(dest, pr.Path)
		os.MkdirAll(filepath.Dir(q), 0755)
		switch pr.Kind {
		case "d":
			err = os.MkdirAll(q, 0755)
		case "f":
			err = os.WriteFile(q, []byte(unhx(pr.S)), 0644)
		case "l":
			err = os.Symlink(strings.ReplaceAll(unhx(pr.S), "@SB@", sb), q)
		}
		if err != nil {
			return
		}
	}
	// fixed old mtimes so that a touch is visible
	old := time.Unix(1500000000, 0)
	filepath.Walk(moat, func(q string, info os.FileInfo, err error) error {
		if err == nil && info.Mode()&os.ModeSymlink == 0 {
			os.Chtimes(q, old, old)
		}
		return nil
	})
	return
}

type c18Snap struct {
	Kind   string // d f l v
	Perm   uint32
	Size   int64
	Hash   string
	Data   string // hex, files only (small)
	Target string
	UID    uint32
	GID    uint32
	MTime  int64
}

func c18Snapshot(root string) map[string]c18Snap {
	out := map[string]c18Snap{}
	filepath.Walk(root, func(q string, info os.FileInfo, err error) error {
		if err != nil {
			return nil
		}
		var s c18Snap
		st, _ := info.Sys().(*syscall.Stat_t)
		if st != nil {
			s.UID, s.GID = st.Uid, st.Gid
			s.Perm = st.Mode & 07777
		}
		s.MTime = info.ModTime().UnixNano()
		switch {
		case info.IsDir():
			s.Kind = "d"
		case info.Mode()&os.ModeSymlink != 0:
			s.Kind = "l"
			s.Target, _ = os.Readlink(q)
		case info.Mode().IsRegular():
			s.Kind = "f"
			s.Size = info.Size()
			b, _ := os.ReadFile(q)
			h := sha256.Sum256(b)
			s.Hash = hex.EncodeToString(h[:8])
			s.Data = hex.EncodeToString(b)
		default:
			s.Kind = "v"
		}
		out[q] = s
		return nil
	})
	return out
}

func c18Under(p, dir string) bool { return p == dir || strings.HasPrefix(p, dir+"/") }

// ---------- running the implementation (child process) ----------

// c18DecodeNodes runs the real ArchiveDecoder over the archive and lists kind and Name of every node.
func c18DecodeNodes(catar []byte) string {
	dec := desync.NewArchiveDecoder(bytes.NewReader(catar))
	var toks []string
	status := "end"
	for {
		n, err := dec.Next()
		if err != nil {
			status = "error"
			break
		}
		if n == nil {
			break
		}
		switch v := n.(type) {
		case desync.NodeDirectory:
			toks = append(toks, "d:"+vh.Hex([]byte(v.Name)))
		case desync.NodeFile:
			toks = append(toks, "f:"+vh.Hex([]byte(v.Name)))
		case desync.NodeSymlink:
			toks = append(toks, "l:"+vh.Hex([]byte(v.Name)))
		case desync.NodeDevice:
			toks = append(toks, "v:"+vh.Hex([]byte(v.Name)))
		}
	}
	if len(toks) == 0 {
		return status + " -"
	}
	return status + " " + strings.Join(toks, ",")
}

const c18HangAfter = 4 * time.Second

// c18Timed runs f; a run that does not come back is a hang (the goroutine stays stuck in
// its system call, the child exits after reporting)
func c18Timed(f func() error) error {
	ch := make(chan error, 1)
	go func() { ch <- f() }()
	select {
	case err := <-ch:
		return err
	case <-time.After(c18HangAfter):
		return errors.New("HANG in-process")
	}
}

func c18RunOne(work string, i int, c *c18Case) {
	moat := filepath.Join(work, "c"+strconv.Itoa(i))
	os.RemoveAll(moat)
	c.Moat = moat
	sb, dest, err := c18Sandbox(moat, c)
	if err != nil {
		c.Class, c.Err = "harness", err.Error()
		return
	}
	catar := c18Encode(c18Subst(c.Elems, sb))
	c.Nodes = c18DecodeNodes(catar)
	before := c18Snapshot(moat)
	opts := desync.LocalFSOptions{NoSameOwner: c.NoSameOwner, NoSamePermissions: c.NoSamePerms}
	aux := filepath.Join(work, "aux"+strconv.Itoa(i)) // store / index / catar: outside the snapshot
	os.RemoveAll(aux)
	os.MkdirAll(filepath.Join(aux, "store"), 0755)
	defer os.RemoveAll(aux)
	var rerr error
	mkIndex := func() (desync.Index, desync.LocalStore, error) {
		st, err := desync.NewLocalStore(filepath.Join(aux, "store"), desync.StoreOptions{})
		if err != nil {
			return desync.Index{}, st, err
		}
		ch, err := desync.NewChunker(bytes.NewReader(catar), 48, 64, 128)
		if err != nil {
			return desync.Index{}, st, err
		}
		idx, err := desync.ChunkStream(context.Background(), ch, st, 2)
		return idx, st, err
	}
	cliFlags := func() []string {
		var f []string
		if c.NoSameOwner {
			f = append(f, "--no-same-owner")
		}
		if c.NoSamePerms {
			f = append(f, "--no-same-permissions")
		}
		return f
	}
	runCLI := func(args ...string) error {
		limit := c18HangAfter
		if c.Discover {
			limit *= 4
		}
		ctx, cancel := context.WithTimeout(context.Background(), limit)
		defer cancel()
		bin := os.Getenv("VH_DESYNC")
		if c.Discover {
			args = append([]string{"-f", "-qq", "--seccomp-bpf", "-e", "trace=%file", "-s", "65535", "-o", filepath.Join(aux, "trace.txt"), bin}, args...)
			bin = os.Getenv("VH_STRACE")
		}
		cmd := exec.CommandContext(ctx, bin, args...)
		cmd.Dir = aux
		cmd.Stdin = strings.NewReader("")
		cmd.Cancel = func() error { return cmd.Process.Signal(syscall.SIGQUIT) } // goroutine dump of a hung CLI
		cmd.WaitDelay = 2 * time.Second
		out, err := cmd.CombinedOutput()
		if err != nil {
			if ctx.Err() != nil {
				if os.Getenv("VH_C18_DEBUG") != "" {
					fmt.Fprintf(os.Stderr, "CLI timed out: %v\n%s\n", args, out)
				}
				return errors.New("HANG " + string(out[:min(len(out), 300)]))
			}
			if bytes.Contains(out, []byte("panic:")) || bytes.Contains(out, []byte("goroutine ")) {
				return errors.New("PANIC " + string(out[:min(len(out), 300)]))
			}
			return errors.New(err.Error() + ": " + strings.TrimSpace(string(out[:min(len(out), 200)])))
		}
		return nil
	}
	switch c.Via {
	case "index":
		idx, st, err := mkIndex()
		if err != nil {
			c.Class, c.Err = "harness", err.Error()
			return
		}
		rerr = c18Timed(func() error {
			return desync.UnTarIndex(context.Background(), desync.NewLocalFS(dest, opts), idx, st, 3, desync.NullProgressBar{})
		})
	case "cli", "strace":
		os.WriteFile(filepath.Join(aux, "a.catar"), catar, 0644)
		rerr = runCLI(append([]string{"untar"}, append(cliFlags(), filepath.Join(aux, "a.catar"), dest)...)...)
		if c.Discover {
			tr, _ := os.ReadFile(filepath.Join(aux, "trace.txt"))
			c.Touched = nil
			for _, p := range c18TraceTouched(string(tr), dest) {
				c.Touched = append(c.Touched, strings.TrimPrefix(strings.TrimPrefix(p, dest), "/"))
			}
			if len(tr) == 0 && rerr != nil {
				c.Class, c.Err = "harness", "strace produced no trace: "+rerr.Error()
				return
			}
		}
	case "cli-index":
		idx, _, err := mkIndex()
		if err != nil {
			c.Class, c.Err = "harness", err.Error()
			return
		}
		f, _ := os.Create(filepath.Join(aux, "a.caidx"))
		idx.WriteTo(f)
		f.Close()
		rerr = runCLI(append([]string{"untar", "-i", "-s", filepath.Join(aux, "store")}, append(cliFlags(), filepath.Join(aux, "a.caidx"), dest)...)...)
	default:
		rerr = c18Timed(func() error {
			return desync.UnTar(context.Background(), bytes.NewReader(catar), desync.NewLocalFS(dest, opts))
		})
	}
	c.Class = "ok"
	if rerr != nil {
		c.Class, c.Err = "error", rerr.Error()
		if strings.HasPrefix(c.Err, "PANIC") {
			c.Class = "panic"
		}
		if strings.HasPrefix(c.Err, "HANG") {
			c.Class = "hang"
		}
		if len(c.Err) > 200 {
			c.Err = c.Err[:200]
		}
	}
	after := c18Snapshot(moat)
	// the sandbox directory itself changes (mtime) when "dest" is replaced: not an object outside dest
	c.Outside, c.Changed, c.DirTime = nil, nil, nil
	seen := map[string]bool{}
	for p, b := range before {
		seen[p] = true
		a, ok := after[p]
		if ok && a == b {
			continue
		}
		if ok && p == sb && a.Kind == b.Kind && a.Perm == b.Perm && a.UID == b.UID && a.GID == b.GID {
			continue
		}
		if !c18Under(p, dest) {
			c.Outside = append(c.Outside, p)
		}
		b.MTime = a.MTime
		if ok && a == b && a.Kind == "d" {
			c.DirTime = append(c.DirTime, p)
		} else {
			c.Changed = append(c.Changed, p)
		}
	}
	for p := range after {
		if !seen[p] {
			c.Changed = append(c.Changed, p)
			if !c18Under(p, dest) {
				c.Outside = append(c.Outside, p)
			}
		}
	}
	sort.Strings(c.Changed)
	sort.Strings(c.Outside)
	c.After = c.After[:0]
	for p, a := range after {
		n := c18Node{P: p, K: a.Kind, Perm: a.Perm, UID: a.UID, GID: a.GID, MTime: a.MTime}
		switch a.Kind {
		case "f":
			n.S = a.Data
		case "l":
			n.S = hx(a.Target)
		}
		c.After = append(c.After, n)
	}
	sort.Slice(c.After, func(i, j int) bool { return c.After[i].P < c.After[j].P })
	os.RemoveAll(moat)
}

type c18Line struct {
	I       int       `json:"i"`
	Class   string    `json:"class"`
	Err     string    `json:"err"`
	Outside []string  `json:"outside"`
	Changed []string  `json:"changed"`
	DirTime []string  `json:"dirtime"`
	After   []c18Node `json:"after"`
	Moat    string    `json:"moat"`
	Nodes   string    `json:"nodes"`
	Touched []string  `json:"touched"`
}

func c18HexAll(l []string) []string {
	out := make([]string, len(l))
	for i, s := range l {
		out[i] = hx(s)
	}
	return out
}
func c18UnhexAll(l []string) []string {
	out := make([]string, len(l))
	for i, s := range l {
		out[i] = unhx(s)
	}
	return out
}

func c18Child(a vh.Args) error {
	var batch []c18Case
	b, err := os.ReadFile(a.Replay)
	if err != nil {
		return err
	}
	if err := json.Unmarshal(b, &batch); err != nil {
		return err
	}
	out, err := os.Create(os.Getenv("VH_C18_RES"))
	if err != nil {
		return err
	}
	defer out.Close()
	base, _ := strconv.Atoi(os.Getenv("VH_C18_BASE"))
	work := os.Getenv("VH_C18_WORK")
	syscall.Umask(0) // mkdir(0777) / open(0666) / mknod(mode|0666) give exactly these modes
	// confine the child physically: hostile links and names are resolved inside the scratch area
	if err := syscall.Chroot(work); err == nil {
		os.Chdir("/")
		work = "/"
		os.Setenv("VH_DESYNC", "/desync")
		os.Setenv("VH_STRACE", "/strace")
	}
	for i := range batch {
		c := &batch[i]
		t0 := time.Now()
		c18RunOne(work, base+i, c)
		if d := time.Since(t0); d > 5*time.Second {
			fmt.Fprintf(os.Stderr, "slow case %d (%s %s): %v %s\n", base+i, c.Shape, c.Via, d, c.Err)
		}
		after := make([]c18Node, len(c.After))
		for k, n := range c.After {
			after[k] = n
			after[k].P = hx(n.P)
		}
		line, _ := json.Marshal(c18Line{I: i, Class: c.Class, Err: hx(c.Err), Outside: c18HexAll(c.Outside), Changed: c18HexAll(c.Changed), DirTime: c18HexAll(c.DirTime), After: after, Moat: c.Moat, Nodes: c.Nodes, Touched: c18HexAll(c.Touched)})
		out.Write(append(line, '\n'))
		if c.Class == "hang" {
			out.Close()
			os.Exit(3) // a goroutine is stuck in a system call; the parent starts a new child for the rest
		}
	}
	return nil
}

func c18RunBatch(a vh.Args, cases []*c18Case, base int) error {
	start := 0
	for start < len(cases) {
		bf := filepath.Join(a.Work, "batch.json")
		rf := filepath.Join(a.Work, "batch.res")
		b, _ := json.Marshal(cases[start:])
		if err := os.WriteFile(bf, b, 0644); err != nil {
			return err
		}
		os.Remove(rf)
		cmd := exec.Command(os.Args[0], "C18", "-replay", bf, "-oracle", "/nonexistent")
		cmd.Env = append(os.Environ(), "VH_C18_CHILD=1", "VH_C18_RES="+rf, "VH_C18_WORK="+a.Work, "VH_C18_BASE="+strconv.Itoa(base+start))
		var stderr bytes.Buffer
		cmd.Stderr = &stderr
		if os.Getenv("VH_C18_DEBUG") != "" {
			cmd.Stderr = os.Stderr
		}
		if err := cmd.Start(); err != nil {
			return err
		}
		waitCh := make(chan error, 1)
		go func() { waitCh <- cmd.Wait() }()
		var werr error
		select {
		case werr = <-waitCh:
		case <-time.After(time.Duration(60+len(cases[start:])) * time.Second):
			cmd.Process.Kill()
			werr = errors.New("child timeout")
			<-waitCh
		}
		n := 0
		if f, err := os.Open(rf); err == nil {
			sc := bufio.NewScanner(f)
			sc.Buffer(make([]byte, 1<<20), 1<<28)
			for sc.Scan() {
				var l c18Line
				if json.Unmarshal(sc.Bytes(), &l) == nil {
					c := cases[start+l.I]
					c.Class, c.Err, c.Outside, c.Changed, c.DirTime, c.After, c.Moat, c.Nodes = l.Class, unhx(l.Err), c18UnhexAll(l.Outside), c18UnhexAll(l.Changed), c18UnhexAll(l.DirTime), l.After, l.Moat, l.Nodes
					c.Touched = c18UnhexAll(l.Touched)
					for k := range c.After {
						c.After[k].P = unhx(c.After[k].P)
					}
					n = l.I + 1
				}
			}
			f.Close()
		}
		if werr == nil && n == len(cases[start:]) {
			return nil
		}
		if n > 0 && cases[start+n-1].Class == "hang" {
			// the child left on purpose
		} else if start+n < len(cases) { // the child died while running case start+n
			msg := stderr.String()
			if i := strings.Index(msg, "panic:"); i >= 0 {
				msg = msg[i:]
			}
			cases[start+n].Class, cases[start+n].Err = "panic", msg[:min(len(msg), 300)]
			n++
		}
		start += n
		if n == 0 {
			return fmt.Errorf("child made no progress: %v %s", werr, stderr.String())
		}
	}
	return nil
}

// ---------- judging ----------

func c18Judge(a vh.Args, o *vh.Oracle, r *vh.Result, c *c18Case) error {
	c.Nameless = c18HasNameless(c.Elems)
	key, _ := json.Marshal(c.Elems)
	sum := sha256.Sum256(key)
	hostile := c.Nameless || c18BadNames(c.Elems) || c.Shape != "benign"
	r.Count(c.Shape+"|"+c.Via+"|"+hex.EncodeToString(sum[:8]), hostile)
	r.Dist("shape:" + c.Shape)
	r.Dist("via:" + c.Via)
	r.Dist("dest:" + map[string]string{"": "directory", "absent": "absent", "file": "file"}[c.Dest])
	r.Dist("class:" + c.Class)
	r.Dist("elems:" + bucket(len(c.Elems)))
	if c.Class == "harness" {
		return fmt.Errorf("sandbox: %s", c.Err)
	}
	if c.Class == "hang" {
		r.Note("implementation HANGS on shape %s via %s: %s", c.Shape, c.Via, c.Err[:min(len(c.Err), 120)])
	}
	if c.Class == "panic" {
		r.Note("decoder/writer panic (C19's business) on shape %s: %s", c.Shape, c.Err)
		return nil
	}
	r.Sample(map[string]interface{}{"shape": c.Shape, "via": c.Via, "elems": len(c.Elems), "class": c.Class, "changed": len(c.Changed)})
	// the property predicate
	if len(c.Outside) > 0 {
		cls := "untar/escape"
		switch {
		case c.Planted != "":
			cls = "untar/intermediate-path"
		case c18LeafRoot(c.Elems):
			cls = "untar/root-entry-not-a-directory"
		case c.Nameless:
			cls = "untar/nameless-entry"
		case c18BadNames(c.Elems):
			cls = "untar/entry-name-not-a-component"
		}
		rel := make([]string, len(c.Outside))
		for i, p := range c.Outside {
			rel[i] = strings.TrimPrefix(p, c.Moat+"/")
		}
		r.Fail("predicate", cls, fmt.Sprintf("%s (%s, result %s) changed objects outside the destination: %v", c.Shape, c.Via, c.Class, rel), c)
	}
	if o == nil || c.Via == "" {
		return nil
	}
	// correspondence with the model
	dest := c.Moat
	for i := 1; i <= c18MoatDepth; i++ {
		dest += "/m" + strconv.Itoa(i)
	}
	sb := dest + "/sb"
	dest = sb + "/dest"
	destTok := "d:" + hx(dest) + ":493"
	switch c.Dest {
	case "absent":
		destTok = "d:" + hx(sb) + ":493"
	case "file":
		destTok = "f:" + hx(dest) + ":420:" + hx("DEST-IS-A-FILE")
	}
	fsTok := []string{"d:" + hx(sb) + ":493", destTok, "d:" + hx(sb+"/outside") + ":493", "d:" + hx(sb+"/outside/sub") + ":493", "d:" + hx(sb+"/sib") + ":493",
		"f:" + hx(sb+"/outside/x") + ":420:" + hx("SENTINEL-x"), "f:" + hx(sb+"/outside/sub/y") + ":420:" + hx("SENTINEL-y"),
		"f:" + hx(sb+"/sentinel") + ":420:" + hx("SENTINEL"), "f:" + hx(sb+"/sib/f") + ":420:" + hx("SENTINEL-f"),
		"f:" + hx(c.Moat+"/top") + ":420:" + hx("SENTINEL-top"), "f:" + hx(c.Moat+"/m1/x") + ":420:" + hx("SENTINEL-m1x"),
		"l:" + hx(sb+"/lnk") + ":" + hx("outside")}
	for _, pr := range c.Pre {
		if c.Dest != "" {
			break
		}
		for d := path.Dir(pr.Path); d != "." && d != "/"; d = path.Dir(d) { // parents (appended in reverse, the builder creates them anyway; this sets their mode)
			fsTok = append(fsTok, "d:"+hx(dest+"/"+d)+":493")
		}
		switch pr.Kind {
		case "d":
			fsTok = append(fsTok, "d:"+hx(dest+"/"+pr.Path)+":493")
		case "f":
			s := pr.S
			if s == "" {
				s = "-"
			}
			fsTok = append(fsTok, "f:"+hx(dest+"/"+pr.Path)+":420:"+s)
		case "l":
			fsTok = append(fsTok, "l:"+hx(dest+"/"+pr.Path)+":"+hx(strings.ReplaceAll(unhx(pr.S), "@SB@", sb)))
		}
	}
	oo := "00"
	if c.NoSameOwner {
		oo = "1" + oo[1:]
	}
	if c.NoSamePerms {
		oo = oo[:1] + "1"
	}
	if c.Nodes != "" {
		nans, err := o.Call("c18.nodes", "fixed", c18Tokens(c18Subst(c.Elems, sb)))
		if err != nil {
			return err
		}
		r.Corr()
		var mt []string
		np := strings.SplitN(nans, " ", 2)
		if len(np) == 2 && np[1] != "-" {
			for _, t := range strings.Split(np[1], ",") {
				f := strings.Split(t, ":")
				mt = append(mt, f[0]+":"+f[1])
			}
		}
		mnodes := np[0] + " -"
		if len(mt) > 0 {
			mnodes = np[0] + " " + strings.Join(mt, ",")
		}
		if mnodes != c.Nodes {
			c.Broken, c.MNodes = true, mnodes
			r.Fail("corr", "corr:C18/nodes", fmt.Sprintf("%s: ArchiveDecoder yields %q, model %q", c.Shape, c.Nodes, mnodes), c)
			return nil
		}
	}
	ans, err := o.Call("c18.untar", "fixed", oo, hx(dest), strings.Join(fsTok, ","), c18Tokens(c18Subst(c.Elems, sb)))
	if err != nil {
		return err
	}
	r.Corr()
	parts := strings.Split(ans, " ")
	if len(parts) != 3 {
		return fmt.Errorf("oracle answer %q", ans)
	}
	mclass := "error"
	if parts[0] == "done" {
		mclass = "ok"
	}
	if c.Class == "hang" {
		// os.RemoveAll opens the parent of dst; if that is a FIFO the open blocks for ever.
		// The model has no blocking calls: the same step is a write error there.
		if mclass != "error" {
			c.Broken = true
			r.Fail("corr", "corr:C18/result", fmt.Sprintf("model %s, implementation hangs on %s", parts[0], c.Shape), c)
		}
		return nil
	}
	if mclass != c.Class {
		c.Broken = true
		r.Fail("corr", "corr:C18/result", fmt.Sprintf("model %s, implementation %s (%s) on %s", parts[0], c.Class, c.Err, c.Shape), c)
		return nil
	}
	// final tree
	model := map[string]c18Node{}
	if parts[2] != "-" {
		for _, t := range strings.Split(parts[2], ",") {
			f := strings.Split(t, ":")
			p := unhx(f[1])
			if !c18Under(p, c.Moat) {
				continue
			}
			n := c18Node{P: p, K: f[0]}
			num := func(i int) uint64 { v, _ := strconv.ParseUint(f[i], 10, 64); return v }
			switch f[0] {
			case "d":
				n.Perm, n.UID, n.GID = uint32(num(2)&07777), uint32(num(3)), uint32(num(4))
			case "f":
				mode := num(2)
				n.Perm, n.UID, n.GID, n.MTime = uint32(mode&07777), uint32(num(3)), uint32(num(4)), int64(num(5))
				if t := mode & sIFMT; t != 0 && t != sIFREG {
					n.K = "v"
				} else if f[6] != "-" {
					n.S = f[6]
				}
			case "l":
				n.UID, n.GID, n.MTime = uint32(num(2)), uint32(num(3)), int64(num(4))
				n.S = f[5]
			}
			model[p] = n
		}
	}
	impl := map[string]c18Node{}
	for _, n := range c.After {
		impl[n.P] = n
	}
	var diff []string
	for p, m := range model {
		if i, ok := impl[p]; !ok {
			diff = append(diff, "missing in implementation: "+p)
		} else if i.K != m.K || i.S != m.S {
			diff = append(diff, fmt.Sprintf("%s: model %s %s, implementation %s %s", p, m.K, m.S, i.K, i.S))
		} else if c18Under(p, sb) {
			// owner everywhere, permission bits except on links, mtime of non-directories the run set
			if i.UID != m.UID || i.GID != m.GID {
				diff = append(diff, fmt.Sprintf("%s: owner model %d:%d, implementation %d:%d", p, m.UID, m.GID, i.UID, i.GID))
			} else if m.K != "l" && i.Perm != m.Perm {
				diff = append(diff, fmt.Sprintf("%s: mode model %o, implementation %o", p, m.Perm, i.Perm))
			} else if m.K != "d" && m.MTime != 0 && m.MTime != i.MTime {
				diff = append(diff, fmt.Sprintf("%s: mtime model %d, implementation %d", p, m.MTime, i.MTime))
			}
		}
	}
	for p := range impl {
		if _, ok := model[p]; !ok {
			diff = append(diff, "missing in model: "+p)
		}
	}
	if len(diff) > 0 {
		c.Broken = true
		sort.Strings(diff)
		r.Fail("corr", "corr:C18/final-tree", fmt.Sprintf("%s: %v", c.Shape, diff[:min(len(diff), 4)]), c)
		return nil
	}
	// every place the implementation changed is (below) a place the model touched
	var touched []string
	if parts[1] != "-" {
		for _, t := range strings.Split(parts[1], ",") {
			touched = append(touched, unhx(t))
		}
	}
	for _, p := range c.Changed {
		okp := false
		for _, t := range touched {
			if c18Under(p, t) {
				okp = true
				break
			}
		}
		if !okp {
			c.Broken = true
			r.Fail("corr", "corr:C18/touched", fmt.Sprintf("%s: implementation changed %s, model touched %v", c.Shape, p, touched), c)
			break
		}
	}
	for _, p := range c.DirTime {
		okp := false
		for _, t := range touched {
			if c18Under(t, p) {
				okp = true
				break
			}
		}
		if !okp {
			r.Fail("corr", "corr:C18/touched", fmt.Sprintf("%s: mtime of directory %s changed, model touched nothing below it: %v", c.Shape, p, touched), c)
			break
		}
	}
	return nil
}

// c18PrepareChroot puts the CLI, the shared objects it needs and /dev/null into the
// directory the children chroot into.
func c18PrepareChroot(work string) bool {
	if !c18Install(work, os.Getenv("VH_DESYNC"), "desync") {
		return false
	}
	os.MkdirAll(filepath.Join(work, "dev"), 0755) // go-fuse's init opens /dev/null
	syscall.Mknod(filepath.Join(work, "dev", "null"), syscall.S_IFCHR|0666, 1<<8|3)
	return true
}

// c18Install copies a binary (as /<name>) and the shared objects it needs into the chroot directory.
func c18Install(work, bin, name string) bool {
	b, err := os.ReadFile(bin)
	if err != nil {
		return false
	}
	if os.WriteFile(filepath.Join(work, name), b, 0755) != nil {
		return false
	}
	out, err := exec.Command("ldd", bin).CombinedOutput()
	if err != nil { // "not a dynamic executable"
		return true
	}
	for _, f := range strings.Fields(string(out)) {
		if !strings.HasPrefix(f, "/") {
			continue
		}
		lib, err := os.ReadFile(f)
		if err != nil {
			return false
		}
		os.MkdirAll(filepath.Join(work, filepath.Dir(f)), 0755)
		if os.WriteFile(filepath.Join(work, f), lib, 0755) != nil {
			return false
		}
	}
	return true
}

func runC18(a vh.Args, o *vh.Oracle, r *vh.Result) error {
	if os.Getenv("VH_C18_CHILD") == "1" {
		return c18Child(a)
	}
	r.Rule = "case = element sequence (crafted names, a root entry that is not a directory, symlink-then-same-name, dir-then-symlink, nameless entries, excess goodbyes, element soup, nesting <= 6) x writer options x path (UnTar | UnTarIndex over a chunked local store | CLI untar | CLI untar -i) x destination {directory, absent, regular file} x optional earlier content of dest; runs in child processes; non-trivial = not a well-formed benign tree; distinct by element sequence + path"
	cliOK := c18PrepareChroot(a.Work)
	if !cliOK {
		r.Note("the desync CLI could not be installed in the children's chroot: CLI paths replaced by library paths")
	}
	if a.Replay != "" {
		var c c18Case
		if err := readJSON(a.Replay, &c); err != nil {
			return err
		}
		cs := []*c18Case{&c}
		if err := c18RunBatch(a, cs, 0); err != nil {
			return err
		}
		return c18Judge(a, o, r, &c)
	}
	rng := vh.NewRand(a.Seed)
	n := 1500
	if a.Tier == "thorough" {
		n = 40000
	}
	cases := c18Corpus()
	if os.Getenv("VH_C18_NOCORPUS") != "" { // debugging aid: only generated cases, to exercise the search stages
		cases = nil
	}
	for len(cases) < n {
		cases = append(cases, c18Gen(rng))
	}
	if !cliOK {
		for _, c := range cases {
			c.Via = map[string]string{"cli": "untar", "cli-index": "index"}[c.Via] + map[string]string{"untar": "untar", "index": "index"}[c.Via]
		}
	}
	if v := os.Getenv("VH_C18_VIA"); v != "" { // debugging aid: force one path
		for _, c := range cases {
			c.Via = v
		}
	}
	const batch = 250
	for i := 0; i < len(cases); i += batch {
		j := min(i+batch, len(cases))
		if err := c18RunBatch(a, cases[i:j], i); err != nil {
			return err
		}
		for _, c := range cases[i:j] {
			if err := c18Judge(a, o, r, c); err != nil {
				return err
			}
		}
	}
	return c18Discovery(a, o, r, cases, len(cases))
}

// c18NameSearch: where decoder and model disagree on the node list because the decoder let a
// name through that the model refuses, that name is tried as the steps of a history
// (c18Histories): a single probe with such a name often stays inside the destination.
func c18NameSearch(a vh.Args, r *vh.Result, cases []*c18Case, base int) error {
	names := map[string]bool{}
	var order []string
	for _, c := range cases {
		if !c.Broken || c.MNodes == "" {
			continue
		}
		impl := strings.Split(strings.SplitN(c.Nodes+" ", " ", 3)[1], ",")
		model := strings.Split(strings.SplitN(c.MNodes+" ", " ", 3)[1], ",")
		if len(impl) <= len(model) && !(len(model) == 1 && model[0] == "-") {
			continue // the decoder is the stricter one here
		}
		// the filename elements of this case that the rule refuses, in order of appearance
		for _, e := range c.Elems {
			if e.K != "F" {
				continue
			}
			v := unhx(e.S)
			if (v == "" || v == "." || v == ".." || strings.ContainsAny(v, "/\x00")) && !names[v] && len(order) < 6 {
				names[v] = true
				order = append(order, v)
			}
		}
	}
	r.Extra["names_let_through_by_the_decoder"] = len(order)
	if len(order) == 0 {
		return nil
	}
	var hist []*c18Case
	for _, v := range order {
		hist = append(hist, c18Histories(v, "history-of-let-through-name")...)
	}
	r.Note("decoder and model disagree on %d refused names (%q): %d history runs", len(order), order, len(hist))
	if err := c18RunBatch(a, hist, base); err != nil {
		return err
	}
	for _, c := range hist {
		if err := c18Judge(a, nil, r, c); err != nil {
			return err
		}
	}
	return nil
}

// c18Discovery: see c18disc.go.  Runs on every case whose correspondence broke (the model has
// no intermediate names, so a writer that uses one shows up there first) and on a sample of
// successful runs; plants links at what it finds.
func c18Discovery(a vh.Args, o *vh.Oracle, r *vh.Result, cases []*c18Case, base int) error {
	if r.Extra == nil {
		r.Extra = map[string]interface{}{}
	}
	r.Extra["intermediate_paths_discovered"] = 0
	r.Extra["discovery_runs"] = 0
	r.Extra["planted_link_runs"] = 0
	if err := c18NameSearch(a, r, cases, base); err != nil {
		return err
	}
	base += 1000
	st, err := exec.LookPath("strace")
	if err != nil || !c18Install(a.Work, st, "strace") {
		r.Note("strace is not available: no discovery of intermediate paths")
		return nil
	}
	sample, broken := 40, 12
	if a.Tier == "thorough" {
		sample, broken = 400, 60
	}
	var disc []*c18Case
	for _, c := range cases {
		if c.Broken && broken > 0 && c.Class != "panic" {
			broken--
			v := *c
			v.Discover, v.Via, v.Shape = true, "strace", "discover:"+c.Shape
			disc = append(disc, &v)
		}
	}
	for _, c := range cases {
		if sample == 0 {
			break
		}
		if c.Class == "ok" && !c.Broken && len(c.Changed) >= 3 && c.Planted == "" {
			sample--
			v := *c
			v.Discover, v.Via, v.Shape = true, "strace", "discover:"+c.Shape
			disc = append(disc, &v)
		}
	}
	if err := c18RunBatch(a, disc, base); err != nil {
		return err
	}
	var planted []*c18Case
	seen := map[string]bool{}
	nInter, nSeen := 0, 0
	for _, c := range disc {
		nSeen += len(c.Touched)
		if c.Class == "harness" {
			r.Note("discovery run failed: %s", c.Err)
			continue
		}
		if err := c18Judge(a, o, r, c); err != nil {
			return err
		}
		for _, rel := range c18Intermediate(c) {
			nInter++
			// the same kind of intermediate name (suffix/prefix around an entry name) needs only a few plants
			key := rel
			if len(seen) >= 6 && !seen[key] {
				continue
			}
			seen[key] = true
			if len(planted) < 240 {
				planted = append(planted, c18PlantVariants(c, rel)...)
			}
		}
	}
	r.Extra["discovery_runs"] = len(disc)
	r.Extra["intermediate_paths_discovered"] = nInter
	r.Extra["paths_named_by_mutating_calls"] = nSeen
	r.Extra["planted_link_runs"] = len(planted)
	r.Note("discovery: %d runs under strace naming %d paths under the destination in mutating calls, %d intermediate paths (paths under the destination that a mutating system call names and that are not dest joined with an entry path), %d runs with a link planted there", len(disc), nSeen, nInter, len(planted))
	if len(planted) == 0 {
		return nil
	}
	if err := c18RunBatch(a, planted, base+len(disc)); err != nil {
		return err
	}
	for _, c := range planted {
		if err := c18Judge(a, nil, r, c); err != nil {
			return err
		}
	}
	return nil
}
