package main

// C09 -- random-access reads through an index return exactly the blob's bytes.
//
// Implementation under test: desync.IndexPos (NewIndexReadSeeker/Seek/Read), the FUSE file node of
// IndexMountFS driven in-process through go-fuse's raw bridge (no kernel mount), and `desync cat -o -l`.
// Predicate (independent of the model): every Read returns blob[pos:pos+n], n = min(len, L-pos) unless a
// store fault was injected during that very call, io.EOF iff pos == L; every Seek lands on its target iff the
// target is in [0, L]. Correspondence: the extracted Coq model (Model/ReadSeeker.v) on the same history.

import (
	"bytes"
	"encoding/hex"
	"errors"
	"fmt"
	"io"
	"os"
	"path/filepath"
	"sort"
	"strconv"
	"strings"
	"sync"
	"time"

	"github.com/folbricht/desync"
	"github.com/hanwen/go-fuse/v2/fs"
	"github.com/hanwen/go-fuse/v2/fuse"

	"vh/internal/vh"
)

func init() { props["C09"] = runC09 }

type c09Op struct {
	K   string `json:"k"` // "S" seek | "R" read
	Off int64  `json:"off,omitempty"`
	Wh  int    `json:"wh,omitempty"`
	Len int    `json:"len,omitempty"`
}

type c09Req struct {
	H   int   `json:"h"`
	Off int64 `json:"off"`
	Len int   `json:"len"`
}

type c09Fault struct {
	K    int `json:"call"`
	Code int `json:"code"` // 1 = ChunkMissing, 2 = other store error, 3 = GetChunk succeeds but the object cannot be decoded (C10 only), 4 = io.EOF itself, 5 = an error wrapping io.EOF
}

type c09Case struct {
	Kind    string     `json:"kind"` // ipos | fuse | cli
	Digest  string     `json:"digest"`
	Max     int        `json:"chunk_size_max"`
	BlobHex string     `json:"blob_hex"`
	Sizes   []int      `json:"sizes"`
	Shape   string     `json:"shape"`
	Router  bool       `json:"store_router,omitempty"` // the store sits behind a desync.StoreRouter, as `desync mount-index` and `cat` always have it (it wraps every error but ChunkMissing)
	Missing []int      `json:"missing_chunks,omitempty"` // chunk numbers absent from the store
	Faults  []c09Fault `json:"faults,omitempty"`
	Ops     []c09Op    `json:"ops,omitempty"`
	NH      int        `json:"handles,omitempty"`
	Reqs    []c09Req   `json:"reqs,omitempty"`
	SameHandle bool    `json:"concurrent_on_same_handle,omitempty"` // the request after the held one is issued concurrently on the SAME handle (it has to wait for the handle's mutex)
	Held    int        `json:"held_request,omitempty"` // 1+index of the request that is held inside its first store call while the following requests (on other handles) run
	ZeroRows bool      `json:"zero_size_rows,omitempty"` // hand-made index with rows of size 0: outside index_describes, correspondence only
	CLIOff  int        `json:"cli_offset,omitempty"`
	CLILen  int        `json:"cli_length,omitempty"`
	Got     string     `json:"impl,omitempty"`
	Model   string     `json:"model,omitempty"`
	FailAt  int        `json:"fail_at,omitempty"`
}

var errC09Fault = errors.New("injected store fault")
var errC09Hang = errors.New("implementation did not return (hang); run aborted")

// c09Store is an in-memory chunk store failing at chosen call numbers.
type c09Store struct {
	mu      sync.Mutex
	m       map[desync.ChunkID][]byte
	faults  map[int]int
	calls   int
	faulted int // number of calls that returned an error
	eofs    int // number of calls that returned io.EOF itself
	// gate: the next GetChunk call announces itself on gateHit and waits for gateCh (a request held inside the store)
	gateArmed bool
	gateHit   chan struct{}
	gateCh    chan struct{}
}

func (s *c09Store) GetChunk(id desync.ChunkID) (*desync.Chunk, error) {
	s.mu.Lock()
	var wait chan struct{}
	if s.gateArmed {
		s.gateArmed = false
		wait = s.gateCh
		close(s.gateHit)
	}
	s.mu.Unlock()
	if wait != nil {
		<-wait
	}
	s.mu.Lock()
	defer s.mu.Unlock()
	// the call is numbered (and answered) when it goes through, as in the model, where the store call is one atomic step
	k := s.calls
	s.calls++
	if c, ok := s.faults[k]; ok {
		s.faulted++
		switch c {
		case 1:
			return nil, desync.ChunkMissing{ID: id}
		case 4: // the remote went away: the error IS io.EOF
			s.eofs++
			return nil, io.EOF
		case 5: // ... or an error whose chain contains io.EOF (what remote stores and a StoreRouter report)
			return nil, fmt.Errorf("read tcp 10.0.0.1:443: connection closed: %w", io.EOF)
		case 3:
			// a store without verification hands out an object that cannot be decoded: GetChunk succeeds, Chunk.Data() fails
			return desync.NewChunkFromStorage(id, []byte("this is not a zstd frame"), desync.Converters{desync.Compressor{}}, true)
		}
		return nil, errC09Fault
	}
	b, ok := s.m[id]
	if !ok {
		s.faulted++
		return nil, desync.ChunkMissing{ID: id}
	}
	return desync.NewChunk(b), nil
}
func (s *c09Store) HasChunk(id desync.ChunkID) (bool, error) { _, ok := s.m[id]; return ok, nil }
func (s *c09Store) Close() error                             { return nil }
func (s *c09Store) String() string                           { return "c09-mem" }
func (s *c09Store) counters3() (int, int, int) {
	s.mu.Lock()
	defer s.mu.Unlock()
	return s.calls, s.faulted, s.eofs
}
func (s *c09Store) counters() (int, int) {
	s.mu.Lock()
	defer s.mu.Unlock()
	return s.calls, s.faulted
}

func c09ErrClass(err error) string {
	var cm desync.ChunkMissing
	switch {
	case err == nil:
		return "ok"
	case err == io.EOF:
		return "eof"
	case err == io.ErrUnexpectedEOF:
		return "unexpected-eof"
	case errors.Is(err, io.EOF):
		return "wrapped-eof"
	case errors.As(err, &cm):
		return "missing"
	case errors.Is(err, errC09Fault):
		return "fault"
	}
	return "other"
}

func c09SetDigest(d string) {
	if d == "sha256" {
		desync.Digest = desync.SHA256{}
	} else {
		desync.Digest = desync.SHA512256{}
	}
}

// c09Build makes the index, the store and the oracle's view of both.
func c09Build(c *c09Case) (desync.Index, *c09Store, []byte, string, string) {
	blob := vh.UnHex(c.BlobHex)
	idx := desync.Index{Index: desync.FormatIndex{FeatureFlags: desync.CaFormatExcludeNoDump, ChunkSizeMin: 1, ChunkSizeAvg: uint64(c.Max), ChunkSizeMax: uint64(c.Max)}}
	if c.Digest != "sha256" {
		idx.Index.FeatureFlags |= desync.CaFormatSHA512256
	}
	st := &c09Store{m: map[desync.ChunkID][]byte{}, faults: map[int]int{}}
	missing := map[int]bool{}
	for _, m := range c.Missing {
		missing[m] = true
	}
	var rows, tab []string
	seen := map[desync.ChunkID]bool{}
	var off uint64
	for i, s := range c.Sizes {
		b := blob[off : off+uint64(s)]
		id := desync.Digest.Sum(b)
		idx.Chunks = append(idx.Chunks, desync.IndexChunk{ID: id, Start: off, Size: uint64(s)})
		rows = append(rows, fmt.Sprintf("%s:%d:%d", hex.EncodeToString(id[:]), off, s))
		if !missing[i] {
			st.m[id] = b
		}
		off += uint64(s)
	}
	// an ID is present if any row with that ID is present
	for id, b := range st.m {
		if !seen[id] {
			seen[id] = true
			tab = append(tab, hex.EncodeToString(id[:])+"="+vh.Hex(b))
		}
	}
	for _, f := range c.Faults {
		st.faults[f.K] = f.Code
	}
	return idx, st, blob, strings.Join(rows, ","), strings.Join(tab, ",")
}

// c09Store wraps the fault store the way the case says
func c09StoreFor(c *c09Case, st *c09Store) desync.Store {
	if c.Router {
		return desync.NewStoreRouter(st)
	}
	return st
}

func c09FaultArg(c *c09Case) string {
	var fs []string
	for _, f := range c.Faults {
		code := f.Code
		if c.Router && code == 4 { // the router annotates the store's io.EOF: the reader sees a wrapped one
			code = 5
		}
		fs = append(fs, fmt.Sprintf("%d:%d", f.K, code))
	}
	return strings.Join(fs, ",")
}

// guarded runs f in a goroutine; a panic or a hang is reported instead of killing the harness.
func c09Guarded(f func()) (panicked interface{}, hung bool) {
	done := make(chan interface{}, 1)
	go func() {
		defer func() { done <- recover() }()
		f()
	}()
	select {
	case p := <-done:
		return p, false
	case <-time.After(10 * time.Second):
		return nil, true
	}
}

// ---------- IndexPos histories ----------

// c09RunIpos runs the history on the real IndexPos, evaluates the predicate, and returns the observable string
// in the oracle's format. failAt is the op at which the predicate failed (-1: none).
func c09RunIpos(c *c09Case) (obs string, failAt int, cls, what string, hung bool) {
	c09SetDigest(c.Digest)
	idx, st, blob, _, _ := c09Build(c)
	L := int64(len(blob))
	failAt = -1
	fail := func(i int, k, w string) {
		if failAt < 0 {
			failAt, cls, what = i, k, w
		}
	}
	var out []string
	var finalPos int64
	cur := 0
	p, hung := c09Guarded(func() {
		r := desync.NewIndexReadSeeker(idx, c09StoreFor(c, st))
		var pos int64 // the position the property says the reader is at
		for i, o := range c.Ops {
			cur = i
			_, f0 := st.counters()
			switch o.K {
			case "S":
				ret, err := r.Seek(o.Off, o.Wh)
				ec := c09ErrClass(err)
				out = append(out, fmt.Sprintf("S:%d:%s", ret, ec))
				var t int64
				valid := true
				switch o.Wh {
				case io.SeekStart:
					t = o.Off
				case io.SeekCurrent:
					t = pos + o.Off
				case io.SeekEnd:
					t = L + o.Off
				default:
					valid = false
				}
				if valid && t >= 0 && t <= L {
					if err != nil || ret != t {
						fail(i, "seek/valid-target-rejected", fmt.Sprintf("Seek(%d,%d) to %d in [0,%d] returned (%d,%v)", o.Off, o.Wh, t, L, ret, err))
					}
					pos = t
				} else {
					if err == nil || err == io.EOF {
						fail(i, "seek/invalid-target-accepted", fmt.Sprintf("Seek(%d,%d) (target %d, L=%d) returned (%d,%v)", o.Off, o.Wh, t, L, ret, err))
					}
				}
			case "R":
				buf := make([]byte, o.Len)
				for j := range buf {
					buf[j] = 0xAA
				}
				n, err := r.Read(buf)
				ec := c09ErrClass(err)
				if n < 0 || n > len(buf) {
					fail(i, "read/n-out-of-range", fmt.Sprintf("Read(%d) returned n=%d", o.Len, n))
					n = 0
				}
				out = append(out, fmt.Sprintf("R:%s:%s", vh.Hex(buf[:n]), ec))
				_, f1 := st.counters()
				want := int64(o.Len)
				if L-pos < want {
					want = L - pos
				}
				switch {
				case pos+int64(n) > L || !bytes.Equal(buf[:n], blob[pos:pos+int64(n)]):
					fail(i, "read/altered-data", fmt.Sprintf("Read(%d) at %d returned bytes that are not blob[%d:%d]", o.Len, pos, pos, pos+int64(n)))
				case pos == L && !(n == 0 && err == io.EOF):
					fail(i, "read/eof-not-reported", fmt.Sprintf("Read(%d) at the end returned (%d,%v)", o.Len, n, err))
				case pos < L && err == io.EOF:
					fail(i, "read/early-eof", fmt.Sprintf("Read(%d) at %d < L=%d returned EOF", o.Len, pos, L))
				case pos < L && err == nil && int64(n) != want:
					fail(i, "read/short-without-error", fmt.Sprintf("Read(%d) at %d returned %d bytes and no error, want %d", o.Len, pos, n, want))
				case c.ZeroRows && err != nil && ec == "other":
					// Chunk.Data() of an empty chunk: "no data in chunk" (observed, modelled as ENoData); the bytes were checked above
				case pos < L && err != nil && f1 == f0:
					fail(i, "read/error-with-healthy-store", fmt.Sprintf("Read(%d) at %d returned error %v although the store did not fail", o.Len, pos, err))
				case pos < L && err != nil && ec != "missing" && ec != "fault" && ec != "unexpected-eof" && ec != "wrapped-eof":
					fail(i, "read/store-error-masked", fmt.Sprintf("Read(%d) at %d returned %v instead of the store's error", o.Len, pos, err))
				}
				if pos+int64(n) <= L {
					pos += int64(n)
				}
			}
			// the reader's own idea of its position (Seek(0, Current) never moves)
			if q, err := r.Seek(0, io.SeekCurrent); err != nil || q != pos {
				fail(i, "position-drift", fmt.Sprintf("after op %d the reader is at %d (err %v), the history puts it at %d", i, q, err, pos))
				if err == nil && q >= 0 && q <= L {
					pos = q
				}
			}
		}
		finalPos, _ = r.Seek(0, io.SeekCurrent)
	})
	if hung {
		return "", cur, "hang", fmt.Sprintf("op %d did not return within 10s", cur), true
	}
	if p != nil {
		out = append(out, "P")
		fail(cur, "panic", fmt.Sprintf("op %d panicked: %v", cur, p))
	}
	calls, _ := st.counters()
	o := "-"
	if len(out) > 0 {
		o = strings.Join(out, ",")
	}
	return fmt.Sprintf("%s;calls=%d;pos=%d", o, calls, finalPos), failAt, cls, what, false
}

func c09OpsArg(ops []c09Op) string {
	var s []string
	for _, o := range ops {
		if o.K == "S" {
			s = append(s, fmt.Sprintf("S:%d:%d", o.Off, o.Wh))
		} else {
			s = append(s, fmt.Sprintf("R:%d", o.Len))
		}
	}
	return strings.Join(s, ",")
}

func c09CheckIpos(a vh.Args, o *vh.Oracle, r *vh.Result, c *c09Case) error {
	obs, failAt, cls, what, hung := c09RunIpos(c)
	c.Got = obs
	key := fmt.Sprintf("ipos|%s|%d|%v|%v|%s", c.BlobHex, len(c.Ops), c.Faults, c.Missing, c09OpsArg(c.Ops))
	r.Count(key, len(c.Ops) > 1)
	r.Dist("kind:ipos")
	r.Dist("shape:" + c.Shape)
	r.Dist("digest:" + c.Digest)
	r.Dist("chunks:" + bucket(len(c.Sizes)))
	r.Dist("ops:" + bucket(len(c.Ops)))
	if len(c.Faults)+len(c.Missing) > 0 {
		r.Dist("store:faulty")
	} else {
		r.Dist("store:healthy")
	}
	r.Sample(map[string]interface{}{"kind": "ipos", "shape": c.Shape, "chunks": len(c.Sizes), "blob_len": len(vh.UnHex(c.BlobHex)), "ops": len(c.Ops), "faults": len(c.Faults), "impl_tail": c09Tail(obs, 60)})
	if failAt >= 0 {
		sc := c09ShrinkIpos(c, cls)
		r.Fail("predicate", cls, what, sc)
		if hung {
			return errC09Hang
		}
		return nil
	}
	if o != nil && c.Digest == "sha256" {
		_, _, _, rows, tab := c09Build(c)
		ans, err := o.Call("c09.run", strconv.Itoa(c.Max), rows, tab, c09FaultArg(c), c09OpsArg(c.Ops))
		if err != nil {
			return err
		}
		c.Model = ans
		r.Corr()
		if ans != obs {
			r.Fail("corr", "corr:C09/history", fmt.Sprintf("model and implementation differ: first difference at %s", c09FirstDiff(ans, obs)), c)
		}
	}
	return nil
}

// shrink: cut the history after the failing op, then drop earlier ops while the same class still fails.
func c09ShrinkIpos(c *c09Case, cls string) *c09Case {
	if cls == "hang" {
		cc := *c
		return &cc
	}
	best := *c
	try := func(ops []c09Op) bool {
		cc := best
		cc.Ops = ops
		_, fa, k, _, hung := c09RunIpos(&cc)
		return !hung && fa >= 0 && k == cls
	}
	_, fa, _, _, _ := c09RunIpos(&best)
	if fa >= 0 && fa+1 < len(best.Ops) {
		best.Ops = append([]c09Op{}, best.Ops[:fa+1]...)
	}
	for i := 0; i < len(best.Ops)-1 && len(best.Ops) > 1; {
		ops := append(append([]c09Op{}, best.Ops[:i]...), best.Ops[i+1:]...)
		if try(ops) {
			best.Ops = ops
		} else {
			i++
		}
	}
	obs, fa, _, _, _ := c09RunIpos(&best)
	best.Got, best.FailAt = obs, fa
	return &best
}

func c09Tail(s string, n int) string {
	if len(s) <= n {
		return s
	}
	return "..." + s[len(s)-n:]
}

func c09FirstDiff(a, b string) string {
	as, bs := strings.Split(a, ","), strings.Split(b, ",")
	for i := 0; i < len(as) && i < len(bs); i++ {
		if as[i] != bs[i] {
			return fmt.Sprintf("op %d: model %s, implementation %s", i, c09Tail(as[i], 80), c09Tail(bs[i], 80))
		}
	}
	return fmt.Sprintf("length: model %d results, implementation %d", len(as), len(bs))
}

// ---------- generators ----------

// c09Blob builds a blob from explicit chunks so that the index can contain runs of null chunks (zero chunks of
// exactly ChunkSizeMax bytes), short zero chunks (same bytes, different ID), and repeated chunks (same ID twice).
func c09Blob(rng *vh.Rand) (blob []byte, sizes []int, max int, shape string) {
	max = []int{3, 4, 8, 16, 64}[rng.Intn(5)]
	shape = []string{"empty", "single", "null-runs", "mixed", "mixed", "mixed", "all-null", "tiny-chunks", "repeats"}[rng.Intn(9)]
	n := 0
	switch shape {
	case "empty":
		return nil, nil, max, shape
	case "single":
		n = 1
	case "tiny-chunks":
		n = 1 + rng.Intn(40)
	default:
		n = 2 + rng.Intn(14)
	}
	var chunks [][]byte
	for i := 0; i < n; i++ {
		k := rng.Intn(10)
		switch {
		case shape == "all-null" || (shape == "null-runs" && k < 6) || (shape == "mixed" && k < 3):
			run := 1 + rng.Intn(3)
			for j := 0; j < run; j++ {
				chunks = append(chunks, make([]byte, max))
			}
		case shape != "tiny-chunks" && k == 6:
			chunks = append(chunks, make([]byte, 1+rng.Intn(max))) // zero chunk, maybe shorter than max
		case (shape == "repeats" || k == 7) && len(chunks) > 0:
			chunks = append(chunks, chunks[rng.Intn(len(chunks))])
		case shape == "tiny-chunks":
			chunks = append(chunks, rng.Bytes(1+rng.Intn(2)))
		default:
			chunks = append(chunks, rng.Bytes(1+rng.Intn(max)))
		}
	}
	for _, c := range chunks {
		blob = append(blob, c...)
		sizes = append(sizes, len(c))
	}
	return blob, sizes, max, shape
}

// c09ZeroRows inserts rows of size 0 (ID = digest of the empty string) into the index: never produced by a chunker,
// but accepted by the index decoder.
func c09ZeroRows(rng *vh.Rand, sizes []int) []int {
	var out []int
	if rng.Chance(1, 3) {
		out = append(out, 0)
	}
	for _, s := range sizes {
		out = append(out, s)
		if rng.Chance(1, 4) {
			out = append(out, 0)
		}
	}
	if len(out) == len(sizes) {
		out = append(out, 0)
	}
	return out
}

func c09Boundaries(sizes []int) []int64 {
	bs := []int64{0}
	var off int64
	for _, s := range sizes {
		off += int64(s)
		bs = append(bs, off)
	}
	return bs
}

func c09Target(rng *vh.Rand, bs []int64, L int64) int64 {
	switch rng.Intn(12) {
	case 0:
		return -1 - int64(rng.Intn(5))
	case 1:
		return L + 1 + int64(rng.Intn(5))
	case 2:
		return L
	case 3:
		return 0
	case 4, 5, 6, 7:
		return bs[rng.Intn(len(bs))] + int64(rng.Intn(3)) - 1
	default:
		return int64(rng.Intn(int(L) + 1))
	}
}

func c09ReadLen(rng *vh.Rand, sizes []int, max int, L int64) int {
	switch rng.Intn(9) {
	case 0:
		return 0
	case 1:
		return 1
	case 2:
		return int(L) + 1 + rng.Intn(5)
	case 3:
		return max
	case 4:
		return 2*max + 1
	case 5, 6:
		if len(sizes) > 0 {
			return sizes[rng.Intn(len(sizes))] + rng.Intn(3) - 1
		}
		return 2
	default:
		return 1 + rng.Intn(3*max)
	}
}

func c09GenOps(rng *vh.Rand, sizes []int, max, n int) []c09Op {
	bs := c09Boundaries(sizes)
	L := bs[len(bs)-1]
	var ops []c09Op
	var pos int64 // approximate position (healthy store), used to aim relative seeks
	for i := 0; i < n; i++ {
		if rng.Chance(1, 2) {
			l := c09ReadLen(rng, sizes, max, L)
			if l < 0 {
				l = 0
			}
			ops = append(ops, c09Op{K: "R", Len: l})
			pos += int64(l)
			if pos > L {
				pos = L
			}
			continue
		}
		t := c09Target(rng, bs, L)
		wh := rng.Intn(3)
		if rng.Chance(1, 25) {
			wh = []int{3, -1, 7}[rng.Intn(3)]
		}
		off := t
		switch wh {
		case io.SeekCurrent:
			off = t - pos
		case io.SeekEnd:
			off = t - L
		}
		ops = append(ops, c09Op{K: "S", Off: off, Wh: wh})
		if wh >= 0 && wh <= 2 && t >= 0 && t <= L {
			pos = t
		}
	}
	return ops
}

func c09GenFaults(rng *vh.Rand, c *c09Case, expectCalls int) {
	switch rng.Intn(4) {
	case 0, 1: // healthy
	case 2:
		for k := 0; k < 1+rng.Intn(3); k++ {
			c.Faults = append(c.Faults, c09Fault{K: rng.Intn(expectCalls + 2), Code: []int{1, 2, 2, 4, 5, 5}[rng.Intn(6)]})
		}
	case 3:
		if len(c.Sizes) > 0 {
			c.Missing = append(c.Missing, rng.Intn(len(c.Sizes)))
		}
		if rng.Bool() {
			c.Faults = append(c.Faults, c09Fault{K: rng.Intn(expectCalls + 2), Code: []int{2, 4, 5}[rng.Intn(3)]})
		}
	}
}

// ---------- FUSE file node through the raw bridge ----------

func c09RunFuse(c *c09Case) (obs string, failAt int, cls, what string, hung bool) {
	c09SetDigest(c.Digest)
	idx, st, blob, _, _ := c09Build(c)
	L := int64(len(blob))
	failAt = -1
	var failMu sync.Mutex
	fail := func(i int, k, w string) {
		failMu.Lock()
		defer failMu.Unlock()
		if failAt < 0 {
			failAt, cls, what = i, k, w
		}
	}
	var out []string
	cur := 0
	// the node prints every error to os.Stderr
	saved := os.Stderr
	if dn, err := os.OpenFile(os.DevNull, os.O_WRONLY, 0); err == nil {
		os.Stderr = dn
		defer func() { os.Stderr = saved; dn.Close() }()
	}
	p, hung := c09Guarded(func() {
		root := desync.NewIndexMountFS(idx, "blob", c09StoreFor(c, st))
		raw := fs.NewNodeFS(root, &fs.Options{})
		cancel := make(chan struct{})
		var eo fuse.EntryOut
		if s := raw.Lookup(cancel, &fuse.InHeader{NodeId: 1}, "blob", &eo); s != fuse.OK {
			fail(0, "fuse/lookup", fmt.Sprintf("Lookup(blob) = %v", s))
			return
		}
		var ao fuse.AttrOut
		if s := raw.GetAttr(cancel, &fuse.GetAttrIn{InHeader: fuse.InHeader{NodeId: eo.NodeId}}, &ao); s != fuse.OK || int64(ao.Size) != L {
			fail(0, "fuse/size", fmt.Sprintf("GetAttr = %v size %d, want %d", s, ao.Size, L))
		}
		fhs := make([]uint64, c.NH)
		for i := range fhs {
			var oo fuse.OpenOut
			if s := raw.Open(cancel, &fuse.OpenIn{InHeader: fuse.InHeader{NodeId: eo.NodeId}}, &oo); s != fuse.OK {
				fail(0, "fuse/open", fmt.Sprintf("Open = %v", s))
				return
			}
			fhs[i] = oo.Fh
		}
		out = make([]string, len(c.Reqs))
		do := func(i int, q c09Req) {
			_, f0 := st.counters()
			buf := make([]byte, q.Len)
			for j := range buf {
				buf[j] = 0xAA
			}
			rr, s := raw.Read(cancel, &fuse.ReadIn{InHeader: fuse.InHeader{NodeId: eo.NodeId}, Fh: fhs[q.H], Offset: uint64(q.Off), Size: uint32(q.Len)}, buf)
			_, f1 := st.counters()
			if s != fuse.OK {
				out[i] = "EIO"
				if s != fuse.EIO {
					fail(i, "fuse/status", fmt.Sprintf("read(%d,%d) status %v", q.Off, q.Len, s))
				}
				if q.Off >= 0 && q.Off <= L && f1 == f0 {
					fail(i, "fuse/eio-with-healthy-store", fmt.Sprintf("read(off=%d,len=%d) on handle %d failed although the offset is inside the blob and the store did not fail", q.Off, q.Len, q.H))
				}
				return
			}
			data, _ := rr.Bytes(buf)
			out[i] = "D:" + vh.Hex(data)
			if q.Off < 0 || q.Off > L {
				fail(i, "fuse/data-outside-blob", fmt.Sprintf("read(off=%d,len=%d) succeeded, L=%d", q.Off, q.Len, L))
				return
			}
			want := blob[q.Off:min64(L, q.Off+int64(q.Len))]
			if !bytes.Equal(data, want) {
				k := "fuse/altered-data"
				if len(data) < len(want) && bytes.Equal(data, want[:len(data)]) {
					k = "fuse/short-data"
				}
				ov := ""
				if c.Held > 0 {
					ov = fmt.Sprintf(" (request %d on handle %d was held in the store meanwhile)", c.Held-1, c.Reqs[c.Held-1].H)
				}
				fail(i, k, fmt.Sprintf("read(off=%d,len=%d) on handle %d returned %d bytes that are not blob[%d:%d]%s", q.Off, q.Len, q.H, len(data), q.Off, q.Off+int64(len(want)), ov))
			}
		}
		var heldDone chan interface{} // the held request's goroutine: closed (nil) or a panic value
		heldH := -1
		release := func() {
			if heldDone == nil {
				return
			}
			d := heldDone
			heldDone, heldH = nil, -1
			close(st.gateCh)
			if p := <-d; p != nil {
				panic(p)
			}
		}
		defer func() {
			if heldDone != nil { // never leave the goroutine blocked
				close(st.gateCh)
			}
		}()
		for i, q := range c.Reqs {
			cur = i
			if q.H >= c.NH {
				out[i] = "NOHANDLE"
				continue
			}
			if q.H == heldH && c.SameHandle && c.Held == i {
				// issued while the held request is still inside the store: on the same handle it must wait for the
				// handle's mutex (the requests of a handle are served one at a time), then be served correctly
				bg := make(chan interface{}, 1)
				go func(i int, q c09Req) {
					defer func() { bg <- recover() }()
					do(i, q)
				}(i, q)
				var p interface{}
				select {
				case p = <-bg: // it did not wait
				case <-time.After(3 * time.Millisecond):
					release()
					p = <-bg
				}
				if p != nil {
					panic(p)
				}
				continue
			}
			if q.H == heldH { // the handle's mutex is taken by the held request: it has to finish first
				release()
			}
			if c.Held == i+1 {
				st.mu.Lock()
				st.gateArmed, st.gateHit, st.gateCh = true, make(chan struct{}), make(chan struct{})
				hit := st.gateHit
				st.mu.Unlock()
				done := make(chan interface{}, 1)
				go func(i int, q c09Req) {
					defer func() { done <- recover() }()
					do(i, q)
				}(i, q)
				select {
				case <-hit: // inside its first GetChunk: the following requests overlap with it
					heldDone, heldH = done, q.H
				case p := <-done: // finished without asking the store
					st.mu.Lock()
					st.gateArmed = false
					st.mu.Unlock()
					if p != nil {
						panic(p)
					}
				}
				continue
			}
			do(i, q)
		}
		release()
	})
	if hung {
		return "", cur, "hang", fmt.Sprintf("fuse request %d did not return within 10s", cur), true
	}
	if p != nil {
		out = append(out, "P")
		fail(cur, "panic", fmt.Sprintf("fuse request %d panicked: %v", cur, p))
	}
	calls, _ := st.counters()
	var res []string
	for _, x := range out {
		if x != "" {
			res = append(res, x)
		}
	}
	o := "-"
	if len(res) > 0 {
		o = strings.Join(res, ",")
	}
	return fmt.Sprintf("%s;calls=%d", o, calls), failAt, cls, what, false
}

// c09FuseCalls: how many store calls the requests make (used to aim a fault at a particular call)
func c09FuseCalls(c *c09Case) int {
	obs, _, _, _, hung := c09RunFuse(c)
	if hung {
		return 0
	}
	n, _ := strconv.Atoi(obs[strings.LastIndex(obs, "calls=")+6:])
	return n
}

func min64(a, b int64) int64 {
	if a < b {
		return a
	}
	return b
}

func c09CheckFuse(a vh.Args, o *vh.Oracle, r *vh.Result, c *c09Case) error {
	obs, failAt, cls, what, hung := c09RunFuse(c)
	c.Got = obs
	var rq []string
	for _, q := range c.Reqs {
		rq = append(rq, fmt.Sprintf("%d:%d:%d", q.H, q.Off, q.Len))
	}
	r.Count(fmt.Sprintf("fuse|%s|%d|%v|%v|%s", c.BlobHex, c.NH, c.Faults, c.Missing, strings.Join(rq, ",")), len(c.Reqs) > 1)
	r.Dist("kind:fuse")
	r.Dist("shape:" + c.Shape)
	r.Dist("handles:" + strconv.Itoa(c.NH))
	r.Sample(map[string]interface{}{"kind": "fuse", "shape": c.Shape, "chunks": len(c.Sizes), "handles": c.NH, "requests": len(c.Reqs), "impl_tail": c09Tail(obs, 60)})
	if failAt >= 0 {
		c.FailAt = failAt
		if failAt+1 < len(c.Reqs) && !hung {
			cc := *c
			cc.Reqs = append([]c09Req{}, c.Reqs[:failAt+1]...)
			if _, fa, k, _, _ := c09RunFuse(&cc); fa >= 0 && k == cls {
				cc.FailAt = fa
				c = &cc
			}
		}
		r.Fail("predicate", cls, what, c)
		if hung {
			return errC09Hang
		}
		return nil
	}
	if o != nil && c.Digest == "sha256" {
		_, _, _, rows, tab := c09Build(c)
		ans, err := o.Call("c09.fuse", strconv.Itoa(c.Max), rows, tab, c09FaultArg(c), strconv.Itoa(c.NH), strings.Join(rq, ","))
		if err != nil {
			return err
		}
		c.Model = ans
		r.Corr()
		if ans != obs {
			r.Fail("corr", "corr:C09/fuse", fmt.Sprintf("model and implementation differ: first difference at %s", c09FirstDiff(ans, obs)), c)
		}
	}
	return nil
}

// ---------- CLI: desync cat -o -l ----------

func c09CheckCLI(a vh.Args, o *vh.Oracle, r *vh.Result, c *c09Case) error {
	bin := os.Getenv("VH_DESYNC")
	if bin == "" {
		return nil
	}
	c09SetDigest(c.Digest)
	idx, st, blob, _, _ := c09Build(c)
	L := len(blob)
	dir, err := os.MkdirTemp(a.Work, "cli")
	if err != nil {
		return err
	}
	defer os.RemoveAll(dir)
	sdir := filepath.Join(dir, "store")
	os.Mkdir(sdir, 0755)
	ls, err := desync.NewLocalStore(sdir, desync.StoreOptions{})
	if err != nil {
		return err
	}
	for _, b := range st.m {
		if err := ls.StoreChunk(desync.NewChunk(b)); err != nil {
			return err
		}
	}
	ifile := filepath.Join(dir, "blob.caibx")
	f, err := os.Create(ifile)
	if err != nil {
		return err
	}
	if _, err := idx.WriteTo(f); err != nil {
		return err
	}
	f.Close()
	ofile := filepath.Join(dir, "out")
	args := []string{"cat", "-s", sdir}
	if c.CLIOff != 0 {
		args = append(args, "--offset="+strconv.Itoa(c.CLIOff))
	}
	if c.CLILen != 0 {
		args = append(args, "--length="+strconv.Itoa(c.CLILen))
	}
	if c.Digest == "sha256" {
		args = append(args, "--digest", "sha256")
	}
	args = append(args, ifile, ofile)
	rc := runCmd(bin, args...)
	got, _ := os.ReadFile(ofile)
	c.Got = fmt.Sprintf("rc=%d out=%s", rc, c09Tail(vh.Hex(got), 40))
	r.Count(fmt.Sprintf("cli|%s|%d|%d|%v", c.BlobHex, c.CLIOff, c.CLILen, c.Missing), true)
	r.Dist("kind:cli")
	// expectation from the blob alone
	off, ln := c.CLIOff, c.CLILen
	var want []byte
	okExit := false
	if off >= 0 && off <= L {
		end := L
		if ln > 0 && ln < L-off {
			end = off + ln
		}
		want = blob[off:end]
		okExit = ln <= 0 || ln <= L-off // io.CopyN reports EOF when fewer than -l bytes exist (a length <= 0 means "to the end")
	}
	// is a chunk that the requested range needs absent from the store? (null chunks are never fetched)
	need := false
	nullID := desync.Digest.Sum(make([]byte, c.Max))
	var pos int
	for i, s := range c.Sizes {
		_, present := st.m[idx.Chunks[i].ID]
		if !present && idx.Chunks[i].ID != nullID && len(want) > 0 && pos < off+len(want) && pos+s > off {
			need = true
		}
		pos += s
	}
	switch {
	case (off < 0 || off > L) && len(got) > 0:
		r.Fail("predicate", "cli/data-for-offset-outside-blob", fmt.Sprintf("cat --offset=%d --length=%d wrote %d bytes (exit status %d) although the offset is outside the blob [0,%d]: the seek must be refused and nothing written", off, ln, len(got), rc, L), c)
	case !bytes.HasPrefix(want, got):
		r.Fail("predicate", "cli/altered-data", fmt.Sprintf("cat -o %d -l %d wrote bytes that are not a prefix of blob[%d:%d]", off, ln, off, off+len(want)), c)
	case rc == 0 && !bytes.Equal(got, want):
		r.Fail("predicate", "cli/short-output-exit-0", fmt.Sprintf("cat -o %d -l %d exited 0 with %d of %d bytes", off, ln, len(got), len(want)), c)
	case rc == 0 && !okExit:
		r.Fail("predicate", "cli/invalid-range-exit-0", fmt.Sprintf("cat -o %d -l %d exited 0 for a range outside the blob (L=%d)", off, ln, L), c)
	case rc != 0 && okExit && !need:
		r.Fail("predicate", "cli/fails-on-valid-range", fmt.Sprintf("cat -o %d -l %d exited %d although the range is valid and the store complete", off, ln, rc), c)
	case rc == 0 && need:
		r.Fail("predicate", "cli/missing-chunk-exit-0", fmt.Sprintf("cat -o %d -l %d exited 0 although a needed chunk is missing", off, ln), c)
	}
	if off < 0 || off > L {
		r.Dist("cli:offset-outside-blob")
	}
	// the same run on the model: Seek(offset, SeekStart), then (if it succeeded) one Read of the requested length or of
	// everything.  A refused Seek means: exit status != 0 and nothing written; otherwise the output is what Read returns,
	// exit 0 iff Read met no error and delivered -l bytes when -l was given.
	if o != nil && c.Digest == "sha256" {
		_, _, _, rows, tab := c09Build(c)
		n := ln
		if n <= 0 || n > L+1 {
			n = L + 1
		}
		ans, err := o.Call("c09.run", strconv.Itoa(c.Max), rows, tab, "", fmt.Sprintf("S:%d:0,R:%d", off, n))
		if err != nil {
			return err
		}
		c.Model = ans
		r.Corr()
		res := strings.Split(strings.SplitN(ans, ";", 2)[0], ",")
		wantOut, wantOK := "-", false
		if len(res) == 2 && strings.HasSuffix(res[0], ":ok") {
			f := strings.Split(res[1], ":") // R:<hex>:<class>
			wantOut = f[1]
			wantOK = (f[2] == "ok" || f[2] == "eof") && (ln <= 0 || len(vh.UnHex(f[1])) == ln)
		}
		if vh.Hex(got) != wantOut || (rc == 0) != wantOK {
			r.Fail("corr", "corr:C09/cat", fmt.Sprintf("cat --offset=%d --length=%d: model says output %s, exit-0 %v; the command wrote %s and exited %d", off, ln, c09Tail(wantOut, 40), wantOK, c09Tail(vh.Hex(got), 40), rc), c)
		}
	}
	return nil
}

// ---------- driver ----------

func runC09(a vh.Args, o *vh.Oracle, r *vh.Result) error {
	r.Rule = "case = (blob built from explicit chunks incl. runs of null chunks = zero chunks of exactly ChunkSizeMax, short zero chunks, repeated chunks, single chunk, empty blob; in-memory store failing at chosen call numbers or lacking a chunk; a history of up to 200 Seek(any whence; targets at every chunk boundary +-1, negative, past the end)/Read(0,1,chunk+-1,>L) on IndexPos, or FUSE read requests on 1-4 handles of the IndexMountFS file node via the raw bridge, or one `desync cat -o -l` run); non-trivial = more than one operation; distinct by (blob, faults, history)"
	if a.Replay != "" {
		var c c09Case
		if err := readJSON(a.Replay, &c); err != nil {
			return err
		}
		switch c.Kind {
		case "fuse":
			return c09CheckFuse(a, o, r, &c)
		case "cli":
			return c09CheckCLI(a, o, r, &c)
		}
		return c09CheckIpos(a, o, r, &c)
	}
	rng := vh.NewRand(a.Seed)
	nIpos, nFuse, nCLI := 260, 90, 30
	if a.Tier == "thorough" {
		nIpos, nFuse, nCLI = 4000, 1200, 80
	}
	mk := func(kind string) *c09Case {
		blob, sizes, max, shape := c09Blob(rng)
		d := "sha256"
		if rng.Chance(1, 5) {
			d = "sha512-256"
		}
		return &c09Case{Kind: kind, Digest: d, Max: max, BlobHex: vh.Hex(blob), Sizes: sizes, Shape: shape, Router: rng.Bool()}
	}
	for i := 0; i < nIpos; i++ {
		c := mk("ipos")
		n := []int{3, 10, 40, 200}[rng.Intn(4)]
		c.Ops = c09GenOps(rng, c.Sizes, c.Max, 1+rng.Intn(n))
		c09GenFaults(rng, c, len(c.Ops)/2)
		if err := c09CheckIpos(a, o, r, c); err != nil {
			if err == errC09Hang {
				r.Note("run aborted after a hang")
				return nil
			}
			return err
		}
	}
	// hand-made indexes with zero-size rows: model/implementation correspondence beyond the theorem's domain
	for i := 0; i < nIpos/8; i++ {
		c := mk("ipos")
		if len(c.Sizes) == 0 {
			continue
		}
		c.Sizes, c.ZeroRows, c.Shape = c09ZeroRows(rng, c.Sizes), true, "zero-size-rows"
		c.Ops = c09GenOps(rng, c.Sizes, c.Max, 1+rng.Intn(30))
		if rng.Bool() { // the store may or may not hold the empty chunk
			for j, sz := range c.Sizes {
				if sz == 0 {
					c.Missing = append(c.Missing, j)
				}
			}
		}
		if err := c09CheckIpos(a, o, r, c); err != nil {
			if err == errC09Hang {
				r.Note("run aborted after a hang")
				return nil
			}
			return err
		}
	}
	// sort.Search itself against go_search, for arbitrary (also non-monotone) predicates
	if o != nil {
		for i := 0; i < nIpos/2; i++ {
			n := rng.Intn(40)
			bits := make([]byte, n)
			th := rng.Intn(n + 1)
			for j := range bits {
				bits[j] = '0'
				if j >= th || rng.Chance(1, 10) {
					bits[j] = '1'
				}
				if rng.Chance(1, 15) {
					bits[j] = '0'
				}
			}
			want := sort.Search(n, func(k int) bool { return bits[k] == '1' })
			bs := string(bits)
			if bs == "" {
				bs = "-"
			}
			ans, err := o.Call("c09.search", strconv.Itoa(n), bs)
			if err != nil {
				return err
			}
			r.Corr()
			r.Count("search|"+bs, n > 1)
			r.Dist("kind:sort.Search")
			if ans != strconv.Itoa(want) {
				r.Fail("corr", "corr:C09/sort.Search", fmt.Sprintf("go_search=%s sort.Search=%d on %s", ans, want, bs), map[string]interface{}{"n": n, "bits": bs})
			}
		}
	}
	// a read that spans chunk boundaries and whose LATER chunk fails in the store, then the identical request again on
	// the same handle (an application or kernel retry) once the store answers, mixed with reads at other offsets
	for i, made := 0, 0; made < nFuse/3 && i < 20*nFuse; i++ {
		c := mk("fuse")
		if len(c.Sizes) < 2 {
			continue
		}
		made++
		c.Shape += "+retry"
		c.NH = 1 + rng.Intn(3)
		bs := c09Boundaries(c.Sizes)
		L := bs[len(bs)-1]
		b := 1 + rng.Intn(len(bs)-2) // an inner boundary
		span := 1 + rng.Intn(3)        // how many boundaries the request crosses
		if b+span-1 > len(bs)-2 {
			span = len(bs) - 1 - b
		}
		off := bs[b] - 1 - int64(rng.Intn(int(bs[b]-bs[b-1])))
		end := bs[b+span-1] + 1 + int64(rng.Intn(int(bs[b+span]-bs[b+span-1])))
		rq := c09Req{H: rng.Intn(c.NH), Off: off, Len: int(end - off)}
		for k := 0; k < rng.Intn(3); k++ { // earlier traffic on this or another handle
			c.Reqs = append(c.Reqs, c09Req{H: rng.Intn(c.NH), Off: c09Target(rng, bs, L), Len: c09ReadLen(rng, c.Sizes, c.Max, L)})
		}
		pre := len(c.Reqs)
		c.Reqs = append(c.Reqs, rq)
		for k := 0; k < rng.Intn(3); k++ {
			h := rng.Intn(c.NH)
			if rng.Bool() && c.NH > 1 {
				h = (rq.H + 1) % c.NH // another handle in between does not disturb this one
			}
			c.Reqs = append(c.Reqs, c09Req{H: h, Off: c09Target(rng, bs, L), Len: c09ReadLen(rng, c.Sizes, c.Max, L)})
		}
		c.Reqs = append(c.Reqs, rq, c09Req{H: rq.H, Off: c09Target(rng, bs, L), Len: 1 + rng.Intn(c.Max)}, rq)
		// the fault belongs on a store call of the spanning request other than its first one: find out how many calls
		// the requests before it make and how many it makes itself (healthy dry run on the implementation)
		dry := *c
		dry.Reqs = c.Reqs[:pre]
		before := c09FuseCalls(&dry)
		dry.Reqs = c.Reqs[:pre+1]
		own := c09FuseCalls(&dry) - before
		if own >= 2 {
			c.Faults = []c09Fault{{K: before + 1 + rng.Intn(own-1), Code: []int{1, 2, 4, 5}[rng.Intn(4)]}}
			r.Dist("fuse:retry-after-failed-later-chunk")
		}
		if err := c09CheckFuse(a, o, r, c); err != nil {
			if err == errC09Hang {
				r.Note("run aborted after a hang")
				return nil
			}
			return err
		}
	}
	for i := 0; i < nFuse; i++ {
		c := mk("fuse")
		c.NH = 1 + rng.Intn(4)
		bs := c09Boundaries(c.Sizes)
		L := bs[len(bs)-1]
		for k := 0; k < 1+rng.Intn(40); k++ {
			h := rng.Intn(c.NH)
			if rng.Chance(1, 40) {
				h = c.NH + rng.Intn(2)
			}
			c.Reqs = append(c.Reqs, c09Req{H: h, Off: c09Target(rng, bs, L), Len: c09ReadLen(rng, c.Sizes, c.Max, L)})
		}
		c09GenFaults(rng, c, len(c.Reqs)/2)
		if c.NH >= 2 && len(c.Reqs) >= 2 && i%2 == 0 {
			// one request is held inside the store while the following ones run on the other handles; faults tied to call
			// numbers are left out (which request meets them would depend on the overlap), missing chunks stay
			c.Faults = nil
			h := rng.Intn(len(c.Reqs) - 1)
			if c.Reqs[h].H >= c.NH {
				c.Reqs[h].H = 0
			}
			if rng.Bool() && L > 0 { // make sure it needs the store: a read of everything from the start
				c.Reqs[h].Off, c.Reqs[h].Len = 0, int(L)
			}
			c.Held = h + 1
			for k := h + 1; k < len(c.Reqs); k++ {
				if c.Reqs[k].H == c.Reqs[h].H {
					c.Reqs[k].H = (c.Reqs[h].H + 1 + rng.Intn(c.NH-1)) % c.NH
				}
			}
			if rng.Bool() { // the very next request arrives on the SAME handle, at another offset, while this one is in the store
				c.SameHandle = true
				c.Reqs[h+1].H = c.Reqs[h].H
				if L > 0 {
					c.Reqs[h+1].Off = (c.Reqs[h].Off + L/2 + int64(rng.Intn(5))) % L
					if c.Reqs[h+1].Off < 0 {
						c.Reqs[h+1].Off += L
					}
					if c.Reqs[h+1].Len == 0 {
						c.Reqs[h+1].Len = 1 + rng.Intn(c.Max)
					}
				}
				r.Dist("fuse:concurrent-on-one-handle")
			}
			r.Dist("fuse:overlapping-handles")
		}
		if err := c09CheckFuse(a, o, r, c); err != nil {
			if err == errC09Hang {
				r.Note("run aborted after a hang")
				return nil
			}
			return err
		}
	}
	if os.Getenv("VH_DESYNC") == "" {
		r.Note("VH_DESYNC not set: CLI cases skipped")
	}
	for i := 0; i < nCLI; i++ {
		c := mk("cli")
		bs := c09Boundaries(c.Sizes)
		L := bs[len(bs)-1]
		c.CLIOff = int(c09Target(rng, bs, L))
		switch rng.Intn(12) {
		case 0, 1, 2:
			c.CLIOff = 0
		case 3: // before the start (e.g. computed by a script): must be refused, not served from position 0
			c.CLIOff = -1 - rng.Intn(5000)
		case 4: // far beyond the end
			c.CLIOff = []int{int(L) + 1 + rng.Intn(1000), 1 << 40, 1<<63 - 1}[rng.Intn(3)]
		}
		c.CLILen = c09ReadLen(rng, c.Sizes, c.Max, L)
		switch rng.Intn(9) {
		case 0, 1, 2:
			c.CLILen = 0
		case 3:
			c.CLILen = []int{1 << 40, 1<<63 - 1, -1 - rng.Intn(100)}[rng.Intn(3)]
		}
		if rng.Chance(1, 3) && len(c.Sizes) > 0 {
			c.Missing = []int{rng.Intn(len(c.Sizes))}
		}
		if err := c09CheckCLI(a, o, r, c); err != nil {
			return err
		}
	}
	return nil
}
