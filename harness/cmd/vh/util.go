package main

import (
	"encoding/json"
	"os"
	"os/exec"
)

func readJSON(path string, v interface{}) error {
	b, err := os.ReadFile(path)
	if err != nil {
		return err
	}
	// replay files wrap the case: {"case": ...}
	var w struct {
		Case json.RawMessage `json:"case"`
	}
	if json.Unmarshal(b, &w) == nil && len(w.Case) > 0 {
		return json.Unmarshal(w.Case, v)
	}
	return json.Unmarshal(b, v)
}

// runCmd runs a command and returns its exit status (-1 if it could not start).
func runCmd(bin string, args ...string) int {
	c := exec.Command(bin, args...)
	err := c.Run()
	if err == nil {
		return 0
	}
	if ee, ok := err.(*exec.ExitError); ok {
		return ee.ExitCode()
	}
	return -1
}
