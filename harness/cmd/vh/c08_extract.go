package main

// C08, extract part: `desync extract` killed at the k-th chunk request of an in-harness HTTP store.

import (
	"bytes"
	"fmt"
	"net"
	"net/http"
	"os"
	"os/exec"
	"path/filepath"
	"strings"
	"sync"
	"syscall"
	"time"

	"github.com/folbricht/desync"

	"vh/internal/vh"
)

type killStore struct {
	mu       sync.Mutex
	objs     map[string][]byte // "/abcd/<id>.cacnk" -> compressed chunk
	requests []string
	killAt   int // 0 = never
	victim   *exec.Cmd
	killed   bool
	signal   syscall.Signal // 0: SIGKILL and never answer; else: deliver it, wait a moment, then serve the request
}

func (k *killStore) ServeHTTP(w http.ResponseWriter, req *http.Request) {
	k.mu.Lock()
	k.requests = append(k.requests, req.URL.Path)
	n := len(k.requests)
	if k.killAt > 0 && n >= k.killAt && k.victim != nil && !k.killed {
		k.killed = true
		if k.signal != 0 {
			k.victim.Process.Signal(k.signal)
			b, ok := k.objs[req.URL.Path]
			k.mu.Unlock()
			time.Sleep(60 * time.Millisecond) // the chunk is "in flight" while the cancellation is noticed
			if ok {
				w.Write(b)
			} else {
				http.NotFound(w, req)
			}
			return
		}
		k.victim.Process.Kill()
		k.mu.Unlock()
		// never answer: the client is dead
		time.Sleep(50 * time.Millisecond)
		return
	}
	b, ok := k.objs[req.URL.Path]
	k.mu.Unlock()
	if !ok {
		http.NotFound(w, req)
		return
	}
	w.Write(b)
}

func c08ExtractCase(a vh.Args, r *vh.Result, c *c08Case) error {
	bin := os.Getenv("VH_DESYNC")
	if bin == "" {
		r.Note("VH_DESYNC not set: extract cases skipped")
		return nil
	}
	desync.Digest = desync.SHA512256{}
	defer func() { desync.Digest = desync.SHA256{} }()
	rng := vh.NewRand(c.Seed)
	blob := rng.Bytes(c.BlobLen)
	sizes := randomSizes(rng, len(blob), 400)
	if c.Repeat {
		// distinct payloads A..F laid out as A B C D B E A F (+ more random repeats for larger blobs)
		var pay [][]byte
		for i := 0; i < 6; i++ {
			pay = append(pay, rng.Bytes(200+rng.Intn(1200)))
		}
		seq := []int{0, 1, 2, 3, 1, 4, 0, 5}
		for extra := c.BlobLen / 4000; extra > 0; extra-- {
			seq = append(seq, rng.Intn(6))
		}
		blob, sizes = nil, nil
		for _, i := range seq {
			blob = append(blob, pay[i]...)
			sizes = append(sizes, len(pay[i]))
		}
	}
	idx := buildIndex(blob, sizes)
	idx.Index.FeatureFlags = desync.CaFormatSHA512256
	dir, err := lsFreshDir(a.Work, "extract")
	if err != nil {
		return err
	}
	idxFile := filepath.Join(dir, "blob.caibx")
	f, err := os.Create(idxFile)
	if err != nil {
		return err
	}
	if _, err := idx.WriteTo(f); err != nil {
		return err
	}
	f.Close()
	ks := &killStore{objs: map[string][]byte{}}
	for _, ch := range idx.Chunks {
		id := ch.ID.String()
		cb, _ := desync.Compress(blob[ch.Start : ch.Start+ch.Size])
		ks.objs["/"+id[:4]+"/"+id+".cacnk"] = cb
	}
	ln, err := net.Listen("tcp", "127.0.0.1:0")
	if err != nil {
		return err
	}
	srv := &http.Server{Handler: ks}
	go srv.Serve(ln)
	defer srv.Close()
	url := "http://" + ln.Addr().String() + "/"
	out := filepath.Join(dir, "out")
	inplace := c.Kind == "extract-inplace"
	rerunN := c.N
	if c.Repeat {
		rerunN = 1 // with one worker the self-seed is exactly the prefix already handled
	}
	var old []byte
	preExisting := !inplace && c.Seed%2 == 0
	if preExisting {
		old = []byte("previous content of the destination")
		os.WriteFile(out, old, 0644)
	}
	// in place: the target does not exist yet (the first download, what -k is documented for) or is empty
	emptyTarget := inplace && c.Seed%2 == 1
	if emptyTarget {
		os.WriteFile(out, nil, 0644)
	}
	r.Dist(fmt.Sprintf("%s-target:%s", c.Kind, map[bool]string{true: "empty", false: map[bool]string{true: "existing", false: "absent"}[preExisting]}[emptyTarget]))
	run := func(killAt int) (string, error) {
		nw := c.N
		if killAt == 0 {
			nw = rerunN
		}
		args := []string{"extract", "-s", url, "-n", fmt.Sprint(nw)}
		if inplace {
			args = append(args, "-k")
		}
		args = append(args, idxFile, out)
		cmd := exec.Command(bin, args...)
		cmd.Env = append(os.Environ(), "HOME="+dir)
		ks.mu.Lock()
		ks.requests, ks.killAt, ks.victim, ks.killed = nil, killAt, cmd, false
		ks.signal = 0
		if c.Kind == "extract-signal" && killAt > 0 {
			ks.signal = map[string]syscall.Signal{"TERM": syscall.SIGTERM, "INT": syscall.SIGINT}[c.Signal]
		}
		ks.mu.Unlock()
		var stderr bytes.Buffer
		cmd.Stderr = &stderr
		if err := cmd.Start(); err != nil {
			return "", err
		}
		done := make(chan error, 1)
		go func() { done <- cmd.Wait() }()
		select {
		case err := <-done:
			if err == nil {
				return "exit0", nil
			}
			return "failed: " + strings.TrimSpace(stderr.String()), nil
		case <-time.After(60 * time.Second):
			cmd.Process.Kill()
			return "timeout", nil
		}
	}
	fail := func(class, what string) {
		c.What = what
		r.Fail("predicate", class, what, c)
	}
	res, err := run(c.K)
	if err != nil {
		return err
	}
	ks.mu.Lock()
	killed := ks.killed
	ks.mu.Unlock()
	r.Count(fmt.Sprintf("%s|%d|%d|%d|%d", c.Kind, c.BlobLen, c.N, c.K, c.Seed), killed)
	r.Dist(fmt.Sprintf("%s:killed=%v", c.Kind, killed))
	if !killed && res != "exit0" {
		fail("extract/unkilled-run-fails", "extract without a kill: "+res)
		return nil
	}
	ents, _ := snapshotTree(dir)
	if c.Kind == "extract-signal" {
		// a cancelled extract: the destination holds what it held before or the complete new file, and
		// exit status 0 means complete
		cur, rerr := os.ReadFile(out)
		complete := rerr == nil && bytes.Equal(cur, blob)
		untouched := (preExisting && rerr == nil && bytes.Equal(cur, old)) || (!preExisting && rerr != nil)
		r.Dist(fmt.Sprintf("extract-signal:%s/complete=%v", strings.SplitN(res, ":", 2)[0], complete))
		switch {
		case res == "exit0" && !complete:
			fail("extract/cancelled-reports-success", fmt.Sprintf("extract got SIG%s while chunk request %d of %d was in flight (n=%d), exited 0, and the destination holds %d of %d bytes matching=%v", c.Signal, c.K, len(idx.Chunks), c.N, len(cur), len(blob), complete))
		case !complete && !untouched:
			fail("extract/cancelled-partial-destination", fmt.Sprintf("extract got SIG%s at request %d (%s): the destination is neither what it was before nor the complete file (%d bytes, err=%v)", c.Signal, c.K, res, len(cur), rerr))
		}
		return nil
	}
	if !inplace {
		// destination untouched (killed) or complete (not killed)
		cur, rerr := os.ReadFile(out)
		switch {
		case killed && preExisting && (rerr != nil || !bytes.Equal(cur, old)):
			fail("extract/destination-modified", fmt.Sprintf("extract killed at request %d: the existing destination changed (%d bytes now, err=%v)", c.K, len(cur), rerr))
		case killed && !preExisting && rerr == nil:
			fail("extract/partial-destination", fmt.Sprintf("extract killed at request %d: a destination of %d bytes appeared", c.K, len(cur)))
		case !killed && !bytes.Equal(cur, blob):
			fail("extract/wrong-output", "complete extract produced a different file")
		}
		for _, e := range ents {
			if e.Path == "out" || e.Path == "blob.caibx" || strings.HasPrefix(e.Path, ".config") || strings.HasPrefix(e.Path, ".cache") {
				continue
			}
			if strings.HasPrefix(e.Path, ".tmp-block") {
				// nullseed.go's block-size probe file; not part of the property, but it is never cleaned up
				r.Dist("extract-leftover:.tmp-block (killed=" + fmt.Sprint(killed) + ")")
				continue
			}
			if !strings.HasPrefix(e.Path, ".out") {
				fail("extract/stray-file", "unexpected file next to the destination: "+e.Path)
			} else if !killed {
				fail("extract/temp-left-behind", "temp file left after a complete extract: "+e.Path)
			}
		}
		return nil
	}
	// in place: the partially written target must be there after the kill ...
	ks.mu.Lock()
	answered := len(ks.requests) - 1 // the request that triggered the kill was not answered
	ks.mu.Unlock()
	if !killed {
		answered = len(idx.Chunks)
	}
	cur, rerr := os.ReadFile(out)
	if killed && rerr != nil {
		fail("extract/inplace-target-missing", fmt.Sprintf("in-place extract killed at request %d (%d chunks had been served): the target does not exist afterwards (%v), so nothing can be re-used", c.K, answered, rerr))
	}
	for _, e := range ents {
		if strings.HasPrefix(e.Path, ".out") {
			fail("extract/inplace-uses-temp-file", "in-place extract wrote into a temp file next to the target: "+e.Path)
		}
	}
	// ... and which chunks are already right in it?
	have := map[string]bool{}      // ids that must not be requested again
	anywhere := map[string]bool{}  // ids valid at some occurrence
	distinct := map[string]bool{}
	seen := map[string]bool{}
	nvalid := 0
	for _, ch := range idx.Chunks {
		id := ch.ID.String()
		distinct[id] = true
		ok := int(ch.Start+ch.Size) <= len(cur) && desync.Digest.Sum(cur[ch.Start:ch.Start+ch.Size]) == ch.ID
		if ok {
			anywhere[id] = true
			nvalid++
			// with repeated chunks: only an id whose FIRST occurrence is in place is certainly offered by
			// the self seed of a one-worker re-run when a later occurrence comes up
			if !c.Repeat || !seen[id] {
				have[id] = true
			}
		}
		seen[id] = true
	}
	r.Dist(fmt.Sprintf("inplace-valid-before-rerun:%s", bucket(nvalid)))
	res, err = run(0)
	if err != nil {
		return err
	}
	if res != "exit0" {
		fail("extract/inplace-rerun-fails", "re-run of the in-place extract: "+res)
		return nil
	}
	cur, _ = os.ReadFile(out)
	if !bytes.Equal(cur, blob) {
		fail("extract/inplace-wrong-output", "re-run of the in-place extract produced a different file")
	}
	ks.mu.Lock()
	reqs := append([]string{}, ks.requests...)
	ks.mu.Unlock()
	for _, p := range reqs {
		id := strings.TrimSuffix(filepath.Base(p), ".cacnk")
		if have[id] {
			fail("extract/inplace-refetches", fmt.Sprintf("re-run requested chunk %s although its range already held the right data (%d of %d chunks were valid, %d requests)", id, nvalid, len(idx.Chunks), len(reqs)))
			break
		}
	}
	if len(reqs) > len(idx.Chunks)-nvalid {
		fail("extract/inplace-refetches", fmt.Sprintf("re-run issued %d requests for %d missing chunks", len(reqs), len(idx.Chunks)-nvalid))
	}
	if c.Repeat {
		// a chunk that is valid somewhere in the file is copied, not fetched (up to the n chunks the dead
		// run may have written out of order)
		if allowed := len(distinct) - len(anywhere) + c.N; len(reqs) > allowed {
			fail("extract/inplace-refetches", fmt.Sprintf("index with repeated chunks: %d of %d distinct chunks were valid somewhere in the file after the kill, the one-worker re-run requested %d chunks (at most %d needed): %v", len(anywhere), len(distinct), len(reqs), allowed, reqs))
		}
	}
	// independent of what the file shows: of the chunks served before the kill at most n were still being
	// written, so the re-run may ask for at most total - served + n chunks
	if allowed := len(idx.Chunks) - answered + c.N; killed && len(reqs) > allowed {
		fail("extract/inplace-refetches", fmt.Sprintf("in-place extract killed after %d of %d chunks had been served (n=%d): the re-run requested %d chunks, at most %d are missing", answered, len(idx.Chunks), c.N, len(reqs), allowed))
	}
	return nil
}

func c08Extract(a vh.Args, o *vh.Oracle, r *vh.Result, rng *vh.Rand) error {
	if os.Getenv("VH_DESYNC") == "" {
		r.Note("VH_DESYNC not set: extract cases skipped")
		return nil
	}
	n := 14
	if a.Tier == "thorough" {
		n = 120
	}
	// indexes with repeated chunks, in place, killed at every request of the dead run
	for k := 1; k <= 7; k++ {
		c := &c08Case{Kind: "extract-inplace", Repeat: true, BlobLen: 0, N: 1 + k%2, K: k, Seed: (rng.U64()%500000)<<1 | uint64(k%2)}
		if a.Tier == "thorough" {
			c.BlobLen = 4000 * rng.Intn(5)
		}
		if err := c08ExtractCase(a, r, c); err != nil {
			return err
		}
	}
	// SIGTERM / SIGINT while the k-th chunk is in flight, for EVERY k of a small index
	for _, nw := range []int{1, 2} {
		seed := rng.U64() % 500000
		total := 0
		for k := 1; k == 1 || k <= total; k++ {
			for v := 0; v < 2; v++ {
				if nw == 2 && v == 1 {
					continue
				}
				c := &c08Case{Kind: "extract-signal", BlobLen: 2500, N: nw, K: k, Signal: []string{"TERM", "INT"}[(k+v)%2], Seed: seed<<1 | uint64(v)}
				if err := c08ExtractCase(a, r, c); err != nil {
					return err
				}
				if total == 0 {
					rr := vh.NewRand(c.Seed)
					rr.Bytes(c.BlobLen)
					total = len(randomSizes(rr, c.BlobLen, 400))
				}
			}
		}
	}
	for i := 0; i < n; i++ {
		blobLen := []int{3000, 20000, 60000}[rng.Intn(3)]
		c := &c08Case{Kind: []string{"extract-kill", "extract-inplace"}[i%2], BlobLen: blobLen, N: []int{1, 2, 8}[rng.Intn(3)],
			Seed: (rng.U64()%500000)<<1 | uint64(i/2%2)} // the parity picks absent/empty (in place), existing/absent (temp file)
		// the kill point: anywhere among the roughly blobLen/200 chunk requests, sometimes beyond the end
		c.K = 1 + rng.Intn(blobLen/200+3)
		if i == 0 {
			c.K = 1
		}
		if i == 1 { // in place, target absent, killed well into the download
			c.K = blobLen/400 + 2
		}
		if err := c08ExtractCase(a, r, c); err != nil {
			return err
		}
	}
	return nil
}
