package main

// C13 -- archives written by desync are well-formed casync catar.
//
//  bst      desync.VerifGoodbyeBST (makeGoodbyeBST) on generated item lists, every n:
//           predicate (complete BST in array order, found by casync's descent) + table
//           compared with the extracted model
//  height   the float expression of makeGoodbyeBST for the tree height vs. the model's
//           bit length
//  sip      desync.SipHash vs. the extracted SipHash-2-4 model
//  archive  random trees on disk -> `desync tar` (CLI) and desync.Tar (library) ->
//           independent validator harness/pyval/catar.py (+ the extracted validator)
//           and its listing compared with an lstat snapshot of the tree
//  tar      the same through the tar-stream source (children sorted / in stream order; name
//           order is not judged there)

import (
	"archive/tar"
	"bytes"
	"context"
	"crypto/sha256"
	"encoding/hex"
	"encoding/json"
	"fmt"
	"math"
	"os"
	"os/exec"
	"path/filepath"
	"sort"
	"strconv"
	"strings"
	"syscall"
	"time"
	"unsafe"

	"github.com/folbricht/desync"

	"vh/internal/vh"
)

func init() { props["C13"] = runC13 }

type c13Item struct {
	Off  uint64 `json:"offset"`
	Size uint64 `json:"size"`
	Hash uint64 `json:"hash"`
}

type c13Node struct {
	Path    []string          `json:"path_hex"` // components, hex; empty = the root
	Type    string            `json:"type"`     // dir file symlink fifo char block
	Mode    uint32            `json:"mode"`     // permission bits incl. suid/sgid/sticky
	UID     int               `json:"uid"`
	GID     int               `json:"gid"`
	Mtime   int64             `json:"mtime_ns"`
	Size    int               `json:"size,omitempty"`
	Seed    uint64            `json:"data_seed,omitempty"`
	Target  string            `json:"target_hex,omitempty"`
	Major   uint64            `json:"major,omitempty"`
	Minor   uint64            `json:"minor,omitempty"`
	Xattrs  map[string]string `json:"xattrs,omitempty"` // hex name -> hex value
	content []byte
}

type c13Case struct {
	Kind    string     `json:"kind"` // bst | height | sip | archive
	Items   []c13Item  `json:"items,omitempty"`
	N       uint64     `json:"n,omitempty"`
	NameHex string     `json:"name_hex,omitempty"`
	Source  string     `json:"source,omitempty"` // disk | tar-sorted | tar-unsorted
	Nodes   []c13Node  `json:"nodes,omitempty"`
	Errors  []c13PyErr `json:"validator_errors,omitempty"`
	Detail  string     `json:"detail,omitempty"`
	Roots   string     `json:"root_members,omitempty"` // tar-stream source: where extra root members sit ("0:./,./;2:.;-1:./.")
	AddRoot bool       `json:"add_root,omitempty"`     // tar-stream source: TarReaderOptions.AddRoot / --tar-add-root
	Cap     int        `json:"capacity,omitempty"`     // fault family: the target accepts this many bytes
	Mode    string     `json:"fault_mode,omitempty"`   // enospc | transient | cli-fsize
}

type c13PyErr struct {
	Class   string `json:"class"`
	Path    string `json:"path"`
	PathHex string `json:"path_hex"`
	Offset  int64  `json:"offset"`
	Msg     string `json:"msg"`
}

type c13PyNode struct {
	Path    string            `json:"path"`
	PathHex string            `json:"path_hex"`
	Type    string            `json:"type"`
	Mode    uint32            `json:"mode"`
	UID     uint64            `json:"uid"`
	GID     uint64            `json:"gid"`
	Mtime   uint64            `json:"mtime"`
	Size    *int64            `json:"size"`
	Sha256  string            `json:"sha256"`
	Target  *string           `json:"target_hex"`
	Major   *uint64           `json:"major"`
	Minor   *uint64           `json:"minor"`
	Entries *int              `json:"entries"`
	Xattrs  map[string]string `json:"xattrs"`
}

type c13PyOut struct {
	OK     bool        `json:"ok"`
	Errors []c13PyErr  `json:"errors"`
	Flags  uint64      `json:"feature_flags"`
	Nodes  []c13PyNode `json:"nodes"`
}

// ---------------------------------------------------------------- bst

func c13ItemsString(items []c13Item) string {
	if len(items) == 0 {
		return "-"
	}
	var sb strings.Builder
	for i, it := range items {
		if i > 0 {
			sb.WriteByte(',')
		}
		sb.WriteString(strconv.FormatUint(it.Off, 10))
		sb.WriteByte(':')
		sb.WriteString(strconv.FormatUint(it.Size, 10))
		sb.WriteByte(':')
		sb.WriteString(strconv.FormatUint(it.Hash, 10))
	}
	return sb.String()
}

func c13GenItems(rng *vh.Rand, n int) ([]c13Item, string) {
	items := make([]c13Item, n)
	shape := []string{"random", "random", "dups", "all-equal", "ascending", "descending", "two-values"}[rng.Intn(7)]
	pool := 1 + rng.Intn(1+n/3+1)
	off := uint64(rng.Intn(1000))
	for i := range items {
		var h uint64
		switch shape {
		case "random":
			h = rng.U64()
		case "dups":
			h = uint64(rng.Intn(pool)) * 0x9E3779B97F4A7C15
		case "all-equal":
			h = 42
		case "ascending":
			h = uint64(i) * 3
		case "descending":
			h = uint64(n-i) * 3
		case "two-values":
			h = uint64(rng.Intn(2)) << 63
		}
		off += 17 + uint64(rng.Intn(5000)) // offsets of different children differ
		items[i] = c13Item{Off: off, Size: 17 + uint64(rng.Intn(1<<20)), Hash: h}
	}
	// tar.go hands the items over in directory order with offsets counted back from the
	// goodbye element: descending offsets; sometimes shuffle instead
	if rng.Bool() {
		for i, j := 0, n-1; i < j; i, j = i+1, j-1 {
			items[i].Off, items[j].Off = items[j].Off, items[i].Off
		}
	} else {
		for i := n - 1; i > 0; i-- {
			j := rng.Intn(i + 1)
			items[i], items[j] = items[j], items[i]
		}
	}
	return items, shape
}

func c13Less(a, b c13Item) bool {
	if a.Hash != b.Hash {
		return a.Hash < b.Hash
	}
	return a.Off < b.Off
}

// c13BSTPredicate: the table is a complete binary search tree in array order over the
// given items. Written against the format rule, not the model.
func c13BSTPredicate(items, out []c13Item) (string, string) {
	n := len(items)
	if len(out) != n {
		return "bst/length", fmt.Sprintf("table has %d slots for %d items", len(out), n)
	}
	cnt := map[c13Item]int{}
	hcnt := map[uint64]int{}
	for _, it := range items {
		cnt[it]++
		hcnt[it.Hash]++
	}
	for i, it := range out {
		cnt[it]--
		if cnt[it] < 0 {
			return "bst/not-a-permutation", fmt.Sprintf("slot %d holds %v which is not (or no longer) an input item", i, it)
		}
	}
	// in-order traversal ascending by (hash, offset)
	var order []int
	var stack []int
	i := 0
	for len(stack) > 0 || i < n {
		for i < n {
			stack = append(stack, i)
			i = 2*i + 1
		}
		i = stack[len(stack)-1]
		stack = stack[:len(stack)-1]
		order = append(order, i)
		i = 2*i + 2
	}
	if len(order) != n {
		return "bst/shape", "the implicit tree does not cover every slot"
	}
	for k := 1; k < n; k++ {
		a, b := out[order[k-1]], out[order[k]]
		if a.Hash > b.Hash {
			return "bst/inorder", fmt.Sprintf("in-order traversal descends in hash at slots %d,%d", order[k-1], order[k])
		}
		if a.Hash == b.Hash && a.Off > b.Off {
			return "bst/tie-order", fmt.Sprintf("equal hashes not ordered by offset at slots %d,%d", order[k-1], order[k])
		}
	}
	// casync's descent
	for _, it := range items {
		j := 0
		found := -1
		for j < n {
			if it.Hash == out[j].Hash {
				found = j
				break
			}
			if it.Hash < out[j].Hash {
				j = 2*j + 1
			} else {
				j = 2*j + 2
			}
		}
		if found < 0 {
			return "bst/lookup", fmt.Sprintf("descent does not find hash %d", it.Hash)
		}
		if hcnt[it.Hash] == 1 && out[found] != it {
			return "bst/lookup", fmt.Sprintf("descent for hash %d ends at another item", it.Hash)
		}
	}
	return "", ""
}

func c13RunBST(items []c13Item) (out []c13Item, panicked string) {
	in := make([]desync.FormatGoodbyeItem, len(items))
	for i, it := range items {
		in[i] = desync.FormatGoodbyeItem{Offset: it.Off, Size: it.Size, Hash: it.Hash}
	}
	defer func() {
		if e := recover(); e != nil {
			panicked = fmt.Sprint(e)
		}
	}()
	res := desync.VerifGoodbyeBST(in)
	out = make([]c13Item, len(res))
	for i, it := range res {
		out[i] = c13Item{it.Offset, it.Size, it.Hash}
	}
	return out, ""
}

func c13CheckBST(o *vh.Oracle, r *vh.Result, c *c13Case, shape string, corr bool) error {
	n := len(c.Items)
	out, p := c13RunBST(c.Items)
	r.Count(fmt.Sprintf("bst|%d|%s", n, shape), n >= 2)
	r.Dist("bst-n:" + bucket(n))
	if shape != "" {
		r.Dist("bst-hashes:" + shape)
	}
	if p != "" {
		c.Detail = p
		r.Fail("predicate", "bst/panic", fmt.Sprintf("makeGoodbyeBST panics for n=%d: %s", n, p), c13Shrunk(c))
		return nil
	}
	if cls, what := c13BSTPredicate(c.Items, out); cls != "" {
		c.Detail = what
		r.Fail("predicate", cls, fmt.Sprintf("makeGoodbyeBST n=%d: %s", n, what), c13ShrinkBST(c, cls))
	}
	if corr && o != nil {
		ans, err := o.Call("c13.bst", c13ItemsString(c.Items))
		if err != nil {
			return err
		}
		r.Corr()
		if got := c13ItemsString(out); got != ans {
			d := *c
			d.Detail = "model: " + c13Trunc(ans) + " implementation: " + c13Trunc(got)
			r.Fail("corr", "corr:C13/bst-table", fmt.Sprintf("makeGoodbyeBST and the model differ for n=%d", n), c13Shrunk(&d))
		}
	}
	return nil
}

func c13Trunc(s string) string {
	if len(s) > 600 {
		return s[:600] + "..."
	}
	return s
}

func c13Shrunk(c *c13Case) *c13Case {
	d := *c
	if len(d.Items) > 400 {
		d.Detail += fmt.Sprintf(" (n=%d)", len(d.Items))
	}
	return &d
}

// c13ShrinkBST drops items while the same predicate class keeps failing.
func c13ShrinkBST(c *c13Case, cls string) *c13Case {
	cur := append([]c13Item{}, c.Items...)
	fails := func(items []c13Item) bool {
		out, p := c13RunBST(items)
		if p != "" {
			return cls == "bst/panic"
		}
		k, _ := c13BSTPredicate(items, out)
		return k == cls
	}
	for step := (len(cur) + 1) / 2; step >= 1; step /= 2 {
		for i := 0; i+step <= len(cur) && len(cur) > 1; {
			cand := append(append([]c13Item{}, cur[:i]...), cur[i+step:]...)
			if fails(cand) {
				cur = cand
			} else {
				i += step
			}
		}
	}
	d := *c
	d.Items = cur
	out, _ := c13RunBST(cur)
	_, what := c13BSTPredicate(cur, out)
	d.Detail = what + " (shrunk from n=" + strconv.Itoa(len(c.Items)) + "); table: " + c13Trunc(c13ItemsString(out))
	return &d
}

// ---------------------------------------------------------------- height, sip

// the expression of format.go:makeGoodbyeBST (the code computes it inline; the harness repeats
// it to test the model's "bit length" reading of it where tables cannot be built: large n)
func c13GoHeight(n uint64) uint { return uint(math.Log2(float64(n)) + 1) }

func c13CheckHeight(o *vh.Oracle, r *vh.Result, n uint64) error {
	ans, err := o.Call("c13.bitlen", strconv.FormatUint(n, 10))
	if err != nil {
		return err
	}
	r.Corr()
	if got := strconv.FormatUint(uint64(c13GoHeight(n)), 10); got != ans {
		r.Fail("corr", "corr:C13/log2-height", fmt.Sprintf("n=%d: uint(math.Log2(float64(n))+1)=%s, bit length %s", n, got, ans), &c13Case{Kind: "height", N: n})
	}
	return nil
}

func c13CheckSip(o *vh.Oracle, r *vh.Result, name []byte) error {
	got := desync.SipHash(name)
	r.Count("sip|"+vh.Hex(name), len(name) > 0)
	r.Dist("sip-len:" + bucket(len(name)))
	ans, err := o.Call("c13.sip", vh.Hex(name))
	if err != nil {
		return err
	}
	r.Corr()
	if strconv.FormatUint(got, 10) != ans {
		r.Fail("corr", "corr:C13/siphash", fmt.Sprintf("SipHash(%x)=%d, model %s", name, got, ans), &c13Case{Kind: "sip", NameHex: vh.Hex(name)})
	}
	return nil
}

// ---------------------------------------------------------------- trees

type c13Gen struct {
	rng      *vh.Rand
	bigDir   int // fan-out of the one big directory (0 = none)
	special  bool
	xattrs   bool
	maxDepth int
	nodes    []c13Node
	budget   int
}

func c13Name(rng *vh.Rand) []byte {
	var b []byte
	switch rng.Intn(10) {
	case 0: // arbitrary bytes
		b = rng.Bytes(1 + rng.Intn(20))
	case 1: // long
		b = rng.Bytes(200 + rng.Intn(56))
	case 2: // utf-8
		rs := []rune("äöüßéñ日本語ファイル名✓𝔘𝔫𝔦")
		n := 1 + rng.Intn(8)
		for i := 0; i < n; i++ {
			b = append(b, string(rs[rng.Intn(len(rs))])...)
		}
	case 3: // names that differ around '/' in the byte order, dots, spaces, dashes
		base := []string{"a", "a.", "a-", "a b", "a.b", "a0", "A", "a\x01", "a\xff", ".a", "..a", "...", " ", "-", "a.txt"}
		b = []byte(base[rng.Intn(len(base))])
	default:
		const al = "abcdefghijklmnopqrstuvwxyzABCDEFGHIJKLMNOPQRSTUVWXYZ0123456789._-"
		n := 1 + rng.Intn(12)
		for i := 0; i < n; i++ {
			b = append(b, al[rng.Intn(len(al))])
		}
	}
	for i := range b {
		if b[i] == '/' || b[i] == 0 {
			b[i] = 'x'
		}
	}
	if len(b) > 255 {
		b = b[:255]
	}
	if string(b) == "." || string(b) == ".." {
		b = []byte("dot")
	}
	return b
}

func (g *c13Gen) meta(n *c13Node) {
	rng := g.rng
	n.Mode = []uint32{0644, 0755, 0600, 0777, 0, 0444, 0640, 0711}[rng.Intn(8)]
	if rng.Chance(1, 8) {
		n.Mode |= []uint32{04000, 02000, 01000}[rng.Intn(3)]
	}
	if rng.Chance(1, 3) {
		n.UID = []int{0, 1, 1000, 65534, 65535, 1 << 20, (1 << 31) - 1, 4294967294}[rng.Intn(8)]
		n.GID = []int{0, 1, 1000, 65534, 65535, 1 << 20, (1 << 31) - 1, 4294967294}[rng.Intn(8)]
	}
	switch rng.Intn(6) {
	case 0:
		n.Mtime = 0
	case 1:
		n.Mtime = int64(rng.Intn(2000000000)) * 1e9
	case 2:
		n.Mtime = int64(rng.U64() % (4102444800 * 1e9)) // up to 2100, ns precision
	case 3:
		n.Mtime = 1 + int64(rng.Intn(999))
	default:
		n.Mtime = 1600000000*1e9 + int64(rng.Intn(1e9))
	}
	if g.xattrs && (n.Type == "file" || n.Type == "dir") && rng.Chance(1, 4) {
		n.Xattrs = map[string]string{}
		k := 1 + rng.Intn(4)
		for i := 0; i < k; i++ {
			name := "user." + string("abcxyz_09"[rng.Intn(9)]) + strconv.Itoa(rng.Intn(30))
			var v []byte
			switch rng.Intn(4) {
			case 0:
				v = nil
			case 1:
				v = rng.Bytes(1 + rng.Intn(40))
			case 2:
				v = []byte("value")
			default:
				v = append(rng.Bytes(rng.Intn(10)), 0) // ends in NUL
			}
			n.Xattrs[hex.EncodeToString([]byte(name))] = hex.EncodeToString(v)
		}
	}
}

func (g *c13Gen) dir(path []string, depth int, fan int) {
	used := map[string]bool{}
	for i := 0; i < fan && g.budget > 0; i++ {
		name := c13Name(g.rng)
		if fan > 40 { // big directories: short distinct names
			name = []byte(fmt.Sprintf("%s%d", string("efgEFG_.-~"[g.rng.Intn(10)]), g.rng.Intn(fan*4)))
		}
		if used[string(name)] {
			continue
		}
		used[string(name)] = true
		g.budget--
		p := append(append([]string{}, path...), hex.EncodeToString(name))
		n := c13Node{Path: p}
		k := g.rng.Intn(100)
		switch {
		case k < 22 && depth < g.maxDepth:
			n.Type = "dir"
		case k < 70 || fan > 40 && k < 90:
			n.Type = "file"
			switch g.rng.Intn(40) {
			case 0, 1, 2, 3:
				n.Size = 0
			case 4:
				n.Size = g.rng.Intn(65537)
			case 5, 6, 7:
				n.Size = g.rng.Intn(4097)
			default:
				n.Size = g.rng.Intn(300)
			}
			if fan > 40 {
				n.Size = g.rng.Intn(20)
			}
			n.Seed = g.rng.U64()
		case k < 85:
			n.Type = "symlink"
			t := c13Name(g.rng)
			if g.rng.Chance(1, 3) {
				t = []byte("../" + string(t) + "/x")
			}
			n.Target = hex.EncodeToString(t)
		case k < 92 && g.special:
			n.Type = []string{"char", "block"}[g.rng.Intn(2)]
			n.Major = uint64(g.rng.Intn(4096))
			n.Minor = uint64([]int{0, 3, 255, 256, 1 << 12, 1<<20 - 1}[g.rng.Intn(6)])
		case k < 96 && g.special:
			n.Type = []string{"fifo", "socket"}[g.rng.Intn(2)]
		default:
			n.Type = "file"
			n.Size = g.rng.Intn(100)
			n.Seed = g.rng.U64()
		}
		g.meta(&n)
		g.nodes = append(g.nodes, n)
		if n.Type == "dir" {
			f := []int{0, 0, 1, 2, 3, 5, 8, 17}[g.rng.Intn(8)]
			if g.bigDir > 0 && g.rng.Chance(1, 3) {
				f = g.bigDir
				g.bigDir = 0
			}
			g.dir(p, depth+1, f)
		}
	}
}

// nodes per generated tree besides the one big directory (quick tier: smaller, the extracted
// reader and tar() model cost about 3 ms per node)
var c13Budget = 400

func c13GenTree(rng *vh.Rand, bigDir int, special, xattrs bool) []c13Node {
	g := &c13Gen{rng: rng, bigDir: bigDir, special: special, xattrs: xattrs, maxDepth: 1 + rng.Intn(5), budget: c13Budget + bigDir}
	root := c13Node{Type: "dir"}
	g.meta(&root)
	g.nodes = append(g.nodes, root)
	fan := []int{0, 1, 2, 4, 7, 12, 30}[rng.Intn(7)]
	if bigDir > 0 && rng.Chance(1, 2) {
		fan = bigDir
		g.bigDir = 0
	}
	g.dir(nil, 1, fan)
	if g.bigDir > 0 { // not placed yet: put it below the root
		p := []string{hex.EncodeToString([]byte("big"))}
		exists := false
		for _, n := range g.nodes {
			if len(n.Path) == 1 && n.Path[0] == p[0] {
				exists = true
			}
		}
		if !exists {
			n := c13Node{Path: p, Type: "dir"}
			g.meta(&n)
			g.nodes = append(g.nodes, n)
			g.budget += g.bigDir
			g.dir(p, 2, g.bigDir)
		}
	}
	return g.nodes
}

func c13Content(n *c13Node) []byte {
	if n.content == nil && n.Size > 0 {
		n.content = vh.NewRand(n.Seed).Bytes(n.Size)
	}
	return n.content
}

func c13FsPath(root string, p []string) string {
	out := root
	for _, c := range p {
		b, _ := hex.DecodeString(c)
		out += "/" + string(b)
	}
	return out
}

func c13Utimens(path string, ns int64) error {
	const atFdcwd = -100
	const symlinkNofollow = 0x100
	ts := [2]syscall.Timespec{syscall.NsecToTimespec(ns), syscall.NsecToTimespec(ns)}
	if ns < 0 { // NsecToTimespec truncates toward zero
		sec := ns / 1e9
		nsec := ns % 1e9
		if nsec < 0 {
			sec--
			nsec += 1e9
		}
		ts[0] = syscall.Timespec{Sec: sec, Nsec: nsec}
		ts[1] = ts[0]
	}
	p, err := syscall.BytePtrFromString(path)
	if err != nil {
		return err
	}
	fd := atFdcwd
	_, _, e := syscall.Syscall6(syscall.SYS_UTIMENSAT, uintptr(fd), uintptr(unsafe.Pointer(p)), uintptr(unsafe.Pointer(&ts[0])), symlinkNofollow, 0, 0)
	if e != 0 {
		return e
	}
	return nil
}

func c13Lsetxattr(path string, name string, val []byte) error {
	p, err := syscall.BytePtrFromString(path)
	if err != nil {
		return err
	}
	np, err := syscall.BytePtrFromString(name)
	if err != nil {
		return err
	}
	var vp unsafe.Pointer
	if len(val) > 0 {
		vp = unsafe.Pointer(&val[0])
	} else {
		var z byte
		vp = unsafe.Pointer(&z)
	}
	_, _, e := syscall.Syscall6(syscall.SYS_LSETXATTR, uintptr(unsafe.Pointer(p)), uintptr(unsafe.Pointer(np)), uintptr(vp), uintptr(len(val)), 0, 0)
	if e != 0 {
		return e
	}
	return nil
}

func c13Llistxattr(path string) (map[string]string, error) {
	out := map[string]string{}
	p, err := syscall.BytePtrFromString(path)
	if err != nil {
		return nil, err
	}
	buf := make([]byte, 1<<16)
	n, _, e := syscall.Syscall(syscall.SYS_LLISTXATTR, uintptr(unsafe.Pointer(p)), uintptr(unsafe.Pointer(&buf[0])), uintptr(len(buf)))
	if e != 0 {
		if e == syscall.ENOTSUP || e == syscall.EPERM {
			return out, nil
		}
		return nil, e
	}
	for _, name := range bytes.Split(buf[:n], []byte{0}) {
		if len(name) == 0 {
			continue
		}
		np, _ := syscall.BytePtrFromString(string(name))
		val := make([]byte, 1<<16)
		m, _, e := syscall.Syscall6(syscall.SYS_LGETXATTR, uintptr(unsafe.Pointer(p)), uintptr(unsafe.Pointer(np)), uintptr(unsafe.Pointer(&val[0])), uintptr(len(val)), 0, 0)
		if e != 0 {
			return nil, e
		}
		out[hex.EncodeToString(name)] = hex.EncodeToString(val[:m])
	}
	return out, nil
}

// c13Materialize creates the tree below root (which must not exist).
func c13Materialize(root string, nodes []c13Node) error {
	for i := range nodes {
		n := &nodes[i]
		p := c13FsPath(root, n.Path)
		var err error
		switch n.Type {
		case "dir":
			err = os.Mkdir(p, 0700)
		case "file":
			err = os.WriteFile(p, c13Content(n), 0600)
		case "symlink":
			t, _ := hex.DecodeString(n.Target)
			err = os.Symlink(string(t), p)
		case "fifo":
			err = syscall.Mkfifo(p, 0600)
		case "socket":
			err = syscall.Mknod(p, syscall.S_IFSOCK|0600, 0)
		case "char":
			err = syscall.Mknod(p, syscall.S_IFCHR|0600, int(c13Mkdev(n.Major, n.Minor)))
		case "block":
			err = syscall.Mknod(p, syscall.S_IFBLK|0600, int(c13Mkdev(n.Major, n.Minor)))
		default:
			err = fmt.Errorf("unknown node type %q", n.Type)
		}
		if err != nil {
			return fmt.Errorf("create %s %q: %v", n.Type, p, err)
		}
	}
	// attributes, children before parents so that directory mtimes stay
	for i := len(nodes) - 1; i >= 0; i-- {
		n := &nodes[i]
		p := c13FsPath(root, n.Path)
		for k, v := range n.Xattrs {
			kb, _ := hex.DecodeString(k)
			vb, _ := hex.DecodeString(v)
			if err := c13Lsetxattr(p, string(kb), vb); err != nil {
				return fmt.Errorf("setxattr %q: %v", p, err)
			}
		}
		if err := os.Lchown(p, n.UID, n.GID); err != nil {
			return fmt.Errorf("lchown %q: %v", p, err)
		}
		if n.Type != "symlink" {
			if err := syscall.Chmod(p, n.Mode); err != nil {
				return fmt.Errorf("chmod %q: %v", p, err)
			}
		}
		if err := c13Utimens(p, n.Mtime); err != nil {
			return fmt.Errorf("utimens %q: %v", p, err)
		}
	}
	return nil
}

func c13Mkdev(major, minor uint64) uint64 {
	dev := (major & 0x00000fff) << 8
	dev |= (major & 0xfffff000) << 32
	dev |= (minor & 0x000000ff) << 0
	dev |= (minor & 0xffffff00) << 12
	return dev
}

// what the archive should describe, one per node, keyed by hex path
type c13Want struct {
	Path   string
	Type   string
	Mode   uint32
	UID    uint64
	GID    uint64
	Mtime  uint64
	Size   int64
	Sha256 string
	Target string
	Major  uint64
	Minor  uint64
	Xattrs map[string]string
	Kids   int
}

// c13Snapshot lstat()s the tree as it is on disk.
func c13Snapshot(root string) (map[string]*c13Want, []string, error) {
	out := map[string]*c13Want{}
	var order []string
	var walk func(p string, key []string) error
	walk = func(p string, key []string) error {
		var st syscall.Stat_t
		if err := syscall.Lstat(p, &st); err != nil {
			return err
		}
		w := &c13Want{Path: strings.Join(key, "/"), Mode: st.Mode & 07777, UID: uint64(st.Uid), GID: uint64(st.Gid),
			Mtime: uint64(st.Mtim.Sec*1e9 + st.Mtim.Nsec)}
		xa, err := c13Llistxattr(p)
		if err != nil {
			return err
		}
		w.Xattrs = xa
		out[w.Path] = w
		order = append(order, w.Path)
		switch st.Mode & syscall.S_IFMT {
		case syscall.S_IFDIR:
			w.Type = "dir"
			ents, err := os.ReadDir(p)
			if err != nil {
				return err
			}
			w.Kids = len(ents)
			for _, e := range ents {
				if err := walk(p+"/"+e.Name(), append(append([]string{}, key...), hex.EncodeToString([]byte(e.Name())))); err != nil {
					return err
				}
			}
		case syscall.S_IFREG:
			w.Type = "file"
			b, err := os.ReadFile(p)
			if err != nil {
				return err
			}
			w.Size = int64(len(b))
			s := sha256.Sum256(b)
			w.Sha256 = hex.EncodeToString(s[:])
		case syscall.S_IFLNK:
			w.Type = "symlink"
			t, err := os.Readlink(p)
			if err != nil {
				return err
			}
			w.Target = hex.EncodeToString([]byte(t))
		case syscall.S_IFCHR, syscall.S_IFBLK:
			w.Type = "char"
			if st.Mode&syscall.S_IFMT == syscall.S_IFBLK {
				w.Type = "block"
			}
			// glibc gnu_dev_major / gnu_dev_minor
			d := uint64(st.Rdev)
			w.Major = ((d >> 32) & 0xfffff000) | ((d >> 8) & 0xfff)
			w.Minor = ((d >> 12) & 0xffffff00) | (d & 0xff)
		case syscall.S_IFIFO:
			w.Type = "fifo"
		case syscall.S_IFSOCK:
			w.Type = "socket"
		}
		return nil
	}
	err := walk(root, nil)
	return out, order, err
}

// c13WantFromNodes: the expectation for the tar-stream source comes from the generated spec.
func c13WantFromNodes(nodes []c13Node) (map[string]*c13Want, []string) {
	out := map[string]*c13Want{}
	var order []string
	for i := range nodes {
		n := &nodes[i]
		w := &c13Want{Path: strings.Join(n.Path, "/"), Type: n.Type, Mode: n.Mode, UID: uint64(n.UID), GID: uint64(n.GID),
			Mtime: uint64(n.Mtime), Target: n.Target, Major: n.Major, Minor: n.Minor, Xattrs: map[string]string{}}
		for k, v := range n.Xattrs {
			if v != "" { // a PAX record with an empty value means "no such record": tar cannot carry it
				w.Xattrs[k] = v
			}
		}
		if n.Type == "file" {
			b := c13Content(n)
			w.Size = int64(len(b))
			s := sha256.Sum256(b)
			w.Sha256 = hex.EncodeToString(s[:])
		}
		out[w.Path] = w
		order = append(order, w.Path)
		if len(n.Path) > 0 {
			out[strings.Join(n.Path[:len(n.Path)-1], "/")].Kids++
		}
	}
	return out, order
}

// c13Compare: listing of the validator against the expectation. Returns (class, description).
func c13Compare(want map[string]*c13Want, order []string, got []c13PyNode) (res [][2]string) {
	seen := map[string]bool{}
	add := func(cls, d string) { res = append(res, [2]string{cls, d}) }
	for i := range got {
		g := &got[i]
		w, ok := want[g.PathHex]
		if !ok {
			add("listing/extra-node", fmt.Sprintf("archive has %q which is not in the source", g.Path))
			continue
		}
		if seen[g.PathHex] {
			add("listing/duplicate-node", fmt.Sprintf("archive has %q twice", g.Path))
			continue
		}
		seen[g.PathHex] = true
		if g.Type != w.Type {
			add("listing/type", fmt.Sprintf("%q: archive says %s, source is %s", g.Path, g.Type, w.Type))
			continue
		}
		if g.Type != "symlink" && g.Mode != w.Mode { // casync stores 0777 for symlinks; the link's own mode is meaningless on Linux
			add("listing/mode", fmt.Sprintf("%q: mode %o, source %o", g.Path, g.Mode, w.Mode))
		}
		if g.UID != w.UID || g.GID != w.GID {
			add("listing/owner", fmt.Sprintf("%q: uid/gid %d/%d, source %d/%d", g.Path, g.UID, g.GID, w.UID, w.GID))
		}
		if g.Mtime != w.Mtime {
			add("listing/mtime", fmt.Sprintf("%q: mtime %d, source %d", g.Path, g.Mtime, w.Mtime))
		}
		switch g.Type {
		case "file":
			if g.Size == nil || *g.Size != w.Size || g.Sha256 != w.Sha256 {
				add("listing/content", fmt.Sprintf("%q: payload differs from the file (size %v vs %d)", g.Path, g.Size, w.Size))
			}
		case "symlink":
			if g.Target == nil || *g.Target != w.Target {
				add("listing/symlink-target", fmt.Sprintf("%q: target differs", g.Path))
			}
		case "char", "block":
			if g.Major == nil || *g.Major != w.Major || *g.Minor != w.Minor {
				add("listing/device", fmt.Sprintf("%q: device %v:%v, source %d:%d", g.Path, *g.Major, *g.Minor, w.Major, w.Minor))
			}
		case "dir":
			if g.Entries != nil && *g.Entries != w.Kids {
				add("listing/dir-entries", fmt.Sprintf("%q: %d entries, source has %d", g.Path, *g.Entries, w.Kids))
			}
		}
		// xattrs
		nulOnly := true
		diff := ""
		for k, v := range w.Xattrs {
			gv, ok := g.Xattrs[k]
			if !ok {
				diff, nulOnly = fmt.Sprintf("%q: xattr %s missing", g.Path, c13unhex(k)), false
				break
			}
			if gv != v {
				diff = fmt.Sprintf("%q: xattr %s value %s, source %s", g.Path, c13unhex(k), gv, v)
				if gv != v+"00" {
					nulOnly = false
					break
				}
			}
		}
		if diff == "" && len(g.Xattrs) != len(w.Xattrs) {
			diff, nulOnly = fmt.Sprintf("%q: %d xattrs, source has %d", g.Path, len(g.Xattrs), len(w.Xattrs)), false
		}
		if diff != "" {
			if nulOnly {
				add("xattr/value-trailing-nul", diff+" (the stored value is the source value followed by a NUL byte)")
			} else {
				add("listing/xattrs", diff)
			}
		}
	}
	for _, p := range order {
		if !seen[p] {
			add("listing/missing-node", fmt.Sprintf("source node %q (%s) is not in the archive", c13unhexPath(p), want[p].Type))
		}
	}
	return res
}

func c13unhex(h string) string { b, _ := hex.DecodeString(h); return strconv.Quote(string(b)) }
func c13unhexPath(p string) string {
	if p == "" {
		return "."
	}
	var out []string
	for _, c := range strings.Split(p, "/") {
		b, _ := hex.DecodeString(c)
		out = append(out, string(b))
	}
	return strings.Join(out, "/")
}

func c13Validate(catar string, extra ...string) (*c13PyOut, int, error) {
	script := filepath.Join(os.Getenv("VH_VERIF"), "harness", "pyval", "catar.py")
	if os.Getenv("VH_VERIF") == "" {
		script = "/verif/harness/pyval/catar.py"
	}
	ctx, cancel := context.WithTimeout(context.Background(), 120*time.Second)
	defer cancel()
	cmd := exec.CommandContext(ctx, "python3", append(append([]string{script}, extra...), catar)...)
	var stdout, stderr bytes.Buffer
	cmd.Stdout = &stdout
	cmd.Stderr = &stderr
	err := cmd.Run()
	rc := 0
	if err != nil {
		ee, ok := err.(*exec.ExitError)
		if !ok {
			return nil, -1, err
		}
		rc = ee.ExitCode()
	}
	if rc != 0 && rc != 1 {
		return nil, rc, fmt.Errorf("validator exit %d: %s", rc, stderr.String())
	}
	var out c13PyOut
	if err := json.Unmarshal(stdout.Bytes(), &out); err != nil {
		return nil, rc, fmt.Errorf("validator output: %v", err)
	}
	if out.OK != (rc == 0) {
		return nil, rc, fmt.Errorf("validator exit status %d contradicts ok=%v", rc, out.OK)
	}
	return &out, rc, nil
}

func c13RunCLI(args ...string) (int, string) {
	bin := os.Getenv("VH_DESYNC")
	if bin == "" {
		bin = "/verif/harness/bin/desync"
	}
	ctx, cancel := context.WithTimeout(context.Background(), 300*time.Second)
	defer cancel()
	cmd := exec.CommandContext(ctx, bin, args...)
	var stderr bytes.Buffer
	cmd.Stderr = &stderr
	err := cmd.Run()
	if err == nil {
		return 0, stderr.String()
	}
	if ee, ok := err.(*exec.ExitError); ok {
		return ee.ExitCode(), stderr.String()
	}
	return -1, err.Error()
}

func c13LibTar(dir string) (b []byte, err error) {
	defer func() {
		if e := recover(); e != nil {
			err = fmt.Errorf("panic: %v", e)
		}
	}()
	var buf bytes.Buffer
	err = desync.Tar(context.Background(), &buf, desync.NewLocalFS(dir, desync.LocalFSOptions{}))
	return buf.Bytes(), err
}

// c13BuildTar writes the nodes as a PAX tar stream: directories before their content, children
// in byte order (sorted) or in generation order (a stream as tar tools produce it: readdir order).
func c13BuildTar(nodes []c13Node, sorted bool) ([]byte, []int, error) {
	return c13BuildTarOpt(nodes, sorted, false)
}

// rootless: the members of the root directory only, named without a leading "./" (a stream as
// `tar c *` writes it; meant for --tar-add-root)
// c13TarExtraRoots, when set, is asked before the k-th member (k = 0, 1, ..) and once more with
// k = -1 after the last one for names of additional ROOT members ("./", ".", "./.") to write at
// that point of the stream.
var c13TarExtraRoots func(k int) []string

// deferIdx (optional): a non-directory node whose member is written at the END of the stream
// instead of inside its directory (a stream that is not grouped by directory: `tar -r`).
func c13BuildTarOpt(nodes []c13Node, sorted, rootless bool, deferIdx ...int) ([]byte, []int, error) {
	var emitted []int
	members := 0
	deferred := -1
	if len(deferIdx) > 0 {
		deferred = deferIdx[0]
	}
	inDeferred := false
	kids := map[string][]int{}
	for i := range nodes {
		if len(nodes[i].Path) == 0 {
			continue
		}
		parent := strings.Join(nodes[i].Path[:len(nodes[i].Path)-1], "/")
		kids[parent] = append(kids[parent], i)
	}
	var buf bytes.Buffer
	tw := tar.NewWriter(&buf)
	var emit func(i int) error
	emit = func(i int) error {
		n := &nodes[i]
		if i == deferred && !inDeferred && n.Type != "dir" {
			return nil // written after everything else
		}
		emitted = append(emitted, i)
		name := "./" + c13unhexRaw(n.Path)
		if rootless {
			name = c13unhexRaw(n.Path)
		}
		skipHeader := rootless && i == 0
		h := &tar.Header{Name: name, Uid: n.UID, Gid: n.GID, Mode: int64(n.Mode), ModTime: time.Unix(0, n.Mtime), Format: tar.FormatPAX}
		if len(n.Xattrs) > 0 {
			h.PAXRecords = map[string]string{}
			for k, v := range n.Xattrs {
				kb, _ := hex.DecodeString(k)
				vb, _ := hex.DecodeString(v)
				if len(vb) == 0 {
					continue
				}
				h.PAXRecords["SCHILY.xattr."+string(kb)] = string(vb)
			}
		}
		switch n.Type {
		case "dir":
			h.Typeflag = tar.TypeDir
			h.Name += "/"
		case "file":
			h.Typeflag = tar.TypeReg
			h.Size = int64(len(c13Content(n)))
		case "symlink":
			h.Typeflag = tar.TypeSymlink
			t, _ := hex.DecodeString(n.Target)
			h.Linkname = string(t)
		case "char":
			h.Typeflag = tar.TypeChar
			h.Devmajor, h.Devminor = int64(n.Major), int64(n.Minor)
		case "block":
			h.Typeflag = tar.TypeBlock
			h.Devmajor, h.Devminor = int64(n.Major), int64(n.Minor)
		case "fifo":
			h.Typeflag = tar.TypeFifo
		}
		if c13TarExtraRoots != nil && !skipHeader {
			for _, rn := range c13TarExtraRoots(members) {
				if err := tw.WriteHeader(&tar.Header{Name: rn, Typeflag: tar.TypeDir, Mode: 0700, Uid: 7, Gid: 7, ModTime: time.Unix(1500000000, 0), Format: tar.FormatPAX}); err != nil {
					return err
				}
			}
		}
		if skipHeader {
			// the root itself is not a member of the stream
		} else if err := tw.WriteHeader(h); err != nil {
			return err
		} else {
			members++
		}
		if n.Type == "file" && !skipHeader {
			if _, err := tw.Write(c13Content(n)); err != nil {
				return err
			}
		}
		if n.Type == "dir" {
			ks := append([]int{}, kids[strings.Join(n.Path, "/")]...)
			if sorted {
				sort.Slice(ks, func(a, b int) bool {
					return c13unhexRaw(nodes[ks[a]].Path[len(nodes[ks[a]].Path)-1:]) < c13unhexRaw(nodes[ks[b]].Path[len(nodes[ks[b]].Path)-1:])
				})
			}
			for _, k := range ks {
				if err := emit(k); err != nil {
					return err
				}
			}
		}
		return nil
	}
	if err := emit(0); err != nil {
		return nil, nil, err
	}
	if deferred > 0 && nodes[deferred].Type != "dir" {
		inDeferred = true
		if err := emit(deferred); err != nil {
			return nil, nil, err
		}
	}
	if c13TarExtraRoots != nil {
		for _, rn := range c13TarExtraRoots(-1) {
			if err := tw.WriteHeader(&tar.Header{Name: rn, Typeflag: tar.TypeDir, Mode: 0700, Uid: 7, Gid: 7, ModTime: time.Unix(1500000000, 0), Format: tar.FormatPAX}); err != nil {
				return nil, nil, err
			}
		}
	}
	if err := tw.Close(); err != nil {
		return nil, nil, err
	}
	return buf.Bytes(), emitted, nil
}

func c13unhexRaw(p []string) string {
	var out []string
	for _, c := range p {
		b, _ := hex.DecodeString(c)
		out = append(out, string(b))
	}
	return strings.Join(out, "/")
}

func c13HasUnsortedKids(nodes []c13Node) bool {
	last := map[string]string{}
	for i := range nodes {
		if len(nodes[i].Path) == 0 {
			continue
		}
		parent := strings.Join(nodes[i].Path[:len(nodes[i].Path)-1], "/")
		name := c13unhexRaw(nodes[i].Path[len(nodes[i].Path)-1:])
		if l, ok := last[parent]; ok && !(l < name) {
			return true
		}
		last[parent] = name
	}
	return false
}

// c13WithoutSkipped: the expectation without the FIFOs and sockets tar() skips.
func c13WithoutSkipped(want map[string]*c13Want, order []string) (map[string]*c13Want, []string) {
	out := map[string]*c13Want{}
	for p, w := range want {
		cp := *w
		out[p] = &cp
	}
	var kept []string
	for _, p := range order {
		w := out[p]
		if w.Type == "fifo" || w.Type == "socket" {
			parent := ""
			if i := strings.LastIndex(p, "/"); i >= 0 {
				parent = p[:i]
			}
			if pw, ok := out[parent]; ok && p != "" {
				pw.Kids--
			}
			continue
		}
		kept = append(kept, p)
	}
	return out, kept
}

// c13Judge turns validator output + listing comparison into failures.
func c13Judge(r *vh.Result, c *c13Case, out *c13PyOut, want map[string]*c13Want, order []string, what string) {
	// FIFOs and sockets are skipped by tar(): they are expected to be absent from the archive
	special := map[string]string{}
	for p, w := range want {
		if w.Type == "fifo" || w.Type == "socket" {
			special[p] = w.Type
		}
	}
	want, order = c13WithoutSkipped(want, order)
	if !out.OK {
		c.Errors = out.Errors
		if len(c.Errors) > 8 {
			c.Errors = c.Errors[:8]
		}
		first := out.Errors[0]
		switch {
		case first.Class == "order/entry-expected" && special[first.PathHex] != "":
			r.Fail("predicate", "tar/unsupported-node-dangling-filename", fmt.Sprintf("%s: a %s in the source leaves a FILENAME element without an entry in the archive (%s at offset %d)", what, special[first.PathHex], first.Msg, first.Offset), c13Slim(c))
			return
		default:
			r.Fail("predicate", "archive/"+first.Class, fmt.Sprintf("%s: validator rejects the archive: %s (%s, offset %d)", what, first.Msg, first.Path, first.Offset), c13Slim(c))
			return
		}
	}
	reported := map[string]bool{}
	for _, m := range c13Compare(want, order, out.Nodes) {
		cls, d := m[0], m[1]
		if reported[cls] {
			continue
		}
		reported[cls] = true
		e := *c
		e.Detail = d
		r.Fail("predicate", cls, what+": "+d, &e)
	}
}

// big trees make big replay files: keep the spec (it regenerates content from seeds)
func c13Slim(c *c13Case) *c13Case { d := *c; return &d }

func c13CheckArchive(a vh.Args, o *vh.Oracle, r *vh.Result, c *c13Case, id int) error {
	work := filepath.Join(a.Work, fmt.Sprintf("arch%d", id))
	if err := os.MkdirAll(work, 0755); err != nil {
		return err
	}
	defer func() {
		// directories may have mode 0: root can still remove them
		os.RemoveAll(work)
	}()
	ndirs, maxfan := 0, 0
	fan := map[string]int{}
	for i := range c.Nodes {
		if c.Nodes[i].Type == "dir" {
			ndirs++
		}
		if len(c.Nodes[i].Path) > 0 {
			p := strings.Join(c.Nodes[i].Path[:len(c.Nodes[i].Path)-1], "/")
			fan[p]++
			if fan[p] > maxfan {
				maxfan = fan[p]
			}
		}
	}
	r.Count(fmt.Sprintf("archive|%s|%d|%d|%d", c.Source, len(c.Nodes), ndirs, maxfan), maxfan >= 2)
	r.Dist("source:" + c.Source)
	r.Dist("max-fanout:" + bucket(maxfan))
	r.Dist("nodes:" + bucket(len(c.Nodes)))
	r.Sample(map[string]interface{}{"source": c.Source, "nodes": len(c.Nodes), "dirs": ndirs, "max_fanout": maxfan})

	catar := filepath.Join(work, "out.catar")
	switch c.Source {
	case "disk":
		tree := filepath.Join(work, "tree")
		if err := c13Materialize(tree, c.Nodes); err != nil {
			return err
		}
		want, order, err := c13Snapshot(tree)
		if err != nil {
			return err
		}
		rc, stderr := c13RunCLI("tar", catar, tree)
		if rc != 0 {
			r.Fail("predicate", "tar/cli-error", fmt.Sprintf("desync tar exits %d: %s", rc, c13Trunc(stderr)), c13Slim(c))
			return nil
		}
		cli, err := os.ReadFile(catar)
		if err != nil {
			return err
		}
		lib, err := c13LibTar(tree)
		if err != nil {
			r.Fail("predicate", "tar/lib-error", fmt.Sprintf("desync.Tar: %v", err), c13Slim(c))
			return nil
		}
		r.Corr()
		if !bytes.Equal(cli, lib) {
			r.Fail("corr", "corr:C13/cli-vs-library", fmt.Sprintf("`desync tar` and desync.Tar(NewLocalFS) wrote different archives (%d vs %d bytes)", len(cli), len(lib)), c13Slim(c))
		}
		out, _, err := c13Validate(catar)
		if err != nil {
			return err
		}
		c13Judge(r, c, out, want, order, "disk source")
		spec, err := c13SpecFromSnapshot(tree, want, order)
		if err != nil {
			return err
		}
		// the extracted reader and tar() model cost about 3 ms per node: in the quick tier only for
		// small and medium trees and one big one
		if a.Tier == "thorough" || len(c.Nodes) <= 180 || id == 2 {
			if err := c13ModelArchive(o, r, c, work, catar, out, spec); err != nil {
				return err
			}
		}
		// other spellings of the source directory (small and medium trees; the CLI for some)
		if len(c.Nodes) <= 400 && os.Getenv("VH_DESYNC") != "" {
			swant, sorder := c13WithoutSkipped(want, order)
			if err := c13CheckRootSpellings(o, filepath.Join(work, "tree.spec"), r, c, work, tree, cli, swant, sorder, id%3 == 0 || len(c.Nodes) <= 20); err != nil {
				return err
			}
		}
	case "tar-sorted", "tar-unsorted":
		tb, emitted, err := c13BuildTar(c.Nodes, c.Source == "tar-sorted")
		if err != nil {
			return err
		}
		tf := filepath.Join(work, "in.tar")
		if err := os.WriteFile(tf, tb, 0644); err != nil {
			return err
		}
		rc, stderr := c13RunCLI("tar", "--input-format", "tar", catar, tf)
		if rc != 0 {
			r.Fail("predicate", "tar/cli-error", fmt.Sprintf("desync tar --input-format tar exits %d: %s", rc, c13Trunc(stderr)), c13Slim(c))
			return nil
		}
		want, order := c13WantFromNodes(c.Nodes)
		out, _, err := c13Validate(catar, "--unsorted-ok") // name order is a rule for the disk source only
		if err != nil {
			return err
		}
		c13Judge(r, c, out, want, order, "tar-stream source ("+c.Source+")")
		if err := c13ModelArchive(o, r, c, work, catar, out, c13SpecFromNodes(c.Nodes, emitted)); err != nil {
			return err
		}
	default:
		return fmt.Errorf("unknown source %q", c.Source)
	}
	return nil
}

// ---- the extracted models on whole archives

type c13SpecNode struct {
	depth  int
	typ    string
	perm   uint32
	uid    uint64
	gid    uint64
	mtime  uint64
	name   []byte
	extra  string
	xattrs map[string]string
}

func c13SpecFromSnapshot(tree string, want map[string]*c13Want, order []string) ([]c13SpecNode, error) {
	var out []c13SpecNode
	for _, p := range order {
		w := want[p]
		var comps []string
		if p != "" {
			comps = strings.Split(p, "/")
		}
		sn := c13SpecNode{depth: len(comps), typ: w.Type, perm: w.Mode, uid: w.UID, gid: w.GID, mtime: w.Mtime, xattrs: w.Xattrs, extra: "-"}
		if len(comps) > 0 {
			sn.name, _ = hex.DecodeString(comps[len(comps)-1])
		}
		switch w.Type {
		case "file":
			b, err := os.ReadFile(c13FsPath(tree, comps))
			if err != nil {
				return nil, err
			}
			sn.extra = vh.Hex(b)
		case "symlink":
			sn.extra = w.Target
			if sn.extra == "" {
				sn.extra = "-"
			}
		case "char", "block":
			sn.extra = fmt.Sprintf("%d:%d", w.Major, w.Minor)
		}
		out = append(out, sn)
	}
	return out, nil
}

func c13SpecFromNodes(nodes []c13Node, emitted []int) []c13SpecNode {
	var out []c13SpecNode
	for _, i := range emitted {
		n := &nodes[i]
		sn := c13SpecNode{depth: len(n.Path), typ: n.Type, perm: n.Mode, uid: uint64(n.UID), gid: uint64(n.GID), mtime: uint64(n.Mtime), xattrs: map[string]string{}, extra: "-"}
		for k, v := range n.Xattrs {
			if v != "" {
				sn.xattrs[k] = v
			}
		}
		if len(n.Path) > 0 {
			sn.name, _ = hex.DecodeString(n.Path[len(n.Path)-1])
		}
		switch n.Type {
		case "file":
			sn.extra = vh.Hex(c13Content(n))
		case "symlink":
			sn.extra = n.Target
		case "char", "block":
			sn.extra = fmt.Sprintf("%d:%d", n.Major, n.Minor)
		}
		out = append(out, sn)
	}
	return out
}

func c13WriteSpec(path string, spec []c13SpecNode) error {
	var sb strings.Builder
	for _, n := range spec {
		xs := "-"
		if len(n.xattrs) > 0 {
			var kv []string
			for k, v := range n.xattrs {
				if v == "" {
					v = "-"
				}
				kv = append(kv, k+"="+v)
			}
			sort.Strings(kv) // any order: the model sorts, as tar.go does with the map keys
			xs = strings.Join(kv, ",")
		}
		fmt.Fprintf(&sb, "%d %s %d %d %d %d %s %s %s\n", n.depth, n.typ, n.perm, n.uid, n.gid, n.mtime, vh.Hex(n.name), n.extra, xs)
	}
	return os.WriteFile(path, []byte(sb.String()), 0644)
}

// c13ParseListing turns the oracle's listing into validator nodes.
func c13ParseListing(s string) ([]c13PyNode, error) {
	var out []c13PyNode
	for _, ns := range strings.Split(s, ";") {
		f := strings.Split(ns, "|")
		if len(f) != 8 {
			return nil, fmt.Errorf("bad listing node %q", ns)
		}
		n := c13PyNode{PathHex: f[0], Type: f[1], Xattrs: map[string]string{}}
		if n.PathHex == "." {
			n.PathHex = ""
		}
		perm, _ := strconv.ParseUint(f[2], 10, 32)
		n.Mode = uint32(perm)
		n.UID, _ = strconv.ParseUint(f[3], 10, 64)
		n.GID, _ = strconv.ParseUint(f[4], 10, 64)
		n.Mtime, _ = strconv.ParseUint(f[5], 10, 64)
		switch n.Type {
		case "dir":
			k, _ := strconv.Atoi(strings.TrimPrefix(f[6], "n"))
			n.Entries = &k
		case "file":
			p := strings.SplitN(f[6], ":", 2)
			sz, _ := strconv.ParseInt(p[0], 10, 64)
			n.Size = &sz
			n.Sha256 = p[1]
		case "symlink":
			t := f[6]
			if t == "-" {
				t = ""
			}
			n.Target = &t
		case "char", "block":
			p := strings.SplitN(f[6], ":", 2)
			ma, _ := strconv.ParseUint(p[0], 10, 64)
			mi, _ := strconv.ParseUint(p[1], 10, 64)
			n.Major, n.Minor = &ma, &mi
		}
		if f[7] != "-" {
			for _, kv := range strings.Split(f[7], ",") {
				p := strings.SplitN(kv, "=", 2)
				v := p[1]
				if v == "-" {
					v = ""
				}
				n.Xattrs[p[0]] = v
			}
		}
		out = append(out, n)
	}
	return out, nil
}

func c13NodeKey(n *c13PyNode) string {
	s := fmt.Sprintf("%s|%s|%o|%d|%d|%d|", n.PathHex, n.Type, n.Mode, n.UID, n.GID, n.Mtime)
	if n.Size != nil {
		s += fmt.Sprintf("size=%d sha=%s", *n.Size, n.Sha256)
	}
	if n.Target != nil {
		s += "target=" + *n.Target
	}
	if n.Major != nil {
		s += fmt.Sprintf("dev=%d:%d", *n.Major, *n.Minor)
	}
	if n.Entries != nil {
		s += fmt.Sprintf("entries=%d", *n.Entries)
	}
	ks := make([]string, 0, len(n.Xattrs))
	for k, v := range n.Xattrs {
		ks = append(ks, k+"="+v)
	}
	sort.Strings(ks)
	return s + "|" + strings.Join(ks, ",")
}

// c13ModelArchive runs the extracted format-rule reader on the archive (verdict and listing must
// agree with the python validator) and the extracted tar() model on the source tree (its bytes
// must be the implementation's bytes).
func c13ModelArchive(o *vh.Oracle, r *vh.Result, c *c13Case, work, catar string, py *c13PyOut, spec []c13SpecNode) error {
	if o == nil {
		return nil
	}
	ord := "1"
	if strings.HasPrefix(c.Source, "tar-") {
		ord = "0"
	}
	ans := "SKIPPED"
	if c.Source == "tar-longnames" {
		// names beyond 255 bytes: the extracted reader keeps casync's NAME_MAX rule; only the tar() model is compared
		ans = map[bool]string{true: "OK skipped", false: "REJECT"}[py.OK]
	} else {
		var err error
		ans, err = o.Call("c13.validate", ord, catar)
		if err != nil {
			return err
		}
		r.Corr()
	}
	ok := strings.HasPrefix(ans, "OK ")
	if ok != py.OK {
		d := *c
		d.Detail = fmt.Sprintf("extracted reader: %s, python validator ok=%v", c13Trunc(ans), py.OK)
		r.Fail("corr", "corr:C13/validate-verdict", "the extracted format-rule reader and the python validator disagree on an archive", &d)
	} else if ok && c.Source != "tar-longnames" {
		nodes, err := c13ParseListing(strings.TrimPrefix(ans, "OK "))
		if err != nil {
			return err
		}
		r.Corr()
		bad := ""
		if len(nodes) != len(py.Nodes) {
			bad = fmt.Sprintf("%d nodes vs %d", len(nodes), len(py.Nodes))
		} else {
			for i := range nodes {
				if a, b := c13NodeKey(&nodes[i]), c13NodeKey(&py.Nodes[i]); a != b {
					bad = "extracted: " + c13Trunc(a) + " python: " + c13Trunc(b)
					break
				}
			}
		}
		if bad != "" {
			d := *c
			d.Detail = bad
			r.Fail("corr", "corr:C13/validate-listing", "the extracted reader and the python validator read different trees from an archive", &d)
		}
	}
	if spec != nil {
		sf := filepath.Join(work, "tree.spec")
		if err := c13WriteSpec(sf, spec); err != nil {
			return err
		}
		ans, err := o.Call("c13.tar", sf)
		if err != nil {
			return err
		}
		b, err := os.ReadFile(catar)
		if err != nil {
			return err
		}
		sum := sha256.Sum256(b)
		r.Corr()
		if want := fmt.Sprintf("%d %s", len(b), hex.EncodeToString(sum[:])); ans != want {
			d := *c
			d.Detail = "model: " + ans + " implementation: " + want
			r.Fail("corr", "corr:C13/tar-bytes", "the tar() model and desync tar write different archives for the same tree", &d)
		}
	}
	return nil
}

// ---------------------------------------------------------------- driver

func runC13(a vh.Args, o *vh.Oracle, r *vh.Result) error {
	r.Rule = "cases: (bst) item list of length n -> makeGoodbyeBST, every n in the tier's range, hashes random/duplicated/constant/monotone, non-trivial = n>=2, distinct by (n, hash shape); (sip) name -> SipHash; (archive) random tree (depth<=5, fan-out 0..300 quick / 0..5000 thorough, names over arbitrary bytes, files 0..64k, symlinks, devices, xattrs) packed from disk by the CLI and the library, or from a tar stream, then checked by the independent validator and compared with the source; non-trivial = some directory has >=2 entries, distinct by (source, nodes, dirs, max fan-out); (fault) small tree, source, fault kind (target full from byte k / one failed write at byte k), k: every k in the last 24*(fan-out+2)+64 bytes, every k for the tar-stream source, goodbye tables + a stride for the disk source, the CLI under a file size limit; Tar()==nil obliges the accepted bytes to validate and list the whole tree; non-trivial = k < archive length, distinct by (source, kind, k, length)"
	if a.Replay != "" {
		var c c13Case
		if err := readJSON(a.Replay, &c); err != nil {
			return err
		}
		switch c.Kind {
		case "bst":
			return c13CheckBST(o, r, &c, "replay", true)
		case "height":
			return c13CheckHeight(o, r, c.N)
		case "sip":
			return c13CheckSip(o, r, vh.UnHex(c.NameHex))
		case "archive":
			return c13CheckArchive(a, o, r, &c, 0)
		case "stream":
			return c13CheckStream(a, o, r, &c, 0)
		case "fanout":
			return c13CheckFanout(a, r, &c, 0)
		case "deep":
			return c13CheckDeep(a, r, &c, 0)
		case "stdout":
			return c13CheckStdout(a, r, &c, 0)
		case "fault":
			mode := c.Mode
			if mode == "cli-fsize" {
				mode = "enospc"
			}
			return c13CheckFault(a, o, r, &c, 0, []int{c.Cap}, []string{mode}, false)
		}
		return fmt.Errorf("unknown case kind %q", c.Kind)
	}
	rng := vh.NewRand(a.Seed)
	thorough := a.Tier == "thorough"
	if !thorough {
		c13Budget = 150
	}
	t0 := time.Now()

	// ---- bst: every n
	var ns []int
	if thorough {
		for n := 0; n <= 5000; n++ {
			ns = append(ns, n)
		}
	} else {
		for n := 0; n <= 300; n++ {
			ns = append(ns, n)
		}
		for n := 301 + rng.Intn(97); n <= 5000; n += 97 {
			ns = append(ns, n)
		}
		for k := 9; k <= 12; k++ {
			ns = append(ns, 1<<k-1, 1<<k, 1<<k+1, 1<<k+1<<(k-1)-2, 1<<k+1<<(k-1)-1, 1<<k+1<<(k-1))
		}
		ns = append(ns, 5000)
	}
	for _, n := range ns {
		items, shape := c13GenItems(rng, n)
		if err := c13CheckBST(o, r, &c13Case{Kind: "bst", Items: items}, shape, true); err != nil {
			return err
		}
		if n <= 40 { // small n: several shapes each
			for k := 0; k < 3; k++ {
				items, shape := c13GenItems(rng, n)
				if err := c13CheckBST(o, r, &c13Case{Kind: "bst", Items: items}, shape, true); err != nil {
					return err
				}
			}
		}
	}
	r.Note("bst correspondence done after %.1fs", time.Since(t0).Seconds())
	// large tables: implementation + predicate only (the list model is quadratic)
	maxk := 16
	if thorough {
		maxk = 20
	}
	for k := 13; k <= maxk; k++ {
		for _, n := range []int{1<<k - 1, 1 << k, 1<<k + 1, 1<<k + 1<<(k-1) - 1, 1<<k + 1<<(k-1)} {
			items, shape := c13GenItems(rng, n)
			if err := c13CheckBST(nil, r, &c13Case{Kind: "bst", Items: items}, shape, false); err != nil {
				return err
			}
		}
	}
	r.Note("large tables done after %.1fs", time.Since(t0).Seconds())
	// ---- height expression vs bit length
	if o != nil {
		for n := uint64(1); n <= 5000; n++ {
			if !thorough && n > 600 && n%7 != 0 {
				continue
			}
			if err := c13CheckHeight(o, r, n); err != nil {
				return err
			}
		}
		for k := uint(1); k <= 40; k++ {
			for _, n := range []uint64{1<<k - 1, 1 << k, 1<<k + 1} {
				if err := c13CheckHeight(o, r, n); err != nil {
					return err
				}
			}
		}
	}
	// ---- siphash
	if o != nil {
		nsip := 300
		if thorough {
			nsip = 5000
		}
		for i := 0; i < nsip; i++ {
			var name []byte
			switch {
			case i < 70:
				name = rng.Bytes(i) // every length around the 8-byte block structure
			case rng.Chance(1, 10):
				name = rng.Bytes(250 + rng.Intn(600))
			default:
				name = c13Name(rng)
			}
			if err := c13CheckSip(o, r, name); err != nil {
				return err
			}
		}
	}
	r.Note("height+sip done after %.1fs", time.Since(t0).Seconds())
	// ---- archives
	ndisk, ntar := 20, 10
	big := 300
	if thorough {
		ndisk, ntar, big = 90, 30, 5000
	}
	id := 0
	for i := 0; i < ndisk; i++ {
		bd := 0
		switch {
		case i == 1:
			bd = big
		case i%6 == 2 && i < 30:
			bd = 1 + rng.Intn(big) // a few anywhere up to the tier's maximum
		case i%6 == 2:
			bd = 1 + rng.Intn(600)
		case i%6 == 4:
			bd = []int{2, 3, 4, 5, 6, 7, 8, 9, 10, 11, 12, 13, 15, 16, 17, 31, 32, 33, 47, 48, 63, 64, 65, 95, 96, 127, 128}[rng.Intn(27)]
		}
		special := i%5 == 3
		nodes := c13GenTree(rng.Fork(), bd, special, i%2 == 0)
		id++
		if err := c13CheckArchive(a, o, r, &c13Case{Kind: "archive", Source: "disk", Nodes: nodes}, id); err != nil {
			return err
		}
	}
	for i := 0; i < ntar; i++ {
		bd := 0
		if i%4 == 1 {
			bd = 1 + rng.Intn(600)
			if i == 1 {
				bd = 1 + rng.Intn(big)
			}
		}
		nodes := c13GenTree(rng.Fork(), bd, false, i%3 == 0)
		src := "tar-sorted"
		if i%2 == 1 {
			src = "tar-unsorted"
			if !c13HasUnsortedKids(nodes) {
				src = "tar-sorted"
			}
		}
		id++
		if err := c13CheckArchive(a, o, r, &c13Case{Kind: "archive", Source: src, Nodes: nodes}, id); err != nil {
			return err
		}
	}
	if err := c13RunStreams(a, o, r, rng.Fork(), thorough); err != nil {
		return err
	}
	if err := c13RunSourceCases(a, r, rng.Fork(), thorough); err != nil {
		return err
	}
	r.Note("streams, source faults, stdout done after %.1fs", time.Since(t0).Seconds())
	if err := c13RunFanouts(a, r, rng.Fork(), thorough); err != nil {
		return err
	}
	r.Note("archives done after %.1fs", time.Since(t0).Seconds())
	// ---- write faults: success must mean a complete, well-formed archive
	if err := c13RunFaults(a, o, r, rng.Fork(), thorough); err != nil {
		return err
	}
	r.Note("faults done after %.1fs", time.Since(t0).Seconds())
	// the casync-made fixtures of the repository must validate (checks the validator against casync)
	repo := os.Getenv("VH_REPO")
	if repo == "" {
		repo = "/repo"
	}
	for _, f := range []string{"flat", "nested", "complex", "flatdir"} {
		out, _, err := c13Validate(filepath.Join(repo, "testdata", f+".catar"))
		if err != nil {
			return err
		}
		if !out.OK {
			r.Note("validator rejects the casync-made fixture %s.catar: %v", f, out.Errors[0])
			r.Fail("harness", "validator-vs-casync-fixture", "the independent validator rejects testdata/"+f+".catar", nil)
		}
	}
	return nil
}
