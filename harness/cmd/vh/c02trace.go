package main

import (
	"context"
	"fmt"
	"os"
	"path/filepath"
	"runtime"
	"strings"
	"sync"
	"time"

	"github.com/folbricht/desync"

	"vh/internal/vh"
)

// c02Trace: trace validation of IndexFromFile against Model/PChunker.v.  The verif build of
// make.go brackets every non-blocking channel operation of the workers (send to the own bucket,
// the receives inside syncWith, the neighbour-skip test, close(done)) between
// verifAtomicBegin/verifAtomicEnd; the harness holds one global lock between the two, so the
// recorded order is the order in which the operations took effect.  The collector's blocking
// receives are recorded right after they return (only the owner of the bucket sends into it and
// no worker receives from a bucket the collector has reached, so that order is faithful too).
// The event sequence is replayed on the model by the extracted Coq function
// PChunkerTrace.replay: the model must be able to take, for every event, a step with the same
// visible effect (same chunk sent / received, same bucket found empty, same skip decision, ...),
// and the index it has collected at the end must be the one IndexFromFile returned.

type c02TraceEv struct {
	begun   bool
	ev      string
	a, b, c uint64
	gid     int64
}

// c02Quiesce waits until the worker goroutines of earlier IndexFromFile calls are gone.
// IndexFromFile returns as soon as its collector has the whole index; workers that were stopped
// only notice at their next loop iteration, so they can outlive the call and would report their
// last events (a send, their exit) into the trace of the NEXT run.
var c02BaseGoroutines int

func c02Quiesce(r *vh.Result) {
	// wait until the goroutine count has not changed for 3 ms (stopped workers leave within microseconds
	// once the scheduling hook is gone), at most 300 ms
	deadline := time.Now().Add(300 * time.Millisecond)
	last, since := runtime.NumGoroutine(), time.Now()
	for {
		time.Sleep(300 * time.Microsecond)
		n := runtime.NumGoroutine()
		if n != last {
			last, since = n, time.Now()
		}
		if n <= c02BaseGoroutines || time.Since(since) > 3*time.Millisecond {
			return
		}
		if time.Now().After(deadline) {
			r.Dist("trace:quiesce-timeout")
			return
		}
	}
}

func c02TraceOne(a vh.Args, o *vh.Oracle, r *vh.Result, c *c02Case) error {
	r.Running(c)
	c02Quiesce(r)
	blob := vh.UnHex(c.BlobHex)
	desync.Digest = desync.SHA512256{}
	name := filepath.Join(a.Work, "trace.blob")
	if err := os.WriteFile(name, blob, 0644); err != nil {
		return err
	}
	var (
		mu   sync.Mutex
		evs  []c02TraceEv
		held bool
	)
	desync.VerifTraceBegin = func() { mu.Lock(); held = true }
	desync.VerifTraceEnd = func(begun bool, ev string, x, y, z uint64) {
		if !begun {
			mu.Lock()
		}
		evs = append(evs, c02TraceEv{begun, ev, x, y, z, vh.Goid()})
		held = false
		mu.Unlock()
	}
	_ = held
	ch := vh.NewChaos(c.Sched, 6, 40*time.Microsecond)
	desync.VerifSetYieldHook(ch.Hook)
	ctx, cancel := context.WithTimeout(context.Background(), 20*time.Second)
	idx, _, err := desync.IndexFromFile(ctx, name, c.N, c.Min, c.Avg, c.Max, desync.NullProgressBar{})
	cancel()
	desync.VerifSetYieldHook(nil)
	desync.VerifTraceBegin, desync.VerifTraceEnd = nil, nil
	c02Quiesce(r)
	r.Count(fmt.Sprintf("trace|%d|%d|%d|%d|%s|%d|%d", c.Min, c.Avg, c.Max, c.N, c.BlobHex[:min(24, len(c.BlobHex))], len(blob), c.Sched), len(idx.Chunks) > 2 && c.N > 1)
	r.Dist("trace:blob:" + c.Shape)
	if err != nil {
		c.Got = "error: " + err.Error()
		r.Fail("predicate", "par/error", "IndexFromFile failed on a readable file: "+err.Error(), c)
		return nil
	}
	// the effective worker count and span, as IndexFromFile computes them
	size := uint64(len(blob))
	n := uint64(c.N)
	if nn := size/c.Max + 1; nn < n {
		n = nn
	}
	span := size / n
	worker := func(offset uint64) int {
		if span == 0 {
			return 0
		}
		return int(offset / span)
	}
	byGid := map[int64]int{}
	var parts []string
	kinds := map[string]int{}
loop:
	for _, e := range evs {
		switch e.ev {
		case "send":
			i := worker(e.a)
			byGid[e.gid] = i
			parts = append(parts, fmt.Sprintf("s:%d:%d:%d", i, e.b, e.c))
		case "skip":
			i := worker(e.a)
			byGid[e.gid] = i
			parts = append(parts, fmt.Sprintf("k:%d:%d", i, e.b))
			if e.b == 1 {
				kinds["skip-yes"]++
			}
		case "exit":
			i := worker(e.a)
			if _, seen := byGid[e.gid]; !seen {
				// close(done) by the worker's own goroutine before any other event of it (empty input)
				byGid[e.gid] = i
			}
			if byGid[e.gid] != i {
				continue // IndexFromFile's own deferred stop() calls: not a step of the protocol
			}
			parts = append(parts, fmt.Sprintf("x:%d", i))
		case "recv", "empty":
			i, ok := byGid[e.gid]
			if !ok {
				r.Fail("corr", "corr:C02/trace-harness", "a syncWith receive by a goroutine that has not sent anything yet", c)
				return nil
			}
			if e.ev == "recv" {
				parts = append(parts, fmt.Sprintf("r:%d:%d:%d:%d", i, worker(e.a), e.b, e.c))
			} else {
				parts = append(parts, fmt.Sprintf("e:%d:%d", i, worker(e.a)))
			}
		case "take":
			parts = append(parts, fmt.Sprintf("t:%d:%d:%d", worker(e.a), e.b, e.c))
		case "move":
			parts = append(parts, fmt.Sprintf("m:%d", worker(e.a)))
		case "stop":
			parts = append(parts, fmt.Sprintf("p:%d", worker(e.a)))
			kinds[e.ev]++
			break loop // the collector is done; what the remaining workers still do is not observed
		}
		kinds[e.ev]++
	}
	for k, v := range kinds {
		if v > 0 {
			r.Dist("trace:ev:" + k)
		}
	}
	r.Dist("trace:events:" + bucket(len(parts)))
	var got []string
	for _, ch := range idx.Chunks {
		got = append(got, fmt.Sprintf("%d:%d", ch.Start, ch.Size))
	}
	gotS := strings.Join(got, ",")
	if gotS == "" {
		gotS = "-"
	}
	if o == nil {
		return nil
	}
	evS := strings.Join(parts, ",")
	if evS == "" {
		evS = "-"
	}
	d := c02D(o, c.Avg)
	ans, err := o.Call("c02.ptrace", fmt.Sprint(c.N), u(c.Min), u(c.Max), u(uint64(d)), vh.Hex(blob), evS)
	if err != nil {
		return err
	}
	r.Corr()
	c.Got, c.Want = gotS, ans
	switch {
	case strings.HasPrefix(ans, "FAIL"):
		var pos int
		fmt.Sscanf(ans, "FAIL %d", &pos)
		lo, hi := pos-6, pos+2
		if lo < 0 {
			lo = 0
		}
		if hi > len(parts) {
			hi = len(parts)
		}
		c.Want = fmt.Sprintf("%s; events %d..%d: %s", ans, lo, hi-1, strings.Join(parts[lo:hi], ","))
		r.Fail("corr", "corr:C02/trace", "the model of IndexFromFile cannot follow the recorded channel-operation trace of this run", c)
	case ans != "ok 1 "+gotS:
		r.Fail("corr", "corr:C02/trace-index", "the model followed the trace but its collector state differs from the index IndexFromFile returned", c)
	}
	return nil
}

func c02Trace(a vh.Args, o *vh.Oracle, r *vh.Result, rng *vh.Rand, n int) error {
	for k := 0; k < n; k++ {
		mn := uint64(48 + rng.Intn(60))
		var av, mx uint64
		switch rng.Intn(5) {
		case 0:
			av, mx = mn, mn
		case 1:
			av, mx = mn, mn+uint64(rng.Intn(100))
		default:
			av = mn + uint64(rng.Intn(80))
			mx = av + uint64(rng.Intn(150))
		}
		nw := 1 + rng.Intn(12)
		var blob []byte
		shape := ""
		switch rng.Intn(5) {
		case 0, 1:
			// zero family: long zero stretches, spans of a few max
			size := int(mx)*(nw*(1+rng.Intn(4))/2+rng.Intn(3)) + rng.Intn(int(mx))
			if size > 7000 {
				size = 7000
			}
			blob = make([]byte, size)
			shape = "zero-family"
			switch rng.Intn(3) {
			case 0:
				copy(blob, rng.Bytes(rng.Intn(size/2+1)))
				shape = "zero-family-head"
			case 1:
				c02Islands(rng, blob, int(mx))
				shape = "zero-family-islands"
			}
		default:
			blob, shape = c02Blob(rng, mn, mx, nw)
			if len(blob) > 7000 {
				blob = blob[:7000]
			}
		}
		c := &c02Case{Kind: "trace", BlobHex: vh.Hex(blob), Min: mn, Avg: av, Max: mx, N: nw, Shape: shape, Sched: rng.U64() % 1000000}
		if err := c02TraceOne(a, o, r, c); err != nil {
			return err
		}
		if k < 2 {
			r.Sample(map[string]interface{}{"kind": "trace", "min": mn, "avg": av, "max": mx, "len": len(blob), "n": nw, "shape": shape})
		}
	}
	return nil
}

// c02DiscSweep compares discriminatorFromAvg with the exact-quotient model of casync's formula
// (Model/Discriminator.v) for every avg in 48..4096, every KiB multiple up to 8192 KiB and random
// values below 9,000,000 (the range in which float64 evaluation and exact quotient were compared
// exhaustively).  The discriminator is part of the rule: a difference is a property violation.
func c02DiscSweep(o *vh.Oracle, r *vh.Result, rng *vh.Rand, nrandom int) error {
	if o == nil {
		return nil
	}
	var avgs []uint64
	for a := uint64(48); a <= 4096; a++ {
		avgs = append(avgs, a)
	}
	for k := uint64(1); k <= 8192; k++ {
		avgs = append(avgs, k*1024)
	}
	for i := 0; i < nrandom; i++ {
		avgs = append(avgs, uint64(48+rng.Intn(8999000)))
	}
	const batch = 2000
	for i := 0; i < len(avgs); i += batch {
		j := i + batch
		if j > len(avgs) {
			j = len(avgs)
		}
		var parts []string
		for _, a := range avgs[i:j] {
			parts = append(parts, u(a))
		}
		ans, err := o.Call("c02.disc", strings.Join(parts, ","))
		if err != nil {
			return err
		}
		ds := strings.Split(ans, ",")
		if len(ds) != j-i {
			return fmt.Errorf("c02.disc: %d answers for %d values", len(ds), j-i)
		}
		for k, a := range avgs[i:j] {
			got := u(uint64(desync.VerifDiscriminator(a)))
			r.Corr()
			if got != ds[k] {
				r.Fail("predicate", "disc/differs-from-casync-formula",
					fmt.Sprintf("discriminatorFromAvg(%d) = %s, casync's formula gives %s", a, got, ds[k]),
					map[string]interface{}{"kind": "disc", "avg": a, "impl": got, "expected": ds[k]})
				return nil
			}
		}
	}
	r.Count("disc-sweep", true)
	r.Dist(fmt.Sprintf("disc:values~%d", len(avgs)/1000*1000))
	return nil
}
