package main

// Helpers shared by the C06 (bulk writes) and C07 (cancellation) harnesses:
// inputs with many duplicate chunks, instrumented stores (fault injection and
// cancellation points), read-back through a fresh verifying store.

import (
	"bytes"
	"context"
	"crypto/sha256"
	"encoding/hex"
	"errors"
	"fmt"
	"os"
	"path/filepath"
	"sync"
	"sync/atomic"
	"time"

	"github.com/folbricht/desync"

	"vh/internal/vh"
)

// bkInput is a blob cut into chunks of given sizes; Dup tells how the blob was
// built (pool size of distinct chunk contents).
type bkInput struct {
	Blob  []byte
	Sizes []int
}

// bkDupInput builds a blob of nchunks chunks drawn from a pool of `distinct`
// different contents, so that at least (1 - distinct/nchunks) of the chunks are
// duplicates of an earlier one. Chunk sizes are 1..maxc bytes.
func bkDupInput(r *vh.Rand, nchunks, distinct, maxc int) bkInput {
	if distinct < 1 {
		distinct = 1
	}
	pool := make([][]byte, distinct)
	seen := map[string]bool{}
	for i := range pool {
		for {
			b := r.Bytes(1 + r.Intn(maxc))
			// keep contents non-zero-only so that no chunk is a "null chunk"
			b[0] |= 1
			if !seen[string(b)] {
				seen[string(b)] = true
				pool[i] = b
				break
			}
		}
	}
	var in bkInput
	for i := 0; i < nchunks; i++ {
		var c []byte
		if i < distinct {
			c = pool[i]
		} else {
			c = pool[r.Intn(distinct)]
		}
		in.Blob = append(in.Blob, c...)
		in.Sizes = append(in.Sizes, len(c))
	}
	// shuffle chunk order (Fisher-Yates over chunks)
	chunks := in.chunks()
	for i := len(chunks) - 1; i > 0; i-- {
		j := r.Intn(i + 1)
		chunks[i], chunks[j] = chunks[j], chunks[i]
	}
	in.Blob, in.Sizes = nil, nil
	for _, c := range chunks {
		in.Blob = append(in.Blob, c...)
		in.Sizes = append(in.Sizes, len(c))
	}
	return in
}

func (in bkInput) chunks() [][]byte {
	out := make([][]byte, len(in.Sizes))
	off := 0
	for i, s := range in.Sizes {
		out[i] = in.Blob[off : off+s]
		off += s
	}
	return out
}

func (in bkInput) dupFraction() float64 {
	seen := map[string]bool{}
	d := 0
	for _, c := range in.chunks() {
		if seen[string(c)] {
			d++
		}
		seen[string(c)] = true
	}
	if len(in.Sizes) == 0 {
		return 0
	}
	return float64(d) / float64(len(in.Sizes))
}

func (in bkInput) index() desync.Index {
	idx := desync.Index{Index: desync.FormatIndex{FeatureFlags: desync.CaFormatExcludeNoDump | desync.CaFormatSHA512256, ChunkSizeMin: 1, ChunkSizeAvg: 64, ChunkSizeMax: 1 << 20}}
	var off uint64
	for _, s := range in.Sizes {
		idx.Chunks = append(idx.Chunks, desync.IndexChunk{Start: off, Size: uint64(s), ID: desync.Digest.Sum(in.Blob[off : off+uint64(s)])})
		off += uint64(s)
	}
	return idx
}

// ---------- instrumented store ----------

// opHook is consulted before every store operation. kind is "has", "store" or
// "get"; a non-nil return value is injected as that operation's error.
type opHook func(kind string, id desync.ChunkID) error

type hookStore struct {
	inner desync.WriteStore
	hook  opHook
}

func (s *hookStore) GetChunk(id desync.ChunkID) (*desync.Chunk, error) {
	if err := s.hook("get", id); err != nil {
		return nil, err
	}
	return s.inner.GetChunk(id)
}
func (s *hookStore) HasChunk(id desync.ChunkID) (bool, error) {
	if err := s.hook("has", id); err != nil {
		return false, err
	}
	return s.inner.HasChunk(id)
}
func (s *hookStore) StoreChunk(c *desync.Chunk) error {
	if err := s.hook("store", c.ID()); err != nil {
		return err
	}
	return s.inner.StoreChunk(c)
}
func (s *hookStore) Close() error   { return s.inner.Close() }
func (s *hookStore) String() string { return "hook(" + s.inner.String() + ")" }

var errInjected = errors.New("injected store failure")
var errCtxBound = errors.New("request aborted: context done")

// faultPlan fails the calls whose 1-based per-kind call number is listed.
type faultPlan struct {
	mu        sync.Mutex
	Fail      map[string]map[int]bool // kind -> call numbers
	calls     map[string]int
	delivered int
}

func newFaultPlan() *faultPlan {
	return &faultPlan{Fail: map[string]map[int]bool{}, calls: map[string]int{}}
}
func (p *faultPlan) add(kind string, k int) {
	if p.Fail[kind] == nil {
		p.Fail[kind] = map[int]bool{}
	}
	p.Fail[kind][k] = true
}
func (p *faultPlan) hook(kind string, id desync.ChunkID) error {
	p.mu.Lock()
	defer p.mu.Unlock()
	p.calls[kind]++
	if p.Fail[kind][p.calls[kind]] {
		p.delivered++
		return errInjected
	}
	return nil
}

// ---------- stores on disk ----------

func bkNewStore(work, name string) (desync.LocalStore, string, error) {
	dir := filepath.Join(work, name)
	os.RemoveAll(dir)
	if err := os.MkdirAll(dir, 0755); err != nil {
		return desync.LocalStore{}, "", err
	}
	s, err := desync.NewLocalStore(dir, desync.StoreOptions{})
	return s, dir, err
}

// bkCachedStore returns a LocalStore under work/cache/<key>, populated once by fill. For stores that the
// operation under test only reads (Copy's source, the chunk store of AssembleFile / UnTarIndex).
func bkCachedStore(work, key string, fill func(s desync.LocalStore) error) (desync.LocalStore, string, error) {
	sum := sha256.Sum256([]byte(key))
	dir := filepath.Join(work, "cache", hex.EncodeToString(sum[:8]))
	if _, err := os.Stat(dir); err == nil {
		s, err := desync.NewLocalStore(dir, desync.StoreOptions{})
		return s, dir, err
	}
	tmp := dir + ".tmp"
	os.RemoveAll(tmp)
	if err := os.MkdirAll(tmp, 0755); err != nil {
		return desync.LocalStore{}, "", err
	}
	s, err := desync.NewLocalStore(tmp, desync.StoreOptions{})
	if err != nil {
		return s, "", err
	}
	if err := fill(s); err != nil {
		return s, "", err
	}
	if err := os.Rename(tmp, dir); err != nil {
		return s, "", err
	}
	s, err = desync.NewLocalStore(dir, desync.StoreOptions{})
	return s, dir, err
}

// bkReadBack opens a FRESH verifying store on dir and checks that every chunk
// of the index is present, hashes to its id and has the expected content.
// Returns "" when complete, else a description of the first problem.
func bkReadBack(dir string, idx desync.Index, blob []byte) string {
	s, err := desync.NewLocalStore(dir, desync.StoreOptions{})
	if err != nil {
		return "open store: " + err.Error()
	}
	for i, c := range idx.Chunks {
		ch, err := s.GetChunk(c.ID)
		if err != nil {
			return fmt.Sprintf("chunk %d (%s): %v", i, c.ID.String(), err)
		}
		b, err := ch.Data()
		if err != nil {
			return fmt.Sprintf("chunk %d (%s): %v", i, c.ID.String(), err)
		}
		if desync.Digest.Sum(b) != c.ID {
			return fmt.Sprintf("chunk %d (%s): stored data does not hash to its id", i, c.ID.String())
		}
		if blob != nil && !bytes.Equal(b, blob[c.Start:c.Start+c.Size]) {
			return fmt.Sprintf("chunk %d (%s): stored data differs from the input range", i, c.ID.String())
		}
	}
	return ""
}

// bkIndexDescribes checks that idx describes blob exactly: ranges tile
// [0,len(blob)) and every range hashes to its id.
func bkIndexDescribes(idx desync.Index, blob []byte) string {
	var off uint64
	for i, c := range idx.Chunks {
		if c.Start != off {
			return fmt.Sprintf("row %d starts at %d, expected %d", i, c.Start, off)
		}
		if c.Start+c.Size > uint64(len(blob)) {
			return fmt.Sprintf("row %d reaches beyond the input (%d > %d)", i, c.Start+c.Size, len(blob))
		}
		if desync.Digest.Sum(blob[c.Start:c.Start+c.Size]) != c.ID {
			return fmt.Sprintf("row %d does not hash to its id", i)
		}
		off += c.Size
	}
	if off != uint64(len(blob)) {
		return fmt.Sprintf("index length %d, input size %d", off, len(blob))
	}
	return ""
}

func bkErrClass(err error) string {
	if err == nil {
		return "nil"
	}
	var in desync.Interrupted
	if errors.As(err, &in) {
		return "interrupted"
	}
	return "err"
}

// ---------- cancel at the k-th scheduling point ----------

// canceller counts hits of the selected sites (yield hooks of the code under
// test plus the harness' own store/filesystem call sites) and cancels the
// context inside the K-th hit (K = 0: before the operation is started).
type canceller struct {
	K      int
	Delay  time.Duration // wait this long inside the K-th hit before cancelling (lets the other goroutines run as far as they can)
	Sites  map[string]bool
	cancel context.CancelFunc
	n      int64
	fired  int32
	rng    *vh.Rand
	rmu    sync.Mutex
}

func (c *canceller) tick(site string) {
	if c.Sites != nil && !c.Sites[site] {
		return
	}
	n := atomic.AddInt64(&c.n, 1)
	if c.K > 0 && int(n) == c.K {
		if c.Delay > 0 {
			time.Sleep(c.Delay)
		}
		atomic.StoreInt32(&c.fired, 1)
		c.cancel()
	}
}

func (c *canceller) hits() int { return int(atomic.LoadInt64(&c.n)) }

// withCancelAt runs f with a context that is cancelled at the K-th hit.
// It returns f's error, the number of hits and whether f finished in time.
func withCancelAt(k int, delay time.Duration, sites []string, f func(ctx context.Context, c *canceller) error) (err error, hits int, fired bool, finished bool) {
	ctx, cancel := context.WithCancel(context.Background())
	defer cancel()
	c := &canceller{K: k, Delay: delay, cancel: cancel}
	if sites != nil {
		c.Sites = map[string]bool{}
		for _, s := range sites {
			c.Sites[s] = true
		}
	}
	desync.VerifSetYieldHook(c.tick)
	defer desync.VerifSetYieldHook(nil)
	if k == 0 {
		atomic.StoreInt32(&c.fired, 1)
		cancel()
	}
	done := make(chan error, 1)
	go func() { done <- f(ctx, c) }()
	select {
	case err = <-done:
		return err, c.hits(), atomic.LoadInt32(&c.fired) == 1, true
	case <-time.After(30 * time.Second):
		return nil, c.hits(), atomic.LoadInt32(&c.fired) == 1, false
	}
}
