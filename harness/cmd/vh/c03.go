package main

// C03 -- no chunk is delivered that does not hash to the requested ID.
//
// Real stores (local directories, RemoteHTTP against a raw file server and against
// desync's own HTTPHandler, the casync protocol in-process and through RemoteSSH + a
// `desync pull` child) are poisoned with every kind of damaged object and queried through
// the wrappers (Cache, RepairableCache, StoreRouter, FailoverGroup, DedupQueue,
// WriteDedupQueue, SwapStore) and nestings of them.
//   predicate (independent of the model): on a nil error chunk.Data() succeeds and
//     Digest.Sum(data) == id, unless verification is disabled on the way; objects written
//     into caches by that code path verify against their name.
//   correspondence: the extracted Coq model (Model/ChunkVerify.v `get`) is run on the same
//     stack, the same stored bytes and the real zstd/digest results; result class, delivered
//     bytes and the resulting cache contents are compared.

import (
	"bytes"
	"context"
	"encoding/binary"
	"encoding/hex"
	"errors"
	"fmt"
	"io"
	"net/http"
	"net/http/httptest"
	"net/url"
	"os"
	"path/filepath"
	"sort"
	"strconv"
	"strings"
	"sync"
	"time"

	"github.com/folbricht/desync"

	"vh/internal/vh"
)

func init() { props["C03"] = runC03 }

// ---------- case description ----------

type c03Node struct {
	T     string     `json:"t"` // leaf repair wdedup wswap cache router failover dedup swap http proto ssh
	K     int        `json:"k,omitempty"`
	Kind  string     `json:"kind,omitempty"` // local | http (raw file server) | s3 | sftp
	Skip  bool       `json:"skip,omitempty"`
	Unc   bool       `json:"unc,omitempty"`
	Retry int        `json:"retry,omitempty"`
	F     int        `json:"f,omitempty"`     // failover group number
	Hop   int        `json:"hop,omitempty"`   // network hop number
	SComp bool       `json:"scomp,omitempty"` // http hop: the server's converters compress
	N     int        `json:"n,omitempty"`     // connection pool size of the store (0 = 1)
	Keep  bool       `json:"keep,omitempty"`  // proto/ssh: one session serves all requests (else a fresh one per request)
	Kids  []*c03Node `json:"kids,omitempty"`
}

type c03Slot struct {
	K    int    `json:"k"`
	ID   string `json:"id"`
	Obj  string `json:"obj"`  // hex of the stored object ("-" empty file)
	Kind string `json:"kind"` // how it was damaged
}

type c03Fault struct {
	T         string `json:"t"` // G P N
	K         int    `json:"k"`
	ID        string `json:"id"` // hex or *
	From      int    `json:"from"`
	To        int    `json:"to"`
	F         string `json:"f"` // io rd rp rs
	Arg       string `json:"arg,omitempty"`
	Lbl       string `json:"label,omitempty"`      // rs: the chunk id the answer is labelled with
	FlagUnset bool   `json:"flag_unset,omitempty"` // rs: the CHUNK message's "compressed" flag is not set
}

type c03Case struct {
	Name   string     `json:"name"`
	Digest string     `json:"digest"`
	Stack  *c03Node   `json:"stack"`
	Slots  []c03Slot  `json:"slots"`
	Dirs   []c03Slot  `json:"dirs,omitempty"`         // directories planted in a slot (local only): K, ID
	Others []c03Slot  `json:"other_format,omitempty"` // objects under the name of the format the leaf is NOT configured for
	Faults []c03Fault `json:"faults,omitempty"`
	Ops    []string   `json:"ops"`             // g:<id>
	Multi  []c03Multi `json:"multi,omitempty"` // consumers over several chunks with overlapping use, run last
	Impl   []string   `json:"impl,omitempty"`
	Model  []string   `json:"model,omitempty"`
}

// c03Multi: AssembleFile with N workers behind a gate that holds every chunk until the next one
// was fetched ("assemble"), or two index readers used alternately ("readers").
type c03Multi struct {
	Kind  string   `json:"kind"`
	N     int      `json:"n"`
	IDs   []string `json:"ids"`
	Sizes []int    `json:"sizes"`
	Blob  string   `json:"blob_hex"`
}

const c03Inf = 1 << 30

func (n *c03Node) oracle() string {
	b := func(x bool) string {
		if x {
			return "1"
		}
		return "0"
	}
	kids := func() string {
		var s []string
		for _, k := range n.Kids {
			s = append(s, k.oracle())
		}
		return strings.Join(s, ",")
	}
	switch n.T {
	case "leaf":
		kind := map[string]string{"local": "l", "http": "h", "s3": "s", "sftp": "f"}[n.Kind]
		return fmt.Sprintf("L,%d,%s,%s,%s,%d", n.K, kind, b(n.Skip), b(n.Unc), n.Retry)
	case "repair":
		return "WR," + kids()
	case "wdedup":
		return "WD," + kids()
	case "wswap":
		return "WS," + kids()
	case "cache":
		return "C," + kids()
	case "router":
		return fmt.Sprintf("R,%d,%s", len(n.Kids), kids())
	case "failover":
		return fmt.Sprintf("F,%d,%d,%s", n.F, len(n.Kids), kids())
	case "dedup":
		return "D," + kids()
	case "swap":
		return "S," + kids()
	case "http":
		return fmt.Sprintf("H,%d,%s,%s,%s,%d,%s", n.Hop, b(n.SComp), b(n.Skip), b(n.Unc), n.Retry, kids())
	case "proto":
		return fmt.Sprintf("P,%d,%s", n.Hop, kids())
	case "foreign": // a Store that derives the chunk (and its id) from its content: NewChunk(stored bytes)
		return fmt.Sprintf("X,%d", n.K)
	case "sshp": // RemoteSSH -> a scripted peer (child process): its answers are the N rules of the case
		return fmt.Sprintf("P,%d,L,%d,l,0,0,0", n.Hop, n.K)
	case "sshf": // RemoteSSH -> a ProtocolServer (child process) over such a store
		return fmt.Sprintf("P,%d,X,%d", n.Hop, n.K)
	case "ssh": // RemoteSSH -> `desync pull`: a ProtocolServer over a local store opened with SkipVerify
		return fmt.Sprintf("P,%d,L,%d,l,1,0,0", n.Hop, n.K)
	}
	return "?"
}

func (n *c03Node) shape() string {
	switch n.T {
	case "leaf":
		s := n.Kind
		if n.Unc {
			s += "-unc"
		}
		if n.Skip {
			s += "-skip"
		}
		return s
	case "ssh":
		return "ssh"
	case "sshf":
		return "ssh(foreign)"
	case "sshp":
		return "ssh(peer)"
	case "foreign":
		return "foreign"
	}
	var s []string
	for _, k := range n.Kids {
		s = append(s, k.shape())
	}
	return n.T + "(" + strings.Join(s, ",") + ")"
}

func (n *c03Node) depth() int {
	d := 0
	for _, k := range n.Kids {
		if kd := k.depth(); kd > d {
			d = kd
		}
	}
	return d + 1
}

func (n *c03Node) walk(f func(*c03Node)) {
	f(n)
	for _, k := range n.Kids {
		k.walk(f)
	}
}

// c03Verifying: is verification enabled on every store on the way to the caller?  Written
// from the property text, independently of the model: a verifying network client makes what
// is behind it irrelevant; the casync protocol client always verifies.
func c03Verifying(n *c03Node) bool {
	switch n.T {
	case "leaf":
		return !n.Skip
	case "http":
		return !n.Skip
	case "proto", "ssh", "sshf", "sshp":
		return true
	case "foreign": // trusts its content
		return false
	}
	for _, k := range n.Kids {
		if !c03Verifying(k) {
			return false
		}
	}
	return true
}

// c03AllVerifying: verification is enabled at every leaf and at every network client, also
// behind verifying clients (then the caches inside the stack may only receive verified chunks).
func c03AllVerifying(n *c03Node) bool {
	ok := true
	n.walk(func(x *c03Node) {
		if (x.T == "leaf" || x.T == "http") && x.Skip || x.T == "foreign" || x.T == "sshf" {
			ok = false
		}
		if x.T == "ssh" { // `desync pull` opens its store with SkipVerify; nothing is written behind it
			return
		}
	})
	return ok
}

// ---------- environment: file server, fault injection, zstd/digest tables ----------

type c03Env struct {
	a          vh.Args
	o          *vh.Oracle
	r          *vh.Result
	fs         *httptest.Server
	s3         *httptest.Server
	self       string
	sshOK      bool
	mu         sync.Mutex
	rules      []c03Fault
	hist       []string // observed raw operations "T:k:id"
	caseNo     int
	dec        map[string]string
	comp       map[string]string
	hash       map[string]string
	fakeSSH    string
	skippedBig int
	tmpLeft    int
	readerHung bool
	pending    []c03Fault // the faults of the case being built
	hangs      map[string]int
}

// fault decides what happens to the next raw operation (t,k,id) and records it.
func (e *c03Env) fault(t string, k int, id string) *c03Fault {
	e.mu.Lock()
	defer e.mu.Unlock()
	var hit *c03Fault
	for i := range e.rules {
		r := &e.rules[i]
		if r.T != t || r.K != k || (r.ID != "*" && r.ID != id) {
			continue
		}
		n := 0
		for _, h := range e.hist {
			p := strings.SplitN(h, ":", 3)
			hk, _ := strconv.Atoi(p[1])
			if p[0] == t && hk == k && (r.ID == "*" || r.ID == p[2]) {
				n++
			}
		}
		if n >= r.From && n < r.To {
			hit = r
			break
		}
	}
	e.hist = append(e.hist, fmt.Sprintf("%s:%d:%s", t, k, id))
	return hit
}

// raw file server over the scratch directory: /c<case>/b<k>/<abcd>/<id>[.cacnk]
func (e *c03Env) serveFiles(w http.ResponseWriter, r *http.Request) {
	parts := strings.Split(strings.Trim(r.URL.Path, "/"), "/")
	if len(parts) == 4 && strings.HasPrefix(parts[1], "b") {
		k, _ := strconv.Atoi(parts[1][1:])
		id := strings.TrimSuffix(parts[3], desync.CompressedChunkExt)
		fl := e.fault("G", k, id)
		p := filepath.Join(e.a.Work, filepath.FromSlash(strings.Trim(r.URL.Path, "/")))
		if fl != nil {
			switch fl.F {
			case "io":
				http.Error(w, "injected", http.StatusInternalServerError)
				return
			case "rp", "rs":
				w.WriteHeader(200)
				w.Write(vh.UnHex(fl.Arg))
				return
			case "rd":
				b, err := os.ReadFile(p)
				if err != nil {
					http.NotFound(w, r)
					return
				}
				n, _ := strconv.Atoi(fl.Arg)
				if n > len(b) {
					n = len(b)
				}
				// declare the full length, deliver n bytes, cut the connection
				w.Header().Set("Content-Length", strconv.Itoa(len(b)+1))
				w.WriteHeader(200)
				w.Write(b[:n])
				if f, ok := w.(http.Flusher); ok {
					f.Flush()
				}
				if hj, ok := w.(http.Hijacker); ok {
					if c, _, err := hj.Hijack(); err == nil {
						c.Close()
					}
				}
				return
			}
		}
	}
	http.FileServer(http.Dir(e.a.Work)).ServeHTTP(w, r)
}

func (e *c03Env) zDec(raw []byte) string { // "!" or hex
	k := string(raw)
	if v, ok := e.dec[k]; ok {
		return v
	}
	out, err := desync.Decompress(nil, raw)
	v := "!"
	if err == nil {
		v = vh.Hex(out)
	}
	e.dec[k] = v
	return v
}
func (e *c03Env) zComp(d []byte) string {
	k := string(d)
	if v, ok := e.comp[k]; ok {
		return v
	}
	out, _ := desync.Compress(d)
	v := vh.Hex(out)
	e.comp[k] = v
	return v
}
func (e *c03Env) hashOf(d []byte) string {
	k := e.digestName() + string(d)
	if v, ok := e.hash[k]; ok {
		return v
	}
	id := desync.Digest.Sum(d)
	v := hex.EncodeToString(id[:])
	e.hash[k] = v
	return v
}
func (e *c03Env) digestName() string {
	if _, ok := desync.Digest.(desync.SHA256); ok {
		return "sha256:"
	}
	return "sha512-256:"
}

// zstdDeclaredSize parses a zstd frame header and returns the declared content size.
// klauspost's DecodeAll allocates the declared size up front (a single flipped header bit
// makes a 20-byte object allocate 4 GiB); such objects are not fed to the implementation.
func zstdDeclaredSize(b []byte) (uint64, bool) {
	if len(b) < 6 || binary.LittleEndian.Uint32(b) != 0xFD2FB528 {
		return 0, false
	}
	fhd := b[4]
	pos := 5
	single := fhd&0x20 != 0
	if !single {
		pos++
	}
	switch fhd & 3 {
	case 1:
		pos++
	case 2:
		pos += 2
	case 3:
		pos += 4
	}
	var n int
	switch fhd >> 6 {
	case 0:
		if single {
			n = 1
		}
	case 1:
		n = 2
	case 2:
		n = 4
	case 3:
		n = 8
	}
	if n == 0 || len(b) < pos+n {
		return 0, false
	}
	var v uint64
	for i := 0; i < n; i++ {
		v |= uint64(b[pos+i]) << (8 * i)
	}
	if n == 2 {
		v += 256
	}
	return v, true
}

// ---------- building the real stack ----------

func c03Ext(unc bool) string {
	if unc {
		return desync.UncompressedChunkExt
	}
	return desync.CompressedChunkExt
}

func (e *c03Env) caseDir() string { return filepath.Join(e.a.Work, fmt.Sprintf("c%d", e.caseNo)) }

func (e *c03Env) slotPath(k int, unc bool, id string) string {
	return filepath.Join(e.caseDir(), fmt.Sprintf("b%d", k), id[:4], id+c03Ext(unc))
}

func c03Opts(n *c03Node) desync.StoreOptions {
	np := n.N
	if np < 1 {
		np = 1
	}
	return desync.StoreOptions{N: np, SkipVerify: n.Skip, Uncompressed: n.Unc, ErrorRetry: n.Retry, ErrorRetryBaseInterval: 1}
}

func (e *c03Env) build(n *c03Node, cleanup *[]func()) (desync.Store, error) {
	kid := func(i int) (desync.Store, error) { return e.build(n.Kids[i], cleanup) }
	wkid := func(i int) (desync.WriteStore, error) {
		s, err := kid(i)
		if err != nil {
			return nil, err
		}
		ws, ok := s.(desync.WriteStore)
		if !ok {
			return nil, fmt.Errorf("%s is not writable", n.Kids[i].T)
		}
		return ws, nil
	}
	switch n.T {
	case "leaf":
		dir := filepath.Join(e.caseDir(), fmt.Sprintf("b%d", n.K))
		if err := os.MkdirAll(dir, 0755); err != nil {
			return nil, err
		}
		switch n.Kind {
		case "local":
			return desync.NewLocalStore(dir, c03Opts(n))
		case "http":
			u, _ := url.Parse(fmt.Sprintf("%s/c%d/b%d/", e.fs.URL, e.caseNo, n.K))
			return desync.NewRemoteHTTPStore(u, c03Opts(n))
		case "s3":
			return e.buildS3(n, dir, cleanup)
		case "sftp":
			return e.buildSFTP(n, dir, cleanup)
		}
		return nil, fmt.Errorf("leaf kind %q", n.Kind)
	case "repair":
		ws, err := wkid(0)
		if err != nil {
			return nil, err
		}
		return desync.NewRepairableCache(ws), nil
	case "wdedup":
		ws, err := wkid(0)
		if err != nil {
			return nil, err
		}
		return desync.NewWriteDedupQueue(ws), nil
	case "wswap":
		ws, err := wkid(0)
		if err != nil {
			return nil, err
		}
		return desync.NewSwapWriteStore(ws), nil
	case "cache":
		up, err := kid(0)
		if err != nil {
			return nil, err
		}
		l, err := wkid(1)
		if err != nil {
			return nil, err
		}
		return desync.NewCache(up, l), nil
	case "router", "failover":
		var ss []desync.Store
		for i := range n.Kids {
			s, err := kid(i)
			if err != nil {
				return nil, err
			}
			ss = append(ss, s)
		}
		if n.T == "router" {
			return desync.NewStoreRouter(ss...), nil
		}
		return desync.NewFailoverGroup(ss...), nil
	case "dedup":
		s, err := kid(0)
		if err != nil {
			return nil, err
		}
		return desync.NewDedupQueue(s), nil
	case "swap":
		s, err := kid(0)
		if err != nil {
			return nil, err
		}
		return desync.NewSwapStore(s), nil
	case "http":
		inner, err := kid(0)
		if err != nil {
			return nil, err
		}
		var conv desync.Converters
		if n.SComp {
			conv = desync.Converters{desync.Compressor{}}
		}
		h := desync.NewHTTPHandler(inner, false, true, conv, "")
		hop := n.Hop
		srv := httptest.NewServer(http.HandlerFunc(func(w http.ResponseWriter, r *http.Request) {
			rec := httptest.NewRecorder()
			h.ServeHTTP(rec, r) // the server side runs first, then the response travels
			id := strings.TrimSuffix(filepath.Base(r.URL.Path), desync.CompressedChunkExt)
			fl := e.fault("N", hop, id)
			if fl != nil {
				switch fl.F {
				case "io", "rd":
					// a response that starts and breaks off (a connection closed before any
					// response byte would be retried transparently by net/http)
					w.Header().Set("Content-Length", "64")
					w.WriteHeader(200)
					w.Write([]byte{0})
					if f, ok := w.(http.Flusher); ok {
						f.Flush()
					}
					if hj, ok := w.(http.Hijacker); ok {
						if c, _, err := hj.Hijack(); err == nil {
							c.Close()
						}
					}
					return
				case "rp", "rs":
					if rec.Code == 200 {
						w.WriteHeader(200)
						w.Write(vh.UnHex(fl.Arg))
						return
					}
				}
			}
			w.WriteHeader(rec.Code)
			w.Write(rec.Body.Bytes())
		}))
		*cleanup = append(*cleanup, srv.Close)
		u, _ := url.Parse(srv.URL + "/")
		return desync.NewRemoteHTTPStore(u, c03Opts(n))
	case "proto":
		inner, err := kid(0)
		if err != nil {
			return nil, err
		}
		return &c03ProtoStore{inner: inner, hop: n.Hop, env: e, keep: n.Keep}, nil
	case "ssh", "sshf", "sshp", "foreign":
		dir := filepath.Join(e.caseDir(), fmt.Sprintf("b%d", n.K))
		if err := os.MkdirAll(dir, 0755); err != nil {
			return nil, err
		}
		switch n.T {
		case "sshp":
			// the peer's script: one answer file per rule of this hop (flags | label | body)
			for _, f := range e.pending {
				if f.T != "N" || f.K != n.Hop || f.F != "rs" {
					continue
				}
				m := make([]byte, 40)
				if !f.FlagUnset {
					binary.LittleEndian.PutUint64(m[0:8], desync.CaProtocolChunkCompressed)
				}
				copy(m[8:40], vh.UnHex(f.Lbl))
				m = append(m, vh.UnHex(f.Arg)...)
				if err := os.WriteFile(filepath.Join(dir, f.ID+".ans"), m, 0644); err != nil {
					return nil, err
				}
			}
			return &c03SSHStore{dir: dir, env: e, remote: e.self + " C03PEER", keep: n.Keep, n: n.N}, nil
		case "foreign":
			return &c03ForeignStore{dir: dir}, nil
		case "sshf":
			return &c03SSHStore{dir: dir, env: e, remote: e.self + " C03PULL", keep: n.Keep, n: n.N}, nil
		}
		return &c03SSHStore{dir: dir, env: e, remote: os.Getenv("VH_DESYNC"), keep: n.Keep, n: n.N}, nil
	}
	return nil, fmt.Errorf("node type %q", n.T)
}

// c03ProtoStore runs the real Protocol client against the real ProtocolServer over in-process
// pipes, one fresh session per request (the server ends its session after a missing chunk).
type c03ProtoStore struct {
	inner desync.Store
	hop   int
	env   *c03Env
	keep  bool
	mu    sync.Mutex
	cur   *c03ProtoSession
}

type c03FaultWriter struct {
	w     *io.PipeWriter
	mu    sync.Mutex
	armed bool
	left  int    // bytes of the server's current message still to come (it writes header, then body)
	mode  string // for the current message: "" pass, "io" fail, "rp" replaced
	env   *c03Env
	hop   int
	id    desync.ChunkID // the chunk the client is asking for
}

func (f *c03FaultWriter) arm(id desync.ChunkID) {
	f.mu.Lock()
	f.id, f.armed = id, true
	f.mu.Unlock()
}

// Write follows the framing of the server's messages (16-byte header with the total length,
// then the body): the decision what happens to an answer is taken once, at its header, and the
// rest of that message is treated the same way even if the client has gone on meanwhile.
func (f *c03FaultWriter) Write(p []byte) (int, error) {
	f.mu.Lock()
	if !f.armed {
		f.mu.Unlock()
		return f.w.Write(p)
	}
	var crafted []byte
	if f.left <= 0 && len(p) >= 8 {
		f.left = int(binary.LittleEndian.Uint64(p[0:8]))
		f.mode = ""
		if fl := f.env.fault("N", f.hop, hex.EncodeToString(f.id[:])); fl != nil {
			switch fl.F {
			case "io", "rd":
				f.mode = "io"
			case "rp", "rs":
				f.mode = "rp"
				body := vh.UnHex(fl.Arg)
				label := f.id[:]
				if fl.F == "rs" { // a scripted peer: the answer is labelled as the chunk it says it is
					label = vh.UnHex(fl.Lbl)
				}
				m := make([]byte, 16+40+len(body))
				binary.LittleEndian.PutUint64(m[0:8], uint64(len(m)))
				binary.LittleEndian.PutUint64(m[8:16], desync.CaProtocolChunk)
				if !(fl.F == "rs" && fl.FlagUnset) {
					binary.LittleEndian.PutUint64(m[16:24], desync.CaProtocolChunkCompressed)
				}
				copy(m[24:56], label)
				copy(m[56:], body)
				crafted = m
			}
		}
	}
	f.left -= len(p)
	mode := f.mode
	f.mu.Unlock()
	switch mode {
	case "io":
		return 0, errors.New("injected transport failure")
	case "rp":
		if crafted != nil {
			if _, err := f.w.Write(crafted); err != nil {
				return 0, err
			}
		}
		return len(p), nil
	}
	return f.w.Write(p)
}

type c03ProtoSession struct {
	client *desync.Protocol
	fw     *c03FaultWriter
	close  func()
}

func (p *c03ProtoStore) open(id desync.ChunkID) (*c03ProtoSession, error) {
	cr, sw := io.Pipe() // server -> client
	sr, cw := io.Pipe() // client -> server
	fw := &c03FaultWriter{w: sw, env: p.env, hop: p.hop, id: id}
	srv := desync.NewProtocolServer(sr, fw, p.inner)
	ctx, cancel := context.WithCancel(context.Background())
	done := make(chan struct{})
	go func() {
		srv.Serve(ctx)
		sw.Close()
		sr.Close()
		close(done)
	}()
	closeFn := func() {
		cancel()
		cw.Close()
		cr.Close()
		select {
		case <-done:
		case <-time.After(5 * time.Second):
		}
	}
	client := desync.NewProtocol(cr, cw)
	flags, err := client.Initialize(desync.CaProtocolPullChunks)
	if err != nil {
		closeFn()
		return nil, err
	}
	if flags&desync.CaProtocolReadableStore == 0 {
		closeFn()
		return nil, errors.New("server not offering chunks")
	}
	return &c03ProtoSession{client: client, fw: fw, close: closeFn}, nil
}

func (p *c03ProtoStore) GetChunk(id desync.ChunkID) (*desync.Chunk, error) {
	p.mu.Lock()
	defer p.mu.Unlock()
	if !p.keep {
		ss, err := p.open(id)
		if err != nil {
			return nil, err
		}
		defer ss.close()
		ss.fw.arm(id)
		return ss.client.RequestChunk(id)
	}
	// one session for all requests; a session that failed is replaced
	if p.cur == nil {
		ss, err := p.open(id)
		if err != nil {
			return nil, err
		}
		p.cur = ss
	}
	p.cur.fw.arm(id)
	c, err := p.cur.client.RequestChunk(id)
	if err != nil {
		if _, missing := err.(desync.ChunkMissing); !missing {
			p.cur.close()
			p.cur = nil
		}
	}
	return c, err
}
func (p *c03ProtoStore) HasChunk(id desync.ChunkID) (bool, error) {
	_, err := p.GetChunk(id)
	return err == nil, err
}
func (p *c03ProtoStore) Close() error {
	p.mu.Lock()
	defer p.mu.Unlock()
	if p.cur != nil {
		p.cur.close()
		p.cur = nil
	}
	return nil
}
func (p *c03ProtoStore) String() string { return "proto" }

// c03SSHStore: the real RemoteSSH store, CASYNC_SSH_PATH pointing at a script that runs the
// remote command locally, CASYNC_REMOTE_PATH = the desync binary (`desync pull - - - <dir>`).
// A fresh store per request: the server process ends after a missing chunk.
type c03SSHStore struct {
	dir    string
	env    *c03Env
	remote string // CASYNC_REMOTE_PATH: the desync binary, or this binary as a server over a foreign store
	keep   bool   // one RemoteSSH store (n sessions) for all requests
	n      int
	mu     sync.Mutex
	cur    *desync.RemoteSSH
}

func c03CloseSSH(r *desync.RemoteSSH) {
	cl := make(chan struct{})
	go func() { r.Close(); close(cl) }()
	select {
	case <-cl:
	case <-time.After(5 * time.Second):
	}
}

func (s *c03SSHStore) GetChunk(id desync.ChunkID) (*desync.Chunk, error) {
	s.mu.Lock()
	defer s.mu.Unlock()
	os.Setenv("CASYNC_REMOTE_PATH", s.remote)
	u, _ := url.Parse("ssh://localhost" + s.dir)
	np := s.n
	if np < 1 {
		np = 1
	}
	if !s.keep {
		r, err := desync.NewRemoteSSHStore(u, desync.StoreOptions{N: 1})
		if err != nil {
			return nil, err
		}
		c, err := r.GetChunk(id)
		c03CloseSSH(r)
		return c, err
	}
	if s.cur == nil {
		r, err := desync.NewRemoteSSHStore(u, desync.StoreOptions{N: np})
		if err != nil {
			return nil, err
		}
		s.cur = r
	}
	c, err := s.cur.GetChunk(id)
	if err != nil {
		if _, missing := err.(desync.ChunkMissing); !missing {
			c03CloseSSH(s.cur)
			s.cur = nil
		}
	}
	return c, err
}
func (s *c03SSHStore) HasChunk(id desync.ChunkID) (bool, error) {
	_, err := s.GetChunk(id)
	return err == nil, err
}
func (s *c03SSHStore) Close() error {
	s.mu.Lock()
	defer s.mu.Unlock()
	if s.cur != nil {
		c03CloseSSH(s.cur)
		s.cur = nil
	}
	return nil
}
func (s *c03SSHStore) String() string { return "ssh" }

// c03ForeignStore is a Store outside desync's own that trusts its content: GetChunk returns
// desync.NewChunk(<the stored bytes>), a chunk whose ID() is derived from the data, not from the
// request (desync's TestStore behaves like this; so does a foreign casync server).
type c03ForeignStore struct{ dir string }

func (s *c03ForeignStore) GetChunk(id desync.ChunkID) (*desync.Chunk, error) {
	sid := hex.EncodeToString(id[:])
	b, err := os.ReadFile(filepath.Join(s.dir, sid[:4], sid))
	if os.IsNotExist(err) {
		return nil, desync.ChunkMissing{ID: id}
	}
	if err != nil {
		return nil, err
	}
	return desync.NewChunk(b), nil
}
func (s *c03ForeignStore) HasChunk(id desync.ChunkID) (bool, error) {
	_, err := s.GetChunk(id)
	return err == nil, nil
}
func (s *c03ForeignStore) Close() error   { return nil }
func (s *c03ForeignStore) String() string { return "foreign:" + s.dir }

// ---------- running one case ----------

func c03Class(err error) string {
	var m desync.ChunkMissing
	var iv desync.ChunkInvalid
	switch {
	case err == nil:
		return "ok"
	case err == io.EOF: // the error value is io.EOF itself: readers take that for the end of a stream
		return "eof"
	case errors.As(err, &m):
		return "missing"
	case errors.As(err, &iv):
		return "invalid"
	}
	return "other"
}

// scan a backend directory: id -> object bytes, for one chunk file extension
func c03Scan(dir string, unc bool) map[string][]byte {
	out := map[string][]byte{}
	filepath.Walk(dir, func(p string, info os.FileInfo, err error) error {
		if err != nil || info.IsDir() {
			return nil
		}
		name := filepath.Base(p)
		if strings.HasPrefix(name, ".tmp") {
			out["tmp:"+name] = nil
			return nil
		}
		if unc {
			if len(name) != 64 {
				return nil
			}
		} else {
			if !strings.HasSuffix(name, desync.CompressedChunkExt) {
				return nil
			}
			name = strings.TrimSuffix(name, desync.CompressedChunkExt)
		}
		b, _ := os.ReadFile(p)
		out[name] = b
		return nil
	})
	return out
}

type c03Leaf struct {
	k    int
	unc  bool
	kind string
}

func c03Leaves(n *c03Node) []c03Leaf {
	var out []c03Leaf
	n.walk(func(x *c03Node) {
		if x.T == "leaf" {
			out = append(out, c03Leaf{x.K, x.Unc, x.Kind})
		}
		if x.T == "ssh" {
			out = append(out, c03Leaf{x.K, false, "local"})
		}
		if x.T == "foreign" || x.T == "sshf" {
			out = append(out, c03Leaf{x.K, true, "foreign"})
		}
	})
	return out
}

func (e *c03Env) runCase(c *c03Case, corr bool) error {
	e.caseNo++
	cd := e.caseDir()
	defer os.RemoveAll(cd)
	if c.Digest == "sha256" {
		desync.Digest = desync.SHA256{}
	} else {
		desync.Digest = desync.SHA512256{}
	}
	os.Setenv("VH_C03_DIGEST", c.Digest) // for the C03PULL child
	leaves := c03Leaves(c.Stack)
	uncOf := map[int]bool{}
	for _, l := range leaves {
		uncOf[l.k] = l.unc
	}
	// objects whose zstd header declares an absurd size are not fed to the decoder
	for _, s := range c.Slots {
		if n, ok := zstdDeclaredSize(vh.UnHex(s.Obj)); ok && n > 64<<20 {
			e.skippedBig++
			return nil
		}
	}
	for _, f := range c.Faults {
		if f.F == "rp" || f.F == "rs" {
			if n, ok := zstdDeclaredSize(vh.UnHex(f.Arg)); ok && n > 64<<20 {
				e.skippedBig++
				return nil
			}
		}
	}
	var cleanup []func()
	defer func() {
		for _, f := range cleanup {
			f()
		}
	}()
	e.pending = c.Faults
	store, err := e.build(c.Stack, &cleanup)
	if err != nil {
		return fmt.Errorf("build %s: %v", c.Stack.shape(), err)
	}
	defer store.Close()
	for _, s := range c.Slots {
		p := e.slotPath(s.K, uncOf[s.K], s.ID)
		os.MkdirAll(filepath.Dir(p), 0755)
		if err := os.WriteFile(p, vh.UnHex(s.Obj), 0644); err != nil {
			return err
		}
	}
	for _, s := range c.Others {
		// <id> in a store configured compressed, <id>.cacnk in one configured uncompressed: a name
		// the leaf must not consult (the model's world does not even contain it)
		p := e.slotPath(s.K, !uncOf[s.K], s.ID)
		os.MkdirAll(filepath.Dir(p), 0755)
		if err := os.WriteFile(p, vh.UnHex(s.Obj), 0644); err != nil {
			return err
		}
	}
	e.mu.Lock()
	e.rules = append([]c03Fault{}, c.Faults...)
	e.hist = nil
	e.mu.Unlock()
	for _, d := range c.Dirs {
		p := e.slotPath(d.K, uncOf[d.K], d.ID)
		os.MkdirAll(p, 0755)
		// the model sees a directory in a slot as: every read fails, every write fails
		e.rules = append(e.rules, c03Fault{T: "G", K: d.K, ID: d.ID, From: 0, To: c03Inf, F: "io"},
			c03Fault{T: "P", K: d.K, ID: d.ID, From: 0, To: c03Inf, F: "io"})
	}
	before := map[int]map[string][]byte{}
	for _, l := range leaves {
		before[l.k] = c03Scan(filepath.Join(cd, fmt.Sprintf("b%d", l.k)), l.unc)
	}
	verifying := c03Verifying(c.Stack)
	allVerifying := c03AllVerifying(c.Stack)
	planted := "good"
	for _, s := range c.Slots {
		if s.Kind != "good" {
			planted = s.Kind
		}
	}
	if len(c.Dirs) > 0 {
		planted = "dir"
	}
	if len(c.Others) > 0 {
		planted = "other-format:" + c.Others[0].Kind
	}
	for _, op := range c.Ops {
		if strings.HasPrefix(op, "m:") {
			planted += "+object-changed-after-a-successful-read"
			break
		}
	}
	for _, f := range c.Faults {
		if f.F == "rs" {
			planted += "+scripted-peer-answer"
			if f.FlagUnset {
				planted += "(compressed flag unset)"
			}
			break
		}
	}
	c.Impl = nil
	anyBadPlant := planted != "good" || len(c.Faults) > 0 || len(c.Others) > 0
	mutated := map[int]map[string]bool{} // slots the harness itself rewrote in the course of the case
	var held []c03Held                   // every chunk a GetChunk returned without error is kept until the end of the case
	for opi, op := range c.Ops {
		f := strings.Split(op, ":")
		idField := f[1]
		if f[0] == "m" {
			idField = f[2]
		}
		idb, _ := hex.DecodeString(idField)
		var id desync.ChunkID
		copy(id[:], idb)
		var zero desync.ChunkID
		if f[0] == "m" {
			// the world changes under the store: m:<k>:<id>:<objhex>:<keep|touch> replaces the object
			// in place; "keep" restores the file's modification time (same size is the
			// generator's business)
			k, _ := strconv.Atoi(f[1])
			p := e.slotPath(k, uncOf[k], f[2])
			fi, statErr := os.Stat(p)
			os.MkdirAll(filepath.Dir(p), 0755)
			if err := os.WriteFile(p, vh.UnHex(f[3]), 0644); err != nil {
				return err
			}
			if statErr == nil && len(f) > 4 && f[4] == "keep" {
				os.Chtimes(p, fi.ModTime(), fi.ModTime())
			}
			c.Impl = append(c.Impl, "m")
			anyBadPlant = true
			if mutated[k] == nil {
				mutated[k] = map[string]bool{}
			}
			mutated[k][f[2]] = true
			continue
		}
		if f[0] != "g" {
			resc := make(chan string, 1)
			go func() { resc <- e.consumer(c, store, f, id, opi, verifying) }()
			select {
			case x := <-resc:
				c.Impl = append(c.Impl, x)
			case <-time.After(8 * time.Second):
				e.r.Fail("predicate", "consumer/"+f[0]+"-hangs/"+c03Top(c.Stack), "consumer "+f[0]+" over "+c.Stack.shape()+" did not return within 8 s", c)
				return fmt.Errorf("consumer %s hung on %s", f[0], c.Stack.shape())
			}
			continue
		}
		chunk, err := store.GetChunk(id)
		cls := c03Class(err)
		res := cls
		if err == nil {
			if chunk == nil {
				e.r.Fail("predicate", "getchunk/nil-chunk-nil-error", "GetChunk returned (nil, nil) on "+c.Stack.shape(), c)
				c.Impl = append(c.Impl, "ok:nil")
				continue
			}
			d, derr := chunk.Data()
			if derr != nil {
				res = "ok:!"
			} else {
				res = "ok:" + vh.Hex(d)
				held = append(held, c03Held{id: id, chunk: chunk, first: append([]byte{}, d...), op: opi})
			}
			if verifying {
				switch {
				case derr != nil && id == zero:
					e.r.Fail("predicate", "getchunk/zero-id-undecodable",
						fmt.Sprintf("GetChunk(all-zero id) returned a chunk and a nil error for an undecodable object (%s); chunk.Data() fails: %v", planted, derr), c)
				case derr != nil:
					e.r.Fail("predicate", "getchunk/ok-without-data/"+c03Top(c.Stack),
						fmt.Sprintf("GetChunk returned nil error but chunk.Data() fails: %v (stack %s, planted %s)", derr, c.Stack.shape(), planted), c)
				case desync.Digest.Sum(d) != id:
					e.r.Fail("predicate", "getchunk/delivers-wrong-bytes/"+c03Top(c.Stack),
						fmt.Sprintf("GetChunk(%s) through %s returned %d bytes hashing to %s (planted: %s, verification not disabled)",
							f[1][:12], c.Stack.shape(), len(d), c03IDStr(desync.Digest.Sum(d))[:12], planted), c)
				case chunk.ID() != id:
					e.r.Fail("predicate", "getchunk/wrong-id/"+c03Top(c.Stack), "chunk.ID() differs from the requested id", c)
				}
			}
		}
		c.Impl = append(c.Impl, res)
	}
	e.recheckHeld(c, held, "after all requests of the case", verifying)
	// cache contents: whatever this code path wrote must verify against its name
	after := map[int]map[string][]byte{}
	for _, l := range leaves {
		after[l.k] = c03Scan(filepath.Join(cd, fmt.Sprintf("b%d", l.k)), l.unc)
		for name, obj := range after[l.k] {
			if old, ok := before[l.k][name]; ok && bytes.Equal(old, obj) {
				continue
			}
			if mutated[l.k][name] {
				continue
			}
			if strings.HasPrefix(name, "tmp:") {
				e.tmpLeft++ // LocalStore.StoreChunk leaves its temp file behind when the rename fails (C08's subject)
				continue
			}
			if !allVerifying {
				continue
			}
			plain := obj
			if !l.unc {
				var derr error
				plain, derr = desync.Decompress(nil, obj)
				if derr != nil {
					e.r.Fail("predicate", "cache/written-object-undecodable", fmt.Sprintf("object written to backend %d for %s does not decode", l.k, name[:12]), c)
					continue
				}
			}
			sum := desync.Digest.Sum(plain)
			if hex.EncodeToString(sum[:]) != name {
				e.r.Fail("predicate", "cache/poisoned-by-get", fmt.Sprintf("object written to backend %d under %s hashes to %s (stack %s)", l.k, name[:12], c03IDStr(sum)[:12], c.Stack.shape()), c)
			}
		}
	}
	key := fmt.Sprintf("%s|%s|%s|%v", c.Stack.shape(), planted, c.Digest, c.Faults)
	e.r.Count(key, anyBadPlant)
	e.r.Dist("plant:" + planted)
	e.r.Dist("top:" + c03Top(c.Stack))
	e.r.Dist(fmt.Sprintf("depth:%d", c.Stack.depth()))
	e.r.Dist("digest:" + c.Digest)
	e.r.Dist(fmt.Sprintf("verifying:%v", verifying))
	for _, l := range leaves {
		s := l.kind
		if l.unc {
			s += "-unc"
		}
		e.r.Dist("leaf:" + s)
	}
	for _, x := range c.Impl {
		e.r.Dist("impl:" + strings.SplitN(x, ":", 2)[0])
	}
	for _, f := range c.Faults {
		e.r.Dist("fault:" + f.T + "/" + f.F)
	}
	e.r.Sample(map[string]interface{}{"stack": c.Stack.shape(), "planted": planted, "ops": len(c.Ops), "impl": c03Short(c.Impl), "verifying": verifying})
	if corr && e.o != nil {
		if err := e.correspond(c, leaves, after); err != nil {
			return err
		}
	}
	// after the comparison with the model (what follows is judged by the predicate alone):
	// further calls into the same store while the chunks are still held, then the consumers that
	// use several chunks at once
	if len(held) > 0 {
		for _, h := range held {
			store.HasChunk(h.id)
		}
		if ws, ok := store.(desync.WriteStore); ok && verifying {
			for _, h := range held {
				ws.StoreChunk(h.chunk) // re-stores the object that is there already
			}
		}
		n := len(held)
		for i := 0; i < n; i++ { // one more round of requests, kept as well
			if ch, err := store.GetChunk(held[i].id); err == nil && ch != nil {
				if d, derr := ch.Data(); derr == nil {
					held = append(held, c03Held{id: held[i].id, chunk: ch, first: append([]byte{}, d...), op: -1})
				}
			}
		}
		e.recheckHeld(c, held, "after HasChunk / StoreChunk / another round of GetChunk", verifying)
	}
	for i := range c.Multi {
		e.multi(c, store, &c.Multi[i], verifying)
	}
	return nil
}

func c03Short(xs []string) []string {
	out := make([]string, len(xs))
	for i, x := range xs {
		if len(x) > 24 {
			x = x[:24] + "..."
		}
		out[i] = x
	}
	return out
}

func c03Top(n *c03Node) string {
	if n.T == "leaf" {
		return "leaf-" + n.Kind
	}
	return n.T
}

type c03Held struct {
	id    desync.ChunkID
	chunk *desync.Chunk
	first []byte // copy of Data() taken when GetChunk returned
	op    int
}

// recheckHeld: the data a returned chunk yields must stay what it was when GetChunk returned (and
// keep hashing to the id) for as long as the caller holds the chunk, whatever the store is asked
// to do afterwards: a returned chunk must not alias memory that a later store call writes.
func (e *c03Env) recheckHeld(c *c03Case, held []c03Held, when string, verifying bool) {
	for i, h := range held {
		d, err := h.chunk.Data()
		switch {
		case err != nil:
			e.r.Fail("predicate", "held-chunk/data-lost/"+c03Top(c.Stack),
				fmt.Sprintf("chunk %s returned by request %d of %d yields no data any more %s: %v (stack %s)", c03IDStr(h.id)[:12], i, len(held), when, err, c.Stack.shape()), c)
		case !bytes.Equal(d, h.first):
			e.r.Fail("predicate", "held-chunk/data-changed/"+c03Top(c.Stack),
				fmt.Sprintf("chunk %s was returned without error by request %d of %d; %s its Data() differs from what it was at return time and hashes to %s (stack %s)",
					c03IDStr(h.id)[:12], i, len(held), when, c03IDStr(desync.Digest.Sum(d))[:12], c.Stack.shape()), c)
		case verifying && desync.Digest.Sum(d) != h.id:
			e.r.Fail("predicate", "held-chunk/wrong-bytes/"+c03Top(c.Stack),
				fmt.Sprintf("held chunk %s hashes to %s %s (stack %s)", c03IDStr(h.id)[:12], c03IDStr(desync.Digest.Sum(d))[:12], when, c.Stack.shape()), c)
		}
	}
	e.r.Dist(fmt.Sprintf("held-chunks:%s", bucket(len(held))))
}

// c03Gate holds every chunk it hands out until another request has been served by the store
// behind it (or a short time has passed): consumers with several workers then really hold
// several chunks of the same store at once.
type c03Gate struct {
	desync.Store
	mu     sync.Mutex
	served int
}

func (g *c03Gate) GetChunk(id desync.ChunkID) (*desync.Chunk, error) {
	g.mu.Lock()
	ch, err := g.Store.GetChunk(id) // the store itself sees one request at a time
	g.served++
	mine := g.served
	g.mu.Unlock()
	deadline := time.Now().Add(40 * time.Millisecond)
	for time.Now().Before(deadline) {
		g.mu.Lock()
		later := g.served > mine
		g.mu.Unlock()
		if later {
			break
		}
		time.Sleep(200 * time.Microsecond)
	}
	return ch, err
}

// multi runs a consumer that uses several chunks of the stack at once.  Predicate: success =>
// the output is the blob the index rows describe.
func (e *c03Env) multi(c *c03Case, store desync.Store, m *c03Multi, verifying bool) {
	if e.readerHung && m.Kind != "assemble" {
		return
	}
	done := make(chan struct{})
	go func() {
		defer close(done)
		e.multiRun(c, store, m, verifying)
	}()
	select {
	case <-done:
	case <-time.After(8 * time.Second):
		// IndexPos.Read can loop without making progress; the goroutine is left behind
		e.readerHung = true
		e.r.Fail("predicate", "consumer/"+m.Kind+"-hangs/"+c03Top(c.Stack),
			fmt.Sprintf("consumer %q over %s did not return within 8 s (a request neither fails nor delivers)", m.Kind, c.Stack.shape()), c)
		e.r.Note("a reader consumer hung; the remaining reader consumers of this run were skipped")
	}
}

func (e *c03Env) multiRun(c *c03Case, store desync.Store, m *c03Multi, verifying bool) {
	flags := uint64(desync.CaFormatExcludeNoDump)
	if c.Digest != "sha256" {
		flags |= desync.CaFormatSHA512256
	}
	blob := vh.UnHex(m.Blob)
	idx := desync.Index{Index: desync.FormatIndex{FeatureFlags: flags, ChunkSizeMin: 1, ChunkSizeAvg: 64, ChunkSizeMax: 1 << 20}}
	off := uint64(0)
	for i, sid := range m.IDs {
		var id desync.ChunkID
		copy(id[:], vh.UnHex(sid))
		idx.Chunks = append(idx.Chunks, desync.IndexChunk{ID: id, Start: off, Size: uint64(m.Sizes[i])})
		off += uint64(m.Sizes[i])
	}
	res := "fail"
	switch m.Kind {
	case "assemble":
		name := filepath.Join(e.caseDir(), "multi-out")
		os.Remove(name)
		if _, err := desync.AssembleFile(context.Background(), name, idx, &c03Gate{Store: store}, nil, desync.AssembleOptions{N: m.N}); err == nil {
			got, _ := os.ReadFile(name)
			res = "ok"
			if !bytes.Equal(got, blob) && verifying {
				res = "wrong"
				e.r.Fail("predicate", "consumer/assemble-n-emits-wrong-bytes/"+c03Top(c.Stack),
					fmt.Sprintf("AssembleFile with %d workers (each chunk held until the next one was fetched) succeeded through %s but the file differs from the %d-chunk blob", m.N, c.Stack.shape(), len(m.IDs)), c)
			}
		}
		os.Remove(name)
	case "handle":
		// the file handle of a mounted index (mount-index.go indexFileHandle.read): every request
		// is Seek(offset) + one Read on the SAME IndexPos, a failed request is answered with EIO
		// and the handle is used again.  Requests seek elsewhere and come back, re-read failed
		// ranges, alternate between intact and damaged chunks.  Predicate: bytes delivered
		// without an error are the blob's bytes at that offset.
		r := desync.NewIndexReadSeeker(idx, store)
		rnd := vh.NewRand(uint64(m.N)*7919 + uint64(len(blob)))
		res = "ok"
		nfail := 0
		var lastFailed int64 = -1
		for q := 0; q < 8+3*len(m.IDs) && len(blob) > 0; q++ {
			ci := rnd.Intn(len(m.IDs))
			start := int(idx.Chunks[ci].Start)
			off := int64(start + rnd.Intn(m.Sizes[ci]))
			if lastFailed >= 0 && rnd.Chance(1, 3) {
				off = lastFailed // the same place again
				if rnd.Bool() && off+1 < int64(len(blob)) {
					off++ // or right next to it
				}
			}
			n := 1 + rnd.Intn(2*m.Sizes[ci]+2)
			buf := make([]byte, n)
			if _, err := r.Seek(off, io.SeekStart); err != nil {
				nfail++
				lastFailed = off
				continue
			}
			got, err := r.Read(buf)
			if err != nil && err != io.EOF {
				nfail++
				lastFailed = off
				continue
			}
			end := off + int64(got)
			if verifying && (end > int64(len(blob)) || !bytes.Equal(buf[:got], blob[off:end])) {
				res = "wrong"
				e.r.Fail("predicate", "consumer/reused-reader-emits-wrong-bytes/"+c03Top(c.Stack),
					fmt.Sprintf("index reader used like a mount handle over %s: request %d (Seek %d, Read %d) was answered without error with %d bytes that are not the blob's bytes there (%d earlier requests had failed)",
						c.Stack.shape(), q, off, n, got, nfail), c)
				break
			}
		}
		if res == "ok" && nfail > 0 {
			res = "ok-after-failures"
		}
	case "readers":
		// two readers over the same store, used alternately: each holds its current chunk while
		// the other one loads
		r1, r2 := desync.NewIndexReadSeeker(idx, store), desync.NewIndexReadSeeker(idx, store)
		var o1, o2 []byte
		one := make([]byte, 1)
		var err1, err2 error
		pos2 := int64(0)
		if len(m.Sizes) > 1 {
			pos2 = int64(m.Sizes[0])
		}
		if _, err2 = r2.Seek(pos2, io.SeekStart); err2 == nil {
			for (err1 == nil || err2 == nil) && len(o1)+len(o2) < 2*len(blob)+4 {
				if err1 == nil {
					var n int
					n, err1 = r1.Read(one)
					o1 = append(o1, one[:n]...)
				}
				if err2 == nil {
					var n int
					n, err2 = r2.Read(one)
					o2 = append(o2, one[:n]...)
				}
			}
		}
		if err1 == io.EOF && err2 == io.EOF {
			res = "ok"
			if verifying && (!bytes.Equal(o1, blob) || !bytes.Equal(o2, blob[pos2:])) {
				res = "wrong"
				e.r.Fail("predicate", "consumer/two-readers-emit-wrong-bytes/"+c03Top(c.Stack),
					fmt.Sprintf("two index readers used alternately over %s both ended with io.EOF but their output differs from the %d-chunk blob", c.Stack.shape(), len(m.IDs)), c)
			}
		}
	}
	e.r.Dist("multi:" + m.Kind + "/" + res)
}

// ops as the oracle takes them: the read-seeker op carries the index size for the implementation only
func c03OracleOps(ops []string) []string {
	out := make([]string, len(ops))
	for i, op := range ops {
		f := strings.Split(op, ":")
		if (f[0] == "r" || f[0] == "m") && len(f) == 5 {
			op = strings.Join(f[:4], ":")
		}
		out[i] = op
	}
	return out
}

// consumer runs one consumer of chunks on the real stack:
//
//	x:<id>:<size>                         AssembleFile of a one-chunk index   (assemble.go writeChunk)
//	r:<id>:<nullid>:<nulldata>:<size>     reading a one-chunk index through IndexPos (readseeker.go loadChunk)
//
// Result "w:<hex>" (the bytes produced) or "fail".  Predicate: bytes produced through a verifying
// stack hash to the id of the index row.
func (e *c03Env) consumer(c *c03Case, store desync.Store, f []string, id desync.ChunkID, opi int, verifying bool) string {
	flags := uint64(desync.CaFormatExcludeNoDump)
	if c.Digest != "sha256" {
		flags |= desync.CaFormatSHA512256
	}
	var got []byte
	res := "fail"
	switch f[0] {
	case "x":
		size, _ := strconv.Atoi(f[2])
		idx := desync.Index{Index: desync.FormatIndex{FeatureFlags: flags, ChunkSizeMin: 1, ChunkSizeAvg: 64, ChunkSizeMax: 1 << 20},
			Chunks: []desync.IndexChunk{{ID: id, Start: 0, Size: uint64(size)}}}
		name := filepath.Join(e.caseDir(), fmt.Sprintf("out%d", opi))
		if _, err := desync.AssembleFile(context.Background(), name, idx, store, nil, desync.AssembleOptions{N: 1}); err == nil {
			got, _ = os.ReadFile(name)
			res = "w:" + vh.Hex(got)
		}
		os.Remove(name)
	case "r":
		null := vh.UnHex(f[3])
		size, _ := strconv.Atoi(f[4])
		idx := desync.Index{Index: desync.FormatIndex{FeatureFlags: flags, ChunkSizeMin: 1, ChunkSizeAvg: 64, ChunkSizeMax: uint64(len(null))},
			Chunks: []desync.IndexChunk{{ID: id, Start: 0, Size: uint64(size)}}}
		rs := desync.NewIndexReadSeeker(idx, store)
		buf := make([]byte, 4096)
		stuck := 0
		var err error
		for err == nil && stuck < 3 {
			var n int
			n, err = rs.Read(buf)
			got = append(got, buf[:n]...)
			if n == 0 && err == nil {
				stuck++
			}
		}
		switch {
		case stuck >= 3:
			res = "stuck"
			if verifying {
				e.r.Fail("predicate", "consumer/readseeker-stuck", "IndexPos.Read keeps returning (0, nil) on "+c.Stack.shape(), c)
			}
		case err == io.EOF && len(got) < size:
			// Read reported end of stream before the indexed length: loadChunk failed with an
			// error that IS io.EOF (Protocol.RequestChunk after the server went away) and
			// IndexPos.Read handed it on unchanged; io.Copy / io.ReadAll take that as success.
			// For the correspondence the observable is loadChunk's outcome (it failed).
			if verifying {
				e.r.Fail("predicate", "consumer/readseeker-eof-truncates",
					fmt.Sprintf("IndexPos.Read returned io.EOF after %d of %d bytes on %s: a store error equal to io.EOF ends the stream silently (io.Copy reports success)", len(got), size, c.Stack.shape()), c)
			}
			got = nil
		case err == io.EOF:
			res = "w:" + vh.Hex(got)
		}
	}
	if verifying && strings.HasPrefix(res, "w:") && desync.Digest.Sum(got) != id {
		e.r.Fail("predicate", "consumer/"+f[0]+"-emits-wrong-bytes/"+c03Top(c.Stack),
			fmt.Sprintf("consumer %s through %s produced %d bytes hashing to %s for index row %s", f[0], c.Stack.shape(), len(got), c03IDStr(desync.Digest.Sum(got))[:12], f[1][:12]), c)
	}
	e.r.Dist("consumer:" + f[0] + "/" + strings.SplitN(res, ":", 2)[0])
	return res
}

// correspond runs the extracted model on the same case and compares.
func (e *c03Env) correspond(c *c03Case, leaves []c03Leaf, after map[int]map[string][]byte) error {
	var objs []string
	for _, s := range c.Slots {
		objs = append(objs, fmt.Sprintf("%d:%s:%s", s.K, s.ID, s.Obj))
	}
	var acts []string
	c.Stack.walk(func(n *c03Node) {
		if n.T == "failover" {
			acts = append(acts, fmt.Sprintf("%d:0", n.F))
		}
	})
	var faults []string
	e.mu.Lock()
	for _, f := range e.rules {
		s := fmt.Sprintf("%s:%d:%s:%d:%d:%s", f.T, f.K, f.ID, f.From, f.To, f.F)
		if f.F == "rs" {
			fg := "1"
			if f.FlagUnset {
				fg = "0"
			}
			s += ":" + fg + ":" + f.Lbl
		}
		if f.F != "io" {
			s += ":" + f.Arg
		}
		faults = append(faults, s)
	}
	e.mu.Unlock()
	dec, comp, hash := map[string]string{}, map[string]string{}, map[string]string{}
	join := func(m map[string]string) string {
		var l []string
		for k, v := range m {
			l = append(l, k+":"+v)
		}
		sort.Strings(l)
		return strings.Join(l, ";")
	}
	var ans string
	for iter := 0; ; iter++ {
		if iter > 200 {
			return fmt.Errorf("oracle keeps asking")
		}
		var err error
		ans, err = e.o.Call("c03.run", c.Stack.oracle(), strings.Join(c03OracleOps(c.Ops), ";"), strings.Join(objs, ";"),
			strings.Join(acts, ";"), strings.Join(faults, ";"), join(dec), join(comp), join(hash))
		if err != nil {
			return err
		}
		if !strings.HasPrefix(ans, "NEED ") {
			break
		}
		f := strings.Fields(ans)
		b := vh.UnHex(f[2])
		switch f[1] {
		case "dec":
			if n, ok := zstdDeclaredSize(b); ok && n > 64<<20 {
				dec[vh.Hex(b)] = "!"
				e.r.Note("model asked to decode an object declaring %d bytes; answered 'error' without running the decoder", n)
			} else {
				dec[vh.Hex(b)] = e.zDec(b)
			}
		case "comp":
			comp[vh.Hex(b)] = e.zComp(b)
		case "hash":
			hash[vh.Hex(b)] = e.hashOf(b)
		}
	}
	e.r.Corr()
	parts := strings.Split(ans, " ")
	if len(parts) != 4 {
		return fmt.Errorf("oracle answer %q", ans)
	}
	c.Model = strings.Split(parts[0], "|")
	if len(c.Model) != len(c.Impl) {
		return fmt.Errorf("oracle answered %d results for %d ops", len(c.Model), len(c.Impl))
	}
	for i := range c.Impl {
		if c.Impl[i] != c.Model[i] {
			mi, ii := strings.SplitN(c.Model[i], ":", 2)[0], strings.SplitN(c.Impl[i], ":", 2)[0]
			obs := "data"
			if mi != ii {
				obs = "class"
			}
			e.r.Fail("corr", "corr:C03/getchunk-"+obs, fmt.Sprintf("op %d (%s) on %s: implementation %s, model %s", i, c.Ops[i][:14], c.Stack.shape(), c03Short(c.Impl)[i], c03Short(c.Model)[i]), c)
			return nil
		}
	}
	// the world afterwards: contents of the writable (local) backends
	model := map[int]map[string]string{}
	if parts[1] != "-" {
		for _, s := range strings.Split(parts[1], ";") {
			f := strings.Split(s, ":")
			k, _ := strconv.Atoi(f[0])
			if model[k] == nil {
				model[k] = map[string]string{}
			}
			model[k][f[1]] = f[2]
		}
	}
	for _, l := range leaves {
		if l.kind == "http" {
			continue
		}
		impl := after[l.k]
		for name, obj := range impl {
			if strings.HasPrefix(name, "tmp:") {
				continue
			}
			if m, ok := model[l.k][name]; !ok || m != vh.Hex(obj) {
				e.r.Fail("corr", "corr:C03/cache-content", fmt.Sprintf("backend %d slot %s: implementation holds %d bytes, model %v", l.k, name[:12], len(obj), ok), c)
				return nil
			}
		}
		for name := range model[l.k] {
			if _, ok := impl[name]; !ok {
				e.r.Fail("corr", "corr:C03/cache-content", fmt.Sprintf("backend %d slot %s: in the model's world only", l.k, name[:12]), c)
				return nil
			}
		}
	}
	return nil
}

// ---------- entry ----------

func runC03(a vh.Args, o *vh.Oracle, r *vh.Result) error {
	r.Rule = "one case = (store stack, stored objects incl. one damaged object or fault, request sequence) run on the real stores; non-trivial = a damaged object or injected fault is present; distinct by (stack shape, damage kind, digest, faults). CLI cases = (command, store format, damage kind)."
	e := &c03Env{a: a, o: o, r: r, dec: map[string]string{}, comp: map[string]string{}, hash: map[string]string{}, hangs: map[string]int{}}
	// HTTPHandlerBase.get prints every failed retrieval to os.Stderr
	if devnull, err := os.OpenFile(os.DevNull, os.O_WRONLY, 0); err == nil {
		saved := os.Stderr
		os.Stderr = devnull
		defer func() { os.Stderr = saved; devnull.Close() }()
	}
	e.fs = httptest.NewServer(http.HandlerFunc(e.serveFiles))
	defer e.fs.Close()
	if err := e.setupSSH(); err != nil {
		r.Note("%v", err)
	}
	e.setupS3()
	defer e.s3.Close()
	defer func() { desync.Digest = desync.SHA512256{} }()
	if a.Replay != "" {
		var c c03Case
		if err := readJSON(a.Replay, &c); err != nil {
			return err
		}
		if c.Stack == nil {
			var rc c03RaceCase
			if err := readJSON(a.Replay, &rc); err == nil && rc.Race != "" {
				if err := c03RaceRun(e, &rc); err != nil {
					return err
				}
				fmt.Printf("replay concurrent de-duplication (%s, write queue %v, GOMAXPROCS %d, %d waiters, %d rounds): %d rounds with a wrong answer; %s\n",
					rc.Race, rc.Write, rc.Procs, rc.Waiters, rc.Rounds, rc.Bad, rc.Example)
				return nil
			}
			return c03ReplayCLI(e, a.Replay)
		}
		if err := e.runCase(&c, true); err != nil {
			return err
		}
		fmt.Printf("replay %s on %s\n implementation: %v\n model:          %v\n", c.Name, c.Stack.shape(), c03Short(c.Impl), c03Short(c.Model))
		return nil
	}
	rnd := vh.NewRand(a.Seed)
	if err := c03Generate(e, rnd); err != nil {
		return err
	}
	t1 := time.Now()
	if err := c03Race(e, rnd.Fork()); err != nil {
		return err
	}
	t2 := time.Now()
	if err := c03CLI(e, rnd.Fork()); err != nil {
		return err
	}
	r.Note("stage times: concurrent de-duplication %.1fs, CLI pipelines %.1fs", t2.Sub(t1).Seconds(), time.Since(t2).Seconds())
	if e.tmpLeft > 0 {
		r.Note("%d times LocalStore.StoreChunk left a .tmp-cacnk file behind after a failed rename (directory in the chunk's slot); not a wrong-bytes question", e.tmpLeft)
	}
	if e.skippedBig > 0 {
		r.Note("%d cases not run: the planted zstd frame header declares more than 64 MiB of content and klauspost DecodeAll allocates the declared size up front (one flipped bit in a 20-byte object => 4 GiB allocation); that is a resource question (C19), not a wrong-bytes question", e.skippedBig)
	}
	return nil
}

func (e *c03Env) setupSSH() error {
	p := filepath.Join(e.a.Work, "fake-ssh")
	// ssh <host> -s sftp : this binary as SFTP server; ssh <host> <command>: run the command locally
	script := "#!/bin/sh\nif [ \"$2\" = \"-s\" ]; then exec \"$VH_SELF\" C03SFTP; fi\nshift\nexec /bin/sh -c \"$1\"\n"
	if err := os.WriteFile(p, []byte(script), 0755); err != nil {
		return err
	}
	os.Setenv("CASYNC_SSH_PATH", p)
	e.fakeSSH = p
	if self, err := os.Executable(); err == nil {
		e.self = self
		os.Setenv("VH_SELF", self)
	}
	bin := os.Getenv("VH_DESYNC")
	if bin == "" {
		return errors.New("VH_DESYNC not set: RemoteSSH cases skipped")
	}
	if _, err := os.Stat(bin); err != nil {
		return err
	}
	os.Setenv("CASYNC_REMOTE_PATH", bin)
	e.sshOK = true
	return nil
}

func c03IDStr(id [32]byte) string { return hex.EncodeToString(id[:]) }
