package main

// C07 -- a cancelled or interrupted operation never reports success.
//
// Library level: the context is cancelled inside the K-th scheduling point
// (yield hooks of the code under test and the harness' own store / filesystem
// call sites) for every K, for every long-running entry point and several
// worker counts.  Predicate (independent of the model): a nil result implies
// that the work is complete (file == blob / every chunk readable from the
// target / index describes the input / tree complete).  Correspondence: for
// the six feeder/worker entry points the result class must be a member of the
// outcome set the extracted pool model allows for that cancellation point.

import (
	"bytes"
	"context"
	"fmt"
	"os"
	"path/filepath"
	"sort"
	"strconv"
	"strings"
	"time"

	"github.com/folbricht/desync"

	"vh/internal/vh"
)

func init() { props["C07"] = runC07 }

type c07Case struct {
	Op       string   `json:"op"`
	Variant  string   `json:"variant"` // ok | bad@<j> | missing@<j> | seed-ok | seed-invalid/<action>
	N        int      `json:"n"`
	K        int      `json:"cancel_at_hit"` // 0 = before the call, -1 = never
	Sites    []string `json:"sites"`         // counted scheduling points (nil = all of the operation)
	BlobHex  string   `json:"blob_hex"`
	Sizes    []int    `json:"sizes"`
	Min      uint64   `json:"min,omitempty"`
	Avg      uint64   `json:"avg,omitempty"`
	Max      uint64   `json:"max,omitempty"`
	Level    string   `json:"level"`               // library | cli
	DelayMs  int      `json:"delay_ms,omitempty"`  // pause inside the K-th hit before cancelling
	CtxBound bool     `json:"ctx_bound,omitempty"` // the stores are bound to the context: a call fails once the context is done

	Got      string `json:"impl_result,omitempty"`
	Complete bool   `json:"impl_complete"`
	Detail   string `json:"detail,omitempty"`
	Fired    bool   `json:"cancel_fired"`
	Hits     int    `json:"hits"`
	Model    string `json:"model_outcomes,omitempty"`
}

func (c *c07Case) input() bkInput { return bkInput{Blob: vh.UnHex(c.BlobHex), Sizes: c.Sizes} }

func c07Variant(v string) (kind string, j int) {
	if i := strings.IndexByte(v, '@'); i >= 0 {
		j, _ = strconv.Atoi(v[i+1:])
		return v[:i], j
	}
	return v, -1
}

// c07Sites lists, per operation, the scheduling points that double as cancellation points.
var c07Sites = map[string][]string{
	"verifyindex":   {"verifyindex.feed"},
	"chop":          {"chop.feed", "st.has", "st.store"},
	"copy":          {"copy.feed", "st.has", "st.get", "st.store"},
	"chunkstream":   {"chunkstream.feed", "st.has", "st.store", "rd.read"},
	"assemble":      {"validate.feed", "assemble.feed", "assemble.job", "assemble.add", "st.get"},
	"validate":      {"validate.feed"},
	"assemble-seed": {"validate.feed", "assemble.feed", "assemble.job", "assemble.add", "st.get", "pchunk.next", "pchunk.send"},
	"indexfromfile": {"pchunk.next", "pchunk.send", "pchunk.sync", "pchunk.skip", "pchunk.syncrecv", "pchunk.nullrecv"},
	"untarindex":    {"untarindex.feed", "st.get", "fs.create"},
	"untar":         {"fs.create", "rd.read"},
	"tar":           {"fs.next", "wr.write", "fd.read"},
}

// feeder site of the six pool-shaped entry points (model correspondence)
var c07Feed = map[string]string{
	"verifyindex": "verifyindex.feed", "chop": "chop.feed", "copy": "copy.feed",
	"chunkstream": "chunkstream.feed", "assemble": "assemble.feed", "validate": "validate.feed",
}

type tickReader struct {
	r    *bytes.Reader
	tick func(string)
}

func (t *tickReader) Read(p []byte) (int, error) { t.tick("rd.read"); return t.r.Read(p) }

// c07Exec runs one case on the implementation and fills Got/Complete/Detail.
func c07Exec(a vh.Args, c *c07Case) error {
	desync.Digest = desync.SHA512256{}
	in := c.input()
	idx := in.index()
	work := filepath.Join(a.Work, "c07")
	os.RemoveAll(work)
	if err := os.MkdirAll(work, 0755); err != nil {
		return err
	}
	kind, j := c07Variant(c.Variant)
	sites := c.Sites
	if sites == nil {
		sites = c07Sites[c.Op]
	}
	var complete func() string
	var run func(ctx context.Context, cc *canceller) error
	stHookCtx := func(ctx context.Context, cc *canceller) opHook {
		return func(k string, id desync.ChunkID) error {
			cc.tick("st." + k)
			if c.CtxBound && ctx.Err() != nil {
				return errCtxBound // an in-flight request of a context-bound store fails after the cancellation
			}
			return nil
		}
	}
	pb := desync.NullProgressBar{}

	switch c.Op {
	case "verifyindex":
		file := append([]byte{}, in.Blob...)
		if kind == "bad" {
			file[chunkStartOf(in.Sizes, j)] ^= 0x40
		}
		name := filepath.Join(work, "file")
		if err := os.WriteFile(name, file, 0644); err != nil {
			return err
		}
		run = func(ctx context.Context, cc *canceller) error {
			return desync.VerifyIndex(ctx, name, idx, c.N, pb)
		}
		complete = func() string {
			if !bytes.Equal(file, in.Blob) {
				return "the file differs from the indexed blob"
			}
			return ""
		}

	case "chop":
		name := filepath.Join(work, "file")
		if err := os.WriteFile(name, in.Blob, 0644); err != nil {
			return err
		}
		ls, dir, err := bkNewStore(work, "target")
		if err != nil {
			return err
		}
		chunks := append([]desync.IndexChunk{}, idx.Chunks...)
		if kind == "bad" {
			chunks[j].ID[0] ^= 0xff
		}
		run = func(ctx context.Context, cc *canceller) error {
			return desync.ChopFile(ctx, name, chunks, &hookStore{ls, stHookCtx(ctx, cc)}, c.N, pb)
		}
		complete = func() string {
			if kind == "bad" {
				return "row " + strconv.Itoa(j) + " of the index does not match the file"
			}
			return bkReadBack(dir, idx, in.Blob)
		}

	case "copy":
		var missing desync.ChunkID
		if kind == "missing" {
			missing = idx.Chunks[j].ID
		}
		ids := make([]desync.ChunkID, len(idx.Chunks))
		for i := range idx.Chunks {
			ids[i] = idx.Chunks[i].ID
		}
		src, _, err := bkCachedStore(a.Work, "copy|"+c.Variant+"|"+c.BlobHex+fmt.Sprint(c.Sizes), func(ls desync.LocalStore) error {
			for i, ch := range in.chunks() {
				if kind == "missing" && ids[i] == missing {
					continue
				}
				if err := ls.StoreChunk(desync.NewChunk(ch)); err != nil {
					return err
				}
			}
			return nil
		})
		if err != nil {
			return err
		}
		dst, dir, err := bkNewStore(work, "dst")
		if err != nil {
			return err
		}
		run = func(ctx context.Context, cc *canceller) error {
			return desync.Copy(ctx, ids, &hookStore{src, stHookCtx(ctx, cc)}, &hookStore{dst, stHookCtx(ctx, cc)}, c.N, pb)
		}
		complete = func() string { return bkReadBack(dir, idx, in.Blob) }

	case "chunkstream":
		ls, dir, err := bkNewStore(work, "target")
		if err != nil {
			return err
		}
		var got desync.Index
		run = func(ctx context.Context, cc *canceller) error {
			ch, err := desync.NewChunker(&tickReader{bytes.NewReader(in.Blob), cc.tick}, c.Min, c.Avg, c.Max)
			if err != nil {
				return err
			}
			got, err = desync.ChunkStream(ctx, ch, &hookStore{ls, stHookCtx(ctx, cc)}, c.N)
			return err
		}
		complete = func() string {
			if d := bkIndexDescribes(got, in.Blob); d != "" {
				return "index: " + d
			}
			return bkReadBack(dir, got, in.Blob)
		}

	case "indexfromfile":
		name := filepath.Join(work, "file")
		if err := os.WriteFile(name, in.Blob, 0644); err != nil {
			return err
		}
		var got desync.Index
		run = func(ctx context.Context, cc *canceller) error {
			var err error
			got, _, err = desync.IndexFromFile(ctx, name, c.N, c.Min, c.Avg, c.Max, pb)
			return err
		}
		complete = func() string { return bkIndexDescribes(got, in.Blob) }

	case "assemble", "assemble-seed":
		mkey := "ok"
		if kind == "missing" {
			mkey = c.Variant
		}
		ls, _, err := bkCachedStore(a.Work, "assemble|"+mkey+"|"+c.BlobHex+fmt.Sprint(c.Sizes), func(ls desync.LocalStore) error {
			for i, ch := range in.chunks() {
				if kind == "missing" && idx.Chunks[i].ID == idx.Chunks[j].ID {
					continue
				}
				if err := ls.StoreChunk(desync.NewChunk(ch)); err != nil {
					return err
				}
			}
			return nil
		})
		if err != nil {
			return err
		}
		out := filepath.Join(work, "out")
		var seeds []desync.Seed
		opt := desync.AssembleOptions{N: c.N}
		if c.Op == "assemble-seed" {
			// the seed file holds the chunks of the blob in reverse order; the "invalid" variants change
			// one byte of it after its index has been made
			sin := bkInput{}
			chs := in.chunks()
			for i := len(chs) - 1; i >= 0; i-- {
				sin.Blob = append(sin.Blob, chs[i]...)
				sin.Sizes = append(sin.Sizes, len(chs[i]))
			}
			sidx := sin.index()
			sfile := append([]byte{}, sin.Blob...)
			if strings.HasPrefix(kind, "seed-invalid") {
				sfile[len(sfile)/2] ^= 0x10
				switch strings.TrimPrefix(kind, "seed-invalid/") {
				case "skip":
					opt.InvalidSeedAction = desync.InvalidSeedActionSkip
				case "regenerate":
					opt.InvalidSeedAction = desync.InvalidSeedActionRegenerate
				default:
					opt.InvalidSeedAction = desync.InvalidSeedActionBailOut
				}
			}
			sname := filepath.Join(work, "seed")
			if err := os.WriteFile(sname, sfile, 0644); err != nil {
				return err
			}
			seed, err := desync.NewIndexSeed(out, sname, sidx)
			if err != nil {
				return err
			}
			seeds = []desync.Seed{seed}
		}
		run = func(ctx context.Context, cc *canceller) error {
			_, err := desync.AssembleFile(ctx, out, idx, &hookStore{ls, stHookCtx(ctx, cc)}, seeds, opt)
			return err
		}
		complete = func() string {
			b, err := os.ReadFile(out)
			if err != nil {
				return err.Error()
			}
			if !bytes.Equal(b, in.Blob) {
				return fmt.Sprintf("output file (%d bytes) differs from the blob (%d bytes)", len(b), len(in.Blob))
			}
			return ""
		}

	case "validate":
		// sequencer.go Plan.Validate on a plan whose segments all come from one file seed (the chunks of
		// the blob in reverse order, so every segment is one chunk); "bad@j": the seed bytes behind plan
		// segment j were changed after the seed index was made
		sin := bkInput{}
		chs := in.chunks()
		for i := len(chs) - 1; i >= 0; i-- {
			sin.Blob = append(sin.Blob, chs[i]...)
			sin.Sizes = append(sin.Sizes, len(chs[i]))
		}
		sidx := sin.index()
		sfile := append([]byte{}, sin.Blob...)
		if kind == "bad" {
			sfile[chunkStartOf(sin.Sizes, len(chs)-1-j)] ^= 0x08
		}
		sname := filepath.Join(work, "seed")
		if err := os.WriteFile(sname, sfile, 0644); err != nil {
			return err
		}
		seed, err := desync.NewIndexSeed(filepath.Join(work, "out"), sname, sidx)
		if err != nil {
			return err
		}
		plan := desync.NewSeedSequencer(idx, seed).Plan()
		run = func(ctx context.Context, cc *canceller) error {
			return plan.Validate(ctx, c.N, pb)
		}
		complete = func() string {
			if kind == "bad" {
				return "the seed file does not match its index at plan segment " + strconv.Itoa(j)
			}
			return ""
		}

	case "untarindex", "untar", "tar":
		var err error
		run, complete, err = c07TreeOp(work, c, in)
		if err != nil {
			return err
		}

	default:
		return fmt.Errorf("unknown op %q", c.Op)
	}

	err, hits, fired, finished := withCancelAt(c.K, time.Duration(c.DelayMs)*time.Millisecond, sites, run)
	c.Hits, c.Fired = hits, fired
	if !finished {
		c.Got = "hang"
		return nil
	}
	c.Got = bkErrClass(err)
	if err != nil {
		c.Detail = err.Error()
	}
	d := complete()
	c.Complete = d == ""
	if d != "" && c.Detail == "" {
		c.Detail = d
	}
	return nil
}

func chunkStartOf(sizes []int, k int) int {
	s := 0
	for i := 0; i < k; i++ {
		s += sizes[i]
	}
	return s
}

var c07ModelCache = map[string]string{}

// c07BadJobs returns the indices of the feeder jobs that fail under the variant (pool-shaped ops only).
func c07BadJobs(c *c07Case, idx desync.Index) []int {
	kind, j := c07Variant(c.Variant)
	switch {
	case c.Op == "verifyindex" && kind == "bad":
		batch := len(idx.Chunks) / (c.N * 10)
		return []int{j / (batch + 1)}
	case (c.Op == "chop" || c.Op == "validate") && kind == "bad":
		return []int{j}
	case (c.Op == "copy" || c.Op == "assemble") && kind == "missing":
		var out []int
		for i, ch := range idx.Chunks {
			if ch.ID == idx.Chunks[j].ID {
				out = append(out, i)
			}
		}
		return out
	}
	return nil
}

// c07Check evaluates one case: predicate, and (when njobs >= 0) the model correspondence.
func c07Check(a vh.Args, o *vh.Oracle, r *vh.Result, c *c07Case, njobs int) error {
	if err := c07Exec(a, c); err != nil {
		return err
	}
	siteTag := "all"
	if c.Sites != nil {
		siteTag = strings.Join(c.Sites, "+")
	}
	key := fmt.Sprintf("%s|%s|%d|%d|%s|%d|%d|%v", c.Op, c.Variant, c.N, c.K, siteTag, len(c.Sizes), c.DelayMs, c.CtxBound)
	r.Count(key, c.Fired)
	r.Dist("op:" + c.Op)
	r.Dist("n:" + strconv.Itoa(c.N))
	r.Dist("result:" + c.Op + "/" + c.Got)
	if c.Fired {
		r.Dist("cancel:fired")
	} else {
		r.Dist("cancel:not-reached")
	}
	r.Sample(map[string]interface{}{"op": c.Op, "variant": c.Variant, "n": c.N, "cancel_at_hit": c.K, "chunks": len(c.Sizes), "impl": c.Got, "complete": c.Complete})

	// ---- the property predicate ----
	switch {
	case c.Got == "hang":
		r.Fail("predicate", c.Op+"/hang-after-cancel", fmt.Sprintf("%s did not return within 30s (cancel at hit %d, n=%d)", c.Op, c.K, c.N), c)
	case c.Got == "nil" && !c.Complete:
		r.Fail("predicate", c.Op+"/nil-but-incomplete", fmt.Sprintf("%s returned nil after cancellation at hit %d (n=%d, variant %s%s) but the work is not complete: %s", c.Op, c.K, c.N, c.Variant, map[bool]string{true: ", context-bound stores", false: ""}[c.CtxBound], c.Detail), c)
	case c.Fired && !c.CtxBound && (c.Variant == "ok" || c.Variant == "seed-ok") && c.Got == "err" && c.Op != "untarindex" && c.Op != "untar":
		// nothing is wrong with the input and nothing but the cancellation happened: the error must be Interrupted
		// (UnTar/UnTarIndex excepted: the decoder may legitimately report the truncated stream first)
		r.Fail("predicate", c.Op+"/cancel-reported-as-other-error", fmt.Sprintf("%s (n=%d) was cancelled at hit %d and returned a non-Interrupted error: %s", c.Op, c.N, c.K, c.Detail), c)
	case !c.Fired && c.Variant == "ok" && c.Got != "nil":
		// no cancellation reached the operation and nothing is wrong with the input: it must succeed
		r.Fail("predicate", c.Op+"/error-without-cancel", fmt.Sprintf("%s returned %s (%s) although the context was never cancelled", c.Op, c.Got, c.Detail), c)
	}

	// ---- model correspondence (pool-shaped entry points, feeder-site cancellation) ----
	if o == nil || njobs < 0 || c.Got == "hang" {
		return nil
	}
	nwModel := c.N
	if njobs > 6 && nwModel > 2 || njobs > 4 && nwModel > 3 || njobs > 9 {
		return nil // state space too large for the exhaustive enumeration
	}
	cat := "-"
	if c.K == 0 {
		cat = "0"
	} else if c.K > 0 && c.K <= njobs {
		cat = strconv.Itoa(c.K - 1)
	}
	bad := c07BadJobs(c, c.input().index())
	bs := make([]string, len(bad))
	for i, b := range bad {
		bs[i] = strconv.Itoa(b)
	}
	mk := fmt.Sprintf("%d %d %s %s", njobs, nwModel, cat, strings.Join(bs, ","))
	ans, ok := c07ModelCache[mk]
	if !ok {
		var err error
		ans, err = o.Call("c07.outcomes", strconv.Itoa(njobs), strconv.Itoa(nwModel), cat, strings.Join(bs, ","))
		if err != nil {
			return err
		}
		c07ModelCache[mk] = ans
	}
	c.Model = ans
	if ans == "NONE" {
		return nil
	}
	r.Corr()
	allowed := map[string]bool{}
	for _, oc := range strings.Split(ans, ",") {
		allowed[strings.SplitN(oc, ":", 2)[0]] = true
	}
	if !allowed[c.Got] {
		r.Fail("corr", "corr:C07/result-class", fmt.Sprintf("%s (n=%d, %d jobs, cancel as job %s is offered, failing jobs %v): implementation returned %s, the model allows {%s}", c.Op, c.N, njobs, cat, bad, c.Got, ans), c)
	}
	return nil
}

func runC07(a vh.Args, o *vh.Oracle, r *vh.Result) error {
	r.Rule = "case = (entry point, input variant, worker count n, K): the context is cancelled inside the K-th scheduling point (yield hooks + store/filesystem calls; K=0 before the call); non-trivial = the cancellation fired while the operation was running; distinct by (op, variant, n, K, counted sites, chunk count). Predicate: nil => work complete. CLI level: SIGINT/SIGTERM to `desync extract` while the K-th chunk request is held."
	if a.Replay != "" {
		var c c07Case
		if err := readJSON(a.Replay, &c); err != nil {
			return err
		}
		if c.Level == "cli" {
			return c07CLIReplay(a, r, &c)
		}
		// nondeterministic scheduling: repeat the stored case
		for i := 0; i < 20; i++ {
			cc := c
			if err := c07Check(a, o, r, &cc, -1); err != nil {
				return err
			}
		}
		return nil
	}
	rng := vh.NewRand(a.Seed)
	thorough := a.Tier == "thorough"

	type opSpec struct {
		op       string
		variants func(in bkInput) []string
		chunker  bool
	}
	last := func(in bkInput) int { return len(in.Sizes) - 1 }
	specs := []opSpec{
		{"verifyindex", func(in bkInput) []string {
			return []string{"ok", fmt.Sprintf("bad@%d", last(in)), fmt.Sprintf("bad@%d", rng.Intn(len(in.Sizes)))}
		}, false},
		{"chop", func(in bkInput) []string { return []string{"ok", fmt.Sprintf("bad@%d", last(in))} }, false},
		{"copy", func(in bkInput) []string { return []string{"ok", fmt.Sprintf("missing@%d", rng.Intn(len(in.Sizes)))} }, false},
		{"chunkstream", func(in bkInput) []string { return []string{"ok"} }, true},
		{"assemble", func(in bkInput) []string { return []string{"ok", fmt.Sprintf("missing@%d", rng.Intn(len(in.Sizes)))} }, false},
		{"validate", func(in bkInput) []string {
			return []string{"ok", fmt.Sprintf("bad@%d", last(in)), fmt.Sprintf("bad@%d", rng.Intn(len(in.Sizes)))}
		}, false},
		{"assemble-seed", func(in bkInput) []string {
			return []string{"seed-ok", "seed-invalid/skip", "seed-invalid/regenerate", "seed-invalid/bailout"}
		}, false},
		{"indexfromfile", func(in bkInput) []string { return []string{"ok"} }, true},
	}
	ns := []int{1, 2, 4}
	inputsPerOp := 2
	maxK := 14
	if thorough {
		inputsPerOp = 6
		maxK = 400
	}
	for _, sp := range specs {
		t0 := time.Now()
		ev0 := r.Evaluations
		for ii := 0; ii < inputsPerOp; ii++ {
			var in bkInput
			var c0 c07Case
			if sp.chunker {
				// content-defined chunking: random blob, tiny chunk sizes
				size := 600 + rng.Intn(2500)
				blob, _ := vh.Blob(rng, size)
				if ii == 0 {
					blob = rng.Bytes(size)
				}
				in = bkInput{Blob: blob}
				c0.Min, c0.Avg, c0.Max = 64, 128, 256
				if rng.Bool() {
					c0.Min, c0.Avg, c0.Max = 48, 96, 400
				}
			} else {
				nch := 3 + rng.Intn(6)
				if ii > 0 {
					nch = 8 + rng.Intn(25)
				}
				distinct := nch
				if sp.op != "assemble" && sp.op != "validate" && ii%2 == 1 {
					distinct = 1 + nch/3
				}
				in = bkDupInput(rng, nch, distinct, 40)
			}
			c0.Op, c0.BlobHex, c0.Sizes, c0.Level = sp.op, vh.Hex(in.Blob), in.Sizes, "library"
			vars := []string{"ok"}
			if len(in.Sizes) > 0 {
				vars = sp.variants(in)
			}
			for _, v := range vars {
				for _, n := range ns {
					if !thorough && ii > 0 && n == 2 {
						continue
					}
					// baseline: no cancellation
					base := c0
					base.Variant, base.N, base.K = v, n, -1
					if err := c07Check(a, o, r, &base, -1); err != nil {
						return err
					}
					total := base.Hits
					// (A) every scheduling point of the operation (skipped when the feeder site is the only one: (B) covers it)
					ks := pickKs(rng, total+1, maxK)
					if f, ok := c07Feed[sp.op]; ok && len(c07Sites[sp.op]) == 1 && c07Sites[sp.op][0] == f {
						ks = nil
					}
					for _, k := range ks {
						c := c0
						c.Variant, c.N, c.K = v, n, k
						if err := c07Check(a, o, r, &c, -1); err != nil {
							return err
						}
					}
					// (A') context-bound stores: the call inside which the context is cancelled, and every later one, fails.
					// Store call sites only, the last ones always included (after the feeder handed out the last job).
					if v == "ok" && (sp.op == "copy" || sp.op == "chop" || sp.op == "chunkstream" || sp.op == "assemble") {
						var stSites []string
						for _, st := range c07Sites[sp.op] {
							if strings.HasPrefix(st, "st.") {
								stSites = append(stSites, st)
							}
						}
						sb := c0
						sb.Variant, sb.N, sb.K, sb.Sites = v, n, -1, stSites
						if err := c07Exec(a, &sb); err != nil {
							return err
						}
						ks := pickKs(rng, sb.Hits, 6)
						for back := 0; back < 3*n && back < sb.Hits; back++ {
							ks = append(ks, sb.Hits-back)
						}
						for _, k := range ks {
							if k < 1 {
								continue
							}
							c := c0
							c.Variant, c.N, c.K, c.Sites, c.CtxBound = v, n, k, stSites, true
							if err := c07Check(a, o, r, &c, -1); err != nil {
								return err
							}
						}
					}
					// (B) feeder-site cancellation with model correspondence
					if feed, ok := c07Feed[sp.op]; ok {
						fb := c0
						fb.Variant, fb.N, fb.K, fb.Sites = v, n, -1, []string{feed}
						if err := c07Exec(a, &fb); err != nil {
							return err
						}
						njobs := fb.Hits
						if fb.Got != "nil" {
							// with a failing job the feeder may stop early: the job count is that of the "ok" variant
							ok0 := c0
							ok0.Variant, ok0.N, ok0.K, ok0.Sites = "ok", n, -1, []string{feed}
							if err := c07Exec(a, &ok0); err != nil {
								return err
							}
							njobs = ok0.Hits
						}
						for _, k := range pickKs(rng, njobs+1, maxK) {
							c := c0
							c.Variant, c.N, c.K, c.Sites = v, n, k, []string{feed}
							if err := c07Check(a, o, r, &c, njobs); err != nil {
								return err
							}
						}
					}
				}
			}
		}
		r.Note("time %s: %.1fs for %d cases", sp.op, time.Since(t0).Seconds(), r.Evaluations-ev0)
	}
	tt := time.Now()
	if err := c07Trees(a, o, r, rng); err != nil {
		return err
	}
	r.Note("time trees: %.1fs", time.Since(tt).Seconds())
	tt = time.Now()
	err := c07CLI(a, r, rng)
	r.Note("time cli: %.1fs", time.Since(tt).Seconds())
	return err
}

// pickKs returns 0..max if that is at most limit values, else limit values spread over the range (always 0, 1, max).
func pickKs(rng *vh.Rand, max, limit int) []int {
	if max+1 <= limit {
		out := make([]int, max+1)
		for i := range out {
			out[i] = i
		}
		return out
	}
	set := map[int]bool{0: true, 1: true, max: true, max - 1: true}
	for len(set) < limit {
		set[rng.Intn(max+1)] = true
	}
	out := make([]int, 0, len(set))
	for k := range set {
		out = append(out, k)
	}
	sort.Ints(out)
	return out
}
